(* C07, heap statements on AArch64: the heap-level meaning of the reference-count code of a substitution
   (Proof/A64Exec.v `share_h` / `erase_h`, Proof/A64Subst.v `rc_h`: exact heap maps) abstracts to the
   operations of the abstract allocator (Heap.share / Heap.erase) as long as no count wraps; only block
   headers change.  Port of Proof/X86HSubstHeap.v.

   The one difference to x86-64: `erase_h` of AArch64 tests `wrap header = 0` (CMP #0 sets Z from the 64-bit
   result) where the abstract allocator tests `header = 0`; `erase_h_abs` therefore asks for the header to be a
   64-bit value above min_int (`min_int + 1 <= header <= max_int`, which also keeps the decrement from wrapping).
   The bound `hb2 B` with `B + 2^31 <= 2^62` of `rc_step_abs` / `rc_fold_abs` implies it, so the statements from
   `rc_good` on are literally the x86-64 ones. *)
From Coq Require Import List ZArith NArith String Bool Lia FMapPositive.
From SCC Require Import Base.Sexp Lang.AxSyn Sem.AxSem Sem.AxHeap Model.ParMoves Model.Backend Model.A64 Sem.A64Sem
     Generated.Constants Proof.A64State Proof.A64Sel Proof.A64PM Proof.A64Exec Proof.A64MemSubst Proof.SubstGraph
     Proof.A64Subst Proof.A64Mem.
From SCC Require Model.Heap Proof.X86Mem Proof.X86MemFrame Proof.X86HeapDefs.
Import ListNotations.
Open Scope Z_scope.

Notation LIMIT := X86HeapDefs.LIMIT.

Definition absH (F H : Z) (hf : PM.t Z * Z) : Heap.st :=
  {| Heap.m := fun a => {| Heap.hdr := hget (fst hf) a;
                           Heap.ps := [hget (fst hf) (a + 16); hget (fst hf) (a + 32); hget (fst hf) (a + 48)] |};
     Heap.heap := H; Heap.free := snd hf; Heap.frontier := F |}.
Lemma absH_abs F s : absH F (reg_or0 s HEAP) (heap s, reg_or0 s FREE) = abs_heap F s.
Proof. reflexivity. Qed.

Lemma absH_set_hdr F H h f f' p v :
  is_blk p -> st_eqB (absH F H (PM.add (key p) v h, f'))
    {| Heap.m := Heap.set_hdr (Heap.m (absH F H (h, f))) p v; Heap.heap := H; Heap.free := f'; Heap.frontier := F |}.
Proof.
  intros Hp. pose proof (is_blk_pos p Hp) as Pp. split; [reflexivity|]. split; [reflexivity|]. split; [reflexivity|].
  intros x Hx. cbn [absH Heap.m fst]. unfold Heap.set_hdr, Heap.upd.
  destruct (Z.eqb_spec x p) as [->|Hne].
  - cbn [Heap.hdr Heap.ps]. rewrite !hget_add by exact Pp. rewrite Z.eqb_refl.
    destruct (Z.eqb_spec (p + 16) p); [lia|]. destruct (Z.eqb_spec (p + 32) p); [lia|]. destruct (Z.eqb_spec (p + 48) p); [lia|]. reflexivity.
  - destruct (X86MemFrame.is_blk_apart x p Hx Hp Hne) as [A|A]; rewrite !hget_add by exact Pp;
      repeat match goal with |- context [?a =? p] => destruct (Z.eqb_spec a p); [lia|] end; reflexivity.
Qed.

Lemma share_h_abs F H p n hf :
  (p = 0 \/ is_blk p) -> (p <> 0 -> wrap (hget (fst hf) p + n) = hget (fst hf) p + n) ->
  st_eqB (absH F H (share_h p n hf)) (Heap.share p n (absH F H hf)).
Proof.
  intros Hp Hw. destruct hf as [h f]. unfold share_h, Heap.share. cbn [fst snd] in *.
  destruct (Z.eqb_spec p 0) as [->|Hp0]; [apply X86Mem.st_eqB_refl|]. destruct Hp as [|Hb]; [contradiction|].
  rewrite (Hw Hp0). eapply X86Mem.st_eqB_trans; [apply (absH_set_hdr F H h f f p _ Hb)|]. apply X86Mem.st_eqB_refl.
Qed.
(* AArch64: the header must be a 64-bit value (the machine tests `wrap header = 0`), above min_int (the decrement) *)
Lemma erase_h_abs F H p hf :
  (p = 0 \/ is_blk p) -> (p <> 0 -> min_int + 1 <= hget (fst hf) p <= max_int) ->
  st_eqB (absH F H (erase_h p hf)) (Heap.erase p (absH F H hf)).
Proof.
  intros Hp Hw. destruct hf as [h f]. unfold Heap.erase. cbn [fst snd] in *.
  destruct (Z.eqb_spec p 0) as [->|Hp0]; [unfold erase_h; cbn [Z.eqb]; apply X86Mem.st_eqB_refl|].
  destruct Hp as [|Hb]; [contradiction|]. specialize (Hw Hp0).
  rewrite erase_h_in64 by (cbn [fst]; lia). cbn [fst snd].
  destruct (Z.eqb_spec p 0) as [|_]; [contradiction|].
  change (Heap.hdr (Heap.m (absH F H (h, f)) p)) with (hget h p).
  destruct (Z.eqb_spec (hget h p) 0) as [H0|Hn0].
  - eapply X86Mem.st_eqB_trans; [apply (absH_set_hdr F H h f p p _ Hb)|]. apply X86Mem.st_eqB_refl.
  - rewrite (wrap_in64 (hget h p - 1)) by lia.
    eapply X86Mem.st_eqB_trans; [apply (absH_set_hdr F H h f f p _ Hb)|]. apply X86Mem.st_eqB_refl.
Qed.

(* the abstract operation of a reference-count instruction *)
Definition rc_abs (s0 : astate) (sp : Z) (o : @rc_op atemp) : Heap.op :=
  match o with
  | RcErase t => Heap.OErase (ptr_of s0 sp t)
  | RcShare t n => Heap.OShare (ptr_of s0 sp t) (Z.of_N n)
  end.
Definition rc_good (s0 : astate) (sp : Z) (o : @rc_op atemp) : Prop :=
  (ptr_of s0 sp (rc_temp o) = 0 \/ is_blk (ptr_of s0 sp (rc_temp o))) /\
  match o with RcShare _ n => Z.of_N n <= 2147483648 | RcErase _ => True end.

Definition hb2 (B : Z) (hf : PM.t Z * Z) : Prop :=
  (forall x, is_blk x -> - B <= hget (fst hf) x <= B) /\ 0 <= snd hf <= B.

Lemma step_eqB o a b : st_eqB a b ->
  match o with Heap.OShare p _ | Heap.OErase p => p = 0 \/ is_blk p | _ => False end ->
  st_eqB (Heap.step a o) (Heap.step b o).
Proof.
  intros E Ho. destruct o; try contradiction; cbn [Heap.step];
    [now apply X86MemFrame.share_st_eqB|now apply X86Mem.erase_st_eqB].
Qed.
Lemma hrun_eqB : forall ops a b, st_eqB a b ->
  Forall (fun o => match o with Heap.OShare p _ | Heap.OErase p => p = 0 \/ is_blk p | _ => False end) ops ->
  st_eqB (hrun ops a) (hrun ops b).
Proof.
  unfold hrun. induction ops as [|o ops IH]; intros a b E Hf; cbn [fold_left]; [exact E|].
  inversion Hf; subst. apply IH; [|assumption]. now apply step_eqB.
Qed.

Lemma rc_step_abs F H s0 sp o hf B :
  rc_good s0 sp o -> hb2 B hf -> LIMIT <= B -> B + 2147483648 <= 4611686018427387904 ->
  st_eqB (absH F H (rc_h s0 sp o hf)) (Heap.step (absH F H hf) (rc_abs s0 sp o)) /\
  (forall a, ~ is_blk a -> hget (fst (rc_h s0 sp o hf)) a = hget (fst hf) a) /\
  hb2 (B + 2147483648) (rc_h s0 sp o hf).
Proof.
  intros [Hp Hn] [HB1 HB2] HL HS.
  assert (WR : forall z, - B - 2147483648 <= z <= B + 2147483648 -> wrap z = z).
  { intros z Hz. apply wrap_in64. unfold min_int, max_int, two63. lia. }
  assert (IN : forall x, is_blk x -> min_int + 1 <= hget (fst hf) x <= max_int).
  { intros x Hx. specialize (HB1 x Hx). unfold min_int, max_int, two63. lia. }
  destruct o as [t|t n]; cbn [rc_h rc_abs rc_temp Heap.step] in *; set (p := ptr_of s0 sp t) in *.
  - split; [|split].
    + apply erase_h_abs; [exact Hp|]. intros Hp0. destruct Hp as [|Hb]; [contradiction|]. apply IN, Hb.
    + intros a Ha. destruct (Z.eqb_spec p 0) as [E0|E0]; [unfold erase_h; rewrite E0; reflexivity|].
      destruct Hp as [Hp|Hb]; [contradiction|].
      rewrite erase_h_in64 by (pose proof (IN p Hb); lia). destruct hf as [h f]. cbn [fst snd].
      destruct (Z.eqb_spec p 0) as [|_]; [contradiction|].
      destruct (hget h p =? 0); cbn [fst]; rewrite hget_add by (now apply is_blk_pos);
        (destruct (Z.eqb_spec a p) as [->|]; [contradiction|reflexivity]).
    + destruct (Z.eqb_spec p 0) as [E0|E0].
      { unfold erase_h. rewrite E0. cbn [Z.eqb]. split; [intros x Hx; specialize (HB1 x Hx); lia|lia]. }
      destruct Hp as [|Hb]; [contradiction|]. pose proof (is_blk_pos p Hb) as Pp.
      rewrite erase_h_in64 by (pose proof (IN p Hb); lia). destruct hf as [h f]. cbn [fst snd] in *.
      destruct (Z.eqb_spec p 0) as [|_]; [contradiction|].
      assert (Pl : p <= LIMIT) by (destruct Hb as (k & Hk & -> & Hh); unfold X86HeapDefs.LIMIT; lia).
      destruct (Z.eqb_spec (hget h p) 0) as [H0|Hn0]; cbn [fst snd].
      * split; cbn [fst snd]; [|lia]. intros x Hx. rewrite hget_add by exact Pp. destruct (x =? p); [lia|specialize (HB1 x Hx); lia].
      * split; cbn [fst snd]; [|lia]. intros x Hx. rewrite hget_add by exact Pp. pose proof (HB1 p Hb). rewrite WR by lia.
        destruct (x =? p); [lia|specialize (HB1 x Hx); lia].
  - split; [|split].
    + apply share_h_abs; [exact Hp|]. intros Hp0. destruct Hp as [|Hb]; [contradiction|]. apply WR. specialize (HB1 p Hb). lia.
    + intros a Ha. destruct hf as [h f]. unfold share_h. cbn [fst snd].
      destruct (p =? 0) eqn:E0; [reflexivity|]. destruct Hp as [Hp|Hb]; [rewrite Hp in E0; discriminate|].
      cbn [fst]. rewrite hget_add by (now apply is_blk_pos). destruct (Z.eqb_spec a p) as [->|]; [contradiction|reflexivity].
    + destruct hf as [h f]. unfold share_h. cbn [fst snd] in *.
      destruct (Z.eqb_spec p 0) as [E0|E0]; [split; cbn [fst snd]; [intros x Hx; specialize (HB1 x Hx); lia|lia]|].
      destruct Hp as [|Hb]; [contradiction|]. pose proof (is_blk_pos p Hb) as Pp. cbn [fst snd].
      split; cbn [fst snd]; [|lia]. intros x Hx. rewrite hget_add by exact Pp. pose proof (HB1 p Hb). rewrite WR by lia.
      destruct (x =? p); [lia|specialize (HB1 x Hx); lia].
Qed.

Lemma rc_abs_opnd s0 sp o : rc_good s0 sp o ->
  match rc_abs s0 sp o with Heap.OShare p _ | Heap.OErase p => p = 0 \/ is_blk p | _ => False end.
Proof. intros [Hp _]. destruct o; cbn [rc_abs rc_temp] in *; exact Hp. Qed.

Theorem rc_fold_abs F H s0 sp : forall ops hf B,
  Forall (rc_good s0 sp) ops -> hb2 B hf -> LIMIT <= B ->
  B + Z.of_nat (List.length ops) * 2147483648 <= 4611686018427387904 ->
  let hf' := fold_left (fun hf o => rc_h s0 sp o hf) ops hf in
  st_eqB (absH F H hf') (hrun (map (rc_abs s0 sp) ops) (absH F H hf)) /\
  (forall a, ~ is_blk a -> hget (fst hf') a = hget (fst hf) a) /\
  0 <= snd hf'.
Proof.
  induction ops as [|o ops IH]; intros hf B HG HB HL HS; cbn [fold_left map List.length] in *.
  - split; [apply X86Mem.st_eqB_refl|]. split; [auto|]. destruct HB as [_ X]. lia.
  - inversion HG as [|? ? Ho HG']; subst.
    destruct (rc_step_abs F H s0 sp o hf B Ho HB HL ltac:(lia)) as (E1 & N1 & B1).
    destruct (IH (rc_h s0 sp o hf) (B + 2147483648) HG' B1 ltac:(lia) ltac:(lia)) as (E2 & N2 & P2).
    split; [|split; [|exact P2]].
    + eapply X86Mem.st_eqB_trans; [exact E2|]. unfold hrun at 2. cbn [fold_left]. fold (hrun (map (rc_abs s0 sp) ops)).
      apply hrun_eqB; [exact E1|]. apply Forall_forall. intros x Hx. apply in_map_iff in Hx as (o' & <- & Ho').
      apply rc_abs_opnd. rewrite Forall_forall in HG'. now apply HG'.
    + intros a Ha. rewrite N2 by exact Ha. now apply N1.
Qed.
