(* C09 on AArch64, groundwork: the abstraction `abs_heap` of an AArch64 machine state (Sem/A64Sem.v) to the
   abstract allocator state of Model/Heap.v, heap words, single instructions on heap words, the two structured
   code shapes of memory.rs (`skip_if_zero`, `if_zero_then_else`) as execution lemmas, temporaries of
   environment positions (`tpos`), and what a piece of allocator code leaves alone (`sbt`, `nonblk_same`,
   `stack_frame`).

   SHARED WITH x86-64 (nothing is copied): the block predicate `is_blk`, the block-wise equality `st_eqB` of
   abstract states, `heap_addr`, and every lemma about them that does not mention a machine state live in
   Proof/X86Mem.v / Proof/X86MemFrame.v; the two ISA models use the same heap region (HEAP_BASE, HEAP_SIZE), so
   these are used here under their qualified names (notations below).  The execution vocabulary is the one of
   Proof/A64Exec.v (`exec_to`, `code_at`, `labels_at`, `padd`). *)
From Coq Require Import List ZArith NArith String Bool Lia FMapPositive.
From SCC Require Import Base.Sexp Lang.AxSyn Sem.AxSem Model.Backend Model.A64 Sem.A64Sem Generated.Constants
     Proof.A64State Proof.A64ImmHw Proof.A64Imm Proof.A64Sel Proof.A64Exec Proof.A64MemSubst.
From SCC Require Model.Heap Model.X86 Sem.X86Sem Proof.X86Mem Proof.X86MemFrame.
Import ListNotations.
Open Scope Z_scope.

Notation is_blk := X86Mem.is_blk.
Notation st_eqB := X86Mem.st_eqB.
Notation heap_addr := X86Mem.heap_addr.

(* the two ISA models place the heap at the same addresses *)
Lemma heap_base_same : X86Sem.HEAP_BASE = HEAP_BASE /\ X86Sem.HEAP_SIZE = HEAP_SIZE.
Proof. split; reflexivity. Qed.
Ltac unfb := unfold X86Sem.HEAP_BASE, X86Sem.HEAP_SIZE, HEAP_BASE, HEAP_SIZE in *.

(* ---------- the abstraction ---------- *)
Definition hword (s : astate) (a : Z) : Z := hget (heap s) a.
Definition abs_mem (s : astate) : Heap.mem :=
  fun a => {| Heap.hdr := hword s a; Heap.ps := [hword s (a + 16); hword s (a + 32); hword s (a + 48)] |}.
Definition reg_or0 (s : astate) (r : areg) : Z := match rget s r with Some z => z | None => 0 end.
Definition abs_heap (F : Z) (s : astate) : Heap.st :=
  {| Heap.m := abs_mem s; Heap.heap := reg_or0 s HEAP; Heap.free := reg_or0 s FREE; Heap.frontier := F |}.

Notation hset := set_heap.

Lemma heap_addr_block_ok a : heap_addr a -> block_ok a.
Proof.
  intros (A & L & H). split; [exact A|]. unfold in_heap. unfb. apply andb_true_iff. split; apply Z.leb_le; lia.
Qed.
Lemma heap_addr_pos a : heap_addr a -> 0 < a.
Proof. intros (_ & L & _). unfb. lia. Qed.

Lemma key_pos_eq a b : 0 < a -> key a = key b -> a = b.
Proof.
  unfold key. intros Ha E. destruct (Z_le_gt_dec b 0) as [Hb|Hb].
  - rewrite (Z2Pos.to_pos_nonpos (b + 1)) in E by lia.
    apply (f_equal Z.pos) in E. rewrite Z2Pos.id in E by lia. lia.
  - apply (f_equal Z.pos) in E. rewrite !Z2Pos.id in E by lia. lia.
Qed.
Lemma hget_add h a z b : 0 < a -> hget (PM.add (key a) z h) b = if b =? a then z else hget h b.
Proof.
  intros Ha. unfold hget. destruct (Z.eqb_spec b a) as [->|Hne].
  - now rewrite PM.gss.
  - rewrite PM.gso; auto. intro E. symmetry in E. apply key_pos_eq in E; auto.
Qed.
Lemma hword_hset s a z b : 0 < a -> hword (hset s a z) b = if b =? a then z else hword s b.
Proof. intros Ha. unfold hword, set_heap; cbn [heap]. now apply hget_add. Qed.
Lemma hword_rset s r v a : hword (rset s r v) a = hword s a. Proof. unfold hword. now rewrite heap_rset. Qed.
Lemma hword_set_flags s f a : hword (set_flags s f) a = hword s a. Proof. reflexivity. Qed.
Lemma hword_sset s sp q v a : hword (sset s sp q v) a = hword s a. Proof. reflexivity. Qed.
Lemma hword_lset s sp t v a : hword (lset s sp t v) a = hword s a. Proof. destruct t; [apply hword_rset|reflexivity]. Qed.
Lemma stack_hset s a z : stack (hset s a z) = stack s. Proof. reflexivity. Qed.
Lemma out_hset s a z : out (hset s a z) = out s. Proof. reflexivity. Qed.
Lemma sget_hset s sp a z q : sget (hset s a z) sp q = sget s sp q. Proof. reflexivity. Qed.
Lemma frame_ok_hset s sp a z : frame_ok s sp -> frame_ok (hset s a z) sp.
Proof. intros (A & B). split; [exact A|exact B]. Qed.
Lemma lget_hset s sp a z t : lget (hset s a z) sp t = lget s sp t.
Proof. destruct t; [apply rget_set_heap|reflexivity]. Qed.

Ltac rg := repeat first [rewrite rget_set_flags | rewrite rget_set_heap | rewrite rget_sset
                        | rewrite rget_rset_other by (first [congruence|discriminate])].

(* ---------- single instructions on heap words ---------- *)
Section HeapSteps.
Variable im : image.
Lemma ea_gp s b i p k : gp b -> rget s b = Some p -> ea s b i k = k (p + i).
Proof. intros G R. unfold ea, need. rewrite R. destruct b; cbn in G; tauto. Qed.
Lemma step_LDR_h s d b i p :
  gp b -> rget s b = Some p -> heap_addr (p + i) -> step im (LDR d b i) s = Next (rset s d (Some (hword s (p + i)))).
Proof.
  intros G R H. cbn [step]. rewrite (ea_gp s b i p) by auto. unfold withm.
  rewrite mload_heap by (now apply heap_addr_block_ok). reflexivity.
Qed.
Lemma step_STR_h s a b i p v :
  gp b -> rget s b = Some p -> heap_addr (p + i) -> rget s a = Some v -> step im (STR a b i) s = Next (hset s (p + i) v).
Proof.
  intros G R H A. cbn [step]. rewrite (ea_gp s b i p) by auto. unfold withm.
  rewrite A, mstore_heap by (now apply heap_addr_block_ok). reflexivity.
Qed.
Lemma step_LAB s l : step im (LAB l) s = Next s. Proof. reflexivity. Qed.
End HeapSteps.

(* ---------- index arithmetic in the style of the x86-64 files ---------- *)
Lemma padd_add' p a b : padd (padd p a) b = padd p (a + b).
Proof. now rewrite padd_add. Qed.
Lemma padd_succ' p n : padd (Pos.succ p) n = Pos.succ (padd p n).
Proof. now rewrite <- padd_succ. Qed.
Lemma code_at_app2 im pos a b : code_at im pos (a ++ b) -> code_at im pos a /\ code_at im (padd pos (List.length a)) b.
Proof. apply code_at_app. Qed.
Lemma labels_at_app2 im pos a b : labels_at im pos (a ++ b) -> labels_at im pos a /\ labels_at im (padd pos (List.length a)) b.
Proof. apply labels_at_app. Qed.
Lemma exec_app_len im pos (a b : list acode) s s1 s2 :
  exec_to im pos s (padd pos (List.length a)) s1 ->
  exec_to im (padd pos (List.length a)) s1 (padd (padd pos (List.length a)) (List.length b)) s2 ->
  exec_to im pos s (padd pos (List.length (a ++ b))) s2.
Proof. intros A B. rewrite app_length, padd_add. eapply exec_to_trans; eassumption. Qed.
Lemma code_at_tail im pos c cs : code_at im pos (c :: cs) -> code_at im (Pos.succ pos) cs.
Proof. intros H. now apply code_at_cons in H. Qed.
Lemma labels_at_tail im pos c cs : labels_at im pos (c :: cs) -> labels_at im (Pos.succ pos) cs.
Proof. intros H j l Hj. apply (H (S j)). exact Hj. Qed.
Lemma labels_at_cons_nolab im pos c cs :
  (forall l, c <> LAB l) -> labels_at im (Pos.succ pos) cs -> labels_at im pos (c :: cs).
Proof. intros N H [|j] l Hj; cbn in Hj; [inversion Hj; subst; exfalso; eapply N; reflexivity|]. apply (H j). exact Hj. Qed.

(* ---------- if_zero_then_else ---------- *)
Section Ite.
Variable im : image.
Lemma ite_len c tb eb lc :
  List.length (fst (if_zero_then_else c tb eb lc)) = (2 + List.length eb + 2 + List.length tb + 1)%nat.
Proof. unfold if_zero_then_else. cbn [fst]. repeat (rewrite app_length || cbn [List.length]). lia. Qed.

Lemma ite_frame pc c tb eb lc :
  let cs := fst (if_zero_then_else c tb eb lc) in
  code_at im pc cs -> labels_at im pc cs ->
  exists lt le,
    PM.find pc (code im) = Some (CMPI c 0) /\
    PM.find (Pos.succ pc) (code im) = Some (BEQ lt) /\
    code_at im (padd pc 2) eb /\ labels_at im (padd pc 2) eb /\
    PM.find (padd pc (2 + List.length eb)) (code im) = Some (B le) /\
    PM.find (padd pc (3 + List.length eb)) (code im) = Some (LAB lt) /\
    find_label (labels im) lt = Some (padd pc (3 + List.length eb)) /\
    code_at im (padd pc (4 + List.length eb)) tb /\ labels_at im (padd pc (4 + List.length eb)) tb /\
    PM.find (padd pc (4 + List.length eb + List.length tb)) (code im) = Some (LAB le) /\
    find_label (labels im) le = Some (padd pc (4 + List.length eb + List.length tb)).
Proof.
  unfold if_zero_then_else. cbn [fst]. set (lt := lab (lc + 1)). set (le := lab (lc + 2)). intros C L. exists lt, le.
  change ([CMPI c 0; BEQ lt] ++ eb ++ [B le; LAB lt] ++ tb ++ [LAB le])%list
    with ([CMPI c 0; BEQ lt] ++ eb ++ [B le; LAB lt] ++ tb ++ [LAB le])%list in *.
  apply code_at_app in C as [C0 C]. apply labels_at_app in L as [_ L]. cbn [List.length] in C, L.
  apply code_at_app in C as [Ce C]. apply labels_at_app in L as [Le L].
  apply code_at_app in C as [Cm C]. apply labels_at_app in L as [Lm L]. cbn [List.length] in C, L.
  apply code_at_app in C as [Ct C]. apply labels_at_app in L as [Lt L].
  rewrite <- !padd_add in *.
  replace (2 + (List.length eb + 2))%nat with (4 + List.length eb)%nat in * by lia.
  replace (2 + (List.length eb + (2 + List.length tb)))%nat with (4 + List.length eb + List.length tb)%nat in * by lia.
  split; [apply (C0 0%nat); reflexivity|]. split; [apply (C0 1%nat); reflexivity|].
  split; [exact Ce|]. split; [exact Le|].
  split; [apply (Cm 0%nat); reflexivity|].
  split; [replace (3 + List.length eb)%nat with (S (2 + List.length eb)) by lia; rewrite padd_succ; apply (Cm 1%nat); reflexivity|].
  split; [replace (3 + List.length eb)%nat with (S (2 + List.length eb)) by lia; rewrite padd_succ; apply (Lm 1%nat); reflexivity|].
  split; [exact Ct|]. split; [exact Lt|].
  split; [apply (C 0%nat); reflexivity|apply (L 0%nat); reflexivity].
Qed.

(* the condition is zero: the then-branch runs *)
Lemma ite_zero pc s c tb eb lc x s2 :
  let cs := fst (if_zero_then_else c tb eb lc) in
  code_at im pc cs -> labels_at im pc cs -> rget s c = Some x -> (wrap x =? 0) = true ->
  exec_to im (padd pc (4 + List.length eb)) (set_flags s (Some (cmp_flags x 0)))
             (padd pc (4 + List.length eb + List.length tb)) s2 ->
  exec_to im pc s (padd pc (List.length cs)) s2.
Proof.
  intros cs C L A Z EB. subst cs.
  destruct (ite_frame pc c tb eb lc C L) as (lt & le & C0 & C1 & _ & _ & _ & C3 & L3 & _ & _ & C5 & _).
  rewrite ite_len.
  eapply exec_next; [exact C0 | apply step_CMPI0; exact A |].
  eapply exec_jump; [exact C1 | eapply step_BEQ_taken; [reflexivity|rewrite fZ_cmp0; exact Z|exact L3] |].
  eapply exec_next; [exact C3 | reflexivity |].
  rewrite <- padd_succ. change (S (3 + List.length eb)) with (4 + List.length eb)%nat.
  eapply exec_to_trans; [exact EB|].
  eapply exec_next; [exact C5 | reflexivity |].
  rewrite <- padd_succ. replace (S (4 + List.length eb + List.length tb)) with (2 + List.length eb + 2 + List.length tb + 1)%nat by lia.
  apply exec_refl.
Qed.

(* the condition is not zero: the else-branch runs *)
Lemma ite_nz pc s c tb eb lc x s2 :
  let cs := fst (if_zero_then_else c tb eb lc) in
  code_at im pc cs -> labels_at im pc cs -> rget s c = Some x -> (wrap x =? 0) = false ->
  exec_to im (padd pc 2) (set_flags s (Some (cmp_flags x 0))) (padd pc (2 + List.length eb)) s2 ->
  exec_to im pc s (padd pc (List.length cs)) s2.
Proof.
  intros cs C L A NZ EB. subst cs.
  destruct (ite_frame pc c tb eb lc C L) as (lt & le & C0 & C1 & _ & _ & C2 & _ & _ & _ & _ & C5 & L5).
  rewrite ite_len.
  eapply exec_next; [exact C0 | apply step_CMPI0; exact A |].
  eapply exec_next; [exact C1 | eapply step_BEQ_not; [reflexivity|rewrite fZ_cmp0; exact NZ] |].
  eapply exec_to_trans; [exact EB|].
  eapply exec_jump; [exact C2 | apply step_B; exact L5 |].
  eapply exec_next; [exact C5 | reflexivity |].
  rewrite <- padd_succ. replace (S (4 + List.length eb + List.length tb)) with (2 + List.length eb + 2 + List.length tb + 1)%nat by lia.
  apply exec_refl.
Qed.
End Ite.

(* ---------- block arithmetic (AArch64 field offsets) ---------- *)
Lemma field_offset_val n j : field_offset n j = 16 + 16 * Z.of_N j + 8 * Z.of_N (tnum_n n).
Proof. unfold field_offset, address. change A64C.address1 with 8. lia. Qed.
Lemma field_addr p n j : is_blk p -> (j < 3)%N -> heap_addr (p + field_offset n j).
Proof.
  intros Hb Hj. rewrite field_offset_val. apply X86MemFrame.is_blk_word; auto.
  - destruct n; cbn [tnum_n]; lia.
  - destruct n; cbn [tnum_n]; [replace (16 + 16 * Z.of_N j + 8 * Z.of_N 0) with (0 + (2 + 2 * Z.of_N j) * 8) by lia
                              |replace (16 + 16 * Z.of_N j + 8 * Z.of_N 1) with (0 + (3 + 2 * Z.of_N j) * 8) by lia];
      rewrite Z.mod_add by lia; reflexivity.
Qed.
Lemma field_not_blk p n j : is_blk p -> (j < 3)%N -> ~ is_blk (p + field_offset n j).
Proof. intros Hb Hj. rewrite field_offset_val. apply X86MemFrame.not_blk_off; auto. destruct n; cbn [tnum_n]; lia. Qed.
(* the two back ends lay blocks out identically *)
Lemma fo_x86 n j : X86.field_offset n j = field_offset n j.
Proof. rewrite X86MemFrame.field_offset_val, field_offset_val. reflexivity. Qed.
Lemma fo_F0 : field_offset Fst 0 = 16. Proof. reflexivity. Qed.
Lemma fo_F1 : field_offset Fst 1 = 32. Proof. reflexivity. Qed.
Lemma fo_F2 : field_offset Fst 2 = 48. Proof. reflexivity. Qed.
Lemma fo_F3 : field_offset Fst FIELDS_PER_BLOCK = 64. Proof. reflexivity. Qed.

Lemma blk_heap_addr p : is_blk p -> heap_addr p. Proof. apply X86Mem.blk_heap_addr. Qed.
Lemma blk_heap_addr0 p : is_blk p -> heap_addr (p + 0). Proof. rewrite Z.add_0_r. apply X86Mem.blk_heap_addr. Qed.
Lemma is_blk_pos p : is_blk p -> 0 < p. Proof. apply X86MemFrame.is_blk_pos. Qed.

(* ---------- the abstraction under a header write ---------- *)
Lemma abs_mem_hset s p z x :
  is_blk p -> is_blk x -> abs_mem (hset s p z) x = Heap.set_hdr (abs_mem s) p z x.
Proof.
  intros Hp Hx. pose proof (is_blk_pos p Hp) as Pp.
  unfold Heap.set_hdr, Heap.upd. destruct (Z.eqb_spec x p) as [->|Hne].
  - unfold abs_mem. cbn [Heap.ps Heap.hdr]. rewrite !hword_hset by exact Pp. rewrite Z.eqb_refl.
    repeat match goal with |- context [?a =? p] => destruct (Z.eqb_spec a p); [lia|] end. reflexivity.
  - unfold abs_mem. destruct (X86MemFrame.is_blk_apart x p Hx Hp Hne);
      rewrite !hword_hset by exact Pp;
      repeat match goal with |- context [?a =? p] => destruct (Z.eqb_spec a p); [lia|] end; reflexivity.
Qed.

Lemma abs_mem_upd s s' p z x :
  is_blk p -> is_blk x -> (forall a, hword s' a = if a =? p then z else hword s a) ->
  abs_mem s' x = Heap.set_hdr (abs_mem s) p z x.
Proof.
  intros Hp Hx W. rewrite <- (abs_mem_hset s p z x Hp Hx). unfold abs_mem.
  rewrite !W, !hword_hset by (now apply is_blk_pos). reflexivity.
Qed.

(* ---------- what a piece of allocator code leaves alone ---------- *)
Definition sbt (s s' : astate) : Prop :=
  (forall r, r <> TEMP -> r <> TEMP2 -> rget s' r = rget s r) /\ stack s' = stack s /\ out s' = out s.
Definition sbtf (s s' : astate) : Prop :=
  (forall r, r <> TEMP -> r <> TEMP2 -> r <> FREE -> rget s' r = rget s r) /\ stack s' = stack s /\ out s' = out s.
Definition nonblk_same (s s' : astate) : Prop := forall a, ~ is_blk a -> hword s' a = hword s a.
(* the stack words that are not spill slots of the frame at sp (the words the prologue saved lie there) *)
Definition stack_frame (s s' : astate) (sp : Z) : Prop :=
  forall k, (forall p, slot_ok p -> k <> key (slot_addr sp p)) -> PM.find k (stack s') = PM.find k (stack s).

Lemma sbt_refl s : sbt s s. Proof. repeat split; reflexivity. Qed.
Lemma sbt_trans s1 s2 s3 : sbt s1 s2 -> sbt s2 s3 -> sbt s1 s3.
Proof. intros (A1 & A2 & A3) (B1 & B2 & B3). split; [|split; congruence]. intros r H1 H2. rewrite B1, A1; auto. Qed.
Lemma sbt_sbtf s s' : sbt s s' -> sbtf s s'.
Proof. intros (A & B & C). split; [|split; assumption]. intros r H1 H2 _. now apply A. Qed.
Lemma sbtf_trans s1 s2 s3 : sbtf s1 s2 -> sbtf s2 s3 -> sbtf s1 s3.
Proof. intros (A1 & A2 & A3) (B1 & B2 & B3). split; [|split; congruence]. intros r H1 H2 H3. rewrite B1, A1; auto. Qed.
Lemma sbt_lget s s' sp t : sbt s s' -> t <> AR TEMP -> t <> AR TEMP2 -> lget s' sp t = lget s sp t.
Proof. intros (A & B & _) H1 H2. destruct t as [r|q]; cbn [lget]; [apply A; congruence|unfold sget; now rewrite B]. Qed.
Lemma sbt_frame s s' sp : sbt s s' -> frame_ok s sp -> frame_ok s' sp.
Proof. intros (A & _) (B & C). split; [|exact C]. change (spv s') with (rget s' SP). rewrite A by discriminate. exact B. Qed.
Lemma sbtf_frame s s' sp : sbtf s s' -> frame_ok s sp -> frame_ok s' sp.
Proof. intros (A & _) (B & C). split; [|exact C]. change (spv s') with (rget s' SP). rewrite A by discriminate. exact B. Qed.
Lemma sbt_regs s s' : sbt s s' -> reg_or0 s' HEAP = reg_or0 s HEAP /\ reg_or0 s' FREE = reg_or0 s FREE.
Proof. intros (H & _). unfold reg_or0. rewrite !H by discriminate. auto. Qed.

Lemma nonblk_same_refl s : nonblk_same s s. Proof. intros a _. reflexivity. Qed.
Lemma nonblk_same_trans s1 s2 s3 : nonblk_same s1 s2 -> nonblk_same s2 s3 -> nonblk_same s1 s3.
Proof. intros A B a Ha. rewrite B, A; auto. Qed.
Lemma nonblk_same_hset s p z : is_blk p -> nonblk_same s (hset s p z).
Proof.
  intros Hb a Ha. rewrite hword_hset by (now apply is_blk_pos).
  destruct (Z.eqb_spec a p); [subst; contradiction|reflexivity].
Qed.
Lemma nonblk_same_heap s s' : heap s' = heap s -> nonblk_same s s'.
Proof. intros E a _. unfold hword. now rewrite E. Qed.

Lemma stack_frame_refl s sp : stack_frame s s sp. Proof. intros k _. reflexivity. Qed.
Lemma stack_frame_trans s1 s2 s3 sp : stack_frame s1 s2 sp -> stack_frame s2 s3 sp -> stack_frame s1 s3 sp.
Proof. intros A B k Hk. rewrite (B k Hk). apply A; exact Hk. Qed.
Lemma stack_frame_eq s s' sp : stack s' = stack s -> stack_frame s s' sp.
Proof. intros E k _. now rewrite E. Qed.
Lemma stack_frame_sset s sp p v : slot_ok p -> stack_frame s (sset s sp p v) sp.
Proof. intros P k Hk. specialize (Hk p P). unfold sset; cbn [stack]. destruct v; [apply PM.gso|apply PM.gro]; exact Hk. Qed.
Lemma stack_frame_sbt s s' sp : sbt s s' -> stack_frame s s' sp.
Proof. intros (_ & E & _). now apply stack_frame_eq. Qed.
Lemma stack_frame_sbtf s s' sp : sbtf s s' -> stack_frame s s' sp.
Proof. intros (_ & E & _). now apply stack_frame_eq. Qed.

Lemma abs_heap_ext F s s' :
  heap s' = heap s -> rget s' HEAP = rget s HEAP -> rget s' FREE = rget s FREE -> abs_heap F s' = abs_heap F s.
Proof. intros E1 E2 E3. unfold abs_heap, abs_mem, reg_or0, hword. now rewrite E1, E2, E3. Qed.
Lemma abs_heap_eqB F s s' :
  (forall a, hword s' a = hword s a) -> rget s' HEAP = rget s HEAP -> rget s' FREE = rget s FREE ->
  st_eqB (abs_heap F s') (abs_heap F s).
Proof.
  intros E1 E2 E3. unfold abs_heap, reg_or0. rewrite E2, E3. split; [reflexivity|]. split; [reflexivity|]. split; [reflexivity|].
  intros x _. unfold abs_mem. cbn [Heap.m]. now rewrite !E1.
Qed.

(* ---------- temporaries of environment positions ---------- *)
Definition tpos (k : N) : atemp := (if k + 4 <? 30 then AR (X (k + 4)) else AS (k - 25))%N.
Definition MAXPOS : N := 281.

Lemma tfp_tpos k t : temporary_from_position k = Ok t -> t = tpos k /\ (k < MAXPOS)%N.
Proof.
  unfold temporary_from_position, tpos, MAXPOS.
  change RESERVED with 4%N. change REGISTER_NUM with 30%N. change RESERVED_SPILLS with 1%N. change SPILL_NUM with 256%N.
  replace (k + 4)%N with (k + 4)%N by reflexivity.
  destruct (N.ltb_spec (k + 4) 30); [intros H0; inversion H0; split; [reflexivity|lia]|].
  destruct (N.ltb_spec (k + 4 - 30 + 1) 256); [|discriminate].
  intros H1. inversion H1. split; [f_equal; lia|lia].
Qed.
Lemma tpos_tfp k : (k < MAXPOS)%N -> temporary_from_position k = Ok (tpos k).
Proof.
  unfold temporary_from_position, tpos, MAXPOS.
  change RESERVED with 4%N. change REGISTER_NUM with 30%N. change RESERVED_SPILLS with 1%N. change SPILL_NUM with 256%N.
  intros Hk. destruct (N.ltb_spec (k + 4) 30); [reflexivity|].
  destruct (N.ltb_spec (k + 4 - 30 + 1) 256); [|lia]. do 2 f_equal. lia.
Qed.
Lemma a_fresh_tpos n c t :
  a_fresh n c = Ok t -> t = tpos (2 * N.of_nat (List.length c) + tnum_n n) /\ (2 * N.of_nat (List.length c) + tnum_n n < MAXPOS)%N.
Proof. apply tfp_tpos. Qed.
Lemma tpos_loc_ok k : (k < MAXPOS)%N -> loc_ok (tpos k).
Proof.
  unfold tpos, MAXPOS. intros Hk. destruct (N.ltb_spec (k + 4) 30); cbn [loc_ok gp]; [exact I|].
  unfold slot_ok. change SPILL_NUM with 256%N. lia.
Qed.
Lemma tpos_inj k k' : tpos k = tpos k' -> k = k'.
Proof. unfold tpos. destruct (N.ltb_spec (k + 4) 30), (N.ltb_spec (k' + 4) 30); intros E; inversion E; lia. Qed.
Lemma tpos_neq k k' : k <> k' -> tpos k <> tpos k'.
Proof. intros H E. apply H. now apply tpos_inj. Qed.
Lemma tpos_reg k r : tpos k = AR r -> r = X (k + 4) /\ (k < 26)%N.
Proof. unfold tpos. destruct (N.ltb_spec (k + 4) 30); intros E; inversion E. split; [reflexivity|lia]. Qed.
Lemma tpos_slot k q : tpos k = AS q -> q = (k - 25)%N /\ (26 <= k)%N.
Proof. unfold tpos. destruct (N.ltb_spec (k + 4) 30); intros E; inversion E. split; [reflexivity|lia]. Qed.
(* a temporary of a position is none of the reserved locations *)
Lemma tpos_not_reserved k :
  tpos k <> AR HEAP /\ tpos k <> AR FREE /\ tpos k <> AR TEMP /\ tpos k <> AR TEMP2 /\ tpos k <> AS SPILL_TEMP /\
  tpos k <> AR SP /\ tpos k <> AR XZR.
Proof.
  unfold tpos. change TEMP with (X 2). change TEMP2 with (X 3). change HEAP with (X 0). change FREE with (X 1). change SPILL_TEMP with 0%N.
  destruct (N.ltb_spec (k + 4) 30); repeat split; intros E; inversion E; lia.
Qed.
Lemma tpos_not_temp k : tpos k <> AR TEMP. Proof. apply tpos_not_reserved. Qed.
Lemma tpos_not_temp2 k : tpos k <> AR TEMP2. Proof. apply tpos_not_reserved. Qed.
Lemma tpos_operand_ok k : (k < MAXPOS)%N -> operand_ok (tpos k).
Proof. intros H. split; [now apply tpos_loc_ok|]. split; [apply tpos_not_temp|apply tpos_not_temp2]. Qed.
Lemma sbt_tpos s s' sp k : sbt s s' -> lget s' sp (tpos k) = lget s sp (tpos k).
Proof. intros H. apply sbt_lget; [exact H|apply tpos_not_temp|apply tpos_not_temp2]. Qed.
