(* C14: the jump-table stride of the AArch64 and RISC-V back ends.  A table is a run of fixed-size
   jumps (`B l` / `JAL X0 l`, the instruction b_jump_label_fixed emits); in the code image of the ISA
   models its k-th entry lies exactly jump_length k bytes after the first one, jump_length being the
   function the tag arithmetic of Let / Invoke uses (and the crate's: A64Sel.a64_jump_length_samples,
   RVSel.rv_jump_length_samples).  Also: what each checker's immediate classes mean. *)
From Coq Require Import List ZArith NArith String Bool Lia FMapPositive.
From SCC Require Import Base.Sexp Lang.AxSyn Model.Backend.
From SCC Require Model.A64 Model.RV Sem.A64Sem Sem.RVSem Sem.A64Wf Sem.RVWf.
Import ListNotations.
Open Scope Z_scope.

Module A.
Import Model.A64 Sem.A64Sem.
Fixpoint addrs (cs : list acode) (a : Z) : list Z :=
  match cs with [] => [] | c :: r => a :: addrs r (a + isize c) end.
Lemma addrs_table (ls : list string) (a : Z) (k : nat) :
  (k < List.length ls)%nat ->
  nth k (addrs (map B ls) a) 0 = a + jump_length (N.of_nat k).
Proof.
  revert a k; induction ls as [|l ls IH]; intros a k Hk; cbn [List.length] in Hk; [lia|].
  destruct k as [|k]; cbn [map addrs nth].
  - unfold jump_length; cbn; lia.
  - rewrite IH by lia. unfold jump_length. cbn [isize]. lia.
Qed.
Lemma table_is_fixed_jumps (cls : list clause) base :
  code_table a64_backend cls base = map B (map (fun c => (base +++ "_" +++ show_ident (cl_xtor c))%string) cls).
Proof. unfold code_table. induction cls as [|c r IH]; [reflexivity|]. cbn [flat_map map]. rewrite IH. reflexivity. Qed.
Lemma build_addr_of cs : forall i a im,
  (forall j, (i <= j)%positive -> PM.find j (addr_of im) = None) ->
  forall k, (k < List.length cs)%nat ->
    PM.find (Pos.of_nat (Pos.to_nat i + k)) (addr_of (build cs i a im)) = Some (nth k (addrs cs a) 0).
Proof.
  induction cs as [|c cs IH]; intros i a im Hfresh k Hk; cbn [List.length] in Hk; [lia|].
  cbn [build addrs].
  set (im' := {| code := _; addr_of := PM.add i a (addr_of im); index_at := _; labels := _; len := i |}).
  destruct k as [|k].
  - rewrite Nat.add_0_r, Pos2Nat.id. cbn [nth].
    assert (G : forall cs' j b im0, (i < j)%positive -> PM.find i (addr_of (build cs' j b im0)) = PM.find i (addr_of im0)).
    { induction cs' as [|c' cs' IH']; intros j b im0 Hj; cbn [build]; [reflexivity|].
      rewrite IH' by lia. cbn [addr_of]. apply PM.gso. lia. }
    rewrite G by lia. subst im'; cbn [addr_of]. apply PM.gss.
  - replace (Pos.of_nat (Pos.to_nat i + S k)) with (Pos.of_nat (Pos.to_nat (Pos.succ i) + k)) by (f_equal; lia).
    cbn [nth]. apply IH; [|lia].
    intros j Hj. subst im'; cbn [addr_of]. rewrite PM.gso by lia. apply Hfresh. lia.
Qed.
(* the immediate classes of Sem/A64Wf.v, as ranges *)
Lemma imm12_spec i : A64Wf.imm12 i = true <-> (0 <= i <= 4095 \/ exists h, 0 <= h <= 4095 /\ i = 4096 * h).
Proof.
  unfold A64Wf.imm12. rewrite orb_true_iff, !andb_true_iff, !Z.leb_le, Z.eqb_eq. split.
  - intros [[H1 H2]|[[H1 H2] H3]]; [left; lia|]. right. exists (i / 4096). split; [split; [apply Z.div_pos; lia|exact H3]|].
    apply Z.div_exact in H2; lia.
  - intros [H|(h & H & ->)]; [left; lia|]. right. rewrite Z.mul_comm, Z.mod_mul, Z.div_mul by lia. lia.
Qed.
Lemma uoff8_spec i : A64Wf.uoff8 i = true <-> exists q, 0 <= q <= 4095 /\ i = 8 * q.
Proof.
  unfold A64Wf.uoff8. rewrite !andb_true_iff, !Z.leb_le, Z.eqb_eq. split.
  - intros [[H1 H2] H3]. exists (i / 8). apply Z.div_exact in H3; [|lia]. split; [|exact H3].
    split; [apply Z.div_pos; lia|]. apply Z.div_le_upper_bound; lia.
  - intros (q & H & ->). rewrite Z.mul_comm, Z.mod_mul by lia. lia.
Qed.
End A.

Module R.
Import Model.RV Sem.RVSem.
Fixpoint addrs (cs : list rcode) (a : Z) : list Z :=
  match cs with [] => [] | c :: r => a :: addrs r (a + isize c) end.
Lemma addrs_table (ls : list string) (a : Z) (k : nat) :
  (k < List.length ls)%nat ->
  nth k (addrs (map (JAL ZERO) ls) a) 0 = a + jump_length (N.of_nat k).
Proof.
  revert a k; induction ls as [|l ls IH]; intros a k Hk; cbn [List.length] in Hk; [lia|].
  destruct k as [|k]; cbn [map addrs nth].
  - unfold jump_length; cbn; lia.
  - rewrite IH by lia. unfold jump_length. cbn [isize]. lia.
Qed.
Lemma table_is_fixed_jumps (cls : list clause) base :
  code_table rv_backend cls base = map (JAL ZERO) (map (fun c => (base +++ "_" +++ show_ident (cl_xtor c))%string) cls).
Proof. unfold code_table. induction cls as [|c r IH]; [reflexivity|]. cbn [flat_map map]. rewrite IH. reflexivity. Qed.
Lemma build_addr_of cs : forall i a im,
  (forall j, (i <= j)%positive -> PM.find j (addr_of im) = None) ->
  forall k, (k < List.length cs)%nat ->
    PM.find (Pos.of_nat (Pos.to_nat i + k)) (addr_of (build cs i a im)) = Some (nth k (addrs cs a) 0).
Proof.
  induction cs as [|c cs IH]; intros i a im Hfresh k Hk; cbn [List.length] in Hk; [lia|].
  cbn [build addrs].
  set (im' := {| code := _; addr_of := PM.add i a (addr_of im); index_at := _; labels := _; len := i |}).
  destruct k as [|k].
  - rewrite Nat.add_0_r, Pos2Nat.id. cbn [nth].
    assert (G : forall cs' j b im0, (i < j)%positive -> PM.find i (addr_of (build cs' j b im0)) = PM.find i (addr_of im0)).
    { induction cs' as [|c' cs' IH']; intros j b im0 Hj; cbn [build]; [reflexivity|].
      rewrite IH' by lia. cbn [addr_of]. apply PM.gso. lia. }
    rewrite G by lia. subst im'; cbn [addr_of]. apply PM.gss.
  - replace (Pos.of_nat (Pos.to_nat i + S k)) with (Pos.of_nat (Pos.to_nat (Pos.succ i) + k)) by (f_equal; lia).
    cbn [nth]. apply IH; [|lia].
    intros j Hj. subst im'; cbn [addr_of]. rewrite PM.gso by lia. apply Hfresh. lia.
Qed.
End R.
