(* C08, forward simulation for HEAP statements WITHOUT the one-block restriction, part 3: the code of `r_load` (Switch,
   Invoke) under `hrel`, for objects of ANY number of fields.  The chain version of Proof/RVHSimLoad.v, after
   Proof/A64HSimLoad.v: the hypotheses of `rv_load_chain` (Proof/RVMemLoadChain.v) from the representation `xflds` of
   the loaded object (`lf_share_ok_words`, shared) and the header bounds of the allocator invariant (`hdr_bounds_r`); the
   loaded registers hold the field words, so the new environment entries are represented (`load_ptrs_words`);
   `heq_load_object` (shared) for the abstraction afterwards. *)
From Coq Require Import List ZArith NArith String Bool Lia FMapPositive Permutation.
From SCC Require Import Base.Sexp Lang.AxSyn Sem.AxSem Sem.AxHeap Model.ParMoves Model.Backend Model.RV Sem.RVSem Sem.RVWf
     Generated.Constants Proof.RVSel Proof.SubstGraph Proof.SubstBackends Proof.RVSubst Proof.RVSimAddr Proof.RVSimRel
     Proof.RVHeapAbs Proof.RVHDefs Proof.RVHMem Proof.RVHBridge Proof.HRep Proof.RVMemStoreChain Proof.RVMemLoadChain
     Proof.RVKSimRel Proof.RVKSimStore.
From SCC Require Model.Heap Model.X86 Proof.HeapMore Proof.HeapTrace Proof.HeapRep Proof.HeapRepAlloc Proof.HeapBridge
     Proof.X86Mem Proof.X86MemFrame Proof.X86MemStoreChain Proof.X86MemLoadChain Proof.X86MemLoadFull
     Proof.X86HeapDefs Proof.X86HeapCongr Proof.X86HBridge Proof.X86HFrame Proof.RVHSimLoad.
Import ListNotations.
Open Scope Z_scope.
Open Scope list_scope.

Notation nth_error_Some_lt := RVHSimLoad.nth_error_Some_lt.
Notation Forall2_nth := RVHSimLoad.Forall2_nth.
Notation Forall2_len := RVHSimLoad.Forall2_len.
Notation attach_nth := RVHSimLoad.attach_nth.
Notation attach_erase := RVHSimLoad.attach_erase.
Notation lf_share_ok_words := X86MemLoadFull.lf_share_ok_words.
Notation lf_addrs_waddrs := X86MemLoadFull.lf_addrs_waddrs.
Notation heq_load_object := X86HeapCongr.heq_load_object.

(* the three slot words of a block of a chain: fields, or the link to the next block of the chain *)
Lemma wblocks_slots w : forall k q b, In b (wblocks k w q) ->
  In (b + 16) (waddrs k w q) /\ In (b + 32) (waddrs k w q) /\
  (In (b + 48) (waddrs k w q) \/ In (w (b + 48)) (wblocks k w q)).
Proof.
  induction k as [|k IH]; intros q b Hb; cbn [X86HeapDefs.wblocks X86HeapDefs.waddrs app In] in *.
  - destruct Hb as [<-|[]]. auto 8.
  - destruct Hb as [<-|Hb].
    + split; [auto|]. split; [auto|]. right. right. destruct k; now left.
    + destruct (IH _ _ Hb) as (A & B & C). split; [auto|]. split; [auto|]. destruct C as [C|C]; [left|right]; auto.
Qed.

(* the loaded variables have registers *)
Lemma r_load_temps cx cE lc cl lc1 : r_load cx cE lc = Ok (cl, lc1) -> cx <> [] ->
  (List.length cE + List.length cx <= 14)%nat.
Proof.
  intros XL NE. destruct (r_load_shape cx cE lc cl lc1 XL NE) as (thn & lc1' & els & lc2 & E1 & _ & _).
  destruct (load_fields_unfold (List.length cx) cx cE Last Release lc thn lc1' NE E1) as (c0 & lc0 & lv & _ & Hlv & _).
  change (3 - bp_n Last)%N with 3%N in Hlv. set (rl := rest_len (List.length cx) 3) in *.
  assert (Hrl : rl = (List.length cx - 3)%nat) by apply X86MemStoreChain.rest_len_val.
  assert (Ln : (1 <= List.length cx)%nat) by (destruct cx; [contradiction|cbn; lia]).
  destruct (rev (skipn rl cx)) as [|b l] eqn:ER.
  { apply (f_equal (@List.length binding)) in ER. rewrite rev_length, skipn_length in ER. cbn [List.length] in ER. lia. }
  assert (Ll : S (List.length l) = (List.length cx - rl)%nat).
  { apply (f_equal (@List.length binding)) in ER. rewrite rev_length, skipn_length in ER. cbn [List.length] in ER. lia. }
  cbn [load_values] in Hlv.
  match type of Hlv with context [load_value ?a1 ?a2 ?a3 ?a4 ?a5 ?a6] =>
    destruct (load_value a1 a2 a3 a4 a5 a6) as [[ca lca]|] eqn:Ea; cbn [rbind] in Hlv; [|discriminate] end.
  destruct (load_value_shape _ _ _ _ _ _ _ _ Ea) as (K & _).
  rewrite !app_length, rev_length, firstn_length in K. lia.
Qed.

Section HLoad.
Variable im : image.
Variable types : list tydecl.
Variable CLO : Z -> ident -> list clause -> ctx -> Prop.
Local Notation hrel := (hrel types CLO).
Local Notation hvrep := (hvrep types CLO).
Local Notation xrep := (HRep.xrep types CLO jump_length any_int).
Local Notation xflds := (HRep.xflds types CLO jump_length any_int).
Local Notation xreps := (HRep.xreps types CLO jump_length any_int).

Theorem hsim_load cE cx heE x vq q fs (e1 : env) hs s lc cl lc1 pc lk hl fl cl0 :
  hrel cE heE hs s ->
  rget s (pos_reg Fst (List.length cE)) = Some q ->
  xflds (hword s) fs q -> fs <> [] ->
  map snd e1 = fs -> env_ids e1 = ids cx ->
  Forall2 (fun b f => chi_of f = bchi b /\ ty_of f = bty b) cx fs ->
  NoDup (ids (cE ++ cx)) ->
  InvA HEAP_BASE hs (roots (heE ++ [(x, vq, q)])) hl fl cl0 -> P03 hs ->
  HeapRep.rep_flds lk (Heap.m hs) fs q ->
  Heap.frontier hs <= LIMIT ->
  r_load cx cE lc = Ok (cl, lc1) -> placed im pc cl ->
  exists s', star im pc s (padd pc (List.length cl)) s' /\
    hrel (cE ++ cx) (heE ++ attach e1 (load_ptrs hs (List.length fs) q))
         (Heap.load_object (Heap.nlinks (List.length fs)) q hs) s'.
Proof.
  intros R LQ XF NE E1S E1F KIN ND IA K03 RF HFr XL PL.
  pose proof (hrel_length R) as L0.
  pose proof (Forall2_len _ _ _ KIN) as Lcx.
  set (n := List.length fs) in *. set (k := Heap.nlinks n). set (w := hword s). set (F := Heap.frontier hs).
  assert (Hn : (0 < n)%nat) by (unfold n; destruct fs; [congruence|cbn; lia]).
  destruct (HRep.xflds_cons_inv types CLO jump_length any_int w fs q XF NE) as (Bq & FB & PAD & XS). fold n k in FB, PAD, XS.
  set (A := waddrs k w q) in *.
  assert (LA_ : List.length A = (2 * k + 3)%nat) by apply waddrs_length.
  pose proof (nlinks_bound n Hn) as NB1. pose proof (nlinks_upper n) as NB2. fold k in NB1, NB2.
  assert (NEcx : cx <> []) by (intros ->; cbn in Lcx; lia).
  (* the field slots *)
  assert (FLD : forall i f, nth_error fs i = Some f -> xrep w f (w (nth (List.length A - n + i) A 0)) (w (nth (List.length A - n + i) A 0 + 8))).
  { intros i f Hf. destruct (HRep.xreps_nth types CLO jump_length any_int w fs _ XS i f Hf) as (a & Ha & X).
    rewrite nth_error_skipn_add in Ha. rewrite (nth_error_nth _ _ 0 Ha). exact X. }
  assert (SLOT : forall a, In a A -> w a = 0 \/ is_blk (w a)).
  { intros a Ha. destruct (In_nth A a 0 Ha) as (j & Hj & <-).
    destruct (Nat.lt_ge_cases j (List.length A - n)) as [Lj|Lj]; [left; now apply PAD|].
    destruct (nth_error fs (j - (List.length A - n))) as [f|] eqn:Hf; [|apply nth_error_None in Hf; fold n in Hf; lia].
    pose proof (FLD _ f Hf) as X. replace (List.length A - n + (j - (List.length A - n)))%nat with j in X by lia.
    eapply (HRep.xrep_ptr types CLO jump_length any_int); eauto. }
  (* hypotheses of the refinement theorem *)
  assert (OKW : lf_share_ok (S (List.length cx)) w cx X86.Last q).
  { apply lf_share_ok_words; [exact NEcx| | | |]; cbv zeta; rewrite Lcx; fold n k A; auto.
    intros i b Hb KE. destruct (nth_error fs i) as [f|] eqn:Hf; [|apply nth_error_None in Hf; apply nth_error_Some_lt in Hb; fold n in Hf; lia].
    destruct (Forall2_nth _ _ _ _ _ _ KIN Hb Hf) as [Kc _]. pose proof (FLD i f Hf) as X.
    destruct f; cbn in Kc; try congruence. inversion X; subst. congruence. }
  pose proof (hr_heq R) as HQ. fold F in HQ.
  assert (BND : forall y, is_blk y -> 0 <= hword s y <= HB).
  { intros y Hy. destruct (heq_abs_ps F s hs y HQ Hy) as [_ E]. rewrite <- E.
    eapply hdr_bounds_r; [exact IA|apply P03_P3; exact K03|exact HFr| |exact Hy].
    pose proof (roots_length (heE ++ [(x, vq, q)])) as RL. rewrite app_length in RL. cbn [List.length] in RL.
    pose proof (hrel_small types CLO _ _ _ _ R). lia. }
  pose proof (r_load_temps cx cE lc cl lc1 XL NEcx) as TMP.
  assert (ROOM : forall y, is_blk y -> min_int + 1 <= hword s y /\ hword s y + Z.of_nat (List.length cx) <= max_int).
  { intros y Hy. specialize (BND y Hy). unfold HB, min_int, max_int, two63 in *. lia. }
  assert (LQ' : rget s (rtp (2 * N.of_nat (List.length cE))) = Some q).
  { rewrite pos_reg_rtp in LQ. cbn [tnum_n] in LQ. rewrite N.add_0_r in LQ. exact LQ. }
  destruct (rv_load_chain im pc cx cE lc cl lc1 s q F XL NEcx PL LQ' Bq
              (ex_intro _ _ (hr_heapreg R)) (ex_intro _ _ (hr_freereg R)) OKW ROOM)
    as (s' & ST & EQ & LD & KEEP & NBS & (h' & RH') & RFR).
  rewrite (lf_addrs_waddrs (hword s) cx q NEcx) in LD. rewrite Lcx in LD, EQ. fold n k w A in LD, EQ.
  (* the abstraction afterwards *)
  assert (HQL : heq (Heap.load_object k q (abs_heap F s)) (Heap.load_object k q hs)).
  { apply heq_load_object; [exact HQ|apply P03_P3; exact K03| |].
    - cbn [abs_heap Heap.m]. rewrite obj_blocks_abs. exact FB.
    - cbn [abs_heap Heap.m]. rewrite obj_blocks_abs. intros b Hb. cbn [abs_mem Heap.ps].
      destruct (wblocks_slots w k q b Hb) as (S1 & S2 & S3). fold A in S1, S2, S3.
      repeat (apply Forall_cons); [apply SLOT; exact S1|apply SLOT; exact S2| |apply Forall_nil].
      destruct S3 as [S3|S3]; [apply SLOT; exact S3|right]. rewrite Forall_forall in FB. apply FB. exact S3. }
  set (hs' := Heap.load_object k q hs) in *.
  assert (HQ1 : heq (abs_heap F s') hs') by (eapply heq_eqB; [exact EQ|exact HQL]).
  assert (EF' : Heap.frontier hs' = F) by (destruct HQ1 as (_ & _ & X & _); symmetry; exact X).
  assert (EH : h' = Heap.heap hs').
  { destruct HQ1 as (X & _). cbn [abs_heap Heap.heap] in X. unfold reg_or0 in X. rewrite RH' in X. exact X. }
  assert (EFREE : Heap.free hs' = Heap.free hs).
  { destruct HQ1 as (_ & X & _). cbn [abs_heap Heap.free] in X. unfold reg_or0 in X. rewrite RFR, (hr_freereg R) in X. congruence. }
  assert (EXT : forall a, ~ is_blk a -> hword s' a = hword s a) by exact NBS.
  (* the pointers of the machine are the loaded words *)
  assert (LP : load_ptrs hs n q = map w (skipn (List.length A - n) A)).
  { unfold n, w, A, k. apply (load_ptrs_words F s hs lk fs q HQ K03 NE RF). exact FB. }
  exists s'. split; [exact ST|].
  destruct R as [Hr Fr HQ0 Ids NDc Vals]. split.
  - rewrite RH'. now rewrite EH.
  - rewrite RFR, Fr. now rewrite EFREE.
  - rewrite EF'. exact HQ1.
  - unfold env_ids, ids, erase_env in *. rewrite !map_app. f_equal; [exact Ids|].
    fold (erase_env (attach e1 (load_ptrs hs n q))). rewrite attach_erase. exact E1F.
  - exact ND.
  - intros i y v p Hi. destruct (Nat.lt_ge_cases i (List.length heE)) as [Li|Li].
    + rewrite nth_error_app1 in Hi by exact Li.
      destruct (Vals i y v p Hi) as (b & Hb & V).
      exists b. split; [rewrite nth_error_app1 by lia; exact Hb|].
      destruct V as [b z p t A0 B T Lg|b v p a t1 t2 A0 K1 K2 T1 T2 Lg1 Lg2 X].
      * eapply hv_int; eauto. apply rtpos_rtp in T as [-> _]. rewrite KEEP; [exact Lg|]. cbn [tnum_n]. lia.
      * pose proof T1 as T1'. pose proof T2 as T2'.
        apply rtpos_rtp in T1' as [-> _]. apply rtpos_rtp in T2' as [-> _].
        eapply (hv_ptr types CLO s' i b v p a); eauto.
        -- rewrite KEEP; [exact Lg1|]. cbn [tnum_n]. lia.
        -- rewrite KEEP; [exact Lg2|]. cbn [tnum_n]. lia.
        -- eapply (HRep.xrep_ext types CLO jump_length any_int); [exact EXT|exact X].
    + rewrite nth_error_app2 in Hi by exact Li. set (j := (i - List.length heE)%nat) in *.
      destruct (attach_nth _ _ _ _ _ _ Hi) as [He1 Ep].
      assert (Hf : nth_error fs j = Some v).
      { rewrite <- E1S. rewrite nth_error_map, He1. reflexivity. }
      assert (Lj : (j < n)%nat) by (apply nth_error_Some_lt in Hf; exact Hf).
      destruct (nth_error cx j) as [b|] eqn:Hb; [|apply nth_error_None in Hb; lia].
      exists b. split; [rewrite nth_error_app2 by lia; replace (i - List.length cE)%nat with j by lia; exact Hb|].
      destruct (Forall2_nth _ _ _ _ _ _ KIN Hb Hf) as [Kc Kt].
      destruct (LD j b Hb) as [LS LF]. cbv zeta in LS, LF.
      replace (List.length cE + j)%nat with i in LS, LF by lia.
      set (a := nth (List.length A - n + j) A 0) in *.
      pose proof (FLD j v Hf) as X. fold a in X.
      assert (Ep' : p = w a).
      { rewrite Ep, LP. rewrite (nth_indep _ 0 (w 0)) by (rewrite map_length, skipn_length; lia).
        rewrite map_nth. f_equal. unfold a.
        assert (Hs : nth_error (skipn (List.length A - n) A) j = nth_error A (List.length A - n + j)) by apply nth_error_skipn_add.
        destruct (nth_error A (List.length A - n + j)) as [a0|] eqn:Ha; [|apply nth_error_None in Ha; lia].
        rewrite (nth_error_nth _ _ 0 Hs), (nth_error_nth _ _ 0 Ha). reflexivity. }
      assert (I14 : (i < 14)%nat) by lia.
      assert (RS : rget s' (pos_reg Snd i) = Some (w (a + 8))).
      { rewrite pos_reg_rtp. cbn [tnum_n]. exact LS. }
      assert (RFs : bchi b <> Ext -> rget s' (pos_reg Fst i) = Some (w a)).
      { intros KE. rewrite pos_reg_rtp. cbn [tnum_n]. rewrite N.add_0_r. exact (LF KE). }
      destruct (bchi b) eqn:Kb.
      * rewrite Ep'. apply (hv_ptr types CLO s' i b v (w a) (w (a + 8)) (pos_reg Fst i) (pos_reg Snd i));
          [congruence|congruence|exact Kt|now apply rtpos_lt|now apply rtpos_lt|apply RFs; congruence|exact RS
          |eapply (HRep.xrep_ext types CLO jump_length any_int); [exact EXT|exact X]].
      * rewrite Ep'. apply (hv_ptr types CLO s' i b v (w a) (w (a + 8)) (pos_reg Fst i) (pos_reg Snd i));
          [congruence|congruence|exact Kt|now apply rtpos_lt|now apply rtpos_lt|apply RFs; congruence|exact RS
          |eapply (HRep.xrep_ext types CLO jump_length any_int); [exact EXT|exact X]].
      * destruct v as [z| |]; cbn in Kc, Kt; try congruence. inversion X; subst.
        eapply hv_int; [exact Kb|congruence|apply (rtpos_lt Snd i); exact I14|].
        rewrite RS. congruence.
Qed.
End HLoad.
