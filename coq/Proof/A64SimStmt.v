(* C07, forward simulation of the AArch64 code generator, part 2: what `code_statement` emits for each
   statement of the integer fragment (inversion lemmas), and the statement-level simulation lemmas for
   Literal, Op (defined and undefined results), IfC (both forms), Exit (the move into X0), Substitute
   (any mix of integers and closures) and PrintI64, for EVERY context (any number of variables, in
   registers - X30 included - and spill slots, any aliasing of operands).  They are compositions of the
   selection lemmas of Proof/A64Sel.v, of the parallel-move theorem (Proof/A64PM.v, A64Subst.v), of the
   reference-count theorems (Proof/A64MemSubst.v, A64Subst.v) and of the print theorem (Proof/A64Print.v)
   with the state relation of Proof/A64SimRel.v; nothing is re-proved.  Port of Proof/X86SimStmt.v. *)
From Coq Require Import List ZArith NArith String Bool Lia FMapPositive.
From SCC Require Import Base.Sexp Lang.AxSyn Sem.AxSem Model.ParMoves Model.Backend Model.A64 Sem.A64Sem
     Model.Linearize Model.LinCheck Generated.Constants Proof.LinBasics
     Proof.A64State Proof.A64ImmHw Proof.A64Imm Proof.A64Sel Proof.A64PM Proof.A64Exec
     Proof.A64MemSubst Proof.SubstGraph Proof.SubstBackends Proof.A64Subst Proof.A64Wf Proof.A64Print
     Proof.A64SimRel.
Import ListNotations.
Open Scope Z_scope.
Open Scope list_scope.

(* ================= what code_statement emits ================= *)
Ltac cs_start H := cbn [code_statement] in H.
Ltac cs_fin H :=
  cbn [b_mark a64_backend a64_backend_with app fst snd b_load_immediate b_arith b_print b_mov b_return1 b_jump_label
       b_jcc1 b_jcc2 b_label] in H; inversion H; subst.

Lemma cs_literal types n v next c lc code lc' :
  acs types (Literal n v next) c lc = Ok (code, lc') ->
  exists tv c2, avt (c ++ [mkb v Ext I64]) (idn v) = Ok tv /\
    acs types next (c ++ [mkb v Ext I64]) lc = Ok (c2, lc') /\
    code = a_load_immediate tv n ++ c2.
Proof.
  intros H. cs_start H.
  destruct (avt (c ++ [mkb v Ext I64]) (idn v)) as [tv|] eqn:TV; cbn [rbind] in H; [|discriminate].
  destruct (acs types next (c ++ [mkb v Ext I64]) lc) as [[c2 lc2]|] eqn:NX; cbn [rbind] in H; [|discriminate].
  cs_fin H. eauto.
Qed.

Lemma cs_op types a o b v next c lc code lc' :
  acs types (Op a o b v next) c lc = Ok (code, lc') ->
  exists tv ta tb c2, avt (c ++ [mkb v Ext I64]) (idn v) = Ok tv /\
    avt (c ++ [mkb v Ext I64]) (idn a) = Ok ta /\ avt (c ++ [mkb v Ext I64]) (idn b) = Ok tb /\
    acs types next (c ++ [mkb v Ext I64]) lc = Ok (c2, lc') /\
    code = a_arith o tv ta tb ++ c2.
Proof.
  intros H. cs_start H.
  destruct (avt (c ++ [mkb v Ext I64]) (idn v)) as [tv|] eqn:TV; cbn [rbind] in H; [|discriminate].
  destruct (avt (c ++ [mkb v Ext I64]) (idn a)) as [ta|] eqn:TA; cbn [rbind] in H; [|discriminate].
  destruct (avt (c ++ [mkb v Ext I64]) (idn b)) as [tb|] eqn:TB; cbn [rbind] in H; [|discriminate].
  destruct (acs types next (c ++ [mkb v Ext I64]) lc) as [[c2 lc2]|] eqn:NX; cbn [rbind] in H; [|discriminate].
  cs_fin H. exists tv, ta, tb, c2. auto.
Qed.

Lemma cs_print types nl v next c lc code lc' :
  acs types (PrintI64 nl v next) c lc = Ok (code, lc') ->
  exists tv c2, avt c (idn v) = Ok tv /\ acs types next c lc = Ok (c2, lc') /\ code = a_print nl tv c ++ c2.
Proof.
  intros H. cs_start H.
  destruct (avt c (idn v)) as [tv|] eqn:TV; cbn [rbind] in H; [|discriminate].
  destruct (acs types next c lc) as [[c2 lc2]|] eqn:NX; cbn [rbind] in H; [|discriminate].
  cs_fin H. eauto.
Qed.

Lemma cs_exit types v c lc code lc' :
  acs types (Exit v) c lc = Ok (code, lc') ->
  exists tv, avt c (idn v) = Ok tv /\ code = a_mov (AR RETURN1) tv ++ [B "cleanup"] /\ lc' = lc.
Proof.
  intros H. cs_start H.
  destruct (avt c (idn v)) as [tv|] eqn:TV; cbn [rbind] in H; [|discriminate].
  cs_fin H. eauto.
Qed.

Lemma cs_call types l args c lc code lc' :
  acs types (Call l args) c lc = Ok (code, lc') -> code = [B (show_ident l +++ "_")] /\ lc' = lc.
Proof. intros H. cs_start H. cbn [rbind] in H. cs_fin H. auto. Qed.

Definition iflabel (lc : N) : string := "lab" +++ n_to_string (lc + 1)%N.
Lemma cs_ifc types so a b thenc elsec c lc code lc' :
  acs types (IfC so a b thenc elsec) c lc = Ok (code, lc') ->
  exists ta c1 c2 lc2 c3, avt c (idn a) = Ok ta /\
    match b with
    | None => c1 = compare_immediate ta 0 ++ [bcc so (iflabel lc)]
    | Some b => exists tb, avt c (idn b) = Ok tb /\ c1 = compare ta tb ++ [bcc so (iflabel lc)]
    end /\
    acs types elsec c (lc + 1)%N = Ok (c2, lc2) /\ acs types thenc c lc2 = Ok (c3, lc') /\
    code = c1 ++ c2 ++ [LAB (iflabel lc)] ++ c3.
Proof.
  intros H. cs_start H. fold (iflabel lc) in H.
  destruct (avt c (idn a)) as [ta|] eqn:TA; cbn [rbind] in H; [|discriminate].
  destruct b as [b|].
  - destruct (avt c (idn b)) as [tb|] eqn:TB; cbn [rbind] in H; [|discriminate].
    destruct (acs types elsec c (lc + 1)%N) as [[c2 lc2]|] eqn:EL; cbn [rbind] in H; [|discriminate].
    destruct (acs types thenc c lc2) as [[c3 lc3]|] eqn:TH; cbn [rbind] in H; [|discriminate].
    cs_fin H. exists ta, (compare ta tb ++ [bcc so (iflabel lc)]), c2, lc2, c3.
    repeat split; eauto.
  - cbn [rbind] in H.
    destruct (acs types elsec c (lc + 1)%N) as [[c2 lc2]|] eqn:EL; cbn [rbind] in H; [|discriminate].
    destruct (acs types thenc c lc2) as [[c3 lc3]|] eqn:TH; cbn [rbind] in H; [|discriminate].
    cs_fin H. exists ta, (compare_immediate ta 0 ++ [bcc so (iflabel lc)]), c2, lc2, c3.
    repeat split; eauto.
Qed.

Lemma cs_substitute types re next c lc code lc' :
  acs types (Substitute re next) c lc = Ok (code, lc') ->
  exists c1 lc1 c2 c3,
    code_weakening_contraction a64_backend (transpose re c) c lc = Ok (c1, lc1) /\
    code_exchange a64_backend (transpose re c) c (map fst re) = Ok c2 /\
    acs types next (map fst re) lc1 = Ok (c3, lc') /\ code = c1 ++ c2 ++ c3.
Proof.
  intros H. cs_start H.
  destruct (code_weakening_contraction a64_backend (transpose re c) c lc) as [[c1 lc1]|] eqn:WC; cbn [rbind] in H; [|discriminate].
  destruct (code_exchange a64_backend (transpose re c) c (map fst re)) as [c2|] eqn:CE; cbn [rbind] in H; [|discriminate].
  destruct (acs types next (map fst re) lc1) as [[c3 lc3]|] eqn:NX; cbn [rbind] in H; [|discriminate].
  cs_fin H. exists c1, lc1, c2, c3. auto.
Qed.

(* ================= the emitted straight-line code is local ================= *)
Definition lok (t : atemp) : bool := match t with AR r => nsp r | AS p => slot_off (stack_offset p) end.
Lemma loc_ok_lok t : loc_ok t -> lok t = true.
Proof.
  destruct t as [r|p]; cbn; intros H.
  - destruct r; cbn in *; tauto.
  - now apply slot_off_stack_offset.
Qed.
Lemma slot0_off : slot_off (stack_offset SPILL_TEMP) = true.
Proof. reflexivity. Qed.

Lemma local_move_to_register r t : nsp r = true -> local_code (move_to_register r t) = true.
Proof. intros H; destruct t; cbn; now rewrite H. Qed.
Lemma local_move_from_register t r : lok t = true -> local_code (move_from_register t r) = true.
Proof. intros H; destruct t; cbn in *; now rewrite H. Qed.
Lemma local_a_mov t s : lok t = true -> local_code (a_mov t s) = true.
Proof.
  intros H. unfold a_mov. destruct s as [sr|sp]; [apply local_move_from_register; exact H|].
  destruct t as [tr|tp]; [apply local_move_to_register; exact H|].
  rewrite local_code_app, local_move_to_register, local_move_from_register by (exact H || reflexivity). reflexivity.
Qed.
Lemma local_imm_pieces r v inv ign : nsp r = true -> forall is fd, local_code (imm_pieces r v inv ign fd is) = true.
Proof.
  intros H. induction is as [|i is IH]; intros fd; cbn [imm_pieces]; [reflexivity|].
  destruct (_ =? ign); [apply IH|]. destruct fd; [|destruct inv]; cbn [local_code forallb local_instr]; rewrite H; apply IH.
Qed.
Lemma local_imm_code r v : nsp r = true -> local_code (imm_code r v) = true.
Proof.
  intros H. unfold imm_code. destruct (v =? 0); [cbn; now rewrite H|]. destruct (v =? -1); [cbn; now rewrite H|].
  apply local_imm_pieces; exact H.
Qed.
Lemma local_load_immediate t i : lok t = true -> local_code (a_load_immediate t i) = true.
Proof.
  intros H; destruct t as [r|p]; unfold a_load_immediate; [apply local_imm_code; exact H|].
  rewrite local_code_app, local_imm_code by reflexivity. cbn in *. now rewrite H.
Qed.
Lemma local_load_label t l : lok t = true -> local_code (a_load_label t l) = true.
Proof. intros H; destruct t as [r|p]; cbn in *; now rewrite H. Qed.
Lemma local_compare a b : local_code (compare a b) = true.
Proof. destruct a, b; reflexivity. Qed.
Lemma local_compare_immediate a i : local_code (compare_immediate a i) = true.
Proof. destruct a; reflexivity. Qed.
Lemma local_bcc so l : local_instr (bcc so l) = true.
Proof. destruct so; reflexivity. Qed.
Lemma local_r_rem d a b : nsp d = true -> local_code (r_rem d a b) = true.
Proof.
  intros H. unfold r_rem. destruct (areg_eqb b TEMP2); [destruct (areg_eqb d TEMP)|];
    cbn [local_code forallb local_instr]; rewrite ?H, ?slot0_off; reflexivity.
Qed.
Lemma local_a_op f t s1 s2 :
  (forall d a b, nsp d = true -> local_code (f d a b) = true) -> lok t = true -> local_code (a_op f t s1 s2) = true.
Proof.
  intros Hf H. unfold a_op. destruct t as [tr|tp]; cbn [lok] in H.
  - destruct s1, s2; rewrite ?local_code_app, ?Hf by exact H; try reflexivity.
    unfold scratch_for. destruct (areg_eqb _ _); reflexivity.
  - rewrite local_code_app. cbn [local_code forallb local_instr]. rewrite H, andb_true_r.
    destruct s1, s2; rewrite ?local_code_app, ?Hf by reflexivity; try reflexivity.
    unfold scratch_for. destruct (areg_eqb _ _); reflexivity.
Qed.
Lemma local_a_arith o t s1 s2 : lok t = true -> local_code (a_arith o t s1 s2) = true.
Proof.
  intros H. destruct o; cbn [a_arith]; apply local_a_op; auto; intros d a b Hd; try apply local_r_rem; auto;
    cbn; now rewrite Hd.
Qed.

(* ================= statement-level simulation ================= *)
Lemma return1_operand : operand_ok (AR RETURN1).
Proof. change RETURN1 with (X 0). unfold operand_ok. change TEMP with (X 2). change TEMP2 with (X 3). repeat split; try exact I; congruence. Qed.

Section Sim.
Variable im : image.
Variable CL : Z -> ident -> list clause -> Prop.
Local Notation rel := (rel CL).

(* the temporary of a fresh last variable *)
Lemma vt_fresh c v t :
  NoDup (ids (c ++ [mkb v Ext I64])) -> avt (c ++ [mkb v Ext I64]) (idn v) = Ok t -> atpos Snd (List.length c) = Ok t.
Proof.
  intros ND H. rewrite <- H. symmetry. change (idn v) with (idn (bvar (mkb v Ext I64))).
  apply vt_tpos; auto. apply nth_error_mid.
Qed.

(* ---------- Literal: MOVZ/MOVN/MOVK synthesis of any 64-bit value, into a register or a spill slot ---------- *)
Theorem sim_literal c e s sp n v tv :
  rel c e s sp -> NoDup (ids (c ++ [mkb v Ext I64])) -> in64 n ->
  avt (c ++ [mkb v Ext I64]) (idn v) = Ok tv ->
  exists s', run_straight im (a_load_immediate tv n) s = MOk s' /\
             rel (c ++ [mkb v Ext I64]) (e ++ [(v, VInt n)]) s' sp /\ frame_eq s s' sp.
Proof.
  intros R ND IN TV. apply (vt_fresh c v tv ND) in TV.
  destruct (atpos_ok _ _ _ TV) as ((O & _) & _).
  destruct (a64_load_immediate_ok im s sp tv n (rel_frame R) O IN) as (s' & E & V & P).
  exists s'. split; [exact E|]. split; [eapply rel_push; eauto using preserved_weaken|].
  eapply run_straight_local; eauto using rel_frame. apply local_load_immediate, loc_ok_lok, O.
Qed.

(* ---------- Op ---------- *)
Lemma op_temps c e s sp a b v x y tv ta tb :
  rel c e s sp -> NoDup (ids (c ++ [mkb v Ext I64])) ->
  lookup_int e a = Some x -> lookup_int e b = Some y ->
  avt (c ++ [mkb v Ext I64]) (idn v) = Ok tv ->
  avt (c ++ [mkb v Ext I64]) (idn a) = Ok ta -> avt (c ++ [mkb v Ext I64]) (idn b) = Ok tb ->
  atpos Snd (List.length c) = Ok tv /\ rem_operand_ok tv /\ rem_operand_ok ta /\ rem_operand_ok tb /\
  ta <> AR TEMPORARY_TEMP /\ lget s sp ta = Some x /\ lget s sp tb = Some y /\ in64 x /\ in64 y.
Proof.
  intros R ND LA LB TV TA TB. apply (vt_fresh c v tv ND) in TV.
  destruct (rel_lookup CL c e s sp a x R LA) as (i & bi & ti & Hi & Ei & Ti & Vi & Ii).
  destruct (rel_lookup CL c e s sp b y R LB) as (j & bj & tj & Hj & Ej & Tj & Vj & Ij).
  rewrite <- Ei, (vt_of_nth c _ i bi ND Hi), Ti in TA. inversion TA; subst ti.
  rewrite <- Ej, (vt_of_nth c _ j bj ND Hj), Tj in TB. inversion TB; subst tj.
  destruct (atpos_ok _ _ _ TV) as (O0 & _). destruct (atpos_ok _ _ _ Ti) as (O1 & _). destruct (atpos_ok _ _ _ Tj) as (O2 & _).
  repeat (split; [assumption|]). split; [|auto].
  destruct (atpos_shape _ _ _ Ti) as [(_ & ->)|(_ & q & -> & _)]; [|discriminate].
  change TEMPORARY_TEMP with (X 10). cbn [tnum_n]. intros E. assert (Q : (2 * N.of_nat i + 1 + 4 = 10)%N) by congruence. lia.
Qed.

Theorem sim_op c e s sp a o b v x y z tv ta tb :
  rel c e s sp -> NoDup (ids (c ++ [mkb v Ext I64])) ->
  lookup_int e a = Some x -> lookup_int e b = Some y -> eval_op o x y = OpVal z ->
  avt (c ++ [mkb v Ext I64]) (idn v) = Ok tv ->
  avt (c ++ [mkb v Ext I64]) (idn a) = Ok ta -> avt (c ++ [mkb v Ext I64]) (idn b) = Ok tb ->
  exists s', run_straight im (a_arith o tv ta tb) s = MOk s' /\
             rel (c ++ [mkb v Ext I64]) (e ++ [(v, VInt z)]) s' sp /\ frame_eq s s' sp.
Proof.
  intros R ND LA LB EV TV TA TB.
  destruct (op_temps c e s sp a b v x y tv ta tb R ND LA LB TV TA TB) as (TV' & O0 & O1 & O2 & _ & VA & VB & IA & IB).
  destruct (a64_arith_ok im o s sp tv ta tb x y z (rel_frame R) O0 O1 O2 VA VB IA EV) as (s' & E & V & P).
  exists s'. split; [exact E|]. split; [eapply rel_push; eauto using in64_eval_op|].
  eapply run_straight_local; eauto using rel_frame. apply local_a_arith, loc_ok_lok, O0.
Qed.

(* the undefined cases of div and rem: the code runs into the SDIV that reports them *)
Fixpoint exec_undef (cs : list acode) (s : astate) : option (string * astate) :=
  match cs with
  | [] => None
  | c :: r => match step im c s with
              | Next s' => exec_undef r s'
              | Undefd w s' => Some (w, s')
              | _ => None
              end
  end.
Lemma exec_undef_app a b : forall s s',
  run_straight im a s = MOk s' -> exec_undef (a ++ b) s = exec_undef b s'.
Proof.
  induction a as [|c a IH]; intros s s' E; cbn [app run_straight exec_undef] in *; [now inversion E|].
  destruct (step im c s) eqn:St; try discriminate. now apply IH.
Qed.
Lemma exec_undef_app_l a b : forall s r, exec_undef a s = Some r -> exec_undef (a ++ b) s = Some r.
Proof.
  induction a as [|c a IH]; intros s r E; cbn [app exec_undef] in *; [discriminate|].
  destruct (step im c s) eqn:St; try discriminate; auto.
Qed.
Lemma exec_undef_finishes pc : forall cs s w s',
  code_at im pc cs -> exec_undef cs s = Some (w, s') -> finishes im pc s (finish (out s') (OUndef w)).
Proof.
  intros cs. revert pc. induction cs as [|c cs IH]; intros pc s w s' CA E; cbn in E; [discriminate|].
  apply code_at_cons in CA as [C0 C1]. destruct (step im c s) as [s1| | | |w1 s1] eqn:St; try discriminate.
  - eapply exec_to_finishes; [eapply exec_next; [exact C0|exact St|apply exec_refl]|]. eapply IH; eauto.
  - inversion E; subst. eapply finishes_undef; eauto.
Qed.

Definition undef_of (a b : Z) : opres :=
  if Z.eqb b 0 then OpUndef "div0" else if Z.eqb a min_int && Z.eqb b (-1) then OpUndef "overflow" else OpVal 0.
Lemma step_SDIV_undef s d ra rb a b w :
  rget s ra = Some a -> rget s rb = Some b -> undef_of a b = OpUndef w -> step im (SDIV d ra rb) s = Undefd w s.
Proof.
  intros A Bv W. cbn [step]. unfold need. rewrite A, Bv. unfold undef_of in W.
  destruct (b =? 0); [inversion W; reflexivity|]. destruct ((a =? min_int) && (b =? -1)); [inversion W; reflexivity|discriminate].
Qed.

(* what a division core does on operand REGISTERS holding a and b *)
Definition core_undef (f : areg -> areg -> areg -> list acode) (sp : Z) (a b : Z) (w : string) : Prop :=
  forall s0 d ra rb, frame_ok s0 sp -> rget s0 ra = Some a -> rget s0 rb = Some b -> ra <> TEMPORARY_TEMP ->
    exists s', exec_undef (f d ra rb) s0 = Some (w, s') /\ out s' = out s0.
Lemma r_div_undef sp a b w : undef_of a b = OpUndef w -> core_undef r_div sp a b w.
Proof.
  intros W s0 d ra rb F A Bv _. exists s0. cbn [r_div exec_undef]. rewrite (step_SDIV_undef s0 d ra rb a b w A Bv W). auto.
Qed.
Lemma r_rem_undef sp a b w : undef_of a b = OpUndef w -> core_undef r_rem sp a b w.
Proof.
  intros W s0 d ra rb F A Bv NA. unfold r_rem.
  destruct (areg_eqb rb TEMP2); [destruct (areg_eqb d TEMP)|].
  - assert (P0 : slot_ok SPILL_TEMP) by (unfold slot_ok; rewrite SPILL_NUM_is, SPILL_TEMP_is; lia).
    cbn [exec_undef]. rewrite (step_STR_slot im s0 sp F) by exact P0. rewrite step_MOVR.
    set (s1 := rset (sset s0 sp SPILL_TEMP (rget s0 TEMPORARY_TEMP)) TEMPORARY_TEMP (rget (sset s0 sp SPILL_TEMP (rget s0 TEMPORARY_TEMP)) rb)).
    rewrite (step_SDIV_undef s1 TEMP2 ra TEMPORARY_TEMP a b w); [eexists; split; [reflexivity|]| | |exact W].
    + unfold s1. rewrite out_rset. reflexivity.
    + unfold s1. rewrite rget_rset_other by congruence. rewrite rget_sset. exact A.
    + unfold s1. rewrite TEMPORARY_TEMP_is, rget_rset_same by exact I. rewrite rget_sset. exact Bv.
  - exists s0. cbn [exec_undef]. rewrite (step_SDIV_undef s0 d ra rb a b w A Bv W). auto.
  - exists s0. cbn [exec_undef]. rewrite (step_SDIV_undef s0 TEMP2 ra rb a b w A Bv W). auto.
Qed.

Lemma a_op_undef f s sp t s1 s2 a b w :
  core_undef f sp a b w ->
  frame_ok s sp -> operand_ok s1 -> operand_ok s2 -> s1 <> AR TEMPORARY_TEMP ->
  lget s sp s1 = Some a -> lget s sp s2 = Some b ->
  exists s', exec_undef (a_op f t s1 s2) s = Some (w, s') /\ out s' = out s.
Proof.
  intros Hf F (S1 & N11 & N12) (S2 & N21 & N22) NX A Bv. assert (SPK : sp_ok sp) by apply F.
  assert (G : forall d, exists s', exec_undef (match s1, s2 with
      | AR r1, AR r2 => f d r1 r2
      | AR r1, AS p2 => let scratch := scratch_for r1 in [LDR scratch SP (stack_offset p2)] ++ f d r1 scratch
      | AS p1, AR r2 => [LDR TEMP SP (stack_offset p1)] ++ f d TEMP r2
      | AS p1, AS p2 => [LDR TEMP SP (stack_offset p1); LDR TEMP2 SP (stack_offset p2)] ++ f d TEMP TEMP2
      end) s = Some (w, s') /\ out s' = out s).
  { intros d. consts. destruct s1 as [r1|p1], s2 as [r2|p2]; cbn [lget loc_ok] in *.
    - apply (Hf s d r1 r2 F A Bv). consts. congruence.
    - rewrite scratch_for_other by (consts; congruence). consts. cbn [app exec_undef].
      rewrite (step_LDR_slot im s sp F) by exact S2.
      destruct (Hf (rset s (X 2) (sget s sp p2)) d r1 (X 2)) as (s' & E & O); [frame| | |consts; congruence|].
      + rewrite rget_rset_other by congruence. exact A.
      + rewrite rget_rset_same by exact I. exact Bv.
      + exists s'. split; [exact E|]. rewrite O. apply out_rset.
    - cbn [app exec_undef]. rewrite (step_LDR_slot im s sp F) by exact S1.
      destruct (Hf (rset s (X 2) (sget s sp p1)) d (X 2) r2) as (s' & E & O); [frame| | |consts; congruence|].
      + rewrite rget_rset_same by exact I. exact A.
      + rewrite rget_rset_other by congruence. exact Bv.
      + exists s'. split; [exact E|]. rewrite O. apply out_rset.
    - cbn [app exec_undef]. rewrite (step_LDR_slot im s sp F) by exact S1.
      rewrite (step_LDR_slot im _ sp) by (frame || exact S2).
      destruct (Hf (rset (rset s (X 2) (sget s sp p1)) (X 3) (sget (rset s (X 2) (sget s sp p1)) sp p2)) d (X 2) (X 3)) as (s' & E & O);
        [frame| | |consts; congruence|].
      + rewrite rget_rset_other by congruence. rewrite rget_rset_same by exact I. exact A.
      + rewrite rget_rset_same by exact I. rewrite sget_rset. exact Bv.
      + exists s'. split; [exact E|]. rewrite O. rewrite !out_rset. reflexivity. }
  unfold a_op. destruct t as [tr|tp].
  - destruct (G tr) as (s' & E & O). exists s'. split; [|exact O]. destruct s1, s2; exact E.
  - destruct (G TEMP) as (s' & E & O). exists s'. split; [|exact O]. apply exec_undef_app_l. destruct s1, s2; exact E.
Qed.

Theorem sim_op_undef c e s sp a o b v x y w tv ta tb :
  rel c e s sp -> NoDup (ids (c ++ [mkb v Ext I64])) ->
  lookup_int e a = Some x -> lookup_int e b = Some y -> eval_op o x y = OpUndef w ->
  avt (c ++ [mkb v Ext I64]) (idn v) = Ok tv ->
  avt (c ++ [mkb v Ext I64]) (idn a) = Ok ta -> avt (c ++ [mkb v Ext I64]) (idn b) = Ok tb ->
  exists s', exec_undef (a_arith o tv ta tb) s = Some (w, s') /\ out s' = out s.
Proof.
  intros R ND LA LB EV TV TA TB.
  destruct (op_temps c e s sp a b v x y tv ta tb R ND LA LB TV TA TB) as (TV' & O0 & (O1 & _) & (O2 & _) & NX & VA & VB & IA & IB).
  assert (F : frame_ok s sp) by exact (rel_frame R).
  destruct o; cbn [eval_op a_arith] in *; try discriminate.
  - apply (a_op_undef r_div s sp tv ta tb x y w); auto. apply r_div_undef. unfold undef_of.
    destruct (y =? 0); [exact EV|]. destruct ((x =? min_int) && (y =? -1)); [exact EV|discriminate].
  - apply (a_op_undef r_rem s sp tv ta tb x y w); auto. apply r_rem_undef. unfold undef_of.
    destruct (y =? 0); [exact EV|]. destruct ((x =? min_int) && (y =? -1)); [exact EV|discriminate].
Qed.
End Sim.

Section Sim2.
Variable im : image.
Variable CL : Z -> ident -> list clause -> Prop.
Local Notation rel := (rel CL).

Lemma flags_preserving_rel c e s s' sp : rel c e s sp -> flags_preserving s s' sp -> rel c e s' sp.
Proof.
  intros R (K & _ & _ & F'). apply (rel_keep CL c e s s' sp R F').
  - destruct free_operand as (A & B & C & _). apply (K (AR FREE)); auto.
  - intros k b0 n t _ _ Hk. destruct (atpos_ok _ _ _ Hk) as (((A & B & C) & _) & _). now apply K.
Qed.

(* ---------- IfC: the comparison (CMP sets NZCV), then the conditional branch ---------- *)
Theorem sim_compare2 c e s sp a b x y ta tb :
  rel c e s sp -> lookup_int e a = Some x -> lookup_int e b = Some y ->
  avt c (idn a) = Ok ta -> avt c (idn b) = Ok tb ->
  exists s', run_straight im (compare ta tb) s = MOk s' /\ flags s' = Some (cmp_flags x y) /\ in64 x /\ in64 y /\
             rel c e s' sp /\ frame_eq s s' sp.
Proof.
  intros R LA LB TA TB.
  destruct (rel_lookup CL c e s sp a x R LA) as (i & bi & ti & Hi & Ei & Ti & Vi & Ii).
  destruct (rel_lookup CL c e s sp b y R LB) as (j & bj & tj & Hj & Ej & Tj & Vj & Ij).
  rewrite <- Ei, (vt_of_nth0 c i bi (rel_nodup R) Hi), Ti in TA. inversion TA; subst ti.
  rewrite <- Ej, (vt_of_nth0 c j bj (rel_nodup R) Hj), Tj in TB. inversion TB; subst tj.
  destruct (atpos_ok _ _ _ Ti) as ((O1 & _) & _). destruct (atpos_ok _ _ _ Tj) as ((O2 & _) & _).
  destruct (a64_compare_ok im s sp ta tb x y (rel_frame R) O1 O2 Vi Vj) as (s' & E & FL & FP).
  exists s'. split; [exact E|]. split; [exact FL|]. split; [exact Ii|]. split; [exact Ij|].
  split; [eapply flags_preserving_rel; eauto|].
  eapply run_straight_local; eauto using rel_frame. apply local_compare.
Qed.
Theorem sim_compare1 c e s sp a x ta :
  rel c e s sp -> lookup_int e a = Some x -> avt c (idn a) = Ok ta ->
  exists s', run_straight im (compare_immediate ta 0) s = MOk s' /\ flags s' = Some (cmp_flags x 0) /\ in64 x /\
             rel c e s' sp /\ frame_eq s s' sp.
Proof.
  intros R LA TA.
  destruct (rel_lookup CL c e s sp a x R LA) as (i & bi & ti & Hi & Ei & Ti & Vi & Ii).
  rewrite <- Ei, (vt_of_nth0 c i bi (rel_nodup R) Hi), Ti in TA. inversion TA; subst ti.
  destruct (atpos_ok _ _ _ Ti) as ((O1 & _) & _).
  destruct (a64_compare_zero_ok im s sp ta x (rel_frame R) O1 Vi) as (s' & E & FL & FP).
  exists s'. split; [exact E|]. split; [exact FL|]. split; [exact Ii|].
  split; [eapply flags_preserving_rel; eauto|].
  eapply run_straight_local; eauto using rel_frame. apply local_compare_immediate.
Qed.

Lemma in64_0 : in64 0. Proof. unfold in64, two63. lia. Qed.

(* the whole conditional inside an image: control reaches the first instruction of the branch the
   AxCut machine takes (the else branch follows the B.cond, the then branch follows the label) *)
Theorem sim_ifc c e s sp so a b x y types thenc elsec lc code lc' pc :
  rel c e s sp -> lookup_int e a = Some x ->
  match b with Some b => lookup_int e b | None => Some 0 end = Some y ->
  acs types (IfC so a b thenc elsec) c lc = Ok (code, lc') ->
  code_at im pc code -> labels_at_nh im pc code ->
  exists c1 c2 lc2 c3 s',
    code = c1 ++ c2 ++ [LAB (iflabel lc)] ++ c3 /\
    acs types elsec c (lc + 1)%N = Ok (c2, lc2) /\ acs types thenc c lc2 = Ok (c3, lc') /\
    exec_to im pc s (if eval_cmp so x y then padd pc (List.length c1 + List.length c2 + 1)
                     else padd pc (List.length c1)) s' /\
    rel c e s' sp /\ frame_eq s s' sp.
Proof.
  intros R LA LB CS CA LBL.
  destruct (cs_ifc _ _ _ _ _ _ _ _ _ _ CS) as (ta & c1 & c2 & lc2 & c3 & TA & C1 & EL & TH & ->).
  exists c1, c2, lc2, c3.
  assert (PRE : exists pre s1, c1 = pre ++ [bcc so (iflabel lc)] /\ run_straight im pre s = MOk s1 /\
                               flags s1 = Some (cmp_flags x y) /\ in64 x /\ in64 y /\ rel c e s1 sp /\ frame_eq s s1 sp).
  { destruct b as [b|].
    - destruct C1 as (tb & TB & ->).
      destruct (sim_compare2 c e s sp a b x y ta tb R LA LB TA TB) as (s1 & E & FL & IX & IY & R1 & FE). eauto 10.
    - inversion LB; subst y. destruct (sim_compare1 c e s sp a x ta R LA TA) as (s1 & E & FL & IX & R1 & FE).
      exists (compare_immediate ta 0), s1. repeat (split; [first [reflexivity|assumption|exact in64_0]|]). exact FE. }
  destruct PRE as (pre & s1 & -> & E & FL & IX & IY & R1 & FE).
  pose proof CA as CA'. rewrite <- app_assoc in CA'. apply code_at_app in CA' as [CApre CArest].
  pose proof (run_straight_exec_to im pre pc s s1 CApre E) as X1.
  assert (CJ : PM.find (padd pc (List.length pre)) (code im) = Some (bcc so (iflabel lc))).
  { cbn [app] in CArest. apply code_at_cons in CArest as [C0 _]. exact C0. }
  assert (LL : nth_error ((pre ++ [bcc so (iflabel lc)]) ++ c2 ++ [LAB (iflabel lc)] ++ c3)
                         (List.length (pre ++ [bcc so (iflabel lc)]) + List.length c2) = Some (LAB (iflabel lc))).
  { rewrite nth_error_app2 by lia. rewrite nth_error_app2 by lia.
    replace (_ + _ - _ - _)%nat with O by lia. reflexivity. }
  exists s1. split; [reflexivity|]. split; [exact EL|]. split; [exact TH|]. split; [|split; [exact R1|exact FE]].
  pose proof (a64_bcc_step im so (iflabel lc) s1 x y FL IX IY) as ST.
  rewrite app_length. cbn [List.length].
  destruct (eval_cmp so x y).
  - rewrite (goto_label_at im pc _ _ _ s1 LBL LL eq_refl) in ST.
    eapply exec_to_trans; [exact X1|].
    eapply exec_jump; [exact CJ|exact ST|].
    eapply exec_next; [apply (code_at_nth im pc _ _ _ CA LL)|reflexivity|].
    rewrite <- padd_succ. rewrite app_length. cbn [List.length].
    replace (S (List.length pre + 1 + List.length c2)) with (List.length pre + 1 + List.length c2 + 1)%nat by lia.
    apply exec_refl.
  - eapply exec_to_trans; [exact X1|].
    eapply exec_next; [exact CJ|exact ST|]. rewrite <- padd_succ.
    replace (S (List.length pre)) with (List.length pre + 1)%nat by lia. apply exec_refl.
Qed.

(* ---------- Exit: the result reaches X0, then control goes to `cleanup` ---------- *)
Theorem sim_exit_mov c e s sp v z tv :
  rel c e s sp -> lookup_int e v = Some z -> avt c (idn v) = Ok tv ->
  exists s', run_straight im (a_mov (AR RETURN1) tv) s = MOk s' /\ rget s' RETURN1 = Some z /\
             frame_ok s' sp /\ frame_eq s s' sp.
Proof.
  intros R LV TV.
  destruct (rel_lookup CL c e s sp v z R LV) as (i & bi & ti & Hi & Ei & Ti & Vi & Ii).
  rewrite <- Ei, (vt_of_nth0 c i bi (rel_nodup R) Hi), Ti in TV. inversion TV; subst ti.
  destruct (atpos_ok _ _ _ Ti) as ((O1 & _) & _).
  destruct (a64_mov_ok im s sp (AR RETURN1) tv (rel_frame R) return1_operand O1) as (s' & E & V & P).
  exists s'. split; [exact E|]. split; [cbn [lget] in V; congruence|].
  eapply run_straight_local; eauto using rel_frame. apply local_a_mov. reflexivity.
Qed.
End Sim2.

(* ================= Substitute ================= *)
(* in the integer fragment no reference count is touched *)
Lemma cwc_int tm c : forall lc,
  (forall b tg, In (b, tg) tm -> bchi b = Ext) -> code_weakening_contraction a64_backend tm c lc = Ok ([], lc).
Proof.
  induction tm as [|[b tg] tm IH]; intros lc H; cbn [code_weakening_contraction]; [reflexivity|].
  rewrite (H b tg (or_introl eq_refl)). apply IH. intros b' tg' Hin. apply (H b' tg'). now right.
Qed.
Lemma cwc_ctx_int c re lc : ctx_int c = true -> NoDup (ids c) ->
  code_weakening_contraction a64_backend (transpose re c) c lc = Ok ([], lc).
Proof.
  intros CI ND. apply cwc_int. intros b tg Hin.
  apply (In_transpose re c b tg (NoDup_map_inv _ _ ND)) in Hin as (Hin & _).
  apply In_nth_error in Hin as (i & Hi). apply (ctx_int_nth c i b CI Hi).
Qed.

(* the labels of the reference-count code are branch labels `lab<n>` *)
Lemma nh_lab n : hash_name (lab n) = false. Proof. reflexivity. Qed.
Ltac nh_tac :=
  repeat first [ apply Forall_nil | apply Forall_cons; [first [exact I | apply nh_lab | reflexivity]|]
               | apply nh_labels_app ].
Lemma nh_skip_if_zero t body lc : nh_labels body -> nh_labels (fst (skip_if_zero t body lc)).
Proof. intros H. unfold skip_if_zero. cbn [fst]. nh_tac; auto. Qed.
Lemma nh_if_zero_then_else r tb eb lc : nh_labels tb -> nh_labels eb -> nh_labels (fst (if_zero_then_else r tb eb lc)).
Proof. intros H1 H2. unfold if_zero_then_else. cbn [fst]. nh_tac; auto. Qed.
Lemma nh_erase_valid r lc : nh_labels (fst (erase_valid_object r lc)).
Proof. unfold erase_valid_object. apply nh_if_zero_then_else; nh_tac. Qed.
Lemma nh_erase t lc : nh_labels (fst (a_erase_block t lc)).
Proof.
  unfold a_erase_block. destruct t as [r|p].
  - pose proof (nh_erase_valid r lc) as H. destruct (erase_valid_object r lc) as [c lc1]. cbn [fst] in H.
    apply nh_skip_if_zero. nh_tac. exact H.
  - pose proof (nh_erase_valid TEMP lc) as H. destruct (erase_valid_object TEMP lc) as [c lc1]. cbn [fst] in H.
    pose proof (nh_skip_if_zero TEMP ([LDR TEMP2 TEMP REFERENCE_COUNT_OFFSET] ++ c) lc1) as H2.
    destruct (skip_if_zero TEMP _ lc1) as [c2 lc2]. cbn [fst] in *. nh_tac. apply H2. nh_tac. exact H.
Qed.
Lemma nh_share t n lc : nh_labels (fst (a_share_block_n t n lc)).
Proof.
  unfold a_share_block_n. destruct t as [r|p].
  - apply nh_skip_if_zero. unfold share_code. nh_tac.
  - pose proof (nh_skip_if_zero TEMP (share_code TEMP n) lc) as H. destruct (skip_if_zero TEMP _ lc) as [c lc1].
    cbn [fst] in *. nh_tac. apply H. unfold share_code. nh_tac.
Qed.
Lemma nh_emit_rc : forall ops lc, nh_labels (fst (emit_rc a64_backend ops lc)).
Proof.
  induction ops as [|o ops IH]; intros lc; cbn [emit_rc]; [constructor|].
  destruct (emit_rc_op a64_backend o lc) as [c1 lc1] eqn:E1. destruct (emit_rc a64_backend ops lc1) as [c2 lc2] eqn:E2.
  cbn [fst]. apply nh_labels_app.
  - replace c1 with (fst (emit_rc_op a64_backend o lc)) by (now rewrite E1).
    destruct o; cbn [emit_rc_op b_erase b_share_n a64_backend a64_backend_with]; [apply nh_erase|apply nh_share].
  - replace c2 with (fst (emit_rc a64_backend ops lc1)) by (now rewrite E2). apply IH.
Qed.

Section Sim3.
Variable im : image.
Variable CL : Z -> ident -> list clause -> Prop.
Local Notation rel := (rel CL).

(* the temporaries of a source position and of a new position it is assigned to are defined and
   joined by an edge of the move graph, because the moves were emitted *)
Lemma subst_edge c re am n i bi j pj :
  NoDup (ids c) -> NoDup (new_ids re) ->
  connections a64_backend (transpose re c) c (map fst re) = Ok am ->
  nth_error c i = Some bi -> allowed n bi -> nth_error re j = Some pj -> idn (snd pj) = idn (bvar bi) ->
  exists ta tb, atpos n i = Ok ta /\ atpos n j = Ok tb /\ edge atemp a64_teqb am ta tb.
Proof.
  intros NDc NDn CN Hbi AL Hre EQ.
  destruct (all_ok a64_backend a64_backend_ok c re am NDc NDn CN n i bi Hbi AL) as (a & ts & K & _).
  pose proof (connections_edges a64_backend a64_backend_ok c re am NDc NDn CN) as EDG.
  unfold op_kv in K. rewrite (vt_tpos a64_backend n c i bi NDc Hbi) in K.
  destruct (atpos n i) as [ta|] eqn:TA; cbn [rbind] in K; [|discriminate].
  destruct (rmap _ (targets re bi)) as [ts0|] eqn:RM; cbn [rbind] in K; [|discriminate].
  apply rmap_Forall2 in RM.
  assert (In (idn (bvar (fst pj))) (targets re bi)) as I.
  { unfold targets. apply in_map_iff. exists pj. split; auto. apply filter_In. split.
    - eapply nth_error_In; eauto.
    - apply N.eqb_eq. congruence. }
  destruct (Forall2_In_l _ _ _ _ RM I) as (tb & _ & Vy). cbn beta in Vy.
  rewrite (vt_tpos_new a64_backend n re j pj NDn Hre) in Vy.
  exists ta, tb. split; [reflexivity|]. split; [exact Vy|]. apply EDG. exists i, j, bi, pj, n. repeat split; auto.
Qed.

(* Substitute, any mix of integer and closure variables: the reference-count code (one skipped
   erase / share per closure variable that is dropped / duplicated: the block pointer of a closure without
   captured variables is null) followed by the parallel moves leaves the machine's rearranged environment in
   the temporaries of the new context *)
Theorem sim_substitute c e s sp re vs e' c1 lc lc1 c2 pc :
  rel c e s sp -> NoDup (new_ids re) ->
  (forall q, In q re -> has c (snd q) (bchi (fst q)) (bty (fst q)) = true) ->
  lookups e (map snd re) = Some vs -> bind (map (fun r => bvar (fst r)) re) vs = Some e' ->
  code_weakening_contraction a64_backend (transpose re c) c lc = Ok (c1, lc1) ->
  code_exchange a64_backend (transpose re c) c (map fst re) = Ok c2 ->
  code_at im pc (c1 ++ c2) -> labels_at_nh im pc (c1 ++ c2) ->
  exists s', exec_to im pc s (padd pc (List.length (c1 ++ c2))) s' /\ rel (map fst re) e' s' sp /\ frame_eq s s' sp.
Proof.
  intros R NDn KIND LK BD WC CE CA LA.
  pose proof (rel_nodup R) as NDc. pose proof (rel_frame R) as F. pose proof (rel_length R) as LEN.
  apply code_at_app in CA as [CA1 CA2]. apply labels_at_nh_app in LA as [LA1 _].
  unfold code_exchange in CE.
  destruct (connections a64_backend (transpose re c) c (map fst re)) as [am|] eqn:CN; cbn [rbind] in CE; [|discriminate].
  (* every new variable has a source position of the same kind and type *)
  assert (SRC : forall j pj, nth_error re j = Some pj ->
            exists i bi, nth_error c i = Some bi /\ idn (bvar bi) = idn (snd pj) /\
                         bchi bi = bchi (fst pj) /\ bty bi = bty (fst pj)).
  { intros j pj Hj. specialize (KIND pj (nth_error_In _ _ Hj)). unfold has in KIND.
    destruct (lookup_b c (idn (snd pj))) as [bi|] eqn:LB; [|discriminate].
    apply lookup_b_Some in LB as [Hin Hid]. apply andb_true_iff in KIND as [K1 K2].
    apply chi_eqb_eq in K1. apply ty_eqb_eq in K2. apply In_nth_error in Hin as (i & Hi). eauto 8. }
  (* phase 1: reference counts, all on null pointers *)
  destruct (weakening_contraction_counts a64_backend c re lc c1 lc1 NDc WC) as (order & PERM & _ & ORD & ops & F2 & EM).
  assert (OBJ : forall i b, In (i, b) order -> is_obj b = true).
  { intros i b Hin. assert (In b (map snd order)) as Hb by (apply in_map_iff; exists (i, b); auto).
    eapply Permutation.Permutation_in in Hb; [|exact PERM]. apply filter_In in Hb. tauto. }
  assert (NULL : forall i b t, In (i, b) order -> atpos Fst i = Ok t -> lget s sp t = Some 0).
  { intros i b t Hin Ht. pose proof (ORD i b Hin) as Hnth. pose proof (OBJ i b Hin) as Ho.
    assert (Li : (i < List.length e)%nat) by (rewrite LEN; apply nth_error_Some; congruence).
    destruct (nth_error e i) as [[y v]|] eqn:He; [|apply nth_error_None in He; lia].
    destruct (rel_vals R i y v He) as (b' & Hb' & V). assert (b' = b) by congruence. subst b'.
    inversion V; subst.
    - unfold is_obj in Ho. rewrite H in Ho. discriminate.
    - congruence. }
  assert (RCOK : Forall (rc_ok s sp) (List.concat ops)).
  { apply Forall_concat. clear EM PERM. induction F2 as [|[i b] o order' ops' (t & Ht & ->) _ IHF]; constructor.
    - cbn [fst snd] in *.
      destruct (atpos_operand_ok Fst i t Ht) as (VT & NF & _).
      pose proof (NULL i b t (or_introl eq_refl) Ht) as Hp.
      destruct (count_targets re b) as [|[|k]]; cbn [rc_op_for].
      + constructor; [|constructor]. unfold rc_ok; cbn [rc_temp].
        split; [exact VT|split; [exact NF|exists 0; auto]].
      + constructor.
      + constructor; [|constructor]. unfold rc_ok; cbn [rc_temp].
        split; [exact VT|split; [exact NF|exists 0; auto]].
    - apply IHF; intros; [apply ORD|eapply OBJ|eapply NULL]; try right; eauto. }
  assert (EMc : c1 = fst (emit_rc a64_backend (List.concat ops) lc)) by (now rewrite <- EM).
  destruct (rel_free R) as (f & FR).
  assert (LA1' : labels_at im pc c1) by (apply labels_at_of_nh; [rewrite EMc; apply nh_emit_rc|exact LA1]).
  rewrite EMc in CA1, LA1'.
  destruct (a64_emit_rc_ok im s sp (List.concat ops) pc lc s f RCOK (fun r _ _ _ => eq_refl) eq_refl CA1 LA1' F FR)
    as (s1 & f1 & X1 & X2 & X3 & X4 & X5 & X6).
  rewrite <- EMc in X1.
  (* null pointers: heap and FREE are unchanged *)
  assert (ID : fold_left (fun hf o => rc_h s sp o hf) (List.concat ops) (heap s, f) = (heap s, f)).
  { clear -RCOK NULL F2 ORD. revert RCOK. generalize (heap s, f) as hf.
    assert (Z0 : Forall (fun o => ptr_of s sp (rc_temp o) = 0) (List.concat ops)).
    { apply Forall_concat. induction F2 as [|[i b] o order' ops' (t & Ht & ->) _ IHF]; constructor.
      - cbn [fst snd] in *. pose proof (NULL i b t (or_introl eq_refl) Ht) as Hp.
        destruct (count_targets re b) as [|[|k]]; cbn [rc_op_for]; repeat constructor; cbn [rc_temp]; unfold ptr_of; now rewrite Hp.
      - apply IHF; intros; [apply ORD|eapply NULL]; try right; eauto. }
    induction Z0 as [|o l Ho _ IH]; intros hf RC; cbn [fold_left]; [reflexivity|].
    inversion RC; subst. rewrite <- IH by assumption. f_equal.
    destruct o; cbn [rc_h rc_temp] in *; rewrite Ho; unfold erase_h, share_h; reflexivity. }
  rewrite ID in X3. inversion X3 as [[HP FQ]]. subst f1.
  assert (F1 : frame_ok s1 sp).
  { destruct F as [A B]. split; [|exact B]. change (spv s1) with (rget s1 SP). rewrite X4; [exact A|discriminate|discriminate|discriminate]. }
  assert (AG : forall t, operand_ok t -> t <> AR FREE -> lget s1 sp t = lget s sp t).
  { intros t VT NF. apply lget_agree; auto. }
  (* phase 2: the parallel moves *)
  destruct (transpose_connections_indeg1 a64_backend a64_backend_ok c re am NDc NDn CN) as (IDG & NT & SRT & KEYS).
  pose proof (connections_edges a64_backend a64_backend_ok c re am NDc NDn CN) as EDG.
  assert (NDK : NoDup (map fst am)).
  { apply (sorted_nodup atemp_compare (cmp_eq a64_backend a64_backend_ok)). exact SRT. }
  assert (VTam : forall t, In t (map fst am) \/ In t (all_targets atemp am) -> operand_ok t /\ t <> AR FREE).
  { intros t [Hk|Ht].
    - destruct (KEYS t Hk) as (i & bi & n & _ & _ & Hp). destruct (atpos_operand_ok n i t Hp); tauto.
    - unfold all_targets in Ht. apply in_flat_map in Ht as ([k ts] & Hin & Ht). cbn [snd] in Ht.
      assert (edge atemp a64_teqb am k t) as E.
      { exists ts. split; [|exact Ht]. apply lookup_of_In; auto. }
      apply EDG in E as (i & j & bi & pj & n & _ & _ & _ & _ & _ & Hb). destruct (atpos_operand_ok n j t Hb); tauto. }
  assert (AMOK : amap_ok atemp operand_ok am).
  { intros k ts Hin. split.
    - apply VTam. left. apply in_map_iff. exists (k, ts). auto.
    - apply Forall_forall. intros t Ht. apply VTam. right. unfold all_targets. apply in_flat_map. exists (k, ts). auto. }
  destruct (a64_parallel_moves_frame_ok im am c2 s1 sp IDG NT AMOK CE F1) as (s2 & E2 & P1 & P2 & F2' & H2 & O2 & _ & OUT).
  pose proof (run_straight_exec_to im c2 _ s1 s2 CA2 E2) as X2'.
  assert (FREE2 : rget s2 FREE = Some f).
  { rewrite <- X2. change (rget s2 FREE) with (lget s2 sp (AR FREE)). change (rget s1 FREE) with (lget s1 sp (AR FREE)).
    apply P2.
    + destruct free_operand as (A & B & C & _). repeat split; auto.
    + intros a E. apply EDG in E as (i & j & bi & pj & n & _ & _ & _ & _ & _ & Hb).
      destruct (atpos_operand_ok n j _ Hb) as (_ & N & _). congruence. }
  exists s2. split; [rewrite app_length, padd_add; eapply exec_to_trans; eauto|]. split.
  - destruct R as [F0 Ro Fr Ids ND0 Vals]. split; auto.
    + eauto.
    + unfold env_ids. rewrite <- (map_map fst idn), (bind_ids _ _ _ BD). unfold ids. now rewrite !map_map.
    + now rewrite ids_new.
    + intros j x v Hj.
      destruct (bind_nth _ _ _ _ _ _ BD Hj) as (Hx & Hv).
      rewrite nth_error_map in Hx. destruct (nth_error re j) as [pj|] eqn:Hre; [|discriminate]. cbn in Hx. inversion Hx; subst x.
      exists (fst pj). split; [now rewrite nth_error_map, Hre|].
      destruct (lookups_nth e (map snd re) vs j (snd pj) LK) as (v' & Hv' & LV).
      { now rewrite nth_error_map, Hre. }
      assert (v' = v) by congruence. subst v'.
      unfold lookup_id in LV. destruct (lookup_nth e _ _ LV) as (i & y & Hi & Ey).
      destruct (Vals i y v Hi) as (bi & Hbi & V).
      destruct (SRC j pj Hre) as (i' & bi' & Hi' & Ei' & KC & KT).
      assert (i' = i).
      { destruct (env_ctx_nth c e i y v Ids Hi) as (b0 & Hb0 & Eb0).
        eapply (ids_nth_inj c i' i bi' b0); eauto. congruence. }
      subst i'. assert (bi' = bi) by congruence. subst bi'.
      assert (MV : forall n ta, allowed n bi -> atpos n i = Ok ta -> exists tb, atpos n j = Ok tb /\ lget s2 sp tb = lget s sp ta).
      { intros n ta AL Ta.
        destruct (subst_edge c re am n i bi j pj NDc NDn CN Hbi AL Hre (eq_sym Ei')) as (ta' & tb & Ta' & Tb & ED).
        assert (ta' = ta) by congruence. subst ta'. exists tb. split; [exact Tb|].
        rewrite (P1 ta tb ED). destruct (atpos_operand_ok n i ta Ta) as (VT & NF & _). now apply AG. }
      inversion V as [b0 z0 t0 K1 K2 T0 L0 I0|b0 tn0 cls0 a0 t1 t2 K1 K2 T1 T2 L1 L2 C0]; subst.
      * destruct (MV Snd t0 (or_introl eq_refl) T0) as (tb & Tb & Lb).
        eapply vrep_int; eauto; congruence.
      * assert (AL : forall n, allowed n bi) by (intros n; right; congruence).
        destruct (MV Fst t1 (AL Fst) T1) as (tb1 & Tb1 & Lb1). destruct (MV Snd t2 (AL Snd) T2) as (tb2 & Tb2 & Lb2).
        eapply vrep_clo; eauto; congruence.
  - repeat split; try congruence.
    intros k Hk. rewrite (OUT k Hk). now rewrite X5.
Qed.
End Sim3.

(* ================= Call: relabelling by a context of the same kinds ================= *)
Lemma vrep_kind CL s sp i b b' v : bchi b' = bchi b -> bty b' = bty b -> vrep CL s sp i b v -> vrep CL s sp i b' v.
Proof.
  intros K T V. destruct V as [b z t A B T0 L I|b tn cls a t1 t2 A B T1 T2 L1 L2 C].
  - eapply vrep_int; eauto; congruence.
  - eapply vrep_clo; eauto; congruence.
Qed.
Lemma bind_rel CL c e st sp (c' : ctx) e' :
  rel CL c e st sp -> NoDup (ids c') -> sig_match c c' = true ->
  bind (vars c') (map snd e) = Some e' -> rel CL c' e' st sp.
Proof.
  intros R ND SM BD. pose proof (rel_length R) as LE. destruct R as [F Ro Fr Ids ND0 Vals]. split; auto.
  - unfold env_ids. rewrite <- (map_map fst idn), (bind_ids _ _ _ BD). unfold vars, ids. now rewrite map_map.
  - intros i x v Hi. destruct (bind_nth _ _ _ _ _ _ BD Hi) as (_ & Hv).
    rewrite nth_error_map in Hv. destruct (nth_error e i) as [[y w]|] eqn:He; [|discriminate]. cbn in Hv. inversion Hv; subst w.
    destruct (Vals i y v He) as (b & Hb & V). destruct (sig_match_nth c c' i b SM Hb) as (b' & Hb' & K & T).
    exists b'. split; [exact Hb'|]. apply (vrep_kind CL st sp i b b' v); [congruence|congruence|exact V].
Qed.

(* ================= PrintI64 ================= *)
Definition above_eq (s s' : astate) (sp : Z) : Prop :=
  heap s' = heap s /\ (forall k, sp <= Z.pos k - 1 -> PM.find k (stack s') = PM.find k (stack s)).

Section Print.
Variable im : image.
Variable CL : Z -> ident -> list clause -> Prop.
Local Notation rel := (rel CL).

(* PrintI64 in ANY context (integers and closures in any positions, in particular a 13th variable in the
   link register): Proof/A64Print.v (worker a64abi's theorem behind C13_a64_print_preserves_context) says
   that every temporary of every variable, HEAP, FREE, SP, the heap and the stack at and above SP survive *)
Theorem sim_print c e s sp nl v z tv :
  rel c e s sp -> lookup_int e v = Some z -> avt c (idn v) = Ok tv ->
  exists s', run_straight im (a_print nl tv c) s = MOk s' /\
    rel c e s' sp /\ out s' = (nl, z) :: out s /\ above_eq s s' sp.
Proof.
  intros R LV TV.
  destruct (rel_lookup CL c e s sp v z R LV) as (i & bi & ti & Hi & Ei & Ti & Vi & Ii).
  rewrite <- Ei, (vt_of_nth0 c i bi (rel_nodup R) Hi), Ti in TV. inversion TV; subst ti.
  destruct (a64_print_ok im nl tv c s sp z (rel_frame R) (rel_room R)) as (s' & E & O & H & F' & HP & FR & K & AB).
  { eapply a64_print_src_ok_variable; eauto. }
  { exact Vi. }
  exists s'. split; [exact E|]. split; [|split; [exact O|split; [exact H|exact AB]]].
  apply (rel_keep CL c e s s' sp R F' FR).
  intros j b n t Hj AL Tj. apply (K j b n t Hj AL Tj).
Qed.
End Print.
