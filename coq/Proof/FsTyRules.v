(* Proof/FsTyRules.v (C12) - the checker for focused Core (Sem/FsCheck.v, lookup by numeric id) read as
   typing rules: one equivalence per constructor, the clause loop as Forall.  Used to BUILD the typing
   derivation of the output of focusing. *)
From Coq Require Import List ZArith NArith String Bool Lia.
From SCC Require Import Base.Sexp Lang.SynUtil Lang.CoreSyn Sem.FsCheck Proof.CoreTyRules.
Import ListNotations.
Open Scope list_scope.

Lemma flookup_id : forall G x b, flookup G x = Some b -> cid_id (cbvar b) = x.
Proof.
  induction G as [|b0 r IH]; simpl; intros x b H; [discriminate|].
  destruct (N.eqb (cid_id (cbvar b0)) x) eqn:E; [|apply IH; exact H].
  injection H as H. subst. apply N.eqb_eq. exact E.
Qed.
Lemma flookup_In : forall G x b, flookup G x = Some b -> In b G.
Proof.
  induction G as [|b0 r IH]; simpl; intros x b H; [discriminate|].
  destruct (N.eqb (cid_id (cbvar b0)) x); [injection H as H; left; exact H | right; eapply IH; exact H].
Qed.
Lemma flookup_cons : forall b0 G x,
  flookup (b0 :: G) x = if N.eqb (cid_id (cbvar b0)) x then Some b0 else flookup G x.
Proof. reflexivity. Qed.
Lemma flookup_app : forall A G x,
  flookup (A ++ G) x = match flookup A x with Some b => Some b | None => flookup G x end.
Proof.
  induction A as [|b0 r IH]; simpl; intros G x; [reflexivity|].
  destruct (N.eqb (cid_id (cbvar b0)) x); [reflexivity | apply IH].
Qed.
Lemma flookup_none : forall G x, flookup G x = None <-> ~ In x (cids G).
Proof.
  induction G as [|b0 r IH]; simpl; intros x; [tauto|].
  destruct (N.eqb (cid_id (cbvar b0)) x) eqn:E.
  - apply N.eqb_eq in E. split; [discriminate | intros H; exfalso; apply H; left; exact E].
  - apply N.eqb_neq in E. rewrite IH. tauto.
Qed.
Lemma flookup_nodup : forall G b, NoDup (cids G) -> In b G -> flookup G (cid_id (cbvar b)) = Some b.
Proof.
  induction G as [|b0 r IH]; simpl; intros b Hnd Hin; [contradiction|].
  inversion Hnd as [|? ? Hn Hnd']; subst.
  destruct Hin as [->|Hin]; [rewrite N.eqb_refl; reflexivity|].
  destruct (N.eqb (cid_id (cbvar b0)) (cid_id (cbvar b))) eqn:E; [|apply IH; assumption].
  apply N.eqb_eq in E. exfalso. apply Hn. rewrite E. apply (in_map (fun b => cid_id (cbvar b))). exact Hin.
Qed.

Lemma fbound_iff : forall G x c t, fbound G x c t = None <->
  exists b, flookup G (cid_id x) = Some b /\ cbchi b = c /\ cbty b = t.
Proof.
  intros G x c t. unfold fbound. destruct (flookup G (cid_id x)) as [b|] eqn:E.
  - rewrite fens, andb_true_iff, ceq_chi, ceq_ty. split.
    + intros [H1 H2]. exists b. auto.
    + intros [b' [H [H1 H2]]]. injection H as <-. auto.
  - split; [discriminate | intros [b [H _]]; discriminate].
Qed.
Lemma fbound_bound : forall G b, flookup G (cid_id (cbvar b)) = Some b -> fbound G (cbvar b) (cbchi b) (cbty b) = None.
Proof. intros G b H. apply fbound_iff. exists b. auto. Qed.

(* arguments that are bound and have the kinds and types of the signature *)
Definition farg_ok (G : cctx) (a s : cbinding) : Prop :=
  cbchi a = cbchi s /\ cbty a = cbty s /\ flookup G (cid_id (cbvar a)) = Some a.
Lemma fargs_ok_intro : forall what G args sig, Forall2 (farg_ok G) args sig -> fargs_ok what G args sig = None.
Proof.
  intros what G args sig H. induction H as [|a s ar sr [H1 [H2 H3]] Hr IH]; simpl; [reflexivity|].
  apply seqn. split.
  - apply fens. unfold csame_sig. rewrite H1, H2, ceq_chi_refl, ceq_ty_refl. reflexivity.
  - apply seqn. split; [apply fbound_bound; exact H3 | exact IH].
Qed.

Section Rules.
Variables (data codata : list ctydecl) (defs : list fsdef).
Notation kt := (check_term data codata defs).
Notation ks := (check_stmt data codata defs).

Definition fclause_typed (G : cctx) (cl : fsclause) : Prop :=
  match cl with FsClause _ _ ctx body => ks (ctx ++ G) body = None end.
Definition fclauses_loop (G : cctx) : list fsclause -> option string :=
  fix go (cls : list fsclause) {struct cls} : option string :=
    match cls with
    | [] => None
    | FsClause _ _ ctx body :: cr => match ks (ctx ++ G) body with None => go cr | Some e => Some e end
    end.
Lemma fclauses_loop_iff : forall G cls, fclauses_loop G cls = None <-> Forall (fclause_typed G) cls.
Proof.
  intros G. induction cls as [|[c x ctx body] cr IH]; simpl.
  - split; [constructor | reflexivity].
  - rewrite seqn, IH. split.
    + intros [H1 H2]. constructor; assumption.
    + intros H. inversion H; subst. split; assumption.
Qed.

Lemma kt_var : forall G side ty c v t',
  kt G side ty (FsXVar c v t') = None <->
  c = side /\ t' = ty /\ exists b, flookup G (cid_id v) = Some b /\ cbchi b = side /\ cbty b = ty.
Proof. intros. cbn [check_term]. rewrite !seqn, !fens, ceq_chi, ceq_ty, fbound_iff. tauto. Qed.
Lemma kt_lit : forall G side ty n, kt G side ty (FsLit n) = None <-> side = CPrd /\ ty = CI64.
Proof. intros. cbn [check_term]. rewrite seqn, !fens, ceq_chi, ceq_ty. tauto. Qed.
Lemma kt_op : forall G side ty a o b,
  kt G side ty (FsOp a o b) = None <->
  side = CPrd /\ ty = CI64 /\ fbound G a CPrd CI64 = None /\ fbound G b CPrd CI64 = None.
Proof. intros. cbn [check_term]. rewrite !seqn, !fens, ceq_chi, ceq_ty. tauto. Qed.
Lemma kt_mu : forall G side ty c v s t',
  kt G side ty (FsMu c v s t') = None <-> c = side /\ t' = ty /\ ks (mkcb v (opp side) ty :: G) s = None.
Proof. intros. cbn [check_term]. rewrite !seqn, !fens, ceq_chi, ceq_ty. tauto. Qed.

Definition fxdecls (side : cchi) : list ctydecl := match side with CPrd => data | CCns => codata end.
Definition fcdecls (side : cchi) : list ctydecl := match side with CPrd => codata | CCns => data end.

Lemma kt_xtor_intro : forall G side ty x args n d sg,
  ty = CDecl n -> find_decl (fxdecls side) n = Some d -> find_cxtor d x = Some sg ->
  Forall2 (farg_ok G) args (cxargs sg) ->
  kt G side ty (FsXtor side x args ty) = None.
Proof.
  intros G side ty x args n d sg -> Hd Hs Ha. cbn [check_term].
  apply seqn. split; [apply fens; apply ceq_chi_refl|]. apply seqn. split; [apply fens; apply ceq_ty_refl|].
  fold (fxdecls side). rewrite Hd, Hs. apply fargs_ok_intro. exact Ha.
Qed.
Lemma kt_xcase_intro : forall G side ty cls n d,
  ty = CDecl n -> find_decl (fcdecls side) n = Some d ->
  clauses_match side n cls (ctxtors d) = None -> Forall (fclause_typed G) cls ->
  kt G side ty (FsXCase side cls ty) = None.
Proof.
  intros G side ty cls n d -> Hd Hm Hc. cbn [check_term].
  apply seqn. split; [apply fens; apply ceq_chi_refl|]. apply seqn. split; [apply fens; apply ceq_ty_refl|].
  fold (fcdecls side). rewrite Hd. apply seqn. split; [exact Hm|]. apply fclauses_loop_iff. exact Hc.
Qed.

Lemma ks_cut : forall G p ty k,
  ks G (FsCut p ty k) = None <-> ty_ok data codata ty = true /\ kt G CPrd ty p = None /\ kt G CCns ty k = None.
Proof. intros. cbn [check_stmt]. rewrite !seqn, fens. tauto. Qed.
Lemma ks_ifc : forall G so a b t e,
  ks G (FsIfC so a b t e) = None <->
  fbound G a CPrd CI64 = None /\ match b with Some b' => fbound G b' CPrd CI64 = None | None => True end /\
  ks G t = None /\ ks G e = None.
Proof. intros. cbn [check_stmt]. rewrite !seqn. destruct b; tauto. Qed.
Lemma ks_print : forall G nl a next, ks G (FsPrint nl a next) = None <-> fbound G a CPrd CI64 = None /\ ks G next = None.
Proof. intros. cbn [check_stmt]. rewrite !seqn. tauto. Qed.
Lemma ks_call_intro : forall G f args d,
  find (fun d => cident_eqb (fsdname d) f) defs = Some d -> Forall2 (farg_ok G) args (fsdctx d) ->
  ks G (FsCall f args) = None.
Proof. intros G f args d Hd Ha. cbn [check_stmt]. rewrite Hd. apply fargs_ok_intro. exact Ha. Qed.
Lemma ks_exit : forall G v, ks G (FsExit v) = None <-> fbound G v CPrd CI64 = None.
Proof. intros. reflexivity. Qed.
End Rules.
