(* C15: the results about the checker on programs WITH type parameters and type arguments, under
   the names used in Props/C15.v and docs/C15.md.  Proofs:
     Proof/PrintInj.v            printed instance names determine (head, arguments)
     Proof/CheckPoly.v           substitution = positional instantiation, invariant of the instance tables, Ty::check
     Proof/CheckPolySound.v      soundness, term level          Proof/CheckPolyProg.v    program level
     Proof/CheckPolyComplete.v   completeness, term level       Proof/CheckPolyProgC.v   program level
   Guards (boolean):
     prog_names_ok p   every type / constructor / destructor name is free of "[" "]" "," " " and is not
                       "i64" (true of every parsed program: the lexer's name classes);
     decl_types_wf ts  the types written inside data/codata declarations are well-formed (the
                       complement of the former finding C15-lazy-declaration-types; since fix eb42971
                       implied by acceptance: Proof/CheckDecls.v, and the unguarded theorems are in
                       Proof/CheckFixed.v). *)
From Coq Require Import List ZArith String Bool Permutation.
From SCC Require Import Lang.FunSyn Model.Check Sem.FunTyping
  Proof.CheckWitness Proof.CheckBuild Proof.PrintInj Proof.CheckPoly Proof.CheckPolySound Proof.CheckPolyProg
  Proof.CheckPolyComplete Proof.CheckPolyProgC.
Import ListNotations.
Local Open Scope string_scope.

Lemma check_sound_poly : forall p q,
  prog_names_ok p = true -> decl_types_wf (tdecls (fpdecls p)) = true -> check p = COk q -> has_type p.
Proof. intros p q Hn Hw H. exact (check_gen_sound_poly true p q Hn Hw H). Qed.
Lemma check_before_fix_sound_poly : forall p q,
  prog_names_ok p = true -> decl_types_wf (tdecls (fpdecls p)) = true -> check_before_fix p = COk q -> has_type p.
Proof. intros p q Hn Hw H. exact (check_gen_sound_poly false p q Hn Hw H). Qed.
Lemma check_complete_poly' : forall p, prog_names_ok p = true -> has_type p -> exists q, check p = COk q.
Proof. exact check_complete_poly. Qed.

Lemma has_type_decl_types_wf : forall p, has_type p -> decl_types_wf (tdecls (fpdecls p)) = true.
Proof.
  intros p H. unfold has_type, has_type_b in H. apply andb_true_iff in H. destruct H as [H _].
  apply andb_true_iff in H. destruct H as [_ H]. apply decls_ok_types_wf. exact H.
Qed.
(* for identifier-like names the checker decides the typing rules up to the declaration types *)
Lemma check_exact_poly : forall p, prog_names_ok p = true ->
  (has_type p <-> (exists q, check p = COk q) /\ decl_types_wf (tdecls (fpdecls p)) = true).
Proof.
  intros p Hn. split.
  - intros H. split; [apply check_complete_poly'; assumption|apply has_type_decl_types_wf; assumption].
  - intros [[q Hq] Hw]. eapply check_sound_poly; eassumption.
Qed.
Lemma check_order_independent_poly : forall p p', prog_names_ok p = true -> prog_names_ok p' = true ->
  decl_types_wf (tdecls (fpdecls p)) = true -> decl_types_wf (tdecls (fpdecls p')) = true ->
  (has_type p <-> has_type p') -> ((exists q, check p = COk q) <-> (exists q, check p' = COk q)).
Proof.
  intros p p' Hn Hn' Hw Hw' H. split; intros Hq.
  - apply check_complete_poly'; [assumption|]. apply H. apply check_exact_poly; auto.
  - apply check_complete_poly'; [assumption|]. apply H. apply check_exact_poly; auto.
Qed.
(* what the checker before fix d524b1f accepted is still accepted *)
Lemma check_before_fix_accepts_check_accepts_poly : forall p q, prog_names_ok p = true ->
  decl_types_wf (tdecls (fpdecls p)) = true -> check_before_fix p = COk q -> exists q', check p = COk q'.
Proof.
  intros p q Hn Hw H. apply check_complete_poly'; [assumption|]. eapply check_before_fix_sound_poly; eassumption.
Qed.

(* ---------- the hypotheses are satisfiable: a program with nested instances ----------
     data List[A] { Nil, Cons(x: A, xs: List[A]) }
     data Pair[A, B] { MkPair(fst: A, snd: B) }
     codata Fun[A, B] { ap(x: A): B }
     def len(l: List[i64]): i64 { l.case[i64] { Nil => 0, Cons(x, xs) => 1 + len(xs) } }
     def wrap(): List[List[i64]] { Cons(Cons(1, Nil), Nil) }
     def inc(): Fun[i64, i64] { new { ap(x) => x + 1 } }
     def swap(p: Pair[i64, List[i64]]): Pair[List[i64], i64] { p.case[i64, List[i64]] { MkPair(a, b) => MkPair(b, a) } }
     def main(): i64 { inc().ap[i64, i64](len(Cons(1, Nil))) } *)
Definition tA := FDecl "A" []. Definition tB := FDecl "B" [].
Definition tList (a : fty) := FDecl "List" [a].
Definition tPair (a b : fty) := FDecl "Pair" [a; b].
Definition v (x : string) := FVar x None None.
Definition p_poly : fprog :=
  mkfprog [FDData (mkfdata "List" ["A"] [mkfctor "Nil" []; mkfctor "Cons" [mkfb "x" FPrd tA; mkfb "xs" FPrd (tList tA)]]);
           FDData (mkfdata "Pair" ["A"; "B"] [mkfctor "MkPair" [mkfb "fst" FPrd tA; mkfb "snd" FPrd tB]]);
           FDCodata (mkfcodata "Fun" ["A"; "B"] [mkfdtor "ap" [mkfb "x" FPrd tA] tB]);
           FDDef (mkfdef "len" [mkfb "l" FPrd (tList FI64)] FI64
                    (FCase (v "l") [FI64]
                       [FClause FData "Nil" [] [] (FLit 0);
                        FClause FData "Cons" ["x"; "xs"] [] (FOp (FLit 1) FSum (FCall "len" [v "xs"] None))] None));
           FDDef (mkfdef "wrap" [] (tList (tList FI64))
                    (FCtor "Cons" [FCtor "Cons" [FLit 1; FCtor "Nil" [] None] None; FCtor "Nil" [] None] None));
           FDDef (mkfdef "inc" [] (FDecl "Fun" [FI64; FI64])
                    (FNew [FClause FCodata "ap" ["x"] [] (FOp (v "x") FSum (FLit 1))] None));
           FDDef (mkfdef "swap" [mkfb "p" FPrd (tPair FI64 (tList FI64))] (tPair (tList FI64) FI64)
                    (FCase (v "p") [FI64; tList FI64]
                       [FClause FData "MkPair" ["a"; "b"] [] (FCtor "MkPair" [v "b"; v "a"] None)] None));
           FDDef (mkfdef "main" [] FI64
                    (FDtor (FCall "inc" [] None) "ap" [FI64; FI64]
                       [FCall "len" [FCtor "Cons" [FLit 1; FCtor "Nil" [] None] None] None] None))].
Lemma p_poly_names_ok : prog_names_ok p_poly = true.
Proof. vm_compute. reflexivity. Qed.
Lemma p_poly_decl_types_wf : decl_types_wf (tdecls (fpdecls p_poly)) = true.
Proof. vm_compute. reflexivity. Qed.
Lemma p_poly_well_typed : has_type p_poly.
Proof. vm_compute. reflexivity. Qed.
Lemma p_poly_accepted : exists q, check p_poly = COk q /\ map fdaname (fcpdata q) = ["List[List[i64]]"; "List[i64]"; "Pair[List[i64], i64]"; "Pair[i64, List[i64]]"]
                                  /\ map fcoaname (fcpcodata q) = ["Fun[i64, i64]"].
Proof. eexists. split; [vm_compute; reflexivity|]. split; reflexivity. Qed.

(* ---------- the name guard is needed: at the level of syntax trees a type may be NAMED like an instance ----------
     data List[A] { Nil, Cons(x: A, xs: List[A]) }
     def f(): List[i64] { Nil }
     def g(x: <the type named "List[i64]", no arguments>): i64 { 0 }
   the second definition is accepted because the key "List[i64]" is in the instance table. No parsed
   program is like this: type names are [A-Z][a-zA-Z0-9_]*. *)
Definition p_named_like_instance : fprog :=
  mkfprog [FDData (mkfdata "List" ["A"] [mkfctor "Nil" []; mkfctor "Cons" [mkfb "x" FPrd tA; mkfb "xs" FPrd (tList tA)]]);
           FDDef (mkfdef "f" [] (tList FI64) (FCtor "Nil" [] None));
           FDDef (mkfdef "g" [mkfb "x" FPrd (FDecl "List[i64]" [])] FI64 (FLit 0))].
Lemma names_guard_needed :
  decl_types_wf (tdecls (fpdecls p_named_like_instance)) = true /\ prog_names_ok p_named_like_instance = false
  /\ (exists q, check p_named_like_instance = COk q) /\ has_type_b p_named_like_instance = false.
Proof. split; [vm_compute; reflexivity|]. split; [vm_compute; reflexivity|]. split; [eexists; vm_compute; reflexivity|vm_compute; reflexivity]. Qed.
Lemma check_sound_without_names_guard_refuted :
  ~ (forall p q, decl_types_wf (tdecls (fpdecls p)) = true -> check p = COk q -> has_type p).
Proof.
  intro H. destruct names_guard_needed as [Hw [_ [[q Hq] Hill]]].
  specialize (H _ _ Hw Hq). unfold has_type in H. rewrite Hill in H. discriminate.
Qed.
