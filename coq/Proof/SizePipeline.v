(* C19: the composition of the stage bounds.  For a Fun program p (W = weighted size f_wprog p,
   V = fun_occ p distinct typed occurrences per definition, X / A from its type declarations):
     core       c_wprog   <= W * (12 + 3 V)
     focused    fs_wprog  <= 4 * that                                           =: w
     shrunk     ax_size   <= w * ((2 + X (2 + A)) + 2 (1 + X) w)                =: S
     linearized ax_size   <= S * (5 + 3 S)          (width <= size)             =: L
     x86-64     instructions <= 30 + x86_K * L * (5 + 4 S)   (largest context of the linearized program
                                                             <= 2 x size BEFORE linearization, SizeLinWidth.v)
   Shrinking and linearization are bounded quadratically in their input because the PROVED stage bounds
   are of the form size x (1 + width) and the only width estimate available without a scoping invariant
   is width <= size; hence degree 4 in W * (4 + V) for the linearized program and 6 for the instruction
   count (w^2 for S, S^2 for L, L * S for the code). *)
From Coq Require Import String List ZArith NArith Bool Lia.
From SCC Require Import Base.Sexp Lang.SynUtil Lang.FunSyn Lang.CoreSyn Lang.AxSyn Lang.AxSize Lang.FsSize Lang.CoreSize
     Model.Fun2Core Model.Uniquify Model.Focus Model.Shrink Model.SizeDefs Model.Linearize Model.LinCheck Model.Backend Model.X86
     Model.SizeFun Model.SizeWf
     Proof.LinBasics Proof.SizeLin Proof.SizeCodegen Proof.SizeShrink Proof.SizeFocus Proof.SizeGen Proof.SizeUniquify
     Proof.SizeFun2CoreProg Proof.SizeCodegenWf Proof.SizeX86 Proof.LinearizeProof Proof.SizeLinWidth.
Import ListNotations.
Open Scope list_scope.
Open Scope N_scope.
Local Arguments N.add : simpl never.
Local Arguments N.mul : simpl never.
Local Arguments N.sub : simpl never.
Local Arguments len : simpl never.

(* ---------- width <= size ---------- *)
Lemma ax_nbind_le : forall s, ax_nbind s <= ax_size s.
Proof.
  induction s using stmt_ind2; try (cbn [ax_nbind ax_size]; lia).
  - rewrite ax_nbind_switch, ax_size_switch.
    assert (ax_nbind_cls cls <= ax_size_cls cls); [|lia].
    induction H as [|[[x cx] b] r Hb Hr IH]; cbn [ax_nbind_cls ax_size_cls]; [lia|]. unfold cl_body in Hb; cbn [snd] in Hb. lia.
  - rewrite ax_nbind_create, ax_size_create.
    assert (ax_nbind_cls cls <= ax_size_cls cls); [|lia].
    induction H as [|[[x cx] b] r Hb Hr IH]; cbn [ax_nbind_cls ax_size_cls]; [lia|]. unfold cl_body in Hb; cbn [snd] in Hb. lia.
Qed.
Lemma ax_width_le : forall p, ax_width_prog p <= ax_size_prog p.
Proof.
  intros p. unfold ax_width_prog, ax_size_prog. induction (pdefs p) as [|d r IH]; cbn [ax_width_defs ax_size_defs]; [lia|].
  unfold ax_width_def, ax_size_def. pose proof (ax_nbind_le (dbody d)). lia.
Qed.

(* the largest context met by the code generator *)
Lemma ax_maxw_le : forall s w, ax_maxw s w <= w + ax_size s.
Proof.
  induction s using stmt_ind2; intros w; try (cbn [ax_maxw ax_size]; lia).
  - specialize (IHs (len re)). cbn [ax_maxw ax_size]. lia.
  - specialize (IHs (w - len args + 1)). cbn [ax_maxw ax_size]. lia.
  - rewrite ax_maxw_switch, ax_size_switch.
    assert (ax_maxw_sw w cls <= w + ax_size_cls cls); [|lia].
    induction H as [|[[x cx] b] r Hb Hr IH]; cbn [ax_maxw_sw ax_size_cls]; [lia|]. unfold cl_body in Hb; cbn [snd] in Hb.
    specialize (Hb (w - 1 + len cx)). lia.
  - rewrite ax_maxw_create, ax_size_create. specialize (IHs (w - env_len env + 1)).
    assert (ax_maxw_cr (env_len env) cls <= env_len env + ax_size_cls cls).
    { induction H as [|[[x cx] b] r Hb Hr IH]; cbn [ax_maxw_cr ax_size_cls]; [lia|]. unfold cl_body in Hb; cbn [snd] in Hb.
      specialize (Hb (len cx + env_len env)). lia. }
    unfold env_len in *. destruct env; lia.
  - specialize (IHs (w + 1)). cbn [ax_maxw ax_size]. lia.
  - specialize (IHs (w + 1)). cbn [ax_maxw ax_size]. lia.
  - specialize (IHs w). cbn [ax_maxw ax_size]. lia.
  - specialize (IHs1 w). specialize (IHs2 w). cbn [ax_maxw ax_size]. lia.
Qed.

Lemma b_cg_super : forall a b, b_cg a + b_cg b <= b_cg (a + b).
Proof. intros. unfold b_cg. nia. Qed.
Lemma b_cg_mono : forall a b, a <= b -> b_cg a <= b_cg b.
Proof. intros a b H. unfold b_cg. apply N.mul_le_mono; [exact H|]. lia. Qed.
Lemma cg_bound_defs_le : forall ds, cg_bound_defs ds <= b_cg (ax_size_defs ds).
Proof.
  induction ds as [|d r IH]; cbn [cg_bound_defs ax_size_defs]; [unfold b_cg; lia|].
  eapply N.le_trans; [|apply b_cg_super]. apply N.add_le_mono; [|exact IH].
  pose proof (cg_bound_poly (dbody d) (len (dctx d))) as P. unfold cg_unit in P.
  pose proof (ax_maxw_le (dbody d) (len (dctx d))) as M.
  assert (Q : ax_size (dbody d) * (5 + 2 * ax_maxw (dbody d) (len (dctx d)))
              <= ax_size (dbody d) * (5 + 2 * (len (dctx d) + ax_size (dbody d)))) by (apply N.mul_le_mono_l; lia).
  unfold ax_size_def, b_cg. set (sz := ax_size (dbody d)) in *. set (n := len (dctx d)) in *.
  assert (R : cg_bound (dbody d) n <= sz * (5 + 2 * (n + sz))) by lia.
  clear P Q M IH. generalize dependent (cg_bound (dbody d) n). intros cgb R.
  replace ((1 + n + sz) * (5 + 2 * (1 + n + sz))) with (7 + 2 * n + 2 * sz + n * (7 + 2 * n + 2 * sz) + (sz * (5 + 2 * (n + sz)) + 2 * sz)) by lia.
  lia.
Qed.

Lemma b_shrunk_mono : forall w w' X A, w <= w' -> b_shrunk w X A <= b_shrunk w' X A.
Proof. intros w w' X A H. unfold b_shrunk. apply N.mul_le_mono; [exact H|]. apply N.add_le_mono_l. apply N.mul_le_mono_l. exact H. Qed.
Lemma b_linearized_mono : forall a b, a <= b -> b_linearized a <= b_linearized b.
Proof. intros a b H. unfold b_linearized. apply N.mul_le_mono; [exact H|]. lia. Qed.

(* ---------- the declarations of the focused program are those of the source ---------- *)
Lemma focus_decls : forall p c q, compile_prog p = Fun2Core.Ok c -> focus_prog c = Ok q ->
  fspdata q = map compile_data (fcpdata p) /\ fspcodata q = map compile_codata (fcpcodata p).
Proof.
  intros p c q H1 H2. unfold compile_prog, compile_prog_gen in H1.
  destruct (compile_defs false _ (fcpdefs p) _ _ [] []) as [defs|e]; [|discriminate]. cbn [Fun2Core.rbind] in H1.
  inversion H1; subst; clear H1.
  unfold focus_prog, uniquify_prog in H2. cbn [cpdefs cpmax cpdata cpcodata] in H2.
  destruct (maprs uq_def defs 0) as [[ds m]|e]; [|discriminate]. cbn [rbind cpdefs cpmax cpdata cpcodata] in H2.
  destruct (maprs focus_def ds m) as [[ds' m']|e]; [|discriminate]. cbn [rbind] in H2. inversion H2; subst. split; reflexivity.
Qed.

(* ---------- AxCut after shrinking ---------- *)
Theorem pipeline_shrunk_size : forall p c q s,
  compile_prog p = Fun2Core.Ok c -> focus_prog c = Ok q -> shrink_prog q = SOk s ->
  ax_size_prog s <= pipeline_shrunk_bound p.
Proof.
  intros p c q s H1 H2 H3.
  pose proof (fun2core_size_weighted p c H1) as B1.
  pose proof (focus_prog_size_lemma c q H2) as B2.
  pose proof (shrink_size_lemma q s H3) as B3.
  destruct (focus_decls p c q H1 H2) as [D1 D2].
  assert (EX : prog_X q = fun_X p) by (unfold prog_X, fun_X; rewrite D1, D2; reflexivity).
  assert (EA : prog_A q = fun_A p) by (unfold prog_A, fun_A; rewrite D1, D2; reflexivity).
  rewrite EX, EA in B3. fold (b_shrunk (fs_wprog q) (fun_X p) (fun_A p)) in B3.
  assert (W : fs_wprog q <= b_focused (f_wprog p) (fun_occ p)) by (unfold b_focused; lia).
  pose proof (b_shrunk_mono _ _ (fun_X p) (fun_A p) W) as M3.
  unfold pipeline_shrunk_bound. lia.
Qed.

(* ---------- AxCut after linearization ---------- *)
Theorem pipeline_ax_size : forall p c q s,
  compile_prog p = Fun2Core.Ok c -> focus_prog c = Ok q -> shrink_prog q = SOk s ->
  ax_size_prog (linearize s) <= pipeline_ax_bound p.
Proof.
  intros p c q s H1 H2 H3.
  pose proof (fun2core_size_weighted p c H1) as B1.
  pose proof (focus_prog_size_lemma c q H2) as B2.
  pose proof (shrink_size_lemma q s H3) as B3.
  pose proof (linearize_size_poly_lemma s) as B4.
  pose proof (ax_width_le s) as BW.
  destruct (focus_decls p c q H1 H2) as [D1 D2].
  assert (EX : prog_X q = fun_X p) by (unfold prog_X, fun_X; rewrite D1, D2; reflexivity).
  assert (EA : prog_A q = fun_A p) by (unfold prog_A, fun_A; rewrite D1, D2; reflexivity).
  rewrite EX, EA in B3. fold (b_shrunk (fs_wprog q) (fun_X p) (fun_A p)) in B3.
  assert (W : fs_wprog q <= b_focused (f_wprog p) (fun_occ p)) by (unfold b_focused; lia).
  pose proof (b_shrunk_mono _ _ (fun_X p) (fun_A p) W) as M3.
  unfold pipeline_ax_bound, pipeline_shrunk_bound.
  eapply N.le_trans; [|apply b_linearized_mono; eapply N.le_trans; [exact B3|exact M3]].
  unfold b_linearized. nia.
Qed.

(* ---------- instructions of the x86-64 routine ---------- *)
Definition pipeline_x86_bound (p : fcprog) : N := 30 + x86_K * pipeline_cg_bound p.

Lemma pipeline_cg : forall p c q s,
  compile_prog p = Fun2Core.Ok c -> focus_prog c = Ok q -> shrink_prog q = SOk s ->
  cg_bound_defs (pdefs (linearize s)) <= pipeline_cg_bound p.
Proof.
  intros p c q s H1 H2 H3.
  pose proof (pipeline_ax_size p c q s H1 H2 H3) as B.
  pose proof (pipeline_shrunk_size p c q s H1 H2 H3) as BS.
  pose proof (cg_bound_linearize s) as G.
  unfold pipeline_cg_bound. eapply N.le_trans; [exact G|]. apply N.mul_le_mono; [exact B|lia].
Qed.

Theorem pipeline_x86_size : forall p c q s lc r n lc',
  compile_prog p = Fun2Core.Ok c -> focus_prog c = Ok q -> shrink_prog q = SOk s ->
  sub_wf_prog (linearize s) = true ->
  x86_compile (linearize s) lc = Ok (r, n, lc') ->
  len r <= pipeline_x86_bound p.
Proof.
  intros p c q s lc r n lc' H1 H2 H3 HW H5.
  pose proof (pipeline_cg p c q s H1 H2 H3) as G.
  pose proof (x86_compile_size _ _ _ _ _ HW H5) as C. unfold x86_bound, x86_routine_overhead in C.
  unfold pipeline_x86_bound.
  assert (x86_K * cg_bound_defs (pdefs (linearize s)) <= x86_K * pipeline_cg_bound p) by (apply N.mul_le_mono_l; exact G).
  lia.
Qed.

(* the closed forms: with w = 12 W (4 + V) and d = 4 + X (4 + A):
   shrunk <= d w^2, linearized <= 8 (d w^2)^2, code-generation units <= 72 (d w^2)^3 *)
Definition pl_w (p : fcprog) : N := 12 * (f_wprog p * (4 + fun_occ p)).
Definition pl_d (p : fcprog) : N := 4 + fun_X p * (4 + fun_A p).
Lemma pipeline_shrunk_closed : forall p, pipeline_shrunk_bound p <= pl_d p * pl_w p ^ 2.
Proof.
  intros p. unfold pipeline_shrunk_bound, b_shrunk, b_focused, pl_d, pl_w.
  set (W := f_wprog p). set (V := fun_occ p). set (X := fun_X p). set (A := fun_A p).
  set (w := 4 * (W * (12 + 3 * V))). assert (Ew : w = 12 * (W * (4 + V))) by (unfold w; lia). rewrite <- Ew.
  rewrite N.pow_2_r. destruct (N.eq_dec w 0) as [->|Hw]; [lia|]. nia.
Qed.
Lemma pipeline_ax_closed : forall p, pipeline_ax_bound p <= 8 * (pl_d p * pl_w p ^ 2) ^ 2.
Proof.
  intros p. unfold pipeline_ax_bound, b_linearized. pose proof (pipeline_shrunk_closed p) as S.
  set (Sv := pipeline_shrunk_bound p) in *. set (t := pl_d p * pl_w p ^ 2) in *.
  rewrite N.pow_2_r. destruct (N.eq_dec Sv 0) as [->|Hs]; [lia|]. nia.
Qed.
Lemma pipeline_cg_closed : forall p, pipeline_cg_bound p <= 72 * (pl_d p * pl_w p ^ 2) ^ 3.
Proof.
  intros p. unfold pipeline_cg_bound. pose proof (pipeline_shrunk_closed p) as S. pose proof (pipeline_ax_closed p) as L.
  set (Sv := pipeline_shrunk_bound p) in *. set (Lv := pipeline_ax_bound p) in *. set (t := pl_d p * pl_w p ^ 2) in *.
  assert (E : t ^ 3 = t ^ 2 * t) by (rewrite !N.pow_succ_r', N.pow_0_r || (change 3 with (N.succ 2); rewrite N.pow_succ_r'; lia); lia).
  rewrite E. destruct (N.eq_dec t 0) as [Ht|Ht].
  - rewrite Ht in *. assert (Sv = 0) by lia. assert (Lv = 0) by (rewrite N.pow_2_r in L; lia). subst. lia.
  - assert (Lv * (5 + 4 * Sv) <= (8 * t ^ 2) * (9 * t)); [|lia].
    apply N.mul_le_mono; [exact L|]. lia.
Qed.

(* ---------- the guard through the linearizer ---------- *)
Theorem pipeline_x86_size_ok : forall p c q s lc r n lc',
  compile_prog p = Fun2Core.Ok c -> focus_prog c = Ok q -> shrink_prog q = SOk s ->
  lin_check_prog (linearize s) = true ->
  x86_compile (linearize s) lc = Ok (r, n, lc') ->
  len r <= pipeline_x86_bound p.
Proof.
  intros p c q s lc r n lc' H1 H2 H3 HL H5. eapply pipeline_x86_size; eauto. apply lin_check_prog_sub_wf. exact HL.
Qed.

(* the guard discharged by C05 when the shrunk program is well typed with unique binders (prog_ok) *)
Theorem pipeline_x86_size_prog_ok : forall p c q s lc r n lc',
  compile_prog p = Fun2Core.Ok c -> focus_prog c = Ok q -> shrink_prog q = SOk s ->
  prog_ok s = true ->
  x86_compile (linearize s) lc = Ok (r, n, lc') ->
  len r <= pipeline_x86_bound p.
Proof.
  intros p c q s lc r n lc' H1 H2 H3 HP H5. eapply pipeline_x86_size_ok; eauto. apply linearize_exact. exact HP.
Qed.

(* ---------- the whole pipeline as one computation (for the vm_compute example of Props/C19.v) ----------
   (size, weighted size, occurrences, X, A of the source; sizes of core (nodes, weighted), focused, shrunk,
   linearized; the two proved fun2core bounds; cg_bound, instructions, prog_ok of the shrunk program,
   lin_check and sub_wf of the linearized one; pipeline_ax_bound, pipeline_x86_bound, x86_bound) *)
Definition pipeline_run (p : fcprog) :=
  match compile_prog p with
  | Fun2Core.Ok c =>
    match focus_prog c with
    | Ok q =>
      match shrink_prog q with
      | SOk s =>
         let l := linearize s in
         match x86_compile l 0 with
         | Ok (r, _, _) =>
             Some (size_fcprog p, f_wprog p, fun_occ p, fun_X p, fun_A p,
                   (size_cprog c, c_wprog c, fs_wprog q, ax_size_prog s, ax_size_prog l),
                   (f2c_bound_nodes p, f2c_bound_weighted p),
                   (cg_bound_defs (pdefs l), len r, prog_ok s, lin_check_prog l, sub_wf_prog l),
                   (pipeline_ax_bound p, pipeline_x86_bound p, x86_bound l))
         | Err _ => None
         end
      | SErr _ => None
      end
    | Err _ => None
    end
  | Fun2Core.Err _ => None
  end.
