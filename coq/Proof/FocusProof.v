(* Main induction for the model of focus, and the theorems of property C03 about binders. *)
From Coq Require Import List ZArith NArith String Bool Lia.
From SCC Require Import Base.Sexp Lang.CoreSyn Model.Backend Model.Uniquify Model.Focus Model.FocusCheck
     Proof.CoreInd Proof.SubstProof Proof.CheckLemmas Proof.UniquifyProof Proof.FocusLemmas.
Import ListNotations.
Open Scope list_scope.
Open Scope N_scope.

Lemma wf_cns_not_op : forall t, wf_term CCns t = true -> is_op t = false.
Proof. destruct t; simpl; auto. Qed.

(* the shapes of Cut::focus *)
Lemma focus_cut_xtor_l : forall pc px pargs pty ty q m,
  focus_stmt (CCut (CXtor pc px pargs pty) ty q) m =
  bind_many_with bind_arg pargs (fun bs mb =>
    dor (q', m1) <- focus_term CCns q mb; Ok (FsCut (FsXtor pc px bs ty) ty q', m1)) m.
Proof. reflexivity. Qed.
Lemma focus_cut_xtor_r : forall p ty qc qx qargs qty m, is_xtor p = false ->
  focus_stmt (CCut p ty (CXtor qc qx qargs qty)) m =
  bind_many_with bind_arg qargs (fun bs mb =>
    dor (p', m1) <- focus_term CPrd p mb; Ok (FsCut p' ty (FsXtor qc qx bs ty), m1)) m.
Proof. intros p; destruct p; intros; try reflexivity; discriminate. Qed.
Lemma focus_cut_op : forall a o b ty q m, is_xtor q = false ->
  focus_stmt (CCut (COp a o b) ty q) m =
  bind_term CPrd a (fun b1 ma =>
    bind_term CPrd b (fun b2 mb =>
      dor (q', m1) <- focus_term CCns q mb;
      Ok (FsCut (FsOp (cbvar b1) o (cbvar b2)) ty q', m1)) ma) m.
Proof. intros a o b ty q; destruct q; intros; try reflexivity; discriminate. Qed.
Lemma focus_cut_plain : forall p ty q m, is_xtor p = false -> is_xtor q = false -> is_op p = false ->
  focus_stmt (CCut p ty q) m =
  (dor (p', m1) <- focus_term CPrd p m; dor (q', m2) <- focus_term CCns q m1; Ok (FsCut p' ty q', m2)).
Proof. intros p ty q; destruct p; destruct q; intros; try reflexivity; discriminate. Qed.
Lemma is_xtor_true : forall t, is_xtor t = true -> exists c x args ty, t = CXtor c x args ty.
Proof. destruct t; simpl; intros; try discriminate; eauto. Qed.
Lemma is_op_true : forall t, is_op t = true -> exists a o b, t = COp a o b.
Proof. destruct t; simpl; intros; try discriminate; eauto. Qed.

Lemma sub_nz_cons_r : forall x e e', sub_nz e e' -> sub_nz e (x :: e').
Proof. intros; apply sub_nz_skip; auto. Qed.

Ltac kapply K m1 env1 :=
  match type of K with
  | kpost _ _ _ ?k =>
      let s := fresh "sk" in let m' := fresh "mk" in let E := fresh "Ek" in let L := fresh "Lk" in
      let B := fresh "Bk" in let I := fresh "Ik" in let S := fresh "Sk" in
      destruct (K (mkcb (_, m1) _ _) m1 env1) as (s & m' & E & L & B & I & S)
  end.

Lemma focus_spec_all :
  (forall t, Pt t) /\ (forall a, FBa a) /\ (forall c, FFc c) /\ (forall s, FFs s).
Proof.
  apply core_mutind.
  - (* XVar *)
    intros c0 v ty. split; [|split; [|exact I]].
    + intros c k m T Rk env W ND ML LE I S K. simpl in *.
      apply K; try lia; try apply sub_nz_refl. split; simpl; auto.
      apply N.leb_le in I. lia.
    + intros c m T env W X O ND ML LE I S. simpl in *.
      exists (FsXVar c0 v ty), m. split; [reflexivity|]. split; [lia|]. split; [apply bspec_nil|].
      simpl. split; auto. apply N.leb_le in I. apply N.leb_le. lia.
  - (* Lit *)
    intros n. split; [|split; [|exact I]].
    + intros c k m T Rk env W ND ML LE I S K. simpl in *. destruct c; try discriminate.
      destruct (K (mkcb ("x"%string, m + 1) CPrd CI64) (m + 1) ((m + 1) :: env)) as (sk & mk & Ek & Lk & Bk & Ik & Sk);
        try lia; try apply sub_nz_cons_r, sub_nz_refl; try apply good_fresh.
      rewrite Ek; simpl. eexists _, _. split; [reflexivity|]. split; [lia|]. simpl.
      split; [eapply bspec_cons_fresh; eauto; lia|]. split; bsplit; auto. apply N.leb_le; lia.
    + intros c m T env W X O ND ML LE I S. simpl in *. destruct c; try discriminate.
      exists (FsLit n), m. split; [reflexivity|]. split; [lia|]. split; [apply bspec_nil|]. auto.
  - (* Op *)
    intros a o b (IHa & _) (IHb & _). split; [|split; [|simpl; split; auto]].
    + intros c k m T Rk env W ND ML LE I S K. simpl in *. destruct c; try discriminate. bsplit.
      rewrite <- app_assoc in *.
      apply IHa with (T := T); auto.
      intros b1 m1 env1 L1 S1 G1.
      apply IHb with (T := T); auto; try lia; try ndsolve.
      { eapply scoped_term_mono; eauto. }
      intros b2 m2 env2 L2 S2 G2.
      destruct (K (mkcb ("x"%string, m2 + 1) CPrd CI64) (m2 + 1) ((m2 + 1) :: env2)) as (sk & mk & Ek & Lk & Bk & Ik & Sk);
        try lia; try apply good_fresh.
      { apply sub_nz_cons_r. eapply sub_nz_trans; eauto. }
      rewrite Ek; simpl. eexists _, _. split; [reflexivity|]. split; [lia|]. simpl.
      split; [eapply bspec_cons_fresh with (T := T); eauto; try lia; ndsolve|].
      destruct G1 as [G1a G1b], G2 as [G2a G2b].
      split; bsplit; auto; try (apply N.leb_le; lia).
      eapply occ_sc_mono; eauto.
    + intros c m T env W X O. discriminate.
  - (* Mu *)
    intros c0 v s ty IHs. split; [|split; [|exact I]].
    + intros c k m T Rk env W ND ML LE I S K. simpl in *. bsplit. apply N.leb_le in H.
      destruct c.
      * (* Mu<Prd>: fresh, focus, k *)
        destruct (IHs (m + 1) T (cid_id v :: env)) as (s' & m2 & E2 & L2 & B2 & I2 & S2); auto; try lia; try ndsolve.
        rewrite E2; simpl.
        destruct (K (mkcb ("x"%string, m + 1) CPrd ty) m2 ((m + 1) :: env)) as (sk & mk & Ek & Lk & Bk & Ik & Sk);
          try lia; try apply sub_nz_cons_r, sub_nz_refl.
        { eapply good_b_mono; [apply good_fresh | lia | apply sub_nz_refl]. }
        rewrite Ek; simpl. eexists _, _. split; [reflexivity|]. split; [lia|]. simpl.
        split; [bspec_tac|]. split; bsplit; auto; try (apply N.leb_le; lia).
        eapply fs_ids_le_stmt_mono; [|eassumption]; lia.
      * (* Mu<Cns>: fresh, k, focus *)
        destruct (K (mkcb ("a"%string, m + 1) CCns ty) (m + 1) ((m + 1) :: env)) as (sk & mk & Ek & Lk & Bk & Ik & Sk);
          try lia; try apply sub_nz_cons_r, sub_nz_refl; try apply good_fresh.
        rewrite Ek; simpl.
        destruct (IHs mk T (cid_id v :: env)) as (s' & m2 & E2 & L2 & B2 & I2 & S2); auto; try lia; try ndsolve.
        rewrite E2; simpl. eexists _, _. split; [reflexivity|]. split; [lia|]. simpl.
        split; [bspec_tac|]. split; bsplit; auto; try (apply N.leb_le; lia).
        eapply fs_ids_le_stmt_mono; [|eassumption]; lia.
    + intros c m T env W X O ND ML LE I S. simpl in *. bsplit. apply N.leb_le in H.
      destruct (IHs m T (cid_id v :: env)) as (s' & m2 & E2 & L2 & B2 & I2 & S2); auto; try lia; try ndsolve.
      rewrite E2; simpl. eexists _, _. split; [reflexivity|]. split; [lia|]. simpl.
      split; [eapply bspec_cons_keep with (T := T); eauto; ndsolve|]. split; bsplit; auto. apply N.leb_le; lia.
  - (* Xtor *)
    intros c0 x args ty IHargs. split; [|split; [|exact IHargs]].
    + intros c k m T Rk env W ND ML LE I S K. simpl in *.
      destruct c.
      * apply bind_many_spec with (T := T); auto.
        intros bs m1 env1 L1 S1 G1.
        destruct (K (mkcb ("x"%string, m1 + 1) CPrd ty) (m1 + 1) ((m1 + 1) :: env1)) as (sk & mk & Ek & Lk & Bk & Ik & Sk);
          try lia; try apply good_fresh.
        { apply sub_nz_cons_r; auto. }
        rewrite Ek; simpl. eexists _, _. split; [reflexivity|]. split; [lia|]. simpl.
        split; [eapply bspec_cons_fresh with (T := T); eauto; try lia; ndsolve|].
        destruct (good_ids _ _ _ G1) as [G1a G1b].
        split; bsplit; auto; try (apply N.leb_le; lia).
        eapply forallb_impl; [|exact G1a]. intros i _ Hi. apply N.leb_le in Hi. apply N.leb_le. lia.
      * apply bind_many_spec with (T := T); auto.
        intros bs m1 env1 L1 S1 G1.
        destruct (K (mkcb ("a"%string, m1 + 1) CCns ty) (m1 + 1) ((m1 + 1) :: env1)) as (sk & mk & Ek & Lk & Bk & Ik & Sk);
          try lia; try apply good_fresh.
        { apply sub_nz_cons_r; auto. }
        rewrite Ek; simpl. eexists _, _. split; [reflexivity|]. split; [lia|]. simpl.
        rewrite app_nil_r.
        split; [eapply bspec_cons_fresh with (T := T); eauto; try lia; ndsolve|].
        destruct (good_ids _ _ _ G1) as [G1a G1b].
        split; bsplit; auto; try (apply N.leb_le; lia).
        eapply forallb_impl; [|exact G1a]. intros i _ Hi. apply N.leb_le in Hi. apply N.leb_le. lia.
    + intros c m T env W X O. discriminate.
  - (* XCase *)
    intros c0 cls ty IHcls. split; [|split; [|exact I]].
    + intros c k m T Rk env W ND ML LE I S K. simpl in *.
      destruct c.
      * destruct (K (mkcb ("x"%string, m + 1) CPrd ty) (m + 1) ((m + 1) :: env)) as (sk & mk & Ek & Lk & Bk & Ik & Sk);
          try lia; try apply sub_nz_cons_r, sub_nz_refl; try apply good_fresh.
        rewrite Ek; simpl.
        destruct (focus_clauses_spec cls IHcls mk T env) as (cls' & m3 & E3 & L3 & B3 & I3 & S3); auto; try lia; try ndsolve.
        rewrite E3; simpl. eexists _, _. split; [reflexivity|]. split; [lia|]. simpl.
        split; [bspec_tac|]. split; bsplit; auto; try (apply N.leb_le; lia).
        eapply fs_ids_le_stmt_mono; [|eassumption]; lia.
      * destruct (K (mkcb ("a"%string, m + 1) CCns ty) (m + 1) ((m + 1) :: env)) as (sk & mk & Ek & Lk & Bk & Ik & Sk);
          try lia; try apply sub_nz_cons_r, sub_nz_refl; try apply good_fresh.
        rewrite Ek; simpl.
        destruct (focus_clauses_spec cls IHcls mk T env) as (cls' & m3 & E3 & L3 & B3 & I3 & S3); auto; try lia; try ndsolve.
        rewrite E3; simpl. eexists _, _. split; [reflexivity|]. split; [lia|]. simpl.
        split; [bspec_tac|]. split; bsplit; auto; try (apply N.leb_le; lia).
        eapply fs_ids_le_stmt_mono; [|eassumption]; lia.
    + intros c m T env W X O ND ML LE I S. simpl in *.
      destruct (focus_clauses_spec cls IHcls m T env) as (cls' & m3 & E3 & L3 & B3 & I3 & S3); auto.
      rewrite E3; simpl. eexists _, _. split; [reflexivity|]. split; [lia|]. simpl. auto.
  - (* Producer *)
    intros p (IHp & _). intros k m T Rk env W ND ML LE I S K. simpl in *. eapply IHp; eauto.
  - (* Consumer *)
    intros p (IHp & _). intros k m T Rk env W ND ML LE I S K. simpl in *. eapply IHp; eauto.
  - (* Clause *)
    intros c0 x ctx body IHb. intros m T env W ND ML LE I S. simpl in *. bsplit.
    destruct (IHb m T (cids ctx ++ env)) as (b' & m2 & E2 & L2 & B2 & I2 & S2); auto; try ndsolve.
    rewrite E2; simpl. eexists _, _. split; [reflexivity|]. split; [lia|]. simpl.
    split; [bspec_tac|]. split; bsplit; auto.
    apply forallb_leb. apply forallb_leb in H. eapply mem_le_mono; eauto. lia.
  - (* Cut *)
    intros p ty q (IHpB & IHpF & IHpS) (IHqB & IHqF & IHqS). intros m T env W ND ML LE I S.
    simpl in W, ND, ML, I, S. bsplit.
    match goal with H : negb (is_xtor p && is_xtor q) = true |- _ => rename H into NXX end.
    match goal with H : negb (is_op p && is_xtor q) = true |- _ => rename H into NOX end.
    assert (Oq : is_op q = false) by (apply wf_cns_not_op; auto).
    destruct (is_xtor p) eqn:Xp.
    { (* (Xtor, consumer) *)
      destruct (is_xtor_true _ Xp) as (pc & px & pargs & pty & ->).
      assert (Xq : is_xtor q = false) by (destruct (is_xtor q); simpl in NXX; auto; discriminate).
      rewrite focus_cut_xtor_l. simpl in *.
      apply bind_many_spec with (T := T); auto.
      intros bs m1 env1 L1 S1 G1.
      destruct (IHqF CCns m1 T env1) as (q' & m2 & E2 & L2 & B2 & I2 & S2); auto; try lia; try ndsolve.
      { eapply scoped_term_mono; eauto. }
      rewrite E2; simpl. eexists _, _. split; [reflexivity|]. split; [lia|]. simpl.
      split; [auto|]. destruct (good_ids _ _ _ G1) as [G1a G1b]. split; bsplit; auto.
      eapply forallb_impl; [|exact G1a]. intros i _ Hi. apply N.leb_le in Hi. apply N.leb_le. lia. }
    destruct (is_xtor q) eqn:Xq.
    { (* (producer, Xtor) *)
      destruct (is_xtor_true _ Xq) as (qc & qx & qargs & qty & ->).
      assert (Op : is_op p = false) by (destruct (is_op p); simpl in NOX; auto; discriminate).
      rewrite focus_cut_xtor_r by auto. simpl in *.
      eapply fpost_weaken with (R := flat_map binder_ids_arg qargs ++ binder_ids_term p).
      2:{ intros x Hx. apply in_app_or in Hx. apply in_or_app. tauto. }
      apply bind_many_spec with (T := T); auto; try ndsolve.
      intros bs m1 env1 L1 S1 G1.
      destruct (IHpF CPrd m1 T env1) as (p' & m2 & E2 & L2 & B2 & I2 & S2); auto; try lia; try ndsolve.
      { eapply scoped_term_mono; eauto. }
      rewrite E2; simpl. eexists _, _. split; [reflexivity|]. split; [lia|]. simpl. rewrite app_nil_r.
      split; [auto|]. destruct (good_ids _ _ _ G1) as [G1a G1b]. split; bsplit; auto.
      eapply forallb_impl; [|exact G1a]. intros i _ Hi. apply N.leb_le in Hi. apply N.leb_le. lia. }
    destruct (is_op p) eqn:Op.
    { (* (Op, consumer) *)
      destruct (is_op_true _ Op) as (a & o & b & ->).
      rewrite focus_cut_op by auto. simpl in *. destruct IHpS as (IHa & IHb). bsplit.
      rewrite <- app_assoc in *.
      apply IHa with (T := T); auto.
      intros b1 m1 env1 L1 S1 G1.
      apply IHb with (T := T); auto; try lia; try ndsolve.
      { eapply scoped_term_mono; eauto. }
      intros b2 m2 env2 L2 S2 G2.
      destruct (IHqF CCns m2 T env2) as (q' & m3 & E3 & L3 & B3 & I3 & S3); auto; try lia; try ndsolve.
      { eapply scoped_term_mono; [|eassumption]. eapply sub_nz_trans; eauto. }
      rewrite E3; simpl. eexists _, _. split; [reflexivity|]. split; [lia|]. simpl.
      split; [auto|]. destruct G1 as [G1a G1b], G2 as [G2a G2b].
      split; bsplit; auto; try (apply N.leb_le; lia).
      eapply occ_sc_mono; eauto. }
    (* (producer, consumer) *)
    rewrite focus_cut_plain by auto.
    destruct (IHpF CPrd m T env) as (p' & m1 & E1 & L1 & B1 & I1 & S1); auto; try ndsolve.
    rewrite E1; simpl.
    destruct (IHqF CCns m1 T env) as (q' & m2 & E2 & L2 & B2 & I2 & S2); auto; try lia; try ndsolve.
    rewrite E2; simpl. eexists _, _. split; [reflexivity|]. split; [lia|]. simpl.
    split; [bspec_tac|]. split; bsplit; auto.
    eapply fs_ids_le_term_mono; [|eassumption]; lia.
  - (* IfC *)
    intros so a bo t e (IHa & _) IHb IHt IHe. intros m T env W ND ML LE I S.
    simpl in *. bsplit.
    apply IHa with (T := T); auto.
    intros b1 m1 env1 L1 S1 G1. destruct G1 as [G1a G1b].
    destruct bo as [b0|]; simpl in *.
    + destruct IHb as (IHb & _).
      apply IHb with (T := T); auto; try lia; try ndsolve.
      { eapply scoped_term_mono; eauto. }
      intros b2 m2 env2 L2 S2 G2. destruct G2 as [G2a G2b].
      destruct (IHt m2 T env2) as (t' & m3 & E3 & L3 & B3 & I3 & S3); auto; try lia; try ndsolve.
      { eapply scoped_stmt_mono; [|eassumption]. eapply sub_nz_trans; eauto. }
      rewrite E3; simpl.
      destruct (IHe m3 T env2) as (e' & m4 & E4 & L4 & B4 & I4 & S4); auto; try lia; try ndsolve.
      { eapply scoped_stmt_mono; [|eassumption]. eapply sub_nz_trans; eauto. }
      rewrite E4; simpl. eexists _, _. split; [reflexivity|]. split; [lia|]. simpl.
      split; [bspec_tac|]. split; bsplit; auto; try (apply N.leb_le; lia).
      * eapply fs_ids_le_stmt_mono; [|eassumption]; lia.
      * eapply occ_sc_mono; eauto.
    + destruct (IHt m1 T env1) as (t' & m3 & E3 & L3 & B3 & I3 & S3); auto; try lia; try ndsolve.
      { eapply scoped_stmt_mono; eauto. }
      rewrite E3; simpl.
      destruct (IHe m3 T env1) as (e' & m4 & E4 & L4 & B4 & I4 & S4); auto; try lia; try ndsolve.
      { eapply scoped_stmt_mono; eauto. }
      rewrite E4; simpl. eexists _, _. split; [reflexivity|]. split; [lia|]. simpl.
      split; [bspec_tac|]. split; bsplit; auto; try (apply N.leb_le; lia).
      eapply fs_ids_le_stmt_mono; [|eassumption]; lia.
  - (* Print *)
    intros nl a next (IHa & _) IHn. intros m T env W ND ML LE I S. simpl in *. bsplit.
    apply IHa with (T := T); auto.
    intros b1 m1 env1 L1 S1 G1. destruct G1 as [G1a G1b].
    destruct (IHn m1 T env1) as (n' & m3 & E3 & L3 & B3 & I3 & S3); auto; try lia; try ndsolve.
    { eapply scoped_stmt_mono; eauto. }
    rewrite E3; simpl. eexists _, _. split; [reflexivity|]. split; [lia|]. simpl.
    split; [auto|]. split; bsplit; auto. apply N.leb_le; lia.
  - (* Call *)
    intros f args ty IHargs. intros m T env W ND ML LE I S. simpl in *.
    rewrite <- (app_nil_r (flat_map binder_ids_arg args)).
    apply bind_many_spec with (T := T); auto; try (rewrite app_nil_r; auto).
    intros bs m1 env1 L1 S1 G1. destruct (good_ids _ _ _ G1) as [G1a G1b].
    eexists _, _. split; [reflexivity|]. split; [lia|]. simpl. split; [apply bspec_nil|]. auto.
  - (* Exit *)
    intros a ty (IHa & _). intros m T env W ND ML LE I S. simpl in *.
    rewrite <- (app_nil_r (binder_ids_term a)).
    apply IHa with (T := T); auto; try (rewrite app_nil_r; auto).
    intros b1 m1 env1 L1 S1 G1. destruct G1 as [G1a G1b].
    eexists _, _. split; [reflexivity|]. split; [lia|]. simpl. split; [apply bspec_nil|].
    split; auto. apply N.leb_le; lia.
Qed.
