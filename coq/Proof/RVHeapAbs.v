(* C08 / C09 on RISC-V: the allocator code of axcut2rv64's memory.rs refines the operations of the
   ABSTRACT ALLOCATOR Model/Heap.v (the one whose invariant C09 is about), through the abstraction
     abs_heap F s   header = word 0 of a block, pointer slots = the words at offsets 16, 32, 48,
                    heap / free = the registers X2 / X3, the frontier a ghost
   (the RISC-V counterpart of Proof/X86Mem.v's `abs_heap`).  Proof/RVSel.v proves the code against
   word-level specifications (`a_share`, `a_erase`, `a_release`, `a_acquire` on `aheap`); this file shows
   that those specifications ARE `Heap.share`, `Heap.erase`, `Heap.release`, `Heap.acquire` on the blocks
   of the heap region (equality of abstract states on blocks, `st_eqB`: memories are functions and no
   extensionality axiom is used), provided no 64-bit count wraps, and composes the two. *)
From Coq Require Import List ZArith NArith String Bool Lia FMapPositive.
From SCC Require Import Base.Sexp Lang.AxSyn Sem.AxSem Model.Backend Model.RV Sem.RVSem Generated.Constants Proof.RVSel.
From SCC Require Model.Heap.
Import ListNotations.
Open Scope Z_scope.

(* ---------- the abstraction ---------- *)
Definition abs_mem (s : rstate) : Heap.mem :=
  fun a => {| Heap.hdr := hword s a; Heap.ps := [hword s (a + 16); hword s (a + 32); hword s (a + 48)] |}.
Definition reg_or0 (s : rstate) (r : N) : Z := match rget s r with Some z => z | None => 0 end.
Definition abs_heap (F : Z) (s : rstate) : Heap.st :=
  {| Heap.m := abs_mem s; Heap.heap := reg_or0 s HEAP; Heap.free := reg_or0 s FREE; Heap.frontier := F |}.
(* the same from the word-level view of Proof/RVSel.v *)
Definition habs (F : Z) (h : aheap) : Heap.st :=
  {| Heap.m := fun a => {| Heap.hdr := words h a; Heap.ps := [words h (a + 16); words h (a + 32); words h (a + 48)] |};
     Heap.heap := hp h; Heap.free := fp h; Heap.frontier := F |}.

(* block addresses of the heap region *)
Definition is_blk (a : Z) : Prop := exists k, 0 <= k /\ a = HEAP_BASE + 64 * k /\ a + 64 <= HEAP_BASE + HEAP_SIZE.
(* equality of abstract states on the blocks *)
Definition st_eqB (a b : Heap.st) : Prop :=
  Heap.heap a = Heap.heap b /\ Heap.free a = Heap.free b /\ Heap.frontier a = Heap.frontier b /\
  forall x, is_blk x -> Heap.m a x = Heap.m b x.

Lemma st_eqB_refl a : st_eqB a a.
Proof. repeat split; auto. Qed.
Lemma st_eqB_trans a b c : st_eqB a b -> st_eqB b c -> st_eqB a c.
Proof. intros (A1 & A2 & A3 & A4) (B1 & B2 & B3 & B4). repeat split; try congruence. intros x Hx. rewrite A4, B4; auto. Qed.
Lemma st_eqB_sym a b : st_eqB a b -> st_eqB b a.
Proof. intros (A1 & A2 & A3 & A4). repeat split; auto. intros x Hx. symmetry; auto. Qed.

Lemma represents_abs F s h : represents s h -> st_eqB (abs_heap F s) (habs F h).
Proof.
  intros (W & HP & FP). unfold abs_heap, habs, reg_or0. rewrite HP, FP. repeat split; auto.
  intros x _. unfold abs_mem. cbn [Heap.m]. now rewrite !W.
Qed.
(* every state with defined allocator registers represents its own words *)
Definition own_heap (s : rstate) : aheap := {| words := hword s; hp := reg_or0 s HEAP; fp := reg_or0 s FREE |}.
Lemma represents_own s h0 f0 : rget s HEAP = Some h0 -> rget s FREE = Some f0 -> represents s (own_heap s).
Proof. intros A B. unfold own_heap, reg_or0. rewrite A, B. repeat split; auto. Qed.

(* ---------- block addresses ---------- *)
Lemma is_blk_valid_block b : is_blk b -> valid_block b.
Proof.
  intros (k & Hk & -> & Hhi) j Hj. unfold valid_addr, aligned, in_heap, HEAP_BASE, HEAP_SIZE in *. split.
  - apply Z.eqb_eq. replace (268435456 + 64 * k + 8 * j) with ((33554432 + 8 * k + j) * 8) by lia. apply Z.mod_mul. lia.
  - apply andb_true_iff. split; apply Z.leb_le; lia.
Qed.
Lemma is_blk_valid_addr b : is_blk b -> valid_addr b.
Proof. intros H. rewrite <- (Z.add_0_r b). change 0 with (8 * 0). apply (is_blk_valid_block b H). lia. Qed.
Lemma is_blk_pos b : is_blk b -> 0 < b.
Proof. intros (k & Hk & -> & _). unfold HEAP_BASE. lia. Qed.
Lemma blk_off_ne x p off : is_blk x -> is_blk p -> 0 < off < 64 -> x + off <> p.
Proof. intros (k & Hk & -> & _) (j & Hj & -> & _) Ho. unfold HEAP_BASE. lia. Qed.
Lemma ptr_valid p : (p = 0 \/ is_blk p) -> (p = 0 \/ valid_addr p).
Proof. intros [->|H]; [now left|right; now apply is_blk_valid_addr]. Qed.

(* a header write, seen through the abstraction *)
Lemma habs_upd_hdr F h p v x :
  is_blk p -> is_blk x ->
  {| Heap.hdr := upd (words h) p v x;
     Heap.ps := [upd (words h) p v (x + 16); upd (words h) p v (x + 32); upd (words h) p v (x + 48)] |}
  = Heap.set_hdr (Heap.m (habs F h)) p v x.
Proof.
  intros Hp Hx. unfold Heap.set_hdr, Heap.upd, upd.
  destruct (Z.eqb_spec (x + 16) p) as [E|_]; [exfalso; eapply (blk_off_ne x p 16); eauto; lia|].
  destruct (Z.eqb_spec (x + 32) p) as [E|_]; [exfalso; eapply (blk_off_ne x p 32); eauto; lia|].
  destruct (Z.eqb_spec (x + 48) p) as [E|_]; [exfalso; eapply (blk_off_ne x p 48); eauto; lia|].
  destruct (Z.eqb_spec x p) as [->|N]; reflexivity.
Qed.

(* ---------- the word-level specifications are the abstract operations ---------- *)
Lemma habs_share F h p n :
  (p = 0 \/ is_blk p) -> (p <> 0 -> min_int <= words h p + n <= max_int) ->
  st_eqB (habs F (a_share p n h)) (Heap.share p n (habs F h)).
Proof.
  intros Hp NW. unfold a_share, Heap.share. destruct (Z.eqb_spec p 0) as [->|P0]; [apply st_eqB_refl|].
  destruct Hp as [?|Hb]; [contradiction|]. rewrite (wrap_small _ (NW P0)).
  repeat split; auto. intros x Hx. cbn [habs Heap.m words]. now apply (habs_upd_hdr F h p).
Qed.
Lemma habs_erase F h p :
  (p = 0 \/ is_blk p) -> (p <> 0 -> words h p <> 0 -> min_int <= words h p - 1 <= max_int) ->
  st_eqB (habs F (a_erase p h)) (Heap.erase p (habs F h)).
Proof.
  intros Hp NW. unfold a_erase, Heap.erase. destruct (Z.eqb_spec p 0) as [->|P0]; [apply st_eqB_refl|].
  destruct Hp as [?|Hb]; [contradiction|]. cbn [habs Heap.m Heap.hdr].
  destruct (Z.eqb_spec (words h p) 0) as [E0|N0].
  - repeat split; auto. intros x Hx. cbn [habs Heap.m words Heap.free]. now apply (habs_upd_hdr F h p).
  - rewrite (wrap_small _ (NW P0 N0)). repeat split; auto. intros x Hx. cbn [habs Heap.m words]. now apply (habs_upd_hdr F h p).
Qed.
Lemma habs_release F h b : is_blk b -> st_eqB (habs F (a_release b h)) (Heap.release b (habs F h)).
Proof.
  intros Hb. unfold a_release, Heap.release. repeat split; auto. intros x Hx. cbn [habs Heap.m words Heap.heap].
  now apply (habs_upd_hdr F h b).
Qed.

(* operations respect the block-wise equality *)
Lemma erase_st_eqB a b p : st_eqB a b -> (p = 0 \/ is_blk p) -> st_eqB (Heap.erase p a) (Heap.erase p b).
Proof.
  intros (A1 & A2 & A3 & A4) Hp. unfold Heap.erase. destruct (Z.eqb_spec p 0); [repeat split; auto|].
  destruct Hp as [|Hb]; [contradiction|]. rewrite (A4 p Hb).
  destruct (Heap.hdr (Heap.m b p) =? 0); (split; [|split; [|split]]); cbn; auto;
    intros x Hx; unfold Heap.set_hdr, Heap.upd; destruct (x =? p); rewrite ?A2, ?(A4 p Hb), ?(A4 x Hx); auto.
Qed.
Lemma share_st_eqB a b p n : st_eqB a b -> (p = 0 \/ is_blk p) -> st_eqB (Heap.share p n a) (Heap.share p n b).
Proof.
  intros (A1 & A2 & A3 & A4) Hp. unfold Heap.share. destruct (Z.eqb_spec p 0); [repeat split; auto|].
  destruct Hp as [|Hb]; [contradiction|]. rewrite (A4 p Hb). (split; [|split; [|split]]); cbn; auto.
  intros x Hx. unfold Heap.set_hdr, Heap.upd. destruct (x =? p); rewrite ?(A4 p Hb), ?(A4 x Hx); auto.
Qed.
Lemma release_st_eqB a b p : st_eqB a b -> is_blk p -> st_eqB (Heap.release p a) (Heap.release p b).
Proof.
  intros (A1 & A2 & A3 & A4) Hb. unfold Heap.release. (split; [|split; [|split]]); cbn; auto.
  intros x Hx. unfold Heap.set_hdr, Heap.upd. destruct (x =? p); rewrite ?A1, ?(A4 p Hb), ?(A4 x Hx); auto.
Qed.

(* the three children of a block, erased one after the other: on words and on the abstract heap *)
Definition child_ok (h : aheap) (c : Z) : Prop :=
  (c = 0 \/ is_blk c) /\ (c <> 0 -> words h c <> 0 -> min_int <= words h c - 1 <= max_int).
Lemma a_erase_slots p h b off : (p = 0 \/ is_blk p) -> is_blk b -> 0 < off < 64 -> words (a_erase p h) (b + off) = words h (b + off).
Proof.
  intros Hp Hb Ho. unfold a_erase. destruct (p =? 0) eqn:E0; [reflexivity|]. apply Z.eqb_neq in E0.
  destruct Hp as [?|Hp]; [contradiction|]. pose proof (blk_off_ne b p off Hb Hp Ho) as NE.
  destruct (words h p =? 0); cbn [words]; unfold upd; destruct (Z.eqb_spec (b + off) p); congruence.
Qed.
Lemma habs_erase_children F h b :
  is_blk b ->
  let c0 := words h (b + 16) in let c1 := words h (b + 32) in let c2 := words h (b + 48) in
  child_ok h c0 -> child_ok (a_erase c0 h) c1 -> child_ok (a_erase c1 (a_erase c0 h)) c2 ->
  st_eqB (habs F (erase_children b [0; 1; 2]%N h))
         (fold_left (fun s c => Heap.erase c s) [c0; c1; c2] (habs F h)) /\
  children_ok b [0; 1; 2]%N h.
Proof.
  intros Hb c0 c1 c2 (B0 & W0) (B1 & W1) (B2 & W2).
  cbn [erase_children children_ok fold_left].
  change (field_offset Fst 0) with 16. change (field_offset Fst 1) with 32. change (field_offset Fst 2) with 48.
  fold c0. rewrite (a_erase_slots c0 h b 32 B0 Hb ltac:(lia)). fold c1.
  rewrite (a_erase_slots c1 _ b 48 B1 Hb ltac:(lia)), (a_erase_slots c0 h b 48 B0 Hb ltac:(lia)). fold c2.
  split.
  - eapply st_eqB_trans; [apply habs_erase; [exact B2|exact W2]|]. apply erase_st_eqB; [|exact B2].
    eapply st_eqB_trans; [apply habs_erase; [exact B1|exact W1]|]. apply erase_st_eqB; [|exact B1].
    apply habs_erase; [exact B0|exact W0].
  - split; [apply ptr_valid; exact B0|]. split; [apply ptr_valid; exact B1|]. split; [apply ptr_valid; exact B2|exact I].
Qed.

(* only headers of blocks are written *)
Lemma a_erase_nonblk p h a : (p = 0 \/ is_blk p) -> ~ is_blk a -> words (a_erase p h) a = words h a.
Proof.
  intros Hp Ha. unfold a_erase. destruct (p =? 0) eqn:E0; [reflexivity|]. apply Z.eqb_neq in E0.
  destruct Hp as [?|Hp]; [contradiction|].
  destruct (words h p =? 0); cbn [words]; unfold upd; destruct (Z.eqb_spec a p); subst; try contradiction; reflexivity.
Qed.
Lemma a_share_nonblk p n h a : (p = 0 \/ is_blk p) -> ~ is_blk a -> words (a_share p n h) a = words h a.
Proof.
  intros Hp Ha. unfold a_share. destruct (p =? 0) eqn:E0; [reflexivity|]. apply Z.eqb_neq in E0.
  destruct Hp as [?|Hp]; [contradiction|]. cbn [words]. unfold upd. destruct (Z.eqb_spec a p); subst; try contradiction; reflexivity.
Qed.
Lemma not_blk_off b off : is_blk b -> 0 < off < 64 -> ~ is_blk (b + off).
Proof. intros (k & Hk & -> & _) Ho (j & Hj & E & _). unfold HEAP_BASE in *. lia. Qed.
Lemma erase_children_eq h b :
  is_blk b ->
  let c0 := words h (b + 16) in let c1 := words h (b + 32) in let c2 := words h (b + 48) in
  (c0 = 0 \/ is_blk c0) -> (c1 = 0 \/ is_blk c1) -> (c2 = 0 \/ is_blk c2) ->
  erase_children b [0; 1; 2]%N h = a_erase c2 (a_erase c1 (a_erase c0 h)).
Proof.
  intros Hb c0 c1 c2 B0 B1 B2. cbn [erase_children].
  change (field_offset Fst 0) with 16. change (field_offset Fst 1) with 32. change (field_offset Fst 2) with 48.
  fold c0. rewrite (a_erase_slots c0 h b 32 B0 Hb ltac:(lia)). fold c1.
  rewrite (a_erase_slots c1 _ b 48 B1 Hb ltac:(lia)), (a_erase_slots c0 h b 48 B0 Hb ltac:(lia)). reflexivity.
Qed.
Lemma a_acquire_nonblk h a :
  is_blk (hp h) -> (words h (hp h) = 0 -> is_blk (fp h)) ->
  (words h (hp h) = 0 -> words h (fp h) <> 0 ->
     (words h (fp h + 16) = 0 \/ is_blk (words h (fp h + 16))) /\
     (words h (fp h + 32) = 0 \/ is_blk (words h (fp h + 32))) /\
     (words h (fp h + 48) = 0 \/ is_blk (words h (fp h + 48)))) ->
  ~ is_blk a -> words (snd (a_acquire h)) a = words h a.
Proof.
  intros Hb Hb2 Hch Ha. unfold a_acquire.
  destruct (Z.eqb_spec (words h (hp h)) 0) as [E0|N0]; cbn [negb snd].
  - specialize (Hb2 E0). destruct (Z.eqb_spec (words h (fp h)) 0) as [F0|FN]; cbn [snd words]; [reflexivity|].
    destruct (Hch E0 FN) as (S0 & S1 & S2).
    set (hh := {| words := upd (words h) (fp h) 0; hp := fp h; fp := words h (fp h) |}).
    assert (SL : forall off, 0 < off < 64 -> words hh (fp h + off) = words h (fp h + off)).
    { intros off Ho. unfold hh. cbn [words]. unfold upd. destruct (Z.eqb_spec (fp h + off) (fp h)); [lia|reflexivity]. }
    rewrite (erase_children_eq hh (fp h) Hb2) by (rewrite SL by lia; assumption).
    rewrite !a_erase_nonblk by (rewrite ?SL by lia; assumption).
    unfold hh. cbn [words]. unfold upd. destruct (Z.eqb_spec a (fp h)); subst; [contradiction|reflexivity].
  - cbn [words]. unfold upd. destruct (Z.eqb_spec a (hp h)); subst; [contradiction|reflexivity].
Qed.

(* acquire *)
Lemma habs_acquire F h :
  is_blk (hp h) ->
  (words h (hp h) = 0 -> is_blk (fp h)) ->
  (words h (hp h) = 0 -> words h (fp h) <> 0 ->
     let h1 := {| words := upd (words h) (fp h) 0; hp := fp h; fp := words h (fp h) |} in
     let c0 := words h1 (fp h + 16) in let c1 := words h1 (fp h + 32) in let c2 := words h1 (fp h + 48) in
     child_ok h1 c0 /\ child_ok (a_erase c0 h1) c1 /\ child_ok (a_erase c1 (a_erase c0 h1)) c2) ->
  fst (a_acquire h) = fst (Heap.acquire (habs F h)) /\
  st_eqB (habs (Heap.frontier (snd (Heap.acquire (habs F h)))) (snd (a_acquire h))) (snd (Heap.acquire (habs F h))) /\
  (words h (hp h) = 0 -> words h (fp h) <> 0 ->
     children_ok (fp h) [0; 1; 2]%N {| words := upd (words h) (fp h) 0; hp := fp h; fp := words h (fp h) |}).
Proof.
  intros Hb Hb2 Hch. unfold a_acquire, Heap.acquire. cbn [habs Heap.heap Heap.m Heap.hdr Heap.free Heap.ps Heap.frontier].
  destruct (Z.eqb_spec (words h (hp h)) 0) as [E0|N0]; cbn [negb].
  - specialize (Hb2 E0). destruct (Z.eqb_spec (words h (fp h)) 0) as [F0|FN].
    + split; [reflexivity|]. split; [|intros _ C; contradiction].
      cbn [fst snd Heap.frontier]. change (field_offset Fst FIELDS_PER_BLOCK) with 64. unfold Heap.BLOCK.
      assert (WR : wrap (fp h + 64) = fp h + 64).
      { apply wrap_small. destruct Hb2 as (k & Hk & E & Hhi). unfold min_int, max_int, two63, HEAP_BASE, HEAP_SIZE in *. lia. }
      rewrite WR. repeat split; auto.
    + specialize (Hch E0 FN). cbv zeta in Hch. destruct Hch as (C0 & C1 & C2).
      set (h1 := {| words := upd (words h) (fp h) 0; hp := fp h; fp := words h (fp h) |}) in *.
      destruct (habs_erase_children F h1 (fp h) Hb2 C0 C1 C2) as [EQ CO].
      split; [reflexivity|]. split; [|intros _ _; exact CO]. cbn [fst snd].
      assert (SL : forall off, 0 < off < 64 -> words h1 (fp h + off) = words h (fp h + off)).
      { intros off Ho. unfold h1. cbn [words]. unfold upd. destruct (Z.eqb_spec (fp h + off) (fp h)); [lia|reflexivity]. }
      rewrite <- (SL 16), <- (SL 32), <- (SL 48) by lia.
      set (S1 := {| Heap.m := Heap.set_hdr _ (fp h) 0; Heap.heap := fp h; Heap.free := words h (fp h); Heap.frontier := F |}).
      assert (E1 : st_eqB (habs F h1) S1).
      { unfold S1, h1. repeat split; auto. intros x Hx. cbn [habs Heap.m words]. now apply (habs_upd_hdr F h (fp h)). }
      assert (FR : forall l a, Heap.frontier (fold_left (fun s c => Heap.erase c s) l a) = Heap.frontier a).
      { induction l as [|c l IH]; intros a; cbn [fold_left]; [reflexivity|]. rewrite IH. unfold Heap.erase.
        destruct (c =? 0); [reflexivity|]. destruct (Heap.hdr (Heap.m a c) =? 0); reflexivity. }
      rewrite FR. cbn [Heap.frontier].
      eapply st_eqB_trans; [exact EQ|].
      destruct C0 as (B0 & _), C1 as (B1 & _), C2 as (B2 & _).
      cbn [fold_left]. apply erase_st_eqB; [|exact B2]. apply erase_st_eqB; [|exact B1]. apply erase_st_eqB; [|exact B0]. exact E1.
  - split; [reflexivity|]. split; [|intros C; contradiction]. cbn [fst snd Heap.frontier].
    repeat split; auto. intros x Hx. cbn [habs Heap.m words]. now apply (habs_upd_hdr F h (hp h)).
Qed.

(* ================= the emitted code refines the abstract allocator ================= *)
Section Code.
Variable im : image.

Lemma abs_heap_own F s h0 f0 : rget s HEAP = Some h0 -> rget s FREE = Some f0 -> st_eqB (abs_heap F s) (habs F (own_heap s)).
Proof. intros A B. apply represents_abs. eapply represents_own; eauto. Qed.

Theorem rv_share_block_heap i t n lc s p F h0 f0 :
  placed im i (fst (r_share_block_n t n lc)) ->
  t <> ZERO -> t <> TEMP -> t <> HEAP -> t <> FREE ->
  rget s HEAP = Some h0 -> rget s FREE = Some f0 ->
  rget s t = Some p -> (p = 0 \/ is_blk p) -> fits12 (Z.of_N n) = true ->
  (p <> 0 -> min_int <= hword s p + Z.of_N n <= max_int) ->
  exists s',
    star im i s (padd i (List.length (fst (r_share_block_n t n lc)))) s' /\
    st_eqB (abs_heap F s') (Heap.share p (Z.of_N n) (abs_heap F s)) /\
    (forall r, r <> TEMP -> rget s' r = rget s r) /\
    (forall a, ~ is_blk a -> hword s' a = hword s a).
Proof.
  intros PL T0 T1 T2 T3 HH HF HP PB FI NW.
  pose proof (represents_own s h0 f0 HH HF) as RP.
  destruct (rv_share_block_n_refines im i t n lc s _ p PL T0 T1 T2 T3 RP HP (ptr_valid p PB) FI) as (s' & ST & RP' & KR).
  exists s'. split; [exact ST|]. split; [|split; [exact KR|intros a Ha; destruct RP' as (W & _); rewrite W; now apply a_share_nonblk]].
  eapply st_eqB_trans; [apply (represents_abs F _ _ RP')|].
  eapply st_eqB_trans; [apply habs_share; [exact PB|exact NW]|].
  apply share_st_eqB; [|exact PB]. apply st_eqB_sym. eapply abs_heap_own; eauto.
Qed.

Theorem rv_erase_block_heap i t lc s p F h0 f0 :
  placed im i (fst (r_erase_block t lc)) ->
  t <> ZERO -> t <> TEMP -> t <> HEAP -> t <> FREE ->
  rget s HEAP = Some h0 -> rget s FREE = Some f0 ->
  rget s t = Some p -> (p = 0 \/ is_blk p) ->
  (p <> 0 -> hword s p <> 0 -> min_int <= hword s p - 1 <= max_int) ->
  exists s',
    star im i s (padd i (List.length (fst (r_erase_block t lc)))) s' /\
    st_eqB (abs_heap F s') (Heap.erase p (abs_heap F s)) /\
    (forall r, r <> TEMP -> r <> FREE -> rget s' r = rget s r) /\
    (forall a, ~ is_blk a -> hword s' a = hword s a) /\
    (exists f', rget s' FREE = Some f').
Proof.
  intros PL T0 T1 T2 T3 HH HF HP PB NW.
  pose proof (represents_own s h0 f0 HH HF) as RP.
  destruct (rv_erase_block_refines im i t lc s _ p PL T0 T1 T2 T3 RP HP (ptr_valid p PB)) as (s' & ST & RP' & KR).
  exists s'. split; [exact ST|]. split; [|split; [exact KR|split; [intros a Ha; destruct RP' as (W & _); rewrite W; now apply a_erase_nonblk|destruct RP' as (_ & _ & X); eauto]]].
  eapply st_eqB_trans; [apply (represents_abs F _ _ RP')|].
  eapply st_eqB_trans; [apply habs_erase; [exact PB|exact NW]|].
  apply erase_st_eqB; [|exact PB]. apply st_eqB_sym. eapply abs_heap_own; eauto.
Qed.

Theorem rv_release_block_heap i t s b F h0 f0 :
  placed im i (release_block t) ->
  t <> ZERO -> t <> HEAP ->
  rget s HEAP = Some h0 -> rget s FREE = Some f0 ->
  rget s t = Some b -> is_blk b ->
  exists s',
    star im i s (padd i 2) s' /\
    st_eqB (abs_heap F s') (Heap.release b (abs_heap F s)) /\
    (forall r, r <> HEAP -> rget s' r = rget s r).
Proof.
  intros PL T0 T2 HH HF HB BB.
  pose proof (represents_own s h0 f0 HH HF) as RP.
  destruct (rv_release_block_refines im i t s _ b PL T0 T2 RP HB (is_blk_valid_addr b BB)) as (s' & ST & RP' & KR).
  exists s'. split; [exact ST|]. split; [|exact KR].
  eapply st_eqB_trans; [apply (represents_abs F _ _ RP')|].
  eapply st_eqB_trans; [apply habs_release; exact BB|].
  apply release_st_eqB; [|exact BB]. apply st_eqB_sym. eapply abs_heap_own; eauto.
Qed.

(* acquire_block: the block handed out is the one `Heap.acquire` hands out, the abstract state afterwards is
   `Heap.acquire`'s (with its frontier: in the bump case the frontier moves by one block) *)
Lemma acquire_st_eqB a b :
  st_eqB a b -> is_blk (Heap.heap b) -> (Heap.hdr (Heap.m b (Heap.heap b)) = 0 -> is_blk (Heap.free b)) ->
  (Heap.hdr (Heap.m b (Heap.heap b)) = 0 -> Heap.hdr (Heap.m b (Heap.free b)) <> 0 ->
     forall c, In c (Heap.ps (Heap.m b (Heap.free b))) -> c = 0 \/ is_blk c) ->
  fst (Heap.acquire a) = fst (Heap.acquire b) /\ st_eqB (snd (Heap.acquire a)) (snd (Heap.acquire b)).
Proof.
  intros (A1 & A2 & A3 & A4) HB FB CB. unfold Heap.acquire. rewrite A1, A2, A3, (A4 _ HB).
  destruct (Z.eqb_spec (Heap.hdr (Heap.m b (Heap.heap b))) 0) as [E0|N0]; cbn [negb].
  - specialize (FB E0). specialize (CB E0). rewrite (A4 _ FB). destruct (Z.eqb_spec (Heap.hdr (Heap.m b (Heap.free b))) 0) as [F0|FN].
    + split; [reflexivity|]. repeat split; auto.
    + specialize (CB FN). split; [reflexivity|]. cbn [snd].
      assert (G : forall l sa sb, st_eqB sa sb -> (forall c, In c l -> c = 0 \/ is_blk c) ->
                st_eqB (fold_left (fun s c => Heap.erase c s) l sa) (fold_left (fun s c => Heap.erase c s) l sb)).
      { induction l as [|c l IH]; intros sa sb E H; cbn [fold_left]; [exact E|].
        apply IH; [apply erase_st_eqB; [exact E|apply H; now left]|intros; apply H; now right]. }
      apply G; [|exact CB]. repeat split; auto. intros x Hx. cbn [Heap.m]. unfold Heap.set_hdr, Heap.upd.
      destruct (x =? Heap.free b); [now rewrite (A4 _ FB)|apply A4; exact Hx].
  - split; [reflexivity|]. repeat split; auto. intros x Hx. cbn [snd Heap.m]. unfold Heap.set_hdr, Heap.upd.
    destruct (x =? Heap.heap b); [now rewrite ?(A4 _ HB)|apply A4; exact Hx].
Qed.

Theorem rv_acquire_block_heap i t t2 lc s F rv h2 :
  placed im i (fst (acquire_block t t2 lc)) ->
  t <> ZERO -> t <> TEMP -> t <> HEAP -> t <> FREE ->
  t2 <> ZERO -> t2 <> TEMP -> t2 <> HEAP -> t2 <> FREE -> t <> t2 ->
  rget s HEAP = Some rv -> is_blk rv -> rget s FREE = Some h2 ->
  (hword s rv = 0 -> is_blk h2) ->
  (hword s rv = 0 -> hword s h2 <> 0 ->
     let h1 := {| words := upd (hword s) h2 0; hp := h2; fp := hword s h2 |} in
     let c0 := words h1 (h2 + 16) in let c1 := words h1 (h2 + 32) in let c2 := words h1 (h2 + 48) in
     child_ok h1 c0 /\ child_ok (a_erase c0 h1) c1 /\ child_ok (a_erase c1 (a_erase c0 h1)) c2) ->
  exists s',
    star im i s (padd i (List.length (fst (acquire_block t t2 lc)))) s' /\
    st_eqB (abs_heap (Heap.frontier (snd (Heap.acquire (abs_heap F s)))) s') (snd (Heap.acquire (abs_heap F s))) /\
    rget s' t = Some rv /\ fst (Heap.acquire (abs_heap F s)) = rv /\
    (forall r, r <> t -> r <> t2 -> r <> TEMP -> r <> HEAP -> r <> FREE -> rget s' r = rget s r).
Proof.
  intros PL T0 T1 T2 T3 U0 U1 U2 U3 TU HH HB HF HB2 HCH.
  pose proof (represents_own s rv h2 HH HF) as RP.
  set (h := own_heap s) in *.
  assert (EH : hp h = rv) by (unfold h, own_heap, reg_or0; cbn [hp]; now rewrite HH).
  assert (EF : fp h = h2) by (unfold h, own_heap, reg_or0; cbn [fp]; now rewrite HF).
  assert (EW : words h = hword s) by reflexivity.
  destruct (habs_acquire F h) as (AF & AS & CO).
  { rewrite EH. exact HB. }
  { rewrite EH, EF, EW. exact HB2. }
  { rewrite EH, EF, EW. exact HCH. }
  destruct (rv_acquire_block_refines im i t t2 lc s h PL T0 T1 T2 T3 U0 U1 U2 U3 TU RP) as (s' & ST & RP' & RT & KR).
  { rewrite EH. now apply is_blk_valid_addr. }
  { rewrite EH, EF, EW. intros E. apply is_blk_valid_block. now apply HB2. }
  { exact CO. }
  pose proof (abs_heap_own F s rv h2 HH HF) as EO. fold h in EO.
  assert (CB : forall c, In c (Heap.ps (Heap.m (habs F h) (Heap.free (habs F h)))) -> hword s rv = 0 -> hword s h2 <> 0 -> c = 0 \/ is_blk c).
  { intros c Hc E0 FN. specialize (HCH E0 FN). cbv zeta in HCH. destruct HCH as ((B0 & _) & (B1 & _) & (B2 & _)).
    cbn [habs Heap.free Heap.m Heap.ps] in Hc. rewrite EF, EW in Hc.
    assert (SL : forall off, 0 < off < 64 -> upd (hword s) h2 0 (h2 + off) = hword s (h2 + off)).
    { intros off Ho. unfold upd. destruct (Z.eqb_spec (h2 + off) h2); [lia|reflexivity]. }
    cbn [words] in B0, B1, B2. rewrite SL in B0, B1, B2 by lia.
    destruct Hc as [<-|[<-|[<-|[]]]]; assumption. }
  (* Heap.acquire on abs_heap F s and on habs F h agree *)
  assert (AQ : fst (Heap.acquire (abs_heap F s)) = fst (Heap.acquire (habs F h)) /\
               st_eqB (snd (Heap.acquire (abs_heap F s))) (snd (Heap.acquire (habs F h)))).
  { split; [reflexivity|apply st_eqB_refl]. }
  destruct AQ as (AQ1 & AQ2).
  exists s'. split; [exact ST|]. split; [|split; [|split; [|exact KR]]].
  - assert (FE : Heap.frontier (snd (Heap.acquire (abs_heap F s))) = Heap.frontier (snd (Heap.acquire (habs F h)))) by (destruct AQ2 as (_ & _ & E & _); exact E).
    rewrite FE. eapply st_eqB_trans; [apply (represents_abs _ _ _ RP')|].
    eapply st_eqB_trans; [exact AS|]. apply st_eqB_sym. exact AQ2.
  - rewrite RT. f_equal. unfold a_acquire. rewrite EH. destruct (negb _); [reflexivity|]. destruct (_ =? 0); reflexivity.
  - rewrite AQ1, <- AF. unfold a_acquire. rewrite EH. destruct (negb _); [reflexivity|]. destruct (_ =? 0); reflexivity.
Qed.
End Code.
