(* C11 on x86-64, part (iv): a whole `Substitute` on the ISA semantics, composed from
   (i)   Proof/X86ParMoves.v   the parallel moves perform the assignment simultaneously,
   (ii)  Proof/SubstGraph.v    the move graph of a Substitute has in-degree <= 1 (+ its edges),
   (iii) Proof/SubstGraph.v + Proof/X86Mem.v   one erase / share per object variable and their meaning. *)
From Coq Require Import List ZArith NArith String Bool Lia FMapPositive Permutation Sorted.
From SCC Require Import Base.Sexp Lang.AxSyn Sem.AxSem Model.ParMoves Model.Backend Model.X86 Sem.X86Sem
     Generated.Constants Proof.X86State Proof.X86Sel Proof.X86Exec Proof.X86MemSubst Proof.ParMovesScratch
     Proof.X86ParMoves Proof.SubstGraph.
Import ListNotations.
Open Scope Z_scope.

Notation xtpos := (tpos x86_backend).

(* every temporary the numbering hands out is a variable temporary: not rsp, rcx, rbx (HEAP),
   rbp (FREE), not the reserved spill slot *)
Lemma tfp_var_temp p t : temporary_from_position p = Ok t -> var_temp t /\ t <> XR FREE /\ t <> XR HEAP.
Proof.
  unfold temporary_from_position. change RESERVED with 4%N. change REGISTER_NUM with 16%N. change RESERVED_SPILLS with 1%N.
  change SPILL_NUM with 256%N.
  destruct (N.ltb_spec (p + 4) 16) as [H|H].
  - intros E; inversion E; subst. unfold var_temp; cbn [loc_ok]. change TEMP with 1%N. change FREE with 3%N. change HEAP with 2%N.
    repeat split; try congruence; try (intro X; inversion X; lia); lia.
  - destruct (N.ltb_spec (p + 4 - 16 + 1) 256) as [H2|H2]; [|discriminate].
    intros E; inversion E; subst. unfold var_temp; cbn [loc_ok]. unfold slot_ok. change SPILL_NUM with 256%N. change SPILL_TEMP with 0%N.
    repeat split; try congruence; try (intro X; inversion X; lia); try exact H2.
Qed.
Lemma xtpos_var_temp n i t : xtpos n i = Ok t -> var_temp t /\ t <> XR FREE /\ t <> XR HEAP.
Proof. apply tfp_var_temp. Qed.

(* a variable location reads the same in two states that agree on the stack and on all registers
   but rcx and FREE *)
Lemma lget_agree s s0 sp t :
  var_temp t -> t <> XR FREE ->
  (forall r, r <> TEMP -> r <> FREE -> rget s r = rget s0 r) -> stack s = stack s0 ->
  lget s sp t = lget s0 sp t.
Proof.
  intros (L & N1 & N0) NF R ST. destruct t as [r|p]; cbn [lget].
  - apply R; congruence.
  - unfold sget. now rewrite ST.
Qed.

(* ---------- the reference-count phase ---------- *)
Definition ptr_of (s : xstate) (sp : Z) (t : xtemp) : Z := match lget s sp t with Some p => p | None => 0 end.
Definition rc_temp (o : @rc_op xtemp) : xtemp := match o with RcErase t => t | RcShare t _ => t end.
Definition rc_ok (s0 : xstate) (sp : Z) (o : @rc_op xtemp) : Prop :=
  var_temp (rc_temp o) /\ rc_temp o <> XR FREE /\
  (exists p, lget s0 sp (rc_temp o) = Some p /\ (p = 0 \/ block_ok p)) /\
  match o with RcShare _ n => fits32 (Z.of_N n) = true | RcErase _ => True end.
Definition rc_h (s0 : xstate) (sp : Z) (o : @rc_op xtemp) (hf : PM.t Z * Z) : PM.t Z * Z :=
  match o with
  | RcErase t => erase_h (ptr_of s0 sp t) hf
  | RcShare t n => share_h (ptr_of s0 sp t) (Z.of_N n) hf
  end.

Lemma x86_emit_rc_ok im s0 sp : forall ops pc lc s f,
  Forall (rc_ok s0 sp) ops ->
  (forall r, r <> TEMP -> r <> FREE -> rget s r = rget s0 r) -> stack s = stack s0 ->
  code_at im pc (fst (emit_rc x86_backend ops lc)) -> labels_at im pc (fst (emit_rc x86_backend ops lc)) ->
  frame_ok s0 sp -> rget s FREE = Some f ->
  exists s' f', exec_to im pc s (padd pc (List.length (fst (emit_rc x86_backend ops lc)))) s' /\
    rget s' FREE = Some f' /\
    (heap s', f') = fold_left (fun hf o => rc_h s0 sp o hf) ops (heap s, f) /\
    (forall r, r <> TEMP -> r <> FREE -> rget s' r = rget s0 r) /\ stack s' = stack s0 /\ out s' = out s.
Proof.
  induction ops as [|o ops IH]; intros pc lc s f OK R ST CA LA F0 FR.
  - exists s, f. cbn. repeat split; auto. constructor.
  - inversion OK as [|? ? Oo Or]; subst.
    cbn [emit_rc] in *. destruct (emit_rc_op x86_backend o lc) as [c1 lc1] eqn:E1.
    destruct (emit_rc x86_backend ops lc1) as [c2 lc2] eqn:E2. cbn [fst] in *.
    apply code_at_app in CA as [CA1 CA2]. apply labels_at_app in LA as [LA1 LA2].
    destruct Oo as (VT & NF & (p & Hp & Vp) & Ho).
    assert (F : frame_ok s sp).
    { destruct F0 as [A B]. split; [|exact B]. rewrite R; [exact A|discriminate|discriminate]. }
    assert (Hp' : lget s sp (rc_temp o) = Some p) by (rewrite (lget_agree s s0 sp _ VT NF R ST); exact Hp).
    assert (PO : ptr_of s0 sp (rc_temp o) = p) by (unfold ptr_of; now rewrite Hp).
    pose proof VT as (LT & NT1 & NT0).
    assert (STEP : exists s1 f1, exec_to im pc s (padd pc (List.length c1)) s1 /\ rget s1 FREE = Some f1 /\
              (heap s1, f1) = rc_h s0 sp o (heap s, f) /\
              (forall r, r <> TEMP -> r <> FREE -> rget s1 r = rget s r) /\ stack s1 = stack s /\ out s1 = out s).
    { destruct o as [t|t n]; cbn [emit_rc_op b_erase b_share_n x86_backend x86_backend_with rc_temp rc_h] in *.
      - replace c1 with (fst (x_erase_block t lc)) in * by (now rewrite E1).
        destruct (x86_erase_ok im pc s sp t lc p f CA1 LA1 F LT NT1 NF Hp' Vp FR) as (s1 & f1 & X1 & X2 & X3 & X4 & X5 & X6).
        exists s1, f1. rewrite PO. repeat split; auto.
      - replace c1 with (fst (x_share_block_n t n lc)) in * by (now rewrite E1).
        destruct (x86_share_ok im pc s sp t n lc p f CA1 LA1 F LT NT1 Hp' Vp Ho FR) as (s1 & X1 & X3 & X4 & X5 & X6).
        exists s1, f. rewrite PO. repeat split; auto.
        rewrite X4; [exact FR|discriminate]. }
    destruct STEP as (s1 & f1 & X1 & X2 & X3 & X4 & X5 & X6).
    destruct (IH (padd pc (List.length c1)) lc1 s1 f1 Or) as (s2 & f2 & Y1 & Y2 & Y3 & Y4 & Y5 & Y6); auto.
    { intros r A B. rewrite X4; auto. }
    { congruence. }
    { now rewrite E2. }
    { now rewrite E2. }
    rewrite E2 in *. cbn [fst] in *.
    exists s2, f2. split; [|split; [exact Y2|split; [|split; [exact Y4|split; [exact Y5|congruence]]]]].
    + rewrite app_length, padd_add. eapply exec_to_trans; eauto.
    + cbn [fold_left]. rewrite <- X3. exact Y3.
Qed.

(* the meaning of the update for a variable with k targets *)
Definition count_h (p : Z) (k : nat) (hf : PM.t Z * Z) : PM.t Z * Z :=
  match k with
  | O => erase_h p hf
  | S O => hf
  | S (S n) => share_h p (Z.of_nat (S n)) hf
  end.

Lemma count_targets_le re b : (count_targets re b <= List.length re)%nat.
Proof. unfold count_targets. induction re as [|x re IH]; cbn; [lia|]. destruct (N.eqb _ _); cbn; lia. Qed.

Lemma lookup_of_In (am : amap xtemp) k ts :
  NoDup (map fst am) -> In (k, ts) am -> lookup xtemp xeqb am k = Some ts.
Proof.
  induction am as [|[k1 t1] am IH]; cbn; intros ND Hin; [destruct Hin|].
  inversion ND as [|? ? Hn ND']; subst. destruct Hin as [E|Hin].
  - inversion E; subst. destruct (xeqb_spec k k); congruence.
  - destruct (xeqb_spec k k1) as [->|N]; [|auto]. exfalso. apply Hn. apply in_map_iff. exists (k1, ts); auto.
Qed.

(* ---------- the whole statement ---------- *)
Theorem x86_substitute_ok im pc types ctx re l args lc code lc' s sp f :
  NoDup (ids ctx) -> NoDup (new_ids re) ->
  Z.of_nat (List.length re) <= 2147483647 ->
  code_statement x86_backend types (Substitute re (Call l args)) ctx lc = Ok (code, lc') ->
  code_at im pc code -> labels_at im pc code ->
  frame_ok s sp -> rget s FREE = Some f ->
  (* every object variable holds a null pointer or a pointer to a heap block *)
  (forall i b t, nth_error ctx i = Some b -> is_obj b = true -> xtpos Fst i = Ok t ->
     exists p, lget s sp t = Some p /\ (p = 0 \/ block_ok p)) ->
  exists (s' : xstate) (f' : Z) (order : list (nat * binding)) (ptr : nat -> Z),
    (* control arrives at the final jump to the callee *)
    exec_to im pc s (padd pc (List.length code - 1)) s' /\
    nth_error code (List.length code - 1) = Some (JMPL (show_ident l +++ "_")) /\
    (* ONE simultaneous assignment: new variable j gets what its source i held *)
    (forall i j bi pj n a b, nth_error ctx i = Some bi -> nth_error re j = Some pj -> idn (snd pj) = idn (bvar bi) ->
       (n = Snd \/ bchi bi <> Ext) -> xtpos n i = Ok a -> xtpos n j = Ok b -> lget s' sp b = lget s sp a) /\
    (* reference counts: every object variable exactly once, k targets: erase / nothing / share (k-1) *)
    Permutation (map snd order) (filter is_obj ctx) /\
    (forall i b, In (i, b) order -> nth_error ctx i = Some b /\ exists t, xtpos Fst i = Ok t /\ lget s sp t = Some (ptr i)) /\
    rget s' FREE = Some f' /\
    (heap s', f') = fold_left (fun hf ib => count_h (ptr (fst ib)) (count_targets re (snd ib)) hf) order (heap s, f) /\
    (* nothing else *)
    (forall u, var_temp u -> u <> XR FREE -> (forall j n, xtpos n j = Ok u -> (List.length re <= j)%nat) -> lget s' sp u = lget s sp u) /\
    rget s' HEAP = rget s HEAP /\ frame_ok s' sp /\ out s' = out s /\
    (forall k, (forall p, slot_ok p -> k <> key (slot_addr sp p)) -> PM.find k (stack s') = PM.find k (stack s)).
Proof.
  intros NDc NDn LEN CS CA LA F FR PTR.
  cbn [code_statement] in CS.
  destruct (code_weakening_contraction x86_backend (transpose re ctx) ctx lc) as [[c1 lc1]|e] eqn:WC; [|discriminate].
  cbn [rbind] in CS. unfold code_exchange in CS.
  destruct (connections x86_backend (transpose re ctx) ctx (map fst re)) as [am|e] eqn:CN; [|discriminate].
  cbn [rbind] in CS. destruct (parallel_moves_code x86_backend am) as [c2|e] eqn:PMC; [|discriminate].
  cbn [rbind] in CS. inversion CS; subst code lc'; clear CS.
  cbn [b_jump_label b_mark x86_backend x86_backend_with app fst snd] in *.
  set (jmp := JMPL (show_ident l +++ "_")) in *.
  (* split the code *)
  apply code_at_app in CA as [CA1 CA23]. apply code_at_app in CA23 as [CA2 CA3].
  apply labels_at_app in LA as [LA1 _].
  (* phase 1: reference counts *)
  destruct (weakening_contraction_counts x86_backend ctx re lc c1 lc1 NDc WC) as (order & PERM & _ & ORD & ops & F2 & EM).
  set (ptr := fun i : nat => match xtpos Fst i with Ok t => ptr_of s sp t | Err _ => 0 end).
  assert (OBJ : forall i b, In (i, b) order -> is_obj b = true).
  { intros i b Hin. assert (In b (map snd order)) as Hb by (apply in_map_iff; exists (i, b); auto).
    eapply Permutation_in in Hb; [|exact PERM]. apply filter_In in Hb. tauto. }
  assert (RCOK : Forall (rc_ok s sp) (List.concat ops)).
  { apply Forall_concat. clear EM PERM. induction F2 as [|[i b] o order' ops' (t & Ht & ->) _ IHF]; constructor.
    - cbn [fst snd] in *. pose proof (ORD i b (or_introl eq_refl)) as Hnth.
      destruct (xtpos_var_temp Fst i t Ht) as (VT & NF & _).
      destruct (PTR i b t Hnth (OBJ i b (or_introl eq_refl)) Ht) as (p & Hp & Vp).
      pose proof (count_targets_le re b) as LE.
      destruct (count_targets re b) as [|[|k]]; cbn [rc_op_for].
      + constructor; [|constructor]. unfold rc_ok; cbn [rc_temp].
        split; [exact VT|split; [exact NF|split; [exists p; auto|exact I]]].
      + constructor.
      + constructor; [|constructor]. unfold rc_ok; cbn [rc_temp].
        split; [exact VT|split; [exact NF|split; [exists p; auto|]]].
        unfold fits32. apply andb_true_iff. split; apply Z.leb_le; lia.
    - apply IHF; intros; [apply ORD|eapply OBJ]; right; eauto. }
  assert (EMc : c1 = fst (emit_rc x86_backend (List.concat ops) lc)) by (now rewrite <- EM).
  rewrite EMc in CA1, LA1.
  destruct (x86_emit_rc_ok im s sp (List.concat ops) pc lc s f RCOK (fun r _ _ => eq_refl) eq_refl CA1 LA1 F FR)
    as (s1 & f1 & X1 & X2 & X3 & X4 & X5 & X6).
  rewrite <- EMc in X1.
  assert (F1 : frame_ok s1 sp).
  { destruct F as [A B]. split; [|exact B]. rewrite X4; [exact A|discriminate|discriminate]. }
  assert (AG : forall t, var_temp t -> t <> XR FREE -> lget s1 sp t = lget s sp t).
  { intros t VT NF. apply lget_agree; auto. }
  (* phase 2: the parallel moves *)
  destruct (transpose_connections_indeg1 x86_backend x86_backend_ok ctx re am NDc NDn CN) as (ID & NT & _ & KEYS).
  pose proof (connections_edges x86_backend x86_backend_ok ctx re am NDc NDn CN) as EDG.
  assert (VTam : forall t, In t (map fst am) \/ In t (all_targets xtemp am) -> var_temp t /\ t <> XR FREE).
  { intros t [Hk|Ht].
    - destruct (KEYS t Hk) as (i & bi & n & _ & _ & Hp). destruct (xtpos_var_temp n i t Hp); tauto.
    - unfold all_targets in Ht. apply in_flat_map in Ht as ([k ts] & Hin & Ht). cbn [snd] in Ht.
      assert (edge xtemp xeqb am k t) as E.
      { destruct (transpose_connections_indeg1 x86_backend x86_backend_ok ctx re am NDc NDn CN) as (_ & _ & SRT & _).
        exists ts. split; [|exact Ht]. apply lookup_of_In; auto.
        apply (sorted_nodup xtemp_compare (cmp_eq x86_backend x86_backend_ok)). exact SRT. }
      apply EDG in E as (i & j & bi & pj & n & _ & _ & _ & _ & _ & Hb). destruct (xtpos_var_temp n j t Hb); tauto. }
  destruct (x86_parallel_moves_ok im am c2 s1 sp ID NT (fun t H => proj1 (VTam t H)) PMC F1) as (s2 & E2 & P1 & P2 & F2' & SF).
  pose proof (exec_straight_exec_to im c2 _ s1 s2 CA2 E2) as X2'.
  exists s2, f1, order, ptr.
  assert (LENc : (List.length (c1 ++ c2 ++ [jmp]) - 1 = List.length c1 + List.length c2)%nat).
  { rewrite !app_length. cbn [List.length]. lia. }
  split; [|split; [|split; [|split; [|split; [|split; [|split; [|split; [|split; [|split; [|split]]]]]]]]]].
  - rewrite LENc, padd_add. eapply exec_to_trans; eauto.
  - rewrite LENc. rewrite nth_error_app2 by lia. rewrite nth_error_app2 by lia.
    replace (List.length c1 + List.length c2 - List.length c1 - List.length c2)%nat with 0%nat by lia. reflexivity.
  - intros i j bi pj n a b Hi Hj Hid Hn Ha Hb.
    assert (edge xtemp xeqb am a b) as E by (apply EDG; exists i, j, bi, pj, n; auto 10).
    rewrite (P1 a b E). destruct (xtpos_var_temp n i a Ha) as (VT & NF & _). apply AG; auto.
  - exact PERM.
  - intros i b Hin. split; [apply ORD; exact Hin|].
    assert (exists t, xtpos Fst i = Ok t) as (t & Ht).
    { clear -F2 Hin. induction F2 as [|x o order' ops' (t & Ht & _) _ IHF]; [destruct Hin|].
      destruct Hin as [->|Hin]; [exists t; exact Ht|auto]. }
    exists t. split; [exact Ht|]. destruct (PTR i b t (ORD i b Hin) (OBJ i b Hin) Ht) as (p & Hp & _).
    unfold ptr, ptr_of. rewrite Ht, Hp. reflexivity.
  - destruct SF as (_ & _ & _ & _ & _). destruct (xeqb_spec (XR FREE) (XR FREE)) as [_|N]; [|congruence].
    rewrite <- X2. change (rget s2 FREE) with (lget s2 sp (XR FREE)). change (rget s1 FREE) with (lget s1 sp (XR FREE)).
    apply P2.
    + unfold var_temp; cbn [loc_ok]. change FREE with 3%N. change TEMP with 1%N. repeat split; congruence.
    + intros a E. assert (In (XR FREE) (all_targets xtemp am)) as Hin by (eapply edge_all_targets; eauto).
      destruct (VTam (XR FREE) (or_intror Hin)) as [_ N]. congruence.
  - destruct SF as (SH & _). rewrite SH, X3. clear -F2.
    (* the fold over the emitted operations = the fold over the variables *)
    generalize (heap s, f). induction F2 as [|[i b] o order' ops' (t & Ht & ->) _ IHF]; intros hf; [reflexivity|].
    cbn [List.concat fold_left fst snd]. rewrite fold_left_app, <- IHF. f_equal.
    cbn [fst] in Ht. unfold ptr. rewrite Ht. destruct (count_targets re b) as [|[|k]]; cbn [rc_op_for fold_left rc_h count_h]; auto.
  - intros u VT NF NEW. rewrite <- (AG u VT NF). apply P2; auto.
    intros a E. apply EDG in E as (i & j & bi & pj & n & _ & Hj & _ & _ & _ & Hb).
    specialize (NEW j n Hb). assert (j < List.length re)%nat by (apply nth_error_Some; congruence). lia.
  - change (rget s2 HEAP) with (lget s2 sp (XR HEAP)). change (rget s HEAP) with (lget s sp (XR HEAP)).
    assert (VH : var_temp (XR HEAP)) by (unfold var_temp; cbn [loc_ok]; change HEAP with 2%N; change TEMP with 1%N; repeat split; congruence).
    assert (NH : XR HEAP <> XR FREE) by (change HEAP with 2%N; change FREE with 3%N; congruence).
    rewrite <- (AG _ VH NH). apply P2; auto.
    intros a E. assert (In (XR HEAP) (all_targets xtemp am)) as Hin by (eapply edge_all_targets; eauto).
    apply EDG in E as (i & j & bi & pj & n & _ & _ & _ & _ & _ & Hb). destruct (xtpos_var_temp n j _ Hb) as (_ & _ & N). congruence.
  - exact F2'.
  - destruct SF as (_ & SO & _). congruence.
  - destruct SF as (_ & _ & _ & _ & SK). intros k Hk. rewrite (SK k Hk). now rewrite X5.
Qed.
