(* The two reference-count operations of memory.rs (share_block_n, erase_block) on the ISA semantics:
   the code the model emits, sitting in an image with its labels, runs from its first to just past
   its last instruction and has the pure heap-level effect share_h / erase_h of Proof/X86Exec.v. *)
From Coq Require Import List ZArith NArith String Bool Lia FMapPositive.
From SCC Require Import Base.Sexp Lang.AxSyn Sem.AxSem Model.Backend Model.X86 Sem.X86Sem Generated.Constants
     Proof.X86State Proof.X86Sel Proof.X86Exec.
Import ListNotations.
Open Scope Z_scope.

(* ---------- small facts ---------- *)
Lemma block_ok_nz p : block_ok p -> (p =? 0) = false.
Proof. intros (_ & H). apply Z.eqb_neq. intros ->. vm_compute in H. discriminate. Qed.

Lemma TEMP_ne_FREE : TEMP <> FREE. Proof. vm_compute. congruence. Qed.
Lemma TEMP_ne_0 : TEMP <> 0%N. Proof. vm_compute. congruence. Qed.

Lemma rget_set_heap s a v r : rget (set_heap s a v) r = rget s r. Proof. reflexivity. Qed.

Lemma block_not_stack p : block_ok p -> in_stack p = false.
Proof.
  intros (_ & H). unfold in_heap, in_stack, STACK_LIMIT, STACK_TOP, HEAP_BASE, HEAP_SIZE in *.
  apply andb_true_iff in H as [H1 H2]. apply Z.leb_le in H1, H2.
  apply andb_false_iff. left. apply Z.leb_gt. lia.
Qed.

(* ---------- single steps on a heap block ---------- *)
Section HeapSteps.
Variable im : image.

Lemma step_ADDIM_heap s r p j :
  rget s r = Some p -> block_ok p -> fits32 j = true ->
  step im (ADDIM r REFERENCE_COUNT_OFFSET j) s =
    Next (set_flags (set_heap s p (wrap (hget (heap s) p + j))) None).
Proof.
  intros R B Fj. cbn [step]. rewrite Fj. unfold ea, need. rewrite R.
  change REFERENCE_COUNT_OFFSET with 0. rewrite Z.add_0_r. cbv zeta. rewrite (block_not_stack p) by assumption. unfold withm.
  rewrite mload_heap by exact B. cbv beta iota. rewrite mstore_heap by exact B. reflexivity.
Qed.

Lemma step_CMPIM_heap s r p :
  rget s r = Some p -> block_ok p ->
  step im (CMPIM r REFERENCE_COUNT_OFFSET 0) s = Next (set_flags s (Some (hget (heap s) p, 0))).
Proof.
  intros R B. cbn [step]. change (fits32 0) with true. cbv iota. unfold ea, need. rewrite R.
  change REFERENCE_COUNT_OFFSET with 0. rewrite Z.add_0_r. cbv zeta. rewrite (block_not_stack p) by assumption. unfold withm.
  rewrite mload_heap by exact B. reflexivity.
Qed.

Lemma step_MOVS_heap s a r p f :
  rget s r = Some p -> block_ok p -> rget s a = Some f ->
  step im (MOVS a r NEXT_ELEMENT_OFFSET) s = Next (set_heap s p f).
Proof.
  intros R B A. cbn [step]. unfold ea, need. rewrite R.
  change NEXT_ELEMENT_OFFSET with 0. rewrite Z.add_0_r. cbv zeta. rewrite (block_not_stack p) by assumption. unfold withm.
  rewrite A. rewrite mstore_heap by exact B. reflexivity.
Qed.

Lemma step_JEL_taken s l x y i :
  flags s = Some (x, y) -> x = y -> find_label (labels im) l = Some i ->
  step im (JEL l) s = Jump s i.
Proof.
  intros H E HL. cbn [step]. unfold cond_jump, goto_label. rewrite H. cbn [eval_cmp].
  subst y. rewrite Z.eqb_refl, HL. reflexivity.
Qed.

Lemma step_JEL_not s l x y :
  flags s = Some (x, y) -> x <> y -> step im (JEL l) s = Next s.
Proof.
  intros H E. cbn [step]. unfold cond_jump. rewrite H. cbn [eval_cmp].
  apply Z.eqb_neq in E. rewrite E. reflexivity.
Qed.

Lemma step_JMPL s l i : find_label (labels im) l = Some i -> step im (JMPL l) s = Jump s i.
Proof. intros HL. cbn [step]. unfold goto_label. rewrite HL. reflexivity. Qed.
End HeapSteps.

(* ---------- skip_if_zero ---------- *)
Lemma skip_if_zero_shape t body lc :
  exists c0 l,
    fst (skip_if_zero t body lc) = (c0 :: JEL l :: body ++ [LAB l])%list /\
    forall im s sp a, frame_ok s sp -> loc_ok t -> lget s sp t = Some a ->
                      step im c0 s = Next (set_flags s (Some (a, 0))).
Proof.
  destruct t as [r|q]; eexists; eexists; (split; [reflexivity|]); intros im s sp a F T A;
    pose proof (x86_compare_zero_ok im s sp _ a F T A) as H; cbn [compare_immediate exec_straight] in H.
  - destruct (step im (CMPI r 0) s); try discriminate. injection H as ->. reflexivity.
  - destruct (step im (CMPIM STACK (stack_offset q) 0) s); try discriminate. injection H as ->. reflexivity.
Qed.

Lemma skip_if_zero_parts im pc t body lc :
  let code := fst (skip_if_zero t body lc) in
  code_at im pc code -> labels_at im pc code ->
  code_at im (padd pc 2) body /\ labels_at im (padd pc 2) body.
Proof.
  intros code C L. subst code. destruct (skip_if_zero_shape t body lc) as (c0 & l & E & _). rewrite E in *.
  change (c0 :: JEL l :: body ++ [LAB l])%list with (([c0; JEL l] ++ body) ++ [LAB l])%list in *.
  apply code_at_app in C as [C _]. apply code_at_app in C as [_ C].
  apply labels_at_app in L as [L _]. apply labels_at_app in L as [_ L].
  split; [exact C | exact L].
Qed.

Lemma skip_if_zero_len t body lc :
  List.length (fst (skip_if_zero t body lc)) = S (S (S (List.length body))).
Proof.
  destruct (skip_if_zero_shape t body lc) as (c0 & l & E & _). rewrite E.
  cbn [List.length]. rewrite app_length. cbn [List.length]. lia.
Qed.

(* the facts about the frame of a skip_if_zero: compare, jump, label *)
Lemma skip_if_zero_frame im pc t body lc :
  code_at im pc (fst (skip_if_zero t body lc)) -> labels_at im pc (fst (skip_if_zero t body lc)) ->
  exists c0 l,
    PM.find pc (code im) = Some c0 /\
    PM.find (Pos.succ pc) (code im) = Some (JEL l) /\
    PM.find (padd pc (2 + List.length body)) (code im) = Some (LAB l) /\
    find_label (labels im) l = Some (padd pc (2 + List.length body)) /\
    forall s sp a, frame_ok s sp -> loc_ok t -> lget s sp t = Some a ->
                   step im c0 s = Next (set_flags s (Some (a, 0))).
Proof.
  intros C L. destruct (skip_if_zero_shape t body lc) as (c0 & l & E & St). rewrite E in *.
  exists c0, l.
  pose proof C as C'. apply code_at_cons in C' as [C0 C']. apply code_at_cons in C' as [C1 _].
  change (c0 :: JEL l :: body ++ [LAB l])%list with ((c0 :: JEL l :: body) ++ [LAB l])%list in *.
  apply code_at_app in C as [_ C]. apply labels_at_app in L as [_ L].
  cbn [List.length] in C, L.
  repeat split; auto.
  - apply (C 0%nat). reflexivity.
  - apply (L 0%nat). reflexivity.
  - intros; eapply St; eauto.
Qed.

Lemma skip_if_zero_zero im pc s sp t body lc :
  let code := fst (skip_if_zero t body lc) in
  code_at im pc code -> labels_at im pc code ->
  frame_ok s sp -> loc_ok t -> lget s sp t = Some 0 ->
  exec_to im pc s (padd pc (List.length code)) (set_flags s (Some (0, 0))).
Proof.
  intros code C L F T A. subst code.
  destruct (skip_if_zero_frame im pc t body lc C L) as (c0 & l & C0 & C1 & C2 & LL & St).
  rewrite skip_if_zero_len.
  eapply exec_next; [exact C0 | apply (St s sp 0 F T A) |].
  eapply exec_jump; [exact C1 | apply (step_JEL_taken im _ l 0 0); [reflexivity | reflexivity | exact LL] |].
  eapply exec_next; [exact C2 | reflexivity |].
  rewrite <- padd_succ. apply exec_refl.
Qed.

Lemma skip_if_zero_nz im pc s sp t body lc a s2 :
  let code := fst (skip_if_zero t body lc) in
  code_at im pc code -> labels_at im pc code ->
  frame_ok s sp -> loc_ok t -> lget s sp t = Some a -> a <> 0 ->
  exec_to im (padd pc 2) (set_flags s (Some (a, 0))) (padd pc (2 + List.length body)) s2 ->
  exec_to im pc s (padd pc (List.length code)) s2.
Proof.
  intros code C L F T A NZ EB. subst code.
  destruct (skip_if_zero_frame im pc t body lc C L) as (c0 & l & C0 & C1 & C2 & LL & St).
  rewrite skip_if_zero_len.
  eapply exec_next; [exact C0 | apply (St s sp a F T A) |].
  eapply exec_next; [exact C1 | apply (step_JEL_not im _ l a 0); [reflexivity | exact NZ] |].
  eapply exec_to_trans; [exact EB|].
  eapply exec_next; [exact C2 | reflexivity |].
  rewrite <- padd_succ. apply exec_refl.
Qed.

(* ---------- erase_valid_object: the pointer is a valid block, held in a register ---------- *)
Lemma erase_valid_exec im pc s r lc p f :
  let code := fst (erase_valid_object r lc) in
  code_at im pc code -> labels_at im pc code ->
  rget s r = Some p -> block_ok p -> rget s FREE = Some f ->
  exists s' f', exec_to im pc s (padd pc (List.length code)) s' /\
                rget s' FREE = Some f' /\
                (heap s', f') = erase_h p (heap s, f) /\
                (forall r', r' <> FREE -> rget s' r' = rget s r') /\
                stack s' = stack s /\ out s' = out s.
Proof.
  intros code C L R B Fr. subst code.
  unfold erase_valid_object, if_zero_then_else in *. cbn [fst app] in *.
  pose proof (C 0%nat _ eq_refl) as C0. pose proof (C 1%nat _ eq_refl) as C1.
  pose proof (C 2%nat _ eq_refl) as C2. pose proof (C 3%nat _ eq_refl) as C3.
  pose proof (C 4%nat _ eq_refl) as C4. pose proof (C 5%nat _ eq_refl) as C5.
  pose proof (C 6%nat _ eq_refl) as C6. pose proof (C 7%nat _ eq_refl) as C7.
  pose proof (L 4%nat _ eq_refl) as L1. pose proof (L 7%nat _ eq_refl) as L2.
  clear C L. cbn [padd List.length] in *.
  unfold erase_h. cbn [fst snd]. rewrite (block_ok_nz p B).
  destruct (Z.eqb_spec (hget (heap s) p) 0) as [E|NE].
  - (* count zero: push on the free list *)
    eexists. exists p. split.
    { eapply exec_next; [exact C0 | apply (step_CMPIM_heap im s r p R B) |].
      eapply exec_jump; [exact C1 | apply (step_JEL_taken im _ _ (hget (heap s) p) 0); [reflexivity | exact E | exact L1] |].
      eapply exec_next; [exact C4 | reflexivity |].
      eapply exec_next; [exact C5 | apply (step_MOVS_heap im _ FREE r p f); [exact R | exact B | exact Fr] |].
      eapply exec_next; [exact C6 | reflexivity |].
      eapply exec_next; [exact C7 | reflexivity |].
      apply exec_refl. }
    split; [rewrite rget_rset_same; exact R|].
    split; [reflexivity|].
    split; [intros r' N; rewrite rget_rset_other by congruence; reflexivity|].
    split; reflexivity.
  - (* count non-zero: decrement *)
    eexists. exists f. split.
    { eapply exec_next; [exact C0 | apply (step_CMPIM_heap im s r p R B) |].
      eapply exec_next; [exact C1 | apply (step_JEL_not im _ _ (hget (heap s) p) 0); [reflexivity | exact NE] |].
      eapply exec_next; [exact C2 | apply (step_ADDIM_heap im _ r p (-1)); [exact R | exact B | reflexivity] |].
      eapply exec_jump; [exact C3 | apply step_JMPL; exact L2 |].
      eapply exec_next; [exact C7 | reflexivity |].
      apply exec_refl. }
    split; [exact Fr|].
    split; [reflexivity|].
    split; [intros r' N; reflexivity|].
    split; reflexivity.
Qed.

(* erase_block with the pointer in a register *)
Lemma x86_erase_reg im pc s sp r lc p f :
  let code := fst (skip_if_zero (XR r) (fst (erase_valid_object r lc)) (snd (erase_valid_object r lc))) in
  code_at im pc code -> labels_at im pc code ->
  frame_ok s sp -> r <> 0%N ->
  rget s r = Some p -> (p = 0 \/ block_ok p) ->
  rget s FREE = Some f ->
  exists s' f', exec_to im pc s (padd pc (List.length code)) s' /\
             rget s' FREE = Some f' /\
             (heap s', f') = erase_h p (heap s, f) /\
             (forall r', r' <> FREE -> rget s' r' = rget s r') /\
             stack s' = stack s /\ out s' = out s.
Proof.
  intros code C L F T G PB Fr. subst code.
  destruct (Z.eqb_spec p 0) as [Z|NZ].
  - subst p. exists (set_flags s (Some (0, 0))), f.
    split; [apply (skip_if_zero_zero im pc s sp (XR r)); auto|].
    repeat split; auto.
  - destruct PB as [|B]; [contradiction|].
    destruct (skip_if_zero_parts im pc _ _ _ C L) as (Cb & Lb).
    destruct (erase_valid_exec im (padd pc 2) (set_flags s (Some (p, 0))) r lc p f Cb Lb G B Fr)
      as (s2 & f' & E & R2 & H2 & P2 & S2 & O2).
    exists s2, f'. split; [eapply (skip_if_zero_nz im pc s sp (XR r)); eauto|].
    repeat split; auto.
Qed.

Lemma x_erase_block_XR r lc :
  x_erase_block (XR r) lc = skip_if_zero (XR r) (fst (erase_valid_object r lc)) (snd (erase_valid_object r lc)).
Proof. reflexivity. Qed.
Lemma x_erase_block_XS q lc :
  fst (x_erase_block (XS q) lc) =
    (MOVL TEMP STACK (stack_offset q)
       :: fst (skip_if_zero (XR TEMP) (fst (erase_valid_object TEMP lc)) (snd (erase_valid_object TEMP lc))))%list.
Proof. reflexivity. Qed.

(* ---------- the two theorems ---------- *)
(* the meaning of share_block_n on the ISA semantics: for a block pointer living in a register or a spill slot *)
Theorem x86_share_ok im pc s sp t n lc p f :
  let code := fst (x_share_block_n t n lc) in
  code_at im pc code -> labels_at im pc code ->
  frame_ok s sp -> loc_ok t -> t <> XR TEMP ->
  lget s sp t = Some p -> (p = 0 \/ block_ok p) -> fits32 (Z.of_N n) = true ->
  rget s FREE = Some f ->
  exists s', exec_to im pc s (padd pc (List.length code)) s' /\
             (heap s', f) = share_h p (Z.of_N n) (heap s, f) /\
             (forall r, r <> TEMP -> rget s' r = rget s r) /\
             stack s' = stack s /\ out s' = out s.
Proof.
  intros code C L F T NT G PB Fn Fr. subst code.
  destruct (Z.eqb_spec p 0) as [Z|NZ].
  - subst p. exists (set_flags s (Some (0, 0))).
    split; [destruct t; apply (skip_if_zero_zero im pc s sp); auto|].
    repeat split; auto.
  - destruct PB as [|B]; [contradiction|].
    unfold share_h. cbn [fst snd]. rewrite (block_ok_nz p B).
    destruct t as [r|q]; cbn [x_share_block_n lget loc_ok] in *.
    + destruct (skip_if_zero_parts im pc _ _ _ C L) as (Cb & Lb).
      eexists. split.
      { eapply (skip_if_zero_nz im pc s sp (XR r)); eauto.
        eapply exec_next; [apply (Cb 0%nat _ eq_refl) | apply (step_ADDIM_heap im _ r p _); [exact G | exact B | exact Fn] |].
        apply exec_refl. }
      repeat split; auto.
    + destruct (skip_if_zero_parts im pc _ _ _ C L) as (Cb & Lb).
      assert (F0 : frame_ok (set_flags s (Some (p, 0))) sp) by frame.
      eexists. split.
      { eapply (skip_if_zero_nz im pc s sp (XS q)); eauto.
        eapply exec_next; [apply (Cb 0%nat _ eq_refl) | apply (step_MOVL_slot im _ sp F0 TEMP q T) |].
        eapply exec_next; [apply (Cb 1%nat _ eq_refl) | apply (step_ADDIM_heap im _ TEMP p _); [|exact B|exact Fn] |].
        { rewrite rget_rset_same. exact G. }
        apply exec_refl. }
      split; [reflexivity|].
      split; [|split; reflexivity].
      intros r N. rewrite rget_set_flags, rget_set_heap, rget_rset_other by congruence. reflexivity.
Qed.

Theorem x86_erase_ok im pc s sp t lc p f :
  let code := fst (x_erase_block t lc) in
  code_at im pc code -> labels_at im pc code ->
  frame_ok s sp -> loc_ok t -> t <> XR TEMP -> t <> XR FREE ->
  lget s sp t = Some p -> (p = 0 \/ block_ok p) ->
  rget s FREE = Some f ->
  exists s' f', exec_to im pc s (padd pc (List.length code)) s' /\
             rget s' FREE = Some f' /\
             (heap s', f') = erase_h p (heap s, f) /\
             (forall r, r <> TEMP -> r <> FREE -> rget s' r = rget s r) /\
             stack s' = stack s /\ out s' = out s.
Proof.
  intros code C L F T NT NF G PB Fr. subst code.
  destruct t as [r|q]; cbn [lget loc_ok] in *.
  - rewrite x_erase_block_XR in *.
    destruct (x86_erase_reg im pc s sp r lc p f C L F T G PB Fr) as (s' & f' & E & R' & H' & P' & S' & O').
    exists s', f'. repeat split; auto.
  - rewrite x_erase_block_XS in *.
    apply code_at_cons in C as [C0 C].
    change (?c :: ?cs)%list with ([c] ++ cs)%list in L. apply labels_at_app in L as [_ L].
    cbn [List.length padd] in L.
    set (s1 := rset s TEMP (Some p)).
    assert (F1 : frame_ok s1 sp) by (subst s1; frame).
    assert (G1 : rget s1 TEMP = Some p) by (subst s1; apply rget_rset_same).
    assert (Fr1 : rget s1 FREE = Some f).
    { subst s1. rewrite rget_rset_other by exact TEMP_ne_FREE. exact Fr. }
    destruct (x86_erase_reg im (Pos.succ pc) s1 sp TEMP lc p f C L F1 TEMP_ne_0 G1 PB Fr1)
      as (s' & f' & E & R' & H' & P' & S' & O').
    exists s', f'. split.
    { eapply exec_next; [exact C0 | |exact E].
      rewrite (step_MOVL_slot im s sp F TEMP q T), G. reflexivity. }
    split; [exact R'|]. split; [exact H'|].
    split; [|split; assumption].
    intros r N1 N2. rewrite P' by exact N2. subst s1. apply rget_rset_other. congruence.
Qed.

Print Assumptions x86_share_ok.
Print Assumptions x86_erase_ok.
