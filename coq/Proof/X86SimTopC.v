(* C06, forward simulation, part 9: the program-level theorem for the closure fragment (integers and closures
   without captured variables). *)
From Coq Require Import List ZArith NArith String Bool Lia FMapPositive.
From SCC Require Import Base.Sexp Lang.AxSyn Sem.AxSem Model.ParMoves Model.Backend Model.X86 Sem.X86Sem Sem.X86Wf
     Model.Linearize Model.LinCheck Generated.Constants Proof.LinBasics
     Proof.X86State Proof.X86Sel Proof.X86Exec Proof.X86ParMoves Proof.SubstGraph Proof.X86Subst
     Proof.X86SimRel Proof.X86SimStmt Proof.X86SimPrint Proof.X86SimAddr Proof.X86SimClo Proof.X86SimProg Proof.X86SimProgC Proof.X86SimTop.
Import ListNotations.
Open Scope Z_scope.
Open Scope list_scope.
(* names that lived in this file before they moved to Proof/SimFrag.v (kept for qualified uses) *)
Notation entry_int := SimFrag.entry_int (only parsing).

(* entry_int: Proof/SimFrag.v *)

Lemma asm_wf_enc cs : asm_wf cs = None -> forall c, In c cs -> instr_wf c = true.
Proof.
  unfold asm_wf. intros H c Hc.
  destruct (first_dup (defined_labels cs)); [discriminate|].
  destruct (find _ (flat_map referenced cs)); [discriminate|].
  destruct (find _ (calls cs)); [discriminate|].
  destruct (find _ (externs cs)); [discriminate|].
  destruct (find (fun c => negb (instr_wf c)) cs) eqn:F; [discriminate|].
  pose proof (find_none _ _ F c Hc) as N. cbn beta in N. destruct (instr_wf c); [reflexivity|discriminate].
Qed.

Theorem x86_codegen_simulates_cf p lc cs n lc' args fuel o :
  cf_frag p = true -> entry_int p = true -> plain_names p = true -> plain_types p = true -> lin_check_prog p = true ->
  x86_compile p lc = Ok (cs, n, lc') -> asm_wf cs = None -> code_small cs = true ->
  List.length args = n ->
  run_linear fuel p args = o -> snd o <> OOutOfFuel ->
  exists outer inner, fst (run_x86 outer inner cs args) = o.
Proof.
  intros INT EI PL PLTY LIN XC WF SM.
  unfold x86_compile, x86_compile_with in XC.
  destruct (compile x86_backend p lc) as [[[is n0] lc0]|] eqn:CP; cbn [rbind] in XC; [|discriminate].
  destruct (into_x86_64_routine is n0) as [r|] eqn:RT; cbn [rbind] in XC; [|discriminate].
  inversion XC; subst r n0 lc0; clear XC.
  unfold compile in CP. destruct (pdefs p) as [|d0 rest] eqn:PD; [discriminate|].
  destruct (translate x86_backend (ptypes p) (d0 :: rest) lc) as [[is' lc1]|] eqn:TR; cbn [rbind] in CP; [|discriminate].
  cbn in CP. inversion CP; subst is n lc'; clear CP.
  unfold into_x86_64_routine in RT. destruct (setup (List.length (dctx d0))) as [su|] eqn:SU; cbn [rbind] in RT; [|discriminate].
  inversion RT; subst cs; clear RT.
  intros NARGS RUN G.
  unfold run_linear in RUN. rewrite PD in RUN.
  assert (LEN : List.length args = List.length (dctx d0)) by exact NARGS.
  destruct (bind_total (vars (dctx d0)) (map VInt args)) as (e0 & EE); [unfold vars; rewrite !map_length; auto|].
  unfold entry_env in RUN. rewrite EE in RUN.
  assert (LE5 : (List.length args <= 5)%nat).
  { rewrite LEN. destruct (List.length (dctx d0)) as [|[|[|[|[|[|k]]]]]] eqn:K; try lia.
    exfalso. unfold setup in SU. cbn [move_arguments Nat.ltb Nat.leb] in SU. discriminate. }
  set (cs := preamble ++ su ++ is' ++ cleanup) in *.
  set (im := mk_image cs).
  destruct (mk_image_layout cs WF) as [CA LA]. fold im in CA, LA.
  (* static facts about every definition *)
  assert (LINd : forall d, In d (pdefs p) -> lin_check (sigs_of p) (dctx d) (dbody d) = true).
  { unfold lin_check_prog in LIN. rewrite forallb_forall in LIN. exact LIN. }
  assert (INTd : forall d, In d (pdefs p) -> stmt_cf (dbody d) = true).
  { unfold cf_frag in INT. rewrite forallb_forall in INT. intros d Hd. specialize (INT d Hd). unfold def_cf in INT.
    apply andb_true_iff in INT. tauto. }
  assert (IMG : img_ok im) by apply mk_image_ok.
  assert (SMALL : forall pc a, PM.find pc (addr_of im) = Some a -> a < 4611686018427387904) by (apply mk_image_small; exact SM).
  assert (ENC : forall pc c, PM.find pc (code im) = Some c -> instr_wf c = true).
  { intros pc c Hc. apply mk_image_code_in in Hc. apply (asm_wf_enc cs WF c Hc). }
  assert (PLT : forall d, In d (ptypes p) -> is_hash_label (label_of_type_name (show_ident (tname d))) = false).
  { unfold plain_types in PLTY. rewrite forallb_forall in PLTY. intros d Hd. specialize (PLTY d Hd).
    destruct (is_hash_label _); [discriminate|reflexivity]. }
  assert (DEFS : forall d, In d (pdefs p) ->
    exists pcd lcd cd lcd', find_label (labels im) (show_ident (dname d) +++ "_") = Some pcd /\
      PM.find pcd (code im) = Some (LAB (show_ident (dname d) +++ "_")) /\
      xcs (ptypes p) (dbody d) (dctx d) lcd = Ok (cd, lcd') /\
      code_at im (Pos.succ pcd) cd /\ labels_at_nh im (Pos.succ pcd) cd).
  { intros d Hd. rewrite PD in Hd.
    destruct (translate_defs (ptypes p) _ _ _ _ TR d Hd) as (pre & lcd & cd & lcd' & post & EQ & CD).
    assert (NH : is_hash_label (show_ident (dname d) +++ "_") = false).
    { unfold plain_names in PL. rewrite forallb_forall in PL. rewrite <- PD in Hd. specialize (PL d Hd).
      destruct (is_hash_label (show_ident (dname d) +++ "_")) eqn:E; auto.
      apply is_hash_app_ in E. rewrite E in PL. discriminate. }
    destruct (layout_at im cs (preamble ++ su ++ pre) (LAB (show_ident (dname d) +++ "_") :: cd) (post ++ cleanup) CA LA)
      as [CAd LAd].
    { unfold cs. rewrite EQ. rewrite <- !app_assoc. cbn [app]. rewrite <- !app_assoc. reflexivity. }
    exists (padd 1%positive (List.length (preamble ++ su ++ pre))), lcd, cd, lcd'.
    apply code_at_cons in CAd as [C0 C1].
    change (LAB (show_ident (dname d) +++ "_") :: cd) with ([LAB (show_ident (dname d) +++ "_")] ++ cd) in LAd.
    pose proof LAd as LAd'. apply labels_at_nh_app in LAd' as [_ L1]. cbn [List.length padd] in L1.
    split; [exact (LAd O _ eq_refl NH)|]. split; [exact C0|]. split; [exact CD|]. split; [exact C1|exact L1]. }
  assert (CLEAN : exists pcc, find_label (labels im) "cleanup" = Some pcc /\ code_at im pcc cleanup).
  { destruct (layout_at im cs (preamble ++ su ++ is') cleanup [] CA LA) as [CAc LAc].
    { unfold cs. rewrite app_nil_r, <- !app_assoc. reflexivity. }
    exists (padd 1%positive (List.length (preamble ++ su ++ is'))). split; [|exact CAc].
    exact (LAc O "cleanup"%string eq_refl eq_refl). }
  (* the run *)
  assert (FIN : finishes im 6%positive (init_state args) o).
  { destruct (layout_at im cs [NOEXECSTACK; TEXT; EXTERN "print_i64"; EXTERN "println_i64"; GLOBAL "asm_main"]
                [LAB "asm_main"] (su ++ is' ++ cleanup) CA LA eq_refl) as [CA0 _].
    destruct (layout_at im cs preamble su (is' ++ cleanup) CA LA eq_refl) as [CA1 _].
    cbn [List.length padd preamble] in CA0, CA1.
    rewrite <- LEN in SU. destruct (prologue_ok im args su SU) as (s1 & E1 & F1 & OK1 & O1 & FR1 & RG1).
    (* the entry definition follows the prologue *)
    cbn [translate] in TR.
    destruct (xcs (ptypes p) (dbody d0) (dctx d0) lc) as [[c0 lc0]|] eqn:C0; cbn [rbind] in TR; [|discriminate].
    destruct (translate x86_backend (ptypes p) rest lc0) as [[c2 lc2]|] eqn:TR2; cbn [rbind] in TR; [|discriminate].
    cbn in TR. inversion TR; subst is' lc1; clear TR.
    destruct (layout_at im cs (preamble ++ su) (LAB (show_ident (dname d0) +++ "_") :: c0) (c2 ++ cleanup) CA LA) as [CAe LAe].
    { unfold cs. rewrite <- !app_assoc. cbn [app]. rewrite <- !app_assoc. reflexivity. }
    apply code_at_cons in CAe as [CL CAe].
    change (LAB (show_ident (dname d0) +++ "_") :: c0) with ([LAB (show_ident (dname d0) +++ "_")] ++ c0) in LAe.
    apply labels_at_nh_app in LAe as [_ LAe]. cbn [List.length padd] in LAe.
    assert (D0 : In d0 (pdefs p)) by (rewrite PD; now left).
    rewrite app_length in CL. cbn [List.length preamble] in CL. rewrite padd_add in CL. cbn [padd] in CL.
    eapply exec_to_finishes.
    { eapply exec_next; [apply (CA0 O _ eq_refl)|reflexivity|].
      eapply exec_to_trans; [apply (exec_straight_exec_to im su _ _ s1 CA1 E1)|].
      eapply exec_next; [exact CL|reflexivity|apply exec_refl]. }
    subst o.
    pose proof (INTd d0 D0) as I2.
    assert (I1 : ctx_int (dctx d0) = true) by (unfold entry_int in EI; rewrite PD in EI; exact EI).
    assert (R0 : rel (clo_ok im p) (dctx d0) e0 s1 sp0).
    { eapply entry_rel; eauto. eapply lin_nodup. exact (LINd d0 D0). }
    rewrite app_length in CAe, LAe. cbn [List.length preamble] in CAe, LAe. rewrite padd_add in CAe, LAe. cbn [padd] in CAe, LAe.
    eapply (sim_exec_cf im p sp0 IMG SMALL ENC PLT DEFS CLEAN) with (c := dctx d0) (lc := lc); eauto. }
  destruct (finishes_run im _ _ _ FIN) as (outer & inner & RN).
  exists outer, inner. unfold run_x86. cbv zeta. change (mk_image _) with im.
  assert (AM : find_label (labels im) "asm_main" = Some 6%positive).
  { exact (LA 5%nat "asm_main"%string eq_refl eq_refl). }
  rewrite AM. destruct (Nat.ltb_spec 5 (List.length args)); [lia|]. exact RN.
Qed.


(* for runs that end with a result (then the argument count is right) *)
Corollary x86_codegen_correct_cf p lc cs n lc' args fuel o :
  cf_frag p = true -> entry_int p = true -> plain_names p = true -> plain_types p = true -> lin_check_prog p = true ->
  asm_wf cs = None -> code_small cs = true ->
  x86_compile p lc = Ok (cs, n, lc') ->
  run_linear fuel p args = o -> defined o = true ->
  exists outer inner, fst (run_x86 outer inner cs args) = o.
Proof.
  intros CF EI PL PLT LIN WF SM XC RUN D.
  assert (G : good o) by (left; unfold defined in D; destruct (snd o); try discriminate; eauto).
  eapply x86_codegen_simulates_cf; eauto; [|apply good_not_oof; exact G].
  unfold x86_compile, x86_compile_with in XC.
  destruct (compile x86_backend p lc) as [[[is n0] lc0]|] eqn:CP; cbn [rbind] in XC; [|discriminate].
  destruct (into_x86_64_routine is n0) as [r|] eqn:RT; cbn [rbind] in XC; [|discriminate].
  inversion XC; subst r n0 lc0; clear XC.
  unfold compile in CP. unfold run_linear in RUN. destruct (pdefs p) as [|d0 rest] eqn:PD; [discriminate|].
  destruct (translate x86_backend (ptypes p) (d0 :: rest) lc) as [[is' lc1]|] eqn:TR; cbn [rbind] in CP; [|discriminate].
  cbn in CP. inversion CP; subst is n lc'; clear CP.
  destruct (entry_env d0 args) as [e0|] eqn:EE; [|subst o; exfalso; destruct G as [(z & H)|(z & H)]; discriminate].
  unfold entry_env in EE. apply bind_length in EE. unfold vars in EE. rewrite !map_length in EE. auto.
Qed.
