(* Proof/ShrinkOld.v (C12, fragment 2) - shrinking never duplicates a binder of the input: for every
   id x <= max_id of the input, x occurs among the binders of the output statement and of the bodies of
   the definitions lifted out of it at most as often as among the binders of the input statement.
   (Companion of the freshness count of Proof/ShrinkProof.v, which covers the ids > max_id.)
   With globally distinct binders in the input this gives LinCheck's binder condition (binders_ok). *)
From Coq Require Import List ZArith NArith String Bool Lia.
From SCC Require Import Base.Sexp Lang.SynUtil Lang.CoreSyn Lang.AxSyn Sem.FsCheck Model.Shrink Proof.ShrinkProof Proof.ShrinkSimEta.
Import ListNotations.
Open Scope list_scope.

Section Old.
Variable m0 : N.

Definition opost (st : sst) (r : stmt) (st' : sst) (s : fsstmt) : Prop :=
  (s_max st <= s_max st')%N /\
  exists nd, s_lifted st' = nd ++ s_lifted st /\
             forall x, (x <= m0)%N -> cnt (binders r ++ lifted_binders nd) x <= cnt (cbinders s) x.

Ltac csimp := repeat (rewrite ?cnt_app, ?cnt_cons, ?cnt_nil in * ).
Ltac ocnt :=
  let x := fresh "x" in let Hx := fresh "Hx" in
  intros x Hx;
  repeat match goal with H : forall y, (y <= m0)%N -> _ |- _ => specialize (H x Hx) end;
  csimp; simpl in *;
  repeat (match goal with
          | |- context [if N.eq_dec ?a ?b then _ else _] => destruct (N.eq_dec a b)
          | H : context [if N.eq_dec ?a ?b then _ else _] |- _ => destruct (N.eq_dec a b)
          end);
  try lia.

Lemma cnt_notin : forall l x, ~ In x l -> cnt l x = 0.
Proof. intros l x H. unfold cnt. now apply count_occ_not_In. Qed.
Lemma ids_vars' : forall c, ids c = map idn (vars c).
Proof. intros. unfold ids, vars. now rewrite map_map. Qed.
Lemma fresh_env_old : forall bs st env st1, fresh_env bs st = (env, st1) -> (m0 <= s_max st)%N ->
  forall x, (x <= m0)%N -> cnt (ids env) x = 0.
Proof.
  intros bs st env st1 H Hm x Hx. apply cnt_notin. intros Hin. apply fresh_env_shape in H as (_ & _ & _ & Hr & _).
  rewrite ids_vars' in Hin. apply in_map_iff in Hin as (y & <- & Hy). apply Hr in Hy. lia.
Qed.
Lemma unknown_clauses_old : forall codata ve tty xs st cls st',
  unknown_clauses codata ve tty xs st = (cls, st') -> (m0 <= s_max st)%N ->
  forall x, (x <= m0)%N -> cnt (cls_binders cls) x = 0.
Proof.
  induction xs as [|[xt args] r IH]; intros st cls st' H Hm x Hx; simpl in H.
  - inv H. reflexivity.
  - destruct (fresh_env _ st) as [env st1] eqn:He. destruct (unknown_clauses _ _ _ r st1) as [r' st2] eqn:Hr. inv H.
    pose proof (fresh_env_shape _ _ _ _ He) as (_ & Hm1 & _).
    rewrite cls_binders_cons. cbn [fst snd binders app]. rewrite cnt_app.
    rewrite (fresh_env_old _ _ _ _ He Hm x Hx), (IH _ _ _ Hr ltac:(lia) x Hx). reflexivity.
Qed.
Lemma critical_clauses_old_nil : forall codata ve tty se xs st cls st',
  critical_clauses codata ve tty se xs st = (cls, st') -> (m0 <= s_max st)%N -> binders se = [] ->
  forall x, (x <= m0)%N -> cnt (cls_binders cls) x = 0.
Proof.
  induction xs as [|[xt args] r IH]; intros st cls st' H Hm Hse x Hx; simpl in H.
  - inv H. reflexivity.
  - destruct (fresh_env _ st) as [env st1] eqn:He. destruct (critical_clauses _ _ _ _ r _) as [r' st2] eqn:Hr. inv H.
    pose proof (fresh_env_shape _ _ _ _ He) as (_ & Hm1 & _).
    rewrite cls_binders_cons. cbn [fst snd]. cbn [binders]. rewrite binders_ax_subst, Hse. rewrite !cnt_app, cnt_cons, cnt_nil.
    rewrite (fresh_env_old _ _ _ _ He Hm x Hx), (IH _ _ _ Hr ltac:(cbn [s_max]; lia) Hse x Hx).
    unfold idn. cbn [snd shrink_identifier]. destruct (N.eq_dec (N.succ (s_max st1)) x); [lia | reflexivity].
Qed.
Lemma critical_clauses_old_one : forall codata ve tty se xs st cls st',
  critical_clauses codata ve tty se xs st = (cls, st') -> (m0 <= s_max st)%N -> List.length xs <= 1 ->
  forall x, (x <= m0)%N -> cnt (cls_binders cls) x <= cnt (binders se) x.
Proof.
  intros codata ve tty se xs st cls st' H Hm Hlen x Hx.
  destruct xs as [|[xt args] [|y r]]; simpl in Hlen; try lia; simpl in H.
  - inv H. cbn. lia.
  - destruct (fresh_env _ st) as [env st1] eqn:He. inv H.
    pose proof (fresh_env_shape _ _ _ _ He) as (_ & Hm1 & _).
    rewrite cls_binders_cons. cbn [fst snd]. cbn [binders]. rewrite binders_ax_subst. rewrite !cnt_app, cnt_cons.
    rewrite (fresh_env_old _ _ _ _ He Hm x Hx). cbn [cls_binders flat_map]. rewrite cnt_nil.
    unfold idn. cbn [snd shrink_identifier]. destruct (N.eq_dec (N.succ (s_max st1)) x); lia.
Qed.

Lemma fresh_params_old : forall fvs m, (m0 <= m)%N -> forall x, (x <= m0)%N -> cnt (cids (fresh_params fvs m)) x = 0.
Proof. intros fvs m Hm x Hx. apply cnt_notin. intros Hin. apply fresh_params_ids in Hin. lia. Qed.
Lemma cnt_clause_le : forall cls cl x, In cl cls -> cnt (cbinders (clause_body cl)) x <= cnt (cbinders_clauses cls) x.
Proof.
  induction cls as [|c r IH]; intros cl x Hin; [contradiction|]. unfold cbinders_clauses. cbn [flat_map]. rewrite !cnt_app.
  destruct Hin as [->|Hin]; [lia|]. specialize (IH cl x Hin). unfold cbinders_clauses in IH. lia.
Qed.

Section Step.
Variable rec : fsstmt -> sst -> shres (stmt * sst).
Variable E : senv.
Hypothesis Hrec : forall s st r st', rec s st = SOk (r, st') -> (m0 <= s_max st)%N -> opost st r st' s.
Hypothesis Hleaf : forall s st r st', rec s st = SOk (r, st') -> is_leaf_statement s = true -> binders r = [].

Lemma shrink_clauses_old : forall cls st r st',
  shrink_clauses rec E cls st = SOk (r, st') -> (m0 <= s_max st)%N ->
  (s_max st <= s_max st')%N /\
  exists nd, s_lifted st' = nd ++ s_lifted st /\
    forall x, (x <= m0)%N -> cnt (cls_binders r ++ lifted_binders nd) x <= cnt (cbinders_clauses cls) x.
Proof.
  induction cls as [|[c x0 ctx b] rr IH]; intros st r st' H Hm; simpl in H.
  - inv H. split; [lia|]. exists []. split; [reflexivity|]. intros x Hx. cbn. lia.
  - destruct (rec b st) as [[b' st1]|] eqn:Hb; [|discriminate]. cbn [sbind] in H.
    destruct (shrink_clauses rec E rr st1) as [[r' st2]|] eqn:Hr; [|discriminate]. cbn [sbind] in H. inv H.
    apply Hrec in Hb as [Hm1 [nd1 [Hl1 Hc1]]]; [|exact Hm].
    apply IH in Hr as [Hm2 [nd2 [Hl2 Hc2]]]; [|lia].
    split; [lia|]. exists (nd2 ++ nd1). split; [rewrite Hl2, Hl1; now rewrite app_assoc|].
    rewrite cls_binders_cons, lifted_binders_app. cbn [fst snd]. rewrite ids_shrink_context.
    unfold cbinders_clauses. cbn [flat_map clause_ctx clause_body]. fold (cbinders_clauses rr). ocnt.
Qed.

Lemma lift_old : forall s st r st', lift rec E s st = SOk (r, st') -> (m0 <= s_max st)%N -> opost st r st' s /\ binders r = [].
Proof.
  intros s st r st' H Hm. apply lift_closed in H.
  destruct H as [_ [_ [_ [_ [label [body [st3 [_ [Hlab [_ [-> [Hb ->]]]]]]]]]]]]. split; [|reflexivity].
  set (fvs := typed_free_vars s) in *.
  apply Hrec in Hb as [Hm3 [nd3 [Hl3 Hc3]]]; [|cbn [s_max]; lia]. rewrite cbinders_subst in Hc3.
  unfold opost. cbn [s_max s_lifted] in *. split; [lia|].
  exists (mkd label (shrink_context (e_codata E) (fresh_params fvs (s_max st))) body :: nd3).
  split; [now rewrite Hl3|].
  cbn [binders app lifted_binders flat_map]. unfold def_binders at 1. cbn [dctx dbody dname]. rewrite ids_shrink_context.
  unfold idn at 1. fold (lifted_binders nd3).
  pose proof (fresh_params_old fvs (s_max st) Hm) as Hp.
  intros x Hx. specialize (Hc3 x Hx). specialize (Hp x Hx). csimp. rewrite Hp.
  destruct (N.eq_dec (snd label) x); [lia|]. lia.
Qed.

Lemma critical_old : forall vp sp vc sc ty st r st',
  shrink_critical_pairs rec E vp sp vc sc ty st = SOk (r, st') -> (m0 <= s_max st)%N ->
  (s_max st <= s_max st')%N /\
  exists nd, s_lifted st' = nd ++ s_lifted st /\
    forall x, (x <= m0)%N -> cnt (binders r ++ lifted_binders nd) x <= cnt (cid_id vp :: cbinders sp ++ cid_id vc :: cbinders sc) x.
Proof.
  intros vp sp vc sc ty st r st' H Hm. unfold shrink_critical_pairs in H. destruct ty as [|n].
  - destruct (rec sc st) as [[body st1]|] eqn:H1; [|discriminate]. cbn [sbind] in H.
    destruct (rec sp st1) as [[next st2]|] eqn:H2; [|discriminate]. cbn [sbind] in H. inv H.
    apply Hrec in H1 as [Hm1 [nd1 [Hl1 Hc1]]]; [|exact Hm].
    apply Hrec in H2 as [Hm2 [nd2 [Hl2 Hc2]]]; [|lia].
    split; [lia|]. exists (nd2 ++ nd1). split; [rewrite Hl2, Hl1; now rewrite app_assoc|].
    rewrite binders_create, lifted_binders_app. unfold cls_binders. cbn [flat_map fst snd ids map bvar app].
    unfold idn, shrink_identifier. cbn [snd]. rewrite app_nil_r. unfold cid_id in *. ocnt.
  - destruct (xtors_of E (CDecl n) n) as [xs|]; [|discriminate]. cbn [sbind] in H.
    assert (Hgen : forall vk sk ve se,
      (dos (shrunk, st1) <- (if Nat.leb (List.length xs) 1 || is_leaf_statement se then rec se st else lift rec E se st);
       let '(clauses, st2) := critical_clauses (e_codata E) ve (shrink_ty (CDecl n)) shrunk xs st1 in
       dos (next, st3) <- rec sk st2;
       SOk (Create (shrink_identifier vk) (Decl (shrink_identifier n)) None clauses next, st3)) = SOk (r, st') ->
      (s_max st <= s_max st')%N /\
      exists nd, s_lifted st' = nd ++ s_lifted st /\
        forall x, (x <= m0)%N -> cnt (binders r ++ lifted_binders nd) x <= cnt (cid_id vk :: cbinders sk ++ cbinders se) x).
    { intros vk sk ve se H0.
      destruct (if _ || _ then _ else _) as [[shrunk st1]|] eqn:He; [|discriminate]. cbn [sbind] in H0.
      destruct (critical_clauses _ _ _ _ _ _) as [cls st2] eqn:Hc.
      destruct (rec sk st2) as [[next st3]|] eqn:Hk; [|discriminate]. cbn [sbind] in H0. inv H0.
      pose proof (critical_clauses_mono _ _ _ _ _ _ _ _ Hc) as [Hm12 Hl12].
      assert (Hcls : (s_max st <= s_max st1)%N /\ exists nd1, s_lifted st1 = nd1 ++ s_lifted st /\
                     forall x, (x <= m0)%N -> cnt (cls_binders cls ++ lifted_binders nd1) x <= cnt (cbinders se) x).
      { destruct (Nat.leb (List.length xs) 1) eqn:Hlen; cbn [orb] in He.
        - apply Hrec in He as [Hm1 [nd1 [Hl1 Hc1]]]; [|exact Hm]. split; [lia|]. exists nd1. split; auto.
          pose proof (critical_clauses_old_one _ _ _ _ _ _ _ _ Hc ltac:(lia) ltac:(now apply Nat.leb_le)) as Hco. ocnt.
        - assert (Hpost : opost st shrunk st1 se /\ binders shrunk = []).
          { destruct (is_leaf_statement se) eqn:Hlf.
            - split; [eapply Hrec; [exact He | exact Hm] | eapply Hleaf; eauto].
            - eapply lift_old; eauto. }
          destruct Hpost as [[Hm1 [nd1 [Hl1 Hc1]]] Hb0]. split; [lia|]. exists nd1. split; auto.
          rewrite Hb0 in Hc1. cbn [app] in Hc1.
          pose proof (critical_clauses_old_nil _ _ _ _ _ _ _ _ Hc ltac:(lia) Hb0) as Hcn. ocnt. }
      destruct Hcls as [Hm1 [nd1 [Hl1 Hc1]]].
      apply Hrec in Hk as [Hm3 [nd3 [Hl3 Hc3]]]; [|lia].
      split; [lia|]. exists (nd3 ++ nd1). split; [rewrite Hl3, Hl12, Hl1; now rewrite app_assoc|].
      rewrite binders_create, lifted_binders_app. unfold idn, shrink_identifier. cbn [snd]. unfold cid_id in *. ocnt. }
    destruct (is_codata (e_codata E) (CDecl n)); cbv beta iota in H.
    + destruct (Hgen vc sc vp sp H) as [A1 (nd & A2 & A3)]. split; [exact A1|]. exists nd. split; [exact A2|]. ocnt.
    + destruct (Hgen vp sp vc sc H) as [A1 (nd & A2 & A3)]. split; [exact A1|]. exists nd. split; [exact A2|]. ocnt.
Qed.

Lemma opost_nobinders : forall st r s, binders r = [] -> opost st r st s.
Proof. intros st r s Hb. split; [lia|]. exists []. split; [reflexivity|]. rewrite Hb. intros x Hx. cbn. lia. Qed.

Lemma onb : forall st r (L : list N), binders r = [] ->
  (s_max st <= s_max st)%N /\ exists nd, s_lifted st = nd ++ s_lifted st /\
    forall x, (x <= m0)%N -> cnt (binders r ++ lifted_binders nd) x <= cnt L x.
Proof. intros st r L Hb. split; [lia|]. exists []. split; [reflexivity|]. rewrite Hb. intros x Hx. cbn. lia. Qed.

Lemma shrink_step_old : forall s st r st', shrink_step rec E s st = SOk (r, st') -> (m0 <= s_max st)%N -> opost st r st' s.
Proof.
  intros s st r st' H Hm. unfold opost. destruct s as [p ty k|so a b t e|nl a nx|f args|v].
  - cbn [shrink_step] in H. unfold shrink_cut in H. cbn [cbinders].
    destruct p as [c1 v1 t1|l1|a1 o1 b1|c1 v1 s1 t1|c1 x1 args1 t1|c1 cls1 t1];
    destruct k as [c2 v2 t2|l2|a2 o2 b2|c2 v2 s2 t2|c2 x2 args2 t2|c2 cls2 t2];
      try discriminate H; rewrite ?cbinders_term_xcase in *; cbn [cbinders_term app].
    + (* XVar, XVar *) unfold shrink_unknown_cuts in H. destruct ty as [|n]; [inv H; now apply onb|].
      destruct (xtors_of E (CDecl n) n) as [xs|]; [|discriminate]. cbn [sbind] in H.
      destruct (is_codata (e_codata E) (CDecl n)); cbv beta iota in H;
        destruct (unknown_clauses _ _ _ _ _) as [cls st1] eqn:Hc; inv H;
        pose proof (unknown_clauses_mono _ _ _ _ _ _ _ Hc) as [Hm1 Hl1];
        pose proof (unknown_clauses_old _ _ _ _ _ _ _ Hc Hm) as Ho;
        (split; [lia|]; exists []; split; [now rewrite Hl1|]; rewrite binders_switch; cbn [lifted_binders flat_map]; rewrite app_nil_r;
         intros x Hx; rewrite (Ho x Hx); lia).
    + (* XVar, Mu *) unfold shrink_renaming in H. apply Hrec in H as [A1 (nd & A2 & A3)]; [|exact Hm]. rewrite cbinders_subst in A3.
      split; [exact A1|]. exists nd. split; [exact A2|]. ocnt.
    + (* XVar, Xtor *) inv H. now apply onb.
    + (* XVar, XCase *)
      destruct (shrink_clauses rec E cls2 st) as [[cls' st1]|] eqn:Hc; [|discriminate]. cbn [sbind] in H. inv H.
      apply shrink_clauses_old in Hc as [Hm1 [nd [Hl Hcn]]]; [|exact Hm].
      split; auto. exists nd. split; auto. intros x Hx. rewrite binders_switch. now apply Hcn.
    + (* Lit, XVar *) unfold fresh_var, fresh_identifier in H. inv H. split; [cbn [s_max]; lia|]. exists []. split; [reflexivity|].
      cbn [binders invoke_ret app lifted_binders flat_map s_max]. unfold idn, shrink_identifier. cbn [snd]. ocnt.
    + (* Lit, Mu *)
      destruct (rec s2 st) as [[nx st1]|] eqn:Hr; [|discriminate]. cbn [sbind] in H. inv H.
      apply Hrec in Hr as [Hm1 [nd [Hl Hcn]]]; [|exact Hm]. split; auto. exists nd. split; auto.
      cbn [binders]. unfold idn, shrink_identifier, cid_id in *. ocnt.
    + (* Op, XVar *) unfold fresh_var, fresh_identifier in H. inv H. split; [cbn [s_max]; lia|]. exists []. split; [reflexivity|].
      cbn [binders invoke_ret app lifted_binders flat_map s_max]. unfold idn, shrink_identifier. cbn [snd]. ocnt.
    + (* Op, Mu *)
      destruct (rec s2 st) as [[nx st1]|] eqn:Hr; [|discriminate]. cbn [sbind] in H. inv H.
      apply Hrec in Hr as [Hm1 [nd [Hl Hcn]]]; [|exact Hm]. split; auto. exists nd. split; auto.
      cbn [binders]. unfold idn, shrink_identifier, cid_id in *. ocnt.
    + (* Mu, XVar *) unfold shrink_renaming in H. apply Hrec in H as [A1 (nd & A2 & A3)]; [|exact Hm]. rewrite cbinders_subst in A3.
      split; [exact A1|]. exists nd. split; [exact A2|]. rewrite app_nil_r. ocnt.
    + (* Mu, Mu *) eapply critical_old; eauto.
    + (* Mu, Xtor *)
      destruct (rec s1 st) as [[nx st1]|] eqn:Hr; [|discriminate]. cbn [sbind] in H. inv H.
      apply Hrec in Hr as [Hm1 [nd [Hl Hcn]]]; [|exact Hm]. split; auto. exists nd. split; auto.
      cbn [binders]. rewrite app_nil_r. unfold idn, shrink_identifier, cid_id in *. ocnt.
    + (* Mu, XCase *)
      destruct (shrink_clauses rec E cls2 st) as [[cls' st1]|] eqn:Hc; [|discriminate]. cbn [sbind] in H.
      destruct (rec s1 st1) as [[nx st2]|] eqn:Hr; [|discriminate]. cbn [sbind] in H. inv H.
      apply shrink_clauses_old in Hc as [Hm1 [nd1 [Hl1 Hc1]]]; [|exact Hm].
      apply Hrec in Hr as [Hm2 [nd2 [Hl2 Hc2]]]; [|lia].
      split; [lia|]. exists (nd2 ++ nd1). split; [rewrite Hl2, Hl1; now rewrite app_assoc|].
      rewrite binders_create, lifted_binders_app. unfold idn, shrink_identifier, cid_id in *. ocnt.
    + (* Xtor, XVar *) inv H. now apply onb.
    + (* Xtor, Mu *)
      destruct (rec s2 st) as [[nx st1]|] eqn:Hr; [|discriminate]. cbn [sbind] in H. inv H.
      apply Hrec in Hr as [Hm1 [nd [Hl Hcn]]]; [|exact Hm]. split; auto. exists nd. split; auto.
      cbn [binders]. unfold idn, shrink_identifier, cid_id in *. ocnt.
    + (* Xtor, XCase *) unfold shrink_known_cuts in H. destruct (find _ cls2) as [cl|] eqn:Hf; [|discriminate]. apply find_some in Hf as [Hin _].
      apply Hrec in H as [A1 (nd & A2 & A3)]; [|exact Hm]. rewrite cbinders_subst in A3.
      split; [exact A1|]. exists nd. split; [exact A2|]. intros x Hx. specialize (A3 x Hx). pose proof (cnt_clause_le _ _ x Hin). lia.
    + (* XCase, XVar *)
      destruct (shrink_clauses rec E cls1 st) as [[cls' st1]|] eqn:Hc; [|discriminate]. cbn [sbind] in H. inv H.
      apply shrink_clauses_old in Hc as [Hm1 [nd [Hl Hcn]]]; [|exact Hm].
      split; auto. exists nd. split; auto. intros x Hx. rewrite binders_switch, app_nil_r. now apply Hcn.
    + (* XCase, Mu *)
      destruct (shrink_clauses rec E cls1 st) as [[cls' st1]|] eqn:Hc; [|discriminate]. cbn [sbind] in H.
      destruct (rec s2 st1) as [[nx st2]|] eqn:Hr; [|discriminate]. cbn [sbind] in H. inv H.
      apply shrink_clauses_old in Hc as [Hm1 [nd1 [Hl1 Hc1]]]; [|exact Hm].
      apply Hrec in Hr as [Hm2 [nd2 [Hl2 Hc2]]]; [|lia].
      split; [lia|]. exists (nd2 ++ nd1). split; [rewrite Hl2, Hl1; now rewrite app_assoc|].
      rewrite binders_create, lifted_binders_app. unfold idn, shrink_identifier, cid_id in *. ocnt.
    + (* XCase, Xtor *) unfold shrink_known_cuts in H. destruct (find _ cls1) as [cl|] eqn:Hf; [|discriminate]. apply find_some in Hf as [Hin _].
      apply Hrec in H as [A1 (nd & A2 & A3)]; [|exact Hm]. rewrite cbinders_subst in A3.
      split; [exact A1|]. exists nd. split; [exact A2|]. rewrite app_nil_r. intros x Hx. specialize (A3 x Hx). pose proof (cnt_clause_le _ _ x Hin). lia.
  - cbn [shrink_step] in H. cbn [cbinders].
    destruct (rec t st) as [[t' st1]|] eqn:Hr1; [|discriminate]. cbn [sbind] in H.
    destruct (rec e st1) as [[e' st2]|] eqn:Hr2; [|discriminate]. cbn [sbind] in H. inv H.
    apply Hrec in Hr1 as [Hm1 [nd1 [Hl1 Hc1]]]; [|exact Hm].
    apply Hrec in Hr2 as [Hm2 [nd2 [Hl2 Hc2]]]; [|lia].
    split; [lia|]. exists (nd2 ++ nd1). split; [rewrite Hl2, Hl1; now rewrite app_assoc|].
    cbn [binders]. rewrite lifted_binders_app. ocnt.
  - cbn [shrink_step] in H. cbn [cbinders].
    destruct (rec nx st) as [[t' st1]|] eqn:Hr1; [|discriminate]. cbn [sbind] in H. inv H.
    apply Hrec in Hr1 as [Hm1 [nd1 [Hl1 Hc1]]]; [|exact Hm]. split; auto. exists nd1. split; auto.
  - cbn [shrink_step] in H. inv H. now apply onb.
  - cbn [shrink_step] in H. inv H. now apply onb.
Qed.
End Step.

Lemma shrink_stmt_old : forall E fuel s st r st',
  shrink_stmt fuel E s st = SOk (r, st') -> (m0 <= s_max st)%N -> opost st r st' s.
Proof.
  intros E fuel. induction fuel as [|fuel IH]; intros s st r st' H Hm; [discriminate|].
  simpl in H. eapply shrink_step_old; eauto. intros. eapply shrink_stmt_leaf; eauto.
Qed.
End Old.
