(* Proof/ShrinkTfv.v (C04, fragment 2) - the free variables `lift` passes (TypedFreeVars with ONE shared
   BTreeSet from which binders are removed) are exactly the renamed variables of the context that occur
   in the statement - for well-typed statements with unique binders and consistent names. *)
From Coq Require Import List ZArith NArith String Bool Lia.
From SCC Require Import Base.Sexp Lang.SynUtil Lang.CoreSyn Lang.AxSyn Sem.AxSem Sem.FsCheck Model.Shrink
     Proof.ShrinkProof Proof.ShrinkSem Proof.ShrinkRn Proof.ShrinkRel Proof.ShrinkArgs Proof.ShrinkSimBase
     Proof.ShrinkSimData.
Import ListNotations.
Open Scope list_scope.

(* ---------- the set operations ---------- *)
Lemma bs_insert_in_r : forall b x l, x = b \/ In x l -> In x (bs_insert b l).
Proof.
  induction l as [|y r IH]; simpl; intros H.
  - destruct H as [->|[]]. now left.
  - destruct (cbinding_compare b y) eqn:E.
    + apply cbinding_compare_eq in E. subst y. destruct H as [->|H]; [now left | exact H].
    + destruct H as [->|H]; [now left | now right].
    + destruct H as [->|[->|H]]; [right; apply IH; now left | now left | right; apply IH; now right].
Qed.
Lemma bs_remove_in_r : forall b x l, In x l -> x <> b -> In x (bs_remove b l).
Proof.
  induction l as [|y r IH]; simpl; intros H Hne; [contradiction|].
  destruct (cbinding_compare b y) eqn:E.
  - apply cbinding_compare_eq in E. subst y. destruct H as [->|H]; [congruence | exact H].
  - exact H.
  - destruct H as [->|H]; [now left | right; now apply IH].
Qed.
Lemma bs_remove_notin : forall b l, bsorted l -> ~ In b (bs_remove b l).
Proof.
  induction l as [|y r IH]; simpl; intros Hs Hin; [contradiction|]. inversion Hs as [|? ? Hs' Hall]; subst.
  rewrite Forall_forall in Hall.
  destruct (cbinding_compare b y) eqn:E.
  - apply cbinding_compare_eq in E. subst y. apply Hall in Hin. unfold lt in Hin. rewrite cbinding_compare_refl in Hin. discriminate.
  - destruct Hin as [->|Hin]; [rewrite cbinding_compare_refl in E; discriminate|].
    apply Hall in Hin. unfold lt in Hin. pose proof (cbinding_compare_trans _ _ _ E Hin) as H. rewrite cbinding_compare_refl in H. discriminate.
  - destruct Hin as [->|Hin]; [rewrite cbinding_compare_refl in E; discriminate | now apply IH].
Qed.
Lemma bs_extend_in_r : forall bs x l, In x bs \/ In x l -> In x (bs_extend bs l).
Proof.
  induction bs as [|b r IH]; simpl; intros x l H; [destruct H; [contradiction | assumption]|].
  apply IH. destruct H as [[->|H]|H]; [right; apply bs_insert_in_r; now left | now left | right; apply bs_insert_in_r; now right].
Qed.
Lemma bs_remove_all_in_r : forall bs x l, In x l -> ~ In x bs -> In x (bs_remove_all bs l).
Proof.
  induction bs as [|b r IH]; simpl; intros x l H Hn; [exact H|].
  apply IH; [|tauto]. apply bs_remove_in_r; [exact H|]. intros ->. apply Hn. now left.
Qed.
Lemma bs_remove_all_notin : forall bs x l, bsorted l -> In x (bs_remove_all bs l) -> ~ In x bs.
Proof.
  induction bs as [|b r IH]; simpl; intros x l Hs H; [tauto|]. intros [->|Hin].
  - apply bs_remove_all_in in H. now apply bs_remove_notin in H.
  - apply IH in H; [contradiction | now apply bs_remove_sorted].
Qed.

Definition tfv_clauses (cls : list fsclause) (vars : bset) : bset := fold_left (fun acc c => tfv_clause c acc) cls vars.
Lemma tfv_term_xcase : forall c cls t vars, tfv_term (FsXCase c cls t) vars = tfv_clauses cls vars.
Proof.
  intros c cls t. simpl. unfold tfv_clauses. induction cls as [|y r IH]; intros vars; [reflexivity|]. simpl. apply IH.
Qed.

(* ---------- variable occurrences against the context ---------- *)
Lemma flookup_find : forall G i, option_map cbvar (flookup G i) = find (fun y => N.eqb (cid_id y) i) (cvars G).
Proof.
  induction G as [|b G IH]; intros i; [reflexivity|]. simpl. destruct (N.eqb (cid_id (cbvar b)) i); [reflexivity | apply IH].
Qed.
Lemma flookup_nodup : forall G b, NoDup (cids G) -> In b G -> flookup G (cid_id (cbvar b)) = Some b.
Proof.
  induction G as [|b0 G IH]; intros b Hnd Hin; [contradiction|]. simpl in *. inversion Hnd as [|? ? Hni Hnd']; subst.
  destruct Hin as [->|Hin]; [now rewrite N.eqb_refl|].
  destruct (N.eqb (cid_id (cbvar b0)) (cid_id (cbvar b))) eqn:E; [|now apply IH].
  apply N.eqb_eq in E. exfalso. apply Hni. rewrite E. unfold cids. apply in_map_iff. eauto.
Qed.
(* a typed, consistently named occurrence is a binding of the context *)
Lemma occ_binding : forall G v c t, fbound G v c t = None -> nc_var (cvars G) v = true ->
  In (mkcb v c t) G.
Proof.
  intros G v c t Hb Hn. destruct (fbound_inv _ _ _ _ Hb) as (b & Hf & Hc & Ht).
  unfold nc_var in Hn. rewrite <- flookup_find, Hf in Hn. cbn [option_map] in Hn. apply cident_eqb_eq in Hn.
  apply flookup_in in Hf as [Hin _]. destruct b as [bv bc bt]. simpl in *. subst. exact Hin.
Qed.

Section Tfv.
Variable p : fsprog.
Notation data := (fspdata p).
Notation codata := (fspcodata p).
Notation defs := (fspdefs p).
Notation m0 := (fspmax p).
Variable rho th : cident -> cident.
Variable st : sst.

Definition B (b : cbinding) : cbinding := mkcb (rho (cbvar b)) (cbchi b) (cbty b).

Definition tfv_ok (G : cctx) (occ : cident -> Prop) (binds : list N) (vars out : bset) : Prop :=
  (forall b, In b G -> occ (cbvar b) -> In (B b) out) /\
  (forall x, In x vars -> ~ In (cid_id (cbvar x)) binds -> In x out) /\
  (forall b', In b' out -> In b' vars \/ exists b, In b G /\ occ (cbvar b) /\ b' = B b).

(* binder ids are apart from the renamed context variables *)
Definition sep (G : cctx) (binds : list N) : Prop :=
  forall b i, In b G -> In i binds -> cid_id (rho (cbvar b)) <> i.
Lemma sep_of : forall G binds, inv p G rho th st -> (forall i, In i binds -> ~ In i (cids G) /\ (i <= m0)%N) -> sep G binds.
Proof.
  intros G binds Hinv Hb b i Hin Hi E. destruct (Hb i Hi) as [H1 H2].
  destruct (inv_rng _ _ _ _ _ Hinv b Hin) as [H|H]; [apply H1; now rewrite <- E | lia].
Qed.

Lemma tfv_ok_weaken : forall G (occ occ' : cident -> Prop) binds binds' vars out,
  tfv_ok G occ binds vars out -> (forall x, occ x <-> occ' x) -> (forall i, In i binds <-> In i binds') ->
  tfv_ok G occ' binds' vars out.
Proof.
  intros G occ occ' binds binds' vars out (H1 & H2 & H3) Ho Hb. split; [|split].
  - intros b Hb0 Hx. apply H1; auto. now apply Ho.
  - intros x Hx Hn. apply H2; auto. intros Hi. apply Hn. now apply Hb.
  - intros b' Hb'. destruct (H3 b' Hb') as [H|(b & Hin & Hx & E)]; [now left|]. right. exists b. split; [exact Hin|]. split; [now apply Ho | exact E].
Qed.
Lemma tfv_ok_seq : forall G (occ1 occ2 : cident -> Prop) binds1 binds2 vars mid out,
  tfv_ok G occ1 binds1 vars mid -> tfv_ok G occ2 binds2 mid out -> sep G binds2 ->
  tfv_ok G (fun x => occ1 x \/ occ2 x) (binds1 ++ binds2) vars out.
Proof.
  intros G occ1 occ2 binds1 binds2 vars mid out (A1 & A2 & A3) (B1 & B2 & B3) Hsep. split; [|split].
  - intros b Hb [Hx|Hx]; [|now apply B1]. apply B2; [now apply A1|]. cbn [B cbvar]. intros Hi. eapply Hsep; eauto.
  - intros x Hx Hn. apply B2; [apply A2; auto|]; intros Hi; apply Hn; apply in_or_app; auto.
  - intros b' Hb'. destruct (B3 b' Hb') as [H|(b & Hin & Hx & E)].
    + destruct (A3 b' H) as [H'|(b & Hin & Hx & E)]; [now left|]. right. exists b. auto.
    + right. exists b. auto.
Qed.
Lemma tfv_ok_none : forall G vars, tfv_ok G (fun _ => False) [] vars vars.
Proof. intros. split; [|split]; [intros b _ [] | auto | auto]. Qed.
(* inserting typed, consistently named occurrences *)
Lemma tfv_ok_extend : forall G vars args, inv p G rho th st ->
  (forall a, In a args -> In a G) ->
  tfv_ok G (fun x => In x (cvars args)) [] vars (bs_extend (rn_ctx rho args) vars).
Proof.
  intros G vars args Hinv Hargs. split; [|split].
  - intros b Hb Hx. apply bs_extend_in_r. left. unfold cvars in Hx. apply in_map_iff in Hx as (a & Ea & Ha).
    pose proof (Hargs a Ha) as HaG.
    assert (a = b).
    { pose proof (flookup_nodup G a (inv_nd _ _ _ _ _ Hinv) HaG) as F1. pose proof (flookup_nodup G b (inv_nd _ _ _ _ _ Hinv) Hb) as F2.
      rewrite Ea in F1. congruence. }
    subst a. unfold rn_ctx. apply in_map_iff. exists b. split; [reflexivity | exact Ha].
  - intros x Hx _. apply bs_extend_in_r. now right.
  - intros b' Hb'. apply bs_extend_in in Hb' as [H|H]; [|now left]. right.
    unfold rn_ctx in H. apply in_map_iff in H as (a & <- & Ha). exists a. split; [now apply Hargs|]. split; [|reflexivity].
    unfold cvars. apply in_map. exact Ha.
Qed.
Lemma tfv_ok_insert : forall G vars v c t, inv p G rho th st -> In (mkcb v c t) G ->
  tfv_ok G (fun x => v = x) [] vars (bs_insert (mkcb (rho v) c t) vars).
Proof.
  intros G vars v c t Hinv Hin.
  pose proof (tfv_ok_extend G vars [mkcb v c t] Hinv) as H. cbn [rn_ctx map rn_binding bs_extend fold_left cbvar cbchi cbty] in H.
  eapply tfv_ok_weaken; [apply H | | tauto].
  - intros a [<-|[]]. exact Hin.
  - intros x. cbn [cvars map cbvar In]. tauto.
Qed.

Lemma args_in_G : forall what G args sg L, fargs_ok what G args sg = None -> forallb (nc_var (cvars G)) (cvars args) = true ->
  L = G -> forall a, In a args -> In a L.
Proof.
  intros what G args. induction args as [|a ar IH]; intros [|s sr] L Hok Hnc -> b Hb; cbn [fargs_ok] in Hok; try discriminate; [contradiction|].
  apply seq_none in Hok as [_ Hok]. apply seq_none in Hok as [H2 H3]. cbn [cvars map forallb] in Hnc. apply andb_prop in Hnc as [Hn1 Hn2].
  destruct Hb as [<-|Hb].
  - pose proof (occ_binding _ _ _ _ H2 Hn1) as H. destruct a; exact H.
  - eapply IH; eauto.
Qed.

Definition hyps (G : cctx) : Prop := inv p G rho th st.

Lemma tfv_all :
  (forall t G side ty vars, hyps G -> check_term data codata defs G side ty t = None -> nc_term (cvars G) t = true ->
     ub_term (cids G) t = true -> ib_term m0 t = true -> bsorted vars ->
     tfv_ok G (fun x => occ_term x t) (cbinders_term t) vars (tfv_term (rn_term rho t) vars)) /\
  (forall cl G vars, hyps G -> check_stmt data codata defs (clause_ctx cl ++ G) (clause_body cl) = None ->
     nc_stmt (cvars (clause_ctx cl) ++ cvars G) (clause_body cl) = true ->
     ub_clause (cids G) cl = true -> ctx_le m0 (clause_ctx cl) && ib_stmt m0 (clause_body cl) = true -> bsorted vars ->
     tfv_ok G (fun x => occ_clause x cl) (cids (clause_ctx cl) ++ cbinders (clause_body cl)) vars (tfv_clause (rn_clause rho cl) vars)) /\
  (forall s G vars, hyps G -> check_stmt data codata defs G s = None -> nc_stmt (cvars G) s = true ->
     ub_stmt (cids G) s = true -> ib_stmt m0 s = true -> bsorted vars ->
     tfv_ok G (fun x => occurs x s) (cbinders s) vars (tfv_stmt (rn_stmt rho s) vars)).
Proof.
  apply fs_mutind.
  - (* XVar *) intros c v t G side ty vars Hh Hck Hnc _ _ _. cbn [check_term] in Hck.
    apply seq_none in Hck as [E1 Hck]. apply seq_none in Hck as [E2 Hck]. apply fensure_none in E1. apply fensure_none in E2.
    apply cchi_eqb_eq in E1. apply cty_eqb_eq in E2. subst side ty. cbn [nc_term] in Hnc.
    cbn [rn_term tfv_term occ_term cbinders_term]. apply tfv_ok_insert; auto. eapply occ_binding; eauto.
  - (* Lit *) intros n G side ty vars _ _ _ _ _ _. cbn. apply tfv_ok_none.
  - (* Op *) intros a o b G side ty vars Hh Hck Hnc _ _ _. cbn [check_term] in Hck.
    apply seq_none in Hck as [_ Hck]. apply seq_none in Hck as [_ Hck]. apply seq_none in Hck as [Ha Hb].
    cbn [nc_term] in Hnc. apply andb_prop in Hnc as [Hna Hnb].
    cbn [rn_term tfv_term occ_term cbinders_term]. unfold i64_prd.
    eapply tfv_ok_weaken with (binds := [] ++ []);
      [eapply tfv_ok_seq with (mid := bs_insert (mkcb (rho a) CPrd CI64) vars); [apply tfv_ok_insert; [exact Hh | eapply occ_binding; eauto] | apply tfv_ok_insert; [exact Hh | eapply occ_binding; eauto] | intros ? ? _ []] | tauto | tauto].
  - (* Mu *) intros c v s t' IH G side ty vars Hh Hck Hnc Hub Hib Hs.
    rewrite check_term_mu_eq in Hck. apply seq_none in Hck as [E1 Hck]. apply seq_none in Hck as [E2 Hck].
    apply fensure_none in E1. apply fensure_none in E2. apply cchi_eqb_eq in E1. apply cty_eqb_eq in E2. subst c t'.
    cbn [nc_term] in Hnc. cbn [ub_term] in Hub. apply andb_prop in Hub as [Hu1 Hu2]. apply negb_true_iff in Hu1.
    assert (Hv : ~ In (cid_id v) (cids G)) by (intros Hin; apply mem_id_in in Hin; congruence).
    rewrite ib_term_mu in Hib. apply andb_prop in Hib as [Hi1 Hi2]. apply N.leb_le in Hi1.
    set (bv := mkcb v (opp side) ty).
    assert (Hh' : hyps (bv :: G)) by (apply inv_push; auto).
    specialize (IH (bv :: G) vars Hh' Hck Hnc Hu2 Hi2 Hs). destruct IH as (A1 & A2 & A3).
    assert (Hbv : B bv = bv) by (unfold B, bv; cbn [cbvar cbchi cbty]; rewrite (inv_rho _ _ _ _ _ Hh v Hv Hi1); reflexivity).
    assert (Hrem : match side with CPrd => CCns | CCns => CPrd end = opp side) by (destruct side; reflexivity).
    cbn [rn_term tfv_term occ_term cbinders_term]. rewrite Hrem. fold bv.
    assert (Hsorted : bsorted (tfv_stmt (rn_stmt rho s) vars)) by (apply tfv_sorted_all; exact Hs).
    split; [|split].
    + intros b Hb Hx. apply bs_remove_in_r; [apply A1; [now right | exact Hx]|].
      intros E. unfold B, bv in E. injection E as E _ _. destruct (inv_rng _ _ _ _ _ Hh b Hb) as [H|H]; [apply Hv; now rewrite <- E | rewrite E in H; lia].
    + intros x Hx Hn. apply bs_remove_in_r; [apply A2; [exact Hx | intros Hi; apply Hn; now right]|].
      intros ->. apply Hn. left. reflexivity.
    + intros b' Hb'. assert (Hne : b' <> bv) by (intros ->; revert Hb'; apply bs_remove_notin; exact Hsorted).
      apply bs_remove_in in Hb'. destruct (A3 b' Hb') as [H|(b & [<-|Hin] & Hx & E)]; [now left | congruence | right; eauto].
  - (* Xtor *) intros c x args t' G side ty vars Hh Hck Hnc _ _ _.
    destruct (xtor_typing p _ _ _ _ _ _ _ Hck) as (T & d & sg & _ & _ & _ & Hfa). cbn [nc_term] in Hnc.
    cbn [rn_term tfv_term occ_term cbinders_term]. apply tfv_ok_extend; auto. eapply args_in_G; eauto.
  - (* XCase *) intros c cls t' IH G side ty vars Hh Hck Hnc Hub Hib Hs.
    destruct (xcase_typing p _ _ _ _ _ _ Hck) as (T & d & _ & _ & _ & Hcb).
    rewrite nc_term_xcase in Hnc. rewrite ub_term_xcase in Hub. rewrite ib_term_xcase in Hib.
    rewrite rn_term_xcase, tfv_term_xcase, cbinders_term_xcase.
    eapply tfv_ok_weaken with (occ := fun x => occ_clauses x cls); [| intros x; symmetry; apply occ_term_xcase | reflexivity].
    clear Hck. revert vars Hs Hcb Hnc Hub Hib. unfold rn_clauses, tfv_clauses, cbinders_clauses, occ_clauses.
    induction IH as [|cl r Hcl _ IHr]; intros vars Hs Hcb Hnc Hub Hib.
    + simpl. eapply tfv_ok_weaken; [apply tfv_ok_none | | reflexivity]. intros x. split; [intros [] | intros (c0 & [] & _)].
    + cbn [map fold_left flat_map].
      assert (Hin : In cl (cl :: r)) by now left.
      pose proof (check_bodies_in p _ _ _ Hcb Hin) as Hc1. pose proof (nc_clauses_in _ _ _ Hnc Hin) as Hn1.
      unfold ub_clauses in Hub. cbn [forallb] in Hub. apply andb_prop in Hub as [Hu1 Hu2].
      unfold ib_clauses in Hib. cbn [forallb] in Hib. apply andb_prop in Hib as [Hi1 Hi2].
      pose proof (Hcl G vars Hh Hc1 Hn1 Hu1 Hi1 Hs) as H1.
      assert (Hcb2 : check_bodies data codata defs G r = None).
      { destruct cl as [c0 x0 ctx0 b0]. rewrite check_bodies_cons in Hcb. destruct (check_stmt _ _ _ (ctx0 ++ G) b0); [discriminate | exact Hcb]. }
      assert (Hnc2 : nc_clauses (cvars G) r = true) by (unfold nc_clauses in *; cbn [forallb] in Hnc; now apply andb_prop in Hnc).
      specialize (IHr (tfv_clause (rn_clause rho cl) vars) ltac:(apply tfv_sorted_all; exact Hs) Hcb2 Hnc2 Hu2 Hi2).
      eapply tfv_ok_weaken; [eapply tfv_ok_seq; [exact H1 | exact IHr |] | | reflexivity].
      * apply sep_of with (binds := flat_map (fun c0 => cids (clause_ctx c0) ++ cbinders (clause_body c0)) r); [exact Hh|].
        intros i Hi. apply in_flat_map in Hi as (c0 & Hc0 & Hi).
        unfold ub_clauses in Hu2. rewrite forallb_forall in Hu2. pose proof (Hu2 c0 Hc0) as Hu.
        rewrite forallb_forall in Hi2. pose proof (Hi2 c0 Hc0) as Hi'.
        split; [eapply (proj1 (proj2 ub_notin_all)); eauto | eapply (proj1 (proj2 (cbinders_le_all m0))); eauto].
      * intros x. split.
        -- intros [H|(c0 & Hc0 & H)]; [exists cl; split; [now left | exact H] | exists c0; split; [now right | exact H]].
        -- intros (c0 & [<-|Hc0] & H); [now left | right; eauto].
  - (* Clause *) intros c x ctx b IH G vars Hh Hck Hnc Hub Hib Hs. cbn [clause_ctx clause_body] in *.
    cbn [ub_clause] in Hub. apply andb_prop in Hub as [Hu1 Hu2]. apply fresh_ids_spec in Hu1 as [Hnd Hni].
    apply andb_prop in Hib as [Hi1 Hi2].
    assert (Hids : forall i, In i (cids ctx) -> ~ In i (cids G) /\ (i <= m0)%N).
    { intros i Hi. split; [now apply Hni | eapply ctx_le_ids; eauto]. }
    assert (Hh' : hyps (ctx ++ G)).
    { clear -Hh Hnd Hids. revert Hnd Hids. induction ctx as [|[x c t] ctx IH]; intros Hnd Hids; [exact Hh|].
      cbn [cids map cbvar] in Hnd. inversion Hnd as [|? ? Hni Hnd']; subst. cbn [app]. apply inv_push.
      - apply IH; auto. intros i Hi. apply Hids. now right.
      - rewrite cids_app. intros Hin. apply in_app_or in Hin as [Hin|Hin]; [contradiction|].
        apply (proj1 (Hids (cid_id x) (or_introl eq_refl))). exact Hin.
      - apply Hids. now left. }
    rewrite ub_cids_app in Hu2. unfold cvars in Hnc. rewrite <- map_app in Hnc. fold (cvars (ctx ++ G)) in Hnc.
    specialize (IH (ctx ++ G) vars Hh' Hck Hnc Hu2 Hi2 Hs). destruct IH as (A1 & A2 & A3).
    assert (HB : forall b0, In b0 ctx -> B b0 = b0).
    { intros b0 Hb0. assert (Hbi : In (cid_id (cbvar b0)) (cids ctx)) by (unfold cids; apply in_map_iff; eauto).
      destruct (Hids _ Hbi). unfold B. rewrite (inv_rho _ _ _ _ _ Hh); auto. destruct b0; reflexivity. }
    cbn [rn_clause tfv_clause occ_clause].
    assert (Hsorted : bsorted (tfv_stmt (rn_stmt rho b) vars)) by (apply tfv_sorted_all; exact Hs).
    split; [|split].
    + intros b0 Hb0 Hx. apply bs_remove_all_in_r; [apply A1; [apply in_or_app; now right | exact Hx]|].
      intros Hin. assert (Hbi : In (cid_id (cbvar (B b0))) (cids ctx)) by (unfold cids; apply in_map_iff; eauto).
      destruct (Hids _ Hbi) as [H1 H2]. cbn [B cbvar] in H1, H2. destruct (inv_rng _ _ _ _ _ Hh b0 Hb0) as [H|H]; [contradiction | lia].
    + intros y Hy Hn. apply bs_remove_all_in_r; [apply A2; [exact Hy | intros Hi; apply Hn; apply in_or_app; now right]|].
      intros Hin. apply Hn. apply in_or_app. left. unfold cids. apply in_map_iff. eauto.
    + intros b' Hb'. pose proof (bs_remove_all_notin _ _ _ Hsorted Hb') as Hne. apply bs_remove_all_in in Hb'.
      destruct (A3 b' Hb') as [H|(b0 & Hin & Hx & E)]; [now left|]. apply in_app_or in Hin as [Hin|Hin].
      * rewrite (HB b0 Hin) in E. subst b'. contradiction.
      * right. eauto.
  - (* Cut *) intros pr ty k IHp IHk G vars Hh Hck Hnc Hub Hib Hs.
    rewrite check_stmt_cut_eq in Hck. apply seq_none in Hck as [_ Hck]. apply seq_none in Hck as [Hcp Hck].
    apply nc_cut in Hnc as [Hn1 Hn2]. cbn [ub_stmt] in Hub. apply andb_prop in Hub as [Hu1 Hu2].
    rewrite ib_stmt_cut in Hib. apply andb_prop in Hib as [Hi1 Hi2].
    cbn [rn_stmt tfv_stmt occurs cbinders].
    eapply tfv_ok_seq; [eapply IHp; eauto | eapply IHk; eauto; apply tfv_sorted_all; exact Hs |].
    apply sep_of; [exact Hh|]. intros i Hi. split; [eapply (proj1 ub_notin_all); eauto | eapply (proj1 (cbinders_le_all m0)); eauto].
  - (* IfC *) intros so a b t e IHt IHe G vars Hh Hck Hnc Hub Hib Hs.
    rewrite check_stmt_ifc_eq in Hck. apply seq_none in Hck as [Hca Hck]. apply seq_none in Hck as [Hcb Hck]. apply seq_none in Hck as [Hct Hce].
    cbn [nc_stmt] in Hnc. apply andb_prop in Hnc as [Hnc Hne]. apply andb_prop in Hnc as [Hnc Hnt]. apply andb_prop in Hnc as [Hna Hnb].
    cbn [ub_stmt] in Hub. apply andb_prop in Hub as [Hu1 Hu2].
    rewrite ib_stmt_ifc in Hib. apply andb_prop in Hib as [Hib Hi2]. apply andb_prop in Hib as [_ Hi1].
    cbn [rn_stmt tfv_stmt occurs cbinders].
    set (v1 := bs_insert (i64_prd (rho a)) vars).
    set (v2 := match option_map rho b with Some b' => bs_insert (i64_prd b') v1 | None => v1 end).
    assert (Hs1 : bsorted v1) by (apply bs_insert_sorted; exact Hs).
    assert (Hs2 : bsorted v2) by (unfold v2; destruct b; cbn [option_map]; [apply bs_insert_sorted|]; exact Hs1).
    assert (Hok2 : tfv_ok G (fun x => a = x \/ b = Some x) ([] ++ []) vars v2).
    { unfold v2. destruct b as [b|]; cbn [option_map].
      - eapply tfv_ok_weaken; [eapply tfv_ok_seq with (mid := v1); [apply tfv_ok_insert; [exact Hh | eapply occ_binding; eauto] | apply tfv_ok_insert; [exact Hh | eapply occ_binding; eauto] | intros ? ? _ []] | | reflexivity].
        intros x. split; [intros [H|H]; [now left | right; now subst] | intros [H|H]; [now left | right; now inv H]].
      - eapply tfv_ok_weaken; [apply tfv_ok_insert; [exact Hh | eapply occ_binding; eauto] | | reflexivity].
        intros x. split; [now left | intros [H|H]; [exact H | discriminate]]. }
    assert (Hsep_t : sep G (cbinders t)).
    { apply sep_of; [exact Hh|]. intros i Hi. split; [eapply ub_notin; [exact Hu1 | exact Hi] | eapply (proj2 (proj2 (cbinders_le_all m0))); [exact Hi1 | exact Hi]]. }
    assert (Hsep_e : sep G (cbinders e)).
    { apply sep_of; [exact Hh|]. intros i Hi. split; [eapply ub_notin; [exact Hu2 | exact Hi] | eapply (proj2 (proj2 (cbinders_le_all m0))); [exact Hi2 | exact Hi]]. }
    eapply tfv_ok_weaken; [eapply tfv_ok_seq; [eapply tfv_ok_seq; [exact Hok2 | eapply IHt; eauto | exact Hsep_t] | eapply IHe; eauto; apply tfv_sorted_all; exact Hs2 | exact Hsep_e] | | ].
    + intros x. tauto.
    + intros i. cbn [app]. reflexivity.
  - (* Print *) intros nl a nx IH G vars Hh Hck Hnc Hub Hib Hs.
    rewrite check_stmt_print_eq in Hck. apply seq_none in Hck as [Hca Hck].
    cbn [nc_stmt] in Hnc. apply andb_prop in Hnc as [Hna Hnn]. cbn [ub_stmt] in Hub.
    rewrite ib_stmt_print in Hib. apply andb_prop in Hib as [_ Hib].
    cbn [rn_stmt tfv_stmt occurs cbinders].
    eapply tfv_ok_weaken with (binds := [] ++ cbinders nx);
      [eapply tfv_ok_seq; [apply tfv_ok_insert; [exact Hh | eapply occ_binding; eauto] | eapply IH; eauto; apply bs_insert_sorted; exact Hs |] | tauto | reflexivity].
    apply sep_of; [exact Hh|]. intros i Hi. split; [eapply ub_notin; eauto | eapply (proj2 (proj2 (cbinders_le_all m0))); eauto].
  - (* Call *) intros f args G vars Hh Hck Hnc _ _ _. cbn [check_stmt] in Hck.
    destruct (find _ defs) as [d|]; [|discriminate]. cbn [nc_stmt] in Hnc.
    cbn [rn_stmt tfv_stmt occurs cbinders]. apply tfv_ok_extend; auto. eapply args_in_G; eauto.
  - (* Exit *) intros v G vars Hh Hck Hnc _ _ _. cbn [check_stmt] in Hck. cbn [nc_stmt] in Hnc.
    cbn [rn_stmt tfv_stmt occurs cbinders]. unfold i64_prd. apply tfv_ok_insert; auto. eapply occ_binding; eauto.
Qed.

(* what `lift` needs *)
Lemma typed_free_vars_spec : forall s G, inv p G rho th st ->
  check_stmt data codata defs G s = None -> nc_stmt (cvars G) s = true ->
  ub_stmt (cids G) s = true -> ib_stmt m0 s = true ->
  (forall b, In b G -> occurs (cbvar b) s -> In (B b) (typed_free_vars (rn_stmt rho s))) /\
  (forall b', In b' (typed_free_vars (rn_stmt rho s)) -> exists b, In b G /\ occurs (cbvar b) s /\ b' = B b).
Proof.
  intros s G Hinv Hck Hnc Hub Hib.
  destruct (proj2 (proj2 tfv_all) s G [] Hinv Hck Hnc Hub Hib ltac:(constructor)) as (A1 & _ & A3).
  split; [exact A1|]. intros b' Hb'. destruct (A3 b' Hb') as [[]|H]. exact H.
Qed.
End Tfv.
