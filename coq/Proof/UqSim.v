(* C03, uniquify preserves behaviour, part 5: alpha-equivalent programs run in lock step on the Core
   machine ([u_step]), hence have the SAME observation for every fuel ([u_crun]) - stuck and
   out-of-fuel runs included. *)
From Coq Require Import List ZArith NArith String Bool Lia.
From SCC Require Import Base.Sexp Lang.CoreSyn Sem.AxSem Sem.CoreSem Model.Backend Model.Uniquify Model.FocusCheck
     Proof.SubstProof Proof.UqAeq.
From SCC Require Import Model.FocusGuard.
Import ListNotations.
Open Scope list_scope.

Inductive UV : bval -> bval -> Prop :=
| UV_int : forall z, UV (BP (PInt z)) (BP (PInt z))
| UV_ctor : forall tag args args', UVs args args' -> UV (BP (PCtor tag args)) (BP (PCtor tag args'))
| UV_cocase : forall G cls e cls' e', aeq_cs G cls cls' -> UE G e e' -> UV (BP (PCocase cls e)) (BP (PCocase cls' e'))
| UV_thunk : forall G ch a s e a' s' e',
    aeq_s ((a, ch, a') :: G) s s' -> UE G e e' -> UV (BP (PThunk a s e)) (BP (PThunk a' s' e'))
| UV_delay : forall m m', UM m m' -> UV (BP (PDelay m)) (BP (PDelay m'))
| UV_mut : forall G ch x s e x' s' e',
    aeq_s ((x, ch, x') :: G) s s' -> UE G e e' -> UV (BK (KMuT x s e)) (BK (KMuT x' s' e'))
| UV_case : forall G cls e cls' e', aeq_cs G cls cls' -> UE G e e' -> UV (BK (KCase cls e)) (BK (KCase cls' e'))
| UV_dtor : forall tag args args', UVs args args' -> UV (BK (KDtor tag args)) (BK (KDtor tag args'))
| UV_ret : forall m m', UM m m' -> UV (BK (KRet m)) (BK (KRet m'))
with UVs : list bval -> list bval -> Prop :=
| UVs_nil : UVs [] []
| UVs_cons : forall v v' l l', UV v v' -> UVs l l' -> UVs (v :: l) (v' :: l')
with UE : gam -> cenv -> cenv -> Prop :=
| UE_nil : UE [] [] []
| UE_cons : forall x ch x' v v' G e e', UV v v' -> UE G e e' -> UE ((x, ch, x') :: G) ((x, v) :: e) ((x', v') :: e')
with UM : mk -> mk -> Prop :=
| UM_args : forall G done rest e f done' rest' e' f',
    UVs done done' -> aeq_as G rest rest' -> UE G e e' -> UF f f' ->
    UM (MArgs done rest e f) (MArgs done' rest' e' f')
| UM_opL : forall G o b e m b' e' m', aeq_t G b b' -> UE G e e' -> UM m m' -> UM (MOpL o b e m) (MOpL o b' e' m')
| UM_opR : forall o x m m', UM m m' -> UM (MOpR o x m) (MOpR o x m')
| UM_if1 : forall G so b t el e b' t' el' e',
    aeq_o G b b' -> aeq_s G t t' -> aeq_s G el el' -> UE G e e' -> UM (MIf1 so b t el e) (MIf1 so b' t' el' e')
| UM_if2 : forall G so x t el e t' el' e',
    aeq_s G t t' -> aeq_s G el el' -> UE G e e' -> UM (MIf2 so x t el e) (MIf2 so x t' el' e')
| UM_print : forall G nl n e n' e', aeq_s G n n' -> UE G e e' -> UM (MPrint nl n e) (MPrint nl n' e')
| UM_exit : UM MExit MExit
| UM_cutK : forall G k e k' e', aeq_t G k k' -> UE G e e' -> UM (MCutK k e) (MCutK k' e')
| UM_cutP : forall G cd p e p' e', aeq_t G p p' -> UE G e e' -> UM (MCutP cd p e) (MCutP cd p' e')
with UF : fin -> fin -> Prop :=
| UF_call : forall f, UF (FinCall f) (FinCall f)
| UF_xp : forall tag m m', UM m m' -> UF (FinXtorP tag m) (FinXtorP tag m')
| UF_xk : forall tag m m', UM m m' -> UF (FinXtorK tag m) (FinXtorK tag m').

Inductive UC : config -> config -> Prop :=
| UC_run : forall G s e s' e', aeq_s G s s' -> UE G e e' -> UC (Run s e) (Run s' e')
| UC_arg : forall G a e m a' e' m', aeq_a G a a' -> UE G e e' -> UM m m' -> UC (Arg a e m) (Arg a' e' m')
| UC_app : forall m v m' v', UM m m' -> UV v v' -> UC (App m v) (App m' v').

Definition sres_u (r r' : sres) : Prop :=
  match r, r' with
  | SNext c, SNext c' => UC c c'
  | SPrint nl z c, SPrint nl' z' c' => nl = nl' /\ z = z' /\ UC c c'
  | SHalt o, SHalt o' => o = o'
  | _, _ => False
  end.

Section USim.
Variables p p1 : cprog.
Hypothesis Hcod : forall ty, is_codata p1 ty = is_codata p ty.
Hypothesis Hdefs : forall f,
  match cfind_def p f, cfind_def p1 f with
  | Some d, Some d1 => ctx_like (cdctx d) (cdctx d1) /\ aeq_s (gzip (cdctx d) (cdctx d1)) (cdbody d) (cdbody d1)
  | None, None => True
  | _, _ => False
  end.

Lemma ue_lookup : forall G e e', UE G e e' -> forall x x', vmatch G x x' = true ->
  match clookup e x, clookup e' x' with
  | Some v, Some v' => UV v v'
  | None, None => True
  | _, _ => False
  end.
Proof.
  induction 1 as [|y ch y' v v' G e e' HV HE IH]; intros x x' M; simpl in *.
  - exact I.
  - destruct (cident_eqb y x).
    + rewrite M. exact HV.
    + destruct (cident_eqb y' x'); [discriminate | apply IH; exact M].
Qed.

Lemma UV_kind : forall v v', UV v v' -> (exists a b, v = BP a /\ v' = BP b) \/ (exists a b, v = BK a /\ v' = BK b).
Proof. intros v v' H. inversion H; subst; eauto. Qed.

Lemma UVs_rev_append : forall a a' b b', UVs a a' -> UVs b b' -> UVs (rev_append a b) (rev_append a' b').
Proof. intros a a' b b' H. revert b b'. induction H; simpl; intros b b' Hb; auto. apply IHUVs. constructor; auto. Qed.

Lemma u_cbind : forall ctx ctx' vs vs' G e e', ctx_like ctx ctx' -> UVs vs vs' -> UE G e e' ->
  match cbind (cvars ctx) vs e, cbind (cvars ctx') vs' e' with
  | Some e1, Some e1' => UE (gzip ctx ctx' ++ G) e1 e1'
  | None, None => True
  | _, _ => False
  end.
Proof.
  induction ctx as [|b r IH]; intros ctx' vs vs' G e e' CL HV HE; inversion CL; subst; simpl.
  - inversion HV; subst; simpl; auto.
  - inversion HV; subst; simpl; auto.
    specialize (IH _ _ _ _ _ _ H3 H0 HE).
    destruct (cbind (cvars r) l e), (cbind (cvars l') l'0 e'); try contradiction; auto.
    simpl. constructor; auto.
Qed.

Lemma u_select : forall G cls cls' ce ce' tag args args',
  aeq_cs G cls cls' -> UE G ce ce' -> UVs args args' ->
  sres_u (select cls ce tag args) (select cls' ce' tag args').
Proof.
  intros G cls cls' ce ce' tag args args' A HE HV. unfold select, cfind_clause.
  induction A as [|G a a' l l' Ha Hl IH]; simpl; [reflexivity|].
  inversion Ha; subst. simpl.
  destruct (cident_eqb x tag).
  - simpl. pose proof (u_cbind _ _ _ _ _ _ _ H HV HE) as B.
    destruct (cbind (cvars ctx) args ce), (cbind (cvars ctx') args' ce'); try contradiction; simpl; auto.
    econstructor; eauto.
  - apply IH; auto.
Qed.

Lemma u_khead : forall G k k' e e', aeq_t G k k' -> UE G e e' ->
  match khead k e, khead k' e' with
  | inl kv, inl kv' => UV (BK kv) (BK kv')
  | inr w, inr w' => w = w'
  | _, _ => False
  end.
Proof.
  intros G k k' e e' A HE. inversion A; subst; simpl; auto.
  - pose proof (ue_lookup _ _ _ HE _ _ H) as L.
    destruct (clookup e x) as [v|], (clookup e' x') as [v'|]; try contradiction; auto.
    destruct (UV_kind _ _ L) as [(a & b & -> & ->)|(a & b & -> & ->)]; auto.
  - econstructor; eauto.
  - econstructor; eauto.
Qed.

Lemma u_interact_val : forall pv pv' kv kv', UV (BP pv) (BP pv') -> UV (BK kv) (BK kv') ->
  sres_u (interact_val pv kv) (interact_val pv' kv').
Proof.
  intros pv pv' kv kv' HP HK. inversion HK; subst.
  - simpl. econstructor; eauto. constructor; auto.
  - inversion HP; subst; simpl; auto.
    + eapply u_select; eauto.
    + econstructor; eauto. constructor; auto.
    + constructor; auto.
  - inversion HP; subst; simpl; auto.
    + eapply u_select; eauto.
    + econstructor; eauto. constructor; auto.
    + constructor; auto.
  - inversion HP; subst; simpl; try (constructor; auto).
    econstructor; eauto. constructor; auto.
Qed.

Lemma u_interact_mu : forall G ch cd a s e a' s' e' kv kv',
  aeq_s ((a, ch, a') :: G) s s' -> UE G e e' -> UV (BK kv) (BK kv') ->
  sres_u (interact_mu cd a s e kv) (interact_mu cd a' s' e' kv').
Proof.
  intros G ch cd a s e a' s' e' kv kv' A HE HK.
  assert (D : UC (Run s ((a, BK kv) :: e)) (Run s' ((a', BK kv') :: e'))) by (econstructor; eauto; constructor; auto).
  destruct cd; simpl; [|exact D].
  inversion HK; subst; try exact D.
  simpl. econstructor; eauto. constructor; auto. econstructor; eauto.
Qed.

Lemma u_cut_with_k : forall G cd pr pr' e e' kv kv', aeq_t G pr pr' -> UE G e e' -> UV (BK kv) (BK kv') ->
  sres_u (cut_with_k cd pr e kv) (cut_with_k cd pr' e' kv').
Proof.
  intros G cd pr pr' e e' kv kv' A HE HK. inversion A; subst; simpl; auto.
  - pose proof (ue_lookup _ _ _ HE _ _ H) as L.
    destruct (clookup e x) as [v|], (clookup e' x') as [v'|]; try contradiction; simpl; auto.
    destruct (UV_kind _ _ L) as [(a & b & -> & ->)|(a & b & -> & ->)]; simpl; auto.
    apply u_interact_val; auto.
  - apply u_interact_val; auto. constructor.
  - eapply u_interact_mu; eauto.
  - apply u_interact_val; auto. econstructor; eauto.
Qed.

Lemma u_finish : forall f f' vals vals', UF f f' -> UVs vals vals' ->
  sres_u (finish_args p f vals) (finish_args p1 f' vals').
Proof.
  intros f f' vals vals' HF HV. inversion HF; subst; simpl.
  - pose proof (Hdefs f0) as D.
    destruct (cfind_def p f0) as [d|], (cfind_def p1 f0) as [d1|]; try contradiction; simpl; auto.
    destruct D as [CL A].
    pose proof (u_cbind _ _ _ _ _ _ _ CL HV UE_nil) as B. rewrite app_nil_r in B.
    destruct (cbind (cvars (cdctx d)) vals []), (cbind (cvars (cdctx d1)) vals' []); try contradiction; simpl; auto.
    econstructor; eauto.
  - constructor; auto. constructor; auto.
  - constructor; auto. constructor; auto.
Qed.
Lemma u_start : forall G args args' e e' f f', aeq_as G args args' -> UE G e e' -> UF f f' ->
  sres_u (start_args p args e f) (start_args p1 args' e' f').
Proof.
  intros G args args' e e' f f' A HE HF. inversion A; subst; simpl.
  - apply u_finish; auto. constructor.
  - econstructor; eauto. econstructor; eauto. constructor.
Qed.

Lemma u_as_int : forall v v', UV v v' -> as_int v' = as_int v.
Proof. intros v v' H. inversion H; subst; reflexivity. Qed.

Definition nx (t : cterm) : Prop := match t with CXtor _ _ _ _ => False | _ => True end.
Definition hp (t : cterm) : Prop := match t with CXtor _ _ _ _ | COp _ _ _ => False | _ => True end.
Lemma cstep_heads : forall q pr ty k e, hp pr -> nx k ->
  cstep q (Run (CCut pr ty k) e) =
  match khead k e with inl kv => cut_with_k (is_codata q ty) pr e kv | inr why => stuck why end.
Proof. intros q pr ty k e A B. destruct pr; try contradiction; destruct k; try contradiction; reflexivity. Qed.
Lemma cstep_xtorK : forall q pr ty c tag args t e, nx pr ->
  cstep q (Run (CCut pr ty (CXtor c tag args t)) e) = start_args q args e (FinXtorK tag (MCutP (is_codata q ty) pr e)).
Proof. intros q pr ty c tag args t e A. destruct pr; try contradiction; reflexivity. Qed.
Lemma cstep_op : forall q a o b ty k e, nx k ->
  cstep q (Run (CCut (COp a o b) ty k) e) = SNext (Arg (CProducer a) e (MOpL o b e (MCutK k e))).
Proof. intros q a o b ty k e A. destruct k; try contradiction; reflexivity. Qed.

Lemma u_heads : forall G pr pr' k k' ty e e', aeq_t G pr pr' -> aeq_t G k k' -> UE G e e' ->
  sres_u (match khead k e with inl kv => cut_with_k (is_codata p ty) pr e kv | inr why => stuck why end)
         (match khead k' e' with inl kv => cut_with_k (is_codata p1 ty) pr' e' kv | inr why => stuck why end).
Proof.
  intros G pr pr' k k' ty e e' AP AK HE. rewrite Hcod.
  pose proof (u_khead _ _ _ _ _ AK HE) as KH.
  destruct (khead k e), (khead k' e'); try contradiction; simpl; [|congruence].
  eapply u_cut_with_k; eauto.
Qed.

Lemma u_cut : forall G pr pr' k k' ty e e', aeq_t G pr pr' -> aeq_t G k k' -> UE G e e' ->
  sres_u (cstep p (Run (CCut pr ty k) e)) (cstep p1 (Run (CCut pr' ty k') e')).
Proof.
  intros G pr pr' k k' ty e e' AP AK HE.
  pose proof AP as AP0. pose proof AK as AK0.
  inversion AP; subst.
  5: { simpl. eapply u_start; eauto. constructor. econstructor; eauto. }
  all: inversion AK; subst.
  all: try (rewrite !cstep_xtorK by exact I; rewrite Hcod; eapply u_start; eauto; constructor; econstructor; eauto; fail).
  all: try (rewrite !cstep_heads by exact I; eapply u_heads; eauto; fail).
  all: rewrite !cstep_op by exact I; simpl; econstructor; eauto; [constructor; auto | econstructor; eauto; econstructor; eauto].
Qed.

Theorem u_step : forall c c', UC c c' -> sres_u (cstep p c) (cstep p1 c').
Proof.
  intros c c' H. inversion H; subst.
  - (* Run *)
    inversion H0; subst.
    + eapply u_cut; eauto.
    + simpl. econstructor; eauto; [constructor; auto | econstructor; eauto].
    + simpl. econstructor; eauto; [constructor; auto | econstructor; eauto].
    + simpl. eapply u_start; eauto. constructor.
    + simpl. econstructor; eauto; [constructor; auto | constructor].
  - (* Arg *)
    inversion H0; subst.
    + (* producer *)
      inversion H3; subst; simpl.
      * pose proof (ue_lookup _ _ _ H1 _ _ H4) as L.
        destruct (clookup e x) as [v|], (clookup e' x') as [v'|]; try contradiction; simpl; auto.
        destruct (UV_kind _ _ L) as [(a0 & b0 & -> & ->)|(a0 & b0 & -> & ->)]; simpl; auto.
        constructor; auto.
      * constructor; auto. constructor.
      * econstructor; eauto; [constructor; auto | econstructor; eauto].
      * rewrite Hcod. destruct (is_codata p ty).
        -- constructor; auto. econstructor; eauto.
        -- econstructor; eauto. constructor; auto. constructor; auto.
      * eapply u_start; eauto. constructor; auto.
      * constructor; auto. econstructor; eauto.
    + (* consumer *)
      inversion H3; subst; simpl; auto.
      * pose proof (ue_lookup _ _ _ H1 _ _ H4) as L.
        destruct (clookup e x) as [v|], (clookup e' x') as [v'|]; try contradiction; simpl; auto.
        destruct (UV_kind _ _ L) as [(a0 & b0 & -> & ->)|(a0 & b0 & -> & ->)]; simpl; auto.
        constructor; auto.
      * rewrite Hcod. destruct (is_codata p ty).
        -- econstructor; eauto. constructor; auto. constructor; auto.
        -- constructor; auto. econstructor; eauto.
      * eapply u_start; eauto. constructor; auto.
      * constructor; auto. econstructor; eauto.
  - (* App *)
    inversion H0; subst; simpl; rewrite ?(u_as_int _ _ H1).
    + (* MArgs *)
      inversion H3; subst.
      * apply u_finish; auto. apply UVs_rev_append; [assumption | constructor; [assumption | constructor]].
      * econstructor; eauto. econstructor; eauto. constructor; auto.
    + destruct (as_int v); simpl; auto. econstructor; eauto; [constructor; auto | constructor; auto].
    + destruct (as_int v); simpl; auto. destruct (eval_op (ax_binop o) x z); simpl; auto. constructor; auto. constructor.
    + destruct (as_int v); simpl; auto. inversion H2; subst.
      * econstructor; eauto. destruct (eval_cmp (ax_ifsort so) z 0); auto.
      * econstructor; eauto; [constructor; auto | econstructor; eauto].
    + destruct (as_int v); simpl; auto. econstructor; eauto. destruct (eval_cmp (ax_ifsort so) x z); auto.
    + destruct (as_int v); simpl; auto. repeat split; auto. econstructor; eauto.
    + destruct (as_int v); simpl; auto.
    + destruct (UV_kind _ _ H1) as [(a0 & b0 & -> & ->)|(a0 & b0 & -> & ->)]; simpl; auto.
      pose proof (u_khead _ _ _ _ _ H2 H3) as KH.
      destruct (khead k e), (khead k' e'); try contradiction; simpl; [|congruence].
      apply u_interact_val; auto.
    + destruct (UV_kind _ _ H1) as [(a0 & b0 & -> & ->)|(a0 & b0 & -> & ->)]; simpl; auto.
      eapply u_cut_with_k; eauto.
Qed.

(* ---------- whole runs ---------- *)
Theorem u_crun : forall fuel c c' out, UC c c' -> crun fuel p1 c' out = crun fuel p c out.
Proof.
  induction fuel as [|f IH]; intros c c' out H; simpl; [reflexivity|].
  pose proof (u_step c c' H) as S.
  destruct (cstep p c) as [c2|nl z c2|o], (cstep p1 c') as [c2'|nl' z' c2'|o']; simpl in S; try contradiction.
  - apply IH; exact S.
  - destruct S as (-> & -> & S). apply IH; exact S.
  - subst o'. reflexivity.
Qed.
End USim.
