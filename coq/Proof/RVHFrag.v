(* C08, heap statements: the fragment `stmt_h` of the RISC-V heap simulation (objects and closure
   environments of at most three fields: ONE block; every Switch has a clause; no print statement), and
   the fact that the code of every statement of the fragment contains an instruction of non-zero size
   (so an indirect jump to the address of its first instruction lands inside it, `RVHLayout.fwd_ok`). *)
From Coq Require Import List ZArith NArith String Bool Lia FMapPositive.
From SCC Require Import Base.Sexp Lang.AxSyn Sem.AxSem Model.ParMoves Model.Backend Model.RV Sem.RVSem Sem.RVWf
     Model.Linearize Model.LinCheck Generated.Constants Proof.LinBasics
     Proof.RVSel Proof.RVSimAddr Proof.BackendInv Proof.RVSimRel Proof.RVSimStmt Proof.RVSimClo Proof.RVHLayout.
Import ListNotations.
Open Scope Z_scope.
Open Scope list_scope.

Fixpoint stmt_h (s : stmt) : bool :=
  let clauses := fix go (cls : list (ident * ctx * stmt)) : bool :=
    match cls with
    | [] => true
    | (_, cc, b) :: r => Nat.leb (List.length cc) 3 && stmt_h b && go r
    end in
  match s with
  | Substitute _ next => stmt_h next
  | Call _ _ | Exit _ | Invoke _ _ _ _ => true
  | Let _ _ _ args next => Nat.leb (List.length args) 3 && stmt_h next
  | Switch _ _ cls => negb (XC.is_nil cls) && clauses cls
  | Create _ _ (Some env) cls next => Nat.leb (List.length env) 3 && clauses cls && stmt_h next
  | Create _ _ None _ _ => false
  | Literal _ _ next | Op _ _ _ _ next => stmt_h next
  | PrintI64 _ _ _ => false
  | IfC _ _ _ t e => stmt_h t && stmt_h e
  end.
Definition clauses_h (cls : list clause) : bool :=
  forallb (fun c => Nat.leb (List.length (cl_ctx c)) 3 && stmt_h (cl_body c)) cls.
Definition h_frag (p : prog) : bool := forallb (fun d => stmt_h (dbody d)) (pdefs p).

Lemma stmt_h_switch v t cls : stmt_h (Switch v t cls) = negb (XC.is_nil cls) && clauses_h cls.
Proof.
  cbn [stmt_h]. f_equal. unfold clauses_h. induction cls as [|[[x cc] b] r IH]; [reflexivity|].
  cbn [forallb cl_ctx cl_body fst snd]. now rewrite IH.
Qed.
Lemma stmt_h_create v t env cls next :
  stmt_h (Create v t (Some env) cls next) = Nat.leb (List.length env) 3 && clauses_h cls && stmt_h next.
Proof.
  cbn [stmt_h]. f_equal. f_equal. unfold clauses_h. induction cls as [|[[x cc] b] r IH]; [reflexivity|].
  cbn [forallb cl_ctx cl_body fst snd]. now rewrite IH.
Qed.
Lemma stmt_h_no_print : forall s, stmt_h s = true -> stmt_has_print s = false.
Proof.
  intros s. induction s using stmt_ind2; intros FR; cbn [stmt_has_print].
  - apply IHs. exact FR.
  - reflexivity.
  - cbn [stmt_h] in FR. apply andb_true_iff in FR as [_ FR]. apply IHs. exact FR.
  - rewrite stmt_h_switch in FR. apply andb_true_iff in FR as [_ FR]. unfold clauses_h in FR.
    induction cls as [|[[x cc] b] r IHr]; [reflexivity|]. inversion H as [|? ? P0 Pr]; subst. cbn [forallb cl_ctx cl_body fst snd] in FR.
    apply andb_true_iff in FR as [H1 H2]. apply andb_true_iff in H1 as [_ H1]. cbn [cl_body snd] in P0. rewrite (P0 H1). cbn [orb]. exact (IHr Pr H2).
  - destruct env as [env|]; [|discriminate]. rewrite stmt_h_create in FR. apply andb_true_iff in FR as [FR HN]. apply andb_true_iff in FR as [_ HC].
    rewrite (IHs HN), orb_false_r. unfold clauses_h in HC. clear IHs HN.
    induction cls as [|[[x cc] b] r IHr]; [reflexivity|]. inversion H as [|? ? P0 Pr]; subst. cbn [forallb cl_ctx cl_body fst snd] in HC.
    apply andb_true_iff in HC as [H1 H2]. apply andb_true_iff in H1 as [_ H1]. cbn [cl_body snd] in P0. rewrite (P0 H1). cbn [orb]. exact (IHr Pr H2).
  - reflexivity.
  - apply IHs. exact FR.
  - apply IHs. exact FR.
  - cbn [stmt_h] in FR. discriminate.
  - cbn [stmt_h] in FR. apply andb_true_iff in FR as [H1 H2]. rewrite IHs1, IHs2; auto.
  - reflexivity.
Qed.

Lemma has_nz_cons c r : isize c <> 0 -> has_nz (c :: r).
Proof. intros H. exists O, c. auto. Qed.

(* every statement of the fragment emits an instruction of non-zero size *)
Lemma cs_has_nz types : forall s c lc code lc',
  stmt_h s = true -> rcs types s c lc = Ok (code, lc') -> has_nz code.
Proof.
  intros s. induction s using stmt_ind2; intros c lc code lc' FR CS.
  - cbn [stmt_h] in FR. destruct (cs_substitute _ _ _ _ _ _ _ _ CS) as (c1 & lc1 & c2 & c3 & _ & _ & NX & ->).
    cbn [b_mark rv_backend app]. apply has_nz_app_r, has_nz_app_r. eauto.
  - destruct (cs_call _ _ _ _ _ _ _ _ CS) as (-> & _). apply has_nz_cons. cbn; lia.
  - destruct (cs_let _ _ _ _ _ _ _ _ _ _ CS) as (d & k & rest & arguments & c1 & lc1 & tmpv & c3 & _ & _ & _ & _ & _ & _ & ->).
    apply has_nz_app_r. apply has_nz_cons. apply isize_LI.
  - rewrite stmt_h_switch in FR. apply andb_true_iff in FR as [NE CH].
    destruct (cs_switch _ _ _ _ _ _ _ _ CS) as (c1 & c3 & _ & GC & ->).
    apply has_nz_app_r, has_nz_app_r.
    destruct cls as [|[[x cx] body] r]; [discriminate|]. cbn [gclauses] in GC.
    destruct (r_load cx (removelast c) (lc + 1)%N) as [[cl lc1]|]; cbn [rbind] in GC; [|discriminate].
    destruct (rcs types body (removelast c ++ cx) lc1) as [[cb lc2]|] eqn:BD; cbn [rbind] in GC; [|discriminate].
    destruct (gclauses _ _ _ _ r lc2) as [[cr lc3]|]; cbn [rbind] in GC; [|discriminate]. inversion GC; subst.
    inversion H as [|? ? P0 _]; subst. cbn [cl_body snd] in P0.
    unfold clauses_h in CH. cbn [forallb cl_ctx cl_body fst snd] in CH. apply andb_true_iff in CH as [CH _]. apply andb_true_iff in CH as [_ CH].
    apply (has_nz_app_r [_]), has_nz_app_r, has_nz_app_l. eapply P0; eauto.
  - destruct env as [env|]; [|discriminate].
    destruct (cs_create _ _ _ _ _ _ _ _ _ _ _ CS) as (rest & cenv & c1 & lc1 & tmpv & c3 & lc3 & c5 & _ & _ & _ & _ & _ & ->).
    cbn [b_mark b_load_label rv_backend app r_load_label]. apply has_nz_app_r. apply has_nz_cons. cbn; lia.
  - destruct (cs_invoke _ _ _ _ _ _ _ _ _ _ CS) as (tmpv & d & _ & _ & _ & CD).
    destruct (Nat.leb (List.length (txtors d)) 1); [subst code; apply has_nz_cons; cbn; lia|].
    destruct CD as (k & _ & ->). cbn [b_mark b_add_and_jump rv_backend app]. unfold r_add_and_jump.
    destruct (addi_fits _); apply has_nz_cons; [cbn; lia|apply isize_LI].
  - destruct (cs_literal _ _ _ _ _ _ _ _ _ CS) as (tv & c2 & _ & _ & ->). apply has_nz_cons. apply isize_LI.
  - destruct (cs_op _ _ _ _ _ _ _ _ _ _ _ CS) as (tv & ta & tb & c2 & _ & _ & _ & _ & ->). destruct o; apply has_nz_cons; cbn; lia.
  - cbn [stmt_h] in FR. discriminate.
  - destruct (cs_ifc _ _ _ _ _ _ _ _ _ _ _ CS) as (ta & c1 & c2 & lc2 & c3 & _ & C1 & _ & _ & ->).
    destruct b as [b|]; [destruct C1 as (tb & _ & ->)|subst c1]; destruct so; apply has_nz_cons; cbn; lia.
  - destruct (cs_exit _ _ _ _ _ _ _ CS) as (tv & _ & -> & _). apply has_nz_cons. cbn; lia.
Qed.
