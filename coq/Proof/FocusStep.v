(* C03, semantic preservation, part 4: administrative runs of the focused program (argument lists
   of variables, the cut that performs an operation, ifc/print/exit on variables) and the end of an
   argument list ([finish_sim]): the statement built by the vector continuation of `bind_many`
   reaches what [finish_args] reaches in the source. *)
From Coq Require Import List ZArith NArith String Bool Lia.
From SCC Require Import Base.Sexp Lang.CoreSyn Sem.AxSem Sem.CoreSem Model.Backend Model.Uniquify Model.Focus
     Model.FocusCheck Proof.FocusKont Proof.FocusRel Proof.FocusMono Proof.FocusSim.
From SCC Require Import Model.FocusGuard.
Import ListNotations.
Open Scope list_scope.
Open Scope N_scope.

Ltac rinvn H a b E := apply rbind_ok in H; destruct H as ([a b] & E & H).

Section Step.
Variables (ps qt : cprog) (M0 : N).
Hypothesis Hcod : forall ty, is_codata qt ty = is_codata ps ty.
(* the definitions of the target are the focused definitions of the source *)
Hypothesis Hdefs : forall f d, cfind_def ps f = Some d ->
  exists b' mc m2, focus_stmt (cdbody d) mc = Ok (b', m2) /\ M0 <= mc /\ ids_le_stmt M0 (cdbody d) = true /\
                   cfind_def qt f = Some (mkcd (cdname d) (cdctx d) (fs2c_stmt b')).

Notation V := (V ps M0).
Notation Vs := (Vs ps M0).
Notation env_rel := (env_rel ps M0).
Notation mk_rel := (mk_rel ps M0).
Notation kv_rel := (kv_rel ps M0).
Notation crel := (crel ps M0).
Notation tsteps := (tsteps qt).
Notation thalt := (thalt qt).
Notation sres_sim := (sres_sim ps qt M0).
Notation sres_rel := (sres_rel ps M0).

(* the binding [b] holds [v'] in [e'] and its chirality is that of the value *)
Definition look (e' : cenv) (b : cbinding) (v' : bval) : Prop :=
  clookup e' (cbvar b) = Some v' /\ bkind v' = cbchi b.

Lemma fs_arg_step : forall e' b v' m, look e' b v' -> cstep qt (Arg (fs_arg b) e' m) = SNext (App m v').
Proof.
  intros e' b v' m [L K]. unfold fs_arg. destruct (cbchi b); destruct v' as [pv|kv]; simpl in K; try discriminate;
    simpl; rewrite L; reflexivity.
Qed.

Lemma fs_args_run : forall bs vs' e' f, Forall2 (look e') bs vs' ->
  forall done b v', look e' b v' ->
  exists c1', tsteps (Arg (fs_arg b) e' (MArgs done (map fs_arg bs) e' f)) [] c1' /\
              cstep qt c1' = finish_args qt f (rev_append done [] ++ v' :: vs').
Proof.
  induction 1 as [|b2 v2 bs vs' L2 HF IH]; intros done b v' L.
  - exists (App (MArgs done [] e' f) v'). split.
    + eapply tsteps_next; [apply fs_arg_step; exact L | apply tsteps_refl].
    + simpl. rewrite !rev_append_rev. simpl. rewrite ?app_nil_r. reflexivity.
  - destruct (IH (v' :: done) b2 v2 L2) as (c1' & T & S).
    exists c1'. split.
    + eapply tsteps_next; [apply fs_arg_step; exact L|].
      eapply tsteps_next; [simpl; reflexivity|]. exact T.
    + rewrite S. f_equal. simpl. rewrite !rev_append_rev. simpl. rewrite ?app_nil_r, <- ?app_assoc. reflexivity.
Qed.

Lemma fs_start_run : forall bs vs' e' f c0', Forall2 (look e') bs vs' ->
  cstep qt c0' = start_args qt (map fs_arg bs) e' f ->
  exists c1', tsteps c0' [] c1' /\ cstep qt c1' = finish_args qt f vs'.
Proof.
  intros bs vs' e' f c0' HF S. destruct HF as [|b v' bs vs' L HF].
  - exists c0'. split; [apply tsteps_refl | exact S].
  - simpl in S. destruct (fs_args_run _ _ _ f HF [] b v' L) as (c1' & T & S1).
    exists c1'. split; [eapply tsteps_next; [exact S | exact T] | exact S1].
Qed.

(* ---------- unwinding the accumulated bindings ---------- *)
Lemma kv_unwind : forall c done f kv e', kv_rel c done f kv e' ->
  exists bs0 vs0' kvf,
    (forall bs m, kv bs m = kvf (bs0 ++ bs) m) /\ Forall2 (look e') bs0 vs0' /\ Vs (rev done) vs0' /\
    kv_rel c [] f kvf e'.
Proof.
  induction 1 as [c v v' done f b kv e' L HV HK HB R IH| | | | |];
    try (eexists [], [], _; repeat split; [constructor | constructor | econstructor; eauto]).
  destruct IH as (bs0 & vs0' & kvf & EQ & LK & VR & FR).
  exists (bs0 ++ [b]), (vs0' ++ [v']), kvf. repeat split.
  - intros bs m. unfold cons_kv. rewrite EQ, <- app_assoc. reflexivity.
  - apply Forall2_app; [exact LK|]. constructor; [|constructor]. split; [exact L|].
    rewrite (V_kind _ _ _ _ HV). exact HK.
  - simpl. apply Vs_app; [exact VR|]. constructor; [exact HV | constructor].
  - exact FR.
Qed.

(* focus_term never returns an xtor or an operator *)
Lemma focus_term_shape : forall c t m t' m', focus_term c t m = Ok (t', m') ->
  match t' with FsXtor _ _ _ _ | FsOp _ _ _ => False | _ => True end.
Proof.
  intros c t m t' m' H. destruct t; simpl in H.
  - okinv H. exact I.
  - destruct c; [okinv H; exact I | discriminate].
  - destruct c; discriminate.
  - rinv H. okinv H. exact I.
  - discriminate.
  - rinv H. okinv H. exact I.
Qed.

(* ---------- the end of an argument list ---------- *)
Lemma finish_sim : forall c f kvf e' bs vs vs' mc sk m2,
  kv_rel c [] f kvf e' -> kvf bs mc = Ok (sk, m2) -> M0 <= c -> c <= mc ->
  Forall2 (look e') bs vs' -> Vs vs vs' ->
  sres_sim (finish_args ps f vs) (Run (fs2c_stmt sk) e').
Proof.
  intros c f kvf e' bs vs vs' mc sk m2 R K L0 L1 LK HV.
  inversion R; subst.
  - (* xtor producer as an argument *)
    unfold xtorP_kv in K. simpl in K. rinvn K f0 mk0 E. okinv K. simpl finish_args.
    destruct (fs_start_run bs vs' e' (FinXtorP tag (MCutK (CMu CCns ("x"%string, mc + 1) (fs2c_stmt f0) ty) e'))
                (Run (fs2c_stmt (FsCut (FsXtor c' tag bs ty) ty (FsMu CCns ("x"%string, mc + 1) f0 ty))) e') LK)
      as (c1' & T & S); [reflexivity|].
    simpl in S.
    eapply sres_rel_sim with (c1' := App (MCutK (CMu CCns ("x"%string, mc + 1) (fs2c_stmt f0) ty) e') (BP (PCtor tag vs'))).
    2: { eapply tsteps_trans0; [exact T|]. eapply tsteps_next; [exact S | apply tsteps_refl]. }
    2: { simpl. reflexivity. }
    eexists. split; [reflexivity|].
    eapply (crel_resume ps M0) with (b := mkcb ("x"%string, mc + 1) CPrd ty) (c := c); eauto; simpl; try lia.
    constructor; exact HV.
  - (* xtor consumer as an argument *)
    unfold xtorK_kv in K. simpl in K. rinvn K f0 mk0 E. okinv K. simpl finish_args.
    destruct (fs_start_run bs vs' e'
                (FinXtorK tag (MCutP (is_codata qt ty) (CMu CPrd ("a"%string, mc + 1) (fs2c_stmt f0) ty) e'))
                (Run (fs2c_stmt (FsCut (FsMu CPrd ("a"%string, mc + 1) f0 ty) ty (FsXtor c' tag bs ty))) e') LK)
      as (c1' & T & S); [reflexivity|].
    simpl in S.
    eapply sres_rel_sim with
      (c1' := App (MCutP (is_codata qt ty) (CMu CPrd ("a"%string, mc + 1) (fs2c_stmt f0) ty) e') (BK (KDtor tag vs'))).
    2: { eapply tsteps_trans0; [exact T|]. eapply tsteps_next; [exact S | apply tsteps_refl]. }
    2: { simpl. destruct (is_codata qt ty); reflexivity. }
    eexists. split; [reflexivity|].
    eapply (crel_resume ps M0) with (b := mkcb ("a"%string, mc + 1) CCns ty) (c := c); eauto; simpl; try lia.
    constructor; exact HV.
  - (* cut with a constructor *)
    unfold cutP_kv in K. rinvn K f0 mk0 E. okinv K. simpl finish_args.
    destruct (fs_start_run bs vs' e' (FinXtorP tag (MCutK (fs2c_term f0) e'))
                (Run (fs2c_stmt (FsCut (FsXtor pc tag bs ty) ty f0)) e') LK) as (c1' & T & S); [reflexivity|].
    simpl in S.
    eapply sres_rel_sim; [|exact T|exact S].
    eexists. split; [reflexivity|]. eapply CR_cutK; eauto; try lia. constructor; exact HV.
  - (* cut with a destructor *)
    unfold cutK_kv in K. rinvn K f0 mk0 E. okinv K. simpl finish_args.
    pose proof (focus_term_shape _ _ _ _ _ E) as SH.
    destruct (fs_start_run bs vs' e' (FinXtorK tag (MCutP (is_codata qt ty) (fs2c_term f0) e'))
                (Run (fs2c_stmt (FsCut f0 ty (FsXtor qc tag bs ty))) e') LK) as (c1' & T & S).
    { destruct f0; try contradiction; reflexivity. }
    simpl in S.
    eapply sres_rel_sim; [|exact T|exact S].
    eexists. split; [reflexivity|]. rewrite Hcod. eapply CR_cutP; eauto; try lia. constructor; exact HV.
  - (* call *)
    unfold call_kv in K. okinv K. simpl finish_args.
    destruct (cfind_def ps f0) as [d|] eqn:FD; [|exact I].
    destruct (Hdefs _ _ FD) as (b' & mcd & m2d & FB & LB & IB & FD').
    destruct (cbind (cvars (cdctx d)) vs []) as [e1|] eqn:B; [|exact I].
    destruct (cbind_rel ps M0 _ _ _ _ _ _ HV (ER_nil ps M0) B) as (e1' & B' & R1).
    destruct (fs_start_run bs vs' e' (FinCall f0) (Run (fs2c_stmt (FsCall f0 bs)) e') LK) as (c1' & T & S); [reflexivity|].
    simpl in S. rewrite FD' in S. simpl in S. rewrite B' in S.
    eapply sres_rel_sim; [|exact T|exact S].
    eexists. split; [reflexivity|]. eapply CR_run; eauto.
Qed.

(* ---------- the start of an argument list ---------- *)
Lemma start_sim : forall args kv mc s' m2 c f e e',
  bind_many args kv mc = Ok (s', m2) -> kv_rel c [] f kv e' -> M0 <= c -> c <= mc ->
  forallb (ids_le_arg M0) args = true -> env_rel e e' ->
  sres_sim (start_args ps args e f) (Run (fs2c_stmt s') e').
Proof.
  intros args kv mc s' m2 c f e e' B R L0 L1 IA E.
  destruct args as [|a r].
  - rewrite bind_many_nil in B. simpl start_args.
    eapply finish_sim with (bs := []) (vs' := []); eauto; constructor.
  - rewrite bind_many_cons in B. simpl start_args. simpl in IA. apply andb_true_iff in IA. destruct IA as [IA1 IA2].
    eexists. split; [apply tsteps_refl|].
    eapply CR_arg with (c := c); eauto. apply MR_args; assumption.
Qed.

(* ---------- administrative statements on variables ---------- *)
Lemma t_var : forall e' v pv m, clookup e' v = Some (BP pv) ->
  cstep qt (Arg (CProducer (fs_var v)) e' m) = SNext (App m (BP pv)).
Proof. intros e' v pv m L. simpl. rewrite L. reflexivity. Qed.

Lemma t_op : forall e' a1 a2 x y o ty K, not_xtor K ->
  clookup e' a1 = Some (BP (PInt x)) -> clookup e' a2 = Some (BP (PInt y)) ->
  tsteps (Run (CCut (COp (fs_var a1) o (fs_var a2)) ty K) e') [] (App (MOpR o x (MCutK K e')) (BP (PInt y))).
Proof.
  intros e' a1 a2 x y o ty K NK L1 L2.
  eapply tsteps_next. { destruct K; try contradiction; reflexivity. }
  eapply tsteps_next. { apply t_var; exact L1. }
  eapply tsteps_next. { reflexivity. }
  eapply tsteps_next. { apply t_var; exact L2. }
  apply tsteps_refl.
Qed.

Lemma t_if1 : forall e' a x so t el,
  clookup e' a = Some (BP (PInt x)) ->
  tsteps (Run (CIfC so (fs_var a) None t el) e') [] (Run (if eval_cmp (ax_ifsort so) x 0 then t else el) e').
Proof.
  intros e' a x so t el L.
  eapply tsteps_next. { reflexivity. }
  eapply tsteps_next. { apply t_var; exact L. }
  eapply tsteps_next. { reflexivity. }
  apply tsteps_refl.
Qed.
Lemma t_if2 : forall e' a b x y so t el,
  clookup e' a = Some (BP (PInt x)) -> clookup e' b = Some (BP (PInt y)) ->
  tsteps (Run (CIfC so (fs_var a) (Some (fs_var b)) t el) e') [] (Run (if eval_cmp (ax_ifsort so) x y then t else el) e').
Proof.
  intros e' a b x y so t el L1 L2.
  eapply tsteps_next. { reflexivity. }
  eapply tsteps_next. { apply t_var; exact L1. }
  eapply tsteps_next. { reflexivity. }
  eapply tsteps_next. { apply t_var; exact L2. }
  eapply tsteps_next. { reflexivity. }
  apply tsteps_refl.
Qed.
Lemma t_print : forall e' a z nl next,
  clookup e' a = Some (BP (PInt z)) -> tsteps (Run (CPrint nl (fs_var a) next) e') [(nl, z)] (Run next e').
Proof.
  intros e' a z nl next L.
  eapply tsteps_next. { reflexivity. }
  eapply tsteps_next. { apply t_var; exact L. }
  apply tsteps_print. reflexivity.
Qed.
Lemma t_exit : forall e' a z ty, clookup e' a = Some (BP (PInt z)) -> thalt (Run (CExit (fs_var a) ty) e') (OExit z).
Proof.
  intros e' a z ty L.
  eapply thalt_steps.
  - eapply tsteps_next. { reflexivity. } eapply tsteps_next. { apply t_var; exact L. } apply tsteps_refl.
  - apply thalt_now. reflexivity.
Qed.

End Step.
