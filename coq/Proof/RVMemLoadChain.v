(* C09 on RISC-V: `r_load` of ANY number of variables (objects chained over several blocks, axcut2rv64 memory.rs
   load / load_fields with block positions / load_values / load_value) refines `Heap.load_object (nlinks n) p` on the
   ISA semantics Sem/RVSem.v, in both modes (Release: the last reference, every block of the chain goes onto the reuse
   list; Share: the count of the head is decremented and every loaded pointer gains a reference).  The RISC-V
   counterpart of Proof/X86MemLoad.v + X86MemLoadChain.v and of Proof/A64MemLoad.v + A64MemLoadChain.v; there are no
   spill slots, so no evacuation of a block register:
     rv_load_value / rv_load_values   the loads (and shares) of one block, against the abstract `lv_abs`;
     rv_load_block                    one block of load_fields: (release,) (link,) values;
     rv_load_fields                   the recursion of load_fields, against the abstract walk `lf_abs` in emission order;
     rv_load_walk, rv_load_chain      the header test, then the Release walk or decrement + Share walk = Heap.load_object.
   SHARED WITH x86-64 / AArch64 (qualified names, nothing copied): share_on, lv_abs, lv_kids (Proof/X86MemLoad.v),
   blk_abs, lf_ptr, lf_abs, lf_ok, lf_addrs, lf_share_ok, lf_ext, lf_abs_release_load_object, lf_abs_share_load_object
   (Proof/X86MemLoadChain.v). *)
From Coq Require Import List ZArith NArith String Bool Lia FMapPositive.
From SCC Require Import Base.Sexp Lang.AxSyn Sem.AxSem Sem.AxHeap Model.Backend Model.RV Sem.RVSem Generated.Constants
     Proof.RVSel Proof.RVHeapAbs Proof.RVHDefs Proof.RVHMem Proof.RVMemStoreChain.
From SCC Require Model.Heap Model.X86 Proof.X86Mem Proof.X86MemFrame Proof.X86MemStore Proof.X86MemStoreChain
     Proof.X86MemLoad Proof.X86MemLoadChain Proof.X86HeapDefs.
Import ListNotations.
Open Scope list_scope.
Open Scope Z_scope.

Notation share_on := X86MemLoad.share_on.
Notation lv_abs := X86MemLoad.lv_abs.
Notation lv_kids := X86MemLoad.lv_kids.
Notation blk_abs := X86MemLoadChain.blk_abs.
Notation lf_ptr := X86MemLoadChain.lf_ptr.
Notation lf_abs := X86MemLoadChain.lf_abs.
Notation lf_ok := X86MemLoadChain.lf_ok.
Notation blk_addrs := X86MemLoadChain.blk_addrs.
Notation lf_addrs := X86MemLoadChain.lf_addrs.
Notation lf_share_ok := X86MemLoadChain.lf_share_ok.
Notation XLast := X86.Last.

(* the modes / block positions of Model/RV.v in the vocabulary of the shared abstract walk *)
Definition xm (m : load_mode) : X86.load_mode := match m with Release => X86.Release | Share => X86.Share end.
Definition xbp (b : block_position) : X86.block_position := match b with Last => X86.Last | Other => X86.Other end.
Lemma xm_share m : xm m = X86.Share -> m = Share. Proof. destruct m; [discriminate|reflexivity]. Qed.
Lemma bp_n_x bp : X86.bp_n (xbp bp) = bp_n bp. Proof. destruct bp; reflexivity. Qed.
Ltac fo := change X86.field_offset with field_offset in *.

Definition nonblk_same (s s' : rstate) : Prop := forall a, ~ is_blk a -> hword s' a = hword s a.
Lemma nonblk_same_refl s : nonblk_same s s. Proof. intros a _. reflexivity. Qed.
Lemma nonblk_same_trans s1 s2 s3 : nonblk_same s1 s2 -> nonblk_same s2 s3 -> nonblk_same s1 s3.
Proof. intros A B a Ha. rewrite B, A by exact Ha. reflexivity. Qed.

Lemma field_not_blk p t j : is_blk p -> (j < 3)%N -> ~ is_blk (p + field_offset t j).
Proof. intros Hp Hj. apply not_blk_off; [exact Hp|]. rewrite fo_val. destruct t; cbn [tnum_n]; lia. Qed.

Lemma abs_heap_eqB F s s' :
  (forall a, hword s' a = hword s a) -> rget s' HEAP = rget s HEAP -> rget s' FREE = rget s FREE ->
  st_eqB (abs_heap F s') (abs_heap F s).
Proof.
  intros W H1 H2. unfold abs_heap, reg_or0. rewrite H1, H2. split; [reflexivity|]. split; [reflexivity|]. split; [reflexivity|].
  intros x _. cbn [Heap.m]. unfold abs_mem. now rewrite !W.
Qed.

Lemma rtp_special k : rtp k <> ZERO /\ rtp k <> TEMP /\ rtp k <> HEAP /\ rtp k <> FREE.
Proof. unfold rtp. change ZERO with 0%N. change TEMP with 1%N. change HEAP with 2%N. change FREE with 3%N. lia. Qed.
Lemma rtp_inj k k' : rtp k = rtp k' -> k = k'. Proof. unfold rtp. lia. Qed.
Lemma four_special r : (4 <= r)%N -> r <> ZERO /\ r <> TEMP /\ r <> HEAP /\ r <> FREE.
Proof. change ZERO with 0%N. change TEMP with 1%N. change HEAP with 2%N. change FREE with 3%N. lia. Qed.

Section Load.
Variable im : image.

(* ---------- load_value: integer slot, pointer slot, share ---------- *)
Lemma load_value_shape b c blk j m lc cs lc' :
  load_value b c blk j m lc = Ok (cs, lc') ->
  let L := List.length c in
  let cS := [LW (pos_reg Snd L) blk (field_offset Snd j)] in
  let cF := [LW (pos_reg Fst L) blk (field_offset Fst j)] in
  let sh := r_share_block_n (pos_reg Fst L) 1 lc in
  (L < 14)%nat /\
  ((bchi b = Ext /\ cs = cS /\ lc' = lc) \/
   (bchi b <> Ext /\ m = Release /\ cs = cS ++ cF /\ lc' = lc) \/
   (bchi b <> Ext /\ m = Share /\ cs = cS ++ cF ++ fst sh /\ lc' = snd sh)).
Proof.
  intros H L cS cF sh. unfold load_value, load_field in H.
  destruct (r_fresh Snd c) as [tS|] eqn:ES; [|discriminate]. cbn [rbind] in H.
  assert (HL : (L < 14)%nat).
  { unfold r_fresh, temporary_from_position in ES. fold L in ES.
    destruct (N.ltb_spec (2 * N.of_nat L + tnum_n Snd + RESERVED) REGISTER_NUM) as [K|K]; [|discriminate].
    cbn [tnum_n] in K. change RESERVED with 4%N in K. change REGISTER_NUM with 32%N in K. lia. }
  apply r_fresh_ok in ES. subst tS. fold L in H. split; [exact HL|].
  destruct (bchi b) eqn:Echi.
  3:{ inversion H. left. auto. }
  all: right;
    destruct (r_fresh Fst c) as [tF|] eqn:EF; [|discriminate]; cbn [rbind] in H;
    apply r_fresh_ok in EF; subst tF; fold L in H;
    destruct m;
    [ left; inversion H; repeat split; auto; discriminate
    | right; fold sh in H; destruct sh as [c3 lc1]; inversion H; repeat split; auto; discriminate ].
Qed.

Lemma rv_load_value pos b c blk j m lc cs lc' s p F h0 f0 :
  load_value b c blk j m lc = Ok (cs, lc') ->
  placed im pos cs -> (j < 3)%N ->
  rget s blk = Some p -> is_blk p -> rget s HEAP = Some h0 -> rget s FREE = Some f0 ->
  let L := List.length c in
  blk <> pos_reg Snd L ->
  let wS := hword s (p + field_offset Snd j) in
  let wF := hword s (p + field_offset Fst j) in
  (share_on (xm m) b = true -> wF = 0 \/ is_blk wF) ->
  (share_on (xm m) b = true -> wF <> 0 -> min_int <= hword s wF + 1 <= max_int) ->
  exists s', star im pos s (padd pos (List.length cs)) s' /\
    st_eqB (abs_heap F s') (if share_on (xm m) b then Heap.share wF 1 (abs_heap F s) else abs_heap F s) /\
    rget s' (pos_reg Snd L) = Some wS /\
    (bchi b <> Ext -> rget s' (pos_reg Fst L) = Some wF) /\
    (forall r, r <> pos_reg Fst L -> r <> pos_reg Snd L -> r <> TEMP -> rget s' r = rget s r) /\
    nonblk_same s s' /\
    (forall x, is_blk x -> hword s x <= hword s' x <= hword s x + 1).
Proof.
  intros Hlv PL Hj R Hb HH HF L NS wS wF Hkid Hwrap.
  destruct (load_value_shape _ _ _ _ _ _ _ _ Hlv) as (K1 & Hshape). fold L in K1, Hshape.
  pose proof (is_blk_valid_block p Hb) as VB.
  pose proof (pos_reg_reserved Snd L) as S4. pose proof (pos_reg_reserved Fst L) as F4.
  assert (NSF : pos_reg Snd L <> pos_reg Fst L) by (intros E; apply pos_reg_inj in E as [E _]; discriminate).
  set (s1 := rset s (pos_reg Snd L) (Some wS)).
  assert (R1 : rget s1 blk = Some p) by (unfold s1; rewrite rget_rset_other by congruence; exact R).
  set (s2 := rset s1 (pos_reg Fst L) (Some wF)).
  assert (W2 : forall a, hword s2 a = hword s a) by (intros a; unfold s2, s1; now rewrite !hword_rset).
  destruct Hshape as [(Hext & -> & ->)|[(Hnext & -> & -> & ->)|(Hnext & -> & -> & ->)]].
  - (* integer variable *)
    rewrite (X86MemLoad.share_on_ext (xm m) b Hext). destruct PL as [AC _].
    exists s1. split; [|split; [|split; [|split; [|split; [|split]]]]].
    + exec_next AC 0%nat step_LW; [exact R|apply field_fits12; exact Hj|apply field_valid; [exact VB|exact Hj]|]. apply star_refl.
    + apply abs_heap_eqB; unfold s1; [intros a; apply hword_rset| |]; apply rget_rset_other; destruct (four_special _ S4) as (_ & _ & A & B); congruence.
    + unfold s1. apply rget_rset_same. lia.
    + intros C. contradiction.
    + intros r _ N2 _. unfold s1. apply rget_rset_other. congruence.
    + intros a _. unfold s1. apply hword_rset.
    + intros x _. unfold s1. rewrite hword_rset. lia.
  - (* pointer, the block is released: no sharing *)
    change (xm Release) with X86.Release. rewrite X86MemLoad.share_on_release. destruct PL as [AC _].
    exists s2. split; [|split; [|split; [|split; [|split; [|split]]]]].
    + exec_next AC 0%nat step_LW; [exact R|apply field_fits12; exact Hj|apply field_valid; [exact VB|exact Hj]|].
      exec_next AC 1%nat step_LW; [exact R1|apply field_fits12; exact Hj|apply field_valid; [exact VB|exact Hj]|].
      match goal with |- star _ _ ?a _ _ => replace a with s2 by (unfold s2, s1, wS, wF; now rewrite hword_rset) end. apply star_refl.
    + apply abs_heap_eqB; [exact W2| |]; unfold s2, s1; rewrite !rget_rset_other; try reflexivity;
        destruct (four_special _ S4) as (_ & _ & A & B); destruct (four_special _ F4) as (_ & _ & A' & B'); congruence.
    + unfold s2. rewrite rget_rset_other by congruence. unfold s1. apply rget_rset_same. lia.
    + intros _. unfold s2. apply rget_rset_same. lia.
    + intros r N1 N2 _. unfold s2, s1. rewrite !rget_rset_other by congruence. reflexivity.
    + intros a _. apply W2.
    + intros x _. rewrite W2. lia.
  - (* pointer, shared *)
    change (xm Share) with X86.Share in *. rewrite (X86MemLoad.share_on_share b Hnext) in *.
    apply placed_app in PL as [[AC1 _] PL]. apply placed_app in PL as [[AC2 _] PL3].
    destruct (four_special _ S4) as (_ & ST & SH & SF). destruct (four_special _ F4) as (FZ & FT & FH & FF).
    assert (HH2 : rget s2 HEAP = Some h0) by (unfold s2, s1; rewrite !rget_rset_other by congruence; exact HH).
    assert (HF2 : rget s2 FREE = Some f0) by (unfold s2, s1; rewrite !rget_rset_other by congruence; exact HF).
    assert (RF2 : rget s2 (pos_reg Fst L) = Some wF) by (unfold s2; apply rget_rset_same; lia).
    destruct (rv_share_block_heap im _ (pos_reg Fst L) 1 lc s2 wF F h0 f0 PL3 FZ FT FH FF HH2 HF2 RF2 (Hkid eq_refl) eq_refl)
      as (s3 & ST3 & EQ3 & KR3 & NB3).
    { intros Hn. rewrite W2. change (Z.of_N 1) with 1. now apply Hwrap. }
    change (Z.of_N 1) with 1 in EQ3.
    assert (EQ2 : st_eqB (abs_heap F s2) (abs_heap F s)).
    { apply abs_heap_eqB; [exact W2| |]; unfold s2, s1; rewrite !rget_rset_other by congruence; reflexivity. }
    assert (EQ : st_eqB (abs_heap F s3) (Heap.share wF 1 (abs_heap F s))).
    { eapply st_eqB_trans; [exact EQ3|]. apply share_st_eqB; [exact EQ2|exact (Hkid eq_refl)]. }
    exists s3. split; [|split; [|split; [|split; [|split; [|split]]]]].
    + rewrite !app_length, !padd_add. eapply star_trans; [|exact ST3]. cbn [List.length padd].
      exec_next AC1 0%nat step_LW; [exact R|apply field_fits12; exact Hj|apply field_valid; [exact VB|exact Hj]|].
      exec_next AC2 0%nat step_LW; [exact R1|apply field_fits12; exact Hj|apply field_valid; [exact VB|exact Hj]|].
      match goal with |- star _ _ ?a _ _ => replace a with s2 by (unfold s2, s1, wS, wF; now rewrite hword_rset) end. apply star_refl.
    + exact EQ.
    + rewrite KR3 by congruence. unfold s2. rewrite rget_rset_other by congruence. unfold s1. apply rget_rset_same. lia.
    + intros _. rewrite KR3 by congruence. exact RF2.
    + intros r N1 N2 N3. rewrite KR3 by exact N3. unfold s2, s1. rewrite !rget_rset_other by congruence. reflexivity.
    + intros a Ha. rewrite NB3 by exact Ha. apply W2.
    + intros x Hx. destruct EQ as (_ & _ & _ & E4). pose proof (f_equal Heap.hdr (E4 x Hx)) as E. cbn [abs_heap Heap.m abs_mem Heap.hdr] in E.
      rewrite E. unfold Heap.share. destruct (wF =? 0); cbn [Heap.m abs_heap abs_mem Heap.hdr]; [lia|].
      unfold Heap.set_hdr, Heap.upd. destruct (Z.eqb_spec x wF) as [->|]; cbn [Heap.hdr abs_mem]; lia.
Qed.

(* ---------- load_values ---------- *)
Lemma rv_load_values : forall bsrev existing blk ff m lc cs lc' pos s p F,
  load_values bsrev existing blk ff m lc = Ok (cs, lc') ->
  (N.of_nat (List.length bsrev) <= ff)%N -> (ff <= 3)%N ->
  placed im pos cs -> (4 <= blk)%N ->
  (bsrev <> [] -> rget s blk = Some p) -> is_blk p ->
  (exists h0, rget s HEAP = Some h0) -> (exists f0, rget s FREE = Some f0) ->
  (forall k, (2 * N.of_nat (List.length existing) < k)%N -> blk <> rtp k) ->
  lv_kids (xm m) (hword s) bsrev p ff ->
  (m = Share -> forall x, is_blk x -> min_int <= hword s x /\ hword s x + Z.of_nat (List.length bsrev) <= max_int) ->
  exists s', star im pos s (padd pos (List.length cs)) s' /\
    st_eqB (abs_heap F s') (lv_abs (xm m) (hword s) bsrev p ff (abs_heap F s)) /\
    (forall i b, nth_error (rev bsrev) i = Some b ->
       rget s' (rtp (2 * N.of_nat (List.length existing + i) + 1)) =
         Some (hword s (p + field_offset Snd (ff - N.of_nat (List.length bsrev) + N.of_nat i))) /\
       (bchi b <> Ext -> rget s' (rtp (2 * N.of_nat (List.length existing + i))) =
         Some (hword s (p + field_offset Fst (ff - N.of_nat (List.length bsrev) + N.of_nat i))))) /\
    (forall r, r <> TEMP ->
       (forall k, (2 * N.of_nat (List.length existing) <= k < 2 * N.of_nat (List.length existing + List.length bsrev))%N -> r <> rtp k) ->
       rget s' r = rget s r) /\
    nonblk_same s s' /\
    (forall x, is_blk x -> hword s x <= hword s' x <= hword s x + Z.of_nat (List.length bsrev)).
Proof.
  induction bsrev as [|b rest IH]; intros existing blk ff m lc cs lc' pos s p F Hlv Hlen Hff PL B4 R Hb HH HF NK Kids Room.
  - cbn [load_values] in Hlv. inversion Hlv; subst cs lc'. exists s. cbn [List.length lv_abs padd rev].
    split; [apply star_refl|]. split; [apply st_eqB_refl|]. split; [intros i b Hi; destruct i; discriminate|].
    split; [auto|]. split; [apply nonblk_same_refl|]. intros; lia.
  - cbn [load_values] in Hlv. cbn [List.length] in Hlen.
    destruct (load_value b (existing ++ rev rest) blk (ff - 1) m lc) as [[c1 lc1]|] eqn:E1; [|discriminate]. cbn [rbind] in Hlv.
    destruct (load_values rest existing blk (ff - 1) m lc1) as [[c2 lc2]|] eqn:E2; [|discriminate]. cbn [rbind] in Hlv.
    inversion Hlv; subst cs lc'. clear Hlv.
    set (E := List.length existing) in *. set (n := List.length rest) in *.
    assert (HL' : List.length (existing ++ rev rest) = (E + n)%nat) by (rewrite app_length, rev_length; reflexivity).
    apply placed_app in PL as [PL1 PL2].
    cbn [X86MemLoad.lv_kids] in Kids. fo. destruct Kids as [Kid1 Kids2].
    specialize (R ltac:(discriminate)).
    set (wF := hword s (p + field_offset Fst (ff - 1))) in *.
    destruct HH as (h0 & HH). destruct HF as (f0 & HF).
    destruct (rv_load_value pos b (existing ++ rev rest) blk (ff - 1) m lc c1 lc1 s p F h0 f0 E1 PL1 ltac:(lia) R Hb HH HF)
      as (s1 & ST1 & EQ1 & VS & VF & Oth1 & NB1 & Hd1).
    { rewrite HL', pos_reg_rtp. cbn [tnum_n]. apply NK. lia. }
    { exact Kid1. }
    { intros Hsh Hn0. fold wF in Hn0 |- *. destruct (Kid1 Hsh) as [|Kb]; [contradiction|].
      destruct (Room (xm_share _ (X86MemLoad.share_on_true _ _ Hsh)) wF Kb). cbn [List.length] in *. lia. }
    rewrite HL' in VS, VF, Oth1. fold wF in EQ1, VF.
    assert (Hfld : forall t j, (j < 3)%N -> hword s1 (p + field_offset t j) = hword s (p + field_offset t j)).
    { intros t j Hj. apply NB1. now apply field_not_blk. }
    assert (SP : forall r, r = HEAP \/ r = FREE -> rget s1 r = rget s r).
    { intros r Hr. apply Oth1.
      - pose proof (pos_reg_reserved Fst (E + n)) as K. apply four_special in K. destruct Hr; subst; intuition congruence.
      - pose proof (pos_reg_reserved Snd (E + n)) as K. apply four_special in K. destruct Hr; subst; intuition congruence.
      - destruct Hr; subst; discriminate. }
    assert (R1 : rest <> [] -> rget s1 blk = Some p).
    { intros Hne. rewrite Oth1; [exact R| | |].
      - rewrite pos_reg_rtp. cbn [tnum_n]. apply NK. destruct rest; [contradiction|]. unfold n. cbn [List.length]. lia.
      - rewrite pos_reg_rtp. cbn [tnum_n]. apply NK. lia.
      - apply (four_special _ B4). }
    destruct (IH existing blk (ff - 1)%N m lc1 c2 lc2 _ s1 p F E2 ltac:(lia) ltac:(lia) PL2 B4 R1 Hb)
      as (s2 & ST2 & EQ2 & V2 & Oth2 & NB2' & Hd2).
    { exists h0. rewrite SP by auto. exact HH. }
    { exists f0. rewrite SP by auto. exact HF. }
    { exact NK. }
    { eapply X86MemLoad.lv_kids_congr; [|lia|exact Kids2]. intros j Hj. fo. symmetry. apply Hfld. lia. }
    { intros Hm x Hx. destruct (Room Hm x Hx), (Hd1 x Hx). cbn [List.length] in *. fold n. lia. }
    fold E n in V2, Oth2, Hd2.
    exists s2. split; [rewrite app_length, padd_add; eapply star_trans; eassumption|]. split; [|split; [|split; [|split]]].
    + cbn [X86MemLoad.lv_abs]. fo. fold wF. eapply st_eqB_trans; [exact EQ2|]. apply X86MemLoad.lv_abs_congr; auto; [|lia|].
      * intros j Hj. fo. apply Hfld. lia.
      * eapply X86MemLoad.lv_kids_congr; [|lia|exact Kids2]. intros j Hj. fo. symmetry. apply Hfld. lia.
    + cbn [rev List.length]. fold n. intros i b' Hi. destruct (Nat.lt_ge_cases i n) as [Hlt|Hge].
      * rewrite nth_error_app1 in Hi by (rewrite rev_length; exact Hlt).
        destruct (V2 i b' Hi) as [A B]. rewrite !Hfld in A, B by lia.
        replace (ff - N.of_nat (S n) + N.of_nat i)%N with (ff - 1 - N.of_nat n + N.of_nat i)%N by lia. auto.
      * assert (i = n).
        { assert (i < List.length (rev rest ++ [b]))%nat by (apply nth_error_Some; congruence).
          rewrite app_length, rev_length in H. cbn [List.length] in H. fold n in H. lia. }
        subst i. rewrite nth_error_app2, rev_length, Nat.sub_diag in Hi by (rewrite rev_length; apply Nat.le_refl).
        inversion Hi; subst b'.
        replace (ff - N.of_nat (S n) + N.of_nat n)%N with (ff - 1)%N by lia.
        rewrite pos_reg_rtp in VS, VF. cbn [tnum_n] in VS, VF. rewrite N.add_0_r in VF.
        split; [|intros Hne].
        -- rewrite Oth2; [exact VS|apply rtp_special|]. intros k Hk E'. apply rtp_inj in E'. lia.
        -- rewrite Oth2; [exact (VF Hne)|apply rtp_special|]. intros k Hk E'. apply rtp_inj in E'. lia.
    + intros r NT Hl. cbn [List.length] in Hl. fold n in Hl. rewrite Oth2, Oth1; auto.
      * rewrite pos_reg_rtp. cbn [tnum_n]. rewrite N.add_0_r. apply Hl. lia.
      * rewrite pos_reg_rtp. cbn [tnum_n]. apply Hl. lia.
      * intros k Hk. apply Hl. lia.
    + eapply nonblk_same_trans; eassumption.
    + intros x Hx. destruct (Hd1 x Hx), (Hd2 x Hx). cbn [List.length]. fold n. lia.
Qed.

(* ---------- one block of load_fields, the block pointer in register R ---------- *)
Definition rel_code (m : load_mode) (r : reg) : list rcode := match m with Release => release_block r | Share => [] end.
Definition link_load_code (bp : block_position) (klink : nat) (R : reg) : list rcode :=
  match bp with Other => [LW (pos_reg Fst klink) R (field_offset Fst 2)] | Last => [] end.

Lemma rv_load_block pos bp next epr m lc lv lc' klink s p F :
  let R := pos_reg Fst (List.length epr) in
  load_values (rev next) epr R (3 - bp_n bp) m lc = Ok (lv, lc') ->
  next <> [] -> (N.of_nat (List.length next) <= 3 - bp_n bp)%N ->
  klink = (List.length epr + List.length next)%nat ->
  placed im pos (rel_code m R ++ link_load_code bp klink R ++ lv) ->
  rget s R = Some p -> is_blk p -> (exists h, rget s HEAP = Some h) -> (exists f0, rget s FREE = Some f0) ->
  lv_kids (xm m) (hword s) (rev next) p (3 - bp_n bp) ->
  (m = Share -> forall x, is_blk x -> min_int <= hword s x /\ hword s x + Z.of_nat (List.length next) <= max_int) ->
  exists s', star im pos s (padd pos (List.length (rel_code m R ++ link_load_code bp klink R ++ lv))) s' /\
    st_eqB (abs_heap F s') (blk_abs (xm m) (hword s) next p (3 - bp_n bp) (abs_heap F s)) /\
    (bp = Other -> rget s' (pos_reg Fst klink) = Some (hword s (p + 48))) /\
    (forall i b, nth_error next i = Some b ->
       rget s' (rtp (2 * N.of_nat (List.length epr + i) + 1)) =
         Some (hword s (p + field_offset Snd (3 - bp_n bp - N.of_nat (List.length next) + N.of_nat i))) /\
       (bchi b <> Ext -> rget s' (rtp (2 * N.of_nat (List.length epr + i))) =
         Some (hword s (p + field_offset Fst (3 - bp_n bp - N.of_nat (List.length next) + N.of_nat i))))) /\
    (forall r, r <> TEMP -> r <> HEAP ->
       (forall k, (2 * N.of_nat (List.length epr) <= k <= 2 * N.of_nat klink)%N -> r <> rtp k) ->
       rget s' r = rget s r) /\
    nonblk_same s s' /\
    (m = Share -> forall x, is_blk x -> hword s x <= hword s' x <= hword s x + Z.of_nat (List.length next)) /\
    (exists h', rget s' HEAP = Some h').
Proof.
  intros R Hlv Hne Hlen Hkl PL R0 Hb (h & Hh) (f0 & Hf) Kids Room.
  set (cap := (3 - bp_n bp)%N) in *. set (Eb := List.length epr) in *.
  assert (Hcap : (cap <= 3)%N) by (unfold cap; destruct bp; cbn; lia).
  assert (Hn1 : (1 <= List.length next)%nat) by (destruct next; [contradiction|cbn; lia]).
  pose proof (pos_reg_reserved Fst Eb) as R4. fold R in R4. destruct (four_special R R4) as (RZ & RT & RH & RF).
  pose proof (is_blk_valid_block p Hb) as VB. pose proof (is_blk_valid_addr p Hb) as VA.
  apply placed_app in PL as [PL1 PL2]. apply placed_app in PL2 as [PL2 PL3].
  (* release *)
  assert (S1 : exists s1, star im pos s (padd pos (List.length (rel_code m R))) s1 /\
     st_eqB (abs_heap F s1) (match m with Release => Heap.release p (abs_heap F s) | Share => abs_heap F s end) /\
     (forall r', r' <> HEAP -> rget s1 r' = rget s r') /\ (exists h', rget s1 HEAP = Some h') /\
     (forall a, hword s1 a = if (match m with Release => true | Share => false end) && (a =? p) then h else hword s a)).
  { destruct m; cbn [rel_code].
    - pose proof (represents_own s h f0 Hh Hf) as RP.
      destruct (rv_release_block_refines im pos R s _ p PL1 RZ RH RP R0 VA) as (s1 & ST1 & RP1 & KR1).
      exists s1. split; [exact ST1|]. split; [|split; [exact KR1|split]].
      + eapply st_eqB_trans; [apply (represents_abs F _ _ RP1)|].
        eapply st_eqB_trans; [apply habs_release; exact Hb|]. apply release_st_eqB; [|exact Hb].
        apply st_eqB_sym. eapply abs_heap_own; eauto.
      + destruct RP1 as (_ & X & _). eauto.
      + intros a. destruct RP1 as (W & _). rewrite W. unfold a_release, own_heap, reg_or0. cbn [words hp]. rewrite Hh.
        unfold upd. cbn [andb]. reflexivity.
    - exists s. split; [apply star_refl|]. split; [apply st_eqB_refl|]. split; [auto|]. split; [eauto|]. auto. }
  destruct S1 as (s1 & ST1 & EQ1 & Oth1 & (h1 & H1) & W1).
  assert (R1 : rget s1 R = Some p) by (rewrite Oth1 by exact RH; exact R0).
  assert (Hoff : forall i, 0 < i < 64 -> hword s1 (p + i) = hword s (p + i)).
  { intros i Hi. rewrite W1. destruct (Z.eqb_spec (p + i) p); [lia|]. now rewrite andb_false_r. }
  assert (Hfld : forall t j, (j < 3)%N -> hword s1 (p + field_offset t j) = hword s (p + field_offset t j)).
  { intros t j Hj. apply Hoff. rewrite fo_val. destruct t; cbn [tnum_n]; lia. }
  assert (NB1 : nonblk_same s s1).
  { intros a Ha. rewrite W1. destruct (Z.eqb_spec a p) as [->|]; [contradiction|]. now rewrite andb_false_r. }
  (* the link *)
  assert (S2 : exists s2, star im (padd pos (List.length (rel_code m R))) s1
                            (padd (padd pos (List.length (rel_code m R))) (List.length (link_load_code bp klink R))) s2 /\
     (bp = Other -> rget s2 (pos_reg Fst klink) = Some (hword s (p + 48))) /\
     (forall r, r <> pos_reg Fst klink -> rget s2 r = rget s1 r) /\
     (forall a, hword s2 a = hword s1 a)).
  { destruct bp; cbn [link_load_code] in *.
    - exists s1. split; [apply star_refl|]. split; [discriminate|]. split; auto.
    - destruct PL2 as [AC2 _]. exists (rset s1 (pos_reg Fst klink) (Some (hword s1 (p + field_offset Fst 2)))).
      split; [|split; [|split]].
      + exec_next AC2 0%nat step_LW; [exact R1|apply field_fits12; lia|apply field_valid; [exact VB|lia]|]. apply star_refl.
      + intros _. rewrite rget_rset_same by (pose proof (pos_reg_reserved Fst klink); lia). rewrite Hfld by lia. reflexivity.
      + intros r Hr. apply rget_rset_other. congruence.
      + intros a. apply hword_rset. }
  destruct S2 as (s2 & ST2 & Vl & Oth2 & W2).
  assert (NKl : R <> pos_reg Fst klink) by (unfold R; intros E'; apply pos_reg_inj in E' as [_ E']; lia).
  assert (R2 : rget s2 R = Some p) by (rewrite Oth2 by exact NKl; exact R1).
  assert (SPk : forall r, r = HEAP \/ r = FREE -> r <> pos_reg Fst klink).
  { intros r Hr. pose proof (pos_reg_reserved Fst klink) as K. apply four_special in K. destruct Hr; subst; intuition congruence. }
  (* the values *)
  destruct (rv_load_values (rev next) epr R cap m lc lv lc' _ s2 p F Hlv ltac:(rewrite rev_length; exact Hlen) Hcap PL3 R4 (fun _ => R2) Hb)
    as (s3 & ST3 & EQ3 & V3 & Oth3 & NB3 & Hd3).
  { exists h1. rewrite Oth2 by (apply SPk; auto). exact H1. }
  { exists f0. rewrite Oth2 by (apply SPk; auto). rewrite Oth1 by discriminate. exact Hf. }
  { intros k Hk. unfold R. rewrite pos_reg_rtp. cbn [tnum_n]. intros E'. apply rtp_inj in E'. fold Eb in Hk. lia. }
  { eapply X86MemLoad.lv_kids_congr; [|rewrite rev_length; exact Hlen|exact Kids]. intros j Hj. fo. rewrite W2. symmetry. apply Hfld. lia. }
  { intros Hm x Hx. subst m. rewrite W2, W1. cbn [andb]. rewrite rev_length. now apply Room. }
  rewrite rev_length, rev_involutive in *.
  exists s3. split; [|split; [|split; [|split; [|split; [|split; [|split]]]]]].
  - rewrite !app_length, !padd_add. eapply star_trans; [exact ST1|]. eapply star_trans; [exact ST2|]. exact ST3.
  - unfold X86MemLoadChain.blk_abs. eapply st_eqB_trans; [exact EQ3|]. apply X86MemLoad.lv_abs_congr.
    + eapply st_eqB_trans; [|destruct m; exact EQ1]. apply abs_heap_eqB; [exact W2| |]; apply Oth2; apply SPk; auto.
    + intros j Hj. fo. rewrite W2. apply Hfld. lia.
    + rewrite rev_length. exact Hlen.
    + eapply X86MemLoad.lv_kids_congr; [|rewrite rev_length; exact Hlen|exact Kids]. intros j Hj. fo. rewrite W2. symmetry. apply Hfld. lia.
  - intros Ho. rewrite Oth3; [exact (Vl Ho)|apply (four_special _ (pos_reg_reserved Fst klink))|].
    intros k Hk. rewrite pos_reg_rtp. cbn [tnum_n]. intros E'. apply rtp_inj in E'. fold Eb in Hk. lia.
  - intros i b Hi. destruct (V3 i b Hi) as [A B].
    assert (Hi' : (i < List.length next)%nat) by (apply nth_error_Some; congruence).
    rewrite !W2, !Hfld in A, B by lia. auto.
  - intros r N1 N2 N3. rewrite Oth3; [|exact N1|intros k Hk; apply N3; fold Eb in Hk |- *; lia].
    rewrite Oth2; [apply Oth1; exact N2|]. rewrite pos_reg_rtp. cbn [tnum_n]. rewrite N.add_0_r. apply N3. fold Eb. lia.
  - eapply nonblk_same_trans; [exact NB1|]. intros a Ha. rewrite NB3 by exact Ha. apply W2.
  - intros Hm x Hx. subst m. specialize (Hd3 x Hx). rewrite W2, W1 in Hd3. cbn [andb] in Hd3. exact Hd3.
  - exists h1. rewrite Oth3; [rewrite Oth2 by (apply SPk; auto); exact H1|discriminate|].
    intros k _. apply not_eq_sym. apply rtp_special.
Qed.
End Load.

(* the abstract walk, unfolded once, in the vocabulary of Model/RV.v *)
Lemma lf_unfold f m w tl bp p : tl <> [] ->
  let cap := (3 - bp_n bp)%N in
  let rl := rest_len (List.length tl) cap in
  let rest := firstn rl tl in
  let next := skipn rl tl in
  let q := lf_ptr f w rest (xbp Other) p in
  lf_ptr (S f) w tl (xbp bp) p = w (q + 48) /\
  (forall a, lf_abs (S f) (xm m) w tl (xbp bp) p a = blk_abs (xm m) w next q cap (lf_abs f (xm m) w rest (xbp Other) p a)) /\
  (lf_ok (S f) (xm m) w tl (xbp bp) p -> lf_ok f (xm m) w rest (xbp Other) p /\ is_blk q /\ lv_kids (xm m) w (rev next) q cap) /\
  lf_addrs (S f) w tl (xbp bp) p = lf_addrs f w rest (xbp Other) p ++ blk_addrs q cap.
Proof.
  destruct tl as [|x r]; [contradiction|]. intros _. destruct bp; cbv zeta; (split; [reflexivity|split; [intros a; reflexivity|split; [intros H; exact H|reflexivity]]]).
Qed.

Section LoadChain.
Variable im : image.

(* ---------- the shape of one level of load_fields ---------- *)
Lemma load_fields_unfold fuel to_load existing bp m lc cs lc' :
  to_load <> [] -> load_fields (S fuel) to_load existing bp m lc = Ok (cs, lc') ->
  let rl := rest_len (List.length to_load) (3 - bp_n bp) in
  let epr := existing ++ firstn rl to_load in
  let R := pos_reg Fst (List.length epr) in
  let klink := List.length (existing ++ to_load) in
  exists c0 lc0 lv,
    load_fields fuel (firstn rl to_load) existing Other m lc = Ok (c0, lc0) /\
    load_values (rev (skipn rl to_load)) epr R (3 - bp_n bp) m lc0 = Ok (lv, lc') /\
    cs = c0 ++ rel_code m R ++ link_load_code bp klink R ++ lv.
Proof.
  intros Hne H rl epr R klink. cbn [load_fields] in H. destruct to_load as [|x r]; [contradiction|].
  change (FIELDS_PER_BLOCK - bp_n bp)%N with (3 - bp_n bp)%N in H.
  fold (X86MemStoreChain.rest_len (List.length (x :: r)) (3 - bp_n bp)) in H. fold rl in H. fold epr in H.
  destruct (load_fields fuel (firstn rl (x :: r)) existing Other m lc) as [[c0 lc0]|] eqn:E0; [|discriminate].
  cbn [rbind] in H.
  destruct (r_fresh Fst epr) as [t'|] eqn:Et; [|discriminate]. cbn [rbind] in H.
  apply r_fresh_ok in Et. subst t'. fold R in H.
  exists c0, lc0.
  destruct (match bp with Other => load_field Fst (existing ++ x :: r) R (FIELDS_PER_BLOCK - 1) | Last => Ok [] end) as [c2|] eqn:E2; [|discriminate].
  cbn [rbind] in H.
  assert (Ec2 : c2 = link_load_code bp klink R).
  { destruct bp; cbn [link_load_code]; [now inversion E2|]. change (FIELDS_PER_BLOCK - 1)%N with 2%N in E2. unfold load_field in E2.
    destruct (r_fresh Fst (existing ++ x :: r)) as [tl|] eqn:ET; [|discriminate]. cbn [rbind] in E2. apply r_fresh_ok in ET. subst tl.
    now inversion E2. }
  subst c2.
  destruct (load_values (rev (skipn rl (x :: r))) epr R (3 - bp_n bp) m lc0) as [[c3 lc3]|] eqn:E3; [|discriminate]. cbn [rbind] in H.
  inversion H; subst. exists c3. split; [reflexivity|]. split; [reflexivity|]. destruct m; reflexivity.
Qed.

(* ---------- the recursion of load_fields ---------- *)
Lemma rv_load_fields : forall fuel to_load existing bp m lc cs lc' pos s p F,
  load_fields fuel to_load existing bp m lc = Ok (cs, lc') ->
  (List.length to_load < fuel)%nat -> (bp = Last -> to_load <> []) ->
  placed im pos cs ->
  rget s (pos_reg Fst (List.length existing)) = Some p ->
  (exists h, rget s HEAP = Some h) -> (exists f0, rget s FREE = Some f0) ->
  lf_ok fuel (xm m) (hword s) to_load (xbp bp) p ->
  (m = Share -> forall x, is_blk x -> min_int <= hword s x /\ hword s x + Z.of_nat (List.length to_load) <= max_int) ->
  exists s', star im pos s (padd pos (List.length cs)) s' /\
    st_eqB (abs_heap F s') (lf_abs fuel (xm m) (hword s) to_load (xbp bp) p (abs_heap F s)) /\
    (bp = Other -> rget s' (pos_reg Fst (List.length existing + List.length to_load)) =
                   Some (lf_ptr fuel (hword s) to_load (xbp bp) p)) /\
    (forall i b, nth_error to_load i = Some b ->
       let A := lf_addrs fuel (hword s) to_load (xbp bp) p in
       let a := nth (List.length A - List.length to_load + i) A 0 in
       rget s' (rtp (2 * N.of_nat (List.length existing + i) + 1)) = Some (hword s (a + 8)) /\
       (bchi b <> Ext -> rget s' (rtp (2 * N.of_nat (List.length existing + i))) = Some (hword s a))) /\
    (forall r, r <> TEMP -> r <> HEAP ->
       (forall k, (2 * N.of_nat (List.length existing) <= k <= 2 * N.of_nat (List.length existing + List.length to_load))%N -> r <> rtp k) ->
       rget s' r = rget s r) /\
    nonblk_same s s' /\
    (m = Share -> forall x, is_blk x -> hword s x <= hword s' x <= hword s x + Z.of_nat (List.length to_load)) /\
    (exists h', rget s' HEAP = Some h').
Proof.
  induction fuel as [|fuel IH]; intros to_load existing bp m lc cs lc' pos s p F Hlf Hfuel HLast PL P HH HF OK Room; [lia|].
  set (E := List.length existing) in *.
  destruct to_load as [|x r].
  - (* nothing to load *)
    destruct bp; [specialize (HLast eq_refl); contradiction|].
    cbn [load_fields] in Hlf. inversion Hlf; subst cs lc'. cbn [List.length padd X86MemLoadChain.lf_abs X86MemLoadChain.lf_ptr xbp]. rewrite Nat.add_0_r.
    exists s. split; [apply star_refl|]. split; [apply st_eqB_refl|]. split; [intros _; exact P|].
    split; [intros i b Hi; destruct i; discriminate|]. split; [auto|]. split; [apply nonblk_same_refl|]. split; [intros; lia|exact HH].
  - set (to_load := x :: r) in *. set (n := List.length to_load) in *.
    assert (Hne : to_load <> []) by discriminate.
    destruct (load_fields_unfold fuel to_load existing bp m lc cs lc' Hne Hlf) as (c0 & lc0 & lv & Hlf0 & Hlv & ->).
    destruct (lf_unfold fuel m (hword s) to_load bp p Hne) as (Uptr & Uabs & Uok & Uaddrs).
    fold n in Hlf0, Hlv, PL, Uptr, Uabs, Uok, Uaddrs |- *.
    set (cap := (3 - bp_n bp)%N) in *. set (rl := rest_len n cap) in *.
    set (rest := firstn rl to_load) in *. set (next := skipn rl to_load) in *.
    assert (Hcap : (cap = 3 \/ cap = 2)%N) by (unfold cap; destruct bp; cbn; auto).
    assert (Hrl : rl = (n - N.to_nat cap)%nat) by apply X86MemStoreChain.rest_len_val.
    assert (Hn : (1 <= n)%nat) by (unfold n, to_load; cbn; lia).
    assert (Lrest : List.length rest = rl) by (unfold rest; rewrite firstn_length; fold n; lia).
    assert (Lnext : List.length next = (n - rl)%nat) by (unfold next; rewrite skipn_length; reflexivity).
    assert (Lepr : List.length (existing ++ rest) = (E + rl)%nat) by (rewrite app_length, Lrest; reflexivity).
    assert (Lall : List.length (existing ++ to_load) = (E + n)%nat) by (rewrite app_length; reflexivity).
    assert (Hsplit : to_load = rest ++ next) by (unfold rest, next; now rewrite firstn_skipn).
    assert (Hnext : next <> []) by (intros Hx; rewrite Hx in Lnext; cbn [List.length] in Lnext; lia).
    rewrite Lepr, Lall in *.
    destruct (Uok OK) as (OK0 & Hbq & Kids). clear Uok.
    rewrite Uabs, Uptr, Uaddrs. clear Uabs Uptr Uaddrs.
    set (q := lf_ptr fuel (hword s) rest (xbp Other) p) in *.
    apply placed_app in PL as [PL0 PL1].
    (* the blocks before *)
    destruct (IH rest existing Other m lc c0 lc0 pos s p F Hlf0 ltac:(rewrite Lrest; lia) ltac:(discriminate) PL0 P HH HF OK0)
      as (s1 & ST1 & EQ1 & Lk1 & V1 & Oth1 & NB1 & Hd1 & HH1).
    { intros Hm x' Hx'. destruct (Room Hm x' Hx') as [A B]. rewrite Lrest. fold n in B. lia. }
    rewrite Lrest in *. fold E q in Lk1, V1, Oth1.
    specialize (Lk1 eq_refl).
    assert (Hfld1 : forall t j, (j < 3)%N -> hword s1 (q + field_offset t j) = hword s (q + field_offset t j)).
    { intros t j Hj. apply NB1. now apply field_not_blk. }
    assert (HF1 : exists f1, rget s1 FREE = Some f1).
    { destruct HF as (f0 & HF). exists f0. rewrite Oth1; [exact HF|discriminate|discriminate|]. intros k _. apply not_eq_sym, rtp_special. }
    (* this block *)
    assert (B3 : (N.of_nat (n - rl) <= cap)%N) by lia.
    assert (B14 : lv_kids (xm m) (hword s1) (rev next) q cap).
    { eapply X86MemLoad.lv_kids_congr; [|rewrite rev_length, Lnext; lia|exact Kids]. intros j Hj. fo. symmetry. apply Hfld1. lia. }
    assert (B15 : m = Share -> forall x, is_blk x -> min_int <= hword s1 x /\ hword s1 x + Z.of_nat (n - rl) <= max_int).
    { intros Hm x' Hx'. destruct (Room Hm x' Hx') as [R1 R2]. destruct (Hd1 Hm x' Hx') as [D1 D2]. fold n in R2. lia. }
    pose proof (rv_load_block im (padd pos (List.length c0)) bp next (existing ++ rest) m lc0 lv lc' (E + n) s1 q F) as BL.
    cbv zeta in BL. rewrite Lepr, Lnext in BL. fold cap in BL.
    destruct (BL Hlv Hnext B3 ltac:(lia) PL1 Lk1 Hbq HH1 HF1 B14 B15) as (s2 & ST2 & EQ2 & Lk2 & V2 & Oth2 & NB2 & Hd2 & HH2).
    clear BL.
    exists s2. split; [|split; [|split; [|split; [|split; [|split; [|split]]]]]].
    + rewrite app_length, padd_add. eapply star_trans; eassumption.
    + eapply st_eqB_trans; [exact EQ2|].
      apply X86MemLoadChain.blk_abs_congr; [exact EQ1|intros j Hj; fo; apply Hfld1; lia|exact Hbq|rewrite Lnext; lia|exact B14].
    + intros Ho. rewrite (Lk2 Ho). f_equal. apply NB1. apply not_blk_off; [exact Hbq|lia].
    + intros i b Hi. cbv zeta. set (A := lf_addrs fuel (hword s) rest (xbp Other) p ++ blk_addrs q cap).
      set (a := nth (List.length A - n + i) A 0).
      assert (LA : (rl <= List.length (lf_addrs fuel (hword s) rest (xbp Other) p))%nat).
      { rewrite <- Lrest at 1. apply X86MemLoadChain.lf_addrs_length. rewrite Lrest. lia. }
      assert (LB : List.length (blk_addrs q cap) = N.to_nat cap) by (now apply X86MemLoadChain.blk_addrs_length).
      destruct (Nat.lt_ge_cases i rl) as [Hlt|Hge].
      * (* a variable of an earlier block *)
        assert (Hi' : nth_error rest i = Some b).
        { rewrite Hsplit in Hi. rewrite nth_error_app1 in Hi by (rewrite Lrest; exact Hlt). exact Hi. }
        destruct (V1 i b Hi') as [VS VF].
        assert (Ea : a = nth (List.length (lf_addrs fuel (hword s) rest (xbp Other) p) - rl + i) (lf_addrs fuel (hword s) rest (xbp Other) p) 0).
        { unfold a, A. rewrite app_length, LB. rewrite app_nth1 by lia. f_equal. lia. }
        rewrite Ea.
        assert (U : forall k, (k < 2 * N.of_nat (E + rl))%N -> rtp k <> TEMP /\ rtp k <> HEAP /\
                     (forall k', (2 * N.of_nat (E + rl) <= k' <= 2 * N.of_nat (E + n))%N -> rtp k <> rtp k')).
        { intros k Hk. split; [apply rtp_special|]. split; [apply rtp_special|]. intros k' Hk' E'. apply rtp_inj in E'. lia. }
        split; [|intros Hx].
        -- destruct (U (2 * N.of_nat (E + i) + 1)%N ltac:(lia)) as (U1 & U2 & U3). rewrite (Oth2 _ U1 U2 U3). exact VS.
        -- destruct (U (2 * N.of_nat (E + i))%N ltac:(lia)) as (U1 & U2 & U3). rewrite (Oth2 _ U1 U2 U3). exact (VF Hx).
      * (* a variable of this block *)
        assert (Hi' : nth_error next (i - rl) = Some b).
        { rewrite Hsplit in Hi. rewrite nth_error_app2 in Hi by (rewrite Lrest; exact Hge). now rewrite Lrest in Hi. }
        assert (Hi'' : (i - rl < n - rl)%nat) by (rewrite <- Lnext; apply nth_error_Some; congruence).
        destruct (V2 _ b Hi') as [VS VF].
        replace (E + rl + (i - rl))%nat with (E + i)%nat in VS, VF by lia.
        set (j := (cap - N.of_nat (n - rl) + N.of_nat (i - rl))%N) in *.
        assert (Hj : (j < cap)%N) by (unfold j; lia).
        assert (Ea : a = q + field_offset Fst j).
        { unfold a, A. rewrite app_length, LB. rewrite app_nth2 by lia.
          pose proof (X86MemLoadChain.blk_addrs_nth q cap j Hcap Hj) as BN. fo. rewrite <- BN. f_equal. unfold j. lia. }
        rewrite Ea. replace (q + field_offset Fst j + 8) with (q + field_offset Snd j) by (rewrite !fo_val; cbn [tnum_n]; lia).
        rewrite <- !Hfld1 by lia. auto.
    + intros r0 N1 N2 Hr. rewrite Oth2; [apply Oth1; [exact N1|exact N2|]|exact N1|exact N2|]; intros k Hk; apply Hr; lia.
    + eapply nonblk_same_trans; eassumption.
    + intros Hm x' Hx'. destruct (Hd1 Hm x' Hx'), (Hd2 Hm x' Hx'). fold n. lia.
    + exact HH2.
Qed.

(* ---------- if_zero_then_else ---------- *)
Lemma ite_parts pos cond thenb elseb lc :
  placed im pos (fst (if_zero_then_else cond thenb elseb lc)) ->
  placed im (padd pos 1) elseb /\ placed im (padd pos (3 + List.length elseb)) thenb.
Proof.
  cbn [if_zero_then_else fst]. intros PL.
  apply placed_app in PL as [_ PL]. apply placed_app in PL as [PE PL]. apply placed_app in PL as [_ PL]. apply placed_app in PL as [PT _].
  rewrite <- !padd_add in *. cbn [List.length] in *. split; [exact PE|].
  replace (3 + List.length elseb)%nat with (1 + (List.length elseb + 2))%nat by lia. exact PT.
Qed.
Lemma ite_zero pos cond thenb elseb lc s s' :
  placed im pos (fst (if_zero_then_else cond thenb elseb lc)) ->
  rget s cond = Some 0 ->
  star im (padd pos (3 + List.length elseb)) s (padd pos (3 + List.length elseb + List.length thenb)) s' ->
  star im pos s (padd pos (List.length (fst (if_zero_then_else cond thenb elseb lc)))) s'.
Proof.
  cbn [if_zero_then_else fst]. intros [AC LB] RC ST.
  set (lt := lab (lc + 1)) in *. set (le := lab (lc + 2)) in *.
  assert (C0 : nth_error ([BEQ cond ZERO lt] ++ elseb ++ [JAL ZERO le; LAB lt] ++ thenb ++ [LAB le]) 0 = Some (BEQ cond ZERO lt)) by reflexivity.
  assert (C1 : nth_error ([BEQ cond ZERO lt] ++ elseb ++ [JAL ZERO le; LAB lt] ++ thenb ++ [LAB le]) (2 + List.length elseb) = Some (LAB lt)).
  { rewrite nth_error_app2 by (cbn [List.length]; lia). rewrite nth_error_app2 by (cbn [List.length]; lia).
    replace (2 + List.length elseb - List.length [BEQ cond ZERO lt] - List.length elseb)%nat with 1%nat by (cbn [List.length]; lia). reflexivity. }
  assert (Ilt : find_label (labels im) lt = Some (padd pos (2 + List.length elseb))) by (apply LB; exact C1).
  assert (C2 : nth_error ([BEQ cond ZERO lt] ++ elseb ++ [JAL ZERO le; LAB lt] ++ thenb ++ [LAB le]) (3 + List.length elseb + List.length thenb) = Some (LAB le)).
  { rewrite nth_error_app2 by (cbn [List.length]; lia). rewrite nth_error_app2 by (cbn [List.length]; lia).
    rewrite nth_error_app2 by (cbn [List.length]; lia). rewrite nth_error_app2 by (cbn [List.length]; lia).
    match goal with |- nth_error _ ?k = _ => replace k with 0%nat by (cbn [List.length]; lia) end. reflexivity. }
  eapply star_step; [apply (one_at_jump im pos _ 0 _ _ _ _ AC C0); intros a0; eapply step_BEQ0_taken; [exact RC|exact Ilt]|].
  eapply star_step; [apply (one_at_next im pos _ _ _ _ _ AC C1); intros a0; apply step_LAB|].
  replace (S (2 + List.length elseb)) with (3 + List.length elseb)%nat by lia.
  eapply star_trans; [exact ST|].
  eapply star_step; [apply (one_at_next im pos _ _ _ _ _ AC C2); intros a0; apply step_LAB|].
  match goal with |- star _ ?a _ ?b _ => replace b with a; [apply star_refl|] end.
  f_equal. rewrite !app_length. cbn [List.length]. lia.
Qed.
Lemma ite_nz pos cond thenb elseb lc s v s' :
  placed im pos (fst (if_zero_then_else cond thenb elseb lc)) ->
  rget s cond = Some v -> v <> 0 ->
  star im (padd pos 1) s (padd pos (1 + List.length elseb)) s' ->
  star im pos s (padd pos (List.length (fst (if_zero_then_else cond thenb elseb lc)))) s'.
Proof.
  cbn [if_zero_then_else fst]. intros [AC LB] RC NZ ST.
  set (lt := lab (lc + 1)) in *. set (le := lab (lc + 2)) in *.
  assert (C2 : nth_error ([BEQ cond ZERO lt] ++ elseb ++ [JAL ZERO le; LAB lt] ++ thenb ++ [LAB le]) (3 + List.length elseb + List.length thenb) = Some (LAB le)).
  { rewrite nth_error_app2 by (cbn [List.length]; lia). rewrite nth_error_app2 by (cbn [List.length]; lia).
    rewrite nth_error_app2 by (cbn [List.length]; lia). rewrite nth_error_app2 by (cbn [List.length]; lia).
    match goal with |- nth_error _ ?k = _ => replace k with 0%nat by (cbn [List.length]; lia) end. reflexivity. }
  assert (Ile : find_label (labels im) le = Some (padd pos (3 + List.length elseb + List.length thenb))) by (apply LB; exact C2).
  assert (C0 : nth_error ([BEQ cond ZERO lt] ++ elseb ++ [JAL ZERO le; LAB lt] ++ thenb ++ [LAB le]) 0 = Some (BEQ cond ZERO lt)) by reflexivity.
  assert (C1 : nth_error ([BEQ cond ZERO lt] ++ elseb ++ [JAL ZERO le; LAB lt] ++ thenb ++ [LAB le]) (1 + List.length elseb) = Some (JAL ZERO le)).
  { rewrite nth_error_app2 by (cbn [List.length]; lia). rewrite nth_error_app2 by (cbn [List.length]; lia).
    match goal with |- nth_error _ ?k = _ => replace k with 0%nat by (cbn [List.length]; lia) end. reflexivity. }
  eapply star_step; [apply (one_at_next im pos _ 0 _ _ _ AC C0); intros a0; eapply step_BEQ0_not; [exact RC|exact NZ]|].
  eapply star_trans; [exact ST|].
  eapply star_step; [apply (one_at_jump im pos _ _ _ _ _ _ AC C1); intros a0; eapply step_JAL0; exact Ile|].
  eapply star_step; [apply (one_at_next im pos _ _ _ _ _ AC C2); intros a0; apply step_LAB|].
  match goal with |- star _ ?a _ ?b _ => replace b with a; [apply star_refl|] end.
  f_equal. rewrite !app_length. cbn [List.length]. lia.
Qed.

(* ---------- r_load: the header test, then the Release walk or decrement + the Share walk ---------- *)
Lemma r_load_shape to_load existing lc cs lc' :
  r_load to_load existing lc = Ok (cs, lc') -> to_load <> [] ->
  let mb := pos_reg Fst (List.length existing) in
  exists thn lc1 els lc2,
    load_fields (S (List.length to_load)) to_load existing Last Release lc = Ok (thn, lc1) /\
    load_fields (S (List.length to_load)) to_load existing Last Share lc1 = Ok (els, lc2) /\
    cs = [LW TEMP mb 0] ++ fst (if_zero_then_else TEMP thn ([ADDI TEMP TEMP (-1); SW TEMP mb 0] ++ els) lc2).
Proof.
  intros H Hne mb. unfold r_load in H. destruct to_load as [|x r] eqn:Etl; [contradiction|]. rewrite <- Etl in *.
  destruct (r_fresh Fst existing) as [t|] eqn:Emb; [|discriminate]. cbn [rbind] in H. apply r_fresh_ok in Emb. subst t. fold mb in H.
  destruct (load_fields (S (List.length to_load)) to_load existing Last Release lc) as [[thn lc1]|] eqn:E1; [|discriminate]. cbn [rbind] in H.
  destruct (load_fields (S (List.length to_load)) to_load existing Last Share lc1) as [[els lc2]|] eqn:E2; [|discriminate]. cbn [rbind] in H.
  exists thn, lc1, els, lc2. split; [first [reflexivity|exact E1]|]. split; [first [reflexivity|exact E2]|].
  change REFERENCE_COUNT_OFFSET with 0 in H.
  destruct (if_zero_then_else TEMP thn ([ADDI TEMP TEMP (-1); SW TEMP mb 0] ++ els) lc2) as [c lc3] eqn:EI. inversion H. reflexivity.
Qed.

(* what the walk needs of the object at p: every block of the chain is a block, the pointer slots that
   are shared are null or blocks, the counts are 64-bit values with room for one more reference per variable *)
Definition walk_pre (s : rstate) (p : Z) (to_load : ctx) : Prop :=
  lf_ok (S (List.length to_load)) X86.Share (hword s) to_load XLast p /\
  (forall x, is_blk x -> min_int + 1 <= hword s x /\ hword s x + Z.of_nat (List.length to_load) <= max_int).

Theorem rv_load_walk pos to_load existing lc cs lc' s p F :
  r_load to_load existing lc = Ok (cs, lc') -> to_load <> [] ->
  placed im pos cs ->
  rget s (pos_reg Fst (List.length existing)) = Some p -> is_blk p ->
  (exists h, rget s HEAP = Some h) -> (exists f0, rget s FREE = Some f0) ->
  walk_pre s p to_load ->
  let fuel := S (List.length to_load) in
  exists s', star im pos s (padd pos (List.length cs)) s' /\
    st_eqB (abs_heap F s')
      (if hword s p =? 0 then lf_abs fuel X86.Release (hword s) to_load XLast p (abs_heap F s)
       else lf_abs fuel X86.Share (hword s) to_load XLast p (Heap.dec p (abs_heap F s))) /\
    (forall i b, nth_error to_load i = Some b ->
       let A := lf_addrs fuel (hword s) to_load XLast p in
       let a := nth (List.length A - List.length to_load + i) A 0 in
       rget s' (rtp (2 * N.of_nat (List.length existing + i) + 1)) = Some (hword s (a + 8)) /\
       (bchi b <> Ext -> rget s' (rtp (2 * N.of_nat (List.length existing + i))) = Some (hword s a))) /\
    (forall k, (k < 2 * N.of_nat (List.length existing))%N -> rget s' (rtp k) = rget s (rtp k)) /\
    nonblk_same s s' /\ (exists h', rget s' HEAP = Some h') /\ rget s' FREE = rget s FREE.
Proof.
  intros Hx Hne PL P Hb (h & Hh) (f0 & Hf) (OK & Room) fuel.
  destruct (r_load_shape _ _ _ _ _ Hx Hne) as (thn & lc1 & els & lc2 & Ethn & Eels & ->).
  set (mb := pos_reg Fst (List.length existing)) in *.
  pose proof (pos_reg_reserved Fst (List.length existing)) as M4. fold mb in M4. destruct (four_special mb M4) as (MZ & MT & MH & MF).
  pose proof (is_blk_valid_addr p Hb) as VA.
  assert (VA0 : valid_addr (p + 0)) by (now rewrite Z.add_0_r).
  apply placed_app in PL as [[AC0 _] PL]. cbn [List.length] in PL.
  set (eb := [ADDI TEMP TEMP (-1); SW TEMP mb 0] ++ els) in *.
  destruct (ite_parts _ _ _ _ _ PL) as [PE PT]. rewrite <- !padd_add in PE, PT.
  set (s0 := rset s TEMP (Some (hword s (p + 0)))).
  assert (ST0 : star im pos s (padd pos 1) s0).
  { exec_next AC0 0%nat step_LW; [exact P|reflexivity|exact VA0|]. apply star_refl. }
  assert (W0 : forall a, hword s0 a = hword s a) by (intros a; apply hword_rset).
  assert (RT0 : rget s0 TEMP = Some (hword s p)) by (unfold s0; rewrite Z.add_0_r; apply rget_rset_same; discriminate).
  assert (L0 : forall r, r <> TEMP -> rget s0 r = rget s r) by (intros r Hr; unfold s0; apply rget_rset_other; congruence).
  destruct (Room p Hb) as [Rlo Rhi].
  assert (Frame : forall s1 s' : rstate, (forall r, r <> TEMP -> rget s1 r = rget s r) ->
            (forall r, r <> TEMP -> r <> HEAP ->
               (forall k, (2 * N.of_nat (List.length existing) <= k <= 2 * N.of_nat (List.length existing + List.length to_load))%N -> r <> rtp k) ->
               rget s' r = rget s1 r) ->
            (forall k, (k < 2 * N.of_nat (List.length existing))%N -> rget s' (rtp k) = rget s (rtp k)) /\
            rget s' FREE = rget s FREE).
  { intros s1 s' L1 Hfr. split.
    - intros k Hk. rewrite Hfr, L1; [reflexivity|apply rtp_special|apply rtp_special|apply rtp_special|]. intros k' Hk' E'. apply rtp_inj in E'. lia.
    - rewrite Hfr, L1; [reflexivity|discriminate|discriminate|discriminate|]. intros k _. apply not_eq_sym, rtp_special. }
  assert (EL : padd pos (List.length ([LW TEMP mb 0] ++ fst (if_zero_then_else TEMP thn eb lc2))) =
               padd (padd pos 1) (List.length (fst (if_zero_then_else TEMP thn eb lc2)))) by (rewrite app_length, padd_add; reflexivity).
  rewrite EL. clear EL.
  destruct (Z.eqb_spec (hword s p) 0) as [H0|Hn0].
  - (* last reference: release the blocks, plain loads *)
    destruct (X86MemLoadChain.lf_ext X86.Release (hword s) (hword s0) (fun a _ => W0 a) fuel to_load XLast p (abs_heap F s0) (abs_heap F s)
                (X86MemLoadChain.lf_ok_release _ _ _ _ _ _ OK))
      as (X1 & X2 & X3 & X4); [apply abs_heap_eqB; [exact W0|apply L0; discriminate|apply L0; discriminate]|].
    destruct (rv_load_fields fuel to_load existing Last Release lc thn lc1 _ s0 p F Ethn ltac:(unfold fuel; lia) (fun _ => Hne) PT)
      as (sb & STb & EQb & _ & Vb & Ob & NBb & _ & HHb).
    { rewrite L0 by exact MT. exact P. }
    { exists h. rewrite L0 by discriminate. exact Hh. }
    { exists f0. rewrite L0 by discriminate. exact Hf. }
    { exact X3. }
    { discriminate. }
    cbn [xbp xm] in Vb, Ob, EQb.
    destruct (Frame s0 sb L0 Ob) as [FrK FrF].
    exists sb. split; [|split; [|split; [|split; [exact FrK|split; [|split; [exact HHb|exact FrF]]]]]].
    + eapply star_trans; [exact ST0|]. eapply ite_zero; [exact PL|rewrite RT0, H0; reflexivity|]. rewrite <- !padd_add. rewrite <- padd_add in STb. exact STb.
    + eapply st_eqB_trans; [exact EQb|exact X4].
    + intros i b Hi A a. destruct (Vb i b Hi) as [VS VF]. rewrite X2 in VS, VF. rewrite !W0 in VS, VF. auto.
    + intros a0 Hna. rewrite NBb by exact Hna. apply W0.
  - (* other references remain: decrement the count, load and share *)
    assert (Wd : wrap (hword s p + -1) = hword s p - 1) by (apply wrap_small; lia).
    set (s1 := rset s0 TEMP (Some (hword s p - 1))).
    set (sd := sstore s1 (p + 0) (hword s p - 1)).
    assert (R1b : rget s1 mb = Some p) by (unfold s1; rewrite rget_rset_other by congruence; rewrite L0 by exact MT; exact P).
    assert (Wsd : forall a, hword sd a = if a =? p then hword s p - 1 else hword s a).
    { intros a. unfold sd. rewrite Z.add_0_r, hword_sstore by (now apply is_blk_pos). unfold s1. rewrite hword_rset, W0. reflexivity. }
    assert (Wnb : forall a, ~ is_blk a -> hword sd a = hword s a).
    { intros a Hna. rewrite Wsd. destruct (Z.eqb_spec a p) as [->|]; [contradiction|reflexivity]. }
    assert (Ld : forall r, r <> TEMP -> rget sd r = rget s r).
    { intros r Hr. unfold sd. rewrite rget_sstore. unfold s1. rewrite rget_rset_other by congruence. now apply L0. }
    assert (EQd : st_eqB (abs_heap F sd) (Heap.dec p (abs_heap F s))).
    { unfold Heap.dec, abs_heap, reg_or0. cbn [Heap.m Heap.heap Heap.free Heap.frontier]. rewrite !Ld by discriminate.
      split; [reflexivity|]. split; [reflexivity|]. split; [reflexivity|].
      intros x Hx'. cbn [Heap.m]. unfold Heap.set_hdr, Heap.upd, abs_mem. cbn [Heap.hdr Heap.ps]. rewrite !Wsd.
      destruct (Z.eqb_spec (x + 16) p) as [E'|_]; [exfalso; eapply (blk_off_ne x p 16); eauto; lia|].
      destruct (Z.eqb_spec (x + 32) p) as [E'|_]; [exfalso; eapply (blk_off_ne x p 32); eauto; lia|].
      destruct (Z.eqb_spec (x + 48) p) as [E'|_]; [exfalso; eapply (blk_off_ne x p 48); eauto; lia|].
      destruct (Z.eqb_spec x p) as [->|]; reflexivity. }
    destruct (X86MemLoadChain.lf_ext X86.Share (hword s) (hword sd) Wnb fuel to_load XLast p (abs_heap F sd) (Heap.dec p (abs_heap F s)) OK EQd) as (X1 & X2 & X3 & X4).
    unfold eb in PE. apply placed_app in PE as [[CE0 _] PE1]. rewrite <- padd_add in PE1. cbn [List.length] in PE1.
    destruct (rv_load_fields fuel to_load existing Last Share lc1 els lc2 _ sd p F Eels ltac:(unfold fuel; lia) (fun _ => Hne) PE1)
      as (se & STe & EQe & _ & Ve & Oe & NBe & _ & HHe).
    { rewrite Ld by exact MT. exact P. }
    { exists h. rewrite Ld by discriminate. exact Hh. }
    { exists f0. rewrite Ld by discriminate. exact Hf. }
    { exact X3. }
    { intros _ x Hx'. destruct (Room x Hx'). rewrite Wsd. destruct (x =? p); lia. }
    cbn [xbp xm] in Ve, Oe, EQe.
    destruct (Frame sd se Ld Oe) as [FrK FrF].
    exists se. split; [|split; [|split; [|split; [exact FrK|split; [|split; [exact HHe|exact FrF]]]]]].
    + eapply star_trans; [exact ST0|]. eapply ite_nz; [exact PL|exact RT0|exact Hn0|].
      rewrite <- !padd_add.
      exec_next CE0 0%nat step_ADDI; [exact RT0|reflexivity|]. rewrite Wd. fold s1.
      exec_next CE0 1%nat step_SW; [exact R1b|unfold s1; apply rget_rset_same; discriminate|reflexivity|exact VA0|]. fold sd.
      rewrite <- !padd_add in STe. unfold eb. rewrite app_length. cbn [List.length]. rewrite <- !padd_S.
      match goal with |- star _ ?a _ ?b _ => match type of STe with star _ ?a' _ ?b' _ => replace a with a' by (f_equal; lia); replace b with b' by (f_equal; lia) end end.
      exact STe.
    + eapply st_eqB_trans; [exact EQe|exact X4].
    + intros i b Hi A a. destruct (Ve i b Hi) as [VS VF]. rewrite X2 in VS, VF. fold A a in VS, VF.
      assert (Hi' : (i < List.length to_load)%nat) by (apply nth_error_Some; congruence).
      assert (LA : (List.length to_load <= List.length A)%nat) by (apply X86MemLoadChain.lf_addrs_length; unfold fuel; lia).
      assert (Hin : In a A) by (apply nth_In; lia).
      destruct (X86MemLoadChain.lf_addrs_in X86.Share (hword s) fuel to_load XLast p a OK Hin) as (q & j & Hq & Hj & Ea). fo.
      assert (N1 : ~ is_blk a) by (rewrite Ea; now apply field_not_blk).
      assert (N2 : ~ is_blk (a + 8)).
      { rewrite Ea. replace (q + field_offset Fst j + 8) with (q + field_offset Snd j) by (rewrite !fo_val; cbn [tnum_n]; lia).
        now apply field_not_blk. }
      rewrite (Wnb _ N1) in VF. rewrite (Wnb _ N2) in VS. auto.
    + intros a0 Hna. rewrite NBe by exact Hna. now apply Wnb.
Qed.

(* ---------- r_load of any number of variables = Heap.load_object, with its frame ---------- *)
Theorem rv_load_chain pos to_load existing lc cs lc' s p F :
  r_load to_load existing lc = Ok (cs, lc') -> to_load <> [] ->
  placed im pos cs ->
  rget s (rtp (2 * N.of_nat (List.length existing))) = Some p -> is_blk p ->
  (exists h, rget s HEAP = Some h) -> (exists f0, rget s FREE = Some f0) ->
  lf_share_ok (S (List.length to_load)) (hword s) to_load XLast p ->
  (forall x, is_blk x -> min_int + 1 <= hword s x /\ hword s x + Z.of_nat (List.length to_load) <= max_int) ->
  exists s', star im pos s (padd pos (List.length cs)) s' /\
    st_eqB (abs_heap F s') (Heap.load_object (Heap.nlinks (List.length to_load)) p (abs_heap F s)) /\
    (forall i b, nth_error to_load i = Some b ->
       let A := lf_addrs (S (List.length to_load)) (hword s) to_load XLast p in
       let a := nth (List.length A - List.length to_load + i) A 0 in
       rget s' (rtp (2 * N.of_nat (List.length existing + i) + 1)) = Some (hword s (a + 8)) /\
       (bchi b <> Ext -> rget s' (rtp (2 * N.of_nat (List.length existing + i))) = Some (hword s a))) /\
    (forall k, (k < 2 * N.of_nat (List.length existing))%N -> rget s' (rtp k) = rget s (rtp k)) /\
    nonblk_same s s' /\ (exists h', rget s' HEAP = Some h') /\ rget s' FREE = rget s FREE.
Proof.
  intros Hx Hne PL P Hb HH HF OK Room.
  assert (P' : rget s (pos_reg Fst (List.length existing)) = Some p) by (rewrite pos_reg_rtp; cbn [tnum_n]; rewrite N.add_0_r; exact P).
  destruct (rv_load_walk pos to_load existing lc cs lc' s p F Hx Hne PL P' Hb HH HF)
    as (s' & ST & EQ & V & O & NB & HH' & FF).
  { split; [now apply X86MemLoadChain.lf_share_ok_lf_ok|exact Room]. }
  exists s'. split; [exact ST|]. split; [|auto 12].
  eapply st_eqB_trans; [exact EQ|]. unfold Heap.load_object.
  change (Heap.hdr (Heap.m (abs_heap F s) p)) with (hword s p).
  assert (PS : X86MemLoadChain.ps_w (hword s) (abs_heap F s)) by (intros q; reflexivity).
  destruct (hword s p =? 0).
  - rewrite X86MemLoadChain.lf_abs_release_load_object; [apply st_eqB_refl|exact Hne|exact PS].
  - unfold Heap.load_object_share. apply X86MemLoadChain.lf_abs_share_load_object; [exact Hne|apply X86MemLoadChain.ps_w_dec, PS|exact OK].
Qed.
End LoadChain.

Print Assumptions rv_load_chain.
