(* C15, soundness of the model of the type checker with respect to the declarative typing rules for
   programs WITH type parameters and type arguments (term level).  Hypotheses: identifier-like
   names ([term_names_ok], [poly_world]); no hypothesis on the well-formedness of declarations is
   needed at this level. *)
From Coq Require Import List ZArith String Bool Permutation Lia.
From SCC Require Import Base.Sexp Lang.SynUtil Lang.FunSyn Model.Check Sem.FunTyping
  Proof.FunInd Proof.FunEq Proof.CheckAnn Proof.TypingReject Proof.CheckBuild Proof.CheckMono Proof.CheckMonoSound
  Proof.PrintInj Proof.CheckPoly Proof.CheckInstBase.
From SCC Require Import Sem.FunClosed.
Import ListNotations.
Open Scope list_scope.

(* ---------- identifier-like names in terms (definitions in Sem/FunNames.v) ---------- *)
Lemma terms_names_ok_eq : forall l,
  (fix go (l : list fterm) : bool := match l with [] => true | a :: r => term_names_ok a && go r end) l = terms_names_ok l.
Proof. induction l; simpl; [reflexivity|]. rewrite IHl. reflexivity. Qed.
Lemma clauses_names_ok_eq : forall l,
  (fix go (l : list fclause) : bool :=
     match l with [] => true | FClause _ x _ _ b :: r => name_ok x && term_names_ok b && go r end) l = clauses_names_ok l.
Proof. induction l as [|[? ? ? ? ?] r IH]; simpl; [reflexivity|]. rewrite IH. reflexivity. Qed.

(* ---------- instantiated signatures as environments ---------- *)
Lemma inst_ctx_nil : forall c, inst_ctx [] [] c = c.
Proof.
  induction c as [|[v ch t] r IH]; simpl; [reflexivity|]. unfold inst_binding. simpl. rewrite inst_nil, IH. reflexivity.
Qed.
Lemma extend_sig_inst : forall xs sg G ps targs,
  extend_sig G ps targs xs sg = env_of_ctx G (zip_names xs (inst_ctx ps targs sg)).
Proof.
  induction xs as [|x xr IH]; intros sg G ps targs; simpl; [reflexivity|].
  destruct sg as [|b br]; simpl; [reflexivity|]. apply IH.
Qed.
Lemma ctx_names_ok_in : forall c b, ctx_names_ok c = true -> In b c -> ty_names_ok (fbty b) = true.
Proof. intros c b H Hin. unfold ctx_names_ok in H. rewrite forallb_forall in H. auto. Qed.
Lemma ctx_names_ok_app : forall a b, ctx_names_ok a = true -> ctx_names_ok b = true -> ctx_names_ok (a ++ b) = true.
Proof. intros a b Ha Hb. unfold ctx_names_ok in *. rewrite forallb_app, Ha, Hb. reflexivity. Qed.
Lemma ctx_names_ok_zip : forall xs sg, ctx_names_ok sg = true -> ctx_names_ok (zip_names xs sg) = true.
Proof.
  induction xs as [|x r IH]; intros sg H; simpl; [reflexivity|]. destruct sg as [|b br]; [reflexivity|].
  simpl in *. apply andb_true_iff in H. destruct H as [H1 H2]. rewrite H1. simpl. auto.
Qed.
Lemma inst_ctx_length : forall ps targs c, List.length (inst_ctx ps targs c) = List.length c.
Proof. intros. unfold inst_ctx. apply map_length. Qed.

Section PSound.
  Variable ts : list tdecl.
  Variable fs : list fdef.
  Hypothesis W : poly_world ts fs.

  Notation pinv := (pinv ts).
  Notation targs_ok := (targs_ok ts).

  Lemma targs_ok_names : forall td targs, targs_ok td targs -> tys_names_ok targs = true.
  Proof. intros td targs [_ H]. eapply wf_tys_names_ok; eassumption. Qed.

  (* ---------- instances found in the tables ---------- *)
  Lemma ctor_instance_sound : forall st x targs types,
    pinv st -> name_ok x = true -> tys_names_ok targs = true ->
    aget (st_ctors st) (x ++ print_targs targs)%string = Some types ->
    exists td s, In td ts /\ td_pol td = FData /\ In s (td_xtors td) /\ xs_name s = x /\ targs_ok td targs
                 /\ types = inst_ctx (td_params td) targs (xs_args s).
  Proof.
    intros st x targs types I Nx Nt H.
    destruct (pi_ctors _ _ I _ _ H) as [td [targs' [s [Htd [Hp [Hs [Ek [-> Hok]]]]]]]].
    destruct (instance_name_inj _ _ _ _ (name_ok_no_delim _ Nx) (name_ok_no_delim _ (PW_xnames _ _ W td s Htd Hs))
                Nt (targs_ok_names _ _ Hok) Ek) as [-> <-].
    exists td, s. splits; auto. unfold sub_of. destruct Hok as [Hl _].
    apply subst_ctx_inst; [apply (PW_params _ _ W); assumption|assumption].
  Qed.
  Lemma dtor_instance_sound : forall st x targs types ret,
    pinv st -> name_ok x = true -> tys_names_ok targs = true ->
    aget (st_dtors st) (x ++ print_targs targs)%string = Some (types, ret) ->
    exists td s r0, In td ts /\ td_pol td = FCodata /\ In s (td_xtors td) /\ xs_name s = x /\ targs_ok td targs
                 /\ xs_ret s = Some r0 /\ types = inst_ctx (td_params td) targs (xs_args s)
                 /\ ret = inst (td_params td) targs r0.
  Proof.
    intros st x targs types ret I Nx Nt H.
    destruct (pi_dtors _ _ I _ _ _ H) as [td [targs' [s [r0 [Htd [Hp [Hs [Hr [Ek [-> [-> Hok]]]]]]]]]]].
    destruct (instance_name_inj _ _ _ _ (name_ok_no_delim _ Nx) (name_ok_no_delim _ (PW_xnames _ _ W td s Htd Hs))
                Nt (targs_ok_names _ _ Hok) Ek) as [-> <-].
    exists td, s, r0. unfold sub_of. destruct Hok as [Hl Hw].
    splits; auto; try (split; assumption).
    - apply subst_ctx_inst; [apply (PW_params _ _ W); assumption|assumption].
    - apply subst_inst; [apply (PW_params _ _ W); assumption|assumption].
  Qed.

  Lemma xtor_of_name : forall td x, In x (map xs_name (td_xtors td)) -> exists s, In s (td_xtors td) /\ xs_name s = x.
  Proof. intros td x H. apply in_map_iff in H. destruct H as [s [? ?]]. eauto. Qed.

  (* an instance found by scanning the instance table *)
  Lemma lookup_ty_for_xtor_sound : forall st pol x targs ty xs,
    pinv st -> name_ok x = true -> tys_names_ok targs = true ->
    lookup_ty_for_xtor pol st (x ++ print_targs targs)%string = Some (ty, xs) ->
    exists td, In td ts /\ td_pol td = pol /\ ty = FDecl (td_name td) targs /\ xs = map xs_name (td_xtors td)
               /\ In x xs /\ targs_ok td targs /\ has_inst_p st ty.
  Proof.
    intros st pol x targs ty xs I Nx Nt. unfold lookup_ty_for_xtor.
    assert (Hall : forall k v, In (k, v) (st_types st) -> aget (st_types st) k = Some v).
    { intros. apply In_aget; [apply (pi_nodup _ _ I)|assumption]. }
    revert Hall. generalize (st_types st) at 1 3. intros l.
    induction l as [|[name [[p targs'] xtors]] r IH]; intros Hall H; simpl in H; [discriminate|].
    destruct (fpol_eqb p pol && xtor_matches (print_targs targs') (x ++ print_targs targs)%string xtors) eqn:Ec.
    - inversion H; subst. clear H. apply andb_true_iff in Ec. destruct Ec as [Ep Ex]. apply fpol_eqb_eq in Ep. subst p.
      pose proof (Hall name _ (or_introl eq_refl)) as Hg.
      destruct (pi_types _ _ I _ _ _ _ Hg) as [td [Htd [-> [Hp [-> Hok]]]]].
      unfold xtor_matches in Ex. apply existsb_exists in Ex. destruct Ex as [y [Hy Ey]].
      apply String.eqb_eq in Ey. destruct (xtor_of_name _ _ Hy) as [s [Hs Hn]].
      destruct (instance_name_inj _ _ _ _ (name_ok_no_delim _ (PW_xnames _ _ W td s Htd Hs)) (name_ok_no_delim _ Nx)
                  (targs_ok_names _ _ Hok) Nt ltac:(rewrite Hn; exact Ey)) as [Hyx ->].
      exists td. rewrite str_remove_instance_name by (apply name_ok_no_delim; apply (PW_tnames _ _ W); assumption).
      splits; auto; [rewrite <- Hyx, Hn; assumption|].
      simpl. unfold ahas. rewrite Hg. reflexivity.
    - apply IH; [|assumption]. intros. apply Hall. right. assumption.
  Qed.

  (* the declared type of an xtor name *)
  Lemma owner_of_names : forall td td' x, In td ts -> In td' ts -> td_pol td = td_pol td' ->
    In x (map xs_name (td_xtors td)) -> In x (map xs_name (td_xtors td')) -> td = td'.
  Proof.
    intros td td' x Htd Htd' Hp Hx Hx'.
    destruct (xtor_of_name _ _ Hx) as [s [Hs Hn]]. destruct (xtor_of_name _ _ Hx') as [s' [Hs' Hn']].
    eapply (xtor_owner_unique ts fs W td td' s s'); eauto. congruence.
  Qed.

  (* ---------- what soundness means for one term, and for the arguments ---------- *)
  Definition psound_at (t : fterm) : Prop :=
    forall eager st ctx T t' st',
      term_names_ok t = true -> ctx_names_ok ctx = true -> ty_names_ok T = true -> tables ts fs st -> pinv st ->
      check_term_gen eager t st ctx T = COk (t', st') ->
      chk ts fs (E ctx) t T = true /\ pinv st' /\ same_templates st st' /\ grows st st'
      /\ term_closed (ikeys st') t' = true.

  Lemma ann_check_psound : forall (a : option fty) found st st',
    oty_names_ok a = true -> ty_names_ok found = true -> tables ts fs st -> pinv st ->
    match a with Some t => check_equality st t found | None => COk st end = COk st' ->
    ann_ok a found = true /\ pinv st' /\ same_templates st st' /\ grows st st'.
  Proof.
    intros a found st st' Ha Hf T I H. destruct a as [t|].
    - destruct (check_equality_sound ts fs W t found st st' Ha Hf T I H) as [-> [_ [I' [S [G _]]]]].
      simpl. rewrite fty_eqb_refl. auto.
    - inversion H; subst. simpl. auto using same_templates_refl, grows_refl.
  Qed.

  Lemma check_args_with_psound : forall args, Forall psound_at args ->
    forall eager ps targs sg st ctx args' st',
      terms_names_ok args = true -> ctx_names_ok ctx = true -> ctx_names_ok sg = true -> tys_names_ok targs = true ->
      tables ts fs st -> pinv st ->
      check_args_with (check_term_gen eager) args (inst_ctx ps targs sg) st ctx = COk (args', st') ->
      List.length args = List.length sg ->
      chk_args_with (chk ts fs) (E ctx) ps targs args sg = true /\ pinv st' /\ same_templates st st' /\ grows st st'
      /\ terms_closed (ikeys st') args' = true.
  Proof.
    intros args HF. induction HF as [|a ar Ha _ IH]; intros eager ps targs sg st ctx args' st' Hm Hc Ht Nt T I H Hlen.
    - destruct sg; [|discriminate]. simpl in H. inversion H; subst.
      simpl. auto 10 using same_templates_refl, grows_refl.
    - destruct sg as [|b br]; [discriminate|]. simpl in Hlen. simpl in Hm, Ht.
      apply andb_true_iff in Hm. destruct Hm as [Hma Hmr]. apply andb_true_iff in Ht. destruct Ht as [Htb Htr].
      assert (Nb : ty_names_ok (inst ps targs (fbty b)) = true) by (apply inst_names_ok; assumption).
      simpl in H. simpl chk_args_with.
      destruct (fbchi b) eqn:Ech.
      + (* producer argument *)
        apply cbind_ok in H. destruct H as [st1 [H1 H]].
        apply cbind_ok in H. destruct H as [[a' st2] [H2 H]].
        apply cbind_ok in H. destruct H as [[ar' st3] [H3 H]]. inversion H; subst.
        destruct (ty_check_sound ts fs W _ _ _ Nb T I H1) as [_ [I1 [S1 [G1 _]]]].
        destruct (Ha eager st1 ctx _ a' st2 Hma Hc Nb (tables_same _ _ _ _ T S1) I1 H2) as [Hk [I2 [S2 [G2 C2]]]].
        assert (S12 : same_templates st st2) by eauto using same_templates_trans.
        destruct (IH eager ps targs br st2 ctx ar' st' Hmr Hc Htr Nt (tables_same _ _ _ _ T S12) I2 H3) as [Hkr [I3 [S3 [G3 C3]]]]; [lia|].
        rewrite Hk, Hkr. splits; eauto using same_templates_trans, grows_trans.
        simpl. rewrite (term_closed_mono _ _ (grows_names_le _ _ G3) _ C2). exact C3.
      + (* consumer argument: a covariable *)
        destruct a as [v ann chi| | | | | | | | | | | | | |]; try discriminate.
        assert (Hgo : match chi with Some FPrd => false | _ => true end = true /\
                  exists found st1 st2 ar', lookup_covar ctx v = COk found
                    /\ match ann with Some t => check_equality st t found | None => COk st end = COk st1
                    /\ check_equality st1 (inst ps targs (fbty b)) found = COk st2
                    /\ check_args_with (check_term_gen eager) ar (inst_ctx ps targs br) st2 ctx = COk (ar', st')).
        { destruct chi as [[|]|]; try discriminate;
            (apply cbind_ok in H; destruct H as [found [Hl H]];
             apply cbind_ok in H; destruct H as [st1 [H1 H]];
             apply cbind_ok in H; destruct H as [st2 [H2 H]];
             apply cbind_ok in H; destruct H as [[ar' st3] [H3 H]]; inversion H; subst; eauto 10). }
        destruct Hgo as [Hchi [found [st1 [st2 [ar' [Hl [H1 [H2 H3]]]]]]]].
        destruct (lookup_covar_E _ _ _ Hl) as [HE [b0 [Hb0 Hbt]]].
        assert (Hmf : ty_names_ok found = true) by (subst found; apply (ctx_names_ok_in ctx); assumption).
        destruct (ann_check_psound ann found st st1 Hma Hmf T I H1) as [Hann [I1 [S1 G1]]].
        destruct (check_equality_sound ts fs W _ _ _ _ Nb Hmf (tables_same _ _ _ _ T S1) I1 H2) as [Heq [_ [I2 [S2 [G2 Hi2]]]]].
        assert (S12 : same_templates st st2) by eauto using same_templates_trans.
        destruct (IH eager ps targs br st2 ctx ar' st' Hmr Hc Htr Nt (tables_same _ _ _ _ T S12) I2 H3) as [Hkr [I3 [S3 [G3 C3]]]]; [lia|].
        assert (Hcl : terms_closed (ikeys st') args' = true).
        { assert (Ha' : args' = FVar v (Some found) (Some FCns) :: ar').
          { destruct chi as [[|]|]; try discriminate; simpl in H; rewrite Hl in H; simpl in H; rewrite H1 in H; simpl in H;
              rewrite H2 in H; simpl in H; rewrite H3 in H; simpl in H; inversion H; reflexivity. }
          subst args'. simpl. rewrite C3, andb_true_r. rewrite <- Heq.
          eapply ty_declared_mono; [apply (grows_names_le _ _ G3)|]. apply has_inst_declared. exact Hi2. }
        unfold is_cns. rewrite Heq, HE, fty_eqb_refl, Hkr, Hann, Hchi.
        splits; eauto using same_templates_trans, grows_trans.
  Qed.

  Lemma check_args_psound : forall args, Forall psound_at args ->
    forall eager ps targs sg st ctx args' st',
      terms_names_ok args = true -> ctx_names_ok ctx = true -> ctx_names_ok sg = true -> tys_names_ok targs = true ->
      tables ts fs st -> pinv st ->
      check_args (check_term_gen eager) args (inst_ctx ps targs sg) st ctx = COk (args', st') ->
      chk_args_with (chk ts fs) (E ctx) ps targs args sg = true /\ pinv st' /\ same_templates st st' /\ grows st st'
      /\ terms_closed (ikeys st') args' = true.
  Proof.
    intros args HF eager ps targs sg st ctx args' st' Hm Hc Ht Nt T I H. unfold check_args in H.
    rewrite inst_ctx_length in H.
    destruct (Nat.eqb (List.length sg) (List.length args)) eqn:El; [|discriminate]. simpl in H.
    apply PeanoNat.Nat.eqb_eq in El. eapply check_args_with_psound; eauto.
  Qed.

  (* ---------- clauses ---------- *)
  Definition pc_psound (pc : pclause) : Prop :=
    forall st ctx T t' st',
      ctx_names_ok ctx = true -> ty_names_ok T = true -> tables ts fs st -> pinv st ->
      pc_chk pc st ctx T = COk (t', st') ->
      chk ts fs (E ctx) (pc_body pc) T = true /\ pinv st' /\ same_templates st st' /\ grows st st'
      /\ term_closed (ikeys st') t' = true.

  Lemma check_clauses_psound : forall (is_case : bool) T td targs xtors pcls st ctx cls' leftover st',
    Forall pc_psound pcls -> ctx_names_ok ctx = true -> tables ts fs st -> pinv st ->
    In td ts -> targs_ok td targs -> (forall x, In x xtors -> In x (map xs_name (td_xtors td))) ->
    td_pol td = (if is_case then FData else FCodata) -> (is_case = true -> ty_names_ok T = true) ->
    check_clauses is_case (print_targs targs) T xtors pcls st ctx = COk (cls', leftover, st') ->
    exists used, Permutation (used ++ leftover) pcls /\ map pc_xtor used = xtors
      /\ Forall (fun pc => clause_ok ts fs (E ctx) td targs (if is_case then Some T else None) (clause_of pc) = true) used
      /\ pinv st' /\ same_templates st st' /\ grows st st' /\ clauses_closed (ikeys st') cls' = true.
  Proof.
    intros is_case T td targs xtors. induction xtors as [|x xr IH];
      intros pcls st ctx cls' leftover st' HF Hc Tb I Htd Hok Hxs Hpol HT H.
    - simpl in H. inversion H; subst. exists []. simpl.
      splits; auto using same_templates_refl, grows_refl.
    - simpl in H.
      destruct (swap_remove_first (fun c => String.eqb (pc_xtor c) x) pcls) as [[cl pcls']|] eqn:Es; [|destruct is_case; discriminate].
      apply swap_remove_first_spec in Es. destruct Es as [Hx Hperm]. apply String.eqb_eq in Hx.
      assert (HF' : Forall pc_psound (cl :: pcls')).
      { eapply Permutation_Forall; [apply Permutation_sym; eassumption|assumption]. }
      inversion HF' as [|? ? Hcl HFr]; subst.
      apply cbind_ok in H. destruct H as [[sg bty] [Hsig H]].
      apply cbind_ok in H. destruct H as [[] [Hnd H]].
      apply cbind_ok in H. destruct H as [cctx [Hadd H]].
      apply cbind_ok in H. destruct H as [[body' st1] [Hbody H]].
      apply cbind_ok in H. destruct H as [[[rest left'] st2] [Hrest H]]. inversion H; subst.
      (* the signature *)
      assert (Hxin : In (pc_xtor cl) (map xs_name (td_xtors td))) by (apply Hxs; left; reflexivity).
      destruct (xtor_of_name _ _ Hxin) as [s [Hs Hsn]].
      pose proof (PW_xnames _ _ W td s Htd Hs) as Nx. rewrite Hsn in Nx.
      pose proof (targs_ok_names _ _ Hok) as Nt.
      destruct (PW_sigs _ _ W td s Htd Hs) as [Nsg Nret].
      assert (Hsg : sg = inst_ctx (td_params td) targs (xs_args s)
                    /\ (if is_case then bty = T else exists r0, xs_ret s = Some r0 /\ bty = inst (td_params td) targs r0)).
      { destruct is_case.
        - destruct (aget (st_ctors st) (pc_xtor cl ++ print_targs targs)%string) as [sg0|] eqn:Eg; [|discriminate]. inversion Hsig; subst.
          destruct (ctor_instance_sound _ _ _ _ I Nx Nt Eg) as [td' [s' [Htd' [Hp' [Hs' [Hn' [_ ->]]]]]]].
          destruct (xtor_owner_unique ts fs W td td' s s' Htd Htd' ltac:(congruence) Hs Hs' ltac:(congruence)) as [<- <-].
          auto.
        - destruct (aget (st_dtors st) (pc_xtor cl ++ print_targs targs)%string) as [[sg0 ret0]|] eqn:Eg; [|discriminate]. inversion Hsig; subst.
          destruct (dtor_instance_sound _ _ _ _ _ I Nx Nt Eg) as [td' [s' [r0 [Htd' [Hp' [Hs' [Hn' [_ [Hr [-> ->]]]]]]]]]].
          destruct (xtor_owner_unique ts fs W td td' s s' Htd Htd' ltac:(congruence) Hs Hs' ltac:(congruence)) as [<- <-].
          eauto. }
      destruct Hsg as [-> Hbty].
      unfold add_types in Hadd. rewrite inst_ctx_length in Hadd.
      destruct (Nat.eqb (List.length (pc_names cl)) (List.length (xs_args s))) eqn:Elen; [|discriminate]. simpl in Hadd.
      inversion Hadd; subst cctx.
      assert (Hmb : ty_names_ok bty = true).
      { destruct is_case; [subst; auto|]. destruct Hbty as [r0 [Hr ->]]. rewrite Hr in Nret. apply inst_names_ok; assumption. }
      assert (Hmc : ctx_names_ok (ctx ++ zip_names (pc_names cl) (inst_ctx (td_params td) targs (xs_args s))) = true).
      { apply ctx_names_ok_app; [assumption|]. apply ctx_names_ok_zip. apply inst_ctx_names_ok; assumption. }
      destruct (Hcl st _ bty body' st1 Hmc Hmb Tb I Hbody) as [Hk [I1 [S1 [G1 C1]]]].
      destruct (IH pcls' st1 ctx rest leftover st' HFr Hc (tables_same _ _ _ _ Tb S1) I1 Htd Hok) as [used [Hp [Hmap [Hall [I2 [S2 [G2 C2]]]]]]]; auto.
      { intros y Hy. apply Hxs. right. assumption. }
      exists (cl :: used). splits.
      + simpl. eapply perm_trans; [apply perm_skip; eassumption|assumption].
      + simpl. rewrite Hmap. reflexivity.
      + constructor; [|exact Hall].
        unfold clause_of, clause_ok. rewrite <- Hsn, (find_xsig_of_in ts fs W td s Htd Hs), (names_no_dups_ok _ Hnd), Elen. simpl.
        rewrite extend_sig_inst.
        unfold E in Hk. rewrite env_of_ctx_app in Hk.
        destruct is_case; [subst bty; exact Hk|]. destruct Hbty as [r0 [Hr ->]]. rewrite Hr. exact Hk.
      + assumption.
      + eauto using same_templates_trans.
      + eauto using grows_trans.
      + simpl. rewrite (term_closed_mono _ _ (grows_names_le _ _ G2) _ C1). exact C2.
  Qed.

  Lemma prep_clauses_psound : forall eager cls,
    Forall (fun c => psound_at (clause_body c)) cls -> clauses_names_ok cls = true ->
    Forall pc_psound (prep_clauses (check_term_gen eager) cls).
  Proof.
    intros eager cls HF. induction HF as [|[p x ns c b] r Hc _ IH]; intros Hm; simpl; constructor.
    - simpl in Hm. apply andb_true_iff in Hm. destruct Hm as [Hb _].
      unfold clause_names_ok in Hb. apply andb_true_iff in Hb. destruct Hb as [_ Hb].
      unfold pc_psound. simpl. intros. eapply Hc; eassumption.
    - apply IH. simpl in Hm. apply andb_true_iff in Hm. tauto.
  Qed.

  Lemma clauses_psound_result : forall eager (is_case : bool) T td targs cls st ctx cls' st',
    Forall (fun c => psound_at (clause_body c)) cls -> clauses_names_ok cls = true ->
    ctx_names_ok ctx = true -> tables ts fs st -> pinv st -> In td ts -> targs_ok td targs ->
    td_pol td = (if is_case then FData else FCodata) -> (is_case = true -> ty_names_ok T = true) ->
    check_clauses is_case (print_targs targs) T (map xs_name (td_xtors td)) (prep_clauses (check_term_gen eager) cls) st ctx
      = COk (cls', [], st') ->
    same_names (map clause_xtor cls) (map xs_name (td_xtors td)) = true
    /\ chk_clauses_with (chk ts fs) (E ctx) td targs (if is_case then Some T else None) cls = true
    /\ pinv st' /\ same_templates st st' /\ grows st st' /\ clauses_closed (ikeys st') cls' = true.
  Proof.
    intros eager is_case T td targs cls st ctx cls' st' HF Hm Hc Tb I Htd Hok Hpol HT H.
    destruct (check_clauses_psound is_case T td targs _ _ st ctx cls' [] st' (prep_clauses_psound eager cls HF Hm) Hc Tb I Htd Hok (fun x H => H) Hpol HT H)
      as [used [Hp [Hmap [Hall [I' [S [G C]]]]]]].
    rewrite app_nil_r in Hp.
    assert (Hpc : Permutation (map clause_of used) cls).
    { rewrite <- (prep_clauses_map (check_term_gen eager) cls). apply Permutation_map. assumption. }
    assert (Hnames : Permutation (map xs_name (td_xtors td)) (map clause_xtor cls)).
    { rewrite <- Hmap. eapply perm_trans; [|apply Permutation_map; exact Hpc].
      rewrite map_map. apply Permutation_refl'. apply map_ext. intros pc. reflexivity. }
    splits; try assumption.
    - unfold same_names.
      assert (Hnd : nodup (map xs_name (td_xtors td)) = true).
      { eapply xtor_names_of_type_nodup; [apply (pw_nodup_xtors ts fs W)|eassumption|reflexivity]. }
      apply andb_true_iff. split; [apply andb_true_iff; split|].
      + apply NoDup_nodup. eapply Permutation_NoDup; [exact Hnames|]. apply nodup_NoDup. assumption.
      + apply PeanoNat.Nat.eqb_eq. symmetry. apply Permutation_length. assumption.
      + apply forallb_forall. intros x Hx. apply mem_In. eapply Permutation_in; [apply Permutation_sym; exact Hnames|assumption].
    - rewrite chk_clauses_forallb. apply forallb_forall. intros c Hcin.
      apply (Permutation_in _ (Permutation_sym Hpc)) in Hcin. apply in_map_iff in Hcin. destruct Hcin as [pc [<- Hpin]].
      rewrite Forall_forall in Hall. apply Hall. assumption.
  Qed.

  (* ---------- the type of a case / destructor scrutinee ---------- *)
  Lemma wf_decl_inv : forall td targs, In td ts -> wf_ty ts (FDecl (td_name td) targs) = true -> targs_ok td targs.
  Proof.
    intros td targs Htd H. simpl in H. rewrite (pw_find_type ts fs W td Htd) in H.
    apply andb_true_iff in H. destruct H as [Hl Hw]. apply PeanoNat.Nat.eqb_eq in Hl. split; assumption.
  Qed.

  Lemma lookup_or_template_psound : forall pol st x targs ty xs st1,
    tables ts fs st -> pinv st -> name_ok x = true -> tys_names_ok targs = true ->
    lookup_ty_for_xtor_or_template pol st x targs = COk (ty, xs, st1) ->
    exists td, In td ts /\ td_pol td = pol /\ ty = FDecl (td_name td) targs /\ xs = map xs_name (td_xtors td)
               /\ In x xs /\ targs_ok td targs /\ pinv st1 /\ same_templates st st1 /\ grows st st1 /\ has_inst_p st1 ty.
  Proof.
    intros pol st x targs ty xs st1 T I Nx Nt H. unfold lookup_ty_for_xtor_or_template in H.
    destruct (lookup_ty_for_xtor pol st (x ++ print_targs targs)%string) as [[ty0 xs0]|] eqn:El.
    - inversion H; subst. destruct (lookup_ty_for_xtor_sound _ _ _ _ _ _ I Nx Nt El) as [td [Htd [Hp [-> [-> [Hx [Hok Hi]]]]]]].
      exists td. splits; auto using same_templates_refl, grows_refl.
    - unfold lookup_ty_template_for_xtor in H. rewrite (t_tt_list _ _ _ T), find_template_find_xtor in H.
      destruct (find_xtor ts pol x) as [[td s]|] eqn:Ef; simpl in H; [|discriminate].
      apply cbind_ok in H. destruct H as [st2 [Hc H]]. inversion H; subst.
      apply find_xtor_in in Ef. destruct Ef as [Hin [Hp Hs]].
      assert (Nty : ty_names_ok (FDecl (td_name td) targs) = true).
      { rewrite ty_names_ok_decl, (PW_tnames _ _ W td Hin). exact Nt. }
      destruct (ty_check_sound ts fs W _ st st1 Nty T I Hc) as [Hw [I1 [S1 [G1 Hi]]]].
      exists td. splits; auto.
      + apply find_xsig_spec in Hs. destruct Hs as [Hs <-]. apply in_map. assumption.
      + apply wf_decl_inv; assumption.
  Qed.

  Lemma eager_pstep : forall (eager : bool) T st st0, ty_names_ok T = true -> tables ts fs st -> pinv st ->
    (if eager then ty_check T st else COk st) = COk st0 ->
    pinv st0 /\ same_templates st st0 /\ grows st st0.
  Proof.
    intros eager T st st0 Hm Tb I H. destruct eager.
    - destruct (ty_check_sound ts fs W _ _ _ Hm Tb I H) as [_ [I1 [S1 [G1 _]]]]. auto.
    - inversion H; subst. auto using same_templates_refl, grows_refl.
  Qed.

  Ltac frame := eauto using same_templates_trans, grows_trans, same_templates_refl, grows_refl.

  Theorem check_term_gen_psound : forall t, psound_at t.
  Proof.
    intros t. induction t using fterm_ind'; unfold psound_at;
      intros eager st ctx T t' st' Hm Hc HT Tb I Hk; simpl in Hk; simpl in Hm.
    - (* FVar *)
      assert (Hchi : match chi with Some FCns => false | _ => true end = true /\
                     exists found st1, lookup_var ctx v = COk found /\
                       match ty with Some t => check_equality st t found | None => COk st end = COk st1 /\
                       check_equality st1 T found = COk st').
      { destruct chi as [[|]|]; try discriminate;
          (apply cbind_ok in Hk; destruct Hk as [found [Hl Hk]];
           apply cbind_ok in Hk; destruct Hk as [st1 [H1 Hk]];
           apply cbind_ok in Hk; destruct Hk as [st2 [H2 Hk]]; inversion Hk; subst; eauto 10). }
      destruct Hchi as [Hchi [found [st1 [Hl [H1 H2]]]]].
      destruct (lookup_var_E _ _ _ Hl) as [HE [b0 [Hb0 Hbt]]].
      assert (Hmf : ty_names_ok found = true) by (subst found; apply (ctx_names_ok_in ctx); assumption).
      destruct (ann_check_psound ty found st st1 Hm Hmf Tb I H1) as [Hann [I1 [S1 G1]]].
      destruct (check_equality_sound ts fs W _ _ _ _ HT Hmf (tables_same _ _ _ _ Tb S1) I1 H2) as [Heq [_ [I2 [S2 [G2 _]]]]].
      destruct (check_equality_sound ts fs W _ _ _ _ HT Hmf (tables_same _ _ _ _ Tb S1) I1 H2) as [_ [_ [_ [_ [_ HiT]]]]].
      assert (Ht' : t' = FVar v (Some T) (Some FPrd)).
      { destruct chi as [[|]|]; try discriminate; rewrite Hl in Hk; simpl in Hk; rewrite H1 in Hk; simpl in Hk;
          rewrite H2 in Hk; simpl in Hk; inversion Hk; reflexivity. }
      rewrite <- Heq in HE, Hann. simpl. unfold is_prd. rewrite HE, fty_eqb_refl, Hann, Hchi. splits; frame.
      subst t'. simpl. apply has_inst_declared. exact HiT.
    - (* FLit *)
      apply cbind_ok in Hk. destruct Hk as [st1 [H1 Hk]]. inversion Hk; subst.
      destruct (check_equality_sound ts fs W T FI64 _ _ HT eq_refl Tb I H1) as [Heq [_ [I2 [S2 [G2 _]]]]].
      subst T. splits; frame; try reflexivity.
    - (* FOp *)
      apply andb_true_iff in Hm. destruct Hm as [Hm1 Hm2].
      apply cbind_ok in Hk. destruct Hk as [st1 [H1 Hk]].
      apply cbind_ok in Hk. destruct Hk as [[a' st2] [H2 Hk]].
      apply cbind_ok in Hk. destruct Hk as [[b' st3] [H3 Hk]]. inversion Hk; subst.
      destruct (check_equality_sound ts fs W FI64 T _ _ eq_refl HT Tb I H1) as [Heq [_ [I1 [S1 [G1 _]]]]].
      subst T.
      destruct (IHt1 eager st1 ctx FI64 a' st2 Hm1 Hc eq_refl (tables_same _ _ _ _ Tb S1) I1 H2) as [K1 [I2 [S2 [G2 C2]]]].
      assert (S12 : same_templates st st2) by frame.
      destruct (IHt2 eager st2 ctx FI64 b' st' Hm2 Hc eq_refl (tables_same _ _ _ _ Tb S12) I2 H3) as [K2 [I3 [S3 [G3 C3]]]].
      simpl. rewrite K1, K2. splits; frame.
      simpl. rewrite (term_closed_mono _ _ (grows_names_le _ _ G3) _ C2), C3. reflexivity.
    - (* FIfC *)
      apply andb_true_iff in Hm. destruct Hm as [Hm Hm4]. apply andb_true_iff in Hm. destruct Hm as [Hm Hm3].
      apply andb_true_iff in Hm. destruct Hm as [Hm1 Hm2].
      apply cbind_ok in Hk. destruct Hk as [[a' st1] [H1 Hk]].
      apply cbind_ok in Hk. destruct Hk as [[b' st2] [H2 Hk]].
      apply cbind_ok in Hk. destruct Hk as [[th' st3] [H3 Hk]].
      apply cbind_ok in Hk. destruct Hk as [[el' st4] [H4 Hk]]. inversion Hk; subst.
      destruct (IHt1 eager st ctx FI64 a' st1 Hm1 Hc eq_refl Tb I H1) as [K1 [I1 [S1 [G1 C1]]]].
      assert (Hb : match b with Some b' => chk ts fs (E ctx) b' FI64 | None => true end = true
                   /\ pinv st2 /\ same_templates st1 st2 /\ grows st1 st2
                   /\ match b' with Some b1 => term_closed (ikeys st2) b1 | None => true end = true).
      { destruct b as [b0|].
        - apply cbind_ok in H2. destruct H2 as [[b1 sb] [H2 H2']]. inversion H2'; subst.
          eapply H; [reflexivity|exact Hm2|exact Hc|reflexivity|exact (tables_same _ _ _ _ Tb S1)|exact I1|exact H2].
        - inversion H2; subst. splits; frame. }
      destruct Hb as [K2 [I2 [S2 [G2 C2]]]].
      assert (S02 : same_templates st st2) by frame.
      destruct (IHt2 eager st2 ctx T th' st3 Hm3 Hc HT (tables_same _ _ _ _ Tb S02) I2 H3) as [K3 [I3 [S3 [G3 C3]]]].
      assert (S03 : same_templates st st3) by frame.
      destruct (IHt3 eager st3 ctx T el' st' Hm4 Hc HT (tables_same _ _ _ _ Tb S03) I3 H4) as [K4 [I4 [S4 [G4 C4]]]].
      simpl. rewrite K1, K2, K3, K4. splits; frame.
      simpl. rewrite (term_closed_mono _ _ (grows_names_le _ _ (grows_trans _ _ _ G2 (grows_trans _ _ _ G3 G4))) _ C1).
      rewrite (term_closed_mono _ _ (grows_names_le _ _ G4) _ C3), C4.
      destruct b' as [b1|]; [|reflexivity].
      rewrite (term_closed_mono _ _ (grows_names_le _ _ (grows_trans _ _ _ G3 G4)) _ C2). reflexivity.
    - (* FPrint *)
      apply andb_true_iff in Hm. destruct Hm as [Hm1 Hm2].
      apply cbind_ok in Hk. destruct Hk as [[a' st1] [H1 Hk]].
      apply cbind_ok in Hk. destruct Hk as [[n' st2] [H2 Hk]]. inversion Hk; subst.
      destruct (IHt1 eager st ctx FI64 a' st1 Hm1 Hc eq_refl Tb I H1) as [K1 [I1 [S1 [G1 C1]]]].
      destruct (IHt2 eager st1 ctx T n' st' Hm2 Hc HT (tables_same _ _ _ _ Tb S1) I1 H2) as [K2 [I2 [S2 [G2 C2]]]].
      simpl. rewrite K1, K2. splits; frame.
      simpl. rewrite (term_closed_mono _ _ (grows_names_le _ _ G2) _ C1), C2. reflexivity.
    - (* FLet *)
      apply andb_true_iff in Hm. destruct Hm as [Hm Hm3]. apply andb_true_iff in Hm. destruct Hm as [Hm1 Hm2].
      apply cbind_ok in Hk. destruct Hk as [st1 [H1 Hk]].
      apply cbind_ok in Hk. destruct Hk as [[a' st2] [H2 Hk]].
      apply cbind_ok in Hk. destruct Hk as [[b' st3] [H3 Hk]]. inversion Hk; subst.
      destruct (ty_check_sound ts fs W _ _ _ Hm1 Tb I H1) as [Hw [I1 [S1 [G1 Hi1]]]].
      destruct (IHt1 eager st1 ctx vty a' st2 Hm2 Hc Hm1 (tables_same _ _ _ _ Tb S1) I1 H2) as [K1 [I2 [S2 [G2 C2]]]].
      assert (S02 : same_templates st st2) by frame.
      assert (Hc' : ctx_names_ok (ctx ++ [mkfb v FPrd vty]) = true).
      { apply ctx_names_ok_app; [assumption|]. unfold ctx_names_ok. simpl. rewrite Hm1. reflexivity. }
      destruct (IHt2 eager st2 _ T b' st' Hm3 Hc' HT (tables_same _ _ _ _ Tb S02) I2 H3) as [K2 [I3 [S3 [G3 C3]]]].
      rewrite E_snoc in K2. simpl. rewrite Hw, K1, K2. splits; frame.
      simpl. rewrite (term_closed_mono _ _ (grows_names_le _ _ G3) _ C2), C3.
      rewrite (ty_declared_mono _ _ _ (grows_names_le _ _ (grows_trans _ _ _ G2 G3)) (has_inst_declared _ _ Hi1)). reflexivity.
    - (* FCall *)
      rewrite terms_names_ok_eq in Hm.
      destruct (aget (st_defs st) f) as [[types ret]|] eqn:Ed; [|discriminate].
      rewrite (t_df _ _ _ Tb) in Ed. destruct (find_def fs f) as [d|] eqn:Ef; [|discriminate]. simpl in Ed. inversion Ed; subst.
      assert (Hdin : In d fs) by (unfold find_def in Ef; apply find_some in Ef; tauto).
      destruct (PW_defs _ _ W d Hdin) as [Hmd Hmr].
      apply cbind_ok in Hk. destruct Hk as [st1 [H1 Hk]].
      apply cbind_ok in Hk. destruct Hk as [[args' st2] [H2 Hk]]. inversion Hk; subst.
      destruct (check_equality_sound ts fs W _ _ _ _ HT Hmr Tb I H1) as [Heq [_ [I1 [S1 [G1 Hi1]]]]].
      rewrite <- (inst_ctx_nil (fdctx d)) in H2.
      destruct (check_args_psound args H eager [] [] _ _ _ _ _ Hm Hc Hmd eq_refl (tables_same _ _ _ _ Tb S1) I1 H2) as [K [I2 [S2 [G2 C2]]]].
      assert (Hcl : term_closed (ikeys st') (FCall f args' (Some T)) = true).
      { simpl. rewrite terms_closed_eq, C2, andb_true_r.
        eapply ty_declared_mono; [apply (grows_names_le _ _ G2)|]. apply has_inst_declared. exact Hi1. }
      subst T. simpl. rewrite Ef, fty_eqb_refl, K. splits; frame; try exact Hcl.
    - (* FCtor *)
      apply andb_true_iff in Hm. destruct Hm as [Nx Hm]. rewrite terms_names_ok_eq in Hm.
      apply cbind_ok in Hk. destruct Hk as [st0 [H0 Hk]].
      destruct (eager_pstep _ _ _ _ HT Tb I H0) as [I0 [S0 G0]].
      pose proof (tables_same _ _ _ _ Tb S0) as Tb0.
      destruct T as [|n targs]; [discriminate|].
      pose proof HT as HT'. rewrite ty_names_ok_decl in HT'. apply andb_true_iff in HT'. destruct HT' as [Nn Nt].
      destruct (aget (st_ctors st0) (x ++ print_targs targs)%string) as [types|] eqn:Ec; [|discriminate].
      destruct (lookup_ty_for_xtor FData st0 (x ++ print_targs targs)%string) as [[ty xs]|] eqn:El; [|discriminate].
      apply cbind_ok in Hk. destruct Hk as [[args' st1] [H1 Hk]].
      apply cbind_ok in Hk. destruct Hk as [st2 [H2 Hk]]. inversion Hk; subst.
      destruct (ctor_instance_sound _ _ _ _ I0 Nx Nt Ec) as [td [s [Htd [Hp [Hs [Hsn [Hok ->]]]]]]].
      destruct (lookup_ty_for_xtor_sound _ _ _ _ _ _ I0 Nx Nt El) as [td2 [Htd2 [Hp2 [-> [-> [Hx2 _]]]]]].
      assert (td2 = td).
      { eapply owner_of_names; [exact Htd2|exact Htd|congruence|exact Hx2|]. rewrite <- Hsn. apply in_map. assumption. }
      subst td2.
      destruct (PW_sigs _ _ W td s Htd Hs) as [Nsg _].
      destruct (check_args_psound args H eager _ _ _ _ _ _ _ Hm Hc Nsg Nt Tb0 I0 H1) as [K [I1 [S1 [G1 C1]]]].
      assert (S01 : same_templates st st1) by frame.
      assert (Nty : ty_names_ok (FDecl (td_name td) targs) = true).
      { rewrite ty_names_ok_decl, (PW_tnames _ _ W td Htd). exact Nt. }
      destruct (check_equality_sound ts fs W _ _ _ _ HT Nty (tables_same _ _ _ _ Tb S01) I1 H2) as [Heq [_ [I2 [S2 [G2 Hi2]]]]].
      assert (Hcl : term_closed (ikeys st') (FCtor x args' (Some (FDecl n targs))) = true).
      { cbn [term_closed oty_declared]. rewrite terms_closed_eq, (terms_closed_mono _ _ _ (grows_names_le _ _ G2) C1), andb_true_r.
        apply has_inst_declared. exact Hi2. }
      inversion Heq; subst n. destruct Hok as [Hlen _].
      simpl. rewrite (pw_find_type ts fs W td Htd), Hp, Hlen, PeanoNat.Nat.eqb_refl.
      rewrite <- Hsn, (find_xsig_of_in ts fs W td s Htd Hs). simpl. rewrite K. splits; frame; try exact Hcl.
    - (* FDtor *)
      apply andb_true_iff in Hm. destruct Hm as [Hm Hm3]. apply andb_true_iff in Hm. destruct Hm as [Hm Hm2].
      apply andb_true_iff in Hm. destruct Hm as [Nx Nt].
      rewrite terms_names_ok_eq in Hm3.
      apply cbind_ok in Hk. destruct Hk as [[[ty xs] st1] [H1 Hk]].
      apply cbind_ok in Hk. destruct Hk as [[s' st2] [H2 Hk]].
      destruct (lookup_or_template_psound _ _ _ _ _ _ _ Tb I Nx Nt H1) as [td [Htd [Hp [-> [-> [Hx [Hok [I1 [S1 [G1 Hi1]]]]]]]]]].
      assert (Nty : ty_names_ok (FDecl (td_name td) targs) = true).
      { rewrite ty_names_ok_decl, (PW_tnames _ _ W td Htd). exact Nt. }
      pose proof (has_inst_targs_declared ts fs W st1 _ _ I1 (PW_tnames _ _ W td Htd) Nt Hi1) as Cta.
      destruct (IHt eager st1 ctx _ s' st2 Hm2 Hc Nty (tables_same _ _ _ _ Tb S1) I1 H2) as [K1 [I2 [S2 [G2 C2]]]].
      assert (S02 : same_templates st st2) by frame. pose proof (tables_same _ _ _ _ Tb S02) as Tb2.
      destruct (aget (st_dtors st2) (x ++ print_targs targs)%string) as [[types ret]|] eqn:Ed; [|discriminate].
      apply cbind_ok in Hk. destruct Hk as [[args' st3] [H3 Hk]].
      apply cbind_ok in Hk. destruct Hk as [st4 [H4 Hk]]. inversion Hk; subst.
      destruct (dtor_instance_sound _ _ _ _ _ I2 Nx Nt Ed) as [td' [s [r0 [Htd' [Hp' [Hs [Hsn [_ [Hret [-> ->]]]]]]]]]].
      assert (td' = td).
      { eapply owner_of_names; [exact Htd'|exact Htd|congruence| |exact Hx]. rewrite <- Hsn. apply in_map. assumption. }
      subst td'.
      destruct (PW_sigs _ _ W td s Htd Hs) as [Nsg Nret]. rewrite Hret in Nret. simpl in Nret.
      destruct (check_args_psound args H eager _ _ _ _ _ _ _ Hm3 Hc Nsg Nt Tb2 I2 H3) as [K2 [I3 [S3 [G3 C3]]]].
      assert (S03 : same_templates st st3) by frame.
      assert (Nr : ty_names_ok (inst (td_params td) targs r0) = true) by (apply inst_names_ok; assumption).
      destruct (check_equality_sound ts fs W _ _ _ _ HT Nr (tables_same _ _ _ _ Tb S03) I3 H4) as [Heq [_ [I4 [S4 [G4 Hi4]]]]].
      assert (Hcl : term_closed (ikeys st') (FDtor s' x targs args' (Some T)) = true).
      { cbn [term_closed oty_declared]. rewrite terms_closed_eq, (terms_closed_mono _ _ _ (grows_names_le _ _ G4) C3), andb_true_r.
        rewrite (has_inst_declared _ _ Hi4). simpl.
        rewrite (tys_declared_mono _ _ _ (grows_names_le _ _ (grows_trans _ _ _ G2 (grows_trans _ _ _ G3 G4))) Cta). simpl.
        exact (term_closed_mono _ _ (grows_names_le _ _ (grows_trans _ _ _ G3 G4)) _ C2). }
      destruct Hok as [Hlen Hwf].
      pose proof (pw_find_xtor ts fs W td s Htd Hs) as Hfx. rewrite Hp', Hsn in Hfx.
      simpl. rewrite Hfx, Hlen, PeanoNat.Nat.eqb_refl, Hwf. simpl. rewrite K1, K2, Hret, Heq, fty_eqb_refl. splits; frame; try (rewrite Heq in Hcl; exact Hcl).
    - (* FCase *)
      apply andb_true_iff in Hm. destruct Hm as [Hm Hm3]. apply andb_true_iff in Hm. destruct Hm as [Nt Hm2].
      rewrite clauses_names_ok_eq in Hm3.
      destruct cls as [|[p0 x0 ns0 c0 b0] clr]; [discriminate|].
      assert (Nx : name_ok x0 = true).
      { simpl in Hm3. apply andb_true_iff in Hm3. destruct Hm3 as [Hm3 _]. unfold clause_names_ok in Hm3.
        apply andb_true_iff in Hm3. tauto. }
      apply cbind_ok in Hk. destruct Hk as [[[ty xs] st1] [H1 Hk]].
      apply cbind_ok in Hk. destruct Hk as [[s' st2] [H2 Hk]].
      apply cbind_ok in Hk. destruct Hk as [[[cls' leftover] st3] [H3 Hk]].
      destruct leftover; [|discriminate]. inversion Hk; subst.
      destruct (lookup_or_template_psound _ _ _ _ _ _ _ Tb I Nx Nt H1) as [td [Htd [Hp [-> [-> [Hx [Hok [I1 [S1 [G1 Hi1]]]]]]]]]].
      assert (Nty : ty_names_ok (FDecl (td_name td) targs) = true).
      { rewrite ty_names_ok_decl, (PW_tnames _ _ W td Htd). exact Nt. }
      pose proof (has_inst_targs_declared ts fs W st1 _ _ I1 (PW_tnames _ _ W td Htd) Nt Hi1) as Cta.
      destruct (IHt eager st1 ctx _ s' st2 Hm2 Hc Nty (tables_same _ _ _ _ Tb S1) I1 H2) as [K1 [I2 [S2 [G2 C2]]]].
      assert (S02 : same_templates st st2) by frame.
      destruct (clauses_psound_result eager true T td targs _ st2 ctx cls' st' H Hm3 Hc (tables_same _ _ _ _ Tb S02) I2 Htd Hok Hp (fun _ => HT) H3)
        as [Ksn [Kcl [I3 [S3 [G3 C3]]]]].
      assert (Hcl : term_closed (ikeys st') (FCase s' targs cls' (Some T)) = true).
      { cbn [term_closed oty_declared]. rewrite clauses_closed_eq, C3, andb_true_r.
        rewrite (tys_declared_mono _ _ _ (grows_names_le _ _ (grows_trans _ _ _ G2 G3)) Cta). simpl.
        exact (term_closed_mono _ _ (grows_names_le _ _ G3) _ C2). }
      destruct (xtor_of_name _ _ Hx) as [s [Hs Hsn]].
      pose proof (pw_find_xtor ts fs W td s Htd Hs) as Hfx. rewrite Hp, Hsn in Hfx.
      destruct Hok as [Hlen Hwf].
      assert (Hgoal : chk ts fs (E ctx) (FCase t targs (FClause p0 x0 ns0 c0 b0 :: clr) r) T =
                (Nat.eqb (List.length targs) (List.length (td_params td)) && forallb (wf_ty ts) targs
                 && chk ts fs (E ctx) t (FDecl (td_name td) targs)
                 && same_names (map clause_xtor (FClause p0 x0 ns0 c0 b0 :: clr)) (map xs_name (td_xtors td))
                 && chk_clauses_with (chk ts fs) (E ctx) td targs (Some T) (FClause p0 x0 ns0 c0 b0 :: clr))).
      { simpl. rewrite Hfx. reflexivity. }
      rewrite Hgoal, K1, Ksn, Kcl, Hlen, PeanoNat.Nat.eqb_refl, Hwf. splits; frame; try exact Hcl.
    - (* FNew *)
      rewrite clauses_names_ok_eq in Hm.
      apply cbind_ok in Hk. destruct Hk as [st0 [H0 Hk]].
      destruct (eager_pstep _ _ _ _ HT Tb I H0) as [I0 [S0 G0]].
      pose proof (tables_same _ _ _ _ Tb S0) as Tb0.
      destruct T as [|n targs]; [discriminate|].
      pose proof HT as HT'. rewrite ty_names_ok_decl in HT'. apply andb_true_iff in HT'. destruct HT' as [Nn Nt].
      destruct (aget (st_types st0) (n ++ print_targs targs)%string) as [[[pol targs'] dtors]|] eqn:Eg; [|discriminate].
      destruct pol; [discriminate|].
      apply cbind_ok in Hk. destruct Hk as [[[cls' leftover] st1] [H1 Hk]].
      destruct leftover; [|discriminate]. inversion Hk; subst.
      destruct (pi_types _ _ I0 _ _ _ _ Eg) as [td [Htd [Ek [Hp [-> Hok]]]]].
      destruct (instance_name_inj _ _ _ _ (name_ok_no_delim _ Nn) (name_ok_no_delim _ (PW_tnames _ _ W td Htd))
                  Nt (targs_ok_names _ _ Hok) Ek) as [-> <-].
      destruct (clauses_psound_result eager false (FDecl (td_name td) targs) td targs _ st0 ctx cls' st' H Hm Hc Tb0 I0 Htd Hok Hp
                  (fun H => ltac:(discriminate)) H1) as [Ksn [Kcl [I3 [S3 [G3 C3]]]]].
      assert (Hcl : term_closed (ikeys st') (FNew cls' (Some (FDecl (td_name td) targs))) = true).
      { cbn [term_closed oty_declared]. rewrite clauses_closed_eq, C3, andb_true_r.
        eapply ty_declared_mono; [apply (grows_names_le _ _ G3)|]. apply has_inst_declared. simpl. unfold ahas. rewrite Eg. reflexivity. }
      destruct Hok as [Hlen Hwf].
      simpl. rewrite (pw_find_type ts fs W td Htd), Hp, Hlen, PeanoNat.Nat.eqb_refl. simpl. rewrite Ksn, Kcl. splits; frame; try exact Hcl.
    - (* FLabel *)
      apply cbind_ok in Hk. destruct Hk as [[b' st1] [H1 Hk]]. inversion Hk; subst.
      assert (Hc' : ctx_names_ok (ctx ++ [mkfb l FCns T]) = true).
      { apply ctx_names_ok_app; [assumption|]. unfold ctx_names_ok. simpl. rewrite HT. reflexivity. }
      destruct (IHt eager st _ T b' st' Hm Hc' HT Tb I H1) as [K [I1 [S1 [G1 C1]]]].
      rewrite E_snoc in K. simpl. rewrite K. splits; frame; try exact C1.
    - (* FGoto *)
      apply cbind_ok in Hk. destruct Hk as [cont [Hl Hk]].
      apply cbind_ok in Hk. destruct Hk as [[b' st1] [H1 Hk]]. inversion Hk; subst.
      destruct (lookup_covar_E _ _ _ Hl) as [HE [b0 [Hb0 Hbt]]].
      assert (Hmf : ty_names_ok cont = true) by (subst cont; apply (ctx_names_ok_in ctx); assumption).
      destruct (IHt eager st ctx cont b' st' Hm Hc Hmf Tb I H1) as [K [I1 [S1 [G1 C1]]]].
      simpl. unfold cns_ty. rewrite HE, K. splits; frame; try exact C1.
    - (* FExit *)
      apply cbind_ok in Hk. destruct Hk as [[b' st1] [H1 Hk]]. inversion Hk; subst.
      destruct (IHt eager st ctx FI64 b' st' Hm Hc eq_refl Tb I H1) as [K [I1 [S1 [G1 C1]]]].
      simpl. rewrite K. splits; frame; try exact C1.
    - (* FParen *)
      apply cbind_ok in Hk. destruct Hk as [[b' st1] [H1 Hk]]. inversion Hk; subst.
      destruct (IHt eager st ctx T b' st' Hm Hc HT Tb I H1) as [K [I1 [S1 [G1 C1]]]].
      simpl. rewrite K. splits; frame; try exact C1.
  Qed.
End PSound.
