(* C15, scopes.
   (1) Model side: the context in which the checker checks the body of a case / new clause is EXACTLY
       the context of the case / new term followed by that clause's own binders
       ([check_clauses_context_exact], [case_clause_context_exact], [new_clause_context_exact]).
       The binders of a sibling clause are not in it, in whatever order the xtors are declared.  (A checker
       that kept one growing context for all clauses - the seeded change `scope leak between clauses` -
       would make these statements, and soundness, unprovable.)
   (2) Specification and checker: a name used where it is NOT in scope is rejected - whatever is bound
       elsewhere in the definition (a sibling clause's binder, a let variable outside its body, a label
       outside its body, a clause binder in the scrutinee or after the case, ...): [occ_sc s sc t] says that
       s occurs in t and sc are exactly the names bound on the path from the root of t to s. *)
From Coq Require Import List ZArith String Bool Permutation Lia.
From SCC Require Import Base.Sexp Lang.SynUtil Lang.FunSyn Model.Check Sem.FunTyping Sem.FunNames
  Proof.FunInd Proof.FunEq Proof.CheckAnn Proof.TypingReject Proof.CheckMono Proof.CheckArity.
Import ListNotations.
Open Scope list_scope.

(* ---------- (1) the context of a clause body ---------- *)
Definition clause_names (c : fclause) : fnamectx := match c with FClause _ _ ns _ _ => ns end.
Definition clause_ctx (c : fclause) : fctx := match c with FClause _ _ _ cx _ => cx end.

Lemma zip_names_vars : forall ns sg, List.length ns = List.length sg -> map fbvar (zip_names ns sg) = ns.
Proof.
  induction ns as [|n r IH]; intros [|b br] H; simpl in *; try discriminate; [reflexivity|].
  rewrite IH by lia. reflexivity.
Qed.

(* every emitted clause is one of the given clauses, its annotated context binds exactly its own
   binder names, and its body is the result of its checker run in  ctx ++ (that context) *)
Definition clause_checked_in (ctx : fctx) (pcls : list pclause) (c' : fclause) : Prop :=
  exists pc st0 st1 bty,
    In pc pcls /\ pc_xtor pc = clause_xtor c' /\ pc_names pc = clause_names c'
    /\ map fbvar (clause_ctx c') = clause_names c'
    /\ pc_chk pc st0 (ctx ++ clause_ctx c') bty = COk (clause_body c', st1).

Theorem check_clauses_context_exact : forall is_case sfx T xtors pcls st ctx cls' leftover st',
  check_clauses is_case sfx T xtors pcls st ctx = COk (cls', leftover, st') ->
  Forall (clause_checked_in ctx pcls) cls'.
Proof.
  intros is_case sfx T xtors. induction xtors as [|x xr IH]; intros pcls st ctx cls' leftover st' H; simpl in H.
  - inversion H; subst. constructor.
  - destruct (swap_remove_first (fun c => String.eqb (pc_xtor c) x) pcls) as [[cl pcls']|] eqn:Es; [|destruct is_case; discriminate].
    apply swap_remove_first_spec in Es. destruct Es as [_ Hperm].
    apply cbind_ok in H. destruct H as [[sg bty] [Hsig H]].
    apply cbind_ok in H. destruct H as [[] [Hnd H]].
    apply cbind_ok in H. destruct H as [cctx [Hadd H]].
    apply cbind_ok in H. destruct H as [[body' st1] [Hbody H]].
    apply cbind_ok in H. destruct H as [[[rest left'] st2] [Hrest H]]. inversion H; subst.
    unfold add_types in Hadd.
    destruct (Nat.eqb (List.length (pc_names cl)) (List.length sg)) eqn:El; [|discriminate]. simpl in Hadd.
    inversion Hadd; subst cctx. apply PeanoNat.Nat.eqb_eq in El.
    constructor.
    + exists cl, st, st1, bty. simpl. splits; auto.
      * eapply Permutation_in; [exact Hperm|left; reflexivity].
      * apply zip_names_vars. exact El.
    + eapply Forall_impl; [|eapply IH; exact Hrest].
      intros c' [pc [s0 [s1 [b [Hin R]]]]]. exists pc, s0, s1, b. split; [|exact R].
      eapply Permutation_in; [exact Hperm|right; exact Hin].
Qed.

Lemma prep_clauses_in_inv : forall chk cls pc, In pc (prep_clauses chk cls) ->
  In (clause_of pc) cls /\ pc_chk pc = chk (pc_body pc).
Proof.
  intros chk cls pc. induction cls as [|[p x ns c b] r IH]; simpl; intros H; [destruct H|].
  destruct H as [<-|H]; [split; [left; reflexivity|reflexivity]|]. destruct (IH H). auto.
Qed.

(* at a case / new term: every clause body of the output was checked in the term's context followed by
   the clause's own binders *)
Definition body_checked_in (eager : bool) (ctx : fctx) (cls : list fclause) (c' : fclause) : Prop :=
  exists c st0 st1 bty,
    In c cls /\ clause_xtor c = clause_xtor c' /\ clause_names c = clause_names c'
    /\ map fbvar (clause_ctx c') = clause_names c'
    /\ check_term_gen eager (clause_body c) st0 (ctx ++ clause_ctx c') bty = COk (clause_body c', st1).

Lemma clause_checked_body : forall eager ctx cls c',
  clause_checked_in ctx (prep_clauses (check_term_gen eager) cls) c' -> body_checked_in eager ctx cls c'.
Proof.
  intros eager ctx cls c' [pc [s0 [s1 [b [Hin [Hx [Hn [Hv Hc]]]]]]]].
  destruct (prep_clauses_in_inv _ _ _ Hin) as [Hcin Hchk]. rewrite Hchk in Hc.
  exists (clause_of pc), s0, s1, b. unfold clause_of. simpl. auto.
Qed.

Theorem case_clause_context_exact : forall eager s targs cls r st ctx T s' targs' cls' r' st',
  check_term_gen eager (FCase s targs cls r) st ctx T = COk (FCase s' targs' cls' r', st') ->
  Forall (body_checked_in eager ctx cls) cls'.
Proof.
  intros eager s targs cls r st ctx T s' targs' cls' r' st' H. simpl in H.
  destruct cls as [|[p0 x0 ns0 c0 b0] clr]; [discriminate|].
  apply cbind_ok in H. destruct H as [[[ty xs] st1] [H1 H]].
  apply cbind_ok in H. destruct H as [[sc st2] [H2 H]].
  apply cbind_ok in H. destruct H as [[[cl lf] st3] [H3 H]].
  destruct lf; [|discriminate]. inversion H; subst.
  eapply Forall_impl; [|eapply check_clauses_context_exact; exact H3].
  intros c' Hc. apply clause_checked_body. exact Hc.
Qed.
Theorem new_clause_context_exact : forall eager cls r st ctx T cls' r' st',
  check_term_gen eager (FNew cls r) st ctx T = COk (FNew cls' r', st') ->
  Forall (body_checked_in eager ctx cls) cls'.
Proof.
  intros eager cls r st ctx T cls' r' st' H. simpl in H.
  apply cbind_ok in H. destruct H as [st0 [H0 H]].
  destruct T as [|n targs]; [discriminate|].
  destruct (aget (st_types st0) (n ++ print_targs targs)%string) as [[[pol ta] dt]|]; [|discriminate].
  destruct pol; [discriminate|].
  apply cbind_ok in H. destruct H as [[[cl lf] st1] [H1 H]].
  destruct lf; [|discriminate]. inversion H; subst.
  eapply Forall_impl; [|eapply check_clauses_context_exact; exact H1].
  intros c' Hc. apply clause_checked_body. exact Hc.
Qed.

(* ---------- (2) names used outside their scope ---------- *)
(* s occurs in t; sc = the names bound on the path from the root of t down to s *)
Inductive occ_sc (s : fterm) : list fname -> fterm -> Prop :=
| osc_here : occ_sc s [] s
| osc_op1 : forall sc a o b, occ_sc s sc a -> occ_sc s sc (FOp a o b)
| osc_op2 : forall sc a o b, occ_sc s sc b -> occ_sc s sc (FOp a o b)
| osc_if1 : forall sc so a b th el ty, occ_sc s sc a -> occ_sc s sc (FIfC so a b th el ty)
| osc_if2 : forall sc so a b th el ty, occ_sc s sc b -> occ_sc s sc (FIfC so a (Some b) th el ty)
| osc_if3 : forall sc so a b th el ty, occ_sc s sc th -> occ_sc s sc (FIfC so a b th el ty)
| osc_if4 : forall sc so a b th el ty, occ_sc s sc el -> occ_sc s sc (FIfC so a b th el ty)
| osc_print1 : forall sc nl a n ty, occ_sc s sc a -> occ_sc s sc (FPrint nl a n ty)
| osc_print2 : forall sc nl a n ty, occ_sc s sc n -> occ_sc s sc (FPrint nl a n ty)
| osc_let1 : forall sc v vty a b ty, occ_sc s sc a -> occ_sc s sc (FLet v vty a b ty)          (* the bound term: v not in scope *)
| osc_let2 : forall sc v vty a b ty, occ_sc s sc b -> occ_sc s (v :: sc) (FLet v vty a b ty)
| osc_call : forall sc f args r a, In a args -> occ_sc s sc a -> occ_sc s sc (FCall f args r)
| osc_ctor : forall sc x args r a, In a args -> occ_sc s sc a -> occ_sc s sc (FCtor x args r)
| osc_dtor1 : forall sc t x targs args r, occ_sc s sc t -> occ_sc s sc (FDtor t x targs args r)
| osc_dtor2 : forall sc t x targs args r a, In a args -> occ_sc s sc a -> occ_sc s sc (FDtor t x targs args r)
| osc_case1 : forall sc t targs cls r, occ_sc s sc t -> occ_sc s sc (FCase t targs cls r)     (* the scrutinee: no clause binder in scope *)
| osc_case2 : forall sc t targs cls r c, In c cls -> occ_sc s sc (clause_body c) ->
                occ_sc s (clause_names c ++ sc) (FCase t targs cls r)                          (* only this clause's binders *)
| osc_new : forall sc cls r c, In c cls -> occ_sc s sc (clause_body c) -> occ_sc s (clause_names c ++ sc) (FNew cls r)
| osc_label : forall sc l t r, occ_sc s sc t -> occ_sc s (l :: sc) (FLabel l t r)
| osc_goto : forall sc l t r, occ_sc s sc t -> occ_sc s sc (FGoto l t r)
| osc_exit : forall sc a r, occ_sc s sc a -> occ_sc s sc (FExit a r)
| osc_paren : forall sc t, occ_sc s sc t -> occ_sc s sc (FParen t).

Lemma occ_sc_var_inv : forall s sc v a c, occ_sc s sc (FVar v a c) -> s = FVar v a c.
Proof. intros s sc v a c H. inversion H; reflexivity. Qed.
Lemma occ_sc_occurs : forall s sc t, occ_sc s sc t -> occurs s t.
Proof. induction 1; eauto using occurs. Qed.

Section Scoped.
  Variable ts : list tdecl.
  Variable fs : list fdef.
  Notation chk := (chk ts fs).

  Lemma chk_clauses_unbound_names : forall x c G td targs T cls,
    G x = None -> In c cls -> ~ In x (clause_names c) ->
    (forall G T, G x = None -> chk G (clause_body c) T = false) ->
    chk_clauses_with chk G td targs T cls = false.
  Proof.
    intros x c G td targs T cls HG. induction cls as [|d r IH]; intros Hin Hnb Hf; [destruct Hin|].
    simpl. destruct d as [p y xs cx body].
    destruct Hin as [<-|Hin].
    - apply andb_false_any. left. simpl in Hf, Hnb.
      destruct (find_xsig td y) as [sg|]; [|reflexivity].
      apply andb_false_any. right.
      assert (HG' : extend_sig G (td_params td) targs xs (xs_args sg) x = None) by (apply extend_sig_none; assumption).
      destruct T as [T|]; [apply Hf; assumption|]. destruct (xs_ret sg); [apply Hf; assumption|reflexivity].
    - apply andb_false_any. right. apply IH; assumption.
  Qed.

  (* s: a use of the name x that is ill-typed wherever x is unbound (a variable x, a goto x) *)
  Theorem chk_scoped_false : forall x s,
    (is_var s = false \/ exists a c, s = FVar x a c) ->
    (forall G T, G x = None -> chk G s T = false) ->
    forall sc t, occ_sc s sc t -> ~ In x sc -> forall G T, G x = None -> chk G t T = false.
  Proof.
    intros x s Hv Hs sc t Hocc. induction Hocc; intros Hn G T HG.
    - apply Hs. exact HG.
    - simpl. rewrite IHHocc by assumption. apply andb_false_any; left; apply andb_false_r.
    - simpl. rewrite IHHocc by assumption. apply andb_false_r.
    - simpl. rewrite IHHocc by assumption. reflexivity.
    - simpl. rewrite IHHocc by assumption. apply andb_false_any; left; apply andb_false_any; left; apply andb_false_r.
    - simpl. rewrite IHHocc by assumption. apply andb_false_any; left; apply andb_false_r.
    - simpl. rewrite IHHocc by assumption. apply andb_false_r.
    - simpl. rewrite IHHocc by assumption. reflexivity.
    - simpl. rewrite IHHocc by assumption. apply andb_false_r.
    - simpl. rewrite IHHocc by assumption. apply andb_false_any; left; apply andb_false_r.
    - simpl. rewrite IHHocc; [apply andb_false_r|intro; apply Hn; right; assumption|].
      apply extend_none; [assumption|]. intro; apply Hn; left; assumption.
    - (* call *)
      simpl. destruct (find_def fs f) as [d|]; [|reflexivity]. apply andb_false_any. right.
      eapply chk_args_unbound with (x := x) (a0 := a); eauto.
      destruct (is_var a) eqn:Ev; [|left; reflexivity].
      destruct a; try discriminate. apply occ_sc_var_inv in Hocc. subst s. destruct Hv as [Hv|Hv]; [discriminate|right; exact Hv].
    - (* ctor *)
      simpl. destruct T as [|n targs]; [reflexivity|]. destruct (find_type ts n) as [td|]; [|reflexivity].
      apply andb_false_any. right. destruct (find_xsig td x0); [|reflexivity].
      eapply chk_args_unbound with (x := x) (a0 := a); eauto.
      destruct (is_var a) eqn:Ev; [|left; reflexivity].
      destruct a; try discriminate. apply occ_sc_var_inv in Hocc. subst s. destruct Hv as [Hv|Hv]; [discriminate|right; exact Hv].
    - (* dtor scrutinee *)
      simpl. destruct (find_xtor ts FCodata x0) as [[td sg]|]; [|reflexivity].
      rewrite IHHocc by assumption. apply andb_false_any. left. apply andb_false_any. left. apply andb_false_r.
    - (* dtor args *)
      simpl. destruct (find_xtor ts FCodata x0) as [[td sg]|]; [|reflexivity].
      apply andb_false_any. left. apply andb_false_any. right.
      eapply chk_args_unbound with (x := x) (a0 := a); eauto.
      destruct (is_var a) eqn:Ev; [|left; reflexivity].
      destruct a; try discriminate. apply occ_sc_var_inv in Hocc. subst s. destruct Hv as [Hv|Hv]; [discriminate|right; exact Hv].
    - (* case scrutinee *)
      simpl. destruct cls as [|cl0 clr]; [reflexivity|].
      destruct (find_xtor ts FData (clause_xtor cl0)) as [[td sg]|]; [|reflexivity].
      rewrite IHHocc by assumption. apply andb_false_any. left. apply andb_false_any. left. apply andb_false_r.
    - (* case clause *)
      simpl. destruct cls as [|cl0 clr]; [destruct H|].
      destruct (find_xtor ts FData (clause_xtor cl0)) as [[td sg]|]; [|reflexivity].
      apply andb_false_any. right.
      eapply chk_clauses_unbound_names; eauto.
      + intro; apply Hn; apply in_or_app; left; assumption.
      + intros G' T' HG'. apply IHHocc; [intro; apply Hn; apply in_or_app; right; assumption|assumption].
    - (* new clause *)
      simpl. destruct T as [|n targs]; [reflexivity|]. destruct (find_type ts n) as [td|]; [|reflexivity].
      apply andb_false_any. right.
      eapply chk_clauses_unbound_names; eauto.
      + intro; apply Hn; apply in_or_app; left; assumption.
      + intros G' T' HG'. apply IHHocc; [intro; apply Hn; apply in_or_app; right; assumption|assumption].
    - (* label *)
      simpl. apply IHHocc; [intro; apply Hn; right; assumption|].
      apply extend_none; [assumption|]. intro; apply Hn; left; assumption.
    - simpl. destruct (cns_ty G l); [apply IHHocc; assumption|reflexivity].
    - simpl. apply IHHocc; assumption.
    - simpl. apply IHHocc; assumption.
  Qed.

  Lemma goto_unbound : forall x t r (G : env) T, G x = None -> chk G (FGoto x t r) T = false.
  Proof. intros x t r G T H. simpl. unfold cns_ty. rewrite H. reflexivity. Qed.
End Scoped.

(* ---------- the mutation class `scope-leak` / `scope-esc`: rejected by the rules and by the checker ---------- *)
Definition use_of (x : fname) (s : fterm) : Prop :=
  (exists a c, s = FVar x a c) \/ (exists t r, s = FGoto x t r).

Lemma scope_leak_def_not_ok : forall p d x s sc, In d (fdefs (fpdecls p)) ->
  use_of x s -> occ_sc s sc (fdbody d) -> ~ In x sc -> ~ In x (map fbvar (fdctx d)) ->
  def_ok (tdecls (fpdecls p)) (fdefs (fpdecls p)) d = false.
Proof.
  intros p d x s sc Hin Hu Hocc Hsc Hp. unfold def_ok.
  assert (Hf : chk (tdecls (fpdecls p)) (fdefs (fpdecls p)) (env_of_ctx env_empty (fdctx d)) (fdbody d) (fdret d) = false).
  { eapply (chk_scoped_false _ _ x s); [| |exact Hocc|exact Hsc|apply env_of_ctx_none; [reflexivity|exact Hp]].
    - destruct Hu as [[a [c ->]]|[t [r ->]]]; [right; eauto|left; reflexivity].
    - intros G T HG. destruct Hu as [[a [c ->]]|[t [r ->]]]; [apply chk_var_unbound; exact HG|apply goto_unbound; exact HG]. }
  rewrite Hf. apply andb_false_r.
Qed.

(* the declarative rules reject: for all programs, all sites, whatever else binds the name *)
Theorem reject_scope_leak : forall p d x s sc, In d (fdefs (fpdecls p)) ->
  use_of x s -> occ_sc s sc (fdbody d) -> ~ In x sc -> ~ In x (map fbvar (fdctx d)) ->
  has_type_b p = false.
Proof.
  intros p d x s sc Hin Hu Hocc Hsc Hp. unfold has_type_b. apply andb_false_any. right.
  eapply forallb_false_in; [exact Hin|]. eapply scope_leak_def_not_ok; eassumption.
Qed.
(* ... and so does the checker *)
Theorem check_rejects_scope_leak : forall p d x s sc, prog_names_ok p = true -> In d (fdefs (fpdecls p)) ->
  use_of x s -> occ_sc s sc (fdbody d) -> ~ In x sc -> ~ In x (map fbvar (fdctx d)) ->
  exists e, check p = CErr e.
Proof.
  intros p d x s sc Hm Hin Hu Hocc Hsc Hp. eapply def_not_ok_rejected; [exact Hm|exact Hin|].
  eapply scope_leak_def_not_ok; eassumption.
Qed.

(* ---------- witnesses: the two effects of a scope leak between clauses ----------
   data Sum { Left(a: i64), Right(b: i64) }
   (1) def f(s: Sum): i64 { s.case { Left(a) => a, Right(b) => a } }        `a` is a sibling's binder: rejected
   (2) data Box { MkBox }  data T { K1(a: Box), K2 }
       def g(x: i64, t: T): i64 { t.case { K1(x) => 0, K2 => x } }          the outer `x` in the sibling: accepted *)
Local Open Scope string_scope.
Definition p_sibling_binder : fprog :=
  mkfprog [FDData (mkfdata "Sum" [] [mkfctor "Left" [mkfb "a" FPrd FI64]; mkfctor "Right" [mkfb "b" FPrd FI64]]);
           FDDef (mkfdef "f" [mkfb "s" FPrd (FDecl "Sum" [])] FI64
                    (FCase (FVar "s" None None) []
                       [FClause FData "Left" ["a"] [] (FVar "a" None None);
                        FClause FData "Right" ["b"] [] (FVar "a" None None)] None))].
Definition p_outer_in_sibling : fprog :=
  mkfprog [FDData (mkfdata "Box" [] [mkfctor "MkBox" []]);
           FDData (mkfdata "T" [] [mkfctor "K1" [mkfb "a" FPrd (FDecl "Box" [])]; mkfctor "K2" []]);
           FDDef (mkfdef "g" [mkfb "x" FPrd FI64; mkfb "t" FPrd (FDecl "T" [])] FI64
                    (FCase (FVar "t" None None) []
                       [FClause FData "K1" ["x"] [] (FLit 0); FClause FData "K2" [] [] (FVar "x" None None)] None))].
Lemma sibling_binder_rejected : check p_sibling_binder = CErr EUnboundVariable /\ has_type_b p_sibling_binder = false.
Proof. split; vm_compute; reflexivity. Qed.
Lemma sibling_binder_is_scope_leak :
  exists d, In d (fdefs (fpdecls p_sibling_binder))
    /\ occ_sc (FVar "a" None None) ["b"] (fdbody d) /\ ~ In "a" ["b"] /\ ~ In "a" (map fbvar (fdctx d)).
Proof.
  eexists. split; [left; reflexivity|]. split.
  - simpl. apply (osc_case2 _ [] (FVar "s" None None) [] _ None (FClause FData "Right" ["b"] [] (FVar "a" None None)));
      [right; left; reflexivity|constructor].
  - split; simpl; intros [H|H]; try discriminate; auto.
Qed.
Lemma outer_in_sibling_accepted : has_type_b p_outer_in_sibling = true /\ exists q, check p_outer_in_sibling = COk q.
Proof. split; [vm_compute; reflexivity|eexists; vm_compute; reflexivity]. Qed.
