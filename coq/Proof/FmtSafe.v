(* C16: every printed document is a safe document.
     safe_doc (d_prog c p) = true      for every configuration c and every parser-shaped p
   i.e. between two atoms that would lex differently when juxtaposed (two words/numbers, or
   operator characters that form a longer terminal) the printer always puts a separator that
   renders to at least one blank (space, line, hardline) - never nothing and never `line_`.
   Continuation style: [robust acc] = acc is safe after anything; a sub-document is safe in front of
   a robust continuation when it starts in an [okstart] state. *)
From Coq Require Import List ZArith NArith String Ascii Bool Lia.
From SCC Require Import Base.Sexp Lang.SynUtil Lang.FunSyn Model.Printer Model.Parser Model.FmtClass
  Proof.FmtDefs Proof.FmtRound Proof.FmtGlue.
Import ListNotations.
Local Open Scope list_scope.

(* ---------- one step of the scan ---------- *)
Definition blank (cur : option sepk) : bool := match cur with Some KSome => true | _ => false end.
Definition check (last : option atom) (cur : option sepk) (b : atom) : bool :=
  match last with
  | None => true
  | Some a => negb (cns_clash a b) && (negb (sticky a b) || blank cur)
  end.
Lemma safe_step last cur b l : safe_from last cur (IAtom b :: l) = check last cur b && safe_from (Some b) None l.
Proof. reflexivity. Qed.
Lemma safe_sep last cur k l : safe_from last cur (ISep k :: l) = safe_from last (sep_join cur k) l.
Proof. reflexivity. Qed.

Definition is_colon (a : atom) : bool := match a with ASym SColon => true | _ => false end.
Definition unsticky (a : atom) : bool := negb (wordy a) && negb (op_end a).
(* states in which any atom may follow *)
Definition okstart (last : option atom) (cur : option sepk) : bool :=
  match last with None => true | Some a => negb (is_colon a) && (unsticky a || blank cur) end.
(* states in which a type may follow (a colon is fine: type names are no `cns..` words) *)
Definition okstart_ty (last : option atom) (cur : option sepk) : bool :=
  match last with None => true | Some a => unsticky a || blank cur end.

Lemma check_ok last cur b : okstart last cur = true -> check last cur b = true.
Proof.
  destruct last as [a|]; [|reflexivity]. unfold okstart, check. intros H.
  apply andb_prop in H. destruct H as [Hc Hs].
  assert (cns_clash a b = false) as -> by (destruct a as [| |[]|]; try reflexivity; discriminate).
  cbn [negb andb]. apply orb_prop in Hs. destruct Hs as [Hs|Hs]; [|rewrite Hs; apply orb_true_r].
  unfold unsticky in Hs. apply andb_prop in Hs. destruct Hs as [H1 H2].
  apply negb_true_iff in H1, H2. unfold sticky. now rewrite H1, H2.
Qed.
Lemma check_ty last cur s : okstart_ty last cur = true -> prefix_cns s = false -> check last cur (AWord s) = true.
Proof.
  destruct last as [a|]; [|reflexivity]. unfold okstart_ty, check. intros Hs Hp.
  assert (cns_clash a (AWord s) = false) as -> by (destruct a as [| |[]|]; try reflexivity; exact Hp).
  cbn [negb andb]. apply orb_prop in Hs. destruct Hs as [Hs|Hs]; [|rewrite Hs; apply orb_true_r].
  unfold unsticky in Hs. apply andb_prop in Hs. destruct Hs as [H1 H2].
  apply negb_true_iff in H1, H2. unfold sticky. now rewrite H1, H2.
Qed.
Lemma okstart_sep last cur k : okstart last cur = true -> okstart last (sep_join cur k) = true.
Proof.
  destruct last as [a|]; [|reflexivity]. unfold okstart. intros H. apply andb_prop in H. destruct H as [-> H].
  cbn [andb]. apply orb_prop in H. destruct H as [->|H]; [reflexivity|].
  destruct cur as [[]|]; try discriminate. destruct k; apply orb_true_r.
Qed.
Lemma okstart_ty_sep last cur k : okstart_ty last cur = true -> okstart_ty last (sep_join cur k) = true.
Proof.
  destruct last as [a|]; [|reflexivity]. unfold okstart_ty. intros H.
  apply orb_prop in H. destruct H as [->|H]; [reflexivity|].
  destruct cur as [[]|]; try discriminate. destruct k; apply orb_true_r.
Qed.
Lemma okstart_weaken last cur : okstart last cur = true -> okstart_ty last cur = true.
Proof. destruct last; [|reflexivity]. unfold okstart, okstart_ty. intros H. apply andb_prop in H. tauto. Qed.

(* ---------- continuations that are safe after anything ---------- *)
Definition robust (l : list item) : Prop := forall last cur, safe_from last cur l = true.
Lemma robust_nil : robust [].
Proof. intros ? ?. reflexivity. Qed.
Definition inert (y : sym) : bool := negb (op_start (ASym y)).
Lemma robust_sym y l : inert y = true -> safe_from (Some (ASym y)) None l = true -> robust (IAtom (ASym y) :: l).
Proof.
  intros Hy Hl last cur. rewrite safe_step, Hl, andb_true_r. destruct last as [a|]; [|reflexivity].
  unfold check. assert (cns_clash a (ASym y) = false) as -> by (destruct a as [| |[]|]; reflexivity).
  unfold inert in Hy. apply negb_true_iff in Hy. unfold sticky. rewrite Hy. cbn [wordy]. now rewrite !andb_false_r.
Qed.
Lemma robust_sep k l : robust l -> robust (ISep k :: l).
Proof. intros H last cur. rewrite safe_sep. apply H. Qed.
Definition harmless (b : atom) : bool := match b with AWord s => negb (prefix_cns s) | _ => true end.
Lemma robust_some_atom b l : harmless b = true -> safe_from (Some b) None l = true -> robust (ISep KSome :: IAtom b :: l).
Proof.
  intros Hb Hl last cur. rewrite safe_sep, safe_step, Hl, andb_true_r.
  assert (sep_join cur KSome = Some KSome) as -> by (destruct cur as [[]|]; reflexivity).
  destruct last as [a|]; [|reflexivity]. unfold check.
  assert (cns_clash a b = false) as ->.
  { destruct a as [| |[]|]; try reflexivity. destruct b; try reflexivity. cbn in *. now apply negb_true_iff. }
  cbn. apply orb_true_r.
Qed.

(* statement for a piece of document given as a function on continuations *)
Definition Sf (f : list item -> list item) : Prop :=
  forall acc, robust acc -> forall last cur, okstart last cur = true -> safe_from last cur (f acc) = true.
Definition Sd (d : doc) : Prop := Sf (flat_acc d).

(* ---------- comma separated lists ---------- *)
Fixpoint icommas (fs : list (list item -> list item)) (k : list item) : list item :=
  match fs with
  | [] => k
  | [f] => f k
  | f :: r => f (IAtom (ASym SComma) :: ISep KSome :: icommas r k)
  end.
Lemma flat_intersperse_from sep acc0 l k :
  flat_acc (intersperse_from acc0 l sep) k = flat_acc acc0 (fold_right (fun d r => flat_acc sep (flat_acc d r)) k l).
Proof.
  revert acc0. induction l as [|d l IH]; intros acc0; cbn [intersperse_from fold_right]; [reflexivity|].
  rewrite IH. reflexivity.
Qed.
Lemma flat_intersperse sep (l : list doc) k :
  (forall X, flat_acc sep X = IAtom (ASym SComma) :: ISep KSome :: X) ->
  flat_acc (intersperse l sep) k = icommas (map flat_acc l) k.
Proof.
  intros Hsep. unfold intersperse. destruct l as [|d l]; [reflexivity|].
  rewrite flat_intersperse_from. cbn [flat_acc map].
  revert d. induction l as [|e l IH]; intros d; [reflexivity|].
  cbn [map fold_right]. rewrite Hsep. rewrite IH. reflexivity.
Qed.
Lemma map_flat_group (l : list doc) : map flat_acc (map DGroup l) = map flat_acc l.
Proof. induction l; cbn [map]; [reflexivity|]. now rewrite IHl. Qed.
Lemma flat_comma_sep c (l : list doc) k : flat_acc (comma_sep c l) k = icommas (map flat_acc l) k.
Proof.
  unfold comma_sep. rewrite flat_intersperse by (intros; destruct (plinebreaks c); reflexivity).
  now rewrite map_flat_group.
Qed.
Lemma S_icommas (fs : list (list item -> list item)) :
  (forall f, In f fs -> Sf f) ->
  forall acc, robust acc -> forall last cur, okstart last cur = true -> safe_from last cur (icommas fs acc) = true.
Proof.
  induction fs as [|f fs IH]; intros H acc Hacc last cur Hs; [apply Hacc|].
  assert (IH' := IH (fun g Hg => H g (or_intror Hg))).
  destruct fs as [|g gs].
  - apply (H f (or_introl eq_refl)); assumption.
  - change (icommas (f :: g :: gs) acc) with (f (IAtom (ASym SComma) :: ISep KSome :: icommas (g :: gs) acc)).
    apply (H f (or_introl eq_refl)); [|assumption].
    apply robust_sym; [reflexivity|]. rewrite safe_sep. apply IH'; [assumption|reflexivity].
Qed.
(* same, when the list is safe in front of the continuation for types *)
Definition Sf_ty (f : list item -> list item) : Prop :=
  forall acc, robust acc -> forall last cur, okstart_ty last cur = true -> safe_from last cur (f acc) = true.

(* sep_ is nothing or line_ *)
Lemma flat_sep_ c k : flat_acc (sep_ c) k = if plinebreaks c then ISep KMaybe :: k else k.
Proof. unfold sep_. destruct (plinebreaks c); reflexivity. Qed.
Lemma robust_sep_ c k : robust k -> robust (flat_acc (sep_ c) k).
Proof. intros H. rewrite flat_sep_. destruct (plinebreaks c); [now apply robust_sep | exact H]. Qed.
Lemma safe_sep_ c last cur k :
  okstart last cur = true -> (forall cur', okstart last cur' = true -> safe_from last cur' k = true) ->
  safe_from last cur (flat_acc (sep_ c) k) = true.
Proof.
  intros Hs H. rewrite flat_sep_. destruct (plinebreaks c); [|now apply H].
  rewrite safe_sep. apply H. now apply okstart_sep.
Qed.

(* [ sep_ items sep_ ] between brackets l r: safe after anything *)
Lemma S_bracket_list c (l r : sym) (fs : list (list item -> list item)) acc :
  inert l = true -> inert r = true -> unsticky (ASym l) = true -> is_colon (ASym l) = false ->
  (forall f, In f fs -> Sf f) -> robust acc ->
  robust (IAtom (ASym l) :: flat_acc (sep_ c) (icommas fs (flat_acc (sep_ c) (IAtom (ASym r) :: acc)))).
Proof.
  intros Hl Hr Hu Hc HS Hacc.
  apply robust_sym; [assumption|]. apply safe_sep_.
  - unfold okstart. now rewrite Hc, Hu.
  - intros cur' Hcur'. apply S_icommas; [assumption | | assumption].
    apply robust_sep_. apply robust_sym; [assumption|]. apply Hacc.
Qed.

Ltac conc := cbn [safe_from sep_join cns_clash sticky wordy op_end op_start negb andb orb prefix_cns blank].

Section S.
Variable c : pcfg.

(* ---------- types ---------- *)
Lemma upper_no_cns_prefix n : upper_ok n = true -> prefix_cns n = false.
Proof.
  unfold upper_ok. destruct n as [|ch r]; [discriminate|]. intros H. apply andb_prop in H. destruct H as [H1 _].
  unfold prefix_cns. destruct ch as [[] [] [] [] [] [] [] []]; try reflexivity. cbv in H1. discriminate.
Qed.
Lemma flat_ty_decl n targs k :
  flat_acc (d_ty c (FDecl n targs)) k =
  IAtom (AWord n) :: match targs with
                     | [] => k
                     | _ => IAtom (ASym SLBrack) :: flat_acc (sep_ c)
                              (icommas (map (fun t => flat_acc (d_ty c t)) targs) (flat_acc (sep_ c) (IAtom (ASym SRBrack) :: k)))
                     end.
Proof.
  destruct targs as [|t l]; [reflexivity|].
  change (d_ty c (FDecl n (t :: l))) with
    (DAppend (word n) (DGroup (brackets (DAppend (DNest (pindent c) (DAppend (sep_ c) (comma_sep c (map (d_ty c) (t :: l))))) (sep_ c))))).
  unfold word, brackets, enclose, dsym. cbn [flat_acc]. rewrite flat_comma_sep, map_map. reflexivity.
Qed.
Lemma Sty_Sf f : Sf_ty f -> Sf f.
Proof. intros H acc Hacc last cur Hs. apply H; [assumption | now apply okstart_weaken]. Qed.
Lemma S_ty : forall m t, tysz t <= m -> wf_ty t = true -> Sf_ty (flat_acc (d_ty c t)).
Proof.
  induction m as [|m IH]; intros t Hm Hwf acc Hacc last cur Hs. { pose proof (tysz_pos t). lia. }
  destruct t as [|n targs].
  - change (flat_acc (d_ty c FI64) acc) with (IAtom (AWord "i64") :: acc).
    rewrite safe_step, check_ty by (auto; reflexivity). apply Hacc.
  - rewrite tysz_decl in Hm. cbn [wf_ty] in Hwf. apply andb_prop in Hwf. destruct Hwf as [Hn Hargs].
    rewrite forallb_forall in Hargs. rewrite flat_ty_decl.
    rewrite safe_step, check_ty by (auto using upper_no_cns_prefix). cbn [andb].
    destruct targs as [|t l]; [apply Hacc|]. remember (t :: l) as targs eqn:E.
    apply S_bracket_list; try reflexivity; [|assumption].
    intros f Hf. apply in_map_iff in Hf. destruct Hf as (x & <- & Hx). apply Sty_Sf. apply IH; [|now apply Hargs].
    pose proof (in_list_sum tysz x targs Hx). lia.
Qed.
Lemma S_ty' t : wf_ty t = true -> Sf_ty (flat_acc (d_ty c t)).
Proof. now apply (S_ty (tysz t)). Qed.
Lemma flat_tyargs targs k :
  flat_acc (d_tyargs c targs) k =
  match targs with
  | [] => k
  | _ => IAtom (ASym SLBrack) :: flat_acc (sep_ c)
           (icommas (map (fun t => flat_acc (d_ty c t)) targs) (flat_acc (sep_ c) (IAtom (ASym SRBrack) :: k)))
  end.
Proof.
  destruct targs as [|t l]; [reflexivity|]. unfold d_tyargs, brackets, enclose, dsym. cbn [flat_acc].
  rewrite flat_comma_sep, map_map. reflexivity.
Qed.
Lemma robust_tyargs targs k : forallb wf_ty targs = true -> robust k -> robust (flat_acc (d_tyargs c targs) k).
Proof.
  intros Hwf Hk. rewrite forallb_forall in Hwf. rewrite flat_tyargs. destruct targs as [|t l]; [exact Hk|].
  remember (t :: l) as targs eqn:E. apply S_bracket_list; try reflexivity; [|assumption].
  intros f Hf. apply in_map_iff in Hf. destruct Hf as (x & <- & Hx). apply Sty_Sf, S_ty'. now apply Hwf.
Qed.

(* ---------- word lists, bindings, contexts ---------- *)
Lemma S_word s : Sf (cons (IAtom (AWord s))).
Proof. intros acc Hacc last cur Hs. rewrite safe_step, check_ok by assumption. apply Hacc. Qed.
Lemma flat_namectx names k :
  flat_acc (d_namectx c names) k =
  match names with
  | [] => k
  | _ => IAtom (ASym SLPar) :: flat_acc (sep_ c)
           (icommas (map (fun s => cons (IAtom (AWord s))) names) (flat_acc (sep_ c) (IAtom (ASym SRPar) :: k)))
  end.
Proof.
  destruct names as [|s l]; [reflexivity|]. unfold d_namectx, parens, enclose, dsym. cbn [flat_acc].
  rewrite flat_comma_sep, map_map. reflexivity.
Qed.
Lemma flat_typectx names k :
  flat_acc (d_typectx c names) k =
  match names with
  | [] => k
  | _ => IAtom (ASym SLBrack) :: flat_acc (sep_ c)
           (icommas (map (fun s => cons (IAtom (AWord s))) names) (flat_acc (sep_ c) (IAtom (ASym SRBrack) :: k)))
  end.
Proof.
  destruct names as [|s l]; [reflexivity|]. unfold d_typectx, brackets, enclose, dsym. cbn [flat_acc].
  rewrite flat_comma_sep, map_map. reflexivity.
Qed.
Lemma robust_namectx names k : robust k -> robust (flat_acc (d_namectx c names) k).
Proof.
  intros Hk. rewrite flat_namectx. destruct names as [|s l]; [exact Hk|]. remember (s :: l) as names.
  apply S_bracket_list; try reflexivity; [|assumption].
  intros f Hf. apply in_map_iff in Hf. destruct Hf as (x & <- & Hx). apply S_word.
Qed.
Lemma robust_typectx names k : robust k -> robust (flat_acc (d_typectx c names) k).
Proof.
  intros Hk. rewrite flat_typectx. destruct names as [|s l]; [exact Hk|]. remember (s :: l) as names.
  apply S_bracket_list; try reflexivity; [|assumption].
  intros f Hf. apply in_map_iff in Hf. destruct Hf as (x & <- & Hx). apply S_word.
Qed.
Lemma S_binding b : wf_binding b = true -> Sf (flat_acc (d_binding c b)).
Proof.
  unfold wf_binding. intros H. apply andb_prop in H. destruct H as [_ Hty]. destruct b as [v chi ty].
  cbn [fbty] in Hty. intros acc Hacc last cur Hs.
  unfold d_binding, word, dsym. cbn [fbvar fbchi fbty flat_acc].
  rewrite safe_step, check_ok by assumption. cbn [andb].
  destruct chi; unfold d_chi, word; cbn [flat_acc]; conc.
  - apply S_ty'; auto.
  - apply S_ty'; auto.
Qed.
Lemma flat_ctx g k :
  flat_acc (d_ctx c g) k =
  match g with
  | [] => k
  | _ => flat_acc (sep_ c) (icommas (map (fun b => flat_acc (d_binding c b)) g) (flat_acc (sep_ c) k))
  end.
Proof.
  destruct g as [|b l]; [reflexivity|]. unfold d_ctx. cbn [flat_acc]. rewrite flat_comma_sep, map_map. reflexivity.
Qed.
(* ( ctx ) *)
Lemma robust_parens_ctx g k : wf_ctx g = true -> robust k ->
  robust (IAtom (ASym SLPar) :: flat_acc (d_ctx c g) (IAtom (ASym SRPar) :: k)).
Proof.
  intros Hwf Hk. unfold wf_ctx in Hwf. rewrite forallb_forall in Hwf. rewrite flat_ctx.
  destruct g as [|b l].
  - apply robust_sym; [reflexivity|]. conc. apply Hk.
  - remember (b :: l) as g. apply S_bracket_list; try reflexivity; [|assumption].
    intros f Hf. apply in_map_iff in Hf. destruct Hf as (x & <- & Hx). apply S_binding. now apply Hwf.
Qed.
End S.

Section ST.
Variable c : pcfg.
Definition St (t : fterm) : Prop := Sd (d_term c t).

Lemma flat_args (l : list doc) k :
  flat_acc (d_args c l) k =
  match l with [] => k | _ => flat_acc (sep_ c) (icommas (map flat_acc l) (flat_acc (sep_ c) k)) end.
Proof. destruct l as [|d l]; [reflexivity|]. unfold d_args. cbn [flat_acc]. now rewrite flat_comma_sep. Qed.
(* ( args ) *)
Lemma robust_parens_args (args : list fterm) k : (forall a, In a args -> St a) -> robust k ->
  robust (IAtom (ASym SLPar) :: flat_acc (d_args c (map (d_term c) args)) (IAtom (ASym SRPar) :: k)).
Proof.
  intros HS Hk. rewrite flat_args. destruct args as [|a l].
  - apply robust_sym; [reflexivity|]. conc. apply Hk.
  - remember (a :: l) as args. assert (map (d_term c) args <> []) by (subst; discriminate).
    destruct (map (d_term c) args) eqn:E; [congruence|]. rewrite <- E. rewrite map_map.
    apply S_bracket_list; try reflexivity; [|assumption].
    intros f Hf. apply in_map_iff in Hf. destruct Hf as (x & <- & Hx). now apply HS.
Qed.
Lemma robust_optargs (args : list fterm) k : (forall a, In a args -> St a) -> robust k ->
  robust (flat_acc (d_optargs c (map (d_term c) args)) k).
Proof.
  intros HS Hk. destruct args as [|a l]; [exact Hk|]. remember (a :: l) as args.
  assert (flat_acc (d_optargs c (map (d_term c) args)) k
          = IAtom (ASym SLPar) :: flat_acc (d_args c (map (d_term c) args)) (IAtom (ASym SRPar) :: k)) as ->
    by (subst args; reflexivity).
  now apply robust_parens_args.
Qed.

Lemma St_var v ty chi : St (FVar v ty chi).
Proof. intros acc Hacc last cur Hs. cbn [d_term]. unfold word. cbn [flat_acc]. now apply S_word. Qed.
Lemma St_lit z : St (FLit z).
Proof.
  intros acc Hacc last cur Hs. cbn [d_term]. unfold d_lit, dsym. destruct (z <? 0)%Z; cbn [flat_acc].
  - rewrite safe_step, check_ok by assumption. conc. apply Hacc.
  - rewrite safe_step, check_ok by assumption. apply Hacc.
Qed.
Lemma flat_binop o k : flat_acc (d_binop o) k = IAtom (ASym (sym_of_binop o)) :: k.
Proof. destruct o; reflexivity. Qed.
Lemma St_op a o b : St a -> St b -> St (FOp a o b).
Proof.
  intros Ha Hb acc Hacc last cur Hs. cbn [d_term flat_acc]. rewrite flat_binop.
  apply Ha; [|assumption]. apply robust_some_atom; [reflexivity|]. rewrite safe_sep.
  apply Hb; [assumption|]. destruct o; reflexivity.
Qed.
(* { line body line } *)
Lemma robust_block t k : St t -> robust k -> robust (flat_acc (block c (d_term c t)) k).
Proof.
  intros Ht Hk. unfold block, braces, enclose, dsym. cbn [flat_acc].
  apply robust_sym; [reflexivity|]. rewrite safe_sep. apply Ht; [|reflexivity].
  apply robust_sep. apply robust_sym; [reflexivity|]. apply Hk.
Qed.
(* ( line_ body line_ ) *)
Lemma robust_pblock t k : St t -> robust k -> robust (flat_acc (pblock c (d_term c t)) k).
Proof.
  intros Ht Hk. unfold pblock, parens, enclose, dsym. cbn [flat_acc].
  apply robust_sym; [reflexivity|]. rewrite safe_sep. apply Ht; [|reflexivity].
  apply robust_sep. apply robust_sym; [reflexivity|]. apply Hk.
Qed.
Lemma St_if s a b th el ty :
  St a -> match b with Some b' => St b' | None => True end -> St th -> St el -> St (FIfC s a b th el ty).
Proof.
  intros Ha Hb Hth Hel acc Hacc last cur Hs. cbn [d_term]. unfold word, dsym.
  assert (Rbr : robust (flat_acc (block c (d_term c th))
                  (ISep KSome :: IAtom (AWord "else") :: ISep KSome :: flat_acc (block c (d_term c el)) acc))).
  { apply robust_block; [assumption|].
    apply robust_some_atom; [reflexivity|]. rewrite safe_sep.
    apply robust_block; assumption. }
  destruct b as [b|].
  - (* general form: [// newline] cmp [-] b *)
    destruct (ends_zero a), (starts_zero b); cbn [flat_acc]; rewrite safe_step, check_ok by assumption; conc;
      (apply Ha; [|reflexivity]); apply robust_some_atom; try reflexivity; rewrite safe_sep;
      repeat (rewrite safe_step; conc); try rewrite safe_sep;
      repeat (rewrite safe_step; conc);
      (apply Hb; [now apply robust_sep | reflexivity]).
  - destruct (ends_zero a); cbn [flat_acc]; rewrite safe_step, check_ok by assumption; conc.
    + (* zero on the left *) apply Ha; [now apply robust_sep | reflexivity].
    + apply Ha; [|reflexivity]. apply robust_some_atom; [reflexivity|]. rewrite safe_sep. conc. apply Rbr.
Qed.
Lemma St_print nl a next ty : St a -> St next -> St (FPrint nl a next ty).
Proof.
  intros Ha Hn acc Hacc last cur Hs. cbn [d_term]. unfold word, dsym. cbn [flat_acc].
  rewrite safe_step, check_ok by assumption. cbn [andb].
  apply robust_pblock; [assumption|].
  apply robust_sym; [reflexivity|]. rewrite safe_sep. apply Hn; [assumption|reflexivity].
Qed.
Lemma St_let v vty bound body ty : wf_ty vty = true -> St bound -> St body -> St (FLet v vty bound body ty).
Proof.
  intros Hty Hb Ht acc Hacc last cur Hs. cbn [d_term]. unfold word, dsym. cbn [flat_acc].
  rewrite safe_step, check_ok by assumption. conc.
  apply S_ty'; [assumption | | reflexivity].
  apply robust_some_atom; [reflexivity|]. rewrite safe_sep.
  apply Hb; [|reflexivity]. apply robust_sym; [reflexivity|]. rewrite safe_sep.
  apply Ht; [assumption|reflexivity].
Qed.
Lemma St_call f args r : (forall a, In a args -> St a) -> St (FCall f args r).
Proof.
  intros HS acc Hacc last cur Hs.
  change (d_term c (FCall f args r)) with (DAppend (word f) (DGroup (parens (d_args c (map (d_term c) args))))).
  unfold word, parens, enclose, dsym. cbn [flat_acc].
  rewrite safe_step, check_ok by assumption. cbn [andb]. now apply robust_parens_args.
Qed.
Lemma St_ctor x args r : (forall a, In a args -> St a) -> St (FCtor x args r).
Proof.
  intros HS acc Hacc last cur Hs.
  change (d_term c (FCtor x args r)) with (DAppend (word x) (DGroup (d_optargs c (map (d_term c) args)))).
  unfold word. cbn [flat_acc]. rewrite safe_step, check_ok by assumption. cbn [andb]. now apply robust_optargs.
Qed.
Lemma St_dtor s x targs args r :
  St s -> forallb wf_ty targs = true -> (forall a, In a args -> St a) -> St (FDtor s x targs args r).
Proof.
  intros Hs' Hty HS acc Hacc last cur Hs.
  change (d_term c (FDtor s x targs args r)) with
    (let args' := DGroup (d_optargs c (map (d_term c) args)) in
     if short_scrutinee c s
     then DAppend (DAppend (DAppend (DAppend (d_term c s) (dsym SDot)) (word x)) (d_tyargs c targs)) args'
     else DAlign (DNest (pindent c) (DAppend (DAppend (DAppend (DAppend (DAppend (d_term c s) DLine_) (dsym SDot)) (word x)) (d_tyargs c targs)) args'))).
  cbv zeta.
  assert (R : robust (IAtom (ASym SDot) :: IAtom (AWord x) :: flat_acc (d_tyargs c targs)
                        (flat_acc (d_optargs c (map (d_term c) args)) acc))).
  { apply robust_sym; [reflexivity|]. conc. apply robust_tyargs; [assumption|]. now apply robust_optargs. }
  destruct (short_scrutinee c s); unfold word, dsym; cbn [flat_acc]; apply Hs'; try assumption.
  now apply robust_sep.
Qed.
Lemma flat_clauses (l : list doc) k :
  flat_acc (d_clauses c l) k =
  match l with
  | [] => IAtom (ASym SLBrace) :: ISep KSome :: IAtom (ASym SRBrace) :: k
  | _ => IAtom (ASym SLBrace) :: ISep KSome :: icommas (map flat_acc l) (ISep KSome :: IAtom (ASym SRBrace) :: k)
  end.
Proof.
  unfold d_clauses, braces, enclose, dsym. destruct l as [|a [|b l]]; try reflexivity.
  cbn [flat_acc]. rewrite flat_intersperse by reflexivity. now rewrite map_flat_group.
Qed.
Definition Scl (cl : fclause) : Prop := Sd (d_clause c cl).
Lemma robust_clauses cls k : (forall cl, In cl cls -> Scl cl) -> robust k ->
  robust (flat_acc (d_clauses c (map (d_clause c) cls)) k).
Proof.
  intros HS Hk. rewrite flat_clauses. destruct cls as [|a l].
  - apply robust_sym; [reflexivity|]. conc. apply Hk.
  - remember (a :: l) as cls. destruct (map (d_clause c) cls) eqn:E; [subst; discriminate|]. rewrite <- E.
    rewrite map_map. apply robust_sym; [reflexivity|]. rewrite safe_sep.
    apply S_icommas; [| | reflexivity].
    + intros f Hf. apply in_map_iff in Hf. destruct Hf as (x & <- & Hx). now apply HS.
    + apply robust_sep. apply robust_sym; [reflexivity|]. apply Hk.
Qed.
Lemma St_case s targs cls r :
  St s -> forallb wf_ty targs = true -> (forall cl, In cl cls -> Scl cl) -> St (FCase s targs cls r).
Proof.
  intros Hs' Hty HS acc Hacc last cur Hs.
  change (d_term c (FCase s targs cls r)) with
    (if is_dtor s
     then DAlign (DNest (pindent c) (DAppend (DAppend (DAppend (DAppend (DAppend (DAppend (d_term c s) DLine_) (dsym SDot)) (word "case")) (d_tyargs c targs)) DSpace) (d_clauses c (map (d_clause c) cls))))
     else DAppend (DAppend (DAppend (DAppend (DAppend (d_term c s) (dsym SDot)) (word "case")) (d_tyargs c targs)) DSpace) (d_clauses c (map (d_clause c) cls))).
  assert (R : robust (IAtom (ASym SDot) :: IAtom (AWord "case") :: flat_acc (d_tyargs c targs)
                        (ISep KSome :: flat_acc (d_clauses c (map (d_clause c) cls)) acc))).
  { apply robust_sym; [reflexivity|]. conc. apply robust_tyargs; [assumption|].
    apply robust_sep. now apply robust_clauses. }
  destruct (is_dtor s); unfold word, dsym; cbn [flat_acc]; apply Hs'; try assumption.
  now apply robust_sep.
Qed.
Lemma St_new cls r : (forall cl, In cl cls -> Scl cl) -> St (FNew cls r).
Proof.
  intros HS acc Hacc last cur Hs.
  change (d_term c (FNew cls r)) with (DAppend (DAppend (word "new") DSpace) (d_clauses c (map (d_clause c) cls))).
  unfold word. cbn [flat_acc]. rewrite safe_step, check_ok by assumption. cbn [andb]. rewrite safe_sep.
  now apply robust_clauses.
Qed.
Lemma S_clause p x names g body : St body -> Scl (FClause p x names g body).
Proof.
  intros Hb acc Hacc last cur Hs. cbn [d_clause]. unfold word, dsym. cbn [flat_acc].
  rewrite safe_step, check_ok by assumption. cbn [andb].
  apply robust_namectx. apply robust_some_atom; [reflexivity|]. rewrite safe_sep.
  apply Hb; [assumption|reflexivity].
Qed.
Lemma St_label l t ty : St t -> St (FLabel l t ty).
Proof.
  intros Ht acc Hacc last cur Hs. cbn [d_term]. unfold word. cbn [flat_acc].
  rewrite safe_step, check_ok by assumption. conc. now apply robust_block.
Qed.
Lemma St_goto l t ty : St t -> St (FGoto l t ty).
Proof.
  intros Ht acc Hacc last cur Hs. cbn [d_term]. unfold word. cbn [flat_acc].
  rewrite safe_step, check_ok by assumption. conc. now apply robust_pblock.
Qed.
Lemma St_exit a ty : St a -> St (FExit a ty).
Proof.
  intros Ha acc Hacc last cur Hs. cbn [d_term]. unfold word. cbn [flat_acc].
  rewrite safe_step, check_ok by assumption. conc. apply Ha; [assumption|reflexivity].
Qed.
Lemma St_paren t : St t -> St (FParen t).
Proof. intros Ht acc Hacc last cur Hs. cbn [d_term]. now apply robust_pblock. Qed.

Lemma St_all : forall m t, tsz t <= m -> wf t = true -> St t.
Proof.
  induction m as [|m IH]; intros t Hm Hwf. { pose proof (tsz_pos t). lia. }
  assert (IHargs : forall args, list_sum (map tsz args) <= m -> forallb wf args = true ->
                               forall a, In a args -> St a).
  { intros args Hs Hw a Hin. rewrite forallb_forall in Hw. apply IH; [|now apply Hw].
    pose proof (in_list_sum tsz a args Hin). lia. }
  assert (IHcls : forall pol cls, list_sum (map csz cls) <= m -> forallb (wf_clause pol) cls = true ->
                  forall cl, In cl cls -> Scl cl).
  { intros pol cls Hs Hw cl Hin. rewrite forallb_forall in Hw. specialize (Hw _ Hin).
    destruct cl as [p x ns g body]. apply S_clause.
    cbn [wf_clause] in Hw. rewrite !andb_true_iff in Hw. destruct Hw as (_ & Hb).
    pose proof (in_list_sum csz _ cls Hin) as Hc. rewrite csz_clause in Hc. apply IH; [lia | assumption]. }
  destruct t as [v ty chi | z | a o b | s a b th el ty | nl a next ty | v vty bound body ty | f args ret
                 | x args ty | scrut x targs args ty | scrut targs cls ty | cls ty | l u ty | l u ty | a ty | u].
  - apply St_var.
  - apply St_lit.
  - cbn [wf] in Hwf. rewrite !andb_true_iff in Hwf. destruct Hwf as (((Ha & Hb) & _) & _). rewrite tsz_op in Hm.
    apply St_op; apply IH; auto; lia.
  - cbn [wf] in Hwf. rewrite !andb_true_iff in Hwf. destruct Hwf as ((((Ha & Hb) & Hth) & Hel) & _).
    rewrite tsz_if in Hm. apply St_if; try (apply IH; auto; lia).
    destruct b as [b|]; [|exact I]. apply IH; auto; lia.
  - cbn [wf] in Hwf. rewrite !andb_true_iff in Hwf. destruct Hwf as ((Ha & Hn) & _). rewrite tsz_print in Hm.
    apply St_print; apply IH; auto; lia.
  - cbn [wf] in Hwf. rewrite !andb_true_iff in Hwf. destruct Hwf as (((((Hv & Hvty) & Hb) & _) & Ht) & _).
    rewrite tsz_let in Hm. apply St_let; auto; apply IH; auto; lia.
  - cbn [wf] in Hwf. rewrite !andb_true_iff in Hwf. destruct Hwf as ((Hf & Hargs) & _). rewrite tsz_call in Hm.
    apply St_call. apply IHargs; auto; lia.
  - cbn [wf] in Hwf. rewrite !andb_true_iff in Hwf. destruct Hwf as ((Hf & Hargs) & _). rewrite tsz_ctor in Hm.
    apply St_ctor. apply IHargs; auto; lia.
  - apply wf_dtor_inv in Hwf. destruct Hwf as (Hs & _ & Hx & Hty & Hargs & _). rewrite tsz_dtor in Hm.
    apply St_dtor; auto.
    + apply IH; auto; lia.
    + apply IHargs; auto; lia.
  - apply wf_case_inv in Hwf. destruct Hwf as (Hs & _ & Hty & Hcls & _). rewrite tsz_case in Hm.
    apply St_case; auto.
    + apply IH; auto; lia.
    + apply (IHcls FData); auto; lia.
  - cbn [wf] in Hwf. rewrite !andb_true_iff in Hwf. destruct Hwf as (Hcls & _). rewrite tsz_new in Hm.
    apply St_new. apply (IHcls FCodata); auto; lia.
  - cbn [wf] in Hwf. rewrite !andb_true_iff in Hwf. destruct Hwf as ((Hl & Ht) & _). rewrite tsz_label in Hm.
    apply St_label. apply IH; auto; lia.
  - cbn [wf] in Hwf. rewrite !andb_true_iff in Hwf. destruct Hwf as ((Hl & Ht) & _). rewrite tsz_goto in Hm.
    apply St_goto. apply IH; auto; lia.
  - cbn [wf] in Hwf. rewrite !andb_true_iff in Hwf. destruct Hwf as (Ha & _). rewrite tsz_exit in Hm.
    apply St_exit. apply IH; auto; lia.
  - cbn [wf] in Hwf. rewrite tsz_paren in Hm. apply St_paren. apply IH; auto; lia.
Qed.
End ST.

(* ---------- declarations, programs ---------- *)
Section SD.
Variable c : pcfg.
Definition Sdecl (d : doc) : Prop :=
  forall acc, robust acc -> forall last cur, okstart_ty last cur = true -> safe_from last cur (flat_acc d acc) = true.

Lemma robust_sigargs g k : wf_ctx g = true -> robust k -> robust (flat_acc (d_sigargs c g) k).
Proof.
  intros Hwf Hk. destruct g as [|b l]; [exact Hk|]. remember (b :: l) as g.
  assert (flat_acc (d_sigargs c g) k = IAtom (ASym SLPar) :: flat_acc (d_ctx c g) (IAtom (ASym SRPar) :: k)) as ->
    by (subst g; reflexivity).
  now apply robust_parens_ctx.
Qed.
Lemma S_ctorsig s : wf_ctx (fctargs s) = true -> Sf (flat_acc (d_ctorsig c s)).
Proof.
  intros Hwf acc Hacc last cur Hs. unfold d_ctorsig, word. cbn [flat_acc].
  rewrite safe_step, check_ok by assumption. cbn [andb]. now apply robust_sigargs.
Qed.
Lemma S_dtorsig s : wf_ctx (fdtargs s) = true -> wf_ty (fdtcont s) = true -> Sf (flat_acc (d_dtorsig c s)).
Proof.
  intros Hwf Hty acc Hacc last cur Hs. unfold d_dtorsig, word, dsym. cbn [flat_acc].
  rewrite safe_step, check_ok by assumption. cbn [andb]. apply robust_sigargs; [assumption|].
  apply robust_sym; [reflexivity|]. rewrite safe_sep. apply S_ty'; [assumption | assumption | reflexivity].
Qed.
Lemma flat_decl_body (sigs : list doc) k :
  flat_acc (d_decl_body c sigs) k =
  match sigs with
  | [] => IAtom (ASym SLBrace) :: ISep KSome :: IAtom (ASym SRBrace) :: k
  | _ => IAtom (ASym SLBrace) :: ISep KSome :: icommas (map flat_acc sigs) (ISep KSome :: IAtom (ASym SRBrace) :: k)
  end.
Proof.
  unfold d_decl_body, braces, enclose, dsym. destruct sigs as [|a l]; [reflexivity|].
  cbn [flat_acc]. now rewrite flat_intersperse by reflexivity.
Qed.
Lemma robust_decl_body (sigs : list doc) k : (forall d, In d sigs -> Sd d) -> robust k ->
  robust (flat_acc (d_decl_body c sigs) k).
Proof.
  intros HS Hk. rewrite flat_decl_body. destruct sigs as [|a l].
  - apply robust_sym; [reflexivity|]. conc. apply Hk.
  - remember (a :: l) as sigs. apply robust_sym; [reflexivity|]. rewrite safe_sep.
    apply S_icommas; [| | reflexivity].
    + intros f Hf. apply in_map_iff in Hf. destruct Hf as (x & <- & Hx). now apply HS.
    + apply robust_sep. apply robust_sym; [reflexivity|]. apply Hk.
Qed.
Lemma S_decl d : wf_decl d = true -> Sdecl (d_decl c d).
Proof.
  intros Hwf acc Hacc last cur Hs. destruct d as [d|d|d]; cbn [wf_decl d_decl] in *.
  - destruct d as [x ps cs]. cbn [fdaname fdaparams fdactors] in *.
    rewrite !andb_true_iff in Hwf. destruct Hwf as (_ & Hcs). rewrite forallb_forall in Hcs.
    unfold d_data, word. cbn [fdaname fdaparams fdactors flat_acc].
    rewrite safe_step, check_ty by (auto; reflexivity). conc.
    apply robust_typectx. apply robust_sep. apply robust_decl_body; [|assumption].
    intros dd Hd. apply in_map_iff in Hd. destruct Hd as (s & <- & Hs'). apply S_ctorsig.
    specialize (Hcs s Hs'). apply andb_prop in Hcs. tauto.
  - destruct d as [x ps ds]. cbn [fcoaname fcoparams fcodtors] in *.
    rewrite !andb_true_iff in Hwf. destruct Hwf as (_ & Hds). rewrite forallb_forall in Hds.
    unfold d_codata, word. cbn [fcoaname fcoparams fcodtors flat_acc].
    rewrite safe_step, check_ty by (auto; reflexivity). conc.
    apply robust_typectx. apply robust_sep. apply robust_decl_body; [|assumption].
    intros dd Hd. apply in_map_iff in Hd. destruct Hd as (s & <- & Hs'). specialize (Hds s Hs').
    rewrite !andb_true_iff in Hds. apply S_dtorsig; tauto.
  - destruct d as [f g ret body]. cbn [fdname fdctx fdret fdbody] in *.
    rewrite !andb_true_iff in Hwf. destruct Hwf as (((_ & Hg) & Hret) & Hbody).
    unfold d_def, word, dsym, parens, braces, enclose, dsym. cbn [fdname fdctx fdret fdbody flat_acc].
    rewrite safe_step, check_ty by (auto; reflexivity). cbn [andb]. rewrite safe_sep, safe_step.
    cbn [check cns_clash sticky wordy op_end op_start negb andb orb blank sep_join].
    apply robust_parens_ctx; [assumption|].
    apply robust_sym; [reflexivity|]. rewrite safe_sep.
    apply S_ty'; [assumption | | reflexivity].
    apply robust_some_atom; [reflexivity|]. rewrite safe_sep.
    apply (St_all c (tsz body) body (le_n _) Hbody); [|reflexivity].
    apply robust_sep. apply robust_sym; [reflexivity|]. apply Hacc.
Qed.

Lemma flat_intersperse_blank sep (l : list doc) k n :
  (forall X, flat_acc sep X = repeat (ISep KSome) (S n) ++ X) ->
  flat_acc (intersperse l sep) k =
  match l with [] => k | d :: r => flat_acc d (fold_right (fun d r => repeat (ISep KSome) (S n) ++ flat_acc d r) k r) end.
Proof.
  intros Hsep. unfold intersperse. destruct l as [|d l]; [reflexivity|].
  rewrite flat_intersperse_from. cbn [flat_acc]. f_equal.
  induction l as [|e l IH]; [reflexivity|]. cbn [fold_right]. rewrite Hsep. now rewrite IH.
Qed.
Lemma robust_blanks n k : robust k -> robust (repeat (ISep KSome) n ++ k).
Proof. intros H. induction n; cbn; [exact H|]. now apply robust_sep. Qed.

Lemma safe_blanks n last k :
  safe_from last (Some KSome) (repeat (ISep KSome) n ++ k) = safe_from last (Some KSome) k.
Proof. induction n; cbn [repeat app]; [reflexivity|]. rewrite safe_sep. exact IHn. Qed.
Lemma robust_decls n ds : (forall x, In x ds -> wf_decl x = true) ->
  robust (fold_right (fun d r => repeat (ISep KSome) (S n) ++ flat_acc d r) [] (map (d_decl c) ds)).
Proof.
  induction ds as [|e ds IH]; intros Hds; [apply robust_nil|]. cbn [map fold_right].
  intros last cur. cbn [repeat app]. rewrite safe_sep.
  assert (sep_join cur KSome = Some KSome) as -> by (destruct cur as [[]|]; reflexivity).
  rewrite safe_blanks. apply S_decl.
  - apply Hds. now left.
  - apply IH. intros; apply Hds; now right.
  - destruct last; [apply orb_true_r | reflexivity].
Qed.

(* Every Print model yields a safe document. *)
Theorem safe_print p : wf_prog p = true -> safe_doc (d_prog c p) = true.
Proof.
  intros Hwf. unfold safe_doc, safe_items, flat. destruct p as [ds]. unfold wf_prog, d_prog in *. cbn [fpdecls] in *.
  rewrite forallb_forall in Hwf.
  rewrite (flat_intersperse_blank _ _ _ (if pomit_sep c then 0 else 1)) by (intros; destruct (pomit_sep c); reflexivity).
  destruct ds as [|d ds]; [reflexivity|]. cbn [map].
  apply S_decl; [apply Hwf; now left | | reflexivity].
  apply robust_decls. intros; apply Hwf; now right.
Qed.
End SD.
