(* C12 after fix 5b8c76f of /repo (Def::check compares the declared return type of `main` with i64):
   the clause `the body of main has type i64` of the guard prog_tyguard need no longer be asked separately of a
   program that comes out of the checker.
     [prog_tyguard_src p]   prog_tyguard with EVERY definition - main included - treated alike: the annotated body has
                            the declared return type (after compile_ty) and that type is declared.  Nothing about main's type.
     tyguard_src_checked    Check.check src = COk p -> prog_tyguard_src p = true -> prog_tyguard p = true
   because every `main` of a checked program returns i64 (Proof/CheckFixed.v check_gen_main_i64, all programs), and
   compile_ty i64 = i64.  Hence the typing-preservation theorem of fun2core and the composition of all stages for
   CHECKED programs under the guard without the main clause.
   (prog_tyguard itself still carries the clause: it is a statement about arbitrary annotated programs, and
   `def main(): Bar { B }` as an fcprog - not an output of the checker any more - still translates to an ill-typed
   Core program: Proof/Fun2CoreTyRefute.v.) *)
From Coq Require Import List ZArith NArith String Bool.
From SCC Require Import Base.Sexp Lang.SynUtil Lang.FunSyn Lang.FunTy Lang.CoreSyn Model.Check Sem.FunTyping Sem.CoreCheck
  Model.Fun2Core Model.Fun2CoreGuard Model.Fun2CoreTyGuard Proof.FunEq Proof.CheckFixed Proof.Fun2CoreTyProg Proof.Fun2CoreTyTotal.
Import ListNotations.
Open Scope string_scope.
Open Scope list_scope.

Definition def_tyguard_src (p : fcprog) (data codata : list ctydecl) (d : fdef) : bool :=
  nodup_str (fvars (fdctx d)) && ctx_tyd data codata (compile_ctx (fdctx d))
  && tg p data codata (compile_ctx (fdctx d)) (fdbody d)
  && (has_ty (fdbody d) (compile_ty (fdret d)) && tyd data codata (compile_ty (fdret d))).
Definition prog_tyguard_src (p : fcprog) : bool :=
  decls_tyguard p && forallb (def_tyguard_src p (cdata_of p) (ccodata_of p)) (fcpdefs p).

Lemma def_tyguard_src_main : forall p data codata d,
  main_ret_ok d = true -> def_tyguard_src p data codata d = true -> def_tyguard p data codata d = true.
Proof.
  intros p data codata d Hm H. unfold def_tyguard_src in H. unfold def_tyguard.
  apply andb_true_iff in H. destruct H as [H Hr]. rewrite H. simpl.
  unfold main_ret_ok in Hm. destruct (String.eqb (fdname d) "main"); [|exact Hr].
  apply fty_eqb_eq in Hm. rewrite Hm in Hr. rewrite Hm. simpl in Hr. simpl.
  apply andb_true_iff in Hr. rewrite (proj1 Hr). rewrite orb_true_r. reflexivity.
Qed.
Lemma tyguard_src_main : forall p,
  forallb main_ret_ok (fcpdefs p) = true -> prog_tyguard_src p = true -> prog_tyguard p = true.
Proof.
  intros p Hm H. unfold prog_tyguard_src in H. unfold prog_tyguard.
  apply andb_true_iff in H. destruct H as [Hd H]. rewrite Hd. simpl.
  rewrite forallb_forall in *. intros d Hin. apply def_tyguard_src_main; auto.
Qed.
(* for integer mains the two guards coincide *)
Lemma tyguard_main_src : forall p,
  forallb main_ret_ok (fcpdefs p) = true -> prog_tyguard p = true -> prog_tyguard_src p = true.
Proof.
  intros p Hm H. unfold prog_tyguard in H. unfold prog_tyguard_src.
  apply andb_true_iff in H. destruct H as [Hd H]. rewrite Hd. simpl.
  rewrite forallb_forall in *. intros d Hin. specialize (H d Hin). specialize (Hm d Hin).
  unfold def_tyguard in H. unfold def_tyguard_src.
  apply andb_true_iff in H. destruct H as [H Hr]. rewrite H. simpl.
  unfold main_ret_ok in Hm. destruct (String.eqb (fdname d) "main"); [|exact Hr].
  apply fty_eqb_eq in Hm. rewrite Hm. simpl. apply andb_true_iff in Hr. rewrite (proj1 Hr). reflexivity.
Qed.

Theorem tyguard_src_checked : forall eager src p,
  Check.check_gen eager src = COk p -> prog_tyguard_src p = true -> prog_tyguard p = true.
Proof.
  intros eager src p H G. apply tyguard_src_main; [|exact G]. exact (check_gen_main_i64 eager src p H).
Qed.

Theorem fun2core_preserves_typing_checked : forall src p c,
  Check.check src = COk p -> prog_tyguard_src p = true -> compile_prog p = Fun2Core.Ok c -> wt_core c = true.
Proof.
  intros src p c H G E. exact (fun2core_preserves_typing_frag2 p c (tyguard_src_checked true src p H G) E).
Qed.
Theorem fun2core_total_checked : forall src p,
  Check.check src = COk p -> prog_tyguard_src p = true -> exists c, compile_prog p = Fun2Core.Ok c.
Proof.
  intros src p H G. exact (fun2core_total_guarded p (tyguard_src_checked true src p H G)).
Qed.
