(* ======================================================================================
   Proof/Fun2CoreTyShare  -  typing of shared continuations (compile.rs `share`):
   - the invariant [KT] of a continuation during the translation of one definition;
   - [share_ok]: the lifted definition `share_<f>_<n>` is well typed - its parameter list (the typed
     free variables of the body, core_lang's TypedFreeVars) has pairwise distinct names, declared types,
     and the body is typed in it (Proof/CoreTyFv.v typed_in_own_fvs) - and the call that replaces the
     continuation, mu~ x. share_<f>_<n>(free variables), is again a continuation with the invariant.
   ====================================================================================== *)
From Coq Require Import List ZArith NArith String Bool Lia.
From SCC Require Import Base.Sexp Lang.SynUtil Lang.FunSyn Lang.FunTy Lang.CoreSyn.
From SCC Require Import Sem.AxSem Sem.FunSem Sem.FsCheck Sem.CoreCheck Model.Fun2Core Model.Fun2CoreGuard Model.Fun2CoreTyGuard.
From SCC Require Import Proof.Fun2CoreProof Proof.Fun2CoreTfv Proof.Fun2CoreInv Proof.CoreTyRules Proof.CoreTyFv
     Proof.Fun2CoreTyBase.
From SCC Require Proof.Fun2CoreUB.
Import ListNotations.
Open Scope string_scope.
Open Scope list_scope.

Lemma new_id_neq : forall a b, a <> b -> cident_eqb (new_id a) (new_id b) = false.
Proof. intros a b H. apply ceq_id_neq. intros E. apply H. apply new_id_inj. exact E. Qed.

Lemma cbinding_dec : forall a b : cbinding, a = b \/ a <> b.
Proof.
  intros a b. destruct (cbinding_eqb a b) eqn:E.
  - left. apply cbinding_eqb_eq. exact E.
  - right. intros H. apply cbinding_eqb_eq in H. congruence.
Qed.

Section Share.
  Variable data codata : list ctydecl.
  Variable defs : list cdef.          (* the definitions of the final Core program *)
  Variable U : list string.           (* the user names of the current definition: parameters and binders *)
  Notation ct := (ccheck_term data codata defs).
  Notation cs := (ccheck_stmt data codata defs).
  Notation tyd := (tyd data codata).

  (* names generated so far *)
  Definition gen (st : cstate) (y : string) : Prop := In y (st_used_vars st) /\ ~ In y U.
  Definition agree (st : cstate) (S : list string) (G' G : cctx) : Prop :=
    forall y, In y S \/ gen st y -> clookup G' (new_id y) = clookup G (new_id y).
  Definition KT (cont : cterm) (ty : cty) (G : cctx) (st : cstate) (S : list string) : Prop :=
    forall G', agree st S G' G -> ct G' CCns ty cont = None.

  Definition tyd_fv (l : bset) : Prop := forall b, In b l -> tyd (cbty b) = true.
  Definition def_typed (d : cdef) : Prop :=
    NoDup (cvars (cdctx d)) /\ (forall b, In b (cdctx d) -> tyd (cbty b) = true) /\ cs (cdctx d) (cdbody d) = None.
  Definition Hfind (l : list cdef) : Prop :=
    forall d, In d l -> find (fun d' => cident_eqb (cdname d') (cdname d)) defs = Some d.

  Lemma agree_refl : forall st S G, agree st S G G.
  Proof. intros st S G y _. reflexivity. Qed.
  Lemma agree_trans : forall st S G1 G2 G3, agree st S G1 G2 -> agree st S G2 G3 -> agree st S G1 G3.
  Proof. intros st S G1 G2 G3 H1 H2 y Hy. rewrite (H1 y Hy). apply H2. exact Hy. Qed.
  Lemma agree_mono : forall st st1 S S1 G' G,
    agree st1 S1 G' G -> incl (st_used_vars st) (st_used_vars st1) -> incl S S1 -> agree st S G' G.
  Proof.
    intros st st1 S S1 G' G H Hu Hs y [Hy|[Hy1 Hy2]]; apply H; [left; apply Hs; exact Hy | right; split; [apply Hu; exact Hy1 | exact Hy2]].
  Qed.
  Lemma KT_shift : forall cont ty G G2 st S, KT cont ty G st S -> agree st S G2 G -> KT cont ty G2 st S.
  Proof. intros cont ty G G2 st S H Ha G' Hg. apply H. eapply agree_trans; eassumption. Qed.
  Lemma KT_mono : forall cont ty G st st1 S S1,
    KT cont ty G st S -> incl (st_used_vars st) (st_used_vars st1) -> incl S S1 -> KT cont ty G st1 S1.
  Proof. intros cont ty G st st1 S S1 H Hu Hs G' Hg. apply H. eapply agree_mono; eassumption. Qed.
  Lemma KT_here : forall cont ty G st S, KT cont ty G st S -> ct G CCns ty cont = None.
  Proof. intros cont ty G st S H. apply H. apply agree_refl. Qed.

  (* ---------- the capture check of the repaired translation (fix d5d4151) never fires on a guarded term:
     binders that are neither in S nor generated do not occur (by name) in a continuation with the invariant ---------- *)
  Lemma clookup_filter : forall f G x, (forall b, cbvar b = x -> f b = true) -> clookup (filter f G) x = clookup G x.
  Proof.
    intros f G x Hf. induction G as [|a r IH]; [reflexivity|]. cbn [filter clookup].
    destruct (cident_eqb (cbvar a) x) eqn:E.
    - apply ceq_id in E. rewrite (Hf a E). cbn [clookup]. apply ceq_id in E. rewrite E. reflexivity.
    - destruct (f a); [cbn [clookup]; rewrite E|]; exact IH.
  Qed.
  Lemma KT_captures : forall cont ty G st S binders,
    KT cont ty G st S -> (forall v, In v binders -> ~ In v S /\ ~ gen st v) -> captures binders cont = false.
  Proof.
    intros cont ty G st S binders HK Hb.
    set (f := fun b : cbinding => negb (existsb (String.eqb (fst (cbvar b))) binders)).
    assert (Hag : agree st S (filter f G) G).
    { intros y Hy. apply clookup_filter. intros b Eb. unfold f. rewrite Eb. simpl. apply negb_true_iff.
      destruct (existsb (String.eqb y) binders) eqn:E; [|reflexivity]. apply existsb_exists in E. destruct E as [v [Hv Ev]].
      apply String.eqb_eq in Ev. subst v. destruct (Hb y Hv) as [H1 H2]. destruct Hy; contradiction. }
    pose proof (HK _ Hag) as Ht. pose proof (fv_lookup_term data codata defs cont _ _ _ Ht) as Hl.
    unfold captures.
    match goal with |- ?e = false => destruct e eqn:E; [|reflexivity] end. exfalso.
    apply existsb_exists in E. destruct E as [v [Hv E]]. apply existsb_exists in E. destruct E as [bb [Hbb E]].
    apply String.eqb_eq in E.
    pose proof (Hl bb Hbb) as Hlk. apply clookup_In in Hlk. apply filter_In in Hlk. destruct Hlk as [_ Hf]. unfold f in Hf.
    apply negb_true_iff in Hf.
    assert (Ht' : existsb (String.eqb (fst (cbvar bb))) binders = true).
    { apply existsb_exists. exists v. split; [exact Hv|]. rewrite E. apply String.eqb_refl. }
    rewrite Ht' in Hf. discriminate Hf.
  Qed.
  Lemma guard_capture_KT : forall binders (w : cterm -> M cstmt) lty cont st s st' ty G S,
    guard_capture false binders w lty cont st = Ok (s, st') -> KT cont ty G st S ->
    (forall v, In v binders -> ~ In v S /\ ~ gen st v) -> w cont st = Ok (s, st').
  Proof.
    intros binders w lty cont st s st' ty G S H HK Hb. unfold guard_capture in H.
    rewrite (KT_captures cont ty G st S binders HK Hb) in H. exact H.
  Qed.

  (* ---------- binders whose NAMES do not occur free in the continuation (what the capture check of the repaired
     translation establishes) do not disturb it, whatever S says about them ---------- *)
  Lemma clookup_filter_none : forall f G x, (forall b, cbvar b = x -> f b = false) -> clookup (filter f G) x = None.
  Proof.
    intros f G x Hf. induction G as [|a r IH]; [reflexivity|]. cbn [filter].
    destruct (f a) eqn:Ea; [|exact IH]. cbn [clookup].
    destruct (cident_eqb (cbvar a) x) eqn:E; [|exact IH]. apply ceq_id in E. rewrite (Hf a E) in Ea. discriminate Ea.
  Qed.
  Lemma captures_name : forall vs cont, captures vs cont = false ->
    forall b, In b (fvt cont) -> existsb (String.eqb (fst (cbvar b))) vs = false.
  Proof.
    intros vs cont H b Hb. destruct (existsb (String.eqb (fst (cbvar b))) vs) eqn:E; [|reflexivity]. exfalso.
    apply existsb_exists in E. destruct E as [v [Hv E]].
    assert (Hc : captures vs cont = true).
    { unfold captures. apply existsb_exists. exists v. split; [exact Hv|]. apply existsb_exists. exists b. split; [exact Hb | exact E]. }
    rewrite Hc in H. discriminate H.
  Qed.
  Lemma captures_incl : forall vs vs' cont, captures vs cont = false -> incl vs' vs -> captures vs' cont = false.
  Proof.
    intros vs vs' cont H Hi. destruct (captures vs' cont) eqn:E; [|reflexivity]. exfalso.
    unfold captures in E. apply existsb_exists in E. destruct E as [v [Hv E]].
    assert (Hc : captures vs cont = true) by (unfold captures; apply existsb_exists; exists v; split; [apply Hi; exact Hv | exact E]).
    rewrite Hc in H. discriminate H.
  Qed.
  Lemma captures_sub : forall vs cont k, (forall bb, In bb (fvt k) -> In bb (fvt cont)) ->
    captures vs cont = false -> captures vs k = false.
  Proof.
    intros vs cont k Hs H. destruct (captures vs k) eqn:E; [|reflexivity]. exfalso.
    unfold captures in E. apply existsb_exists in E. destruct E as [v [Hv E]]. apply existsb_exists in E. destruct E as [bb [Hbb E]].
    assert (Hc : captures vs cont = true).
    { unfold captures. apply existsb_exists. exists v. split; [exact Hv|]. apply existsb_exists. exists bb. split; [apply Hs; exact Hbb | exact E]. }
    rewrite Hc in H. discriminate H.
  Qed.
  Lemma KT_rebind : forall cont ty G G1 st S vs,
    KT cont ty G st S -> captures vs cont = false ->
    (forall y, In y S \/ gen st y -> ~ In y vs -> clookup G1 (new_id y) = clookup G (new_id y)) ->
    KT cont ty G1 st S.
  Proof.
    intros cont ty G G1 st S vs HK Hc H1 G2 Hag.
    set (inv := fun b : cbinding => existsb (String.eqb (fst (cbvar b))) vs).
    set (Gs := filter inv G ++ filter (fun b => negb (inv b)) G2).
    assert (HGs : agree st S Gs G).
    { intros y Hy. unfold Gs. rewrite clookup_app. destruct (existsb (String.eqb y) vs) eqn:E.
      - rewrite (clookup_filter inv G (new_id y)); [|intros b Eb; unfold inv; rewrite Eb; exact E].
        destruct (clookup G (new_id y)) eqn:El; [reflexivity|]. apply clookup_filter_none.
        intros b Eb. unfold inv. rewrite Eb. simpl. rewrite E. reflexivity.
      - rewrite (clookup_filter_none inv G (new_id y)); [|intros b Eb; unfold inv; rewrite Eb; exact E].
        rewrite clookup_filter; [|intros b Eb; unfold inv; rewrite Eb; simpl; rewrite E; reflexivity].
        rewrite (Hag y Hy). apply H1; [exact Hy|]. intros Hin.
        assert (Ht : existsb (String.eqb y) vs = true) by (apply existsb_exists; exists y; split; [exact Hin | apply String.eqb_refl]).
        rewrite Ht in E. discriminate E. }
    pose proof (HK _ HGs) as Ht.
    apply (ctx_agree_term data codata defs cont Gs G2 _ _ Ht).
    intros b Hb. pose proof (fv_lookup_term data codata defs cont _ _ _ Ht b Hb) as Hl.
    pose proof (captures_name vs cont Hc b Hb) as Hn.
    unfold Gs in Hl. rewrite clookup_app in Hl.
    rewrite (clookup_filter_none inv G (cbvar b)) in Hl; [|intros b' Eb; unfold inv; rewrite Eb; exact Hn].
    rewrite clookup_filter in Hl; [exact Hl|]. intros b' Eb. unfold inv. rewrite Eb, Hn. reflexivity.
  Qed.
  (* a consumer that is typed is a consumer in the sense of the free-variable lemmas *)
  Lemma ct_cont_cns : forall G ty cont, ct G CCns ty cont = None -> Fun2CoreUB.cont_cns cont.
  Proof. intros G ty cont H. destruct cont; try exact I. apply ct_mu in H. simpl. tauto. Qed.

  (* a binder whose name is neither free in the continuation nor generated does not disturb it *)
  Lemma agree_cons : forall st S b0 v G, cbvar b0 = new_id v -> ~ In v S -> ~ gen st v -> agree st S (b0 :: G) G.
  Proof.
    intros st S b0 v G Hb Hs Hg y Hy. rewrite clookup_cons, Hb.
    destruct (String.eqb v y) eqn:E.
    - apply String.eqb_eq in E. subst y. exfalso. destruct Hy; contradiction.
    - apply String.eqb_neq in E. rewrite (new_id_neq _ _ E). reflexivity.
  Qed.
  Lemma agree_app : forall st S A G,
    (forall b, In b A -> exists v, cbvar b = new_id v /\ ~ In v S /\ ~ gen st v) -> agree st S (A ++ G) G.
  Proof.
    intros st S A G. induction A as [|b0 r IH]; intros H; [apply agree_refl|].
    destruct (H b0 (or_introl eq_refl)) as [v [Hb [Hs Hg]]].
    eapply agree_trans; [apply (agree_cons st S b0 v (r ++ G) Hb Hs Hg)|].
    apply IH. intros b Hb'. apply H. right. exact Hb'.
  Qed.

  (* the type a term is checked at is the type it carries *)
  Lemma ct_type : forall G side ty t, ct G side ty t = None -> cterm_type t = ty.
  Proof.
    intros G side ty t H. destruct t; simpl.
    - apply ct_var in H. tauto.
    - apply ct_lit in H. destruct H as [_ ->]. reflexivity.
    - apply ct_op in H. destruct H as [_ [-> _]]. reflexivity.
    - apply ct_mu in H. tauto.
    - apply ct_xtor in H. tauto.
    - apply ct_xcase in H. tauto.
  Qed.

  Lemma args_of_bindings_typed : forall G bs,
    (forall b, In b bs -> clookup G (cbvar b) = Some b) ->
    args_typed data codata defs G (map arg_of_binding bs) bs.
  Proof.
    intros G bs. induction bs as [|b r IH]; intros H; simpl; constructor.
    - pose proof (H b (or_introl eq_refl)) as Hb. destruct b as [v c ty]. unfold arg_of_binding, arg_typed. simpl in *.
      destruct c; apply ct_var; auto.
    - apply IH. intros b' Hb'. apply H. right. exact Hb'.
  Qed.

  Variable cur : string.

  (* what `share` needs about the body it lifts, whatever the shape of the continuation *)
  Lemma share_core : forall (var : cident) (ty : cty) (body : cstmt) (name : string) G st' S k newdef (fvc0 : bset),
    newdef = mkcd (new_id name) (tfv_stmt body []) body ->
    k = CMu CCns var (CCall (new_id name) (map arg_of_binding (tfv_stmt body [])) ty) ty ->
    (forall G', agree st' S G' G -> cs (mkcb var CPrd ty :: G') body = None) ->
    (forall b, In b (fvs body) -> b = mkcb var CPrd ty \/ In b fvc0) ->
    tyd ty = true ->
    find (fun d' => cident_eqb (cdname d') (new_id name)) defs = Some newdef ->
    KT k ty G st' S /\
    (tyd_fv fvc0 -> def_typed newdef /\ tyd_fv (fvt k)).
  Proof.
    intros var ty body name G st' S k newdef fvc0 -> -> HA Hfv Hty Hfd. split.
    - intros G' Hg. apply ct_mu. split; [reflexivity|]. split; [reflexivity|]. cbn [opp].
      apply cs_call. split; [exact Hty|]. eexists. split; [exact Hfd|]. cbn [cdctx].
      apply args_of_bindings_typed. intros b Hb.
      exact (fv_lookup_stmt data codata defs body _ (HA G' Hg) b Hb).
    - intros Hc. pose proof (HA G (agree_refl _ _ _)) as Hb.
      assert (Htf : tyd_fv (fvs body)).
      { intros b Hin. destruct (Hfv b Hin) as [->|Hin']; [exact Hty | apply Hc; exact Hin']. }
      split.
      + unfold def_typed. cbn [cdctx cdbody]. split; [|split].
        * eapply fvs_names_nodup. exact Hb.
        * exact Htf.
        * eapply typed_in_own_fvs. exact Hb.
      + intros b Hin. apply fvt_mu_1 in Hin. apply (proj1 (fvs_call _ _ _ _)) in Hin.
        apply (proj1 (fva_arg_of_binding _ _)) in Hin. apply Htf. exact Hin.
  Qed.

  Theorem share_ok : forall cont st k st' ty G S,
    share cur cont st = Ok (k, st') ->
    KT cont ty G st S -> tyd ty = true ->
    incl S (st_used_vars st) -> incl U (st_used_vars st) ->
    Hfind (st_lifted st') ->
    KT k ty G st' S /\
    (tyd_fv (fvt cont) -> tyd_fv (fvt k) /\ (Forall def_typed (st_lifted st) -> Forall def_typed (st_lifted st'))).
  Proof.
    intros cont st k st' ty G S H HK Hty HS HU Hf.
    destruct (share_inv _ _ _ _ _ H) as [var [ty0 [body [stv [name [Hm [Hv [Hl Hk]]]]]]]].
    set (newdef := mkcd (new_id name) (tfv_stmt body []) body) in *.
    assert (Hfd : find (fun d' => cident_eqb (cdname d') (new_id name)) defs = Some newdef).
    { apply (Hf newdef). rewrite Hl. left. reflexivity. }
    pose proof (KT_here _ _ _ _ _ HK) as Hhere.
    assert (Hcase :
      ty0 = ty /\
      (forall G', agree st' S G' G -> cs (mkcb var CPrd ty :: G') body = None) /\
      (forall b, In b (fvs body) -> b = mkcb var CPrd ty \/ In b (fvt cont)) /\
      st_lifted stv = st_lifted st).
    { destruct (is_mu cont) eqn:Emu.
      - (* the continuation is a mu~-abstraction: its own variable and body *)
        destruct cont as [c v t | n | a o b | c v s t | c x args t | c cls t]; try discriminate.
        destruct Hm as [Hvar [Ht [Hbody Hstv]]]. subst var ty0 body stv.
        apply ct_mu in Hhere. destruct Hhere as [-> [-> _]].
        split; [reflexivity|]. split; [|split; [|reflexivity]].
        + intros G' Hg. assert (Hg' : agree st S G' G).
          { intros y Hy. apply Hg. destruct Hy as [Hy|[Hy1 Hy2]]; [left; exact Hy | right; split; [rewrite Hv; exact Hy1 | exact Hy2]]. }
          pose proof (HK G' Hg') as Hc. apply ct_mu in Hc. destruct Hc as [_ [_ Hc]]. exact Hc.
        + intros b Hb. destruct (cbinding_dec b (mkcb v CPrd ty)) as [E|E]; [left; exact E | right].
          apply fvt_mu_iff. split; [exact Hb | exact E].
      - (* any other continuation: a fresh variable is cut against it *)
        assert (Hm' : exists x, fresh_var st = Ok (x, stv) /\ var = new_id x /\ ty0 = cterm_type cont /\
                                body = CCut (CXVar CPrd (new_id x) ty0) ty0 cont).
        { destruct cont; try exact Hm. discriminate. }
        clear Hm. destruct Hm' as [x [Hx [Hvar [Ht Hbody]]]].
        assert (Ety : ty0 = ty) by (rewrite Ht; eapply ct_type; exact Hhere).
        destruct (fresh_in_vars_inv _ _ _ _ Hx) as [Hfresh [Hused [_ Hlift]]].
        split; [exact Ety|]. clear Ht. subst ty0 var body. split; [|split; [|exact Hlift]].
        + intros G' Hg. apply cs_cut. split; [exact Hty|]. split.
          * apply ct_var. repeat split. rewrite clookup_cons. cbn [cbvar]. rewrite ceq_id_refl. reflexivity.
          * apply HK. intros y Hy. rewrite clookup_cons. cbn [cbvar].
            assert (Hyu : In y (st_used_vars st)) by (destruct Hy as [Hy|[Hy _]]; [apply HS; exact Hy | exact Hy]).
            assert (Hne : x <> y) by (intros ->; contradiction).
            rewrite (new_id_neq _ _ Hne). apply Hg.
            destruct Hy as [Hy|[Hy1 Hy2]]; [left; exact Hy | right; split; [rewrite Hv, Hused; right; exact Hy1 | exact Hy2]].
        + intros b Hb. apply fvs_cut in Hb. destruct Hb as [Hb|Hb]; [left; apply fvt_var in Hb; exact Hb | right; exact Hb]. }
    destruct Hcase as [-> [HA [Hfv Hlift]]].
    destruct (share_core var ty body name G st' S k newdef (fvt cont) eq_refl Hk HA Hfv Hty Hfd) as [HK' Hrest].
    split; [exact HK'|]. intros Hc. destruct (Hrest Hc) as [Hd Hk']. split; [exact Hk'|].
    intros Hall. rewrite Hl, Hlift. constructor; assumption.
  Qed.
End Share.
