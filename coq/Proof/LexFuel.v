(* C18: the iteration bound of the lexer model ([lex_string s] = lex (S |s|) s) never influences its answer:
   every iteration of [lex] that does not stop removes at least one character. *)
From Coq Require Import List ZArith NArith String Ascii Bool Lia.
From SCC Require Import Base.Sexp Lang.SynUtil Lang.FunSyn Model.Printer Model.Parser.
Import ListNotations.
Open Scope string_scope.

Notation len := String.length.

Lemma skip_while_len p s : len (skip_while p s) <= len s.
Proof. induction s as [|c r IH]; cbn; [lia|]. destruct (p c); cbn; lia. Qed.

Lemma skip_ws_len : forall n s, len s <= n -> len (skip_ws s) <= len s.
Proof.
  induction n as [|n IH]; intros s H.
  - destruct s; [cbn; lia|cbn in H; lia].
  - destruct s as [|c r]; [cbn; lia|].
    cbn [skip_ws]. cbn [len] in H.
    destruct (is_blank c); [specialize (IH r ltac:(lia)); cbn [len]; lia|].
    repeat match goal with
      | |- context [match ?x with _ => _ end] =>
          match x with
          | skip_ws _ => fail 1
          | _ => destruct x; cbn [len] in *; try lia
          end
      end.
    all: try match goal with |- len (skip_ws ?r') <= _ => specialize (IH r' ltac:(cbn [len] in *; lia)); lia end.
Qed.
Lemma skip_ws_le s : len (skip_ws s) <= len s.
Proof. apply (skip_ws_len (len s)). lia. Qed.

Lemma comment_rest_len r : len (comment_rest r) <= len r.
Proof.
  unfold comment_rest.
  set (body := match r with EmptyString => r | String c r2 => _ end).
  assert (Hb : len body <= len r).
  { subst body. destruct r as [|c r2]; [lia|].
    destruct (is_nl c); [lia|].
    destruct (Ascii.eqb c " ").
    - destruct r2 as [|c2 r3]; [lia|]. destruct (is_nl c2 || Ascii.eqb c2 "|"); [lia|apply skip_while_len].
    - apply skip_while_len. }
  pose proof (skip_while_len is_nl body). lia.
Qed.

Lemma after_cmp_len c r t r' : after_cmp c r = LTok t r' -> len r' <= len r.
Proof.
  unfold after_cmp. pose proof (skip_ws_le r).
  destruct (skip_ws r) as [|c0 r0] eqn:E; [intros [= <- <-]; lia|].
  destruct c0 as [[|] [|] [|] [|] [|] [|] [|] [|]]; intros [= <- <-]; cbn [len] in *; lia.
Qed.
Lemma after_cmp_tok c r : exists t r', after_cmp c r = LTok t r'.
Proof.
  unfold after_cmp. destruct (skip_ws r) as [|c0 r0]; [eauto|].
  destruct c0 as [[|] [|] [|] [|] [|] [|] [|] [|]]; eauto.
Qed.
Lemma zero_cmp_len r o r' : zero_cmp r = Some (o, r') -> len r' < len r.
Proof.
  unfold zero_cmp.
  repeat match goal with
    | |- context [match ?x with _ => _ end] => destruct x; cbn [len]; try discriminate
    end; intros [= <- <-]; cbn [len]; lia.
Qed.

(* every terminal and every comment is at least one character long *)
Definition ok (st : lexstep) (k : nat) : Prop :=
  match st with LTok _ r => len r < k | LSkip r => len r < k | LErr => True end.

Lemma ok_after_cmp o r1 k : len r1 < k -> ok (after_cmp o r1) k.
Proof.
  intro H. destruct (after_cmp_tok o r1) as (t & r' & E). rewrite E. apply after_cmp_len in E. cbn [ok]. lia.
Qed.

Ltac split_char c := destruct c as [[|] [|] [|] [|] [|] [|] [|] [|]].

Lemma eq_len r : ok (match r with
                     | String "=" r1 => after_cmp FEq r1
                     | String ">" r1 => LTok (TSym SArrow) r1
                     | _ => LTok (TSym SAssign) r
                     end) (S (len r)).
Proof.
  destruct r as [|c1 r1]; [cbn; lia|]. split_char c1; cbn [ok len]; try lia. apply ok_after_cmp. lia.
Qed.
Lemma ne_len r : ok (match r with String "=" r1 => after_cmp FNe r1 | _ => LErr end) (S (len r)).
Proof.
  destruct r as [|c1 r1]; [exact I|]. split_char c1; cbn [ok len]; try exact I. apply ok_after_cmp. lia.
Qed.
Lemma lt_len r : ok (match r with String "=" r1 => after_cmp FLe r1 | _ => after_cmp FLt r end) (S (len r)).
Proof.
  destruct r as [|c1 r1]; [apply ok_after_cmp; cbn; lia|].
  split_char c1; cbn [len]; apply ok_after_cmp; cbn [len]; lia.
Qed.
Lemma gt_len r : ok (match r with String "=" r1 => after_cmp FGe r1 | _ => after_cmp FGt r end) (S (len r)).
Proof.
  destruct r as [|c1 r1]; [apply ok_after_cmp; cbn; lia|].
  split_char c1; cbn [len]; apply ok_after_cmp; cbn [len]; lia.
Qed.
Lemma slash_len r : ok (match r with String "/" r1 => LSkip (comment_rest r1) | _ => LTok (TSym SSlash) r end) (S (len r)).
Proof.
  destruct r as [|c1 r1]; [cbn; lia|]. split_char c1; cbn [ok len]; try lia.
  pose proof (comment_rest_len r1). lia.
Qed.
Lemma colon_len r : ok (match skip_ws r with
                        | String "c" (String "n" (String "s" r1)) => LTok TColonCns r1
                        | _ => LTok (TSym SColon) r
                        end) (S (len r)).
Proof.
  pose proof (skip_ws_le r) as H.
  destruct (skip_ws r) as [|a s1]; [cbn; lia|].
  repeat (match goal with |- context [match ?x with _ => _ end] => is_var x; destruct x end; cbn [ok len] in *; try lia).
Qed.

Lemma scan_len s : ok (scan s) (len s).
Proof.
  unfold scan. destruct s as [|c r]; [exact I|]. cbn [len].
  destruct (is_lower c || is_upper c) eqn:Ew.
  { pose proof (skip_while_len is_wordc r). cbn [skip_while ok].
    assert (Hw : is_wordc c = true) by (unfold is_wordc; rewrite Ew; reflexivity).
    rewrite Hw. lia. }
  destruct (Ascii.eqb c "0").
  { pose proof (skip_ws_le r). destruct (zero_cmp (skip_ws r)) as [[o r']|] eqn:E; cbn [ok]; [apply zero_cmp_len in E; lia|lia]. }
  destruct (is_digit c) eqn:Ed.
  { destruct (n_of_string _); [|exact I]. cbn [skip_while ok]. rewrite Ed. pose proof (skip_while_len is_digit r). lia. }
  split_char c; try exact I; try (cbn [ok]; lia);
    first [apply gt_len | apply lt_len | apply eq_len | apply colon_len | apply slash_len | apply ne_len].
Qed.

Theorem lex_stable : forall n m s, len s < n -> len s < m -> lex n s = lex m s.
Proof.
  induction n as [|n IH]; intros m s Hn Hm; [lia|].
  destruct m as [|m]; [lia|].
  cbn [lex]. pose proof (skip_ws_le s) as Hs.
  destruct (skip_ws s) as [|c r] eqn:E; [reflexivity|].
  pose proof (scan_len (String c r)) as Hl.
  destruct (scan (String c r)) as [t r'|r'|]; [| |reflexivity]; cbn [ok] in Hl.
  - rewrite (IH m r') by lia. reflexivity.
  - apply IH; lia.
Qed.

(* the counter [lex_string] supplies suffices: more iterations give the same answer *)
Theorem lex_fuel_suffices : forall s n, len s < n -> lex n s = lex_string s.
Proof. intros s n H. unfold lex_string. apply lex_stable; lia. Qed.
