(* C06, forward simulation for HEAP statements, part 6c: Switch (dispatch through the jump table, or
   fall-through for at most one clause, then the load of the fields) and Invoke (indirect jump through the
   data word of the closure, then the load of the captured environment). *)
From Coq Require Import List ZArith NArith String Bool Lia FMapPositive Permutation.
From SCC Require Import Proof.X86Mem Proof.X86MemFrame Proof.X86StackFrame.
From SCC Require Import Base.Sexp Lang.AxSyn Sem.AxSem Sem.AxHeap Model.ParMoves Model.Backend Model.X86 Sem.X86Sem Sem.X86Wf
     Model.Linearize Model.LinCheck Generated.Constants Proof.LinBasics Proof.LinTyping Proof.X86State Proof.X86Sel Proof.X86Exec Proof.X86ParMoves
     Proof.SubstGraph Proof.X86Subst Proof.X86SimRel Proof.X86SimStmt Proof.X86SimAddr Proof.X86SimClo
     Proof.X86HeapDefs Proof.X86HeapCongr Proof.X86HBridge Proof.X86HFrame
     Proof.X86HSimRel Proof.X86HSimStmt Proof.X86HConv Proof.X86HSimStore Proof.X86HSimLoad Proof.X86HLayout Proof.X86HSimHeapA Proof.X86HAnn Proof.X86HSimHeapB.
From SCC Require Model.Heap Proof.HeapMore Proof.HeapTrace Proof.HeapRep.
Import ListNotations.
Open Scope Z_scope.
Open Scope list_scope.

Lemma bind_snd : forall (xs : list ident) (vs : list value) e, bind xs vs = Some e -> map snd e = vs /\ map fst e = xs.
Proof.
  induction xs as [|x xs IH]; intros [|v vs] e H; cbn [bind] in H; try discriminate.
  - inversion H. auto.
  - destruct (bind xs vs) as [er|] eqn:B; [|discriminate]. inversion H; subst. destruct (IH vs er B) as [A1 A2]. cbn. now rewrite A1, A2.
Qed.
Lemma attach_nil_r (e : env) : e = [] -> forall ps, attach e ps = [].
Proof. intros ->. reflexivity. Qed.
Lemma load_ops_run n q hs : (0 < n)%nat -> hrun (load_ops n q) hs = Heap.load_object (Heap.nlinks n) q hs.
Proof. intros H. destruct n; [lia|]. reflexivity. Qed.

Lemma kinds_join (cx sg : ctx) (fs : list value) : same_kt cx sg -> same_kinds fs sg ->
  Forall2 (fun b f => chi_of f = bchi b /\ ty_of f = bty b) cx fs.
Proof.
  intros H. revert fs. induction H as [|b1 b2 l1 l2 [A1 A2] _ IH]; intros fs SK; inversion SK; subst; constructor.
  - match goal with H : _ /\ _ |- _ => destruct H as [B1 B2] end. split; congruence.
  - apply IH. assumption.
Qed.

Lemma ptrs_attach : forall (e : env) (ps : list Z), List.length e = List.length ps -> ptrs (attach e ps) = ps.
Proof.
  induction e as [|xv e IH]; intros [|q ps] L; cbn in L; try discriminate; [reflexivity|].
  cbn [attach ptrs map h_ptr snd]. f_equal. apply IH. lia.
Qed.
Lemma ctx_of_env_kinds (ce : list (ident * value)) :
  Forall2 (fun b f => chi_of f = bchi b /\ ty_of f = bty b) (ctx_of_env ce) (map snd ce).
Proof. induction ce as [|[x v] ce IH]; cbn; constructor; auto. Qed.
Lemma ctx_of_env_ids (ce : list (ident * value)) : env_ids ce = ids (ctx_of_env ce).
Proof. unfold env_ids, ids, ctx_of_env. rewrite map_map. reflexivity. Qed.
Lemma ctx_of_env_length (ce : list (ident * value)) : List.length (ctx_of_env ce) = List.length ce.
Proof. unfold ctx_of_env. apply map_length. Qed.

Section HC.
Variable im : image.
Variable p : prog.
Hypothesis IMG : img_ok im.
Hypothesis BACK : back_ok im.
Hypothesis SMALL : forall pc a, PM.find pc (addr_of im) = Some a -> a < 4611686018427387904.
Local Notation CLO := (hclo_ok im p).
Local Notation hrel := (hrel (ptypes p) CLO).
Local Notation hvrep := (hvrep (ptypes p) CLO).
Local Notation xrep := (xrep (ptypes p) CLO).
Local Notation xflds := (xflds (ptypes p) CLO).

(* a state that differs from s in rcx and the flags only keeps the relation *)
Lemma hrel_temp c he hs s s' sp :
  hrel c he hs s sp -> heap s' = heap s -> stack s' = stack s -> (forall r, r <> TEMP -> rget s' r = rget s r) ->
  hrel c he hs s' sp.
Proof.
  intros R HE ST RG. apply (hrel_keep (ptypes p) CLO c he hs s s' sp R).
  - destruct (hr_frame R) as [A B]. split; [rewrite RG; [exact A|discriminate]|exact B].
  - exact HE.
  - apply RG. discriminate.
  - apply RG. discriminate.
  - intros i b n t _ _ T. destruct (xtpos_ok _ _ _ T) as (_ & NT & _).
    destruct t as [r|q]; cbn [lget]; [apply RG; congruence|unfold sget; now rewrite ST].
Qed.

Theorem hsim_switch c he hs s sp v t cls lc code lc' pc he0 x tn tag fs q cl e1 lk hl fl cl0 :
  hrel c he hs s sp -> lin_check (sigs_of p) c (Switch v t cls) = true ->
  xcs (ptypes p) (Switch v t cls) c lc = Ok (code, lc') -> code_at im pc code -> labels_at_nh im pc code ->
  (forall lcx, is_hash_label (type_label t lcx) = false) ->
  AxSem.split_last 1 he = Some (he0, [(x, VObj tn tag fs, q)]) ->
  find_clause cls tag = Some cl -> bind (vars (cl_ctx cl)) fs = Some e1 ->
  InvA HEAP_BASE hs (roots he) hl fl cl0 -> P03 hs -> Heap.frontier hs <= LIMIT ->
  (fs <> [] -> HeapRep.rep_flds lk (Heap.m hs) fs q) ->
  let c0 := removelast c in
  exists pcb lcb cb lcb' s',
    exec_to im pc s pcb s' /\
    xcs (ptypes p) (cl_body cl) (c0 ++ cl_ctx cl) lcb = Ok (cb, lcb') /\ code_at im pcb cb /\ labels_at_nh im pcb cb /\
    lin_check (sigs_of p) (c0 ++ cl_ctx cl) (cl_body cl) = true /\
    hrel (c0 ++ cl_ctx cl) (he0 ++ attach e1 (load_ptrs hs (List.length (cl_ctx cl)) q))
         (hrun (load_ops (List.length (cl_ctx cl)) q) hs) s' sp /\
    hframe_eq s s' sp.
Proof.
  intros R LC CS CA LA NHL SL FC BD IA K03 HFr RF c0'.
  apply split_last1_inv in SL. subst he.
  pose proof (hrel_length R) as LEN. rewrite app_length in LEN. cbn [List.length] in LEN.
  rewrite lin_check_switch in LC. apply andb_true_iff in LC as [_ LC].
  destruct (split_lastn 1 c) as [[c0 [|b [|b' r]]]|] eqn:SLc; try discriminate.
  apply split_lastn_Some in SLc as [-> _]. unfold c0'. rewrite removelast_last. clear c0'.
  apply andb_true_iff in LC as [LC LCc]. apply andb_true_iff in LC as [LC CO]. apply andb_true_iff in LC as [LC TY].
  apply andb_true_iff in LC as [IDb CH]. apply N.eqb_eq in IDb. apply ty_eqb_eq in TY. apply chi_eqb_eq in CH.
  rewrite app_length in LEN. cbn [List.length] in LEN. assert (L0 : List.length he0 = List.length c0) by lia.
  destruct (cs_switch _ _ _ _ _ _ _ _ CS) as (c1 & c3 & C1 & GC & ->).
  rewrite removelast_last in GC.
  (* the scrutinee *)
  destruct (hr_vals R (List.length he0) x (VObj tn tag fs) q) as (b0 & Hb0 & V); [apply nth_error_mid|].
  rewrite L0, nth_error_mid in Hb0. inversion Hb0; subst b0. clear Hb0.
  inversion V as [|b1 v1 q1 dw t1 t2 NE K1 K2 T1 T2 L1 L2 X]; subst. clear V.
  cbn in K2. rewrite <- K2 in *.
  set (fresh := type_label (Decl tn) (lc + 1)%N) in *.
  inversion X as [|tn1 tag1 fs1 q1 a1 TW XF|]; subst. clear X.
  destruct TW as (d & k' & xk & FD & XP' & -> & FX & SK).
  unfold cls_ok, type_xtors in CO. cbn [sigs_of sg_types] in CO. rewrite FD in CO.
  destruct (find_clause_pos cls (txtors d) tag cl 0%N CO FC) as (k & xk0 & Hk & Hxk & XP & FX' & SMk).
  assert (xk0 = xk) by congruence. subst xk0.
  assert (Ek : k' = N.of_nat k) by (rewrite XP in XP'; inversion XP'; lia). subst k'.
  destruct (bind_snd _ _ _ BD) as [E1S E1N].
  assert (Lfs : List.length fs = List.length (cl_ctx cl)).
  { apply bind_length in BD. unfold vars in BD. rewrite map_length in BD. lia. }
  (* the label, the table, the clauses *)
  pose proof CA as CA0. apply code_at_app in CA as [CA1 CA]. apply labels_at_nh_app in LA as [_ LA].
  set (pcl := padd pc (List.length c1)) in *.
  assert (CL0 : PM.find pcl (code im) = Some (LAB fresh)).
  { pose proof CA as X. rewrite <- app_assoc in X. cbn [app] in X. apply code_at_cons in X as [X _]. exact X. }
  destruct (io_addr im IMG pcl _ CL0) as (a & AL & GE).
  assert (FL : find_label (labels im) fresh = Some pcl).
  { pose proof LA as X. rewrite <- app_assoc in X. cbn [app] in X. rewrite (X O fresh eq_refl (NHL _)). reflexivity. }
  pose proof (label_addr_at im fresh pcl a FL AL) as LAD.
  destruct (dispatch_layout im IMG BACK (ptypes p) (fun cx lc0 => x_load cx c0 lc0) (fun cx => c0 ++ cx) pcl fresh cls c3 (lc + 1)%N lc' a
              CA LA (NHL _) GC AL k cl Hk) as (i & pcc & lcl & cl1 & lcb & cb & lcb' & IX & (pca & PA) & ARR & DOWN & LD & BDY & CAb & LAb).
  (* control reaches the code of the clause; only rcx and the flags change *)
  unfold clause in *.
  assert (JUMP : exists sj, exec_to im pc s pcc sj /\ heap sj = heap s /\ out sj = out s /\ stack sj = stack s /\
                            (forall r, r <> TEMP -> rget sj r = rget s r)).
  { destruct (Nat.leb (List.length cls) 1) eqn:LE.
    - subst c1. exists s. split; [apply (DOWN eq_refl)|auto].
    - destruct C1 as (tmpv & TVs & ->).
      assert (tmpv = t2).
      { rewrite <- IDb in TVs. rewrite (vt_of_nth0 (c0 ++ [b]) (List.length c0) b (hr_nodup R) (nth_error_mid _ _ _)) in TVs.
        rewrite L0 in T2. congruence. }
      subst tmpv. unfold switch_head in CA1. unfold clause in CA1. rewrite LE in CA1.
      set (off := jump_length (N.of_nat k)) in *.
      assert (OFF : 0 <= off) by (unfold off, jump_length; lia).
      pose proof (SMALL _ _ PA) as SM. pose proof (hr_frame R) as F.
      assert (WR : wrap (a + off) = a + off) by (apply wrap_small_range; unfold CODE_BASE in GE; lia).
      cbn [x_load_label x_jump] in CA1. apply code_at_cons in CA1 as [CLE CA1].
      set (sa := rset s TEMP (Some a)).
      assert (STa : step im (LEAL TEMP fresh) s = Next sa) by (cbn [step]; now rewrite LAD).
      assert (Fa : frame_ok sa sp) by (apply frame_ok_rset; [discriminate|exact F]).
      destruct (xtpos_ok _ _ _ T2) as (Lt2 & Nt2 & _).
      set (sb := set_flags (rset sa TEMP (Some (a + off))) None).
      assert (GO : step im (JMP TEMP) sb = Jump sb i).
      { cbn [step]. unfold need. unfold sb. rewrite rget_set_flags, rget_rset_same. unfold goto_addr. now rewrite IX. }
      exists sb. split; [|unfold sb, sa; repeat split; auto; intros r Hr; rewrite rget_set_flags, !rget_rset_other by congruence; reflexivity].
      eapply exec_next; [exact CLE|exact STa|].
      unfold x_arith, op_commutative in CA1. cbn [xtemp_eqb N.eqb] in CA1. rewrite N.eqb_refl in CA1.
      destruct t2 as [r|q']; cbn [add_to_register app lget loc_ok] in *.
      + apply code_at_cons in CA1 as [CADD CA1]. apply code_at_cons in CA1 as [CJ _].
        eapply exec_next; [exact CADD| |].
        { cbn [step]. unfold arith_rr, need. unfold sa at 1. rewrite rget_rset_same.
          unfold sa at 1. rewrite rget_rset_other by congruence. rewrite L2. rewrite WR. reflexivity. }
        eapply exec_jump; [exact CJ|exact GO|apply ARR].
      + apply code_at_cons in CA1 as [CADD CA1]. apply code_at_cons in CA1 as [CJ _].
        eapply exec_next; [exact CADD| |].
        { cbn [step]. unfold arith_rm, need. unfold sa at 1. rewrite rget_rset_same.
          rewrite (ea_stack sa sp) by (exact Fa || exact Lt2). unfold withm. rewrite mload_slot by (exact Fa || exact Lt2).
          unfold sa at 1. rewrite sget_rset, L2. rewrite WR. reflexivity. }
        eapply exec_jump; [exact CJ|exact GO|apply ARR]. }
  destruct JUMP as (sj & XJ & HEj & OUj & STj & RGj).
  pose proof (hrel_temp _ _ _ s sj sp R HEj STj RGj) as Rj.
  assert (LCb : lin_check (sigs_of p) (c0 ++ cl_ctx cl) (cl_body cl) = true).
  { unfold lin_clauses_sw in LCc. rewrite forallb_forall in LCc. apply LCc. eapply nth_error_In; eauto. }
  apply code_at_app in CAb as [CAl CAbd]. apply labels_at_nh_app in LAb as [LAl LAbd].
  destruct fs as [|f0 fr].
  - (* no field: nothing to load *)
    assert (ECX : cl_ctx cl = []) by (destruct (cl_ctx cl); [reflexivity|cbn in Lfs; lia]).
    assert (e1 = []) by (rewrite ECX in BD; cbn in BD; congruence). subst e1.
    rewrite ECX in *. cbn [x_load] in LD. inversion LD; subst cl1 lcb. cbn [List.length padd] in CAbd, LAbd.
    exists pcc, lcl, cb, lcb', sj. split; [exact XJ|]. split; [exact BDY|]. split; [exact CAbd|]. split; [exact LAbd|].
    split; [exact LCb|]. split; [|split; [exact OUj|apply stack_frame_eq; exact STj]].
    cbn [List.length load_ops hrun fold_left attach]. rewrite !app_nil_r.
    eapply (hrel_prefix (ptypes p) CLO); exact Rj.
  - set (fs := f0 :: fr) in *.
    assert (NEf : fs <> []) by discriminate.
    assert (XFj : xflds (hword sj) fs q).
    { eapply xflds_ext; [|exact XF]. intros a0 _. apply hword_heap. exact HEj. }
    assert (LQ : lget sj sp (mtpos (2 * N.of_nat (List.length c0))) = Some q).
    { pose proof T1 as T1'. apply xtpos_mtpos in T1' as [E1 _]. cbn [tnum_n] in E1. rewrite N.add_0_r, L0 in E1. rewrite <- E1.
      destruct (xtpos_ok _ _ _ T1) as (_ & NT & _).
      destruct t1 as [r|q']; cbn [lget] in *; [rewrite RGj by congruence; exact L1|unfold sget in *; rewrite STj; exact L1]. }
    assert (KIN : Forall2 (fun b0 f => chi_of f = bchi b0 /\ ty_of f = bty b0) (cl_ctx cl) fs).
    { apply sig_match_iff in SMk. exact (kinds_join _ _ _ SMk SK). }
    assert (E1F : env_ids e1 = ids (cl_ctx cl)).
    { unfold env_ids. rewrite <- (map_map fst idn), E1N. unfold vars, ids. now rewrite map_map. }
    destruct (hsim_load im (ptypes p) CLO c0 (cl_ctx cl) he0 x (VObj tn tag fs) q fs e1 hs sj sp lcl cl1 lcb pcc lk hl fl cl0
                (hrel_prefix (ptypes p) CLO c0 b he0 _ hs sj sp Rj) LQ XFj NEf E1S E1F KIN (lin_nodup _ _ _ LCb) IA K03 (RF NEf) HFr LD CAl LAl)
      as (s' & XL & FEL & RL).
    exists (padd pcc (List.length cl1)), lcb, cb, lcb', s'.
    split; [eapply exec_to_trans; eassumption|]. split; [exact BDY|]. split; [exact CAbd|]. split; [exact LAbd|]. split; [exact LCb|].
    split.
    + rewrite <- Lfs. rewrite load_ops_run by (cbn; lia). exact RL.
    + eapply hframe_eq_trans; [|exact FEL]. split; [exact OUj|apply stack_frame_eq; exact STj].
Qed.
(* ---------- Invoke ---------- *)
Theorem hsim_invoke c he hs s sp v tag t args cd lc lc' pc he0 x tn cls ce q cl e1 lk hl fl cl0 :
  hrel c he hs s sp ->
  (forall pc0 c0, PM.find pc0 (code im) = Some c0 -> instr_wf c0 = true) ->
  AxSem.split_last 1 he = Some (he0, [(x, VClo tn cls ce, q)]) ->
  find_clause cls tag = Some cl -> bind (vars (cl_ctx cl)) (map snd (erase_env he0)) = Some e1 ->
  lin_check (sigs_of p) c (Invoke v tag t args) = true ->
  xcs (ptypes p) (Invoke v tag t args) c lc = Ok (cd, lc') -> code_at im pc cd ->
  InvA HEAP_BASE hs (roots he) hl fl cl0 -> P03 hs -> Heap.frontier hs <= LIMIT ->
  (ce <> [] -> HeapRep.rep_flds lk (Heap.m hs) (map snd ce) q) ->
  exists pcb lcb cb lcb' s',
    exec_to im pc s pcb s' /\
    xcs (ptypes p) (cl_body cl) (cl_ctx cl ++ ctx_of_env ce) lcb = Ok (cb, lcb') /\ code_at im pcb cb /\ labels_at_nh im pcb cb /\
    lin_check (sigs_of p) (cl_ctx cl ++ ctx_of_env ce) (cl_body cl) = true /\
    ann_check (cl_ctx cl ++ ctx_of_env ce) (cl_body cl) = true /\
    hrel (cl_ctx cl ++ ctx_of_env ce) (attach e1 (ptrs he0) ++ attach ce (load_ptrs hs (List.length ce) q))
         (hrun (load_ops (List.length ce) q) hs) s' sp /\
    hframe_eq s s' sp.
Proof.
  intros R ENC SL FC BD LC CS CA IA K03 HFr RF.
  apply split_last1_inv in SL. subst he.
  pose proof (hrel_length R) as LEN. rewrite app_length in LEN. cbn [List.length] in LEN.
  cbn [lin_check] in LC. apply andb_true_iff in LC as [_ LC].
  destruct (split_lastn 1 c) as [[c0 [|b [|b' r]]]|] eqn:SLc; try discriminate.
  apply split_lastn_Some in SLc as [-> _].
  apply andb_true_iff in LC as [LC AO]. apply andb_true_iff in LC as [LC TY]. apply andb_true_iff in LC as [IDb CH].
  apply N.eqb_eq in IDb. apply ty_eqb_eq in TY. apply chi_eqb_eq in CH.
  rewrite app_length in LEN. cbn [List.length] in LEN. assert (L0 : List.length he0 = List.length c0) by lia.
  (* the closure *)
  destruct (hr_vals R (List.length he0) x (VClo tn cls ce) q) as (b0 & Hb0 & V); [apply nth_error_mid|].
  rewrite L0, nth_error_mid in Hb0. inversion Hb0; subst b0. clear Hb0.
  inversion V as [|b1 v1 q1 a t1 t2 NE K1 K2 T1 T2 L1 L2 X]; subst. clear V.
  cbn in K2. rewrite <- K2 in *.
  inversion X as [| |tn1 cls1 ce1 q1 a1 CLOa XF]; subst. clear X.
  destruct CLOa as (CO & AB & ENTRY).
  destruct (cs_invoke _ _ _ _ _ _ _ _ _ CS) as (tmpv & d & TV & LT & _ & CODE).
  assert (TVeq : tmpv = t2).
  { rewrite <- IDb in TV. rewrite (vt_of_nth0 (c0 ++ [b]) (List.length c0) b (hr_nodup R) (nth_error_mid _ _ _)) in TV.
    rewrite L0 in T2. congruence. }
  subst tmpv.
  unfold cls_ok, type_xtors in CO. cbn [sigs_of sg_types] in CO.
  unfold lookup_type in LT.
  destruct (find (fun d => ident_eqb (tname d) tn) (ptypes p)) as [d'|] eqn:FD; [|discriminate]. inversion LT; subst d'. clear LT.
  destruct (find_clause_pos cls (txtors d) tag cl 0%N CO FC) as (k & xk & Hk & Hxk & XP & FX & SMk).
  pose proof (cls_sig_length _ _ CO) as LCL.
  destruct (ENTRY k cl Hk) as (i & pcc & lcl & cl1 & lcb & cb & lcb' & IX & SMa & ARR & LD & BDY & CAb & LAb & LCb & ANb).
  pose proof (hr_frame R) as F.
  assert (T2' : xtpos Snd (List.length c0) = Ok t2) by (rewrite <- L0; exact T2).
  assert (T1' : xtpos Fst (List.length c0) = Ok t1) by (rewrite <- L0; exact T1).
  destruct (xtpos_ok _ _ _ T2') as (Lt2 & Nt2 & _ & NFt2 & NHt2).
  destruct (xtpos_ok _ _ _ T1') as (Lt1 & Nt1 & _).
  assert (NE12 : t1 <> t2).
  { intros E; subst. destruct (SubstGraph.tpos_inj x86_backend x86_backend_ok _ _ _ _ _ T1' T2') as [E _]. discriminate. }
  (* the arguments, relabelled *)
  assert (SM0 : sig_match c0 (cl_ctx cl) = true).
  { unfold args_ok, lookup_xtor, type_xtors in AO. cbn [sigs_of sg_types] in AO. rewrite FD, FX in AO. eapply sig_match_join; eauto. }
  assert (LC0 : List.length (cl_ctx cl) = List.length c0) by (apply sig_match_iff, same_kt_length in SM0; lia).
  assert (NDc : NoDup (ids (cl_ctx cl))).
  { pose proof (lin_nodup _ _ _ LCb) as X. unfold ids in *. rewrite map_app in X. eapply NoDup_app_l; eauto. }
  pose proof (hbind_rel (ptypes p) CLO c0 he0 hs s sp (cl_ctx cl) e1 (hrel_prefix (ptypes p) CLO c0 b he0 _ hs s sp R) NDc SM0 BD) as R1.
  assert (Le1 : List.length e1 = List.length (ptrs he0)).
  { destruct (bind_snd _ _ _ BD) as [_ B2]. apply (f_equal (@List.length ident)) in B2. unfold vars, ptrs in *. rewrite !map_length in *. lia. }
  (* what the jump leaves alone *)
  assert (KEEPJ : forall s', frame_ok s' sp -> heap s' = heap s -> out s' = out s -> stack s' = stack s ->
             (forall r, r <> TEMP -> XR r <> t2 -> rget s' r = rget s r) ->
             hrel (cl_ctx cl) (attach e1 (ptrs he0)) hs s' sp /\ lget s' sp (mtpos (2 * N.of_nat (List.length (cl_ctx cl)))) = Some q /\
             hframe_eq s s' sp).
  { intros s' F' HE' OU' ST' RG'.
    assert (LG : forall l, loc_ok l -> l <> XR TEMP -> l <> t2 -> lget s' sp l = lget s sp l).
    { intros l Ll N1 N2. destruct l as [r|q']; cbn [lget]; [apply RG'; congruence|unfold sget; now rewrite ST']. }
    split; [|split].
    - apply (hrel_keep (ptypes p) CLO _ _ hs s s' sp R1 F' HE').
      + apply RG'; [discriminate|congruence].
      + apply RG'; [discriminate|congruence].
      + intros j bj n tj Hj _ Tj. destruct (xtpos_ok _ _ _ Tj) as (A & B & _). apply LG; auto.
        intros E; subst tj. assert (Lj : (j < List.length (cl_ctx cl))%nat) by (apply nth_error_Some; congruence).
        destruct (SubstGraph.tpos_inj x86_backend x86_backend_ok _ _ _ _ _ Tj T2') as [_ E]. lia.
    - rewrite LC0. pose proof T1' as T1''. apply xtpos_mtpos in T1'' as [E1 _]. cbn [tnum_n] in E1. rewrite N.add_0_r in E1.
      rewrite <- E1. rewrite LG; auto.
    - split; [exact OU'|apply stack_frame_eq; exact ST']. }
  assert (GO : forall rj s1 off, rget s1 rj = Some (a + off) ->
             off = (if Nat.leb (List.length cls) 1 then 0 else jump_length (N.of_nat k)) ->
             step im (JMP rj) s1 = Jump s1 i).
  { intros rj s1 off RG ->. cbn [step]. unfold need. rewrite RG. unfold goto_addr. now rewrite IX. }
  assert (JUMP : exists sj, exec_to im pc s pcc sj /\ hrel (cl_ctx cl) (attach e1 (ptrs he0)) hs sj sp /\
                            lget sj sp (mtpos (2 * N.of_nat (List.length (cl_ctx cl)))) = Some q /\ hframe_eq s sj sp /\ heap sj = heap s).
  { rewrite <- LCL in CODE. destruct (Nat.leb (List.length cls) 1) eqn:LE.
    - subst cd. destruct t2 as [r|q']; cbn [x_jump lget loc_ok] in *.
      + apply code_at_cons in CA as [CJ _].
        destruct (KEEPJ s F eq_refl eq_refl eq_refl (fun _ _ _ => eq_refl)) as (A1 & A2 & A3).
        exists s. split; [|auto]. eapply exec_jump; [exact CJ|apply (GO r s 0); [rewrite Z.add_0_r; exact L2|reflexivity]|apply ARR].
      + apply code_at_cons in CA as [C0 CA]. apply code_at_cons in CA as [CJ _].
        set (s1 := rset s TEMP (Some a)).
        destruct (KEEPJ s1) as (A1 & A2 & A3); try reflexivity.
        { apply frame_ok_rset; [discriminate|exact F]. }
        { intros r N1 _. unfold s1. apply rget_rset_other. congruence. }
        exists s1. split; [|auto].
        eapply exec_next; [exact C0|rewrite (step_MOVL_slot im s sp F) by exact Lt2; rewrite L2; reflexivity|].
        eapply exec_jump; [exact CJ|apply (GO TEMP _ 0); [rewrite Z.add_0_r; apply rget_rset_same|reflexivity]|apply ARR].
    - destruct CODE as (k' & XP' & ->). assert (k' = N.of_nat k) by (rewrite XP in XP'; inversion XP'; lia). subst k'.
      set (off := jump_length (N.of_nat k)) in *.
      assert (OFF : 0 <= off) by (unfold off, jump_length; lia).
      destruct t2 as [r|q']; cbn [x_add_and_jump lget loc_ok] in *.
      + apply code_at_cons in CA as [C0 CA]. apply code_at_cons in CA as [CJ _].
        pose proof (ENC _ _ C0) as W. cbn [instr_wf] in W. apply andb_true_iff in W as [_ FI].
        set (s1 := set_flags (rset s r (Some (a + off))) None).
        assert (ST : step im (ADDI r off) s = Next s1).
        { cbn [step]. rewrite FI. unfold need. rewrite L2. rewrite wrap_small_range by lia. reflexivity. }
        destruct (KEEPJ s1) as (A1 & A2 & A3); try reflexivity.
        { unfold s1. apply frame_ok_set_flags, frame_ok_rset; auto. }
        { intros r0 N1 N2. unfold s1. rewrite rget_set_flags. apply rget_rset_other. congruence. }
        exists s1. split; [|auto].
        eapply exec_next; [exact C0|exact ST|].
        eapply exec_jump; [exact CJ|apply (GO r s1 off); [unfold s1; rewrite rget_set_flags; apply rget_rset_same|reflexivity]|apply ARR].
      + apply code_at_cons in CA as [C0 CA]. apply code_at_cons in CA as [C1 CA]. apply code_at_cons in CA as [CJ _].
        pose proof (ENC _ _ C1) as W. cbn [instr_wf] in W. apply andb_true_iff in W as [_ FI].
        set (s0 := rset s TEMP (Some a)). set (s1 := set_flags (rset s0 TEMP (Some (a + off))) None).
        assert (ST : step im (ADDI TEMP off) s0 = Next s1).
        { cbn [step]. rewrite FI. unfold need. unfold s0 at 1. rewrite rget_rset_same. rewrite wrap_small_range by lia. reflexivity. }
        destruct (KEEPJ s1) as (A1 & A2 & A3); try reflexivity.
        { unfold s1, s0. apply frame_ok_set_flags, frame_ok_rset; [discriminate|]. apply frame_ok_rset; [discriminate|exact F]. }
        { intros r0 N1 _. unfold s1, s0. rewrite rget_set_flags. rewrite !rget_rset_other by congruence. reflexivity. }
        exists s1. split; [|auto].
        eapply exec_next; [exact C0|rewrite (step_MOVL_slot im s sp F) by exact Lt2; rewrite L2; reflexivity|].
        eapply exec_next; [exact C1|exact ST|].
        eapply exec_jump; [exact CJ|apply (GO TEMP s1 off); [unfold s1; rewrite rget_set_flags; apply rget_rset_same|reflexivity]|apply ARR]. }
  destruct JUMP as (sj & XJ & Rj & LQ & FEj & HEj).
  apply code_at_app in CAb as [CAl CAbd]. apply labels_at_nh_app in LAb as [LAl LAbd].
  destruct ce as [|ce0 cer].
  - (* nothing captured *)
    cbn [ctx_of_env map x_load] in *. inversion LD; subst cl1 lcb. cbn [List.length padd] in CAbd, LAbd.
    exists pcc, lcl, cb, lcb', sj. split; [exact XJ|]. split; [exact BDY|]. split; [exact CAbd|]. split; [exact LAbd|].
    split; [exact LCb|]. split; [exact ANb|]. split; [|exact FEj]. cbn [List.length load_ops hrun fold_left attach]. rewrite !app_nil_r. exact Rj.
  - set (ce := ce0 :: cer) in *.
    assert (NEc : map snd ce <> []) by discriminate.
    assert (XFj : xflds (hword sj) (map snd ce) q).
    { eapply xflds_ext; [|exact XF]. intros a0 _. apply hword_heap. exact HEj. }
    assert (IA' : InvA HEAP_BASE hs (roots (attach e1 (ptrs he0) ++ [(x, VClo tn cls ce, q)])) hl fl cl0).
    { assert (ER : roots (attach e1 (ptrs he0) ++ [(x, VClo tn cls ce, q)]) = roots (he0 ++ [(x, VClo tn cls ce, q)])).
      { unfold roots. f_equal. unfold ptrs at 1 3. rewrite !map_app. f_equal. exact (ptrs_attach e1 (ptrs he0) Le1). }
      rewrite ER. exact IA. }
    destruct (hsim_load im (ptypes p) CLO (cl_ctx cl) (ctx_of_env ce) (attach e1 (ptrs he0)) x (VClo tn cls ce) q (map snd ce) ce hs sj sp lcl cl1 lcb pcc lk hl fl cl0
                Rj LQ XFj NEc eq_refl (ctx_of_env_ids ce) (ctx_of_env_kinds ce) (lin_nodup _ _ _ LCb) IA' K03 (RF ltac:(discriminate)) HFr LD CAl LAl)
      as (s' & XL & FEL & RL).
    rewrite map_length in RL.
    exists (padd pcc (List.length cl1)), lcb, cb, lcb', s'.
    split; [eapply exec_to_trans; eassumption|]. split; [exact BDY|]. split; [exact CAbd|]. split; [exact LAbd|]. split; [exact LCb|]. split; [exact ANb|].
    split; [rewrite load_ops_run by (cbn; lia); exact RL|eapply hframe_eq_trans; eassumption].
Qed.
End HC.
