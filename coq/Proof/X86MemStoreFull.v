(* `x_store` refines `Heap.alloc_object` (Proof/X86MemStoreChain.v, x86_store_ok), with what the forward
   simulation of Let / Create needs in addition:
     - the DATA words (offset +8 of a field slot) and the pointer words of every stored variable, addressed
       through the chain of the new object (`waddrs`, Proof/X86HeapDefs.v);
     - the chain of the new object consists of the acquired blocks (`alloc_object_acq`, Proof/X86HeapAcq.v);
     - a frame: every heap word that is not a block header and lies outside the new blocks is unchanged.
   blk_words              the field slots of one block after a round of store_fields;
   chain_holds            the field slots of a (partial) chain hold the variables stored so far, right-aligned;
   x86_store_block_full   one round (x86_store_block_ok + words of the block + frame);
   x86_store_fields_other_full   the continuation blocks;
   x86_store_full         the theorem. *)
From Coq Require Import List ZArith NArith String Bool Lia FMapPositive.
From SCC Require Import Base.Sexp Lang.AxSyn Sem.AxSem Model.Backend Model.X86 Sem.X86Sem Generated.Constants
  Proof.X86State Proof.X86Sel Proof.X86Mem Proof.X86MemFrame Proof.X86MemStore Proof.X86MemStoreChain
  Proof.X86MemLoadChain Proof.X86HeapDefs Proof.X86HeapAcq.
From SCC Require Model.Heap.
Import ListNotations.
Open Scope list_scope.
Open Scope Z_scope.

(* ---------- the field slots of one block ---------- *)
(* bs (variable i at position pos0 + i) right-aligned in the cap field slots of block rv, zeros before *)
Definition blk_words (w : Z -> Z) (val : N -> Z) (pos0 : nat) (bs : list binding) (rv : Z) (cap : nat) : Prop :=
  (forall i b, nth_error bs i = Some b ->
     w (rv + 16 + 16 * Z.of_nat (cap - List.length bs + i)) = fst_slot val (pos0 + i) b /\
     w (rv + 16 + 16 * Z.of_nat (cap - List.length bs + i) + 8) = snd_slot val (pos0 + i)) /\
  (forall j, (j < cap - List.length bs)%nat -> w (rv + 16 + 16 * Z.of_nat j) = 0).

(* the slots of the chain of kk + 1 blocks headed by p hold `done` (variable i at position pos0 + i),
   right-aligned, zeros before *)
Definition chain_holds (w : Z -> Z) (val : N -> Z) (pos0 : nat) (done : list binding) (kk : nat) (p : Z) : Prop :=
  (forall i b, nth_error done i = Some b ->
     w (nth (List.length (waddrs kk w p) - List.length done + i) (waddrs kk w p) 0) = fst_slot val (pos0 + i) b /\
     w (nth (List.length (waddrs kk w p) - List.length done + i) (waddrs kk w p) 0 + 8) = snd_slot val (pos0 + i)) /\
  (forall j, (j < List.length (waddrs kk w p) - List.length done)%nat -> w (nth j (waddrs kk w p) 0) = 0) /\
  (List.length done <= 2 * kk + 3)%nat.

(* chains read the link words of their blocks only *)
Lemma wchain_congr w w' : forall k p,
  (forall b, In b (wblocks k w p) -> w' (b + 48) = w (b + 48)) ->
  wblocks k w' p = wblocks k w p /\ waddrs k w' p = waddrs k w p.
Proof.
  induction k as [|k IH]; intros p H; cbn [wblocks waddrs]; [auto|].
  assert (E : w' (p + 48) = w (p + 48)) by (apply H; cbn [wblocks]; left; reflexivity).
  rewrite E. destruct (IH (w (p + 48))) as [A B].
  - intros b Hb. apply H. cbn [wblocks]. right. exact Hb.
  - rewrite A, B. auto.
Qed.

Lemma waddrs_in w : forall k p a, In a (waddrs k w p) ->
  exists b, In b (wblocks k w p) /\ (a = b + 16 \/ a = b + 32 \/ a = b + 48).
Proof.
  induction k as [|k IH]; intros p a H; cbn [waddrs wblocks app] in *.
  - exists p. split; [left; reflexivity|]. destruct H as [<-|[<-|[<-|[]]]]; auto.
  - destruct H as [<-|[<-|H]].
    + exists p. split; [left; reflexivity|auto].
    + exists p. split; [left; reflexivity|auto].
    + destruct (IH _ _ H) as (b & Hb & Ha). exists b. split; [right; exact Hb|exact Ha].
Qed.

Lemma chain_holds_congr w w' val pos0 done kk p :
  chain_holds w val pos0 done kk p ->
  (forall b, In b (wblocks kk w p) -> forall i, 0 < i < 64 -> w' (b + i) = w (b + i)) ->
  chain_holds w' val pos0 done kk p.
Proof.
  intros (H1 & H2 & H3) Hw.
  destruct (wchain_congr w w' kk p) as [_ EA]; [intros b Hb; apply Hw; [exact Hb|lia]|].
  unfold chain_holds. rewrite EA.
  assert (Hin : forall j, (j < List.length (waddrs kk w p))%nat ->
            w' (nth j (waddrs kk w p) 0) = w (nth j (waddrs kk w p) 0) /\
            w' (nth j (waddrs kk w p) 0 + 8) = w (nth j (waddrs kk w p) 0 + 8)).
  { intros j Hj. destruct (waddrs_in w kk p _ (nth_In _ 0 Hj)) as (b & Hb & Ha).
    destruct Ha as [-> |[-> | ->]]; rewrite <- !Z.add_assoc; split; apply Hw; auto; lia. }
  pose proof (waddrs_length w kk p) as LA.
  split; [|split; [|exact H3]].
  - intros i b Hi. assert (Hil : (i < List.length done)%nat) by (apply nth_error_Some; congruence).
    destruct (Hin (List.length (waddrs kk w p) - List.length done + i)%nat ltac:(lia)) as [A B].
    rewrite A, B. now apply H1.
  - intros j Hj. destruct (Hin j ltac:(lia)) as [A _]. rewrite A. now apply H2.
Qed.

Lemma nth_slots2 rv l j : (j < 2)%nat -> nth j (rv + 16 :: rv + 32 :: l) 0 = rv + 16 + 16 * Z.of_nat j.
Proof. intros H. destruct j as [|[|j]]; cbn [nth]; lia. Qed.
Lemma nth_slots3 rv j : (j < 3)%nat -> nth j [rv + 16; rv + 32; rv + 48] 0 = rv + 16 + 16 * Z.of_nat j.
Proof. intros H. destruct j as [|[|[|j]]]; cbn [nth]; lia. Qed.

(* the last block of the object (written first) *)
Lemma chain_holds_last w val pos0 nx rv :
  blk_words w val pos0 nx rv 3 -> (List.length nx <= 3)%nat -> chain_holds w val pos0 nx 0 rv.
Proof.
  intros (B1 & B2) Hl. unfold chain_holds. cbn [waddrs List.length]. split; [|split; [|lia]].
  - intros i b Hi. assert (Hil : (i < List.length nx)%nat) by (apply nth_error_Some; congruence).
    rewrite nth_slots3 by lia. now apply B1.
  - intros j Hj. rewrite nth_slots3 by lia. now apply B2.
Qed.

(* a further block in front of a full chain *)
Lemma chain_holds_ext w val pos0 nx done kk link rv :
  chain_holds w val (pos0 + List.length nx) done kk link -> List.length done = (2 * kk + 3)%nat ->
  w (rv + 48) = link -> blk_words w val pos0 nx rv 2 -> (List.length nx <= 2)%nat ->
  chain_holds w val pos0 (nx ++ done) (S kk) rv.
Proof.
  intros (H1 & H2 & H3) Hfull Hlink (B1 & B2) Hl. unfold chain_holds. cbn [waddrs app]. rewrite Hlink.
  pose proof (waddrs_length w kk link) as LA. cbn [List.length]. rewrite app_length, LA in *.
  split; [|split; [|lia]].
  - intros i b Hi. destruct (Nat.lt_ge_cases i (List.length nx)) as [Hlt|Hge].
    + rewrite nth_error_app1 in Hi by exact Hlt.
      replace (S (S (2 * kk + 3)) - (List.length nx + List.length done) + i)%nat with (2 - List.length nx + i)%nat by lia.
      rewrite nth_slots2 by lia. now apply B1.
    + rewrite nth_error_app2 in Hi by exact Hge.
      replace (S (S (2 * kk + 3)) - (List.length nx + List.length done) + i)%nat
        with (S (S (2 * kk + 3 - List.length done + (i - List.length nx))))%nat by lia.
      cbn [nth]. replace (pos0 + i)%nat with (pos0 + List.length nx + (i - List.length nx))%nat by lia.
      now apply H1.
  - intros j Hj. rewrite nth_slots2 by lia. apply B2. lia.
Qed.

(* ---------- the acquired blocks under the block-wise equality ---------- *)
Lemma chain_acq_congr : forall f rest link a b,
  st_eqB a b -> chain_pre f rest link a -> chain_acq f rest link a = chain_acq f rest link b.
Proof.
  induction f as [|f IH]; intros rest link a b E Pre; [reflexivity|].
  destruct rest as [|x r]; [reflexivity|].
  cbn [chain_acq chain_pre] in *. destruct Pre as [A Pre].
  destruct (alloc_congr a b (Heap.pad 2 (Heap.lastn 2 (x :: r)) ++ [link]) E A) as [Ef Es].
  rewrite <- Ef. rewrite (IH _ _ _ _ Es Pre). destruct E as (E1 & _). now rewrite E1.
Qed.

Section Full.
Variable im : image.

(* ---------- one round of store_fields ---------- *)
Lemma x86_store_block_full pos bp to_store remaining lc c0 sv s sp F val link :
  let E := List.length remaining in
  let n := List.length to_store in
  let cap := (3 - bp_n bp)%N in
  let rl := rest_len n cap in
  let k := (2 * N.of_nat (E + rl))%N in
  let acq := fst (acquire_block (tpos k) lc) in
  to_store <> [] ->
  link_code bp remaining to_store = Ok c0 ->
  store_values (rev (skipn rl to_store)) (remaining ++ firstn rl to_store) HEAP cap = Ok sv ->
  (k < MAXPOS)%N ->
  code_at im pos (c0 ++ sv ++ acq) -> labels_at im pos (c0 ++ sv ++ acq) ->
  frame_ok s sp -> vals_ok s sp val E to_store ->
  (bp = Other -> lget s sp (tpos (2 * N.of_nat (E + n))) = Some link) ->
  acq_ok (abs_heap F s) ->
  let P := Heap.pad (N.to_nat cap) (Heap.lastn (N.to_nat cap) (fsts val E to_store)) ++ (match bp with Other => [link] | Last => [] end) in
  let res := Heap.alloc P (abs_heap F s) in
  let rv := Heap.heap (abs_heap F s) in
  exists s', steps im pos s (pnth pos (List.length (c0 ++ sv ++ acq))) s' /\
    st_eqB (abs_heap (Heap.frontier (snd res)) s') (snd res) /\
    lget s' sp (tpos k) = Some (fst res) /\ is_blk (fst res) /\
    (forall k', (k' < MAXPOS)%N -> k' <> k -> lget s' sp (tpos k') = lget s sp (tpos k')) /\
    out s' = out s /\ frame_ok s' sp /\
    fst res = rv /\
    blk_words (hword s') val (E + rl) (skipn rl to_store) rv (N.to_nat cap) /\
    (bp = Other -> hword s' (rv + 48) = link) /\
    (forall a, ~ is_blk a -> a < rv \/ rv + 64 <= a -> hword s' a = hword s a).
Proof.
  intros E n cap rl k acq Hne Hc0 Hsv Hk HC HL FR V Hlink AOK P res rv0.
  destruct (acq_ok_machine F s AOK) as (rv & h2 & R & Hb & Rf & Hb2 & Hch).
  assert (Erv : rv0 = rv) by (unfold rv0; cbn [abs_heap Heap.heap]; unfold reg_or0; now rewrite R).
  rewrite Erv. clear Erv rv0.
  assert (Hcap : (cap = 3 \/ cap = 2)%N) by (unfold cap; destruct bp; cbn; auto).
  assert (Hrl : rl = (n - N.to_nat cap)%nat) by apply rest_len_val.
  assert (Hrln : (rl <= n)%nat) by lia.
  assert (Lfirst : List.length (firstn rl to_store) = rl) by (rewrite firstn_length; fold n; lia).
  assert (Lnext : List.length (skipn rl to_store) = (n - rl)%nat) by (rewrite skipn_length; reflexivity).
  assert (Lrr : List.length (remaining ++ firstn rl to_store) = (E + rl)%nat) by (rewrite app_length, Lfirst; reflexivity).
  apply code_at_app2 in HC as [HC0 HC]. apply labels_at_app2 in HL as [_ HL].
  apply code_at_app2 in HC as [HC1 HC2]. apply labels_at_app2 in HL as [_ HL2].
  (* the link *)
  assert (S0 : exists s0, steps im pos s (pnth pos (List.length c0)) s0 /\ same_but_temp s s0 /\
            (forall a, hword s0 a = if (match bp with Other => true | Last => false end) && (a =? rv + 48) then link else hword s a)).
  { destruct bp; cbn [link_code] in Hc0.
    - inversion Hc0; subst c0. exists s. split; [apply steps_refl|]. split; [apply same_but_temp_refl|]. reflexivity.
    - change (FIELDS_PER_BLOCK - 1)%N with 2%N in Hc0. apply store_field_shape in Hc0 as [K0 ->].
      rewrite app_length in *. cbn [tnum_n] in *. rewrite N.add_0_r in *. fold E n in K0, HC0 |- *.
      destruct (x86_store_field_code_ok im pos _ HEAP _ s sp link rv HC0 FR (tpos_loc_ok _ K0) (Hlink eq_refl) ltac:(discriminate) R)
        as (s0 & ST0 & SB0 & W0).
      { apply field_addr; auto. lia. }
      exists s0. split; [exact ST0|]. split; [exact SB0|]. intros a. rewrite W0. rewrite fo_F2. reflexivity. }
  destruct S0 as (s0 & ST0 & SB0 & W0).
  assert (FR0 : frame_ok s0 sp) by (eapply same_but_temp_frame; eauto).
  assert (R0 : rget s0 HEAP = Some rv) by (destruct SB0 as (A & _); rewrite A by discriminate; exact R).
  assert (W0' : forall a, a <> rv + 48 -> hword s0 a = hword s a).
  { intros a Ha. rewrite W0. destruct (Z.eqb_spec a (rv + 48)); [contradiction|]. now rewrite andb_false_r. }
  (* the values *)
  assert (V0 : vals_ok s0 sp val (E + rl) (skipn rl to_store)).
  { eapply vals_ok_same; [exact SB0|]. rewrite <- Lfirst at 1. apply (vals_ok_app_r s sp val E (firstn rl to_store)).
    now rewrite firstn_skipn. }
  rewrite <- Lrr in V0.
  destruct (x86_store_values_ok im _ (skipn rl to_store) (remaining ++ firstn rl to_store) cap sv s0 sp rv F val Hsv Hcap
              ltac:(rewrite Lnext; lia) HC1 FR0 R0 Hb V0) as (s1 & ST1 & SB1 & St & EQ1).
  rewrite Lrr in St, EQ1.
  assert (Hff : (cap <= 3)%N) by (destruct Hcap as [-> | ->]; lia).
  assert (SB01 : same_but_temp s s1) by (eapply same_but_temp_trans; eassumption).
  assert (FR1 : frame_ok s1 sp) by (eapply same_but_temp_frame; eauto).
  assert (R1 : rget s1 HEAP = Some rv) by (destruct SB01 as (A & _); rewrite A by discriminate; exact R).
  assert (Rf1 : rget s1 FREE = Some h2) by (destruct SB01 as (A & _); rewrite A by discriminate; exact Rf).
  assert (Hdr : forall x, is_blk x -> hword s1 x = hword s x).
  { intros x Hx. rewrite (stored_blk_hdr _ _ _ _ _ _ _ x St Hff Hb Hx). apply W0'.
    destruct (Z.eq_dec x rv) as [->|Hne']; [lia|]. destruct (is_blk_apart x rv Hx Hb Hne'); lia. }
  assert (Hoth : forall x i, is_blk x -> x <> rv -> 0 <= i < 64 -> hword s1 (x + i) = hword s (x + i)).
  { intros x i Hx Hne' Hi. rewrite (stored_other_blk _ _ _ _ _ _ _ x i St Hff Hb Hx Hne' Hi). apply W0'.
    destruct (is_blk_apart x rv Hx Hb Hne'); lia. }
  assert (Hb21 : hword s1 rv = 0 -> is_blk h2) by (rewrite Hdr by auto; exact Hb2).
  assert (Hch1 : hword s1 rv = 0 -> hword s1 h2 <> 0 ->
     (forall off, off = 16 \/ off = 32 \/ off = 48 -> hword s1 (h2 + off) = 0 \/ is_blk (hword s1 (h2 + off))) /\
     bounded 3 s1 (hword s1 h2)).
  { intros H0 Hn0. pose proof (Hb21 H0) as Hbh2.
    assert (Hne' : h2 <> rv) by (intros ->; contradiction).
    rewrite Hdr in H0, Hn0 by auto. destruct (Hch H0 Hn0) as [Kids [B1 B2]]. split.
    - intros off Hoff. rewrite Hoth by (auto; lia). now apply Kids.
    - rewrite Hdr by auto. split; [|exact B2]. intros x Hx. rewrite Hdr by auto. now apply B1. }
  fold k in HC2, HL2.
  destruct (x86_acquire_block_tpos_ok im _ k lc s1 sp rv h2 F Hk HC2 HL2 FR1 R1 Hb Rf1 Hb21 Hch1)
    as (s2 & ST2 & EQ2 & Rr & Ef & Oth & Out & FR2 & NB).
  (* the abstract side *)
  assert (RH : reg_or0 s HEAP = rv) by (unfold reg_or0; now rewrite R).
  assert (RF : reg_or0 s FREE = h2) by (unfold reg_or0; now rewrite Rf).
  assert (RH0 : reg_or0 s0 HEAP = rv) by (unfold reg_or0; now rewrite R0).
  assert (RF0 : reg_or0 s0 FREE = h2) by (unfold reg_or0; destruct SB0 as (A & _); rewrite A by discriminate; now rewrite Rf).
  assert (EP : Heap.pad (N.to_nat cap) (fsts val (E + rl) (skipn rl to_store)) ++ link_slot cap (hword s0) rv = P).
  { unfold P. f_equal.
    - f_equal. rewrite fsts_skipn by (fold n; lia). unfold Heap.lastn. rewrite fsts_length. fold n. now rewrite Hrl.
    - unfold link_slot, cap. destruct bp; cbn [bp_n N.sub N.eqb Pos.eqb]; [reflexivity|].
      rewrite W0, Z.eqb_refl. reflexivity. }
  rewrite EP, RH0, RF0 in EQ1.
  set (A := {| Heap.m := Heap.set_ps (abs_mem s) rv P; Heap.heap := rv; Heap.free := h2; Heap.frontier := F |}).
  assert (Eres : res = Heap.acquire A).
  { unfold res, Heap.alloc, A. cbn [abs_heap Heap.m Heap.heap Heap.free Heap.frontier]. now rewrite RH, RF. }
  assert (EQ1' : st_eqB (abs_heap F s1) A).
  { eapply st_eqB_trans; [exact EQ1|]. split; [reflexivity|]. split; [reflexivity|]. split; [reflexivity|].
    intros x Hx. unfold A. cbn [Heap.m]. unfold Heap.set_ps, Heap.upd.
    destruct (Z.eqb_spec x rv) as [->|Hne'].
    - unfold abs_mem. cbn [Heap.hdr]. rewrite W0' by lia. reflexivity.
    - unfold abs_mem. destruct (is_blk_apart x rv Hx Hb Hne'); rewrite !W0' by lia; reflexivity. }
  destruct (acquire_st_eqB (abs_heap F s1) A EQ1') as [Efst Esnd].
  { cbn [abs_heap Heap.heap]. unfold reg_or0. now rewrite R1. }
  { cbn [abs_heap Heap.heap Heap.free Heap.m]. unfold reg_or0. rewrite R1, Rf1. exact Hb21. }
  { cbn [abs_heap Heap.heap Heap.free Heap.m]. unfold reg_or0. rewrite R1, Rf1. intros H0 Hn0.
    destruct (Hch1 H0 Hn0) as [Kids _]. cbn [abs_mem Heap.ps]. repeat (apply Forall_cons; [apply Kids; auto|]). apply Forall_nil. }
  assert (EFr : Heap.frontier (snd (Heap.acquire (abs_heap F s1))) = Heap.frontier (snd (Heap.acquire A)))
    by (destruct Esnd as (_ & _ & X & _); exact X).
  clearbody res. subst res.
  destruct St as (S1 & S2 & S3).
  exists s2. split; [|split; [|split; [|split; [|split; [|split; [|split; [|split; [|split; [|split]]]]]]]]].
  - rewrite !app_length, <- !pnth_add. eapply steps_trans; [exact ST0|]. eapply steps_trans; [exact ST1|]. exact ST2.
  - rewrite <- EFr. eapply st_eqB_trans; eassumption.
  - rewrite <- Efst, Ef. exact Rr.
  - rewrite <- Efst, Ef. exact Hb.
  - intros k' Hk' Hne'. rewrite Oth.
    + apply same_but_temp_lget; [exact SB01|apply tpos_not_temp].
    + now apply tpos_loc_ok.
    + intro Eq. apply tpos_inj in Eq. contradiction.
    + apply tpos_not_reserved.
    + apply tpos_not_reserved.
    + apply tpos_not_reserved.
  - rewrite Out. destruct SB01 as (_ & _ & X). exact X.
  - exact FR2.
  - rewrite <- Efst. exact Ef.
  - split.
    + intros i b Hi. assert (Hil : (i < n - rl)%nat) by (rewrite <- Lnext; apply nth_error_Some; congruence).
      destruct (S1 i b Hi) as [A1 A2]. rewrite field_offset_val in A1, A2. cbn [tnum_n] in A1, A2.
      rewrite Lnext in *.
      assert (EA : rv + 16 + 16 * Z.of_nat (N.to_nat cap - (n - rl) + i)
                   = rv + (16 + 16 * Z.of_N (cap - N.of_nat (n - rl) + N.of_nat i) + 8 * Z.of_N 0)) by lia.
      assert (EB : rv + 16 + 16 * Z.of_nat (N.to_nat cap - (n - rl) + i) + 8
                   = rv + (16 + 16 * Z.of_N (cap - N.of_nat (n - rl) + N.of_nat i) + 8 * Z.of_N 1)) by lia.
      rewrite EB, EA. rewrite !NB by (apply not_blk_off; [exact Hb|lia]). auto.
    + intros j Hj. rewrite Lnext in *. specialize (S2 (N.of_nat j) ltac:(lia)).
      rewrite field_offset_val in S2. cbn [tnum_n] in S2.
      replace (rv + 16 + 16 * Z.of_nat j) with (rv + (16 + 16 * Z.of_N (N.of_nat j) + 8 * Z.of_N 0)) by lia.
      rewrite NB by (apply not_blk_off; [exact Hb|lia]). exact S2.
  - intros ->. rewrite NB by (apply not_blk_off; [exact Hb|lia]).
    rewrite S3 by (change (3 - bp_n Other)%N with 2%N in *; lia).
    rewrite W0, Z.eqb_refl. reflexivity.
  - intros a Ha Hout. rewrite NB by exact Ha. rewrite S3 by lia. apply W0'. lia.
Qed.

(* the words of earlier blocks are not touched by a round that fills another block *)
Lemma frame_blocks (w w' : Z -> Z) rv bl :
  (forall a, ~ is_blk a -> a < rv \/ rv + 64 <= a -> w' a = w a) ->
  is_blk rv -> Forall is_blk bl -> ~ In rv bl ->
  forall b, In b bl -> forall i, 0 < i < 64 -> w' (b + i) = w (b + i).
Proof.
  intros Hfr Hrv Hbl Hnin b Hb i Hi. rewrite Forall_forall in Hbl. pose proof (Hbl b Hb) as Hbb.
  apply Hfr; [now apply not_blk_off|].
  assert (Hne : b <> rv) by (intros ->; contradiction).
  destruct (is_blk_apart b rv Hbb Hrv Hne); lia.
Qed.

(* ---------- the continuation blocks (BlockPosition::Other) ---------- *)
Lemma x86_store_fields_other_full : forall fuel to_store remaining lc cs lc' pos s sp F val link fa done kk,
  store_fields fuel to_store remaining Other lc = Ok (cs, lc') ->
  (List.length to_store < fuel)%nat -> (List.length to_store <= fa)%nat ->
  code_at im pos cs -> labels_at im pos cs -> frame_ok s sp ->
  vals_ok s sp val (List.length remaining) to_store ->
  lget s sp (tpos (2 * N.of_nat (List.length remaining + List.length to_store))) = Some link ->
  chain_pre fa (fsts val (List.length remaining) to_store) link (abs_heap F s) ->
  let acq := chain_acq fa (fsts val (List.length remaining) to_store) link (abs_heap F s) in
  let bl := wblocks kk (hword s) link in
  NoDup acq -> Forall is_blk bl -> (forall b, In b acq -> ~ In b bl) ->
  chain_holds (hword s) val (List.length remaining + List.length to_store) done kk link ->
  (to_store <> [] -> List.length done = (2 * kk + 3)%nat) ->
  let res := Heap.store_other fa (fsts val (List.length remaining) to_store) link (abs_heap F s) in
  let K := (kk + nbo (List.length to_store))%nat in
  exists s', steps im pos s (pnth pos (List.length cs)) s' /\
    st_eqB (abs_heap (Heap.frontier (snd res)) s') (snd res) /\
    lget s' sp (tpos (2 * N.of_nat (List.length remaining))) = Some (fst res) /\
    (forall k, (k < 2 * N.of_nat (List.length remaining))%N -> lget s' sp (tpos k) = lget s sp (tpos k)) /\
    out s' = out s /\ frame_ok s' sp /\
    wblocks K (hword s') (fst res) = rev acq ++ bl /\
    Forall is_blk (rev acq ++ bl) /\
    chain_holds (hword s') val (List.length remaining) (to_store ++ done) K (fst res) /\
    (forall a, ~ is_blk a -> (forall b, In b acq -> a < b \/ b + 64 <= a) -> hword s' a = hword s a).
Proof.
  induction fuel as [|fuel IH]; intros to_store remaining lc cs lc' pos s sp F val link fa done kk Hsf Hfuel Hfa HC HL FR V Hlink Pre acq bl
    ND Hbl Hdisj CH Hfull res K; [lia|].
  set (E := List.length remaining) in *.
  destruct to_store as [|x r].
  - cbn [store_fields] in Hsf. inversion Hsf; subst cs lc'. cbn [List.length] in Hlink, CH. rewrite Nat.add_0_r in Hlink, CH.
    assert (Hres : res = (link, abs_heap F s)) by (unfold res; destruct fa; reflexivity).
    assert (Hacq : acq = []) by (unfold acq; destruct fa; reflexivity).
    assert (HK : K = kk) by (unfold K; cbn [List.length]; change (nbo 0) with 0%nat; lia).
    rewrite Hres, Hacq, HK. cbn [fst snd abs_heap Heap.frontier List.length pnth rev app].
    exists s. split; [apply steps_refl|]. split; [apply st_eqB_refl|]. repeat (split; [auto; fail|]). auto.
  - set (to_store := x :: r) in *. set (n := List.length to_store) in *.
    destruct (store_fields_unfold fuel to_store remaining Other lc cs lc' ltac:(discriminate) Hsf) as (c0 & sv & c3 & Hc0 & Hsv & Hk & Hsf3 & ->).
    change (3 - bp_n Other)%N with 2%N in *. fold n in Hk, Hsv, Hsf3, HC, HL |- *.
    set (rl := rest_len n 2) in *.
    assert (Hn1 : (1 <= n)%nat) by (unfold n, to_store; cbn [List.length]; lia).
    assert (Hrl : rl = (n - 2)%nat) by apply rest_len_val.
    assert (Lfirst : List.length (firstn rl to_store) = rl) by (rewrite firstn_length; fold n; lia).
    assert (Lnext : List.length (skipn rl to_store) = (n - rl)%nat) by (rewrite skipn_length; reflexivity).
    assert (Lrr : List.length (remaining ++ firstn rl to_store) = (E + rl)%nat) by (rewrite app_length, Lfirst; reflexivity).
    rewrite Lrr in *.
    destruct fa as [|fa]; [unfold n, to_store in Hfa; cbn [List.length] in Hfa; lia|].
    set (fields := fsts val E to_store) in *.
    assert (Hfne : fields <> []) by (unfold fields, to_store; cbn [fsts]; discriminate).
    assert (Lfields : List.length fields = n) by apply fsts_length.
    set (P := Heap.pad 2 (Heap.lastn 2 fields) ++ [link]) in *.
    assert (Pre' : acq_ok (abs_heap F s) /\ chain_pre fa (Heap.butlastn 2 fields) (fst (Heap.alloc P (abs_heap F s))) (snd (Heap.alloc P (abs_heap F s)))).
    { cbn [chain_pre] in Pre. destruct fields; [contradiction|]. exact Pre. }
    destruct Pre' as [AOK Pre'].
    assert (Hres : res = Heap.store_other fa (Heap.butlastn 2 fields) (fst (Heap.alloc P (abs_heap F s))) (snd (Heap.alloc P (abs_heap F s))))
      by (unfold res; now rewrite store_other_step).
    assert (Hacq : acq = Heap.heap (abs_heap F s) ::
                     chain_acq fa (Heap.butlastn 2 fields) (fst (Heap.alloc P (abs_heap F s))) (snd (Heap.alloc P (abs_heap F s)))).
    { unfold acq. cbn [chain_acq]. destruct fields; [contradiction|]. reflexivity. }
    rewrite Hres. clear Hres res. rewrite Hacq in ND, Hdisj |- *. clear Hacq acq.
    rewrite !app_assoc in HC, HL. apply code_at_app2 in HC as [HC1 HC3]. apply labels_at_app2 in HL as [HL1 HL3].
    rewrite <- !app_assoc in HC1, HL1. rewrite <- (app_assoc c0 sv) in HC3, HL3.
    destruct (x86_store_block_full pos Other to_store remaining lc c0 sv s sp F val link ltac:(discriminate) Hc0 Hsv Hk HC1 HL1 FR V (fun _ => Hlink) AOK)
      as (s2 & ST2 & EQ2 & Rr & Bb & Oth & Out & FR2 & Erv & BW & LK & Fr2).
    specialize (LK eq_refl).
    change (N.to_nat (3 - bp_n Other)) with 2%nat in *. change (3 - bp_n Other)%N with 2%N in *. fold E n rl fields P in ST2, EQ2, Rr, Bb, Oth, Erv, BW.
    set (b := fst (Heap.alloc P (abs_heap F s))) in *. set (a1 := snd (Heap.alloc P (abs_heap F s))) in *.
    set (rv := Heap.heap (abs_heap F s)) in *. rewrite <- Erv in BW, LK, Fr2, ND, Hdisj |- *. clear Erv rv.
    assert (Hbut : Heap.butlastn 2 fields = fsts val E (firstn rl to_store)).
    { unfold Heap.butlastn. rewrite Lfields, fsts_firstn, Hrl. reflexivity. }
    rewrite Hbut in *.
    assert (V2 : vals_ok s2 sp val E (firstn rl to_store)).
    { intros i bb Hi. assert (Hi' : (i < rl)%nat) by (rewrite <- Lfirst; apply nth_error_Some; congruence).
      assert (Hin : nth_error to_store i = Some bb).
      { rewrite <- (firstn_skipn rl to_store). rewrite nth_error_app1 by (rewrite Lfirst; exact Hi'). exact Hi. }
      assert (Kmax : (2 * N.of_nat (E + i) + 1 < MAXPOS)%N) by lia.
      destruct (V i bb Hin) as [A B]. split.
      - rewrite Oth by lia. exact A.
      - intros Hx. rewrite Oth by lia. auto. }
    destruct (store_other_congr fa _ b a1 (abs_heap (Heap.frontier a1) s2) (st_eqB_sym _ _ EQ2) Pre') as (Pre2 & Ef & Es).
    pose proof (chain_acq_congr fa _ b a1 (abs_heap (Heap.frontier a1) s2) (st_eqB_sym _ _ EQ2) Pre') as Eacq.
    set (acq' := chain_acq fa (fsts val E (firstn rl to_store)) b a1) in *.
    (* the chain after this round *)
    assert (Hnin : ~ In b bl) by (apply Hdisj; left; reflexivity).
    assert (Hsame : forall x, In x bl -> forall i, 0 < i < 64 -> hword s2 (x + i) = hword s (x + i))
      by (apply (frame_blocks (hword s) (hword s2) b bl Fr2 Bb Hbl Hnin)).
    destruct (wchain_congr (hword s) (hword s2) kk link) as [EB2 _]; [intros y Hy; apply Hsame; [exact Hy|lia]|].
    assert (Hbl2 : wblocks (S kk) (hword s2) b = b :: bl) by (cbn [wblocks]; rewrite LK, EB2; reflexivity).
    assert (Ldone : List.length done = (2 * kk + 3)%nat) by (apply Hfull; discriminate).
    assert (CH2 : chain_holds (hword s2) val (E + rl) (skipn rl to_store ++ done) (S kk) b).
    { apply (chain_holds_ext _ _ _ _ _ _ link); [|exact Ldone|exact LK|exact BW|rewrite Lnext; lia].
      rewrite Lnext. replace (E + rl + (n - rl))%nat with (E + n)%nat by lia.
      eapply chain_holds_congr; [exact CH|exact Hsame]. }
    rewrite (app_assoc sv), (app_assoc c0).
    destruct (IH (firstn rl to_store) remaining _ c3 lc' _ s2 sp (Heap.frontier a1) val b fa (skipn rl to_store ++ done) (S kk) Hsf3
                ltac:(rewrite Lfirst; unfold n, to_store in *; cbn [List.length] in *; lia)
                ltac:(rewrite Lfirst; unfold n, to_store in *; cbn [List.length] in *; lia) HC3 HL3 FR2 V2)
      as (s3 & ST3 & EQ3 & R3 & Oth3 & Out3 & FR3 & WB3 & FB3 & CH3 & Fr3).
    { rewrite Lfirst. exact Rr. }
    { exact Pre2. }
    { fold E. rewrite <- Eacq. inversion ND; assumption. }
    { rewrite Hbl2. apply Forall_cons; [exact Bb|exact Hbl]. }
    { fold E. rewrite <- Eacq, Hbl2. intros y Hy [<-|Hin].
      - inversion ND; contradiction.
      - apply (Hdisj y); [right; exact Hy|exact Hin]. }
    { rewrite Lfirst. exact CH2. }
    { intros Hne'. rewrite app_length, Lnext, Ldone.
      assert (rl <> 0)%nat by (intros H0; rewrite H0 in Hne'; apply Hne'; reflexivity). lia. }
    fold E in EQ3, R3, Oth3, WB3, FB3, CH3, Fr3. rewrite <- Eacq, Hbl2 in WB3, FB3. rewrite <- Eacq in Fr3. rewrite Lfirst in WB3, CH3.
    assert (HK : (kk + nbo n = S kk + nbo rl)%nat) by (rewrite (nbo_step n Hn1), Hrl; lia).
    assert (Hrev : rev (b :: acq') ++ bl = rev acq' ++ b :: bl) by (cbn [rev]; now rewrite <- app_assoc).
    subst K. fold n.
    exists s3. split; [|split; [|split; [|split; [|split; [|split; [|split; [|split; [|split]]]]]]]].
    + eapply steps_app_len; eassumption.
    + destruct Es as (X1 & X2 & X3 & X4). rewrite X3.
      eapply st_eqB_trans; [exact EQ3|]. apply st_eqB_sym. split; [exact X1|]. split; [exact X2|]. split; [exact X3|exact X4].
    + rewrite Ef. exact R3.
    + intros k Hk'. rewrite Oth3 by exact Hk'. apply Oth; lia.
    + congruence.
    + exact FR3.
    + rewrite HK, Ef, Hrev. exact WB3.
    + rewrite Hrev. exact FB3.
    + rewrite HK, Ef. rewrite app_assoc, firstn_skipn in CH3. exact CH3.
    + intros a Ha Hout. rewrite Fr3; [apply Fr2; [exact Ha|apply Hout; left; reflexivity]|exact Ha|].
      intros y Hy. apply Hout. right. exact Hy.
Qed.

(* ---------- x_store of any number of variables = Heap.alloc_object, with words, chain and frame ---------- *)
Theorem x86_store_full pos to_store remaining lc cs lc' s sp F val :
  x_store to_store remaining lc = Ok (cs, lc') -> to_store <> [] ->
  code_at im pos cs -> labels_at im pos cs -> frame_ok s sp ->
  vals_ok s sp val (List.length remaining) to_store ->
  let E := List.length remaining in let n := List.length to_store in let k := Heap.nlinks n in
  let fields := fsts val E to_store in
  alloc_object_pre fields (abs_heap F s) ->
  NoDup (alloc_object_acq fields (abs_heap F s)) ->
  let res := Heap.alloc_object fields (abs_heap F s) in
  exists s', steps im pos s (pnth pos (List.length cs)) s' /\
    st_eqB (abs_heap (Heap.frontier (snd res)) s') (snd res) /\
    lget s' sp (tpos (2 * N.of_nat E)) = Some (fst res) /\
    (forall q, (q < 2 * N.of_nat E)%N -> lget s' sp (tpos q) = lget s sp (tpos q)) /\
    out s' = out s /\ frame_ok s' sp /\
    wblocks k (hword s') (fst res) = rev (alloc_object_acq fields (abs_heap F s)) /\
    Forall is_blk (wblocks k (hword s') (fst res)) /\
    (let A := waddrs k (hword s') (fst res) in
     (forall i b, nth_error to_store i = Some b ->
        let a := nth (List.length A - n + i) A 0 in
        hword s' a = fst_slot val (E + i) b /\ hword s' (a + 8) = snd_slot val (E + i)) /\
     (forall j, (j < List.length A - n)%nat -> hword s' (nth j A 0) = 0)) /\
    (forall a, ~ is_blk a -> (forall b, In b (alloc_object_acq fields (abs_heap F s)) -> a < b \/ b + 64 <= a) ->
       hword s' a = hword s a).
Proof.
  intros Hx Hne HC HL FR V E n k fields Pre ND res. unfold x_store in Hx. fold n in Hx.
  destruct (store_fields_unfold n to_store remaining Last lc cs lc' Hne Hx) as (c0 & sv & c3 & Hc0 & Hsv & Hk & Hsf3 & ->).
  change (3 - bp_n Last)%N with 3%N in *. fold n in Hk, Hsv, Hsf3, HC, HL |- *.
  set (rl := rest_len n 3) in *.
  assert (Hrl : rl = (n - 3)%nat) by apply rest_len_val.
  assert (Lfirst : List.length (firstn rl to_store) = rl) by (rewrite firstn_length; fold n; lia).
  assert (Lnext : List.length (skipn rl to_store) = (n - rl)%nat) by (rewrite skipn_length; reflexivity).
  assert (Hn : (1 <= n)%nat) by (unfold n; destruct to_store; [contradiction|cbn; lia]).
  assert (Lrr : List.length (remaining ++ firstn rl to_store) = (E + rl)%nat) by (rewrite app_length, Lfirst; reflexivity).
  rewrite Lrr in *.
  assert (Lfields : List.length fields = n) by apply fsts_length.
  assert (Hfne : fields <> []) by (intros Hf; rewrite Hf in Lfields; cbn in Lfields; lia).
  set (P := Heap.pad 3 (Heap.lastn 3 fields)) in *.
  assert (Pre' : acq_ok (abs_heap F s) /\ chain_pre n (Heap.butlastn 3 fields) (fst (Heap.alloc P (abs_heap F s))) (snd (Heap.alloc P (abs_heap F s)))).
  { unfold alloc_object_pre in Pre. rewrite Lfields in Pre. destruct fields; [contradiction|]. exact Pre. }
  destruct Pre' as [AOK Pre'].
  assert (Hres : res = Heap.store_other n (Heap.butlastn 3 fields) (fst (Heap.alloc P (abs_heap F s))) (snd (Heap.alloc P (abs_heap F s)))).
  { unfold res, Heap.alloc_object. rewrite Lfields. fold P. destruct fields; [contradiction|]. destruct (Heap.alloc P (abs_heap F s)). reflexivity. }
  assert (Hacq : alloc_object_acq fields (abs_heap F s) = Heap.heap (abs_heap F s) ::
                   chain_acq n (Heap.butlastn 3 fields) (fst (Heap.alloc P (abs_heap F s))) (snd (Heap.alloc P (abs_heap F s)))).
  { unfold alloc_object_acq. rewrite Lfields. fold P. destruct fields; [contradiction|]. reflexivity. }
  rewrite Hres. clear Hres res. rewrite Hacq in ND |- *. clear Hacq.
  rewrite !app_assoc in HC, HL. apply code_at_app2 in HC as [HC1 HC3]. apply labels_at_app2 in HL as [HL1 HL3].
  rewrite <- !app_assoc in HC1, HL1. rewrite <- (app_assoc c0 sv) in HC3, HL3.
  destruct (x86_store_block_full pos Last to_store remaining lc c0 sv s sp F val 0 Hne Hc0 Hsv Hk HC1 HL1 FR V ltac:(discriminate) AOK)
    as (s2 & ST2 & EQ2 & Rr & Bb & Oth & Out & FR2 & Erv & BW & _ & Fr2).
  change (N.to_nat (3 - bp_n Last)) with 3%nat in *. change (3 - bp_n Last)%N with 3%N in *. rewrite app_nil_r in *.
  fold E n rl fields P in ST2, EQ2, Rr, Bb, Oth, Erv, BW.
  set (b := fst (Heap.alloc P (abs_heap F s))) in *. set (a1 := snd (Heap.alloc P (abs_heap F s))) in *.
  set (rv := Heap.heap (abs_heap F s)) in *. rewrite <- Erv in BW, Fr2, ND |- *. clear Erv rv.
  assert (Hbut : Heap.butlastn 3 fields = fsts val E (firstn rl to_store)).
  { unfold Heap.butlastn. rewrite Lfields. unfold fields. rewrite fsts_firstn, Hrl. reflexivity. }
  rewrite Hbut in *.
  assert (V2 : vals_ok s2 sp val E (firstn rl to_store)).
  { intros i bb Hi. assert (Hi' : (i < rl)%nat) by (rewrite <- Lfirst; apply nth_error_Some; congruence).
    assert (Hin : nth_error to_store i = Some bb).
    { rewrite <- (firstn_skipn rl to_store). rewrite nth_error_app1 by (rewrite Lfirst; exact Hi'). exact Hi. }
    assert (Kmax : (2 * N.of_nat (E + i) + 1 < MAXPOS)%N) by lia.
    destruct (V i bb Hin) as [A B]. split.
    - rewrite Oth by lia. exact A.
    - intros Hx'. rewrite Oth by lia. auto. }
  destruct (store_other_congr n _ b a1 (abs_heap (Heap.frontier a1) s2) (st_eqB_sym _ _ EQ2) Pre') as (Pre2 & Ef & Es).
  pose proof (chain_acq_congr n _ b a1 (abs_heap (Heap.frontier a1) s2) (st_eqB_sym _ _ EQ2) Pre') as Eacq.
  set (acq' := chain_acq n (fsts val E (firstn rl to_store)) b a1) in *.
  assert (CH2 : chain_holds (hword s2) val (E + rl) (skipn rl to_store) 0 b)
    by (apply chain_holds_last; [exact BW|rewrite Lnext; lia]).
  rewrite (app_assoc sv), (app_assoc c0).
  destruct (x86_store_fields_other_full n (firstn rl to_store) remaining _ c3 lc' _ s2 sp (Heap.frontier a1) val b n (skipn rl to_store) 0 Hsf3
              ltac:(rewrite Lfirst; lia) ltac:(rewrite Lfirst; lia) HC3 HL3 FR2 V2)
    as (s3 & ST3 & EQ3 & R3 & Oth3 & Out3 & FR3 & WB3 & FB3 & CH3 & Fr3).
  { rewrite Lfirst. exact Rr. }
  { exact Pre2. }
  { fold E. rewrite <- Eacq. inversion ND; assumption. }
  { cbn [wblocks]. apply Forall_cons; [exact Bb|apply Forall_nil]. }
  { fold E. rewrite <- Eacq. cbn [wblocks]. intros y Hy [<-|[]]. inversion ND; contradiction. }
  { rewrite Lfirst. exact CH2. }
  { intros Hne'. rewrite Lnext.
    assert (rl <> 0)%nat by (intros H0; rewrite H0 in Hne'; apply Hne'; reflexivity). lia. }
  fold E in EQ3, R3, Oth3, WB3, FB3, CH3, Fr3. rewrite <- Eacq in WB3, FB3, Fr3. cbn [wblocks] in WB3, FB3.
  rewrite Lfirst in WB3, CH3. rewrite firstn_skipn in CH3. cbn [Nat.add] in WB3, CH3.
  assert (HK : k = nbo rl) by (unfold k; rewrite nlinks_nbo, Hrl; reflexivity).
  rewrite <- HK, <- Ef in WB3, CH3.
  assert (Hrev : rev (b :: acq') = rev acq' ++ [b]) by reflexivity.
  exists s3. split; [|split; [|split; [|split; [|split; [|split; [|split; [|split; [|split]]]]]]]].
  + eapply steps_app_len; eassumption.
  + destruct Es as (X1 & X2 & X3 & X4). rewrite X3.
    eapply st_eqB_trans; [exact EQ3|]. apply st_eqB_sym. split; [exact X1|]. split; [exact X2|]. split; [exact X3|exact X4].
  + rewrite Ef. exact R3.
  + intros q Hq. rewrite Oth3 by exact Hq. apply Oth; lia.
  + congruence.
  + exact FR3.
  + rewrite Hrev. exact WB3.
  + rewrite WB3. exact FB3.
  + destruct CH3 as (C1 & C2 & _). cbv zeta. fold n in C1, C2. split; [exact C1|exact C2].
  + intros a Ha Hout. rewrite Fr3; [apply Fr2; [exact Ha|apply Hout; left; reflexivity]|exact Ha|].
    intros y Hy. apply Hout. right. exact Hy.
Qed.
End Full.

Print Assumptions x86_store_full.
