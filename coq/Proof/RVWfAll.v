(* C14, RISC-V: EVERY instruction the code generator emits is well-formed, for every program inside the boolean guards
   of Sem/WfGuard64.v: [rv_compile_asm_wf] (Sem/RVWf.asm_wf cs = None) and [rv_compile_code_small].
   The body predicate is Sem/RVWf.instr_wf (registers x0..x31; ADDI / JALR / LW / SW 12-bit signed immediate; LI any
   64-bit value); a lemma `W (method ...)` for each method of rv_backend; the generic theorem
   Proof/CodegenForallLinP.v with the bounds 2048 (copies of one variable: `ADDI X1, X1, n`; from the capacity, tfp_cap)
   and 2^61 (xtors of a type: the offset 4k of the table dispatch is an ADDI immediate or, since the repair, an `LI`; a guard); the label theorems of Proof/LabelThms.v.  The back end has no spill slots and no routine
   wrapper in the instruction list; the offsets that occur are the field offsets 16..72 and 0. *)
From Coq Require Import List ZArith NArith String Ascii Bool Lia.
From SCC Require Import Base.Sexp Lang.AxSyn Lang.AxSize Model.ParMoves Model.Backend Model.Linearize Model.LinCheck Model.RV
  Model.SizeWf Sem.RVSem Sem.RVWf Sem.LabelGuard Sem.WfGuard Sem.WfGuard64 Generated.Constants
  Proof.LinBasics Proof.SubstGraph Proof.LabelStrings Proof.LabelGen Proof.LabelsRV Proof.LabelThms
  Proof.CodegenForallLin Proof.CodegenForallLinP Proof.RVSel Proof.RVSimAddr Proof.SizeCodegenWf Proof.SizeRV Proof.SubstBackends.
From SCC Require Proof.X86WfAll Proof.X86WfCor.
Import ListNotations.
Local Open Scope string_scope.
Local Open Scope list_scope.

Definition W (l : list rcode) : Prop := Forall (fun c => instr_wf c = true) l.
Lemma W_nil : W [].
Proof. constructor. Qed.
Lemma W_app a b : W a -> W b -> W (a ++ b).
Proof. intros A C. apply Forall_app. split; assumption. Qed.
Lemma W_forallb l : forallb instr_wf l = true -> W l.
Proof. intros H. apply Forall_forall. rewrite forallb_forall in H. exact H. Qed.
Lemma W_In l : W l -> forall c, In c l -> instr_wf c = true.
Proof. intros H. unfold W in H. rewrite Forall_forall in H. exact H. Qed.

Definition reg_enc (r : reg) : Prop := reg_ok r = true.

Lemma field_offset_ok n o : N.leb o FIELDS_PER_BLOCK = true -> simm12 (field_offset n o) = true.
Proof.
  intros H. apply N.leb_le in H. change FIELDS_PER_BLOCK with 3%N in H. unfold simm12, field_offset, address. change RVC.address1 with 8%Z.
  assert (0 <= Z.of_N (tnum_n n) <= 1)%Z by (destruct n; cbn; lia).
  apply andb_true_iff; split; apply Z.leb_le; lia.
Qed.
Lemma simm12_small i : (-2048 <= i <= 2047)%Z -> simm12 i = true.
Proof. intros H. unfold simm12. apply andb_true_iff; split; apply Z.leb_le; lia. Qed.

Ltac wf1 :=
  cbn [instr_wf]; unfold reg_enc in *;
  rewrite ?field_offset_ok by assumption;
  repeat match goal with H : ?x = true |- context [?x] => rewrite H end;
  try reflexivity; repeat (apply andb_true_iff; split); try reflexivity.
Ltac wf :=
  unfold W;
  repeat match goal with
  | |- Forall _ (_ ++ _) => apply Forall_app; split
  | |- Forall _ (_ :: _) => constructor
  | |- Forall _ [] => constructor
  end; try wf1.

Lemma reg_ZERO : reg_enc ZERO. Proof. reflexivity. Qed.
Lemma reg_TEMP : reg_enc TEMP. Proof. reflexivity. Qed.
Lemma reg_HEAP : reg_enc HEAP. Proof. reflexivity. Qed.
Lemma reg_FREE : reg_enc FREE. Proof. reflexivity. Qed.

(* ---------- code.rs ---------- *)
Lemma W_jcc s a b l : reg_enc a -> reg_enc b -> W [jcc s a b l].
Proof. intros A Bb. destruct s; cbn [jcc]; wf. Qed.
Lemma W_arith o t a b : reg_enc t -> reg_enc a -> reg_enc b -> W (r_arith o t a b).
Proof. intros T A Bb. destruct o; cbn [r_arith]; wf. Qed.
Lemma W_jump t : reg_enc t -> W (r_jump t).
Proof. intros T. unfold r_jump. wf. Qed.
Lemma W_jump_label l : W (r_jump_label l).
Proof. unfold r_jump_label. wf. Qed.
Lemma lit_imm64 i : lit64 i = true -> imm64 i = true.
Proof. intros H. exact H. Qed.
Lemma W_load_immediate t i : reg_enc t -> lit64 i = true -> W (r_load_immediate t i).
Proof. intros T L. apply lit_imm64 in L. unfold r_load_immediate. wf. Qed.
Lemma tag_lit64 k : (k < RV_XTORS_MAX)%N -> lit64 (jump_length k) = true.
Proof. unfold RV_XTORS_MAX, lit64, jump_length. intros H. apply andb_true_iff; split; apply Z.leb_le; lia. Qed.
Lemma W_load_label t l : reg_enc t -> W (r_load_label t l).
Proof. intros T. unfold r_load_label. wf. Qed.
(* the table dispatch of invoke: every 64-bit offset (repaired code; the old code only below 512 xtors) *)
Lemma W_add_and_jump_any t i : reg_enc t -> lit64 i = true -> W (r_add_and_jump t i).
Proof.
  intros T L. apply lit_imm64 in L. pose proof reg_TEMP as RT. unfold r_add_and_jump. destruct (addi_fits i) eqn:FI.
  - change (addi_fits i) with (simm12 i) in FI. wf.
  - wf.
Qed.
Lemma W_add_and_jump t k : reg_enc t -> (k < RV_XTORS_MAX)%N -> W (r_add_and_jump t (jump_length k)).
Proof. intros T K. apply W_add_and_jump_any; [exact T|apply tag_lit64; exact K]. Qed.
Lemma W_old_add_and_jump t k : reg_enc t -> (k < RV_OLD_XTORS_MAX)%N -> W (old_r_add_and_jump t (jump_length k)).
Proof.
  intros T K. assert (F : simm12 (jump_length k) = true) by (apply simm12_small; unfold RV_OLD_XTORS_MAX, jump_length in *; lia).
  unfold old_r_add_and_jump. wf.
Qed.
Lemma W_mov t s : reg_enc t -> reg_enc s -> W (r_mov t s).
Proof. intros T S. unfold r_mov. wf. Qed.

(* ---------- memory.rs ---------- *)
Lemma W_skip cond body lc : reg_enc cond -> W body -> W (fst (skip_if_zero cond body lc)).
Proof. intros T HB. unfold skip_if_zero. cbn [fst]. apply (W_app [_]); [wf|]. apply W_app; [exact HB|wf]. Qed.
Lemma W_ite r th el lc : reg_enc r -> W th -> W el -> W (fst (if_zero_then_else r th el lc)).
Proof.
  intros R H1 H2. unfold if_zero_then_else. cbn [fst].
  apply (W_app [_]); [wf|]. apply W_app; [exact H2|]. apply (W_app [_; _]); [wf|]. apply W_app; [exact H1|wf].
Qed.
Lemma W_erase t lc : reg_enc t -> W (fst (r_erase_block t lc)).
Proof.
  intros T. unfold r_erase_block.
  pose proof (W_ite TEMP [SW FREE t NEXT_ELEMENT_OFFSET; MV FREE t] [ADDI TEMP TEMP (-1); SW TEMP t REFERENCE_COUNT_OFFSET] lc reg_TEMP) as H.
  destruct (if_zero_then_else TEMP _ _ lc) as [c lc1]. cbn [fst] in H. apply W_skip; [exact T|].
  apply (W_app [_]); [wf|]. apply H; wf.
Qed.
Lemma W_share t n lc : reg_enc t -> (n < RV_SUBST_MAX)%N -> W (fst (r_share_block_n t n lc)).
Proof.
  intros T H. assert (F : simm12 (Z.of_N n) = true) by (apply simm12_small; unfold RV_SUBST_MAX in H; lia).
  unfold r_share_block_n. apply W_skip; [exact T|wf].
Qed.
Lemma In_nseq o n : In o (nseq 0 n) -> (o < n)%N.
Proof. unfold nseq. intros H. apply in_map_iff in H as (k & <- & H). apply in_seq in H. lia. Qed.
Lemma W_erase_fields_fold r t (R : reg_enc r) (T : reg_enc t) : forall l acc,
  (forall o, In o l -> N.leb o FIELDS_PER_BLOCK = true) -> W (fst acc) ->
  W (fst (fold_left (fun (acc : list rcode * N) (offset : N) =>
               let '(c, lc) := acc in
               let '(c1, lc1) := r_erase_block t lc in
               (c ++ [LW t r (field_offset Fst offset)] ++ c1, lc1)) l acc)).
Proof.
  induction l as [|o l IH]; intros [c lc] HO H; cbn [fold_left]; [exact H|]. apply IH; [intros; apply HO; right; assumption|].
  pose proof (W_erase t lc T) as H2. destruct (r_erase_block t lc) as [c1 lc1]. cbn [fst] in *.
  assert (O : N.leb o FIELDS_PER_BLOCK = true) by (apply HO; left; reflexivity).
  apply W_app; [exact H|]. apply W_app; [wf|exact H2].
Qed.
Lemma W_erase_fields r t lc : reg_enc r -> reg_enc t -> W (fst (erase_fields r t lc)).
Proof.
  intros R T. unfold erase_fields. apply (W_erase_fields_fold r t R T); [|exact W_nil].
  intros o H. apply In_nseq in H. apply N.leb_le. lia.
Qed.
Lemma fpb_ok : N.leb FIELDS_PER_BLOCK FIELDS_PER_BLOCK = true. Proof. reflexivity. Qed.
Lemma W_acquire t t2 lc : reg_enc t -> reg_enc t2 -> W (fst (acquire_block t t2 lc)).
Proof.
  intros T T2. unfold acquire_block.
  pose proof (W_erase_fields HEAP t2 lc reg_HEAP T2) as H1. destruct (erase_fields HEAP t2 lc) as [ef lc1]. cbn [fst] in H1.
  pose proof fpb_ok as FO.
  pose proof (W_ite FREE [ADDI FREE HEAP (field_offset Fst FIELDS_PER_BLOCK)]
                ([SW ZERO HEAP NEXT_ELEMENT_OFFSET] ++ ef) lc1 reg_FREE) as H2.
  destruct (if_zero_then_else FREE _ _ lc1) as [inner lc2]. cbn [fst] in H2.
  assert (H2' : W inner).
  { apply H2; [apply W_forallb; reflexivity|apply (W_app [_]); [wf|exact H1]]. }
  match goal with |- context [if_zero_then_else HEAP ?th ?el lc2] =>
    pose proof (W_ite HEAP th el lc2 reg_HEAP) as H3; destruct (if_zero_then_else HEAP th el lc2) as [outer lc3] end.
  cbn [fst] in *. apply (W_app [_; _]); [wf|].
  apply H3; [apply (W_app [_; _]); [wf|exact H2']|wf].
Qed.

Lemma tfp_enc p t : temporary_from_position p = Ok t -> reg_enc t.
Proof.
  unfold temporary_from_position. destruct (N.ltb (p + RESERVED) REGISTER_NUM) eqn:H; [|discriminate].
  intros E; inversion E; subst. exact H.
Qed.
Lemma fresh_enc n c t : r_fresh n c = Ok t -> reg_enc t.
Proof. apply tfp_enc. Qed.

Lemma W_store_field n c blk o code : reg_enc blk -> N.leb o FIELDS_PER_BLOCK = true -> store_field n c blk o = Ok code -> W code.
Proof. unfold store_field. intros R O H. rinv H. inversion H; subst. pose proof (fresh_enc _ _ _ E) as T. wf. Qed.
Lemma W_load_field n c blk o code : reg_enc blk -> N.leb o FIELDS_PER_BLOCK = true -> load_field n c blk o = Ok code -> W code.
Proof. unfold load_field. intros R O H. rinv H. inversion H; subst. pose proof (fresh_enc _ _ _ E) as T. wf. Qed.
Lemma W_store_zero blk o : reg_enc blk -> N.leb o FIELDS_PER_BLOCK = true -> W (store_zero blk o).
Proof. intros R O. unfold store_zero. wf. Qed.
Lemma W_store_value b rem blk o code : reg_enc blk -> N.leb o FIELDS_PER_BLOCK = true -> store_value b rem blk o = Ok code -> W code.
Proof.
  unfold store_value. intros R O H. rinv H. pose proof (W_store_field _ _ _ _ _ R O E) as N1. destruct (bchi b).
  - rinv H. inversion H; subst. apply W_app; [exact N1|exact (W_store_field _ _ _ _ _ R O E0)].
  - rinv H. inversion H; subst. apply W_app; [exact N1|exact (W_store_field _ _ _ _ _ R O E0)].
  - inversion H; subst. apply W_app; [exact N1|apply W_store_zero; assumption].
Qed.
Lemma leb_le_trans a b : (a <= b)%N -> N.leb b FIELDS_PER_BLOCK = true -> N.leb a FIELDS_PER_BLOCK = true.
Proof. intros H K. apply N.leb_le in K. apply N.leb_le. lia. Qed.
Lemma W_store_zeros n blk : reg_enc blk -> N.leb n FIELDS_PER_BLOCK = true -> W (store_zeros n blk).
Proof.
  intros R O. unfold store_zeros. apply Forall_forall. intros c Hc. apply in_flat_map in Hc as (o & Ho & Hc).
  apply In_nseq in Ho. assert (O2 : N.leb o FIELDS_PER_BLOCK = true) by (apply (leb_le_trans o n); [lia|exact O]).
  exact (W_In _ (W_store_zero blk o R O2) c Hc).
Qed.
Lemma W_store_values rem blk (R : reg_enc blk) : forall l ff code,
  N.leb ff FIELDS_PER_BLOCK = true -> store_values l rem blk ff = Ok code -> W code.
Proof.
  induction l as [|b l IH]; intros ff code O H; cbn [store_values] in H.
  - inversion H; subst. apply W_store_zeros; assumption.
  - rinv H. inversion H; subst. assert (O1 : N.leb (ff - 1) FIELDS_PER_BLOCK = true) by (apply (leb_le_trans _ ff); [lia|exact O]).
    apply W_app; [exact (W_store_value _ _ _ _ _ R O1 E)|exact (IH _ _ O1 E0)].
Qed.
Lemma W_load_value b ex blk o m lc c lc' : reg_enc blk -> N.leb o FIELDS_PER_BLOCK = true ->
  load_value b ex blk o m lc = Ok (c, lc') -> W c.
Proof.
  unfold load_value. intros R O H. rinv H. pose proof (W_load_field _ _ _ _ _ R O E) as N1.
  destruct (bchi b).
  1,2: rinv H; pose proof (W_load_field _ _ _ _ _ R O E0) as N2; destruct m.
  - inversion H; subst. apply W_app; assumption.
  - rinv H. pose proof (W_share x1 1 lc (fresh_enc _ _ _ E1) eq_refl) as S1. destruct (r_share_block_n x1 1 lc) as [c3 lc1].
    inversion H; subst. apply W_app; [exact N1|apply W_app; [exact N2|exact S1]].
  - inversion H; subst. apply W_app; assumption.
  - rinv H. pose proof (W_share x1 1 lc (fresh_enc _ _ _ E1) eq_refl) as S1. destruct (r_share_block_n x1 1 lc) as [c3 lc1].
    inversion H; subst. apply W_app; [exact N1|apply W_app; [exact N2|exact S1]].
  - inversion H; subst. exact N1.
Qed.
Lemma W_load_values ex blk m (R : reg_enc blk) : forall l ff lc c lc',
  N.leb ff FIELDS_PER_BLOCK = true -> load_values l ex blk ff m lc = Ok (c, lc') -> W c.
Proof.
  induction l as [|b l IH]; intros ff lc c lc' O H; cbn [load_values] in H.
  - inversion H; subst. exact W_nil.
  - rinv H. inversion H; subst. assert (O1 : N.leb (ff - 1) FIELDS_PER_BLOCK = true) by (apply (leb_le_trans _ ff); [lia|exact O]).
    apply W_app; [exact (W_load_value _ _ _ _ _ _ _ _ R O1 E)|exact (IH _ _ _ _ O1 E0)].
Qed.

Lemma cap_le bp : N.leb (FIELDS_PER_BLOCK - bp_n bp) FIELDS_PER_BLOCK = true.
Proof. destruct bp; reflexivity. Qed.
Lemma fpb1_le : N.leb (FIELDS_PER_BLOCK - 1) FIELDS_PER_BLOCK = true.
Proof. reflexivity. Qed.

Lemma W_store_fields : forall fuel to_store remaining bp lc c lc',
  store_fields fuel to_store remaining bp lc = Ok (c, lc') -> W c.
Proof.
  induction fuel as [|fuel IH]; intros to_store remaining bp lc c lc' H; cbn [store_fields] in H; [discriminate|].
  destruct to_store as [|b0 ts].
  - destruct bp; [rinv H|]; inversion H; subst; [|exact W_nil].
    pose proof (fresh_enc _ _ _ E) as T. wf.
  - rinv H. pose proof (W_acquire x1 x2 lc (fresh_enc _ _ _ E1) (fresh_enc _ _ _ E2)) as A.
    destruct (acquire_block x1 x2 lc) as [c2 lc2]. rinv H. inversion H; subst.
    cbn [fst] in A.
    assert (N0 : W x) by (destruct bp; [inversion E; exact W_nil|exact (W_store_field _ _ _ _ _ reg_HEAP fpb1_le E)]).
    apply W_app; [exact N0|]. apply W_app; [exact (W_store_values _ _ reg_HEAP _ _ _ (cap_le bp) E0)|].
    apply W_app; [exact A|exact (IH _ _ _ _ _ _ E3)].
Qed.
Lemma W_release m r : reg_enc r -> W (match m with Release => release_block r | Share => [] end).
Proof. intros R. destruct m; [unfold release_block; wf|exact W_nil]. Qed.
Lemma W_load_fields : forall fuel to_load existing bp m lc c lc',
  load_fields fuel to_load existing bp m lc = Ok (c, lc') -> W c.
Proof.
  induction fuel as [|fuel IH]; intros to_load existing bp m lc c lc' H; cbn [load_fields] in H; [discriminate|].
  destruct to_load as [|b0 tl].
  - inversion H; subst. exact W_nil.
  - rstep H. destruct x as [c0 lc0]. rinv H. pose proof (IH _ _ _ _ _ _ _ E) as I0.
    pose proof (fresh_enc _ _ _ E0) as TM. inversion H; subst.
    assert (N2 : W x0) by (destruct bp; [inversion E1; exact W_nil|exact (W_load_field _ _ _ _ _ TM fpb1_le E1)]).
    apply W_app; [exact I0|]. apply W_app; [apply W_release; exact TM|]. apply W_app; [exact N2|].
    exact (W_load_values _ _ _ TM _ _ _ _ _ (cap_le bp) E2).
Qed.
Lemma W_r_load to_load existing lc c lc' : r_load to_load existing lc = Ok (c, lc') -> W c.
Proof.
  unfold r_load. intros H. destruct to_load as [|b0 tl].
  - inversion H; subst. exact W_nil.
  - rinv H. pose proof (fresh_enc _ _ _ E) as T.
    pose proof (W_load_fields _ _ _ _ _ _ _ _ E0) as I1. pose proof (W_load_fields _ _ _ _ _ _ _ _ E1) as I2.
    match type of H with context [if_zero_then_else TEMP ?th ?el ?l] =>
      pose proof (W_ite TEMP th el l reg_TEMP I1) as K; destruct (if_zero_then_else TEMP th el l) as [cc l3] end.
    cbn [fst] in K. inversion H; subst. apply (W_app [_]); [wf|]. apply K. apply (W_app [_; _]); [wf|exact I2].
Qed.
Lemma W_r_store to_store remaining lc c lc' : r_store to_store remaining lc = Ok (c, lc') -> W c.
Proof. unfold r_store. apply W_store_fields. Qed.

(* ---------- every statement, every program ---------- *)
(* fewer than 28 positions have a register *)
Lemma tfp_cap q t : temporary_from_position q = Ok t -> (q < 2 * RV_SUBST_MAX)%N.
Proof.
  unfold temporary_from_position, RV_SUBST_MAX. change RESERVED with 4%N. change REGISTER_NUM with 32%N.
  destruct (N.ltb_spec (q + 4) 32); [intros _; lia|discriminate].
Qed.
Definition Lt (l : string) : Prop := True.

Lemma rv_translate_W types S defs lc code lc' :
  sg_types S = types -> xtors_le RV_XTORS_MAX types = true ->
  forallb (fun d => lin_check S (dctx d) (dbody d) && stmt_immP lit64 (dbody d)) defs = true ->
  translate rv_backend types defs lc = Ok (code, lc') -> W code.
Proof.
  intros <- XS G H.
  apply (translate_QLP rv_backend rv_backend_ok S RV_SUBST_MAX RV_XTORS_MAX lit64 reg_enc W Lt W_nil W_app)
    with (defs := defs) (lc := lc) (lc' := lc');
    cbn [rv_backend b_temporary_from_position b_temp b_return1 b_label b_mark b_jump b_jump_label b_jump_label_fixed
         b_jcc2 b_jcc1 b_load_immediate b_load_label b_add_and_jump b_arith b_mov b_print b_erase b_share_n b_store b_load
         b_store_temporary b_restore_temporary b_jump_length]; try assumption; try exact I.
  - exact tfp_enc.
  - exact reg_TEMP.
  - reflexivity.
  - intros l _. wf.
  - intros c. exact W_nil.
  - exact W_jump.
  - intros l _. apply W_jump_label.
  - intros l _. apply W_jump_label.
  - intros s a b l A Bb _. apply W_jcc; assumption.
  - intros s a l A _. apply W_jcc; [exact A|exact reg_ZERO].
  - exact W_load_immediate.
  - intros t k T K. apply W_load_immediate; [exact T|apply tag_lit64; exact K].
  - intros t l T _. apply W_load_label; exact T.
  - exact W_add_and_jump.
  - intros o t a b T A Bb _ _. apply W_arith; auto.
  - intros a A. apply W_arith; [exact reg_TEMP|exact reg_TEMP|exact A].
  - exact W_mov.
  - intros nl t c T. exact W_nil.
  - intros t l T. apply W_erase; exact T.
  - intros t n l T N. apply W_share; assumption.
  - intros a r l c l'. apply W_r_store.
  - intros a r l c l'. apply W_r_load.
  - intros t f T. pose proof reg_TEMP. wf.
  - intros t f T. pose proof reg_TEMP. wf.
  - intros k. exact I.
  - intros l ps _. exact I.
  - intros t xs k _. split; [exact I|intros; exact I].
  - exact tfp_cap.
  - intros d _. exact I.
Qed.

(* ---------- from the facts to asm_wf ---------- *)
Lemma mem_str_In x l : mem_str x l = true <-> In x l.
Proof.
  unfold mem_str. rewrite existsb_exists. split.
  - intros (y & I & E). apply String.eqb_eq in E. subst. exact I.
  - intros I. exists x. split; [exact I|apply String.eqb_refl].
Qed.
Lemma first_dup_NoDup l : NoDup l -> first_dup l = None.
Proof.
  induction l as [|x r IH]; intros N; [reflexivity|]. inversion N as [|? ? NI N']; subst. cbn [first_dup].
  destruct (mem_str x r) eqn:M; [apply mem_str_In in M; contradiction|]. exact (IH N').
Qed.
Lemma find_none_intro {X} (f : X -> bool) l : (forall x, In x l -> f x = false) -> find f l = None.
Proof.
  induction l as [|x l IH]; intros H; [reflexivity|]. cbn [find]. rewrite (H x (or_introl eq_refl)).
  apply IH. intros y Hy. apply H. right. exact Hy.
Qed.
Lemma asm_wf_intro cs :
  W cs -> NoDup ("cleanup" :: LabelGen.defs all_defs cs) ->
  incl (LabelGen.refs referenced cs) ("cleanup" :: LabelGen.defs all_defs cs) ->
  asm_wf cs = None.
Proof.
  intros HW ND RF. unfold asm_wf. change (defined_labels cs) with (LabelGen.defs all_defs cs).
  rewrite (first_dup_NoDup _ ND).
  rewrite find_none_intro.
  2:{ intros l Hl. apply negb_false_iff. apply mem_str_In. apply RF. exact Hl. }
  rewrite find_none_intro; [reflexivity|].
  intros c Hc. apply negb_false_iff. exact (W_In _ HW c Hc).
Qed.

Theorem rv_compile_asm_wf p lc cs n lc' :
  labels_guard p = true -> lin_check_prog p = true -> imm_guard_rv p = true ->
  rv_compile p lc = Ok (cs, n, lc') -> asm_wf cs = None.
Proof.
  intros G1 LIN IG H. pose proof (X86WfCor.lin_check_calls_guard p LIN) as G2.
  destruct (rv_routine_labels p lc cs n lc' G1 G2 H) as (ND & RF & _).
  apply asm_wf_intro; [|exact ND|exact RF].
  unfold rv_compile in H. destruct (prog_has_print p); [discriminate|].
  pose proof (X86WfAll.compile_translate _ _ _ _ _ _ H) as E0.
  unfold imm_guard_rv, imm_guardP in IG. apply andb_true_iff in IG as [IG XS].
  apply (rv_translate_W (ptypes p) (sigs_of p) (pdefs p) lc cs lc' eq_refl XS); [|exact E0].
  apply forallb_forall. intros d Hd. unfold lin_check_prog in LIN. rewrite forallb_forall in LIN, IG.
  specialize (LIN d Hd). specialize (IG d Hd). unfold lin_check_def in LIN. rewrite LIN, IG. reflexivity.
Qed.

(* ---------- code_small from the size bound of C19 ---------- *)
Lemma size_of_le cs : (size_of cs <= 32 * Z.of_N (AxSize.len cs))%Z.
Proof.
  unfold AxSize.len. induction cs as [|c cs IH]; [cbn; lia|]. cbn [size_of List.length].
  assert (isize c <= 32)%Z by (destruct c; cbn; try lia; destruct (fits12 _); [lia|destruct (fits32 _); lia]). lia.
Qed.
Lemma rv_K_59 : rv_K = 59%N.
Proof. reflexivity. Qed.
Theorem rv_compile_code_small p lc cs n lc' :
  lin_check_prog p = true -> size_guard p = true ->
  rv_compile p lc = Ok (cs, n, lc') -> code_small cs = true.
Proof.
  intros LIN SG H. pose proof (rv_compile_size p lc cs n lc' (lin_check_prog_sub_wf p LIN) H) as B.
  unfold rv_bound in B. rewrite rv_K_59 in B. unfold size_guard in SG. apply N.leb_le in SG. unfold SIZE_MAX in SG.
  apply Z.ltb_lt. pose proof (size_of_le cs). unfold CODE_BASE. lia.
Qed.
