(* Facts about the two typing disciplines:
   - `ax_check` depends on the context only through the lookups of the free variables
     (`ax_check_ext`) and is stable under the renamings `Create` performs (`ax_check_rename`);
   - `lin_wt`, the ordered linear discipline as an inductive predicate, and soundness of the
     boolean checker `lin_check`. *)
From Coq Require Import String List ZArith NArith Bool Lia Permutation.
From SCC Require Import Base.Sexp Lang.AxSyn Model.Linearize Model.LinCheck Proof.LinBasics.
Import ListNotations.
Open Scope list_scope.
Open Scope N_scope.

Lemma forallb_eq : forall {A} (f g : A -> bool) l, (forall x, In x l -> f x = g x) -> forallb f l = forallb g l.
Proof.
  induction l as [|x l IH]; intros H; simpl; auto.
  rewrite (H x) by (simpl; auto). rewrite IH; auto. intros; apply H; simpl; auto.
Qed.

Lemma has_b_lookup : forall c c' b,
  lookup_b c (idn (bvar b)) = lookup_b c' (idn (bvar b)) -> has_b c b = has_b c' b.
Proof. intros; unfold has_b; apply has_ext_lookup; auto. Qed.

(* ---------- ax_check sees the context only through the free variables ---------- *)
Theorem ax_check_ext : forall S s c c',
  (forall x, In x (fv s) -> lookup_b c x = lookup_b c' x) -> ax_check S c s = ax_check S c' s.
Proof.
  intros S s; induction s using stmt_ind2; intros c c' Hfv.
  - reflexivity.
  - simpl. destruct (lookup_label S l); auto. f_equal.
    apply forallb_eq. intros b Hb. apply has_b_lookup. apply Hfv. simpl.
    apply union_In. left. apply In_ids; auto.
  - simpl. f_equal; [f_equal|].
    + apply forallb_eq. intros b Hb. apply has_b_lookup. apply Hfv. simpl.
      apply union_In. left. apply In_ids; auto.
    + apply IHs. intros x Hx. rewrite !lookup_b_cons. simpl.
      destruct (N.eqb (idn v) x) eqn:E; auto. apply N.eqb_neq in E.
      apply Hfv. simpl. apply union_In. right. apply remove_In. split; auto.
  - rewrite !ax_check_switch. f_equal; [f_equal|].
    + apply has_ext_lookup. apply Hfv. rewrite fv_switch. apply add_In; auto.
    + unfold ax_clauses. apply forallb_eq. intros cl Hcl.
      rewrite Forall_forall in H. apply H; auto.
      intros x Hx. rewrite !lookup_b_app.
      destruct (lookup_b (cl_ctx cl) x) eqn:E; auto.
      apply Hfv. rewrite fv_switch. apply add_In. right. apply fv_clauses_In.
      exists cl. repeat split; auto. apply lookup_b_None; auto.
  - rewrite !ax_check_create. f_equal; [f_equal|].
    + unfold ax_clauses. apply forallb_eq. intros cl Hcl.
      rewrite Forall_forall in H. apply H; auto.
      intros x Hx. rewrite !lookup_b_app.
      destruct (lookup_b (cl_ctx cl) x) eqn:E; auto.
      apply Hfv. rewrite fv_create. apply union_In. left. apply fv_clauses_In.
      exists cl. repeat split; auto. apply lookup_b_None; auto.
    + apply IHs. intros x Hx. rewrite !lookup_b_cons. simpl.
      destruct (N.eqb (idn v) x) eqn:E; auto. apply N.eqb_neq in E.
      apply Hfv. rewrite fv_create. apply union_In. right. apply remove_In. split; auto.
  - simpl. f_equal; [f_equal|].
    + apply has_ext_lookup. apply Hfv. simpl. apply add_In; auto.
    + apply forallb_eq. intros b Hb. apply has_b_lookup. apply Hfv. simpl.
      apply add_In. right. apply union_In. left. apply In_ids; auto.
  - simpl. apply IHs. intros x Hx. rewrite !lookup_b_cons. simpl.
    destruct (N.eqb (idn v) x) eqn:E; auto. apply N.eqb_neq in E.
    apply Hfv. simpl. apply remove_In. split; auto.
  - simpl. f_equal; [f_equal|].
    + apply has_ext_lookup. apply Hfv. simpl. apply add_In. right. apply add_In. auto.
    + apply has_ext_lookup. apply Hfv. simpl. apply add_In. auto.
    + apply IHs. intros x Hx. rewrite !lookup_b_cons. simpl.
      destruct (N.eqb (idn v) x) eqn:E; auto. apply N.eqb_neq in E.
      apply Hfv. simpl. apply add_In. right. apply add_In. right. apply remove_In. split; auto.
  - simpl. f_equal.
    + apply has_ext_lookup. apply Hfv. simpl. apply add_In; auto.
    + apply IHs. intros x Hx. apply Hfv. simpl. apply add_In; auto.
  - simpl. destruct b as [b|]; simpl.
    + f_equal; [f_equal; [f_equal|]|].
      * apply has_ext_lookup. apply Hfv. apply add_In. right. apply add_In. auto.
      * apply has_ext_lookup. apply Hfv. apply add_In. auto.
      * apply IHs1. intros x Hx. apply Hfv. apply add_In. right. apply add_In. right. apply union_In. auto.
      * apply IHs2. intros x Hx. apply Hfv. apply add_In. right. apply add_In. right. apply union_In. auto.
    + f_equal; [f_equal; [f_equal|]|].
      * apply has_ext_lookup. apply Hfv. apply add_In. auto.
      * apply IHs1. intros x Hx. apply Hfv. apply add_In. right. apply union_In. auto.
      * apply IHs2. intros x Hx. apply Hfv. apply add_In. right. apply union_In. auto.
  - simpl. apply has_ext_lookup. apply Hfv. simpl; auto.
Qed.

(* ---------- renaming ---------- *)
Definition sub_n (su : list (N * ident)) (n : N) : N :=
  match find (fun p => N.eqb (fst p) n) su with Some p => idn (snd p) | None => n end.
Lemma sub_id_n : forall su x, idn (sub_id su x) = sub_n su (idn x).
Proof. intros; unfold sub_id, sub_n. destruct (find _ su); auto. Qed.
Lemma sub_n_notin : forall su n, ~ In n (map fst su) -> sub_n su n = n.
Proof.
  intros su n H; unfold sub_n. destruct (find _ su) as [p|] eqn:E; auto.
  apply find_some in E. destruct E as [E1 E2]. apply N.eqb_eq in E2.
  exfalso; apply H. apply in_map_iff. exists p; auto.
Qed.
Lemma sub_n_range : forall su n, sub_n su n = n \/ In (sub_n su n) (map (fun p => idn (snd p)) su).
Proof.
  intros su n; unfold sub_n. destruct (find _ su) as [p|] eqn:E; auto.
  apply find_some in E. destruct E as [E1 E2]. right. apply in_map_iff. exists p; auto.
Qed.

Lemma sub_s_switch : forall su v t cls,
  sub_s su (Switch v t cls) =
  Switch (sub_id su v) t (map (fun c => (cl_xtor c, cl_ctx c, sub_s su (cl_body c))) cls).
Proof.
  intros; simpl. f_equal. induction cls as [|[[x cc] b] r IH]; simpl; auto.
  unfold cl_xtor, cl_ctx, cl_body; simpl. f_equal; auto.
Qed.
Lemma sub_s_create : forall su v t e cls next,
  sub_s su (Create v t e cls next) =
  Create v t (option_map (map (sub_b su)) e)
         (map (fun c => (cl_xtor c, cl_ctx c, sub_s su (cl_body c))) cls) (sub_s su next).
Proof.
  intros; simpl. f_equal. induction cls as [|[[x cc] b] r IH]; simpl; auto.
  unfold cl_xtor, cl_ctx, cl_body; simpl. f_equal; auto.
Qed.

Lemma cls_sig_map : forall (f : clause -> stmt) cls xs,
  cls_sig (map (fun c => (cl_xtor c, cl_ctx c, f c)) cls) xs = cls_sig cls xs.
Proof.
  induction cls as [|c r IH]; intros [|x xs]; simpl; auto.
  unfold cl_xtor, cl_ctx; simpl. rewrite IH; auto.
Qed.
Lemma cls_ok_map : forall S t (f : clause -> stmt) cls,
  cls_ok S t (map (fun c => (cl_xtor c, cl_ctx c, f c)) cls) = cls_ok S t cls.
Proof. intros; unfold cls_ok. destruct (type_xtors S t); auto. apply cls_sig_map. Qed.

Lemma sig_match_sub : forall su a s, sig_match (map (sub_b su) a) s = sig_match a s.
Proof. induction a as [|x a IH]; intros [|y s]; simpl; auto. rewrite IH; auto. Qed.
Lemma args_ok_sub : forall S t tag su a, args_ok S t tag (map (sub_b su) a) = args_ok S t tag a.
Proof. intros; unfold args_ok. destruct (lookup_xtor S t tag); auto. apply sig_match_sub. Qed.

(* binders / size are untouched by renaming, for statements without explicit substitutions *)
Lemma has_subst_switch : forall v t cls,
  has_subst (Switch v t cls) = existsb (fun c => has_subst (cl_body c)) cls.
Proof.
  intros; simpl. induction cls as [|[[x cc] b] r IH]; simpl; auto. rewrite IH; auto.
Qed.
Lemma has_subst_create : forall v t e cls next,
  has_subst (Create v t e cls next) = existsb (fun c => has_subst (cl_body c)) cls || has_subst next.
Proof.
  intros; simpl. f_equal. induction cls as [|[[x cc] b] r IH]; simpl; auto. rewrite IH; auto.
Qed.
Lemma binders_cls_sub : forall su cls,
  Forall (fun c => has_subst (cl_body c) = false -> binders (sub_s su (cl_body c)) = binders (cl_body c)) cls ->
  existsb (fun c => has_subst (cl_body c)) cls = false ->
  binders_cls (map (fun c => (cl_xtor c, cl_ctx c, sub_s su (cl_body c))) cls) = binders_cls cls.
Proof.
  induction cls as [|c r IH]; intros HF He; simpl in *; auto.
  inversion HF; subst. apply orb_false_iff in He. destruct He as [He1 He2].
  unfold cl_ctx at 1, cl_body at 1; simpl. rewrite H1, IH; auto.
Qed.
Lemma binders_sub : forall su s, has_subst s = false -> binders (sub_s su s) = binders s.
Proof.
  intros su s; induction s using stmt_ind2; intros Hs.
  - discriminate.
  - reflexivity.
  - simpl in *. rewrite IHs; auto.
  - rewrite sub_s_switch, !binders_switch. rewrite has_subst_switch in Hs. apply binders_cls_sub; auto.
  - rewrite sub_s_create, !binders_create. rewrite has_subst_create in Hs.
    apply orb_false_iff in Hs. destruct Hs as [Hs1 Hs2].
    rewrite IHs, binders_cls_sub; auto.
  - reflexivity.
  - simpl in *. rewrite IHs; auto.
  - simpl in *. rewrite IHs; auto.
  - simpl in *. rewrite IHs; auto.
  - simpl in *. apply orb_false_iff in Hs. destruct Hs. rewrite IHs1, IHs2; auto.
  - reflexivity.
Qed.

Lemma size_cls_sub : forall su cls,
  Forall (fun c => stmt_size (sub_s su (cl_body c)) = stmt_size (cl_body c)) cls ->
  size_cls (map (fun c => (cl_xtor c, cl_ctx c, sub_s su (cl_body c))) cls) = size_cls cls.
Proof.
  induction cls as [|c r IH]; intros HF; simpl; auto. inversion HF; subst.
  change (cl_body (cl_xtor c, cl_ctx c, sub_s su (cl_body c))) with (sub_s su (cl_body c)).
  rewrite H1, IH; auto.
Qed.
Lemma size_sub : forall su s, stmt_size (sub_s su s) = stmt_size s.
Proof.
  intros su s; induction s using stmt_ind2.
  - simpl. rewrite IHs; auto.
  - reflexivity.
  - simpl. rewrite IHs; auto.
  - rewrite sub_s_switch, !size_switch, size_cls_sub; auto.
  - rewrite sub_s_create, !size_create, size_cls_sub, IHs; auto.
  - reflexivity.
  - simpl. rewrite IHs; auto.
  - simpl. rewrite IHs; auto.
  - simpl. rewrite IHs; auto.
  - simpl. rewrite IHs1, IHs2; auto.
  - reflexivity.
Qed.

Lemma ax_check_no_subst : forall S s c, ax_check S c s = true -> has_subst s = false.
Proof.
  intros S s; induction s using stmt_ind2; intros c Hc.
  - discriminate.
  - reflexivity.
  - simpl in *. btrue. eauto.
  - rewrite ax_check_switch in Hc. rewrite has_subst_switch. btrue.
    unfold ax_clauses in H1. rewrite forallb_forall in H1. rewrite Forall_forall in H.
    destruct (existsb (fun c0 => has_subst (cl_body c0)) cls) eqn:E; auto.
    apply existsb_exists in E. destruct E as [cl [E1 E2]].
    rewrite (H cl E1 _ (H1 cl E1)) in E2. discriminate.
  - rewrite ax_check_create in Hc. rewrite has_subst_create. btrue. rewrite (IHs _ H1), orb_false_r.
    unfold ax_clauses in H2. rewrite forallb_forall in H2. rewrite Forall_forall in H.
    destruct (existsb (fun c0 => has_subst (cl_body c0)) cls) eqn:E; auto.
    apply existsb_exists in E. destruct E as [cl [E1 E2]].
    rewrite (H cl E1 _ (H2 cl E1)) in E2. discriminate.
  - reflexivity.
  - simpl in *. eauto.
  - simpl in *. btrue. eauto.
  - simpl in *. btrue. eauto.
  - simpl in *. btrue. rewrite (IHs1 _ H1), (IHs2 _ H0). auto.
  - reflexivity.
Qed.

(* the relation between the context of a statement and the context of its renamed version *)
Definition ren_rel (su : list (N * ident)) (F : list N) (c c' : ctx) : Prop :=
  forall n b, In n F -> lookup_b c n = Some b ->
    exists b', lookup_b c' (sub_n su n) = Some b' /\ bchi b' = bchi b /\ bty b' = bty b.

Lemma ren_has : forall su F c c' x k t,
  ren_rel su F c c' -> In (idn x) F -> has c x k t = true -> has c' (sub_id su x) k t = true.
Proof.
  unfold has; intros su F c c' x k t R Hx H.
  destruct (lookup_b c (idn x)) as [b|] eqn:E; try discriminate.
  destruct (R _ _ Hx E) as [b' [E1 [E2 E3]]].
  rewrite sub_id_n, E1, E2, E3. auto.
Qed.
Lemma ren_has_args : forall su F c c' args,
  ren_rel su F c c' -> (forall b, In b args -> In (idn (bvar b)) F) ->
  forallb (has_b c) args = true -> forallb (has_b c') (map (sub_b su) args) = true.
Proof.
  intros su F c c' args R HF H. rewrite forallb_forall in *. intros b' Hb'.
  apply in_map_iff in Hb'. destruct Hb' as [b [<- Hb]].
  unfold has_b, sub_b; simpl. eapply ren_has; eauto; apply H; auto.
Qed.
(* going under binders that the renaming neither maps nor produces *)
Lemma ren_rel_under : forall su F F' bs c c',
  ren_rel su F c c' ->
  (forall x, In x (ids bs) -> ~ In x (map fst su) /\ ~ In x (map (fun p => idn (snd p)) su)) ->
  (forall n, In n F' -> In n (ids bs) \/ In n F) ->
  ren_rel su F' (bs ++ c) (bs ++ c').
Proof.
  unfold ren_rel; intros su F F' bs c c' R Hbs HF n b Hn Hl.
  rewrite lookup_b_app in Hl.
  destruct (lookup_b bs n) as [b0|] eqn:E.
  - inversion Hl; subst b0. assert (Hin : In n (ids bs)).
    { apply lookup_b_Some in E. destruct E as [E1 E2]. subst; apply In_ids; auto. }
    rewrite sub_n_notin by (apply Hbs; auto).
    exists b. rewrite lookup_b_app, E. auto.
  - assert (Hnb : ~ In n (ids bs)) by (apply lookup_b_None; auto).
    destruct (HF _ Hn) as [?|HnF]; [tauto|].
    destruct (R _ _ HnF Hl) as [b' [E1 E2]].
    exists b'. split; auto. rewrite lookup_b_app.
    assert (Hs : lookup_b bs (sub_n su n) = None).
    { apply lookup_b_None. intros Hin. destruct (sub_n_range su n) as [Heq|Hr].
      - rewrite Heq in Hin. tauto.
      - apply Hbs in Hin. tauto. }
    rewrite Hs; auto.
Qed.

Theorem ax_check_rename : forall S su s c c',
  ax_check S c s = true ->
  (forall x, In x (binders s) -> ~ In x (map fst su) /\ ~ In x (map (fun p => idn (snd p)) su)) ->
  ren_rel su (fv s) c c' ->
  ax_check S c' (sub_s su s) = true.
Proof.
  intros S su s; induction s using stmt_ind2; intros c c' Hc Hb R.
  - discriminate.
  - simpl in *. destruct (lookup_label S l); try discriminate. btrue.
    + rewrite sig_match_sub; auto.
    + eapply ren_has_args; eauto. intros b Hb'. apply union_In. left. apply In_ids; auto.
  - simpl in *. btrue.
    + rewrite args_ok_sub; auto.
    + eapply ren_has_args; eauto. intros b Hb'. apply union_In. left. apply In_ids; auto.
    + eapply IHs; [eassumption| |].
      * intros x Hx. apply Hb. auto.
      * apply (ren_rel_under su _ _ [mkb v Prd t] c c' R).
        -- intros x [<-|[]]. apply Hb. simpl; auto.
        -- intros n Hn. simpl. destruct (N.eq_dec (idn v) n); auto.
           right. apply union_In. right. apply remove_In. auto.
  - rewrite sub_s_switch. rewrite ax_check_switch in *. rewrite binders_switch in Hb. btrue.
    + eapply ren_has; eauto. rewrite fv_switch. apply add_In; auto.
    + rewrite cls_ok_map; auto.
    + unfold ax_clauses in *. rewrite forallb_forall in *. intros cl' Hcl'.
      apply in_map_iff in Hcl'. destruct Hcl' as [cl [<- Hcl]].
      change (cl_ctx (cl_xtor cl, cl_ctx cl, sub_s su (cl_body cl))) with (cl_ctx cl).
      change (cl_body (cl_xtor cl, cl_ctx cl, sub_s su (cl_body cl))) with (sub_s su (cl_body cl)).
      rewrite Forall_forall in H. eapply (H cl Hcl (cl_ctx cl ++ c)); [solve [auto]| |].
      * intros x Hx. apply Hb. eapply binders_cls_In; eauto. apply in_or_app; auto.
      * apply (ren_rel_under su _ _ (cl_ctx cl) c c' R).
        -- intros x Hx. apply Hb. eapply binders_cls_In; eauto. apply in_or_app; auto.
        -- intros n Hn. destruct (in_dec N.eq_dec n (ids (cl_ctx cl))); auto.
           right. rewrite fv_switch. apply add_In. right. apply fv_clauses_In. exists cl; auto.
  - rewrite sub_s_create. rewrite ax_check_create in *. rewrite binders_create in Hb. btrue.
    + rewrite cls_ok_map; auto.
    + unfold ax_clauses in *. rewrite forallb_forall in *. intros cl' Hcl'.
      apply in_map_iff in Hcl'. destruct Hcl' as [cl [<- Hcl]].
      change (cl_ctx (cl_xtor cl, cl_ctx cl, sub_s su (cl_body cl))) with (cl_ctx cl).
      change (cl_body (cl_xtor cl, cl_ctx cl, sub_s su (cl_body cl))) with (sub_s su (cl_body cl)).
      rewrite Forall_forall in H. eapply (H cl Hcl (cl_ctx cl ++ c)); [solve [auto]| |].
      * intros x Hx. apply Hb. right. apply in_or_app. left.
        eapply binders_cls_In; eauto. apply in_or_app; auto.
      * apply (ren_rel_under su _ _ (cl_ctx cl) c c' R).
        -- intros x Hx. apply Hb. right. apply in_or_app. left.
           eapply binders_cls_In; eauto. apply in_or_app; auto.
        -- intros n Hn. destruct (in_dec N.eq_dec n (ids (cl_ctx cl))); auto.
           right. rewrite fv_create. apply union_In. left. apply fv_clauses_In. exists cl; auto.
    + eapply IHs; [eassumption| |].
      * intros x Hx. apply Hb. right. apply in_or_app; auto.
      * apply (ren_rel_under su _ _ [mkb v Cns t] c c' R).
        -- intros x [<-|[]]. apply Hb. simpl; auto.
        -- intros n Hn. destruct (N.eq_dec (idn v) n); [left; simpl; auto|].
           right. rewrite fv_create. apply union_In. right. apply remove_In. auto.
  - simpl in *. btrue.
    + eapply ren_has; eauto. apply add_In; auto.
    + rewrite args_ok_sub; auto.
    + eapply ren_has_args; eauto. intros b Hb'. apply add_In. right. apply union_In. left. apply In_ids; auto.
  - simpl in *. eapply IHs; [eassumption| |].
    + intros x Hx. apply Hb. auto.
    + apply (ren_rel_under su _ _ [mkb v Ext I64] c c' R).
      * intros x [<-|[]]. apply Hb. simpl; auto.
      * intros k Hk. simpl. destruct (N.eq_dec (idn v) k); auto.
        right. apply remove_In. auto.
  - simpl in *. btrue.
    + eapply ren_has; eauto. apply add_In. right. apply add_In. auto.
    + eapply ren_has; eauto. apply add_In. auto.
    + eapply IHs; [eassumption| |].
      * intros x Hx. apply Hb. auto.
      * apply (ren_rel_under su _ _ [mkb v Ext I64] c c' R).
        -- intros x [<-|[]]. apply Hb. simpl; auto.
        -- intros n Hn. simpl. destruct (N.eq_dec (idn v) n); auto.
           right. apply add_In. right. apply add_In. right. apply remove_In. auto.
  - simpl in *. btrue.
    + eapply ren_has; eauto. apply add_In. auto.
    + eapply IHs; [eassumption|auto|]. intros n b Hn. apply R. apply add_In; auto.
  - simpl in Hc, Hb. simpl sub_s. simpl ax_check. destruct b as [b|]; simpl in *; btrue.
    + eapply ren_has; eauto. apply add_In. right. apply add_In. auto.
    + eapply ren_has; eauto. apply add_In. auto.
    + eapply IHs1; [eassumption| |].
      * intros x Hx. apply Hb. apply in_or_app; auto.
      * intros n b' Hn. apply R. apply add_In. right. apply add_In. right. apply union_In. auto.
    + eapply IHs2; [eassumption| |].
      * intros x Hx. apply Hb. apply in_or_app; auto.
      * intros n b' Hn. apply R. apply add_In. right. apply add_In. right. apply union_In. auto.
    + eapply ren_has; eauto. apply add_In. auto.
    + auto.
    + eapply IHs1; [eassumption| |].
      * intros x Hx. apply Hb. apply in_or_app; auto.
      * intros n b' Hn. apply R. apply add_In. right. apply union_In. auto.
    + eapply IHs2; [eassumption| |].
      * intros x Hx. apply Hb. apply in_or_app; auto.
      * intros n b' Hn. apply R. apply add_In. right. apply union_In. auto.
  - simpl in *. eapply ren_has; eauto. simpl; auto.
Qed.

(* ---------- the ordered linear discipline as a predicate ---------- *)
Definition src_ok (c : ctx) (p : binding * ident) : Prop :=
  exists b, lookup_b c (idn (snd p)) = Some b /\ bchi b = bchi (fst p) /\ bty b = bty (fst p).
Definition ext_in (c : ctx) (x : ident) : Prop :=
  exists b, lookup_b c (idn x) = Some b /\ bchi b = Ext /\ bty b = I64.
Definition clauses_sig (cls : list clause) (xs : list xtorsig) : Prop :=
  Forall2 (fun cl x => cl_xtor cl = xname x /\ same_kt (cl_ctx cl) (xargs x)) cls xs.

Inductive lin_wt (S : sigs) : ctx -> stmt -> Prop :=
| LW_Substitute : forall c re next,
    NoDup (ids c) -> Forall (src_ok c) re -> lin_wt S (map fst re) next ->
    lin_wt S c (Substitute re next)
| LW_Call : forall c l args ps,
    NoDup (ids c) -> lookup_label S l = Some ps -> same_kt c ps ->
    lin_wt S c (Call l args)
| LW_Let : forall c0 tl v t tag args sg next,
    NoDup (ids (c0 ++ tl)) -> ids tl = ids args -> same_kt tl args ->
    lookup_xtor S t tag = Some sg -> same_kt args sg ->
    lin_wt S (c0 ++ [mkb v Prd t]) next ->
    lin_wt S (c0 ++ tl) (Let v t tag args next)
| LW_Switch : forall c0 b v t cls xs,
    NoDup (ids (c0 ++ [b])) -> idn (bvar b) = idn v -> bchi b = Prd -> bty b = t ->
    type_xtors S t = Some xs -> clauses_sig cls xs ->
    Forall (fun cl => lin_wt S (c0 ++ cl_ctx cl) (cl_body cl)) cls ->
    lin_wt S (c0 ++ [b]) (Switch v t cls)
| LW_Create : forall c0 tl v t env cls xs next,
    NoDup (ids (c0 ++ tl)) -> ids tl = ids env -> same_kt tl env ->
    type_xtors S t = Some xs -> clauses_sig cls xs ->
    Forall (fun cl => lin_wt S (cl_ctx cl ++ env) (cl_body cl)) cls ->
    lin_wt S (c0 ++ [mkb v Cns t]) next ->
    lin_wt S (c0 ++ tl) (Create v t (Some env) cls next)
| LW_Invoke : forall c0 b v tag t args sg,
    NoDup (ids (c0 ++ [b])) -> idn (bvar b) = idn v -> bchi b = Cns -> bty b = t ->
    lookup_xtor S t tag = Some sg -> same_kt c0 sg ->
    lin_wt S (c0 ++ [b]) (Invoke v tag t args)
| LW_Literal : forall c n v next,
    NoDup (ids c) -> lin_wt S (c ++ [mkb v Ext I64]) next -> lin_wt S c (Literal n v next)
| LW_Op : forall c a o b v next,
    NoDup (ids c) -> ext_in c a -> ext_in c b -> lin_wt S (c ++ [mkb v Ext I64]) next ->
    lin_wt S c (Op a o b v next)
| LW_Print : forall c nl v next,
    NoDup (ids c) -> ext_in c v -> lin_wt S c next -> lin_wt S c (PrintI64 nl v next)
| LW_IfC : forall c so a b t e,
    NoDup (ids c) -> ext_in c a -> match b with Some b => ext_in c b | None => True end ->
    lin_wt S c t -> lin_wt S c e -> lin_wt S c (IfC so a b t e)
| LW_Exit : forall c v, NoDup (ids c) -> ext_in c v -> lin_wt S c (Exit v).

Lemma has_Prop : forall c x k t, has c x k t = true ->
  exists b, lookup_b c (idn x) = Some b /\ bchi b = k /\ bty b = t.
Proof.
  unfold has; intros c x k t H. destruct (lookup_b c (idn x)) as [b|]; try discriminate.
  btrue. apply chi_eqb_eq in H. apply ty_eqb_eq in H0. eauto.
Qed.
Lemma ctx_match_Prop : forall a b, ctx_match a b = true -> ids a = ids b /\ same_kt a b.
Proof.
  induction a as [|x a IH]; intros [|y b] H; simpl in *; try discriminate.
  - split; [auto|constructor].
  - btrue. apply N.eqb_eq in H. apply kt_eqb_eq in H1. apply IH in H0. destruct H0.
    split; [congruence|constructor; auto].
Qed.
Lemma cls_sig_Prop : forall cls xs, cls_sig cls xs = true -> clauses_sig cls xs.
Proof.
  induction cls as [|c r IH]; intros [|x xs] H; simpl in *; try discriminate; constructor.
  - btrue. apply ident_eqb_eq in H. apply sig_match_iff in H1. auto.
  - btrue. apply IH; auto.
Qed.

Ltac conv :=
  repeat match goal with
  | H : nodupb _ = true |- _ => apply nodupb_NoDup in H
  | H : N.eqb _ _ = true |- _ => apply N.eqb_eq in H
  | H : chi_eqb _ _ = true |- _ => apply chi_eqb_eq in H
  | H : ty_eqb _ _ = true |- _ => apply ty_eqb_eq in H
  | H : has _ _ _ _ = true |- _ => apply has_Prop in H
  | H : has_ext _ _ = true |- _ => apply has_Prop in H
  | H : ctx_match _ _ = true |- _ => apply ctx_match_Prop in H; destruct H
  | H : sig_match _ _ = true |- _ => apply sig_match_iff in H
  | H : cls_sig _ _ = true |- _ => apply cls_sig_Prop in H
  end.

Theorem lin_check_sound : forall S s c, lin_check S c s = true -> lin_wt S c s.
Proof.
  intros S s; induction s using stmt_ind2; intros c Hc.
  - simpl in Hc. btrue.
    match goal with Hf : forallb _ re = true |- _ => rename Hf into HF end.
    conv. constructor; auto.
    rewrite forallb_forall in HF. apply Forall_forall. intros p Hp. apply HF in Hp.
    apply has_Prop in Hp. exact Hp.
  - simpl in Hc. btrue.
    destruct (lookup_label S l) eqn:E; try discriminate. conv.
    econstructor; eauto.
  - simpl in Hc. btrue.
    destruct (split_lastn (length args) c) as [[c0 tl]|] eqn:E; try discriminate. btrue.
    apply split_lastn_Some in E. destruct E as [E1 E2]. subst c.
    match goal with Ha : args_ok _ _ _ _ = true |- _ => unfold args_ok in Ha;
      destruct (lookup_xtor S t tag) eqn:E; try discriminate end.
    conv. econstructor; eauto.
  - rewrite lin_check_switch in Hc. btrue.
    destruct (split_lastn 1 c) as [[c0 [|b [|]]]|] eqn:E; try discriminate. btrue.
    apply split_lastn_Some in E. destruct E as [E1 E2]. subst c.
    match goal with Ha : cls_ok _ _ _ = true |- _ => unfold cls_ok in Ha;
      destruct (type_xtors S t) eqn:E; try discriminate end.
    match goal with Hl : lin_clauses_sw _ _ _ = true |- _ =>
      unfold lin_clauses_sw in Hl; rewrite forallb_forall in Hl; rename Hl into HL end.
    conv. econstructor; eauto.
    rewrite Forall_forall in *. intros cl Hcl. apply H; auto.
  - destruct env as [env|]; [|simpl in Hc; btrue; discriminate].
    rewrite lin_check_create in Hc. btrue.
    destruct (split_lastn (length env) c) as [[c0 tl]|] eqn:E; try discriminate. btrue.
    apply split_lastn_Some in E. destruct E as [E1 E2]. subst c.
    match goal with Ha : cls_ok _ _ _ = true |- _ => unfold cls_ok in Ha;
      destruct (type_xtors S t) eqn:E; try discriminate end.
    match goal with Hl : lin_clauses_cr _ _ _ = true |- _ =>
      unfold lin_clauses_cr in Hl; rewrite forallb_forall in Hl; rename Hl into HL end.
    conv. econstructor; eauto.
    rewrite Forall_forall in *. intros cl Hcl. apply H; auto.
  - simpl in Hc. btrue.
    destruct (split_lastn 1 c) as [[c0 [|b [|]]]|] eqn:E; try discriminate. btrue.
    apply split_lastn_Some in E. destruct E as [E1 E2]. subst c.
    match goal with Ha : args_ok _ _ _ _ = true |- _ => unfold args_ok in Ha;
      destruct (lookup_xtor S t tag) eqn:E; try discriminate end.
    conv. econstructor; eauto.
  - simpl in Hc. btrue. conv. constructor; auto.
  - simpl in Hc. btrue. conv. constructor; auto.
  - simpl in Hc. btrue. conv. constructor; auto.
  - simpl in Hc. btrue. destruct b; conv; constructor; auto.
  - simpl in Hc. btrue. conv. constructor; auto.
Qed.
