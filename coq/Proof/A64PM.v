(* C11 on AArch64: the code the AArch64 back end emits for a parallel move (explicit substitution)
   performs the simultaneous assignment on the ISA state.  Instantiates the generic theorem
   Model/ParMoves.parallel_moves_correct with the instruction-selection lemma for `mov` and the
   save/restore of the cycle-breaking value in X2. *)
From Coq Require Import List ZArith NArith String Bool Lia FMapPositive.
From SCC Require Import Base.Sexp Lang.AxSyn Sem.AxSem Model.ParMoves Model.Backend Model.A64 Sem.A64Sem
  Proof.A64State Proof.A64ImmHw Proof.A64Imm Proof.A64Sel.
Import ListNotations.
Open Scope Z_scope.

(* ---------- the moves only mention temporaries of the move graph ---------- *)
Section Mentions.
Variable T : Type.
Variable eqb : T -> T -> bool.
Hypothesis eqb_spec : forall a b, reflect (a = b) (eqb a b).
Variable P : T -> Prop.

Definition amap_ok (pm : amap T) : Prop := forall k ts, In (k, ts) pm -> P k /\ Forall P ts.
Definition pinstr_ok (i : pinstr T) : Prop :=
  match i with Mov _ d s => P d /\ P s | Save _ t => P t | Restore _ t => P t end.

Lemma lookup_in pm n ts : lookup T eqb pm n = Some ts -> exists k, k = n /\ In (k, ts) pm.
Proof.
  induction pm as [|[k' ts'] r IH]; cbn; [discriminate|].
  destruct (eqb_spec n k') as [->|NE].
  - intros E; injection E as <-. eauto.
  - intros E. destruct (IH E) as (k & -> & I). eauto.
Qed.
Lemma lookup_ok pm n ts : amap_ok pm -> lookup T eqb pm n = Some ts -> Forall P ts.
Proof. intros A L. destruct (lookup_in pm n ts L) as (k & -> & I). apply (A _ _ I). Qed.

Lemma mapM_forall {A B} (f : A -> option B) (Q : A -> Prop) (R : B -> Prop) :
  forall l ys, (forall x y, Q x -> f x = Some y -> R y) -> Forall Q l -> mapM f l = Some ys -> Forall R ys.
Proof.
  induction l as [|x r IH]; cbn; intros ys H F E; [injection E as <-; constructor|].
  inversion F as [|? ? Qx Qr]; subst.
  destruct (f x) as [y|] eqn:Fx; [|discriminate]. destruct (mapM f r) as [ys'|] eqn:Mr; [|discriminate].
  injection E as <-. constructor; eauto.
Qed.

Lemma st_ok pm r : amap_ok pm -> forall fuel n tr, P n -> spanning_tree T eqb fuel pm r n = Some tr -> Forall P (nodes T tr).
Proof.
  intros A. induction fuel as [|f IH]; intros n tr Pn E; cbn in E; [discriminate|].
  destruct (eqb r n); [injection E as <-; constructor|].
  destruct (lookup T eqb pm n) as [ts|] eqn:L.
  - destruct (mapM (spanning_tree T eqb f pm r) ts) as [cs|] eqn:M; [|discriminate]. injection E as <-.
    cbn. constructor; [exact Pn|].
    assert (FA : Forall (fun c => Forall P (nodes T c)) cs).
    { eapply (mapM_forall _ P); [|eapply lookup_ok; eauto|exact M]. intros x y Px Ex. eapply IH; eauto. }
    clear M. induction FA; cbn; [constructor|]. apply Forall_app; auto.
  - injection E as <-. cbn. constructor; auto.
Qed.

Lemma tree_moves_ok tr : forall p, P p -> Forall P (nodes T tr) -> Forall pinstr_ok (tree_moves T p tr).
Proof.
  induction tr as [|t cs IH] using tree_ind2; intros p Pp F; cbn.
  - constructor; [exact Pp|constructor].
  - inversion F as [|? ? Pt Fc]; subst. apply Forall_app; split; [|constructor; [split; auto|constructor]].
    clear F. induction IH as [|c cs' Hc Hcs IHcs]; cbn in *; [constructor|].
    apply Forall_app in Fc as [F1 F2]. apply Forall_app; split; auto.
Qed.

Lemma root_moves_ok pm fuel k r : amap_ok pm -> root_for T eqb fuel pm k = Some r -> Forall pinstr_ok (root_moves T r).
Proof.
  intros A E. unfold root_for in E. destruct (lookup T eqb pm k) as [ts|] eqn:L; [|discriminate].
  destruct (mapM (spanning_tree T eqb fuel pm k) (remove1 T eqb k ts)) as [cs|] eqn:M; [|discriminate]. injection E as <-.
  destruct (lookup_in pm k ts L) as (k' & -> & I). destruct (A _ _ I) as (Pk & Fts).
  assert (FA : Forall (fun c => Forall P (nodes T c)) cs).
  { eapply (mapM_forall _ P); [| |exact M].
    - intros x y Px Ex. eapply st_ok; eauto.
    - unfold remove1. apply Forall_forall. intros x Hx. apply filter_In in Hx as [Hx _].
      rewrite Forall_forall in Fts. auto. }
  cbn. apply Forall_app; split.
  - clear M. induction FA; cbn; [constructor|]. apply Forall_app; split; auto. apply tree_moves_ok; auto.
  - destruct (existsb (refers_back T) cs); constructor; [exact Pk|constructor].
Qed.

Lemma delete_targets_ok D pm : amap_ok pm -> amap_ok (delete_targets T eqb D pm).
Proof.
  intros A k ts I. unfold delete_targets in I. apply in_map_iff in I as ([k' ts'] & E & I). cbn in E.
  injection E as <- <-. destruct (A _ _ I) as (Pk & F). split; auto.
  apply Forall_forall. intros x Hx. apply filter_In in Hx as [Hx _]. rewrite Forall_forall in F. auto.
Qed.

Lemma forest_ok fuel : forall keys pm rs, amap_ok pm -> forest_loop T eqb fuel keys pm = Some rs ->
  Forall pinstr_ok (flat_map (root_moves T) rs).
Proof.
  induction keys as [|k ks IH]; intros pm rs A E; cbn in E; [injection E as <-; constructor|].
  destruct (root_for T eqb fuel pm k) as [r|] eqn:R; [|discriminate].
  destruct (forest_loop T eqb fuel ks (delete_targets T eqb (visited_by T r) pm)) as [rs'|] eqn:FL; [|discriminate].
  injection E as <-. cbn. apply Forall_app; split.
  - eapply root_moves_ok; eauto.
  - eapply IH; [|exact FL]. apply delete_targets_ok; auto.
Qed.

Lemma parallel_moves_mentions fuel A is :
  amap_ok A -> parallel_moves T eqb fuel A = Some is -> Forall pinstr_ok is.
Proof.
  intros OK E. unfold parallel_moves, spanning_forest in E.
  destruct (forest_loop T eqb fuel (map fst A) A) as [rs|] eqn:F; [|discriminate]. injection E as <-.
  eapply forest_ok; eauto.
Qed.
End Mentions.

(* ---------- the back end's order on temporaries decides equality ---------- *)
Lemma areg_compare_eq a b : areg_compare a b = Datatypes.Eq <-> a = b.
Proof.
  destruct a as [x| |], b as [y| |]; cbn; try (split; [discriminate|congruence]); try tauto.
  rewrite N.compare_eq_iff. split; congruence.
Qed.
Lemma atemp_compare_eq a b : atemp_compare a b = Datatypes.Eq <-> a = b.
Proof.
  destruct a as [x|x], b as [y|y]; cbn; try (split; [discriminate|congruence]).
  - rewrite areg_compare_eq. split; congruence.
  - rewrite N.compare_eq_iff. split; congruence.
Qed.
Definition a64_teqb := teqb a64_backend.
Lemma a64_teqb_spec a b : reflect (a = b) (a64_teqb a b).
Proof.
  unfold a64_teqb, teqb. cbn [b_tcompare a64_backend a64_backend_with].
  destruct (atemp_compare a b) eqn:E; constructor.
  - now apply atemp_compare_eq.
  - intros H. apply atemp_compare_eq in H. congruence.
  - intros H. apply atemp_compare_eq in H. congruence.
Qed.

Section Sim.
Variable im : image.

Definition V := option Z.
Definition abs_state : Type := ((atemp -> V) * V)%type.
(* the ISA state seen as the abstract parallel-move state: temporaries + the saved value in X2 *)
Definition represents (s : astate) (sp : Z) (c : abs_state) : Prop :=
  (forall t, operand_ok t -> lget s sp t = fst c t) /\ rget s TEMP = snd c.

Lemma operand_ok_not_temp t : operand_ok t -> t <> AR TEMP /\ t <> AR TEMP2.
Proof. intros (_ & A & B); auto. Qed.

Lemma sim_pinstr s sp c i :
  frame_ok s sp -> represents s sp c -> pinstr_ok atemp operand_ok i ->
  exists s', run_straight im (emit_pinstr a64_backend false i) s = MOk s' /\
             frame_ok s' sp /\ heap s' = heap s /\ out s' = out s /\
             represents s' sp (ParMoves.step atemp a64_teqb V c i).
Proof.
  intros F (R1 & R2) OK. assert (SP : sp_ok sp) by apply F.
  destruct i as [d src|t|t]; cbn [pinstr_ok] in OK; cbn [emit_pinstr b_mov b_store_temporary b_restore_temporary a64_backend a64_backend_with ParMoves.step].
  - (* Mov *)
    destruct OK as (Od & Os). pose proof Od as (Ld & Nd1 & Nd2). pose proof Os as (Ls & Ns1 & Ns2).
    unfold a_mov. consts.
    assert (G : exists s', run_straight im (match src with
                                             | AR sr => move_from_register d sr
                                             | AS _ => match d with
                                                       | AR tr => move_to_register tr src
                                                       | AS _ => move_to_register (X 3) src ++ move_from_register d (X 3)
                                                       end
                                             end) s = MOk s' /\ frame_ok s' sp /\ heap s' = heap s /\ out s' = out s /\
                       lget s' sp d = lget s sp src /\ rget s' (X 2) = rget s (X 2) /\
                       (forall l, operand_ok l -> l <> d -> lget s' sp l = lget s sp l)).
    { destruct src as [sr|sq]; [|destruct d as [tr|tq]].
      - rewrite (move_from_register_ok im s sp d sr F Ld). eexists; split; [reflexivity|].
        split; [apply frame_ok_lset; auto|]. split; [apply heap_lset|]. split; [apply out_lset|].
        split; [apply lget_lset_same; exact Ld|]. split.
        + destruct d as [[dn| |]|dq]; cbn [loc_ok gp] in Ld; try tauto; cbn [lset]; try (rewrite rget_rset_other by congruence); try rewrite rget_sset; reflexivity.
        + intros l (Ll & _ & _) NE. apply lget_lset_other; auto.
      - rewrite (move_to_register_ok im s sp tr (AS sq) F Ls).
        destruct tr as [tn| |]; cbn [loc_ok gp] in Ld; try tauto.
        eexists; split; [reflexivity|]. split; [frame|]. split; [fields|]. split; [fields|].
        split; [rd; reflexivity|]. split; [rd; reflexivity|].
        intros l (Ll & N1 & N2) NE. consts. destruct l as [[m| |]|q]; cbn [loc_ok gp] in Ll; try tauto; rd; reflexivity.
      - rewrite run_straight_app, (move_to_register_ok im s sp (X 3) (AS sq) F Ls).
        rewrite (move_from_register_ok im _ sp (AS tq) (X 3)) by (frame || exact Ld).
        cbn [loc_ok] in Ld, Ls.
        eexists; split; [reflexivity|]. split; [frame|]. split; [fields|]. split; [fields|].
        split; [rd; reflexivity|]. split; [rd; reflexivity|].
        intros l (Ll & N1 & N2) NE. consts. destruct l as [[m| |]|q]; cbn [loc_ok gp] in Ll; try tauto; rd; reflexivity. }
    destruct G as (s' & E & F' & H1 & H2 & Vd & Vt & Vo).
    exists s'. split; [exact E|]. split; [exact F'|]. split; [exact H1|]. split; [exact H2|].
    split; cbn [fst snd]; [|consts; rewrite Vt; exact R2].
    intros t Ot. unfold upd. destruct (a64_teqb_spec t d) as [->|NE].
    + rewrite Vd. apply R1; auto.
    + rewrite Vo by auto. apply R1; auto.
  - (* Save: X2 := t *)
    pose proof OK as (Lt & N1 & N2). unfold a_store_temporary. consts.
    exists (rset s (X 2) (lget s sp t)). split.
    { destruct t as [r|p]; cbn [run_straight lget]; [reflexivity|now rewrite (step_LDR_slot im s sp F) by exact Lt]. }
    split; [frame|]. split; [fields|]. split; [fields|]. split; cbn [fst snd].
    + intros l (Ll & M1 & M2). consts. rewrite <- R1 by (repeat split; auto; consts; auto).
      destruct l as [[m| |]|q]; cbn [loc_ok gp] in Ll; try tauto; rd; reflexivity.
    + rewrite TEMP_is, rget_rset_same by exact I. apply R1; auto.
  - (* Restore: t := X2 *)
    pose proof OK as (Lt & N1 & N2). unfold a_restore_temporary. consts.
    exists (lset s sp t (rget s (X 2))). split.
    { destruct t as [r|p]; cbn [run_straight lset]; [reflexivity|now rewrite (step_STR_slot im s sp F) by exact Lt]. }
    split; [apply frame_ok_lset; auto|]. split; [apply heap_lset|]. split; [apply out_lset|]. split; cbn [fst snd].
    + intros l (Ll & M1 & M2). unfold upd. destruct (a64_teqb_spec l t) as [->|NE].
      * rewrite lget_lset_same by exact Lt. exact R2.
      * rewrite lget_lset_other by auto. apply R1. repeat split; auto.
    + rewrite TEMP_is. destruct t as [[tn| |]|tq]; cbn [loc_ok gp] in Lt; try tauto; cbn [lset];
        try (rewrite rget_rset_other by congruence); try rewrite rget_sset; exact R2.
Qed.

Lemma sim_exec is : forall s sp c,
  frame_ok s sp -> represents s sp c -> Forall (pinstr_ok atemp operand_ok) is ->
  exists s', run_straight im (flat_map (emit_pinstr a64_backend false) is) s = MOk s' /\
             frame_ok s' sp /\ heap s' = heap s /\ out s' = out s /\
             represents s' sp (ParMoves.exec atemp a64_teqb V is c).
Proof.
  induction is as [|i r IH]; intros s sp c F R OK; cbn [flat_map].
  - exists s. cbn. split; [reflexivity|]. split; [exact F|]. split; [reflexivity|]. split; [reflexivity|exact R].
  - inversion OK as [|? ? Oi Or]; subst.
    destruct (sim_pinstr s sp c i F R Oi) as (s1 & E1 & F1 & H1 & O1 & R1).
    destruct (IH s1 sp _ F1 R1 Or) as (s2 & E2 & F2 & H2 & O2 & R2).
    exists s2. rewrite run_straight_app, E1. split; [exact E2|]. split; [exact F2|].
    split; [congruence|]. split; [congruence|]. exact R2.
Qed.

Lemma flat_map_flat_map {A B C} (f : A -> list B) (g : B -> list C) l :
  flat_map g (flat_map f l) = flat_map (fun x => flat_map g (f x)) l.
Proof. induction l as [|x r IH]; cbn; [reflexivity|]. now rewrite flat_map_app, IH. Qed.

(* explicit substitution on AArch64: the emitted move code is the simultaneous assignment *)
Theorem a64_parallel_moves_ok (am : amap atemp) (code : list acode) s sp :
  frame_ok s sp ->
  indeg1 atemp a64_teqb am -> nodup_targets atemp a64_teqb am -> amap_ok atemp operand_ok am ->
  parallel_moves_code a64_backend am = Ok code ->
  exists s', run_straight im code s = MOk s' /\ frame_ok s' sp /\ heap s' = heap s /\ out s' = out s /\
             (forall a b, edge atemp a64_teqb am a b -> lget s' sp b = lget s sp a) /\
             (forall u, operand_ok u -> (forall a, ~ edge atemp a64_teqb am a u) -> lget s' sp u = lget s sp u).
Proof.
  intros F ID NT OK E. unfold parallel_moves_code in E. fold a64_teqb in E.
  destruct (spanning_forest atemp a64_teqb (List.length (all_targets atemp am) + 2) am) as [forest|] eqn:SF; [|discriminate].
  injection E as <-.
  assert (PM : parallel_moves atemp a64_teqb (List.length (all_targets atemp am) + 2) am = Some (flat_map (root_moves atemp) forest))
    by (unfold parallel_moves; now rewrite SF).
  assert (CODE : flat_map (emit_root a64_backend) forest = flat_map (emit_pinstr a64_backend false) (flat_map (root_moves atemp) forest)).
  { rewrite flat_map_flat_map. reflexivity. }
  rewrite CODE.
  pose proof (parallel_moves_mentions atemp a64_teqb a64_teqb_spec operand_ok _ am _ OK PM) as MEN.
  destruct (sim_exec _ s sp (lget s sp, rget s TEMP) F (conj (fun t _ => eq_refl) eq_refl) MEN)
    as (s' & R & F' & H' & O' & (V1 & _)).
  destruct (parallel_moves_correct atemp a64_teqb a64_teqb_spec V _ am _ (lget s sp) (rget s TEMP) ID NT PM) as (C1 & C2).
  exists s'. split; [exact R|]. split; [exact F'|]. split; [exact H'|]. split; [exact O'|]. split.
  - intros a b Eab. rewrite <- (C1 a b Eab). apply V1.
    destruct Eab as (ts & L & I). destruct (lookup_in atemp a64_teqb a64_teqb_spec am a ts L) as (k & -> & Iam).
    destruct (OK _ _ Iam) as (_ & Fts). rewrite Forall_forall in Fts. auto.
  - intros u Ou NE. rewrite <- (C2 u NE). apply V1; auto.
Qed.
End Sim.
