(* C13 on AArch64, entry and exit of the generated routine on the ISA semantics: the prologue
   (Model/A64.setup) stores X19-X29 and X30 below the entry SP, reserves the spill area, moves the
   entry arguments to the variable registers and initialises FREE; the epilogue (Model/A64.cleanup)
   run from ANY later state with the body's SP and the saved cells intact gives every callee-saved
   register, the link register and SP their entry values and leaves X0 (the result) alone. *)
From Coq Require Import List ZArith NArith String Bool Lia FMapPositive.
From SCC Require Import Base.Sexp Lang.AxSyn Sem.AxSem Model.Backend Model.A64 Sem.A64Sem Generated.Constants
     Proof.A64State Proof.A64Wf Proof.A64Print.
Import ListNotations.
Open Scope Z_scope.

Section Entry.
Variable im : image.

Lemma mod16_mod8 b : b mod 16 = 0 -> b mod 8 = 0.
Proof.
  intros H. rewrite (Z.div_mod b 16) by lia. rewrite H, Z.add_0_r.
  replace (16 * (b / 16)) with ((2 * (b / 16)) * 8) by lia. apply Z.mod_mul. lia.
Qed.
Lemma cell_ok_at b i : b mod 16 = 0 -> i mod 8 = 0 -> STACK_LIMIT <= b + i -> b + i + 8 <= STACK_TOP -> cell_ok (b + i).
Proof. intros Hb Hi L H. split; [|split; auto]. rewrite Zplus_mod, (mod16_mod8 b Hb), Hi. reflexivity. Qed.

Lemma step_STP_sp s b a1 a2 :
  spv s = Some b -> b mod 16 = 0 -> STACK_LIMIT <= b - 16 -> b <= STACK_TOP ->
  step im (STP_PRE_INDEX (X a1) (X a2) SP (-16)) s =
  Next (set_sp (stk_set (stk_set s (b + -16) (xget s a1)) (b + -16 + 8) (xget s a2)) (Some (b + -16))).
Proof.
  intros Hs Hb L H. cbn [step]. unfold ea, need. cbn [rget]. rewrite Hs, Hb. cbn [Z.eqb].
  assert (C1 : cell_ok (b + -16)) by (apply cell_ok_at; auto; lia).
  assert (C2 : cell_ok (b + -16 + 8)).
  { replace (b + -16 + 8) with (b + -8) by lia. apply cell_ok_at; auto; lia. }
  unfold withm. rewrite mstore_cell by exact C1. rewrite mstore_cell by exact C2. reflexivity.
Qed.
Lemma step_LDP_sp s b d1 d2 :
  spv s = Some b -> b mod 16 = 0 -> STACK_LIMIT <= b -> b + 16 <= STACK_TOP ->
  step im (LDP_POST_INDEX (X d1) (X d2) SP 16) s =
  Next (set_sp (xset (xset s d1 (PM.find (key (b + 0)) (stack s))) d2 (PM.find (key (b + 0 + 8)) (stack s))) (Some (b + 0 + 16))).
Proof.
  intros Hs Hb L H. cbn [step]. unfold ea, need. cbn [rget]. rewrite Hs, Hb. cbn [Z.eqb].
  assert (C1 : cell_ok (b + 0)) by (apply cell_ok_at; auto; lia).
  assert (C2 : cell_ok (b + 0 + 8)).
  { replace (b + 0 + 8) with (b + 8) by lia. apply cell_ok_at; auto; lia. }
  unfold withm. rewrite mload_cell by exact C1. rewrite mload_cell by exact C2. reflexivity.
Qed.

Lemma key_neq a b : 0 <= a -> 0 <= b -> a <> b -> key a <> key b.
Proof. intros A B N E. apply N. apply key_inj; auto. Qed.

(* a run of STP pre-index pushes *)
Lemma run_stps (l : list (N * N)) : forall s b,
  spv s = Some b -> b mod 16 = 0 -> STACK_LIMIT + 16 * Z.of_nat (List.length l) <= b -> b <= STACK_TOP ->
  exists s',
    run_straight im (map (fun p : N * N => STP_PRE_INDEX (X (fst p)) (X (snd p)) SP (-16)) l) s = MOk s' /\
    spv s' = Some (b - 16 * Z.of_nat (List.length l)) /\ regs s' = regs s /\ heap s' = heap s /\ out s' = out s /\
    (forall j p, nth_error l j = Some p ->
       PM.find (key (b - 16 * (Z.of_nat j + 1))) (stack s') = xget s (fst p) /\
       PM.find (key (b - 16 * (Z.of_nat j + 1) + 8)) (stack s') = xget s (snd p)) /\
    (forall k, b <= Z.pos k - 1 -> PM.find k (stack s') = PM.find k (stack s)).
Proof.
  induction l as [|p l IH]; intros s b Hs Hb Lo Hi.
  - exists s. cbn [map run_straight List.length]. rewrite Z.mul_0_r, Z.sub_0_r.
    repeat split; auto. all: destruct j; discriminate.
  - cbn [List.length] in Lo. assert (SL : 0 < STACK_LIMIT) by (unfold STACK_LIMIT, STACK_TOP; lia).
    cbn [map run_straight]. rewrite (step_STP_sp s b) by (auto; lia).
    set (s1 := set_sp _ _).
    assert (S1 : spv s1 = Some (b - 16)) by (cbn; f_equal; lia).
    assert (M1 : (b - 16) mod 16 = 0) by (rewrite Zminus_mod, Hb; reflexivity).
    destruct (IH s1 (b - 16) S1 M1) as (s' & E & S' & R' & H' & O' & C' & K'); [lia|lia|].
    exists s'. split; [exact E|]. split; [rewrite S'; f_equal; cbn [List.length]; lia|].
    split; [rewrite R'; reflexivity|]. split; [rewrite H'; reflexivity|]. split; [rewrite O'; reflexivity|].
    assert (XS : forall r, xget s1 r = xget s r) by reflexivity.
    split.
    + intros [|j] q Hq; cbn [nth_error] in Hq.
      * inversion Hq; subst q. cbn [Z.of_nat]. replace (b - 16 * (0 + 1)) with (b + -16) by lia.
        rewrite !K' by (unfold key; rewrite Z2Pos.id by lia; lia). unfold s1. cbn [stack set_sp].
        split; [|apply find_stk_set_same].
        rewrite find_stk_set_other by (apply key_neq; lia). apply find_stk_set_same.
      * destruct (C' j q Hq) as [A B]. rewrite !XS in *.
        replace (b - 16 * (Z.of_nat (S j) + 1)) with (b - 16 - 16 * (Z.of_nat j + 1)) by lia. auto.
    + intros k Hk. rewrite K' by lia. unfold s1. cbn [stack set_sp].
      rewrite !find_stk_set_other; [reflexivity| |]; intros ->; unfold key in Hk; rewrite Z2Pos.id in Hk by lia; lia.
Qed.

(* a run of LDP post-index pops into pairwise distinct registers *)
Lemma run_ldps (l : list (N * N)) : forall s b,
  spv s = Some b -> b mod 16 = 0 -> STACK_LIMIT <= b -> b + 16 * Z.of_nat (List.length l) <= STACK_TOP ->
  NoDup (flat_map (fun p : N * N => [fst p; snd p]) l) ->
  exists s',
    run_straight im (map (fun p : N * N => LDP_POST_INDEX (X (fst p)) (X (snd p)) SP 16) l) s = MOk s' /\
    spv s' = Some (b + 16 * Z.of_nat (List.length l)) /\ stack s' = stack s /\ heap s' = heap s /\ out s' = out s /\
    (forall j p, nth_error l j = Some p ->
       xget s' (fst p) = PM.find (key (b + 16 * Z.of_nat j)) (stack s) /\
       xget s' (snd p) = PM.find (key (b + 16 * Z.of_nat j + 8)) (stack s)) /\
    (forall m, ~ In m (flat_map (fun p : N * N => [fst p; snd p]) l) -> xget s' m = xget s m).
Proof.
  induction l as [|p l IH]; intros s b Hs Hb Lo Hi ND.
  - exists s. cbn [map run_straight List.length]. rewrite Z.mul_0_r, Z.add_0_r.
    repeat split; auto. all: destruct j; discriminate.
  - cbn [List.length] in Hi. cbn [flat_map app] in ND.
    inversion ND as [|? ? N1 ND1]; subst. inversion ND1 as [|? ? N2 ND2]; subst.
    cbn [map run_straight]. rewrite (step_LDP_sp s b) by (auto; lia).
    set (s1 := set_sp _ _).
    assert (S1 : spv s1 = Some (b + 16)) by (cbn; f_equal; lia).
    assert (M1 : (b + 16) mod 16 = 0) by (rewrite Zplus_mod, Hb; reflexivity).
    destruct (IH s1 (b + 16) S1 M1) as (s' & E & S' & K' & H' & O' & C' & X'); [lia|lia|exact ND2|].
    exists s'. split; [exact E|]. split; [rewrite S'; f_equal; cbn [List.length]; lia|].
    split; [rewrite K'; reflexivity|]. split; [rewrite H'; reflexivity|]. split; [rewrite O'; reflexivity|].
    assert (ST : stack s1 = stack s) by reflexivity.
    split.
    + intros [|j] q Hq; cbn [nth_error] in Hq.
      * inversion Hq; subst q. cbn [Z.of_nat]. rewrite Z.mul_0_r.
        rewrite !X' by (intros H; first [apply N1; right; exact H | apply N2; exact H]).
        unfold s1. change (xget (set_sp ?t _) ?r) with (xget t r). split.
        -- rewrite xget_xset_other by (intros E0; apply N1; left; auto). apply xget_xset_same.
        -- apply xget_xset_same.
      * destruct (C' j q Hq) as [A B]. rewrite ST in A, B.
        replace (b + 16 * Z.of_nat (S j)) with (b + 16 + 16 * Z.of_nat j) by lia. auto.
    + intros m Hm. cbn [flat_map app In] in Hm. rewrite X' by tauto.
      unfold s1. change (xget (set_sp ?t _) ?r) with (xget t r).
      rewrite !xget_xset_other by tauto. reflexivity.
Qed.

(* the argument moves: argument j (in Xj, j = 1..n) ends up in X(2j+3), the second temporary of variable j-1 *)
Lemma move_arguments_ok n : forall ma s,
  move_arguments n = Ok ma ->
  exists s', run_straight im ma s = MOk s' /\
    spv s' = spv s /\ stack s' = stack s /\ heap s' = heap s /\ out s' = out s /\
    (forall j, (1 <= j <= n)%nat -> xget s' (2 * N.of_nat j + 3) = xget s (N.of_nat j)) /\
    (forall m, (m < 5 \/ 2 * N.of_nat n + 3 < m)%N -> xget s' m = xget s m).
Proof.
  induction n as [|m IH]; intros ma s M; cbn [move_arguments] in M.
  - injection M as <-. exists s. cbn. repeat split; auto. intros j Hj; lia.
  - destruct (Nat.ltb 7 (S m)); [discriminate|]. destruct (move_arguments m) as [r|] eqn:Mr; cbn [rbind] in M; [|discriminate].
    injection M as <-. cbn [app run_straight step rget rset].
    set (s1 := xset s _ _).
    destruct (IH r s1 eq_refl) as (s' & E & S' & K' & H' & O' & A' & X').
    exists s'. split; [exact E|]. split; [rewrite S'; reflexivity|]. split; [rewrite K'; reflexivity|].
    split; [rewrite H'; reflexivity|]. split; [rewrite O'; reflexivity|]. split.
    + intros j Hj. destruct (Nat.eq_dec j (S m)) as [->|NE].
      * rewrite X' by lia. unfold s1. apply xget_xset_same.
      * rewrite A' by lia. unfold s1. apply xget_xset_other. lia.
    + intros k Hk. rewrite X' by lia. unfold s1. apply xget_xset_other. lia.
Qed.

Ltac pick C3 Ca K2 KS XA jl js which :=
      let A := fresh "A" in let B := fresh "B" in let A' := fresh "A'" in let B' := fresh "B'" in
      destruct (C3 jl _ eq_refl) as [A B]; destruct (Ca js _ eq_refl) as [A' B']; cbn [fst snd Z.of_nat Pos.of_succ_nat Pos.succ] in A, B, A', B';
      match which with
      | true => rewrite A, K2 by (unfold key; rewrite Z2Pos.id by lia; lia); rewrite KS, <- A'; f_equal; f_equal; lia
      | false => rewrite B, K2 by (unfold key; rewrite Z2Pos.id by lia; lia); rewrite KS, <- B'; f_equal; f_equal; lia
      end.

Definition callee_pairs : list (N * N) := [(18, 19); (20, 21); (22, 23); (24, 25); (26, 27); (28, 29)]%N.

Theorem a64_entry_exit_ok n cs s sp0 h :
  setup n = Ok cs ->
  spv s = Some sp0 -> sp0 mod 16 = 0 -> STACK_LIMIT + 2144 <= sp0 -> sp0 <= STACK_TOP -> xget s 0 = Some h ->
  exists s1,
    run_straight im cs s = MOk s1 /\
    frame_ok s1 (sp0 - 2144) /\ heap s1 = heap s /\ out s1 = out s /\
    xget s1 0 = Some h /\ xget s1 1 = Some (wrap (h + field_offset Fst FIELDS_PER_BLOCK)) /\
    (forall j, (1 <= j <= n)%nat -> xget s1 (2 * N.of_nat j + 3) = xget s (N.of_nat j)) /\
    (forall k, sp0 <= Z.pos k - 1 -> PM.find k (stack s1) = PM.find k (stack s)) /\
    forall s2,
      spv s2 = Some (sp0 - 2144) ->
      (forall k, sp0 - 96 <= Z.pos k - 1 -> PM.find k (stack s2) = PM.find k (stack s1)) ->
      exists s3,
        run_straight im (removelast cleanup) s2 = MOk s3 /\
        spv s3 = Some sp0 /\
        (forall r, (18 <= r <= 29)%N -> xget s3 r = xget s r) /\
        (forall r, (r < 18)%N -> xget s3 r = xget s2 r) /\
        heap s3 = heap s2 /\ out s3 = out s2 /\ stack s3 = stack s2.
Proof.
  intros SU Hs Ha Lo Hi H0.
  assert (SL : 0 < STACK_LIMIT) by (unfold STACK_LIMIT, STACK_TOP; lia).
  unfold setup, rbind in SU. destruct (move_arguments n) as [ma|] eqn:M; [|discriminate]. injection SU as <-.
  match goal with |- context [run_straight im ?c s] =>
    change c with (map (fun p : N * N => STP_PRE_INDEX (X (fst p)) (X (snd p)) SP (-16)) callee_pairs ++ [SUBI SP SP SPILL_SPACE]
                   ++ ma ++ [MOVR FREE HEAP; ADDI FREE FREE (field_offset Fst FIELDS_PER_BLOCK)])%list end.
  rewrite run_straight_app.
  destruct (run_stps callee_pairs s sp0 Hs Ha) as (sa & Ea & Sa & Ra & Ha' & Oa & Ca & Ka); [change (List.length callee_pairs) with 6%nat; lia|exact Hi|].
  rewrite Ea. change (List.length callee_pairs) with 6%nat in Sa. change (Z.of_nat 6) with 6 in Sa.
  cbn [app run_straight step]. unfold arith_imm, need. cbn [rget]. rewrite Sa.
  change SPILL_SPACE with 2048.
  assert (W : wrap (sp0 - 16 * 6 - 2048) = sp0 - 2144).
  { rewrite wrap_id; [lia|]. unfold STACK_LIMIT, STACK_TOP, min_int, max_int, two63 in *. lia. }
  rewrite W. set (sb := rset sa SP (Some (sp0 - 2144))).
  rewrite run_straight_app.
  destruct (move_arguments_ok n ma sb M) as (sc & Ec & Sc & Kc & Hc & Oc & Ac & Xc).
  rewrite Ec. cbn [run_straight step rget rset]. unfold arith_imm, need. cbn [rget].
  change FREE with (X 1). change HEAP with (X 0). cbn [rget rset]. rewrite xget_xset_same.
  assert (XA : forall r, xget sa r = xget s r) by (intros r; unfold xget; rewrite Ra; reflexivity).
  assert (X0c : xget sc 0 = Some h).
  { rewrite Xc by lia. change (xget sb 0) with (xget sa 0). rewrite XA. exact H0. }
  rewrite X0c.
  eexists. split; [reflexivity|].
  split.
  { split; [cbn; rewrite Sc; reflexivity|]. split; [|split].
    - rewrite Zminus_mod, Ha. reflexivity.
    - lia.
    - change SPILL_SPACE with 2048. lia. }
  split; [cbn; rewrite Hc; exact Ha'|]. split; [cbn; rewrite Oc; exact Oa|].
  split; [rewrite !xget_xset_other by lia; exact X0c|]. split; [apply xget_xset_same|].
  split.
  { intros j Hj. rewrite !xget_xset_other by lia. rewrite Ac by exact Hj. change (xget sb ?r) with (xget sa r). apply XA. }
  assert (KS : forall k, PM.find k (stack (xset (xset sc 1 (xget sc 0)) 1 (Some (wrap (h + field_offset Fst FIELDS_PER_BLOCK))))) = PM.find k (stack sa)).
  { intros k. cbn [stack xset]. rewrite Kc. reflexivity. }
  split; [intros k Hk; rewrite KS; apply Ka; exact Hk|].
  (* the epilogue *)
  intros s2 S2 K2.
  change (removelast cleanup) with
    ([LAB "cleanup"%string; ADDI SP SP SPILL_SPACE] ++
     map (fun p : N * N => LDP_POST_INDEX (X (fst p)) (X (snd p)) SP 16) (rev callee_pairs))%list.
  cbn [app run_straight step]. unfold arith_imm, need. cbn [rget]. rewrite S2. change SPILL_SPACE with 2048.
  assert (W2 : wrap (sp0 - 2144 + 2048) = sp0 - 96).
  { rewrite wrap_id; [lia|]. unfold STACK_LIMIT, STACK_TOP, min_int, max_int, two63 in *. lia. }
  rewrite W2. set (s2' := rset s2 SP (Some (sp0 - 96))).
  destruct (run_ldps (rev callee_pairs) s2' (sp0 - 96)) as (s3 & E3 & S3 & K3 & H3 & O3 & C3 & X3).
  { reflexivity. } { rewrite Zminus_mod, Ha. reflexivity. } { lia. } { change (List.length (rev callee_pairs)) with 6%nat; lia. }
  { cbn. repeat constructor; cbn; intuition discriminate. }
  exists s3. split; [exact E3|]. split; [rewrite S3; f_equal; change (List.length (rev callee_pairs)) with 6%nat; lia|].
  split; [|split; [|split; [exact H3|split; [exact O3|exact K3]]]].
  - intros r Hr.
    assert (CASES : (r = 18 \/ r = 19 \/ r = 20 \/ r = 21 \/ r = 22 \/ r = 23 \/ r = 24 \/ r = 25 \/ r = 26 \/ r = 27 \/ r = 28 \/ r = 29)%N) by lia.
    change (stack s2') with (stack s2) in C3.
    repeat (destruct CASES as [->|CASES]); [ | | | | | | | | | | | subst r].
    + pick C3 Ca K2 KS XA 5%nat 0%nat true.
    + pick C3 Ca K2 KS XA 5%nat 0%nat false.
    + pick C3 Ca K2 KS XA 4%nat 1%nat true.
    + pick C3 Ca K2 KS XA 4%nat 1%nat false.
    + pick C3 Ca K2 KS XA 3%nat 2%nat true.
    + pick C3 Ca K2 KS XA 3%nat 2%nat false.
    + pick C3 Ca K2 KS XA 2%nat 3%nat true.
    + pick C3 Ca K2 KS XA 2%nat 3%nat false.
    + pick C3 Ca K2 KS XA 1%nat 4%nat true.
    + pick C3 Ca K2 KS XA 1%nat 4%nat false.
    + pick C3 Ca K2 KS XA 0%nat 5%nat true.
    + pick C3 Ca K2 KS XA 0%nat 5%nat false.
  - intros r Hr. rewrite X3; [reflexivity|]. cbn. intros H. repeat (destruct H as [H|H]; [lia|]). exact H.
Qed.
End Entry.
