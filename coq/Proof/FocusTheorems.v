(* Property C03, binder part: the program-level theorems about uniquify and focus. *)
From Coq Require Import List ZArith NArith String Bool Lia.
From SCC Require Import Base.Sexp Lang.CoreSyn Model.Backend Model.Uniquify Model.Focus Model.FocusCheck
     Proof.CoreInd Proof.SubstProof Proof.CheckLemmas Proof.UniquifyProof Proof.FocusLemmas Proof.FocusProof
     Proof.PathLemmas.
Import ListNotations.
Open Scope list_scope.
Open Scope N_scope.

Lemma mem_le_nonzero : forall b l, mem_le b l -> mem_le b (nonzero l).
Proof. intros b l H i Hi. apply in_nonzero in Hi. apply H; tauto. Qed.

(* ---------- one definition through uniquify ---------- *)
Lemma uq_def_spec : forall d T m,
  T <= m -> wf_stmt (cdbody d) = true -> pre_def T d = true ->
  exists d' m', uq_def d m = Ok (d', m') /\ m <= m' /\ wf_stmt (cdbody d') = true /\
    bspec (nonzero (binder_ids_def d)) m m' (binder_ids_def d') /\
    ids_le_def m' d' = true /\ scoped_def d' = true.
Proof.
  intros [name ctx body] T m LE W P. unfold pre_def, ids_le_def, scoped_def, binder_ids_def in *. simpl in *.
  apply andb_true_iff in P; destruct P as [P S]. apply andb_true_iff in P; destruct P as [I NDb].
  apply andb_true_iff in I; destruct I as [Ic Ib].
  apply nodupN_NoDup in NDb. rewrite nonzero_app in *.
  assert (ND' := NDb). apply NoDup_app_iff in ND'. destruct ND' as (ND1 & ND2 & _).
  assert (ML1 : mem_le T (nonzero (cids ctx))) by (apply mem_le_nonzero; apply forallb_leb; auto).
  assert (ML2 : mem_le T (nonzero (binder_ids_stmt body))) by (apply mem_le_nonzero; apply binders_le_stmt; auto).
  unfold uq_def; simpl.
  destruct (uq_context_spec ctx T m) as (ctx' & vs & cs & m1 & E & L1 & BC & Rv & Rc & SN); auto.
  rewrite E.
  assert (I1 : ids_le_stmt m1 body = true) by (eapply ids_le_stmt_mono; [|eassumption]; lia).
  assert (S1 : scoped_stmt (cids ctx' ++ []) body = true).
  { eapply scoped_stmt_mono; [|eassumption]. rewrite app_nil_r. auto. }
  assert (SB : exists b1, (if is_nil vs && is_nil cs then Ok body else subst_stmt body vs cs) = Ok b1
                          /\ sspec_stmt m1 (cids ctx' ++ []) body b1).
  { destruct (is_nil vs && is_nil cs).
    - exists body; split; auto. unfold sspec_stmt; auto.
    - apply subst_var_spec_stmt; auto; rewrite app_nil_r; auto. }
  destruct SB as (b1 & Eb1 & (Sb & Sd & Sw & Si & Ss)). rewrite Eb1; simpl.
  destruct (proj2 (proj2 (uq_spec (uq_fuel b1))) b1 T (cids ctx' ++ []) m1)
    as (b2 & m2 & E2 & L2 & W2 & B2 & I2 & S2); auto; try lia.
  { rewrite Sb; auto. } { rewrite Sb; auto. }
  rewrite E2; simpl. eexists _, _. split; [reflexivity|]. simpl.
  split; [lia|]. split; [auto|]. split; [|split].
  - rewrite Sb in B2. eapply bspec_app; eauto. apply mem_le_app; auto.
  - bsplit; auto. apply forallb_leb. eapply mem_le_mono; [|exact L2]. eapply bspec_mem_le; eauto. lia.
  - rewrite app_nil_r in S2. auto.
Qed.

Lemma ids_le_def_mono : forall b b' d, b <= b' -> ids_le_def b d = true -> ids_le_def b' d = true.
Proof.
  unfold ids_le_def; intros b b' d L H. bsplit.
  - apply forallb_leb. apply forallb_leb in H. eapply mem_le_mono; eauto.
  - eapply ids_le_stmt_mono; eauto.
Qed.
Lemma fs_ids_le_def_mono : forall b b' d, b <= b' -> fs_ids_le_def b d = true -> fs_ids_le_def b' d = true.
Proof.
  unfold fs_ids_le_def; intros b b' d L H. bsplit.
  - apply forallb_leb. apply forallb_leb in H. eapply mem_le_mono; eauto.
  - eapply fs_ids_le_stmt_mono; eauto.
Qed.

(* ---------- all definitions through uniquify ---------- *)
Definition udef_ok (T M : N) (d d' : cdef) : Prop :=
  wf_stmt (cdbody d') = true /\ NoDup (binder_ids_def d') /\
  (forall b, In b (binder_ids_def d') -> b <> 0 /\ (In b (binder_ids_def d) \/ T < b)) /\
  ids_le_def M d' = true /\ scoped_def d' = true.

Lemma udef_ok_mono : forall T M M' d d', udef_ok T M d d' -> M <= M' -> udef_ok T M' d d'.
Proof.
  intros T M M' d d' (A & B & C & D & E) L. repeat split; auto; try apply C; auto.
  eapply ids_le_def_mono; eauto.
Qed.

Lemma uq_defs_spec : forall ds T m,
  T <= m -> Forall (fun d => wf_stmt (cdbody d) = true /\ pre_def T d = true) ds ->
  exists ds' M, maprs uq_def ds m = Ok (ds', M) /\ m <= M /\ Forall2 (udef_ok T M) ds ds'.
Proof.
  induction ds as [|d ds IH]; intros T m LE F; simpl.
  - exists [], m. repeat split; auto. lia.
  - inversion F as [|? ? [W P] F']; subst.
    destruct (uq_def_spec d T m) as (d' & m1 & E1 & L1 & W1 & B1 & I1 & S1); auto.
    destruct (IH T m1) as (ds' & M & E2 & L2 & F2); auto; try lia.
    rewrite E1; simpl. rewrite E2; simpl. exists (d' :: ds'), M. split; [reflexivity|]. split; [lia|].
    constructor; auto.
    destruct B1 as [ND BI]. repeat split; auto.
    + destruct (BI b H) as [Hb|Hb]; [apply in_nonzero in Hb; tauto | lia].
    + destruct (BI b H) as [Hb|Hb]; [apply in_nonzero in Hb; tauto | right; lia].
    + eapply ids_le_def_mono; eauto.
Qed.

(* ---------- one definition through focus ---------- *)
Definition fdef_ok (M M' : N) (d : cdef) (q : fsdef) : Prop :=
  NoDup (fs_binder_ids_def q) /\
  (forall b, In b (fs_binder_ids_def q) -> In b (binder_ids_def d) \/ M < b) /\
  fs_ids_le_def M' q = true /\ fs_scoped_stmt (cids (fsdctx q)) (fsdbody q) = true.

Lemma fdef_ok_mono : forall M M1 M2 d q, fdef_ok M M1 d q -> M1 <= M2 -> fdef_ok M M2 d q.
Proof.
  intros M M1 M2 d q (A & B & C & D) L. repeat split; auto. eapply fs_ids_le_def_mono; eauto.
Qed.

Lemma focus_def_spec : forall d M m,
  M <= m -> wf_stmt (cdbody d) = true -> NoDup (binder_ids_def d) ->
  ids_le_def M d = true -> scoped_def d = true ->
  exists q m', focus_def d m = Ok (q, m') /\ m <= m' /\ fdef_ok M m' d q.
Proof.
  intros [name ctx body] M m LE W ND I S. unfold ids_le_def, scoped_def, binder_ids_def, focus_def in *. simpl in *.
  apply andb_true_iff in I; destruct I as [Ic Ib]. apply forallb_leb in Ic.
  assert (ND' := ND). apply NoDup_app_iff in ND'. destruct ND' as (ND1 & ND2 & DJ).
  destruct (proj2 (proj2 (proj2 focus_spec_all)) body m M (cids ctx)) as (b' & m' & E & L & B & I' & S'); auto.
  { apply binders_le_stmt; auto. }
  rewrite E; simpl. eexists _, _. split; [reflexivity|]. split; [lia|].
  unfold fdef_ok, fs_binder_ids_def, fs_ids_le_def; simpl. destruct B as [NDb BI].
  split; [|split; [|split]]; auto.
  - apply NoDup_app_iff. split; [|split]; auto.
    intros x Hc Hb. destruct (BI x Hb) as [H|H]; [eapply DJ; eauto|]. specialize (Ic x Hc). lia.
  - intros b Hb. apply in_app_or in Hb. destruct Hb as [Hb|Hb].
    + left. apply in_or_app; auto.
    + destruct (BI b Hb) as [H|H]; [left; apply in_or_app; auto | right; lia].
  - bsplit; auto. apply forallb_leb. eapply mem_le_mono; eauto. lia.
Qed.

Lemma focus_defs_spec : forall ds M m,
  M <= m ->
  Forall (fun d => wf_stmt (cdbody d) = true /\ NoDup (binder_ids_def d) /\ ids_le_def M d = true /\ scoped_def d = true) ds ->
  exists qs M', maprs focus_def ds m = Ok (qs, M') /\ m <= M' /\ Forall2 (fdef_ok M M') ds qs.
Proof.
  induction ds as [|d ds IH]; intros M m LE F; simpl.
  - exists [], m. repeat split; auto. lia.
  - inversion F as [|? ? (W & ND & I & S) F']; subst.
    destruct (focus_def_spec d M m) as (q & m1 & E1 & L1 & Q1); auto.
    destruct (IH M m1) as (qs & M' & E2 & L2 & F2); auto; try lia.
    rewrite E1; simpl. rewrite E2; simpl. exists (q :: qs), M'. split; [reflexivity|]. split; [lia|].
    constructor; auto. eapply fdef_ok_mono; eauto.
Qed.

(* ---------- the checkers ---------- *)
Lemma uniquified_check_def_ok : forall T M d d',
  udef_ok T M d d' -> uniquified_check_def T (binder_ids_def d) d' = true.
Proof.
  intros T M d d' (W & ND & BI & I & S). unfold uniquified_check_def. bsplit.
  - apply c_path_uniq_def; auto.
  - apply forallb_forall. intros i Hi. destruct (BI i Hi) as [NZ [H|H]]; bsplit.
    + apply negb_true_iff. apply N.eqb_neq; auto.
    + apply orb_true_iff; right. apply memN_In; auto.
    + apply negb_true_iff. apply N.eqb_neq; auto.
    + apply orb_true_iff; left. apply N.ltb_lt; auto.
Qed.

Lemma unique_check_def_ok : forall T M M' d d' q,
  T <= M -> udef_ok T M d d' -> fdef_ok M M' d' q -> unique_check_def T (binder_ids_def d) q = true.
Proof.
  intros T M M' d d' q LE (W & ND & BI & I & S) (NDq & BQ & IQ & SQ). unfold unique_check_def. bsplit.
  - apply fs_path_uniq_def; auto.
  - unfold fs_free_ok_def. apply (proj2 (proj2 (fs_free_ok_all (fs_binder_ids_def q) ltac:(intro Z; destruct (BQ 0 Z) as [H|H]; [destruct (BI 0 H); congruence | lia])))); auto.
  - unfold fresh_above. apply forallb_forall. intros i Hi. apply orb_true_iff.
    destruct (BQ i Hi) as [H|H].
    + destruct (BI i H) as [_ [H'|H']]; [right; apply memN_In; auto | left; apply N.ltb_lt; auto].
    + left. apply N.ltb_lt. lia.
Qed.

Lemma uniquified_check_defs_ok : forall T M ds ds',
  Forall2 (udef_ok T M) ds ds' -> uniquified_check_defs T ds ds' = true.
Proof.
  induction 1; simpl; auto. bsplit; auto. eapply uniquified_check_def_ok; eauto.
Qed.

Lemma unique_check_defs_ok : forall T M M' ds ds', T <= M ->
  Forall2 (udef_ok T M) ds ds' -> forall qs, Forall2 (fdef_ok M M') ds' qs -> unique_check_defs T ds qs = true.
Proof.
  induction 2; intros qs F; inversion F; subst; simpl; auto. bsplit; auto.
  eapply unique_check_def_ok; eauto.
Qed.

Lemma forall2_right : forall (X Y : Type) (R : X -> Y -> Prop) (P : Y -> Prop) l l',
  Forall2 R l l' -> (forall x y, R x y -> P y) -> Forall P l'.
Proof. induction 1; intros; constructor; eauto. Qed.

(* ---------- the theorems ---------- *)
Definition wf_pre (p : cprog) : Prop := pre_check p = true /\ focus_wf p = true.

Lemma wf_pre_forall : forall p, wf_pre p ->
  Forall (fun d => wf_stmt (cdbody d) = true /\ pre_def (cpmax p) d = true) (cpdefs p).
Proof.
  intros p [P W]. unfold pre_check, focus_wf in *. rewrite forallb_forall in *.
  apply Forall_forall. intros d Hd. split; auto.
Qed.

Theorem uniquify_unique_thm : forall p, pre_check p = true -> focus_wf p = true ->
  exists q, uniquify_prog p = Ok q /\ uniquified_check p q = true /\ focus_wf q = true /\ pre_check q = true.
Proof.
  intros p P W. unfold uniquify_prog.
  destruct (uq_defs_spec (cpdefs p) (cpmax p) (cpmax p)) as (ds' & M & E & L & F); try lia.
  { apply wf_pre_forall; split; auto. }
  rewrite E; simpl. eexists; split; [reflexivity|]. unfold uniquified_check, focus_wf, pre_check; simpl.
  split; [|split].
  - bsplit.
    + eapply uniquified_check_defs_ok; eauto.
    + apply forallb_forall. apply Forall_forall. eapply forall2_right; eauto.
      intros d d' (A & B & C & D & E'). exact D.
    + apply N.leb_le; auto.
  - apply forallb_forall. apply Forall_forall. eapply forall2_right; eauto.
    intros d d' (A & B & C & D & E'). exact A.
  - apply forallb_forall. apply Forall_forall. eapply forall2_right; eauto.
    intros d d' (A & B & C & D & E'). unfold pre_def. bsplit; auto.
    apply nodupN_NoDup. clear - B. revert B. generalize (binder_ids_def d'). intros l ND.
    induction l as [|x l IH]; [constructor|]. inversion ND; subst. unfold nonzero; simpl.
    destruct (negb (N.eqb x 0)); [constructor|]; auto. intro H. apply filter_In in H. tauto.
Qed.

Theorem focus_unique_thm : forall p, pre_check p = true -> focus_wf p = true ->
  exists q, focus_prog p = Ok q /\ unique_check p q = true.
Proof.
  intros p P W. unfold focus_prog, uniquify_prog.
  destruct (uq_defs_spec (cpdefs p) (cpmax p) (cpmax p)) as (ds' & M & E & L & F); try lia.
  { apply wf_pre_forall; split; auto. }
  rewrite E; simpl.
  destruct (focus_defs_spec ds' M M) as (qs & M' & E2 & L2 & F2); try lia.
  { eapply forall2_right; eauto. intros d d' (A & B & C & D & E'). auto. }
  rewrite E2; simpl. eexists; split; [reflexivity|]. unfold unique_check; simpl. bsplit.
  - eapply unique_check_defs_ok; eauto.
  - apply forallb_forall. apply Forall_forall. eapply forall2_right; eauto.
    intros d q (A & B & C & D). exact C.
  - apply N.leb_le. lia.
Qed.
