(* C14, x86-64: EVERY instruction the code generator and the routine wrapper emit is well-formed, for every
   program inside the boolean guards of Sem/WfGuard.v: [x86_compile_asm_wf] (asm_wf cs = None) and
   [x86_compile_code_small] (code_small cs = true under a bound on the program size).

   Structure: the body predicate [cok] on one instruction (encodable: Sem/X86Wf.instr_wf; every referenced label is
   not a '#'-mark; a call goes to one of the two print routines; no EXTERN directive), a lemma `W (method ...)` for
   each method of x86_backend (W l = every instruction of l passes cok), the generic theorem
   Proof/CodegenForallLin.v (every piece of code_statement's output comes from a method, with the guarantees of
   the linear discipline on the arguments), and the label theorems of Proof/LabelThms.v for uniqueness and
   definedness. *)
From Coq Require Import List ZArith NArith String Ascii Bool Lia.
From SCC Require Import Base.Sexp Lang.AxSyn Lang.AxSize Model.ParMoves Model.Backend Model.Linearize Model.LinCheck Model.X86
  Model.SizeWf Sem.X86Sem Sem.X86Wf Sem.LabelGuard Sem.WfGuard Generated.Constants
  Proof.LinBasics Proof.SubstGraph Proof.X86Wf Proof.LabelStrings Proof.LabelGen Proof.LabelsX86 Proof.LabelThms
  Proof.CodegenForallLin Proof.SimFrag Proof.X86SimAddr Proof.SizeCodegenWf Proof.SizeX86.
Import ListNotations.
Local Open Scope string_scope.
Local Open Scope list_scope.

(* ---------- the predicate on body code ---------- *)
Definition cok (c : xcode) : bool :=
  instr_wf c && forallb (fun l => negb (is_hash_label l)) (referenced c)
  && match c with
     | CALL l => String.eqb l "print_i64" || String.eqb l "println_i64"
     | EXTERN _ => false
     | _ => true
     end.
Definition W (l : list xcode) : Prop := Forall (fun c => cok c = true) l.
Lemma W_nil : W [].
Proof. constructor. Qed.
Lemma W_app a b : W a -> W b -> W (a ++ b).
Proof. intros A C. apply Forall_app. split; assumption. Qed.
Lemma W_forallb l : forallb cok l = true -> W l.
Proof. intros H. apply Forall_forall. rewrite forallb_forall in H. exact H. Qed.

Lemma regok r : (r < 16)%N -> reg_ok r = true.
Proof. intros H. apply N.ltb_lt. exact H. Qed.
Lemma field_offset_fits n o : (o <= FIELDS_PER_BLOCK)%N -> fits32 (field_offset n o) = true.
Proof.
  intros H. unfold fits32, field_offset, address. change X86C.address1 with 8%Z.
  assert (0 <= Z.of_N o <= 3)%Z by (change FIELDS_PER_BLOCK with 3%N in H; lia).
  assert (0 <= Z.of_N (tnum_n n) <= 1)%Z by (destruct n; cbn; lia).
  apply andb_true_iff; split; apply Z.leb_le; lia.
Qed.
Lemma lab_plain n : is_hash_label (lab n) = false.
Proof. reflexivity. Qed.

Ltac wf1 :=
  unfold cok; cbn [instr_wf referenced forallb];
  rewrite ?stack_offset_fits by assumption; rewrite ?field_offset_fits by assumption;
  rewrite ?regok by assumption; rewrite ?lab_plain;
  repeat match goal with H : is_hash_label _ = false |- _ => rewrite H end;
  repeat match goal with H : ?x = true |- context [?x] => rewrite H end;
  repeat (apply andb_true_iff; split); try reflexivity;
  try (apply N.ltb_lt; first [assumption | (vm_compute; reflexivity)]).
Ltac wf :=
  unfold W;
  repeat match goal with
  | |- Forall _ (_ ++ _) => apply Forall_app; split
  | |- Forall _ (_ :: _) => constructor
  | |- Forall _ [] => constructor
  end; try wf1.

(* ---------- code.rs ---------- *)
Lemma W_arith o t s1 s2 :
  o <> Prod \/ (t <> s1 /\ t <> s2) ->
  temp_enc t -> temp_enc s1 -> temp_enc s2 -> W (x_arith o t s1 s2).
Proof.
  intros NP T S1 S2.
  destruct o; cbn [x_arith]; unfold x_div, x_rem, op_commutative, sub, div_core;
    destruct t as [tr|tp], s1 as [r1|p1], s2 as [r2|p2]; cbn [temp_enc] in *;
    repeat match goal with |- context [xtemp_eqb ?a ?b] => destruct (xtemp_eqb a b) eqn:? end;
    repeat match goal with |- context [N.eqb ?a ?b] => destruct (N.eqb a b) eqn:? end;
    cbn [move_to_register move_from_register add_to_register add_to_spill mul_to_register mul_to_spill
         sub_to_register sub_to_spill app];
    try solve [wf].
  all: exfalso; destruct NP as [NP|[NP1 NP2]]; [congruence|];
    match goal with
    | H : xtemp_eqb (XS ?a) ?b = true |- _ =>
        cbn in H; try discriminate; apply N.eqb_eq in H; subst; congruence
    end.
Qed.
Lemma W_load_immediate t i : temp_enc t -> lit64 i = true -> W (x_load_immediate t i).
Proof.
  intros T R. unfold lit64 in R. apply andb_true_iff in R as [R1 R2].
  unfold x_load_immediate. destruct t as [r|p]; cbn [temp_enc] in T.
  - wf; assumption.
  - destruct (fits_i32 i) eqn:F.
    + unfold fits_i32 in F. apply andb_true_iff in F as [F1 F2]. wf; assumption.
    + wf; assumption.
Qed.
Lemma tag_lit64 k : (k < XTORS_MAX)%N -> lit64 (jump_length k) = true.
Proof. unfold XTORS_MAX, lit64, jump_length. intros H. apply andb_true_iff; split; apply Z.leb_le; lia. Qed.
Lemma tag_fits32 k : (k < XTORS_MAX)%N -> fits32 (jump_length k) = true.
Proof. unfold XTORS_MAX, fits32, jump_length. intros H. apply andb_true_iff; split; apply Z.leb_le; lia. Qed.
Lemma W_add_and_jump t k : temp_enc t -> (k < XTORS_MAX)%N -> W (x_add_and_jump t (jump_length k)).
Proof. intros T K. pose proof (tag_fits32 k K) as F. destruct t as [r|p]; cbn [temp_enc x_add_and_jump] in *; wf. Qed.
Lemma W_mov t s : temp_enc t -> temp_enc s -> W (x_mov t s).
Proof.
  intros T S. unfold x_mov. destruct s as [sr|sp], t as [tr|tp]; cbn [temp_enc] in *;
    cbn [move_to_register move_from_register app]; wf.
Qed.
Lemma W_compare a b : temp_enc a -> temp_enc b -> W (compare a b).
Proof. intros A B. destruct a, b; cbn [temp_enc compare] in *; wf. Qed.
Lemma W_compare_immediate a : temp_enc a -> W (compare_immediate a 0).
Proof. intros A. destruct a; cbn [temp_enc compare_immediate] in *; wf. Qed.
Lemma W_jcc s l : is_hash_label l = false -> W [jcc s l].
Proof. intros H. destruct s; cbn [jcc]; wf. Qed.
Lemma W_jump t : temp_enc t -> W (x_jump t).
Proof. intros T. destruct t; cbn [temp_enc x_jump] in *; wf. Qed.
Lemma W_load_label t l : temp_enc t -> is_hash_label l = false -> W (x_load_label t l).
Proof. intros T H. destruct t; cbn [temp_enc x_load_label] in *; wf. Qed.
Lemma W_store_temporary t f : temp_enc t -> W (x_store_temporary t f).
Proof.
  intros T. assert (S0 : (SPILL_TEMP < SPILL_NUM)%N) by (vm_compute; reflexivity).
  destruct t, f; cbn [temp_enc x_store_temporary app] in *; wf.
Qed.
Lemma W_restore_temporary t f : temp_enc t -> W (x_restore_temporary t f).
Proof.
  intros T. assert (S0 : (SPILL_TEMP < SPILL_NUM)%N) by (vm_compute; reflexivity).
  destruct t, f; cbn [temp_enc x_restore_temporary app] in *; wf.
Qed.

(* print_i64: the caller-save bracket *)
Lemma firstn_In_ {X} (x : X) n l : In x (firstn n l) -> In x l.
Proof. intros H. rewrite <- (firstn_skipn n l). apply in_or_app. left. exact H. Qed.
Lemma skipn_In_ {X} (x : X) n l : In x (skipn n l) -> In x l.
Proof. intros H. rewrite <- (firstn_skipn n l). apply in_or_app. right. exact H. Qed.
Lemma In_nseq o n : In o (nseq 0 n) -> (o < n)%N.
Proof. unfold nseq. intros H. apply in_map_iff in H as (k & <- & H). apply in_seq in H. lia. Qed.
Lemma In_combine_nseq {X} (o : N) (x : X) n l : In (o, x) (combine (nseq 0 n) l) -> (o < n)%N /\ In x l.
Proof. intros H. split; [apply In_nseq; eapply in_combine_l; eauto|eapply in_combine_r; eauto]. Qed.
Lemma csr_regs c r : In r (snd (caller_save_registers_info c)) -> (r < 16)%N.
Proof.
  unfold caller_save_registers_info. cbn [snd]. intros H. apply in_flat_map in H as ([o b] & H & Hr).
  apply In_combine_nseq in H as [Ho _].
  assert (LT : (o < 4)%N).
  { eapply N.lt_le_trans; [exact Ho|]. rewrite firstn_length.
    change (N.to_nat ((CALLER_SAVE_LAST + 1 - CALLER_SAVE_FIRST) / 2)) with 4%nat. lia. }
  change CALLER_SAVE_FIRST with 4%N in Hr.
  destruct (bchi b); cbn [In] in Hr; lia.
Qed.
Lemma W_movs_out fb used regs :
  (used <= N.to_nat (REGISTER_NUM - fb))%nat -> (forall r, In r regs -> (r < 16)%N) ->
  W (map (fun or_ : N * N => MOV (fb + fst or_)%N (snd or_)) (combine (nseq 0 (N.of_nat used)) (firstn used regs))) /\
  W (map (fun or_ : N * N => MOV (snd or_) (fb + fst or_)%N) (combine (nseq 0 (N.of_nat used)) (firstn used regs))).
Proof.
  intros U R. change REGISTER_NUM with 16%N in U.
  split; apply Forall_forall; intros c Hc; apply in_map_iff in Hc as ([o r] & <- & H); apply In_combine_nseq in H as [Ho Hr];
    cbn [fst snd]; assert (A : (fb + o < 16)%N) by lia; assert (A2 : (r < 16)%N) by (apply R; eapply firstn_In_; exact Hr); wf1.
Qed.
Lemma W_map1 (f : N -> xcode) l : (forall r, (r < 16)%N -> cok (f r) = true) -> (forall r, In r l -> (r < 16)%N) -> W (map f l).
Proof. intros F R. apply Forall_forall. intros c Hc. apply in_map_iff in Hc as (r & <- & H). apply F, R, H. Qed.
Lemma W_print nl s c : temp_enc s -> W (x_print nl s c).
Proof.
  intros T. unfold x_print. pose proof (csr_regs c) as R. destruct (caller_save_registers_info c) as [fb regs]. cbn [snd] in R.
  unfold save_caller_save_registers, restore_caller_save_registers.
  assert (U : (backup_used fb regs <= N.to_nat (REGISTER_NUM - fb))%nat) by (unfold backup_used; lia).
  destruct (W_movs_out fb _ regs U R) as [M1 M2].
  assert (RS : forall r, In r (skipn (backup_used fb regs) regs) -> (r < 16)%N) by (intros r H; apply R; eapply skipn_In_; exact H).
  repeat apply W_app.
  - destruct s as [r|p]; cbn [temp_enc move_to_register] in *; wf.
  - exact M1.
  - apply W_map1; [intros r Hr; wf1|exact RS].
  - destruct (Nat.even _); wf.
  - destruct s as [r|p]; cbn [temp_enc] in *; wf.
  - destruct nl; wf.
  - exact M2.
  - destruct (Nat.even _); wf.
  - apply W_map1; [intros r Hr; wf1|]. intros r H. apply in_rev in H. exact (RS r H).
Qed.

(* ---------- memory.rs ---------- *)
Lemma W_skip cond body lc : temp_enc cond -> W body -> W (fst (skip_if_zero cond body lc)).
Proof.
  intros T HB. unfold skip_if_zero. cbn [fst]. apply W_app; [apply W_compare_immediate; exact T|].
  apply W_app; [wf|]. apply W_app; [exact HB|wf].
Qed.
Lemma W_ite r (zero_off : bool) th el lc : (r < 16)%N -> W th -> W el ->
  W (fst (if_zero_then_else r (if zero_off then Some REFERENCE_COUNT_OFFSET else None) th el lc)).
Proof.
  intros R H1 H2. unfold if_zero_then_else. cbn [fst]. apply W_app; [destruct zero_off; wf|].
  apply W_app; [exact H2|]. apply W_app; [wf|]. apply W_app; [exact H1|wf].
Qed.
Lemma W_erase_valid r lc : (r < 16)%N -> W (fst (erase_valid_object r lc)).
Proof. intros R. unfold erase_valid_object. apply (W_ite r true); [exact R|wf|wf]. Qed.
Lemma W_erase t lc : temp_enc t -> W (fst (x_erase_block t lc)).
Proof.
  intros T. destruct t as [r|p]; cbn [x_erase_block temp_enc] in *.
  - pose proof (W_erase_valid r lc T) as H. destruct (erase_valid_object r lc) as [c lc1]. apply W_skip; [exact T|exact H].
  - assert (TT : (TEMP < 16)%N) by (vm_compute; reflexivity).
    pose proof (W_erase_valid TEMP lc TT) as H. destruct (erase_valid_object TEMP lc) as [c lc1]. cbn [fst] in H.
    pose proof (W_skip (XR TEMP) c lc1 TT H) as H2. destruct (skip_if_zero (XR TEMP) c lc1) as [c2 lc2]. cbn [fst] in *.
    apply W_app; [wf|exact H2].
Qed.
Lemma share_fits n : (n < SUBST_MAX)%N -> fits32 (Z.of_N n) = true.
Proof. unfold SUBST_MAX, fits32. intros H. apply andb_true_iff; split; apply Z.leb_le; lia. Qed.
Lemma W_share t n lc : temp_enc t -> (n < SUBST_MAX)%N -> W (fst (x_share_block_n t n lc)).
Proof.
  intros T H. pose proof (share_fits n H) as F. destruct t as [r|p]; cbn [x_share_block_n temp_enc] in *; apply W_skip; try exact T.
  - wf.
  - wf.
Qed.
Lemma W_erase_fields_fold r (R : (r < 16)%N) : forall l acc,
  (forall o, In o l -> (o <= FIELDS_PER_BLOCK)%N) -> W (fst acc) ->
  W (fst (fold_left (fun (acc : list xcode * N) (offset : N) =>
               let '(c, lc) := acc in
               let '(c1, lc1) := x_erase_block (XR TEMP) lc in
               (c ++ [MOVL TEMP r (field_offset Fst offset)] ++ c1, lc1)) l acc)).
Proof.
  induction l as [|o l IH]; intros [c lc] HO H; cbn [fold_left]; [exact H|]. apply IH; [intros; apply HO; right; assumption|].
  assert (TT : temp_enc (XR TEMP)) by (vm_compute; reflexivity).
  pose proof (W_erase (XR TEMP) lc TT) as H2. destruct (x_erase_block (XR TEMP) lc) as [c1 lc1]. cbn [fst] in *.
  assert (O : (o <= FIELDS_PER_BLOCK)%N) by (apply HO; left; reflexivity).
  apply W_app; [exact H|]. apply W_app; [wf|exact H2].
Qed.
Lemma W_erase_fields r lc : (r < 16)%N -> W (fst (erase_fields r lc)).
Proof.
  intros R. unfold erase_fields. apply (W_erase_fields_fold r R); [|exact W_nil].
  intros o H. apply In_nseq in H. lia.
Qed.
Lemma W_acquire t lc : temp_enc t -> W (fst (acquire_block t lc)).
Proof.
  intros T. unfold acquire_block.
  assert (RH : (HEAP < 16)%N) by (vm_compute; reflexivity). assert (RF : (FREE < 16)%N) by (vm_compute; reflexivity).
  pose proof (W_erase_fields HEAP lc RH) as H1. destruct (erase_fields HEAP lc) as [ef lc1]. cbn [fst] in H1.
  assert (FO : fits32 (field_offset Fst FIELDS_PER_BLOCK) = true) by (apply field_offset_fits; lia).
  pose proof (W_ite FREE false [MOV FREE HEAP; ADDI FREE (field_offset Fst FIELDS_PER_BLOCK)]
                ([MOVIM HEAP NEXT_ELEMENT_OFFSET 0] ++ ef) lc1 RF) as H2. cbn [fst] in H2.
  destruct (if_zero_then_else FREE None _ _ lc1) as [inner lc2]. cbn [fst] in H2.
  assert (H2' : W inner).
  { apply H2; [wf|apply W_app; [wf|exact H1]]. }
  match goal with |- context [if_zero_then_else HEAP None ?th ?el lc2] =>
    pose proof (W_ite HEAP false th el lc2 RH) as H3; destruct (if_zero_then_else HEAP None th el lc2) as [outer lc3] end.
  cbn [fst] in *. apply W_app.
  - destruct t as [r|p]; cbn [temp_enc] in T; wf.
  - apply H3; [apply W_app; [wf|exact H2']|destruct t as [r|p]; cbn [temp_enc] in T; wf].
Qed.

Lemma tfp_enc p t : temporary_from_position p = Ok t -> temp_enc t.
Proof.
  unfold temporary_from_position. destruct (N.ltb_spec (p + RESERVED) REGISTER_NUM) as [H|H].
  - intros E; inversion E; subst. cbn [temp_enc]. change REGISTER_NUM with 16%N in H. exact H.
  - destruct (N.ltb_spec (p + RESERVED - REGISTER_NUM + RESERVED_SPILLS) SPILL_NUM) as [H2|H2]; [|discriminate].
    intros E; inversion E; subst. cbn [temp_enc]. exact H2.
Qed.
Lemma fresh_enc n c t : x_fresh n c = Ok t -> temp_enc t.
Proof. apply tfp_enc. Qed.

Lemma W_store_field n c blk o code : (blk < 16)%N -> (o <= FIELDS_PER_BLOCK)%N -> store_field n c blk o = Ok code -> W code.
Proof.
  unfold store_field. intros R O H. rinv H. inversion H; subst. pose proof (fresh_enc _ _ _ E) as T.
  destruct x; cbn [temp_enc] in T; wf.
Qed.
Lemma W_load_field n c blk o code : (blk < 16)%N -> (o <= FIELDS_PER_BLOCK)%N -> load_field n c blk o = Ok code -> W code.
Proof.
  unfold load_field. intros R O H. rinv H. inversion H; subst. pose proof (fresh_enc _ _ _ E) as T.
  destruct x; cbn [temp_enc] in T; wf.
Qed.
Lemma W_store_zero blk o : (blk < 16)%N -> (o <= FIELDS_PER_BLOCK)%N -> W (store_zero blk o).
Proof. intros R O. unfold store_zero. wf. Qed.
Lemma W_store_value b rem blk o code : (blk < 16)%N -> (o <= FIELDS_PER_BLOCK)%N -> store_value b rem blk o = Ok code -> W code.
Proof.
  unfold store_value. intros R O H. rinv H. pose proof (W_store_field _ _ _ _ _ R O E) as N1. destruct (bchi b).
  - rinv H. inversion H; subst. apply W_app; [exact N1|exact (W_store_field _ _ _ _ _ R O E0)].
  - rinv H. inversion H; subst. apply W_app; [exact N1|exact (W_store_field _ _ _ _ _ R O E0)].
  - inversion H; subst. apply W_app; [exact N1|apply W_store_zero; assumption].
Qed.
Lemma W_store_zeros n blk : (blk < 16)%N -> (n <= FIELDS_PER_BLOCK)%N -> W (store_zeros n blk).
Proof.
  intros R O. unfold store_zeros. apply Forall_forall. intros c Hc. apply in_flat_map in Hc as (o & Ho & Hc).
  apply In_nseq in Ho. assert (O2 : (o <= FIELDS_PER_BLOCK)%N) by lia.
  pose proof (W_store_zero blk o R O2) as X. unfold W in X. rewrite Forall_forall in X. exact (X c Hc).
Qed.
Lemma W_store_values rem blk (R : (blk < 16)%N) : forall l ff code,
  (ff <= FIELDS_PER_BLOCK)%N -> store_values l rem blk ff = Ok code -> W code.
Proof.
  induction l as [|b l IH]; intros ff code O H; cbn [store_values] in H.
  - inversion H; subst. apply W_store_zeros; assumption.
  - rinv H. inversion H; subst. assert (O1 : (ff - 1 <= FIELDS_PER_BLOCK)%N) by lia.
    apply W_app; [exact (W_store_value _ _ _ _ _ R O1 E)|exact (IH _ _ O1 E0)].
Qed.
Lemma W_load_value b ex blk o m lc c lc' : (blk < 16)%N -> (o <= FIELDS_PER_BLOCK)%N ->
  load_value b ex blk o m lc = Ok (c, lc') -> W c.
Proof.
  unfold load_value. intros R O H. rinv H. pose proof (W_load_field _ _ _ _ _ R O E) as N1.
  assert (SH : forall x2 l, temp_enc x2 -> W (fst (x_share_block_n (XR match x2 with XR r => r | XS _ => TEMP end) 1 l))).
  { intros x2 l T2. apply W_share; [|reflexivity]. destruct x2; [exact T2|vm_compute; reflexivity]. }
  destruct (bchi b).
  1,2: rinv H; pose proof (W_load_field _ _ _ _ _ R O E0) as N2; pose proof (fresh_enc _ _ _ E1) as T2; destruct m.
  - inversion H; subst. apply W_app; assumption.
  - pose proof (SH x1 lc T2) as S1. destruct (x_share_block_n _ 1 lc) as [c3 lc1]. inversion H; subst.
    apply W_app; [exact N1|apply W_app; [exact N2|exact S1]].
  - inversion H; subst. apply W_app; assumption.
  - pose proof (SH x1 lc T2) as S1. destruct (x_share_block_n _ 1 lc) as [c3 lc1]. inversion H; subst.
    apply W_app; [exact N1|apply W_app; [exact N2|exact S1]].
  - inversion H; subst. exact N1.
Qed.
Lemma W_load_values ex blk m (R : (blk < 16)%N) : forall l ff lc c lc',
  (ff <= FIELDS_PER_BLOCK)%N -> load_values l ex blk ff m lc = Ok (c, lc') -> W c.
Proof.
  induction l as [|b l IH]; intros ff lc c lc' O H; cbn [load_values] in H.
  - inversion H; subst. exact W_nil.
  - rinv H. inversion H; subst. assert (O1 : (ff - 1 <= FIELDS_PER_BLOCK)%N) by lia.
    apply W_app; [exact (W_load_value _ _ _ _ _ _ _ _ R O1 E)|exact (IH _ _ _ _ O1 E0)].
Qed.

Lemma cap_le bp : (FIELDS_PER_BLOCK - bp_n bp <= FIELDS_PER_BLOCK)%N.
Proof. lia. Qed.
Lemma fpb1_le : (FIELDS_PER_BLOCK - 1 <= FIELDS_PER_BLOCK)%N.
Proof. lia. Qed.
Lemma reg_HEAP : (HEAP < 16)%N. Proof. vm_compute; reflexivity. Qed.
Lemma reg_TT : (TEMPORARY_TEMP < 16)%N. Proof. vm_compute; reflexivity. Qed.
Lemma reg_TEMP : (TEMP < 16)%N. Proof. vm_compute; reflexivity. Qed.

Lemma W_store_fields : forall fuel to_store remaining bp lc c lc',
  store_fields fuel to_store remaining bp lc = Ok (c, lc') -> W c.
Proof.
  induction fuel as [|fuel IH]; intros to_store remaining bp lc c lc' H; cbn [store_fields] in H; [discriminate|].
  destruct to_store as [|b0 ts].
  - destruct bp; [rinv H|]; inversion H; subst; [|exact W_nil].
    apply W_load_immediate; [exact (fresh_enc _ _ _ E)|reflexivity].
  - rinv H. pose proof (W_acquire x1 lc (fresh_enc _ _ _ E1)) as A. destruct (acquire_block x1 lc) as [c2 lc2]. rinv H. inversion H; subst.
    cbn [fst] in A.
    assert (N0 : W x) by (destruct bp; [inversion E; exact W_nil|exact (W_store_field _ _ _ _ _ reg_HEAP fpb1_le E)]).
    apply W_app; [exact N0|]. apply W_app; [exact (W_store_values _ _ reg_HEAP _ _ _ (cap_le bp) E0)|].
    apply W_app; [exact A|exact (IH _ _ _ _ _ _ E2)].
Qed.
Lemma W_release m r : (r < 16)%N -> W (match m with Release => release_block r | Share => [] end).
Proof. intros R. destruct m; [unfold release_block; wf|exact W_nil]. Qed.
Lemma W_load_fields : forall fuel to_load existing bp m freed lc c freed' lc',
  load_fields fuel to_load existing bp m freed lc = Ok (c, freed', lc') -> W c.
Proof.
  induction fuel as [|fuel IH]; intros to_load existing bp m freed lc c freed' lc' H; cbn [load_fields] in H; [discriminate|].
  destruct to_load as [|b0 tl].
  - inversion H; subst. exact W_nil.
  - rstep H. destruct x as [[c0 freed0] lc0]. rinv H. pose proof (IH _ _ _ _ _ _ _ _ _ E) as I0.
    pose proof (fresh_enc _ _ _ E0) as TM.
    assert (S0 : (SPILL_TEMP < SPILL_NUM)%N) by (vm_compute; reflexivity). pose proof reg_TT as RT.
    destruct x as [mr|mp]; cbn [temp_enc] in TM; rinv H; inversion H; subst.
    + assert (N2 : W x) by (destruct bp; [inversion E1; exact W_nil|exact (W_load_field _ _ _ _ _ TM fpb1_le E1)]).
      apply W_app; [exact I0|]. apply W_app; [apply W_release; exact TM|]. apply W_app; [exact N2|].
      exact (W_load_values _ _ _ TM _ _ _ _ _ (cap_le bp) E2).
    + assert (N2 : W x) by (destruct bp; [inversion E1; exact W_nil|exact (W_load_field _ _ _ _ _ RT fpb1_le E1)]).
      apply W_app; [exact I0|]. apply W_app; [destruct freed0; wf|]. apply (W_app [_]); [wf|].
      apply W_app; [apply W_release; exact RT|]. apply W_app; [exact N2|].
      apply W_app; [exact (W_load_values _ _ _ RT _ _ _ _ _ (cap_le bp) E2)|destruct bp; wf].
Qed.
Lemma W_load_register blk to_load existing lc c lc' : (blk < 16)%N ->
  load_register blk to_load existing lc = Ok (c, lc') -> W c.
Proof.
  unfold load_register. intros R H. rstep H. destruct x as [[th f1] lc1]. rstep H. destruct x as [[eb f2] lc2].
  pose proof (W_load_fields _ _ _ _ _ _ _ _ _ _ E) as I1. pose proof (W_load_fields _ _ _ _ _ _ _ _ _ _ E0) as I2.
  assert (K : W (fst (if_zero_then_else blk (Some REFERENCE_COUNT_OFFSET) th ([ADDIM blk REFERENCE_COUNT_OFFSET (-1)] ++ eb) lc2))).
  { apply (W_ite blk true th ([ADDIM blk REFERENCE_COUNT_OFFSET (-1)] ++ eb) lc2 R I1). apply W_app; [wf|exact I2]. }
  replace c with (fst (if_zero_then_else blk (Some REFERENCE_COUNT_OFFSET) th ([ADDIM blk REFERENCE_COUNT_OFFSET (-1)] ++ eb) lc2));
    [exact K|inversion H; reflexivity].
Qed.
Lemma W_x_load to_load existing lc c lc' : x_load to_load existing lc = Ok (c, lc') -> W c.
Proof.
  unfold x_load. intros H. destruct to_load as [|b0 tl].
  - inversion H; subst. exact W_nil.
  - rinv H. pose proof (fresh_enc _ _ _ E) as T. destruct x as [r|p]; cbn [temp_enc] in T.
    + exact (W_load_register _ _ _ _ _ _ T H).
    + rinv H. destruct x as [c1 l1]. cbn [fst snd] in H. inversion H; subst. apply (W_app [_]); [wf|].
      exact (W_load_register _ _ _ _ _ _ reg_TEMP E0).
Qed.
Lemma W_x_store to_store remaining lc c lc' : x_store to_store remaining lc = Ok (c, lc') -> W c.
Proof. unfold x_store. apply W_store_fields. Qed.

(* ---------- every statement, every program ---------- *)
Definition Lp (l : string) : Prop := is_hash_label l = false.
Lemma Lp_sub f y : Lp f -> Lp (f +++ "_" +++ y).
Proof. unfold Lp. destruct f as [|c f]; cbn; auto. Qed.
Lemma Lp_app_ s : is_hash_label s = false -> Lp (s +++ "_").
Proof. unfold Lp. destruct s as [|c s]; cbn; auto. Qed.

Section Prog.
Variable p : prog.
Hypothesis PN : plain_names p = true.
Hypothesis PT : plain_types p = true.
Hypothesis XS : xtors_small (ptypes p) = true.

Lemma L_def_p l ps : lookup_label (sigs_of p) l = Some ps -> Lp (show_ident l +++ "_").
Proof.
  unfold lookup_label, sigs_of. cbn [sg_labels].
  destruct (find (fun q => ident_eqb (fst q) l) (map (fun d => (dname d, dctx d)) (pdefs p))) as [q|] eqn:F; [|discriminate].
  intros _. apply find_some in F as [I E]. apply in_map_iff in I as (d & <- & Hd). cbn [fst] in E. apply ident_eqb_eq in E. subst l.
  apply Lp_app_. unfold plain_names in PN. rewrite forallb_forall in PN. specialize (PN d Hd).
  destruct (is_hash_label (show_ident (dname d))); [discriminate|reflexivity].
Qed.
Lemma L_type_p t xs k : type_xtors (sigs_of p) t = Some xs ->
  Lp (type_label t k) /\ forall x, Lp (type_label t k +++ "_" +++ x).
Proof.
  unfold type_xtors, sigs_of. cbn [sg_types]. destruct t as [|n]; [discriminate|].
  destruct (find (fun d => ident_eqb (tname d) n) (ptypes p)) as [d|] eqn:F; [|discriminate]. intros _.
  apply find_some in F as [I E]. apply ident_eqb_eq in E. subst n.
  assert (H : Lp (type_label (Decl (tname d)) k)).
  { unfold type_label. cbn [show_ty]. apply Lp_sub. unfold plain_types in PT. rewrite forallb_forall in PT. specialize (PT d I).
    unfold Lp. destruct (is_hash_label (label_of_type_name (show_ident (tname d)))); [discriminate|reflexivity]. }
  split; [exact H|]. intros x. apply Lp_sub. exact H.
Qed.

Lemma x86_translate_W defs lc code lc' :
  forallb (fun d => lin_check (sigs_of p) (dctx d) (dbody d) && stmt_imm (dbody d)) defs = true ->
  (forall d, In d defs -> In d (pdefs p)) ->
  translate x86_backend (ptypes p) defs lc = Ok (code, lc') -> W code.
Proof.
  intros G SUB H.
  apply (translate_QL x86_backend x86_backend_ok (sigs_of p) temp_enc W Lp W_nil W_app) with (defs := defs) (lc := lc) (lc' := lc');
    cbn [x86_backend x86_backend_with b_temporary_from_position b_temp b_return1 b_label b_mark b_jump b_jump_label b_jump_label_fixed
         b_jcc2 b_jcc1 b_load_immediate b_load_label b_add_and_jump b_arith b_mov b_print b_erase b_share_n b_store b_load
         b_store_temporary b_restore_temporary b_jump_length sg_types sigs_of]; try assumption.
  - exact tfp_enc.
  - vm_compute; reflexivity.
  - vm_compute; reflexivity.
  - intros l _. wf.
  - intros c. exact W_nil.
  - exact W_jump.
  - intros l HL. unfold Lp in HL. wf.
  - intros l HL. unfold Lp in HL. wf.
  - intros s a b l A Bb HL. apply W_app; [apply W_compare; assumption|apply W_jcc; exact HL].
  - intros s a l A HL. apply W_app; [apply W_compare_immediate; assumption|apply W_jcc; exact HL].
  - exact W_load_immediate.
  - intros t k T K. apply W_load_immediate; [exact T|apply tag_lit64; exact K].
  - intros t l T HL. apply W_load_label; assumption.
  - exact W_add_and_jump.
  - intros o t a b T A Bb N1 N2. apply W_arith; auto.
  - intros a A. apply W_arith; [left; discriminate|vm_compute; reflexivity|vm_compute; reflexivity|exact A].
  - exact W_mov.
  - intros nl t c T. apply W_print; exact T.
  - intros t l T. apply W_erase; exact T.
  - intros t n l T N. apply W_share; assumption.
  - intros a r l c l'. apply W_x_store.
  - intros a r l c l'. apply W_x_load.
  - exact W_store_temporary.
  - exact W_restore_temporary.
  - intros k. reflexivity.
  - reflexivity.
  - exact L_def_p.
  - exact L_type_p.
  - intros d Hd. destruct (lookup_label_def p d (SUB d Hd)) as [ps E]. exact (L_def_p _ _ E).
Qed.
End Prog.

(* ---------- the routine wrapper ---------- *)
Lemma W_move_arguments : forall n x, move_arguments n = Ok x -> W x.
Proof.
  intros n x H. destruct n as [|[|[|[|[|[|n]]]]]];
    try (vm_compute in H; inversion H; subst; apply W_forallb; vm_compute; reflexivity).
Qed.
Lemma W_setup n s : setup n = Ok s -> W s.
Proof.
  unfold setup. intros H. rinv H. inversion H; subst. apply (W_app [_; _; _; _; _; _; _; _; _; _]); [|exact (W_move_arguments _ _ E)].
  apply W_forallb. vm_compute. reflexivity.
Qed.
Lemma W_cleanup : W cleanup.
Proof. apply W_forallb. vm_compute. reflexivity. Qed.

(* ---------- from the three facts to asm_wf ---------- *)
Lemma mem_str_In x l : mem_str x l = true <-> In x l.
Proof.
  unfold mem_str. rewrite existsb_exists. split.
  - intros (y & I & E). apply String.eqb_eq in E. subst. exact I.
  - intros I. exists x. split; [exact I|apply String.eqb_refl].
Qed.
Lemma first_dup_NoDup l : NoDup l -> first_dup l = None.
Proof.
  induction l as [|x r IH]; intros N; [reflexivity|]. inversion N as [|? ? NI N']; subst. cbn [first_dup].
  destruct (mem_str x r) eqn:M; [apply mem_str_In in M; contradiction|]. exact (IH N').
Qed.
Lemma find_none_intro {X} (f : X -> bool) l : (forall x, In x l -> f x = false) -> find f l = None.
Proof.
  induction l as [|x l IH]; intros H; [reflexivity|]. cbn [find]. rewrite (H x (or_introl eq_refl)).
  apply IH. intros y Hy. apply H. right. exact Hy.
Qed.
Lemma defined_labels_filter cs :
  defined_labels cs = filter (fun l => negb (is_hash_label l)) (LabelGen.defs xdefs cs).
Proof.
  unfold defined_labels, LabelGen.defs. induction cs as [|c cs IH]; [reflexivity|]. cbn [flat_map]. rewrite filter_app, IH. f_equal.
  destruct c; try reflexivity. cbn [xdefs filter]. destruct (is_hash_label l); reflexivity.
Qed.
Lemma W_parts body :
  W body ->
  (forall l, In l (flat_map referenced body) -> is_hash_label l = false) /\
  (forall l, In l (calls body) -> l = "print_i64" \/ l = "println_i64") /\
  externs body = [] /\ (forall c, In c body -> instr_wf c = true).
Proof.
  intros H. unfold W in H. rewrite Forall_forall in H. repeat split.
  - intros l Hl. apply in_flat_map in Hl as (c & Hc & Hl). specialize (H c Hc). unfold cok in H.
    apply andb_true_iff in H as [H _]. apply andb_true_iff in H as [_ H]. rewrite forallb_forall in H. specialize (H l Hl).
    destruct (is_hash_label l); [discriminate|reflexivity].
  - intros l Hl. unfold calls in Hl. apply in_flat_map in Hl as (c & Hc & Hl). specialize (H c Hc).
    destruct c; cbn [In] in Hl; try contradiction. destruct Hl as [<-|[]]. unfold cok in H.
    apply andb_true_iff in H as [_ H]. apply orb_true_iff in H as [H|H]; apply String.eqb_eq in H; auto.
  - unfold externs. induction body as [|c body IH]; [reflexivity|]. cbn [flat_map].
    rewrite IH by (intros; apply H; right; assumption). pose proof (H c (or_introl eq_refl)) as Hc.
    destruct c; try reflexivity. unfold cok in Hc. rewrite andb_false_r in Hc. discriminate.
  - intros c Hc. specialize (H c Hc). unfold cok in H. apply andb_true_iff in H as [H _]. apply andb_true_iff in H as [H _]. exact H.
Qed.

Lemma asm_wf_intro body :
  W body ->
  NoDup (LabelGen.defs xdefs (preamble ++ body)) ->
  incl (LabelGen.refs referenced (preamble ++ body)) (LabelGen.defs xdefs (preamble ++ body)) ->
  ~ In "print_i64" (LabelGen.defs xdefs (preamble ++ body)) ->
  ~ In "println_i64" (LabelGen.defs xdefs (preamble ++ body)) ->
  asm_wf (preamble ++ body) = None.
Proof.
  intros HW ND RF P1 P2. destruct (W_parts body HW) as (NH & CL & EX & IW).
  set (cs := preamble ++ body) in *.
  assert (DL : forall l, In l (defined_labels cs) <-> In l (LabelGen.defs xdefs cs) /\ is_hash_label l = false).
  { intros l. rewrite defined_labels_filter, filter_In. destruct (is_hash_label l); cbn; intuition discriminate. }
  assert (RB : flat_map referenced cs = flat_map referenced body) by (unfold cs; rewrite flat_map_app; reflexivity).
  assert (CB : calls cs = calls body) by (unfold cs, calls; rewrite flat_map_app; reflexivity).
  assert (EB : externs cs = ["print_i64"; "println_i64"]).
  { unfold cs, externs. rewrite flat_map_app. fold (externs body). rewrite EX. reflexivity. }
  unfold asm_wf.
  rewrite first_dup_NoDup by (rewrite defined_labels_filter; apply NoDup_filter; exact ND).
  rewrite find_none_intro.
  2:{ intros l Hl. apply negb_false_iff. apply mem_str_In. apply DL. split.
      - apply RF. exact Hl.
      - apply NH. rewrite <- RB. exact Hl. }
  rewrite find_none_intro.
  2:{ intros l Hl. rewrite CB in Hl. apply andb_false_iff. left. apply negb_false_iff. apply mem_str_In. rewrite EB.
      destruct (CL l Hl) as [-> | ->]; cbn; auto. }
  rewrite find_none_intro.
  2:{ intros l Hl. rewrite EB in Hl. destruct (mem_str l (defined_labels cs)) eqn:M; [|reflexivity]. exfalso.
      apply mem_str_In in M. apply DL in M as [M _]. destruct Hl as [<-|[<-|[]]]; contradiction. }
  rewrite find_none_intro; [reflexivity|].
  intros c Hc. apply negb_false_iff. unfold cs in Hc. apply in_app_or in Hc as [Hc|Hc]; [|exact (IW c Hc)].
  cbn in Hc. repeat (destruct Hc as [<-|Hc]; [reflexivity|]). contradiction.
Qed.

(* the two print routines are never generated labels nor definition labels *)
Lemma print_not_pr g : pr g <> "print_i64".
Proof.
  intros E. destruct g as [s|k|T k|T k X].
  - pose proof (pr_def_ends s) as H. rewrite E in H. discriminate.
  - cbn in E. discriminate.
  - pose proof (pr_tl_has_usd T k) as H. rewrite E in H. discriminate.
  - pose proof (pr_cl_has_usd T k X) as H. rewrite E in H. discriminate.
Qed.
Lemma println_not_pr g : pr g <> "println_i64".
Proof.
  intros E. destruct g as [s|k|T k|T k X].
  - pose proof (pr_def_ends s) as H. rewrite E in H. discriminate.
  - cbn in E. discriminate.
  - pose proof (pr_tl_has_usd T k) as H. rewrite E in H. discriminate.
  - pose proof (pr_cl_has_usd T k X) as H. rewrite E in H. discriminate.
Qed.

Lemma plain_names_same p : plain_names_b p = plain_names p.
Proof. reflexivity. Qed.
Lemma plain_types_same p : plain_types_b p = plain_types p.
Proof. reflexivity. Qed.

Lemma compile_translate {Code Temp} (B : backend Code Temp) p lc c n lc' :
  compile B p lc = Ok (c, n, lc') -> translate B (ptypes p) (pdefs p) lc = Ok (c, lc').
Proof.
  unfold compile. destruct (pdefs p) as [|d0 ds]; [discriminate|]. intros H. rstep H. destruct x as [c0 l1].
  cbn [fst snd] in H. inversion H; subst. exact E.
Qed.

Theorem x86_compile_asm_wf p lc cs n lc' :
  labels_guard p = true -> calls_guard p = true -> lin_check_prog p = true ->
  plain_names p = true -> plain_types p = true -> imm_guard p = true ->
  x86_compile p lc = Ok (cs, n, lc') -> asm_wf cs = None.
Proof.
  intros G1 G2 LIN PN PT IG H.
  destruct (x86_routine_labels p lc cs n lc' G1 G2 H) as (ND & RF & _).
  unfold x86_compile, x86_compile_with, into_x86_64_routine in H. rstep H. destruct x as [[is n0] l0]. rinv H. inversion H; subst. clear H.
  match goal with E0 : rbind _ _ = Ok _ |- _ => rename E0 into ES end. rstep ES. rename E0 into E1.
  match type of ES with Ok ?t = Ok ?v => assert (EV : v = t) by congruence; subst v; clear ES end.
  unfold imm_guard in IG. apply andb_true_iff in IG as [IG XS].
  assert (GD : forallb (fun d => lin_check (sigs_of p) (dctx d) (dbody d) && stmt_imm (dbody d)) (pdefs p) = true).
  { apply forallb_forall. intros d Hd. unfold lin_check_prog in LIN. rewrite forallb_forall in LIN, IG.
    specialize (LIN d Hd). specialize (IG d Hd). unfold lin_check_def in LIN. rewrite LIN, IG. reflexivity. }
  clear LIN IG.
  (* the labels of the body *)
  pose proof (compile_translate _ _ _ _ _ _ E) as E0.
  unfold labels_guard in G1.
  destruct (translate_unique x86_backend xdefs referenced x86_labels_ok _ _ _ _ _ G1 E0) as (_ & _ & I).
  destruct (LabelsX86.nolab_plain _ (nolab_setup_x86 _ _ E1)) as [D0 R0].
  assert (DE : LabelGen.defs xdefs (preamble ++ x ++ is ++ cleanup) = "asm_main" :: LabelGen.defs xdefs is ++ ["cleanup"]).
  { rewrite !(defs_app xdefs), D0. reflexivity. }
  assert (NP : forall s, (forall g, pr g <> s) -> s <> "asm_main" -> s <> "cleanup" ->
                         ~ In s (LabelGen.defs xdefs (preamble ++ x ++ is ++ cleanup))).
  { intros s NG N1 N2 X. rewrite DE in X. destruct X as [X|X]; [congruence|]. apply in_app_or in X as [X|[X|[]]]; [|congruence].
    destruct (I _ X) as (g & Eg & _). symmetry in Eg. exact (NG g Eg). }
  apply asm_wf_intro; [|exact ND|exact RF|apply NP; [exact print_not_pr|discriminate|discriminate]
                                          |apply NP; [exact println_not_pr|discriminate|discriminate]].
  apply W_app; [exact (W_setup _ _ E1)|]. apply W_app; [|exact W_cleanup].
  eapply (x86_translate_W p PN PT XS (pdefs p)); [exact GD|auto|exact E0].
Qed.

(* ---------- code_small from the size bound of C19 ---------- *)
Lemma size_of_le cs : (size_of cs <= 16 * Z.of_N (AxSize.len cs))%Z.
Proof.
  unfold AxSize.len. induction cs as [|c cs IH]; [cbn; lia|]. cbn [size_of List.length].
  assert (isize c <= 16)%Z by (destruct c; cbn; lia). lia.
Qed.
Lemma small_arith (s : Z) (l c : N) :
  (l <= 30 + 79 * c)%N -> (c <= SIZE_MAX)%N -> (s <= 16 * Z.of_N l)%Z -> (s < 4611686018427387904 - CODE_BASE)%Z.
Proof. unfold SIZE_MAX, CODE_BASE. lia. Qed.
Lemma size_guard_le p : size_guard p = true -> (cg_bound_defs (pdefs p) <= SIZE_MAX)%N.
Proof. intros SG. apply N.leb_le. exact SG. Qed.
Lemma x86_K_79 : x86_K = 79%N.
Proof. reflexivity. Qed.
Lemma x86_bound_eq p : x86_bound p = (30 + x86_K * cg_bound_defs (pdefs p))%N.
Proof. reflexivity. Qed.
Theorem x86_compile_code_small p lc cs n lc' :
  lin_check_prog p = true -> size_guard p = true ->
  x86_compile p lc = Ok (cs, n, lc') -> code_small cs = true.
Proof.
  intros LIN SG H. pose proof (x86_compile_size p lc cs n lc' (lin_check_prog_sub_wf p LIN) H) as B.
  rewrite x86_bound_eq, x86_K_79 in B.
  apply Z.ltb_lt. exact (small_arith _ _ _ B (size_guard_le p SG) (size_of_le cs)).
Qed.
