(* C08, heap statements, the memory layer on the abstract allocator: the code of `store` (Let / Create)
   and of `load` (Switch / Invoke) for objects of at most three fields (ONE block) refines
   `Heap.alloc` / `Heap.load_object 0` of Model/Heap.v through `abs_heap`, with the data words, the
   registers and the frame.  Built on the word-level theorems of Proof/RVSel.v
   (rv_store_one_block_refines, rv_load_one_block_release_refines, rv_load_one_block_share_refines) and on
   Proof/RVHeapAbs.v.  The RISC-V counterpart of Proof/X86MemStoreFull.v / X86MemLoadFull.v (one block). *)
From Coq Require Import List ZArith NArith String Bool Lia FMapPositive.
From SCC Require Import Base.Sexp Lang.AxSyn Sem.AxSem Sem.AxHeap Model.Backend Model.RV Sem.RVSem Generated.Constants
     Proof.RVSel Proof.RVHeapAbs Proof.RVHDefs.
From SCC Require Model.Heap Proof.RVSubst.
Import ListNotations.
Open Scope list_scope.
Open Scope Z_scope.

(* the register of temporary position k (position i of the context owns 2i and 2i+1) *)
Definition rtp (k : N) : reg := (k + 4)%N.
Lemma pos_reg_rtp n i : pos_reg n i = rtp (2 * N.of_nat i + tnum_n n).
Proof. unfold pos_reg, rtp. change RESERVED with 4%N. lia. Qed.

(* the values of the variables to store / the slots they are stored into *)
Definition vals_ok (s : rstate) (val : N -> Z) (E : nat) (bs : list binding) : Prop :=
  forall i b, nth_error bs i = Some b ->
    rget s (rtp (2 * N.of_nat (E + i) + 1)) = Some (val (2 * N.of_nat (E + i) + 1)%N) /\
    (bchi b <> Ext -> rget s (rtp (2 * N.of_nat (E + i))) = Some (val (2 * N.of_nat (E + i))%N)).
Definition fst_slot (val : N -> Z) (pos : nat) (b : binding) : Z :=
  match bchi b with Ext => 0 | _ => val (2 * N.of_nat pos)%N end.
Definition snd_slot (val : N -> Z) (pos : nat) : Z := val (2 * N.of_nat pos + 1)%N.
Fixpoint fsts (val : N -> Z) (E : nat) (bs : list binding) : list Z :=
  match bs with [] => [] | b :: r => fst_slot val E b :: fsts val (S E) r end.
Lemma fsts_length val : forall bs E, List.length (fsts val E bs) = List.length bs.
Proof. induction bs as [|b r IH]; intros E; cbn; auto. Qed.

(* the pointer word of field i of an object with n <= 3 fields at block q (its data word is 8 further) *)
Definition slot_addr (q : Z) (n i : nat) : Z := q + 16 * Z.of_nat (3 - n + i + 1).

(* ---------- counts that do not wrap ---------- *)
Definition wbounded (k : Z) (h : aheap) : Prop :=
  (forall x, is_blk x -> min_int + k <= words h x <= max_int) /\ min_int + k <= fp h <= max_int.
Lemma is_blk_range x : is_blk x -> min_int + 3 <= x <= max_int.
Proof. intros (k & Hk & -> & H). unfold min_int, max_int, two63, HEAP_BASE, HEAP_SIZE in *. lia. Qed.
Lemma wbounded_erase k h c : wbounded (k + 1) h -> 0 <= k <= 2 -> (c = 0 \/ is_blk c) -> wbounded k (a_erase c h).
Proof.
  intros [B1 B2] Hk Hc. unfold a_erase. destruct (Z.eqb_spec c 0) as [->|C0]; [split; [intros x Hx; specialize (B1 x Hx); lia|lia]|].
  destruct Hc as [?|Hc]; [contradiction|]. pose proof (is_blk_range c Hc).
  destruct (Z.eqb_spec (words h c) 0) as [E0|N0]; split; cbn [words fp]; try lia.
  - intros x Hx. unfold upd. destruct (x =? c); [lia|]. specialize (B1 x Hx). lia.
  - intros x Hx. unfold upd. destruct (Z.eqb_spec x c) as [->|NE]; [|specialize (B1 x Hx); lia].
    specialize (B1 c Hc). rewrite wrap_small by (unfold min_int, max_int, two63 in *; lia). lia.
Qed.
Lemma child_ok_of_bounded k h c : wbounded (k + 1) h -> 0 <= k -> (c = 0 \/ is_blk c) -> child_ok h c.
Proof.
  intros [B1 _] Hk Hc. split; [exact Hc|]. intros C0 _. destruct Hc as [?|Hc]; [contradiction|]. specialize (B1 c Hc). lia.
Qed.
(* the three children of the head of the lazy list *)
Lemma children_from_bounded h1 b :
  is_blk b -> wbounded 3 h1 ->
  (words h1 (b + 16) = 0 \/ is_blk (words h1 (b + 16))) ->
  (words h1 (b + 32) = 0 \/ is_blk (words h1 (b + 32))) ->
  (words h1 (b + 48) = 0 \/ is_blk (words h1 (b + 48))) ->
  let c0 := words h1 (b + 16) in let c1 := words h1 (b + 32) in let c2 := words h1 (b + 48) in
  child_ok h1 c0 /\ child_ok (a_erase c0 h1) c1 /\ child_ok (a_erase c1 (a_erase c0 h1)) c2.
Proof.
  intros Hb B3 S0 S1 S2 c0 c1 c2.
  pose proof (wbounded_erase 2 h1 c0 B3 ltac:(lia) S0) as B2.
  pose proof (wbounded_erase 1 _ c1 B2 ltac:(lia) S1) as B1.
  split; [apply (child_ok_of_bounded 2); auto; lia|]. split; [apply (child_ok_of_bounded 1); auto; lia|].
  apply (child_ok_of_bounded 0); auto; lia.
Qed.

(* ================= store of at most three variables = Heap.alloc (pad 3 fields) ================= *)
Lemma reg_or0_blk s r : is_blk (reg_or0 s r) -> rget s r = Some (reg_or0 s r).
Proof. unfold reg_or0. destruct (rget s r); [reflexivity|]. intros H. apply is_blk_pos in H. lia. Qed.
Lemma reg_or0_nz s r : reg_or0 s r <> 0 -> rget s r = Some (reg_or0 s r).
Proof. unfold reg_or0. destruct (rget s r); [reflexivity|]. intros H. contradiction. Qed.

Lemma upd_same w a v : upd w a v a = v.
Proof. unfold upd. now rewrite Z.eqb_refl. Qed.
Lemma upd_other w a v x : x <> a -> upd w a v x = w x.
Proof. intros H. unfold upd. destruct (Z.eqb_spec x a); congruence. Qed.

Lemma upd_eq w a v x : x = a -> upd w a v x = v.
Proof. intros ->. apply upd_same. Qed.
Ltac upds := repeat first [rewrite upd_eq by (unfold slot_addr; lia) | rewrite upd_other by (unfold slot_addr; lia)].

Ltac fo := change (field_offset Fst 0) with 16 in *; change (field_offset Fst 1) with 32 in *; change (field_offset Fst 2) with 48 in *;
           change (field_offset Snd 0) with 24 in *; change (field_offset Snd 1) with 40 in *; change (field_offset Snd 2) with 56 in *.

(* the words after the stores of 1, 2 or 3 variables into block b (cases of sv_spec) *)
Definition stored_words (s : rstate) (E : nat) (bs : list binding) (b : Z) (w : Z -> Z) : Z -> Z :=
  sv_spec s (rev bs) E b 3 w.

Lemma vals_regv s val E bs i b0 :
  vals_ok s val E bs -> nth_error bs i = Some b0 ->
  regv s (pos_reg Snd (E + i)) = snd_slot val (E + i) /\
  (match bchi b0 with Ext => 0 | _ => regv s (pos_reg Fst (E + i)) end) = fst_slot val (E + i) b0 /\
  rget s (pos_reg Snd (E + i)) <> None /\ (bchi b0 <> Ext -> rget s (pos_reg Fst (E + i)) <> None).
Proof.
  intros V H. destruct (V i b0 H) as [VS VF]. rewrite !pos_reg_rtp. cbn [tnum_n]. rewrite N.add_0_r.
  unfold regv, snd_slot, fst_slot. rewrite VS. split; [reflexivity|]. split.
  - destruct (bchi b0) eqn:K; try reflexivity; rewrite VF by congruence; reflexivity.
  - split; [congruence|]. intros K. rewrite (VF K). congruence.
Qed.

Section Store.
Variable im : image.

Theorem rv_store_full pos to_store remaining lc cs lc' s F val :
  r_store to_store remaining lc = Ok (cs, lc') -> to_store <> [] -> (List.length to_store <= 3)%nat ->
  placed im pos cs ->
  vals_ok s val (List.length remaining) to_store ->
  let E := List.length remaining in let n := List.length to_store in
  let fields := fsts val E to_store in
  acq_ok (abs_heap F s) ->
  let res := Heap.alloc (Heap.pad 3 fields) (abs_heap F s) in
  exists s', star im pos s (padd pos (List.length cs)) s' /\
    st_eqB (abs_heap (Heap.frontier (snd res)) s') (snd res) /\
    fst res = Heap.heap (abs_heap F s) /\
    rget s' (rtp (2 * N.of_nat E)) = Some (fst res) /\
    (forall q, (q < 2 * N.of_nat E)%N -> rget s' (rtp q) = rget s (rtp q)) /\
    (forall i b, nth_error to_store i = Some b ->
        hword s' (slot_addr (fst res) n i) = fst_slot val (E + i) b /\
        hword s' (slot_addr (fst res) n i + 8) = snd_slot val (E + i)) /\
    (forall j, (j < 3 - n)%nat -> hword s' (fst res + 16 * Z.of_nat (j + 1)) = 0) /\
    (forall a, ~ is_blk a -> (a < fst res \/ fst res + 64 <= a) -> hword s' a = hword s a).
Proof.
  intros ST NE LE PL VO E n fields AQ res.
  destruct AQ as (A1 & A2 & A3 & A4). cbn [abs_heap Heap.heap Heap.free Heap.m] in A1, A2, A3, A4.
  pose proof (reg_or0_blk s HEAP A1) as RH. pose proof (reg_or0_nz s FREE A2) as RF.
  set (rv := reg_or0 s HEAP) in *. set (h2 := reg_or0 s FREE) in *.
  pose proof (represents_own s rv h2 RH RF) as RP. set (h := own_heap s) in *.
  assert (EH : hp h = rv) by reflexivity. assert (EF : fp h = h2) by reflexivity.
  (* the words after the stores *)
  set (w1 := sv_spec s (rev to_store) E rv 3 (hword s)).
  set (h1 := {| words := w1; hp := rv; fp := h2 |}).
  (* sv_defined and the stored words, by cases on the number of variables *)
  assert (CH : sv_defined s (rev to_store) E /\
    w1 rv = hword s rv /\
    (forall i b, nth_error to_store i = Some b ->
       w1 (slot_addr rv n i) = fst_slot val (E + i) b /\ w1 (slot_addr rv n i + 8) = snd_slot val (E + i)) /\
    (forall j, (j < 3 - n)%nat -> w1 (rv + 16 * Z.of_nat (j + 1)) = 0) /\
    (forall a, (a < rv + 16 \/ rv + 64 <= a) -> w1 a = hword s a) /\
    [w1 (rv + 16); w1 (rv + 32); w1 (rv + 48)] = Heap.pad 3 fields).
  { unfold w1, fields, n. clear res ST PL A3 A4.
    destruct to_store as [|b0 [|b1 [|b2 [|b3 r]]]]; cbn [List.length] in LE; try lia; try congruence.
    - destruct (vals_regv s val E _ O b0 VO eq_refl) as (S0 & F0 & D0 & G0). rewrite Nat.add_0_r in *.
      cbn [rev app sv_spec sv_defined List.length fsts Heap.pad repeat Nat.sub fold_left Nat.add].
      rewrite !Nat.add_0_r. change (3 - 1)%N with 2%N. change (nseq 0 2) with [0%N; 1%N]. cbn [fold_left]. fo.
      rewrite S0, F0. split; [auto|]. split; [upds; reflexivity|]. split.
      { intros i b Hi. destruct i as [|[|i]]; cbn in Hi; try discriminate. inversion Hi; subst b. rewrite Nat.add_0_r.
        split; upds; reflexivity. }
      split; [intros j Hj; destruct j as [|[|j]]; cbn in Hj; try lia; upds; reflexivity|].
      split; [intros a Ha; upds; reflexivity|]. upds. reflexivity.
    - destruct (vals_regv s val E _ O b0 VO eq_refl) as (S0 & F0 & D0 & G0).
      destruct (vals_regv s val E _ 1%nat b1 VO eq_refl) as (S1 & F1 & D1 & G1). rewrite Nat.add_0_r in *.
      cbn [rev app sv_spec sv_defined List.length fsts Heap.pad repeat Nat.sub fold_left Nat.add].
      rewrite !Nat.add_0_r. change (3 - 1)%N with 2%N. change (2 - 1)%N with 1%N. change (nseq 0 1) with [0%N]. cbn [fold_left]. fo.
      replace (S E) with (E + 1)%nat by lia.
      rewrite S0, F0, S1, F1. split; [auto|]. split; [upds; reflexivity|]. split.
      { intros i b Hi. destruct i as [|[|[|i]]]; cbn in Hi; try discriminate; inversion Hi; subst b; rewrite ?Nat.add_0_r;
          (split; upds; reflexivity). }
      split; [intros j Hj; destruct j as [|j]; cbn in Hj; try lia; upds; reflexivity|].
      split; [intros a Ha; upds; reflexivity|]. upds. reflexivity.
    - destruct (vals_regv s val E _ O b0 VO eq_refl) as (S0 & F0 & D0 & G0).
      destruct (vals_regv s val E _ 1%nat b1 VO eq_refl) as (S1 & F1 & D1 & G1).
      destruct (vals_regv s val E _ 2%nat b2 VO eq_refl) as (S2 & F2 & D2 & G2). rewrite Nat.add_0_r in *.
      cbn [rev app sv_spec sv_defined List.length fsts Heap.pad repeat Nat.sub fold_left Nat.add].
      rewrite !Nat.add_0_r. change (3 - 1)%N with 2%N. change (2 - 1)%N with 1%N. change (1 - 1)%N with 0%N. change (nseq 0 0) with (@nil N). cbn [fold_left]. fo.
      replace (S (S E)) with (E + 2)%nat by lia. replace (S E) with (E + 1)%nat by lia.
      rewrite S0, F0, S1, F1, S2, F2. split; [auto 7|]. split; [upds; reflexivity|]. split.
      { intros i b Hi. destruct i as [|[|[|i]]]; cbn in Hi; try discriminate; try (destruct i; discriminate); inversion Hi; subst b; rewrite ?Nat.add_0_r;
          (split; upds; reflexivity). }
      split; [intros j Hj; cbn in Hj; lia|].
      split; [intros a Ha; upds; reflexivity|]. upds. reflexivity. }
  destruct CH as (SD & WH & WF & WZ & WO & WP).
  (* the abstract state after the stores is the state `alloc` acquires from *)
  set (a := abs_heap F s) in *.
  set (A := {| Heap.m := Heap.set_ps (Heap.m a) (Heap.heap a) (Heap.pad 3 fields); Heap.heap := Heap.heap a; Heap.free := Heap.free a; Heap.frontier := Heap.frontier a |}).
  assert (EA : st_eqB (habs F h1) A).
  { unfold A, a. cbn [abs_heap Heap.m Heap.heap Heap.free Heap.frontier]. fold rv h2. repeat split; auto.
    intros x Hx. cbn [habs Heap.m words h1]. unfold Heap.set_ps, Heap.upd. destruct (Z.eqb_spec x rv) as [->|NE'].
    - cbn [abs_mem Heap.hdr]. rewrite WH, WP. reflexivity.
    - unfold abs_mem. destruct Hx as (k & Hk & -> & Hx), A1 as (j & Hj & Ej & A1). rewrite !WO by lia. reflexivity. }
  (* preconditions of acquire on h1 *)
  assert (W1H : words h1 (hp h1) = hword s rv) by exact WH.
  assert (FB : words h1 (hp h1) = 0 -> is_blk (fp h1)) by (intros E0; apply A3; cbn [abs_mem Heap.hdr]; rewrite <- W1H; exact E0).
  assert (FNE : words h1 (hp h1) = 0 -> words h1 (fp h1) <> 0 -> h2 <> rv).
  { intros E0 FN EQ. apply FN. cbn [fp h1]. rewrite EQ. exact E0. }
  assert (CHD : words h1 (hp h1) = 0 -> words h1 (fp h1) <> 0 ->
     let hh := {| words := upd (words h1) (fp h1) 0; hp := fp h1; fp := words h1 (fp h1) |} in
     let c0 := words hh (fp h1 + 16) in let c1 := words hh (fp h1 + 32) in let c2 := words hh (fp h1 + 48) in
     child_ok hh c0 /\ child_ok (a_erase c0 hh) c1 /\ child_ok (a_erase c1 (a_erase c0 hh)) c2).
  { intros E0 FN. pose proof (FB E0) as HB2. pose proof (FNE E0 FN) as NEQ. cbn [fp hp h1 words] in *.
    assert (OUT : forall off, 0 <= off < 64 -> w1 (h2 + off) = hword s (h2 + off)).
    { intros off Ho. apply WO. destruct HB2 as (k & Hk & Ek & _), A1 as (j & Hj & Ej & _). rewrite Ek, Ej in *. lia. }
    assert (E0' : Heap.hdr (abs_mem s rv) = 0) by (cbn [abs_mem Heap.hdr]; rewrite <- WH; exact E0).
    assert (O0 : w1 h2 = hword s h2) by (pose proof (OUT 0 ltac:(lia)) as X; rewrite Z.add_0_r in X; exact X).
    assert (FN' : Heap.hdr (abs_mem s h2) <> 0) by (cbn [abs_mem Heap.hdr]; rewrite <- O0; exact FN).
    destruct (A4 E0' FN') as (SO & BD & BF). cbn [abs_mem Heap.ps Heap.hdr] in SO, BD, BF.
    inversion SO as [|? ? S0 SO']; subst. inversion SO' as [|? ? S1 SO'']; subst. inversion SO'' as [|? ? S2 _]; subst.
    refine (children_from_bounded {| words := upd w1 h2 0; hp := h2; fp := w1 h2 |} h2 HB2 _ _ _ _).
    - split; cbn [words fp].
      + intros x Hx. unfold upd. destruct (x =? h2); [unfold min_int, max_int, two63; lia|].
        destruct (Z.eq_dec x rv) as [->|NX]; [rewrite WH; apply BD; exact A1|].
        rewrite WO; [apply BD; exact Hx|]. destruct Hx as (k & Hk & -> & _), A1 as (j & Hj & Ej & _). rewrite Ej in *. lia.
      + rewrite O0. exact BF.
    - cbn [words]. rewrite upd_other by lia. rewrite OUT by lia. exact S0.
    - cbn [words]. rewrite upd_other by lia. rewrite OUT by lia. exact S1.
    - cbn [words]. rewrite upd_other by lia. rewrite OUT by lia. exact S2. }
  destruct (habs_acquire F h1 A1 FB CHD) as (AF & AS & CO).
  (* the code *)
  destruct (rv_store_one_block_refines im pos to_store remaining lc cs lc' s h NE LE ST PL RP) as (s' & X1 & X2 & X3 & X4).
  { rewrite EH. now apply is_blk_valid_block. }
  { exact SD. }
  { intros E0. rewrite EF. apply is_blk_valid_block. apply FB. exact E0. }
  { exact CO. }
  (* alloc on the abstract side *)
  assert (AQA : fst (Heap.acquire (habs F h1)) = fst (Heap.acquire A) /\ st_eqB (snd (Heap.acquire (habs F h1))) (snd (Heap.acquire A))).
  { apply acquire_st_eqB; [exact EA| | |].
    - unfold A, a. cbn [Heap.heap abs_heap]. exact A1.
    - unfold A, a. cbn [Heap.heap Heap.m abs_heap Heap.free Heap.hdr]. unfold Heap.set_ps. rewrite Heap.upd_same. cbn [Heap.hdr]. exact A3.
    - unfold A, a. cbn [Heap.heap Heap.m abs_heap Heap.free]. fold rv h2. unfold Heap.set_ps. rewrite Heap.upd_same. cbn [Heap.hdr].
      intros E0. unfold Heap.upd. destruct (Z.eqb_spec h2 rv) as [EQ|NEQ]; cbn [Heap.hdr Heap.ps].
      + intros FN. exfalso. apply FN. exact E0.
      + intros FN c Hc. destruct (A4 E0 FN) as (SO & _). unfold slots_ok in SO. rewrite Forall_forall in SO. apply SO. exact Hc. }
  destruct AQA as (AQ1 & AQ2).
  assert (RES : res = Heap.acquire A) by reflexivity.
  assert (FR : Heap.frontier (snd (Heap.acquire (habs F h1))) = Heap.frontier (snd res)) by (rewrite RES; destruct AQ2 as (_ & _ & X & _); exact X).
  assert (HW : forall x, hword s' x = words (snd (a_acquire h1)) x) by (destruct X2 as (X & _); exact X).
  assert (NB : forall x, ~ is_blk x -> hword s' x = w1 x).
  { intros x Hx. rewrite HW. change w1 with (words h1). apply a_acquire_nonblk; [exact A1|exact FB| |exact Hx].
    intros E0 FN. destruct (CHD E0 FN) as ((B0 & _) & (B1 & _) & (B2 & _)). cbn [words fp hp h1] in *.
    rewrite !upd_other in B0, B1, B2 by lia. auto. }
  assert (FST : fst res = rv) by (unfold res; rewrite alloc_fst; reflexivity).
  exists s'. split; [exact X1|]. split; [|split; [exact FST|split; [|split; [|split; [|split]]]]].
  - rewrite <- FR. eapply st_eqB_trans; [apply (represents_abs _ _ _ X2)|].
    eapply st_eqB_trans; [exact AS|]. rewrite RES. exact AQ2.
  - rewrite FST. rewrite pos_reg_rtp in X3. cbn [tnum_n] in X3. rewrite N.add_0_r in X3. exact X3.
  - intros q Hq. apply X4; unfold rtp; [lia|]. rewrite pos_reg_rtp. cbn [tnum_n]. unfold rtp. fold E. lia.
  - intros i b Hi. rewrite FST. destruct (WF i b Hi) as [W1 W2].
    assert (Li : (i < n)%nat) by (apply nth_error_Some; unfold n; congruence).
    rewrite !NB; [auto| |]; unfold slot_addr.
    + rewrite <- Z.add_assoc. apply not_blk_off; [exact A1|lia].
    + apply not_blk_off; [exact A1|lia].
  - intros j Hj. rewrite FST. rewrite NB; [apply WZ; exact Hj|]. apply not_blk_off; [exact A1|lia].
  - intros x Hx OUT. rewrite FST in OUT. rewrite NB by exact Hx. apply WO. lia.
Qed.
End Store.

(* ================= load of at most three variables = Heap.load_object 0 ================= *)
Definition is_ext (b : binding) : bool := match bchi b with Ext => true | _ => false end.
Lemma is_ext_true b : is_ext b = true <-> bchi b = Ext.
Proof. unfold is_ext. destruct (bchi b); split; intros; congruence. Qed.

Lemma not_ext b : bchi b <> Ext -> is_ext b = false.
Proof. unfold is_ext. destruct (bchi b); congruence. Qed.
Lemma pos_reg_ne n i n' i' : (n, i) <> (n', i') -> pos_reg n i <> pos_reg n' i'.
Proof. intros NE E. apply pos_reg_inj in E as [-> ->]. now apply NE. Qed.

(* one step of the release-mode register specification, uniformly in the kind of the variable *)
Lemma lv_step w x rest E b ff rg r :
  lv_spec w (x :: rest) E b ff rg r =
  lv_spec w rest E b (ff - 1)
    (fun r => if N.eqb r (pos_reg Snd (E + List.length rest)) then Some (w (b + field_offset Snd (ff - 1)))
              else if negb (is_ext x) && N.eqb r (pos_reg Fst (E + List.length rest)) then Some (w (b + field_offset Fst (ff - 1)))
              else rg r) r.
Proof.
  cbn [lv_spec]. apply lv_spec_pointwise. unfold is_ext.
  assert (NE : pos_reg Fst (E + List.length rest) <> pos_reg Snd (E + List.length rest)) by (apply pos_reg_ne; congruence).
  destruct (bchi x); cbn [negb andb]; repeat match goal with |- context [N.eqb ?a ?b] => destruct (N.eqb_spec a b) end; congruence.
Qed.
(* the same for the share mode: registers and heap *)
Lemma lvs_step_fst x rest E b ff rg h r :
  fst (lvs_spec (x :: rest) E b ff rg h) r =
  fst (lvs_spec rest E b (ff - 1)
    (fun r => if N.eqb r (pos_reg Snd (E + List.length rest)) then Some (words h (b + field_offset Snd (ff - 1)))
              else if negb (is_ext x) && N.eqb r (pos_reg Fst (E + List.length rest)) then Some (words h (b + field_offset Fst (ff - 1)))
              else rg r)
    (if is_ext x then h else a_share (words h (b + field_offset Fst (ff - 1))) 1 h)) r.
Proof.
  cbn [lvs_spec]. unfold is_ext.
  assert (NE : pos_reg Fst (E + List.length rest) <> pos_reg Snd (E + List.length rest)) by (apply pos_reg_ne; congruence).
  destruct (bchi x); cbn [negb andb]; apply lvs_spec_pointwise; unfold rupd;
    repeat match goal with |- context [N.eqb ?a ?b] => destruct (N.eqb_spec a b) end; congruence.
Qed.
Lemma lvs_step_snd x rest E b ff rg h :
  snd (lvs_spec (x :: rest) E b ff rg h) =
  snd (lvs_spec rest E b (ff - 1) rg (if is_ext x then h else a_share (words h (b + field_offset Fst (ff - 1))) 1 h)).
Proof. cbn [lvs_spec]. unfold is_ext. destruct (bchi x); apply lvs_spec_heap_indep. Qed.
Lemma lvs_ok_step x rest b ff h :
  lvs_ok (x :: rest) b ff h <->
  (is_ext x = false -> words h (b + field_offset Fst (ff - 1)) = 0 \/ valid_addr (words h (b + field_offset Fst (ff - 1)))) /\
  lvs_ok rest b (ff - 1) (if is_ext x then h else a_share (words h (b + field_offset Fst (ff - 1))) 1 h).
Proof. cbn [lvs_ok]. unfold is_ext. destruct (bchi x); intuition congruence. Qed.

Lemma a_share_slots p n h b off : (p = 0 \/ is_blk p) -> is_blk b -> 0 < off < 64 -> words (a_share p n h) (b + off) = words h (b + off).
Proof. intros Hp Hb Ho. apply a_share_nonblk; [exact Hp|now apply not_blk_off]. Qed.

(* two shares commute (on blocks) *)
Lemma share_comm a b n m s : st_eqB (Heap.share a n (Heap.share b m s)) (Heap.share b m (Heap.share a n s)).
Proof.
  unfold Heap.share. destruct (Z.eqb_spec a 0), (Z.eqb_spec b 0); try apply st_eqB_refl.
  repeat split; auto. intros x _. cbn [Heap.m]. unfold Heap.set_hdr, Heap.upd.
  destruct (Z.eqb_spec x a) as [EA|NA], (Z.eqb_spec x b) as [EB|NB]; subst; cbn [Heap.hdr Heap.ps];
    rewrite ?Z.eqb_refl; cbn [Heap.hdr Heap.ps];
    repeat match goal with |- context [?u =? ?v] => destruct (Z.eqb_spec u v); try congruence end; cbn [Heap.hdr Heap.ps]; f_equal; lia.
Qed.

Ltac regdec :=
  repeat match goal with
         | |- context [N.eqb ?a ?b] =>
             destruct (N.eqb_spec a b);
             [try (exfalso; unfold rtp, pos_reg in *; cbn [tnum_n] in *; change RESERVED with 4%N in *; lia)
             |try (exfalso; unfold rtp, pos_reg in *; cbn [tnum_n] in *; change RESERVED with 4%N in *; lia)]
         end.

(* reference counts that do not overflow under up to k increments *)
Definition sbound (k : Z) (h : aheap) : Prop := forall x, is_blk x -> min_int <= words h x /\ words h x + k <= max_int.
Lemma sbound_share k h v : sbound (k + 1) h -> 0 <= k -> (v = 0 \/ is_blk v) -> sbound k (a_share v 1 h).
Proof.
  intros B Hk Hv x Hx. unfold a_share. destruct (Z.eqb_spec v 0); [specialize (B x Hx); lia|].
  destruct Hv as [?|Hv]; [contradiction|]. cbn [words]. unfold upd. destruct (Z.eqb_spec x v) as [->|NE]; [|specialize (B x Hx); lia].
  specialize (B v Hv). rewrite wrap_small by (unfold min_int, max_int, two63 in *; lia). lia.
Qed.
Lemma share3_rev a b c d :
  (a = 0 \/ is_blk a) -> (b = 0 \/ is_blk b) -> (c = 0 \/ is_blk c) ->
  st_eqB (Heap.share a 1 (Heap.share b 1 (Heap.share c 1 d))) (Heap.share c 1 (Heap.share b 1 (Heap.share a 1 d))).
Proof.
  intros Ha Hb Hc.
  eapply st_eqB_trans; [apply share_st_eqB; [apply share_comm|exact Ha]|].
  eapply st_eqB_trans; [apply share_comm|].
  apply share_st_eqB; [|exact Hc]. apply share_comm.
Qed.
(* the three slots shared in the order of the code (last slot first) = share_list in slot order *)
Lemma share_chain F h v0 v1 v2 :
  (v0 = 0 \/ is_blk v0) -> (v1 = 0 \/ is_blk v1) -> (v2 = 0 \/ is_blk v2) -> sbound 3 h ->
  st_eqB (habs F (a_share v0 1 (a_share v1 1 (a_share v2 1 h)))) (Heap.share_list [v0; v1; v2] (habs F h)).
Proof.
  intros H0 H1 H2 B3.
  pose proof (sbound_share 2 h v2 B3 ltac:(lia) H2) as B2.
  pose proof (sbound_share 1 _ v1 B2 ltac:(lia) H1) as B1.
  unfold Heap.share_list. cbn [fold_left].
  eapply st_eqB_trans; [apply habs_share; [exact H0|]|].
  { intros N0. destruct H0 as [?|H0]; [contradiction|]. specialize (B1 v0 H0). lia. }
  eapply st_eqB_trans; [apply share_st_eqB; [|exact H0]; apply habs_share; [exact H1|]|].
  { intros N0. destruct H1 as [?|H1]; [contradiction|]. specialize (B2 v1 H1). lia. }
  eapply st_eqB_trans; [apply share_st_eqB; [|exact H0]; apply share_st_eqB; [|exact H1]; apply habs_share; [exact H2|]|].
  { intros N0. destruct H2 as [?|H2]; [contradiction|]. specialize (B3 v2 H2). lia. }
  now apply share3_rev.
Qed.
Lemma share_if x v h : (is_ext x = true -> v = 0) -> (if is_ext x then h else a_share v 1 h) = a_share v 1 h.
Proof. destruct (is_ext x); [|reflexivity]. intros H. rewrite (H eq_refl). reflexivity. Qed.

Section Load.
Variable im : image.

Theorem rv_load_full pos to_load existing lc cs lc' s p F :
  r_load to_load existing lc = Ok (cs, lc') -> to_load <> [] -> (List.length to_load <= 3)%nat ->
  placed im pos cs ->
  let E := List.length existing in let n := List.length to_load in
  rget s (rtp (2 * N.of_nat E)) = Some p -> is_blk p ->
  (exists h0, rget s HEAP = Some h0) -> (exists f0, rget s FREE = Some f0) ->
  (hword s p <> 0 ->
     (hword s (p + 16) = 0 \/ is_blk (hword s (p + 16))) /\ (hword s (p + 32) = 0 \/ is_blk (hword s (p + 32))) /\
     (hword s (p + 48) = 0 \/ is_blk (hword s (p + 48))) /\
     (forall j, (j < 3 - n)%nat -> hword s (p + 16 * Z.of_nat (j + 1)) = 0) /\
     (forall i b, nth_error to_load i = Some b -> bchi b = Ext -> hword s (slot_addr p n i) = 0)) ->
  (forall x, is_blk x -> min_int + 1 <= hword s x /\ hword s x + 3 <= max_int) ->
  exists s', star im pos s (padd pos (List.length cs)) s' /\
    st_eqB (abs_heap F s') (Heap.load_object 0 p (abs_heap F s)) /\
    (forall i b, nth_error to_load i = Some b ->
       rget s' (rtp (2 * N.of_nat (E + i) + 1)) = Some (hword s (slot_addr p n i + 8)) /\
       (bchi b <> Ext -> rget s' (rtp (2 * N.of_nat (E + i))) = Some (hword s (slot_addr p n i)))) /\
    (forall k, (k < 2 * N.of_nat E)%N -> rget s' (rtp k) = rget s (rtp k)) /\
    (forall a, ~ is_blk a -> hword s' a = hword s a) /\
    (exists h', rget s' HEAP = Some h') /\ rget s' FREE = rget s FREE.
Proof.
  intros LD NE LE PL E n RP0 BP (h0 & RH) (f0 & RF) SH BND.
  pose proof (represents_own s h0 f0 RH RF) as RP. set (h := own_heap s) in *.
  assert (RPr : rget s (pos_reg Fst E) = Some p) by (rewrite pos_reg_rtp; cbn [tnum_n]; rewrite N.add_0_r; exact RP0).
  pose proof (abs_heap_own F s h0 f0 RH RF) as EO. fold h in EO.
  assert (LOW : forall r k, r = rtp k -> (k < 2 * N.of_nat E)%N -> forall L, (E <= L)%nat -> r <> pos_reg Snd L /\ r <> pos_reg Fst L).
  { intros r k -> Hk L HL. unfold rtp, pos_reg. cbn [tnum_n]. change RESERVED with 4%N. lia. }
  destruct (Z.eq_dec (hword s p) 0) as [E0|N0].
  - (* the last reference: release *)
    destruct (rv_load_one_block_release_refines im pos to_load existing lc cs lc' s h p NE LE LD PL RP RPr (is_blk_valid_block p BP) E0)
      as (s' & X1 & X2 & X3).
    set (w := words (a_release p h)) in *.
    assert (WS : forall off, 0 < off < 64 -> w (p + off) = hword s (p + off)).
    { intros off Ho. unfold w, a_release. cbn [words]. apply upd_other. lia. }
    assert (NT : forall k, rtp k <> TEMP /\ rtp k <> HEAP) by (intros k; unfold rtp; change TEMP with 1%N; change HEAP with 2%N; lia).
    exists s'. split; [exact X1|]. split; [|split; [|split; [|split; [|split]]]].
    + eapply st_eqB_trans; [apply (represents_abs F _ _ X2)|].
      eapply st_eqB_trans; [apply habs_release; exact BP|].
      unfold Heap.load_object. cbn [abs_heap Heap.m abs_mem Heap.hdr]. rewrite E0. cbn [Z.eqb Heap.load_object_release].
      apply release_st_eqB; [|exact BP]. apply st_eqB_sym. exact EO.
    + intros i b Hi. destruct (NT (2 * N.of_nat (E + i) + 1)%N) as [T1 T2]. destruct (NT (2 * N.of_nat (E + i))%N) as [T3 T4].
      rewrite !X3 by assumption. unfold n, slot_addr. clear X3 X2 X1 LD PL.
      destruct to_load as [|b0 [|b1 [|b2 [|b3 r]]]]; cbn [List.length] in LE; try lia; try congruence;
        cbn [rev app]; rewrite !lv_step; cbn [lv_spec List.length]; rewrite ?Nat.add_0_r;
        change (3 - 1)%N with 2%N; change (2 - 1)%N with 1%N; change (1 - 1)%N with 0%N; fo;
        destruct i as [|[|[|i]]]; cbn in Hi; try discriminate; try (destruct i; discriminate); inversion Hi; subst b;
        cbn [Nat.sub Nat.add]; rewrite ?Nat.add_0_r;
        (split; [|intros KE; rewrite ?(not_ext _ KE); cbn [negb andb]];
         regdec; rewrite ?andb_false_r; rewrite ?WS by lia; f_equal; f_equal; lia).
    + intros k Hk. destruct (NT k) as [T1 T2]. rewrite X3 by assumption. clear X3 X2 X1 LD PL.
      pose proof (LOW (rtp k) k eq_refl Hk) as LW.
      destruct to_load as [|b0 [|b1 [|b2 [|b3 r]]]]; cbn [List.length] in LE; try lia; try congruence;
        cbn [rev app]; rewrite !lv_step; cbn [lv_spec List.length]; rewrite ?Nat.add_0_r;
        repeat match goal with
               | |- context [N.eqb (rtp k) (pos_reg ?t ?L)] =>
                   destruct (N.eqb_spec (rtp k) (pos_reg t L)) as [EQ|_]; [exfalso; destruct (LW L ltac:(lia)); congruence|]
               end; cbn [andb]; rewrite ?andb_false_r; reflexivity.
    + intros a Ha. destruct X2 as (X2 & _). rewrite X2. unfold a_release. cbn [words]. apply upd_other. intros ->. contradiction.
    + destruct X2 as (_ & X2 & _). eauto.
    + destruct X2 as (_ & _ & X2). rewrite X2. unfold a_release. cbn [fp]. unfold h, own_heap, reg_or0. cbn [fp]. now rewrite RF.
  - (* other references: decrement, then share the loaded pointers *)
    destruct (SH N0) as (S0 & S1 & S2 & PZ & EZ).
    set (h' := {| words := upd (words h) p (wrap (words h p - 1)); hp := hp h; fp := fp h |}).
    assert (WS : forall off, 0 < off < 64 -> words h' (p + off) = hword s (p + off)).
    { intros off Ho. unfold h'. cbn [words]. apply upd_other. lia. }
    assert (WR : wrap (words h p - 1) = hword s p - 1).
    { apply wrap_small. destruct (BND p BP). cbn [h own_heap words]. unfold min_int, max_int, two63 in *. lia. }
    assert (B3 : sbound 3 h').
    { intros x Hx. unfold h'. cbn [words]. unfold upd. destruct (Z.eqb_spec x p) as [->|NE']; [rewrite WR; destruct (BND p BP); lia|].
      destruct (BND x Hx). cbn [h own_heap words]. lia. }
    (* the abstract side *)
    assert (DEC : st_eqB (habs F h') (Heap.dec p (abs_heap F s))).
    { unfold Heap.dec. split; [reflexivity|]. split; [reflexivity|]. split; [reflexivity|].
      intros x Hx. cbn [habs Heap.m words h']. rewrite WR.
      rewrite (habs_upd_hdr F h p (hword s p - 1) x BP Hx). cbn [habs Heap.m abs_heap]. reflexivity. }
    assert (LO : Heap.load_object 0 p (abs_heap F s) = Heap.share_list [hword s (p + 16); hword s (p + 32); hword s (p + 48)] (Heap.dec p (abs_heap F s))).
    { unfold Heap.load_object. cbn [abs_heap Heap.m abs_mem Heap.hdr]. destruct (Z.eqb_spec (hword s p) 0); [contradiction|].
      unfold Heap.load_object_share. cbn [Heap.share_walk]. rewrite HeapMore.dec_ps. reflexivity. }
    assert (TGT : st_eqB (habs F (a_share (hword s (p + 16)) 1 (a_share (hword s (p + 32)) 1 (a_share (hword s (p + 48)) 1 h'))))
                         (Heap.load_object 0 p (abs_heap F s))).
    { rewrite LO. eapply st_eqB_trans; [apply share_chain; assumption|].
      unfold Heap.share_list. cbn [fold_left]. apply share_st_eqB; [|exact S2]. apply share_st_eqB; [|exact S1]. apply share_st_eqB; [|exact S0]. exact DEC. }
    assert (SV : forall v, (v = 0 \/ is_blk v) -> v = 0 \/ valid_addr v) by (intros v Hv; now apply ptr_valid).
    (* the code *)
    assert (OKL : lvs_ok (rev to_load) p 3 h' /\
       snd (lvs_spec (rev to_load) E p 3 (rget s) h') =
         a_share (hword s (p + 16)) 1 (a_share (hword s (p + 32)) 1 (a_share (hword s (p + 48)) 1 h'))).
    { unfold n, slot_addr in PZ, EZ. clear LD PL TGT LO DEC.
      destruct to_load as [|b0 [|b1 [|b2 [|b3 r]]]]; cbn [List.length] in LE, PZ, EZ; try lia; try congruence; cbn [rev app].
      - pose proof (PZ O ltac:(lia)) as Z0. pose proof (PZ 1%nat ltac:(lia)) as Z1. cbv [Z.of_nat Nat.add Nat.sub Pos.of_succ_nat Pos.succ Z.mul Pos.mul Pos.add] in Z0, Z1.
        pose proof (EZ O b0 eq_refl) as X0. cbv [Z.of_nat Nat.add Nat.sub Pos.of_succ_nat Pos.succ Z.mul Pos.mul Pos.add] in X0.
        rewrite !lvs_ok_step, !lvs_step_snd. cbn [lvs_ok lvs_spec snd]. change (3 - 1)%N with 2%N. fo. rewrite !WS by lia.
        rewrite (share_if b0) by (intros IE; apply X0; now apply is_ext_true).
        rewrite Z0, Z1. split; [split; [intros _; apply SV; exact S2|exact I]|reflexivity].
      - pose proof (PZ O ltac:(lia)) as Z0. cbv [Z.of_nat Nat.add Nat.sub Pos.of_succ_nat Pos.succ Z.mul Pos.mul Pos.add] in Z0.
        pose proof (EZ O b0 eq_refl) as X0. pose proof (EZ 1%nat b1 eq_refl) as X1. cbv [Z.of_nat Nat.add Nat.sub Pos.of_succ_nat Pos.succ Z.mul Pos.mul Pos.add] in X0, X1.
        rewrite !lvs_ok_step, !lvs_step_snd. cbn [lvs_ok lvs_spec snd]. change (3 - 1)%N with 2%N. change (2 - 1)%N with 1%N. fo. rewrite !WS by lia.
        rewrite (share_if b1) by (intros IE; apply X1; now apply is_ext_true).
        rewrite (a_share_slots _ _ _ p 32 S2 BP) by lia. rewrite !WS by lia.
        rewrite (share_if b0) by (intros IE; apply X0; now apply is_ext_true).
        rewrite Z0. split; [split; [intros _; apply SV; exact S2|split; [intros _; apply SV; exact S1|exact I]]|reflexivity].
      - pose proof (EZ O b0 eq_refl) as X0. pose proof (EZ 1%nat b1 eq_refl) as X1. pose proof (EZ 2%nat b2 eq_refl) as X2.
        cbv [Z.of_nat Nat.add Nat.sub Pos.of_succ_nat Pos.succ Z.mul Pos.mul Pos.add] in X0, X1, X2.
        rewrite !lvs_ok_step, !lvs_step_snd. cbn [lvs_ok lvs_spec snd]. change (3 - 1)%N with 2%N. change (2 - 1)%N with 1%N. change (1 - 1)%N with 0%N. fo. rewrite !WS by lia.
        rewrite (share_if b2) by (intros IE; apply X2; now apply is_ext_true).
        rewrite (a_share_slots _ _ _ p 32 S2 BP) by lia. rewrite !WS by lia.
        rewrite (share_if b1) by (intros IE; apply X1; now apply is_ext_true).
        rewrite (a_share_slots _ _ _ p 16 S1 BP) by lia. rewrite (a_share_slots _ _ _ p 16 S2 BP) by lia. rewrite !WS by lia.
        rewrite (share_if b0) by (intros IE; apply X0; now apply is_ext_true).
        split; [split; [intros _; apply SV; exact S2|split; [intros _; apply SV; exact S1|split; [intros _; apply SV; exact S0|exact I]]]|reflexivity]. }
    destruct OKL as (OK & HC).
    assert (N0' : words h p <> 0) by exact N0.
    destruct (rv_load_one_block_share_refines im pos to_load existing lc cs lc' s h p NE LE LD PL RP RPr (is_blk_valid_block p BP) N0' OK)
      as (s' & X1 & X2 & X3).
    assert (X2' : represents s' (a_share (hword s (p + 16)) 1 (a_share (hword s (p + 32)) 1 (a_share (hword s (p + 48)) 1 h')))) by (rewrite <- HC; exact X2).
    clear X2. rename X2' into X2.
    assert (X3' : forall r, r <> TEMP -> rget s' r = fst (lvs_spec (rev to_load) E p 3 (rget s) h') r) by exact X3.
    clear X3. rename X3' into X3.
    assert (NT : forall k, rtp k <> TEMP) by (intros k; unfold rtp; change TEMP with 1%N; lia).
    (* the field words seen by the register specification: only headers change along the shares *)
    assert (WSH : forall hh off, 0 < off < 64 ->
              (hh = h' \/ hh = a_share (hword s (p + 48)) 1 h' \/ hh = a_share (hword s (p + 32)) 1 (a_share (hword s (p + 48)) 1 h')) ->
              words hh (p + off) = hword s (p + off)).
    { intros hh off Ho [->|[->| ->]]; rewrite ?(a_share_slots _ _ _ p off S1 BP Ho), ?(a_share_slots _ _ _ p off S2 BP Ho); apply WS; exact Ho. }
    exists s'. split; [exact X1|]. split; [|split; [|split; [|split; [|split]]]].
    + eapply st_eqB_trans; [apply (represents_abs F _ _ X2)|exact TGT].
    + intros i b Hi. rewrite !X3 by apply NT. unfold n, slot_addr in *. clear X3 X2 X1 LD PL OK HC TGT LO DEC.
      destruct to_load as [|b0 [|b1 [|b2 [|b3 r]]]]; cbn [List.length] in LE, PZ, EZ; try lia; try congruence; cbn [rev app].
      * pose proof (EZ O b0 eq_refl) as X0. cbv [Z.of_nat Nat.add Nat.sub Pos.of_succ_nat Pos.succ Z.mul Pos.mul Pos.add] in X0.
        rewrite !lvs_step_fst. cbn [lvs_spec fst List.length]. rewrite ?Nat.add_0_r. change (3 - 1)%N with 2%N. fo.
        destruct i as [|[|i]]; cbn in Hi; try discriminate; inversion Hi; subst b. cbn [Nat.sub Nat.add]. rewrite ?Nat.add_0_r.
        split; [|intros KE; rewrite ?(not_ext _ KE); cbn [negb andb]];
          regdec; rewrite ?andb_false_r; rewrite ?WS by lia; f_equal; f_equal; lia.
      * pose proof (EZ O b0 eq_refl) as X0. pose proof (EZ 1%nat b1 eq_refl) as X1'. cbv [Z.of_nat Nat.add Nat.sub Pos.of_succ_nat Pos.succ Z.mul Pos.mul Pos.add] in X0, X1'.
        rewrite !lvs_step_fst. cbn [lvs_spec fst List.length]. rewrite ?Nat.add_0_r. change (3 - 1)%N with 2%N. change (2 - 1)%N with 1%N. fo.
        rewrite !WS by lia. rewrite (share_if b1) by (intros IE; apply X1'; now apply is_ext_true).
        rewrite ?(WSH _ 32 ltac:(lia) (or_intror (or_introl eq_refl))), ?(WSH _ 40 ltac:(lia) (or_intror (or_introl eq_refl))).
        destruct i as [|[|[|i]]]; cbn in Hi; try discriminate; inversion Hi; subst b; cbn [Nat.sub Nat.add]; rewrite ?Nat.add_0_r;
          (split; [|intros KE; rewrite ?(not_ext _ KE); cbn [negb andb]];
           regdec; rewrite ?andb_false_r; f_equal; f_equal; lia).
      * pose proof (EZ O b0 eq_refl) as X0. pose proof (EZ 1%nat b1 eq_refl) as X1'. pose proof (EZ 2%nat b2 eq_refl) as X2'.
        cbv [Z.of_nat Nat.add Nat.sub Pos.of_succ_nat Pos.succ Z.mul Pos.mul Pos.add] in X0, X1', X2'.
        rewrite !lvs_step_fst. cbn [lvs_spec fst List.length]. rewrite ?Nat.add_0_r. change (3 - 1)%N with 2%N. change (2 - 1)%N with 1%N. change (1 - 1)%N with 0%N. fo.
        rewrite !WS by lia. rewrite (share_if b2) by (intros IE; apply X2'; now apply is_ext_true).
        rewrite ?(WSH _ 32 ltac:(lia) (or_intror (or_introl eq_refl))), ?(WSH _ 40 ltac:(lia) (or_intror (or_introl eq_refl))).
        rewrite (share_if b1) by (intros IE; apply X1'; now apply is_ext_true).
        rewrite ?(WSH _ 16 ltac:(lia) (or_intror (or_intror eq_refl))), ?(WSH _ 24 ltac:(lia) (or_intror (or_intror eq_refl))).
        destruct i as [|[|[|i]]]; cbn in Hi; try discriminate; try (destruct i; discriminate); inversion Hi; subst b; cbn [Nat.sub Nat.add]; rewrite ?Nat.add_0_r;
          (split; [|intros KE; rewrite ?(not_ext _ KE); cbn [negb andb]];
           regdec; rewrite ?andb_false_r; f_equal; f_equal; lia).
    + intros k Hk. rewrite X3 by apply NT. clear X3 X2 X1 LD PL OK HC TGT LO DEC.
      pose proof (LOW (rtp k) k eq_refl Hk) as LW.
      destruct to_load as [|b0 [|b1 [|b2 [|b3 r]]]]; cbn [List.length] in LE; try lia; try congruence;
        cbn [rev app]; rewrite !lvs_step_fst; cbn [lvs_spec fst List.length]; rewrite ?Nat.add_0_r;
        repeat match goal with
               | |- context [N.eqb (rtp k) (pos_reg ?t ?L)] =>
                   destruct (N.eqb_spec (rtp k) (pos_reg t L)) as [EQ|_]; [exfalso; destruct (LW L ltac:(lia)); congruence|]
               end; cbn [andb]; rewrite ?andb_false_r; reflexivity.
    + intros a Ha. destruct X2 as (X2 & _). rewrite X2. rewrite !a_share_nonblk by assumption.
      unfold h'. cbn [words]. apply upd_other. intros ->. contradiction.
    + destruct X2 as (_ & X2 & _). eauto.
    + destruct X2 as (_ & _ & X2). rewrite X2. rewrite !fp_a_share. unfold h', h, own_heap, reg_or0. cbn [fp]. now rewrite RF.
Qed.
End Load.

(* ================= the reference-count code of a Substitute = the machine's operations ================= *)
(* headers of all blocks and the free pointer lie lo above the smallest and hi below the largest 64-bit integer *)
Definition hb (lo hi : Z) (s : rstate) : Prop :=
  (forall x, is_blk x -> min_int + lo <= hword s x /\ hword s x + hi <= max_int) /\
  (exists f, rget s FREE = Some f /\ min_int + lo <= f /\ f + hi <= max_int).
Definition n_erase (tm : list (binding * list N)) : Z :=
  Z.of_nat (List.length (filter (fun bt : binding * list N => match bchi (fst bt), snd bt with Ext, _ => false | _, [] => true | _, _ => false end) tm)).
Definition n_share (tm : list (binding * list N)) : Z :=
  fold_right (fun (bt : binding * list N) z => match bchi (fst bt) with Ext => z | _ => Z.of_nat (List.length (snd bt)) + z end) 0 tm.
Lemma n_share_nonneg tm : 0 <= n_share tm.
Proof. unfold n_share. induction tm as [|a r IH]; cbn [fold_right]; [lia|]. destruct (bchi (fst a)); lia. Qed.
Lemma n_erase_nonneg tm : 0 <= n_erase tm.
Proof. unfold n_erase. lia. Qed.

Lemma hrun_app ops1 ops2 a : hrun (ops1 ++ ops2) a = hrun ops2 (hrun ops1 a).
Proof. unfold hrun. apply fold_left_app. Qed.

Lemma hb_erase F lo hi s s1 p :
  hb (lo + 1) hi s -> 0 <= lo <= 4611686018427387904 -> 0 <= hi <= 4611686018427387904 -> (p = 0 \/ is_blk p) ->
  st_eqB (abs_heap F s1) (Heap.erase p (abs_heap F s)) -> (exists f1, rget s1 FREE = Some f1) -> hb lo hi s1.
Proof.
  intros (HB1 & f & RF & HB2) Hlo Hhi PB (_ & EF & _ & EM) (f1 & RF1). split.
  - intros x Hx. specialize (EM x Hx). apply (f_equal Heap.hdr) in EM. cbn [abs_heap Heap.m abs_mem Heap.hdr] in EM.
    rewrite EM. unfold Heap.erase. destruct (Z.eqb_spec p 0) as [P0|P0]; [cbn [abs_heap Heap.m abs_mem Heap.hdr]; destruct (HB1 x Hx); lia|].
    destruct PB as [?|PB]; [contradiction|]. cbn [abs_heap Heap.m abs_mem Heap.hdr Heap.free].
    destruct (hword s p =? 0); cbn [Heap.m]; unfold Heap.set_hdr, Heap.upd; destruct (Z.eqb_spec x p) as [->|NX]; cbn [Heap.hdr abs_mem];
      try (unfold reg_or0; rewrite RF); try (destruct (HB1 _ PB); lia); destruct (HB1 x Hx); lia.
  - exists f1. split; [exact RF1|]. cbn [abs_heap Heap.free] in EF. unfold reg_or0 in EF at 1. rewrite RF1 in EF. rewrite EF.
    unfold Heap.erase. destruct (Z.eqb_spec p 0) as [P0|P0]; [cbn [abs_heap Heap.free]; unfold reg_or0; rewrite RF; lia|].
    destruct PB as [?|PB]; [contradiction|]. cbn [abs_heap Heap.m abs_mem Heap.hdr Heap.free].
    destruct (hword s p =? 0); cbn [Heap.free]; [destruct PB as (k & Hk & -> & Hhi'); unfold min_int, max_int, two63, HEAP_BASE, HEAP_SIZE in *; lia|unfold reg_or0; rewrite RF; lia].
Qed.
Lemma hb_share F lo hi n s s1 p :
  hb lo (hi + n) s -> 0 <= lo -> 0 <= hi -> 0 <= n -> (p = 0 \/ is_blk p) ->
  st_eqB (abs_heap F s1) (Heap.share p n (abs_heap F s)) -> rget s1 FREE = rget s FREE -> hb lo hi s1.
Proof.
  intros (HB1 & f & RF & HB2) Hlo Hhi Hn PB (_ & _ & _ & EM) RF1. split.
  - intros x Hx. specialize (EM x Hx). apply (f_equal Heap.hdr) in EM. cbn [abs_heap Heap.m abs_mem Heap.hdr] in EM.
    rewrite EM. unfold Heap.share. destruct (Z.eqb_spec p 0) as [P0|P0]; [cbn [abs_heap Heap.m abs_mem Heap.hdr]; destruct (HB1 x Hx); lia|].
    destruct PB as [?|PB]; [contradiction|]. cbn [abs_heap Heap.m abs_mem Heap.hdr]. unfold Heap.set_hdr, Heap.upd.
    destruct (Z.eqb_spec x p) as [->|NX]; cbn [Heap.hdr abs_mem]; [destruct (HB1 _ PB); lia|destruct (HB1 x Hx); lia].
  - exists f. split; [rewrite RF1; exact RF|lia].
Qed.
Lemma vt_ge4 context n id t : variable_temporary rv_backend n context id = Ok t -> (4 <= t)%N.
Proof.
  unfold variable_temporary. destruct (position_of context id 0); [|discriminate].
  cbn [b_temporary_from_position rv_backend]. unfold temporary_from_position. change RESERVED with 4%N.
  destruct (N.ltb _ _); intros H; inversion H; lia.
Qed.

Section WC.
Variable im : image.

Theorem rv_weakening_contraction_gen (ptr : binding -> Z) context F : forall tm lc cs lc' pos s a0,
  code_weakening_contraction rv_backend tm context lc = Ok (cs, lc') ->
  placed im pos cs -> (exists h0, rget s HEAP = Some h0) -> st_eqB (abs_heap F s) a0 ->
  (forall b targets t, In (b, targets) tm -> bchi b <> Ext ->
     variable_temporary rv_backend Fst context (idn (bvar b)) = Ok t ->
     rget s t = Some (ptr b) /\ (ptr b = 0 \/ is_blk (ptr b))) ->
  hb (n_erase tm) (n_share tm) s -> n_erase tm <= 4611686018427387904 -> n_share tm <= 4611686018427387904 ->
  (forall b targets, In (b, targets) tm -> (List.length targets <= 2047)%nat) ->
  let ops := flat_map (fun bt : binding * list N => rc_op (bchi (fst bt)) (ptr (fst bt)) (List.length (snd bt))) tm in
  exists s', star im pos s (padd pos (List.length cs)) s' /\
    st_eqB (abs_heap F s') (hrun ops a0) /\
    (forall r, r <> TEMP -> r <> FREE -> rget s' r = rget s r) /\
    (forall a, ~ is_blk a -> hword s' a = hword s a) /\
    (exists f', rget s' FREE = Some f').
Proof.
  induction tm as [|[b targets] tm IH]; intros lc cs lc' pos s a0 HC PL (h0 & RH) EQ0 HV HB BE BS HL ops.
  - cbn in HC. inversion HC; subst. destruct HB as (_ & f & RF & _).
    exists s. split; [apply star_refl|]. split; [exact EQ0|]. split; [auto|]. split; [auto|eauto].
  - cbn [code_weakening_contraction] in HC. unfold ops. cbn [flat_map fst snd].
    assert (HV' : forall b0 t0 t, In (b0, t0) tm -> bchi b0 <> Ext ->
              variable_temporary rv_backend Fst context (idn (bvar b0)) = Ok t -> rget s t = Some (ptr b0) /\ (ptr b0 = 0 \/ is_blk (ptr b0)))
      by (intros b0 t0 t Hin Hne Ht; exact (HV b0 t0 t (or_intror Hin) Hne Ht)).
    assert (HL' : forall b0 t0, In (b0, t0) tm -> (List.length t0 <= 2047)%nat) by (intros b0 t0 Hin; exact (HL b0 t0 (or_intror Hin))).
    pose proof (n_share_nonneg tm) as NS. pose proof (n_erase_nonneg tm) as NEr.
    destruct (Z.eq_dec 0 0) as [_|?]; [|contradiction].
    assert (EXT : bchi b = Ext \/ bchi b <> Ext) by (destruct (bchi b); [right|right|left]; congruence).
    destruct EXT as [Eb|NEb].
    + (* ext: no code, no operation *)
      rewrite Eb in *. cbn [rc_op app]. assert (NEQ : n_erase ((b, targets) :: tm) = n_erase tm) by (unfold n_erase; cbn [filter fst snd]; rewrite Eb; reflexivity).
      assert (NSQ : n_share ((b, targets) :: tm) = n_share tm) by (unfold n_share; cbn [fold_right fst snd]; rewrite Eb; reflexivity).
      rewrite NEQ, NSQ in *. apply (IH lc cs lc' pos s a0 HC PL (ex_intro _ h0 RH) EQ0 HV' HB BE BS HL').
    + assert (HC' : exists c1 lc1 c2, update_reference_count rv_backend (bvar b) context (List.length targets) lc = Ok (c1, lc1) /\
                      code_weakening_contraction rv_backend tm context lc1 = Ok (c2, lc') /\ cs = c1 ++ c2).
      { destruct (bchi b); [| |congruence].
        all: destruct (update_reference_count rv_backend (bvar b) context (List.length targets) lc) as [[c1 lc1]|] eqn:U1; cbn [rbind] in HC; [|discriminate];
          destruct (code_weakening_contraction rv_backend tm context lc1) as [[c2 lc2]|] eqn:U2; cbn [rbind] in HC; [|discriminate];
          inversion HC; subst; exists c1, lc1, c2; repeat split; auto. }
      destruct HC' as (c1 & lc1 & c2 & EU & E2 & ->). clear HC.
      assert (OPS : rc_op (bchi b) (ptr b) (List.length targets) =
                    match List.length targets with O => [Heap.OErase (ptr b)] | S O => [] | S (S m) => [Heap.OShare (ptr b) (Z.of_nat (S m))] end)
        by (unfold rc_op; destruct (bchi b); congruence).
      rewrite OPS. clear OPS.
      assert (NEQ : n_erase ((b, targets) :: tm) = n_erase tm + (match List.length targets with O => 1 | _ => 0 end)).
      { unfold n_erase. cbn [filter fst snd]. destruct (bchi b); try congruence; destruct targets; cbn [List.length]; lia. }
      assert (NSQ : n_share ((b, targets) :: tm) = n_share tm + Z.of_nat (List.length targets)).
      { unfold n_share. cbn [fold_right fst snd]. destruct (bchi b); try congruence; lia. }
      rewrite NEQ, NSQ in HB. rewrite NEQ in BE. rewrite NSQ in BS.
      unfold update_reference_count in EU.
      destruct (variable_temporary rv_backend Fst context (idn (bvar b))) as [t|] eqn:ET; cbn [rbind] in EU; [|discriminate].
      destruct (HV b targets t (or_introl eq_refl) NEb ET) as (RT & PB).
      pose proof (vt_ge4 _ _ _ _ ET) as T4. destruct (RVSubst.four_le t T4) as (TZ & TT & TH & TF).
      apply placed_app in PL as [PL1 PL2].
      assert (KEEPV : forall s1, (forall r, r <> TEMP -> r <> FREE -> rget s1 r = rget s r) ->
                forall b0 t0 tt, In (b0, t0) tm -> bchi b0 <> Ext -> variable_temporary rv_backend Fst context (idn (bvar b0)) = Ok tt ->
                rget s1 tt = Some (ptr b0) /\ (ptr b0 = 0 \/ is_blk (ptr b0))).
      { intros s1 KR b0 t0 tt Hin Hne Htt. destruct (HV' b0 t0 tt Hin Hne Htt) as [A B]. split; [|exact B].
        pose proof (vt_ge4 _ _ _ _ Htt) as G. destruct (RVSubst.four_le tt G) as (_ & G1 & _ & G3). rewrite KR; auto. }
      destruct (List.length targets) as [|[|m]] eqn:EL; inversion EU; subst c1 lc1; clear EU.
      * (* erase *)
        destruct HB as (HB1 & f & RF & HB2).
        destruct (rv_erase_block_heap im pos t lc s (ptr b) F h0 f PL1 TZ TT TH TF RH RF RT PB) as (s1 & ST1 & EQ1 & KR1 & NB1 & RF1).
        { intros P0 H0. destruct PB as [?|PB]; [contradiction|]. destruct (HB1 _ PB). lia. }
        destruct (IH _ _ _ (padd pos (List.length (fst (r_erase_block t lc)))) s1 (Heap.erase (ptr b) a0) E2 PL2) as (s2 & ST2 & EQ2 & KR2 & NB2 & RF2).
        { exists h0. rewrite KR1 by discriminate. exact RH. }
        { eapply st_eqB_trans; [exact EQ1|]. apply erase_st_eqB; [exact EQ0|exact PB]. }
        { apply KEEPV. exact KR1. }
        { apply (hb_erase F _ _ s s1 (ptr b)); auto; try lia. replace (n_share tm + Z.of_nat 0) with (n_share tm) in * by lia. split; [exact HB1|eauto]. }
        { lia. } { lia. }
        { exact HL'. }
        exists s2. split; [rewrite app_length, padd_add; eapply star_trans; eauto|].
        split; [rewrite hrun_app; exact EQ2|]. split; [intros r R1 R2; rewrite KR2, KR1; auto|]. split; [intros a Ha; rewrite NB2, NB1; auto|exact RF2].
      * (* one target: nothing *)
        cbn [app List.length padd] in *. apply (IH _ _ _ pos s a0 E2 PL2 (ex_intro _ h0 RH) EQ0 HV'); [|lia|lia|exact HL'].
        destruct HB as (HB1 & f & RF & HB2). split; [intros x Hx; destruct (HB1 x Hx); lia|exists f; split; [exact RF|lia]].
      * (* several targets: share *)
        destruct HB as (HB1 & f & RF & HB2).
        pose proof (HL b targets (or_introl eq_refl)) as LT. rewrite EL in LT.
        destruct (rv_share_block_heap im pos t (N.of_nat (S m)) lc s (ptr b) F h0 f PL1 TZ TT TH TF RH RF RT PB) as (s1 & ST1 & EQ1 & KR1 & NB1).
        { unfold fits12. apply andb_true_iff. split; apply Z.leb_le; lia. }
        { intros P0. destruct PB as [?|PB]; [contradiction|]. destruct (HB1 _ PB). lia. }
        replace (Z.of_N (N.of_nat (S m))) with (Z.of_nat (S m)) in EQ1 by lia.
        destruct (IH _ _ _ (padd pos (List.length (fst (r_share_block_n t (N.of_nat (S m)) lc)))) s1 (Heap.share (ptr b) (Z.of_nat (S m)) a0) E2 PL2) as (s2 & ST2 & EQ2 & KR2 & NB2 & RF2).
        { exists h0. rewrite KR1 by discriminate. exact RH. }
        { eapply st_eqB_trans; [exact EQ1|]. apply share_st_eqB; [exact EQ0|exact PB]. }
        { apply KEEPV. intros r R1 _. apply KR1. exact R1. }
        { apply (hb_share F _ _ (Z.of_nat (S m)) s s1 (ptr b)); auto; try lia.
          - split; [intros x Hx; destruct (HB1 x Hx); lia|exists f; split; [exact RF|lia]].
          - apply KR1. discriminate. }
        { lia. } { lia. }
        { exact HL'. }
        exists s2. split; [rewrite app_length, padd_add; eapply star_trans; eauto|].
        split; [rewrite hrun_app; exact EQ2|]. split; [intros r R1 R2; rewrite KR2, KR1; auto|]. split; [intros a Ha; rewrite NB2, NB1; auto|exact RF2].
Qed.

Corollary rv_weakening_contraction_ok (ptr : binding -> Z) context F tm lc cs lc' pos s :
  code_weakening_contraction rv_backend tm context lc = Ok (cs, lc') ->
  placed im pos cs -> (exists h0, rget s HEAP = Some h0) ->
  (forall b targets t, In (b, targets) tm -> bchi b <> Ext ->
     variable_temporary rv_backend Fst context (idn (bvar b)) = Ok t ->
     rget s t = Some (ptr b) /\ (ptr b = 0 \/ is_blk (ptr b))) ->
  hb (n_erase tm) (n_share tm) s -> n_erase tm <= 4611686018427387904 -> n_share tm <= 4611686018427387904 ->
  (forall b targets, In (b, targets) tm -> (List.length targets <= 2047)%nat) ->
  let ops := flat_map (fun bt : binding * list N => rc_op (bchi (fst bt)) (ptr (fst bt)) (List.length (snd bt))) tm in
  exists s', star im pos s (padd pos (List.length cs)) s' /\
    st_eqB (abs_heap F s') (hrun ops (abs_heap F s)) /\
    (forall r, r <> TEMP -> r <> FREE -> rget s' r = rget s r) /\
    (forall a, ~ is_blk a -> hword s' a = hword s a) /\
    (exists f', rget s' FREE = Some f').
Proof. intros HC PL RH HV HB BE BS HL. eapply rv_weakening_contraction_gen; eauto. apply st_eqB_refl. Qed.
End WC.
