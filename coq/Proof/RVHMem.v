(* C08, heap statements, the memory layer on the abstract allocator: the code of `store` (Let / Create)
   and of `load` (Switch / Invoke) for objects of at most three fields (ONE block) refines
   `Heap.alloc` / `Heap.load_object 0` of Model/Heap.v through `abs_heap`, with the data words, the
   registers and the frame.  Built on the word-level theorems of Proof/RVSel.v
   (rv_store_one_block_refines, rv_load_one_block_release_refines, rv_load_one_block_share_refines) and on
   Proof/RVHeapAbs.v.  The RISC-V counterpart of Proof/X86MemStoreFull.v / X86MemLoadFull.v (one block). *)
From Coq Require Import List ZArith NArith String Bool Lia FMapPositive.
From SCC Require Import Base.Sexp Lang.AxSyn Sem.AxSem Model.Backend Model.RV Sem.RVSem Generated.Constants
     Proof.RVSel Proof.RVHeapAbs Proof.RVHDefs.
From SCC Require Model.Heap.
Import ListNotations.
Open Scope list_scope.
Open Scope Z_scope.

(* the register of temporary position k (position i of the context owns 2i and 2i+1) *)
Definition rtp (k : N) : reg := (k + 4)%N.
Lemma pos_reg_rtp n i : pos_reg n i = rtp (2 * N.of_nat i + tnum_n n).
Proof. unfold pos_reg, rtp. change RESERVED with 4%N. lia. Qed.

(* the values of the variables to store / the slots they are stored into *)
Definition vals_ok (s : rstate) (val : N -> Z) (E : nat) (bs : list binding) : Prop :=
  forall i b, nth_error bs i = Some b ->
    rget s (rtp (2 * N.of_nat (E + i) + 1)) = Some (val (2 * N.of_nat (E + i) + 1)%N) /\
    (bchi b <> Ext -> rget s (rtp (2 * N.of_nat (E + i))) = Some (val (2 * N.of_nat (E + i))%N)).
Definition fst_slot (val : N -> Z) (pos : nat) (b : binding) : Z :=
  match bchi b with Ext => 0 | _ => val (2 * N.of_nat pos)%N end.
Definition snd_slot (val : N -> Z) (pos : nat) : Z := val (2 * N.of_nat pos + 1)%N.
Fixpoint fsts (val : N -> Z) (E : nat) (bs : list binding) : list Z :=
  match bs with [] => [] | b :: r => fst_slot val E b :: fsts val (S E) r end.
Lemma fsts_length val : forall bs E, List.length (fsts val E bs) = List.length bs.
Proof. induction bs as [|b r IH]; intros E; cbn; auto. Qed.

(* the pointer word of field i of an object with n <= 3 fields at block q (its data word is 8 further) *)
Definition slot_addr (q : Z) (n i : nat) : Z := q + 16 * Z.of_nat (3 - n + i + 1).

(* ---------- counts that do not wrap ---------- *)
Definition wbounded (k : Z) (h : aheap) : Prop :=
  (forall x, is_blk x -> min_int + k <= words h x <= max_int) /\ min_int + k <= fp h <= max_int.
Lemma is_blk_range x : is_blk x -> min_int + 3 <= x <= max_int.
Proof. intros (k & Hk & -> & H). unfold min_int, max_int, two63, HEAP_BASE, HEAP_SIZE in *. lia. Qed.
Lemma wbounded_erase k h c : wbounded (k + 1) h -> 0 <= k <= 2 -> (c = 0 \/ is_blk c) -> wbounded k (a_erase c h).
Proof.
  intros [B1 B2] Hk Hc. unfold a_erase. destruct (Z.eqb_spec c 0) as [->|C0]; [split; [intros x Hx; specialize (B1 x Hx); lia|lia]|].
  destruct Hc as [?|Hc]; [contradiction|]. pose proof (is_blk_range c Hc).
  destruct (Z.eqb_spec (words h c) 0) as [E0|N0]; split; cbn [words fp]; try lia.
  - intros x Hx. unfold upd. destruct (x =? c); [lia|]. specialize (B1 x Hx). lia.
  - intros x Hx. unfold upd. destruct (Z.eqb_spec x c) as [->|NE]; [|specialize (B1 x Hx); lia].
    specialize (B1 c Hc). rewrite wrap_small by (unfold min_int, max_int, two63 in *; lia). lia.
Qed.
Lemma child_ok_of_bounded k h c : wbounded (k + 1) h -> 0 <= k -> (c = 0 \/ is_blk c) -> child_ok h c.
Proof.
  intros [B1 _] Hk Hc. split; [exact Hc|]. intros C0 _. destruct Hc as [?|Hc]; [contradiction|]. specialize (B1 c Hc). lia.
Qed.
(* the three children of the head of the lazy list *)
Lemma children_from_bounded h1 b :
  is_blk b -> wbounded 3 h1 ->
  (words h1 (b + 16) = 0 \/ is_blk (words h1 (b + 16))) ->
  (words h1 (b + 32) = 0 \/ is_blk (words h1 (b + 32))) ->
  (words h1 (b + 48) = 0 \/ is_blk (words h1 (b + 48))) ->
  let c0 := words h1 (b + 16) in let c1 := words h1 (b + 32) in let c2 := words h1 (b + 48) in
  child_ok h1 c0 /\ child_ok (a_erase c0 h1) c1 /\ child_ok (a_erase c1 (a_erase c0 h1)) c2.
Proof.
  intros Hb B3 S0 S1 S2 c0 c1 c2.
  pose proof (wbounded_erase 2 h1 c0 B3 ltac:(lia) S0) as B2.
  pose proof (wbounded_erase 1 _ c1 B2 ltac:(lia) S1) as B1.
  split; [apply (child_ok_of_bounded 2); auto; lia|]. split; [apply (child_ok_of_bounded 1); auto; lia|].
  apply (child_ok_of_bounded 0); auto; lia.
Qed.

(* ================= store of at most three variables = Heap.alloc (pad 3 fields) ================= *)
Lemma reg_or0_blk s r : is_blk (reg_or0 s r) -> rget s r = Some (reg_or0 s r).
Proof. unfold reg_or0. destruct (rget s r); [reflexivity|]. intros H. apply is_blk_pos in H. lia. Qed.
Lemma reg_or0_nz s r : reg_or0 s r <> 0 -> rget s r = Some (reg_or0 s r).
Proof. unfold reg_or0. destruct (rget s r); [reflexivity|]. intros H. contradiction. Qed.

Lemma upd_same w a v : upd w a v a = v.
Proof. unfold upd. now rewrite Z.eqb_refl. Qed.
Lemma upd_other w a v x : x <> a -> upd w a v x = w x.
Proof. intros H. unfold upd. destruct (Z.eqb_spec x a); congruence. Qed.

Lemma upd_eq w a v x : x = a -> upd w a v x = v.
Proof. intros ->. apply upd_same. Qed.
Ltac upds := repeat first [rewrite upd_eq by (unfold slot_addr; lia) | rewrite upd_other by (unfold slot_addr; lia)].

Ltac fo := change (field_offset Fst 0) with 16 in *; change (field_offset Fst 1) with 32 in *; change (field_offset Fst 2) with 48 in *;
           change (field_offset Snd 0) with 24 in *; change (field_offset Snd 1) with 40 in *; change (field_offset Snd 2) with 56 in *.

(* the words after the stores of 1, 2 or 3 variables into block b (cases of sv_spec) *)
Definition stored_words (s : rstate) (E : nat) (bs : list binding) (b : Z) (w : Z -> Z) : Z -> Z :=
  sv_spec s (rev bs) E b 3 w.

Lemma vals_regv s val E bs i b0 :
  vals_ok s val E bs -> nth_error bs i = Some b0 ->
  regv s (pos_reg Snd (E + i)) = snd_slot val (E + i) /\
  (match bchi b0 with Ext => 0 | _ => regv s (pos_reg Fst (E + i)) end) = fst_slot val (E + i) b0 /\
  rget s (pos_reg Snd (E + i)) <> None /\ (bchi b0 <> Ext -> rget s (pos_reg Fst (E + i)) <> None).
Proof.
  intros V H. destruct (V i b0 H) as [VS VF]. rewrite !pos_reg_rtp. cbn [tnum_n]. rewrite N.add_0_r.
  unfold regv, snd_slot, fst_slot. rewrite VS. split; [reflexivity|]. split.
  - destruct (bchi b0) eqn:K; try reflexivity; rewrite VF by congruence; reflexivity.
  - split; [congruence|]. intros K. rewrite (VF K). congruence.
Qed.

Section Store.
Variable im : image.

Theorem rv_store_full pos to_store remaining lc cs lc' s F val :
  r_store to_store remaining lc = Ok (cs, lc') -> to_store <> [] -> (List.length to_store <= 3)%nat ->
  placed im pos cs ->
  vals_ok s val (List.length remaining) to_store ->
  let E := List.length remaining in let n := List.length to_store in
  let fields := fsts val E to_store in
  acq_ok (abs_heap F s) ->
  let res := Heap.alloc (Heap.pad 3 fields) (abs_heap F s) in
  exists s', star im pos s (padd pos (List.length cs)) s' /\
    st_eqB (abs_heap (Heap.frontier (snd res)) s') (snd res) /\
    fst res = Heap.heap (abs_heap F s) /\
    rget s' (rtp (2 * N.of_nat E)) = Some (fst res) /\
    (forall q, (q < 2 * N.of_nat E)%N -> rget s' (rtp q) = rget s (rtp q)) /\
    (forall i b, nth_error to_store i = Some b ->
        hword s' (slot_addr (fst res) n i) = fst_slot val (E + i) b /\
        hword s' (slot_addr (fst res) n i + 8) = snd_slot val (E + i)) /\
    (forall j, (j < 3 - n)%nat -> hword s' (fst res + 16 * Z.of_nat (j + 1)) = 0) /\
    (forall a, ~ is_blk a -> (a < fst res \/ fst res + 64 <= a) -> hword s' a = hword s a).
Proof.
  intros ST NE LE PL VO E n fields AQ res.
  destruct AQ as (A1 & A2 & A3 & A4). cbn [abs_heap Heap.heap Heap.free Heap.m] in A1, A2, A3, A4.
  pose proof (reg_or0_blk s HEAP A1) as RH. pose proof (reg_or0_nz s FREE A2) as RF.
  set (rv := reg_or0 s HEAP) in *. set (h2 := reg_or0 s FREE) in *.
  pose proof (represents_own s rv h2 RH RF) as RP. set (h := own_heap s) in *.
  assert (EH : hp h = rv) by reflexivity. assert (EF : fp h = h2) by reflexivity.
  (* the words after the stores *)
  set (w1 := sv_spec s (rev to_store) E rv 3 (hword s)).
  set (h1 := {| words := w1; hp := rv; fp := h2 |}).
  (* sv_defined and the stored words, by cases on the number of variables *)
  assert (CH : sv_defined s (rev to_store) E /\
    w1 rv = hword s rv /\
    (forall i b, nth_error to_store i = Some b ->
       w1 (slot_addr rv n i) = fst_slot val (E + i) b /\ w1 (slot_addr rv n i + 8) = snd_slot val (E + i)) /\
    (forall j, (j < 3 - n)%nat -> w1 (rv + 16 * Z.of_nat (j + 1)) = 0) /\
    (forall a, (a < rv + 16 \/ rv + 64 <= a) -> w1 a = hword s a) /\
    [w1 (rv + 16); w1 (rv + 32); w1 (rv + 48)] = Heap.pad 3 fields).
  { unfold w1, fields, n. clear res ST PL A3 A4.
    destruct to_store as [|b0 [|b1 [|b2 [|b3 r]]]]; cbn [List.length] in LE; try lia; try congruence.
    - destruct (vals_regv s val E _ O b0 VO eq_refl) as (S0 & F0 & D0 & G0). rewrite Nat.add_0_r in *.
      cbn [rev app sv_spec sv_defined List.length fsts Heap.pad repeat Nat.sub fold_left Nat.add].
      rewrite !Nat.add_0_r. change (3 - 1)%N with 2%N. change (nseq 0 2) with [0%N; 1%N]. cbn [fold_left]. fo.
      rewrite S0, F0. split; [auto|]. split; [upds; reflexivity|]. split.
      { intros i b Hi. destruct i as [|[|i]]; cbn in Hi; try discriminate. inversion Hi; subst b. rewrite Nat.add_0_r.
        split; upds; reflexivity. }
      split; [intros j Hj; destruct j as [|[|j]]; cbn in Hj; try lia; upds; reflexivity|].
      split; [intros a Ha; upds; reflexivity|]. upds. reflexivity.
    - destruct (vals_regv s val E _ O b0 VO eq_refl) as (S0 & F0 & D0 & G0).
      destruct (vals_regv s val E _ 1%nat b1 VO eq_refl) as (S1 & F1 & D1 & G1). rewrite Nat.add_0_r in *.
      cbn [rev app sv_spec sv_defined List.length fsts Heap.pad repeat Nat.sub fold_left Nat.add].
      rewrite !Nat.add_0_r. change (3 - 1)%N with 2%N. change (2 - 1)%N with 1%N. change (nseq 0 1) with [0%N]. cbn [fold_left]. fo.
      replace (S E) with (E + 1)%nat by lia.
      rewrite S0, F0, S1, F1. split; [auto|]. split; [upds; reflexivity|]. split.
      { intros i b Hi. destruct i as [|[|[|i]]]; cbn in Hi; try discriminate; inversion Hi; subst b; rewrite ?Nat.add_0_r;
          (split; upds; reflexivity). }
      split; [intros j Hj; destruct j as [|j]; cbn in Hj; try lia; upds; reflexivity|].
      split; [intros a Ha; upds; reflexivity|]. upds. reflexivity.
    - destruct (vals_regv s val E _ O b0 VO eq_refl) as (S0 & F0 & D0 & G0).
      destruct (vals_regv s val E _ 1%nat b1 VO eq_refl) as (S1 & F1 & D1 & G1).
      destruct (vals_regv s val E _ 2%nat b2 VO eq_refl) as (S2 & F2 & D2 & G2). rewrite Nat.add_0_r in *.
      cbn [rev app sv_spec sv_defined List.length fsts Heap.pad repeat Nat.sub fold_left Nat.add].
      rewrite !Nat.add_0_r. change (3 - 1)%N with 2%N. change (2 - 1)%N with 1%N. change (1 - 1)%N with 0%N. change (nseq 0 0) with (@nil N). cbn [fold_left]. fo.
      replace (S (S E)) with (E + 2)%nat by lia. replace (S E) with (E + 1)%nat by lia.
      rewrite S0, F0, S1, F1, S2, F2. split; [auto 7|]. split; [upds; reflexivity|]. split.
      { intros i b Hi. destruct i as [|[|[|i]]]; cbn in Hi; try discriminate; try (destruct i; discriminate); inversion Hi; subst b; rewrite ?Nat.add_0_r;
          (split; upds; reflexivity). }
      split; [intros j Hj; cbn in Hj; lia|].
      split; [intros a Ha; upds; reflexivity|]. upds. reflexivity. }
  destruct CH as (SD & WH & WF & WZ & WO & WP).
  (* the abstract state after the stores is the state `alloc` acquires from *)
  set (a := abs_heap F s) in *.
  set (A := {| Heap.m := Heap.set_ps (Heap.m a) (Heap.heap a) (Heap.pad 3 fields); Heap.heap := Heap.heap a; Heap.free := Heap.free a; Heap.frontier := Heap.frontier a |}).
  assert (EA : st_eqB (habs F h1) A).
  { unfold A, a. cbn [abs_heap Heap.m Heap.heap Heap.free Heap.frontier]. fold rv h2. repeat split; auto.
    intros x Hx. cbn [habs Heap.m words h1]. unfold Heap.set_ps, Heap.upd. destruct (Z.eqb_spec x rv) as [->|NE'].
    - cbn [abs_mem Heap.hdr]. rewrite WH, WP. reflexivity.
    - unfold abs_mem. destruct Hx as (k & Hk & -> & Hx), A1 as (j & Hj & Ej & A1). rewrite !WO by lia. reflexivity. }
  (* preconditions of acquire on h1 *)
  assert (W1H : words h1 (hp h1) = hword s rv) by exact WH.
  assert (FB : words h1 (hp h1) = 0 -> is_blk (fp h1)) by (intros E0; apply A3; cbn [abs_mem Heap.hdr]; rewrite <- W1H; exact E0).
  assert (FNE : words h1 (hp h1) = 0 -> words h1 (fp h1) <> 0 -> h2 <> rv).
  { intros E0 FN EQ. apply FN. cbn [fp h1]. rewrite EQ. exact E0. }
  assert (CHD : words h1 (hp h1) = 0 -> words h1 (fp h1) <> 0 ->
     let hh := {| words := upd (words h1) (fp h1) 0; hp := fp h1; fp := words h1 (fp h1) |} in
     let c0 := words hh (fp h1 + 16) in let c1 := words hh (fp h1 + 32) in let c2 := words hh (fp h1 + 48) in
     child_ok hh c0 /\ child_ok (a_erase c0 hh) c1 /\ child_ok (a_erase c1 (a_erase c0 hh)) c2).
  { intros E0 FN. pose proof (FB E0) as HB2. pose proof (FNE E0 FN) as NEQ. cbn [fp hp h1 words] in *.
    assert (OUT : forall off, 0 <= off < 64 -> w1 (h2 + off) = hword s (h2 + off)).
    { intros off Ho. apply WO. destruct HB2 as (k & Hk & Ek & _), A1 as (j & Hj & Ej & _). rewrite Ek, Ej in *. lia. }
    assert (E0' : Heap.hdr (abs_mem s rv) = 0) by (cbn [abs_mem Heap.hdr]; rewrite <- WH; exact E0).
    assert (O0 : w1 h2 = hword s h2) by (pose proof (OUT 0 ltac:(lia)) as X; rewrite Z.add_0_r in X; exact X).
    assert (FN' : Heap.hdr (abs_mem s h2) <> 0) by (cbn [abs_mem Heap.hdr]; rewrite <- O0; exact FN).
    destruct (A4 E0' FN') as (SO & BD & BF). cbn [abs_mem Heap.ps Heap.hdr] in SO, BD, BF.
    inversion SO as [|? ? S0 SO']; subst. inversion SO' as [|? ? S1 SO'']; subst. inversion SO'' as [|? ? S2 _]; subst.
    refine (children_from_bounded {| words := upd w1 h2 0; hp := h2; fp := w1 h2 |} h2 HB2 _ _ _ _).
    - split; cbn [words fp].
      + intros x Hx. unfold upd. destruct (x =? h2); [unfold min_int, max_int, two63; lia|].
        destruct (Z.eq_dec x rv) as [->|NX]; [rewrite WH; apply BD; exact A1|].
        rewrite WO; [apply BD; exact Hx|]. destruct Hx as (k & Hk & -> & _), A1 as (j & Hj & Ej & _). rewrite Ej in *. lia.
      + rewrite O0. exact BF.
    - cbn [words]. rewrite upd_other by lia. rewrite OUT by lia. exact S0.
    - cbn [words]. rewrite upd_other by lia. rewrite OUT by lia. exact S1.
    - cbn [words]. rewrite upd_other by lia. rewrite OUT by lia. exact S2. }
  destruct (habs_acquire F h1 A1 FB CHD) as (AF & AS & CO).
  (* the code *)
  destruct (rv_store_one_block_refines im pos to_store remaining lc cs lc' s h NE LE ST PL RP) as (s' & X1 & X2 & X3 & X4).
  { rewrite EH. now apply is_blk_valid_block. }
  { exact SD. }
  { intros E0. rewrite EF. apply is_blk_valid_block. apply FB. exact E0. }
  { exact CO. }
  (* alloc on the abstract side *)
  assert (AQA : fst (Heap.acquire (habs F h1)) = fst (Heap.acquire A) /\ st_eqB (snd (Heap.acquire (habs F h1))) (snd (Heap.acquire A))).
  { apply acquire_st_eqB; [exact EA| | |].
    - unfold A, a. cbn [Heap.heap abs_heap]. exact A1.
    - unfold A, a. cbn [Heap.heap Heap.m abs_heap Heap.free Heap.hdr]. unfold Heap.set_ps. rewrite Heap.upd_same. cbn [Heap.hdr]. exact A3.
    - unfold A, a. cbn [Heap.heap Heap.m abs_heap Heap.free]. fold rv h2. unfold Heap.set_ps. rewrite Heap.upd_same. cbn [Heap.hdr].
      intros E0. unfold Heap.upd. destruct (Z.eqb_spec h2 rv) as [EQ|NEQ]; cbn [Heap.hdr Heap.ps].
      + intros FN. exfalso. apply FN. exact E0.
      + intros FN c Hc. destruct (A4 E0 FN) as (SO & _). unfold slots_ok in SO. rewrite Forall_forall in SO. apply SO. exact Hc. }
  destruct AQA as (AQ1 & AQ2).
  assert (RES : res = Heap.acquire A) by reflexivity.
  assert (FR : Heap.frontier (snd (Heap.acquire (habs F h1))) = Heap.frontier (snd res)) by (rewrite RES; destruct AQ2 as (_ & _ & X & _); exact X).
  assert (HW : forall x, hword s' x = words (snd (a_acquire h1)) x) by (destruct X2 as (X & _); exact X).
  assert (NB : forall x, ~ is_blk x -> hword s' x = w1 x).
  { intros x Hx. rewrite HW. change w1 with (words h1). apply a_acquire_nonblk; [exact A1|exact FB| |exact Hx].
    intros E0 FN. destruct (CHD E0 FN) as ((B0 & _) & (B1 & _) & (B2 & _)). cbn [words fp hp h1] in *.
    rewrite !upd_other in B0, B1, B2 by lia. auto. }
  assert (FST : fst res = rv) by (unfold res; rewrite alloc_fst; reflexivity).
  exists s'. split; [exact X1|]. split; [|split; [exact FST|split; [|split; [|split; [|split]]]]].
  - rewrite <- FR. eapply st_eqB_trans; [apply (represents_abs _ _ _ X2)|].
    eapply st_eqB_trans; [exact AS|]. rewrite RES. exact AQ2.
  - rewrite FST. rewrite pos_reg_rtp in X3. cbn [tnum_n] in X3. rewrite N.add_0_r in X3. exact X3.
  - intros q Hq. apply X4; unfold rtp; [lia|]. rewrite pos_reg_rtp. cbn [tnum_n]. unfold rtp. fold E. lia.
  - intros i b Hi. rewrite FST. destruct (WF i b Hi) as [W1 W2].
    assert (Li : (i < n)%nat) by (apply nth_error_Some; unfold n; congruence).
    rewrite !NB; [auto| |]; unfold slot_addr.
    + rewrite <- Z.add_assoc. apply not_blk_off; [exact A1|lia].
    + apply not_blk_off; [exact A1|lia].
  - intros j Hj. rewrite FST. rewrite NB; [apply WZ; exact Hj|]. apply not_blk_off; [exact A1|lia].
  - intros x Hx OUT. rewrite FST in OUT. rewrite NB by exact Hx. apply WO. lia.
Qed.
End Store.
