(* C15, the checker on programs WITH type parameters and type arguments:
   - HashMap-based substitution (mk_mappings / subst_ty) = positional instantiation (inst) of the rules;
   - the invariant [pinv] of the instance tables: every instance, constructor instance and destructor
     instance is the instantiation of a declared template at well-formed type arguments, keyed by its
     printed name; every instance has all its xtor instances;
   - Ty::check: succeeds exactly on well-formed types ([ty_check_sound], [ty_check_complete]) and
     leaves the instance of the type in the table.
   Names are identifier-like ([name_ok], Proof/PrintInj.v), so printed names determine (head, args). *)
From Coq Require Import List ZArith String Bool Permutation Lia.
From SCC Require Import Base.Sexp Lang.SynUtil Lang.FunSyn Model.Check Sem.FunTyping
  Proof.FunInd Proof.FunEq Proof.CheckAnn Proof.TypingReject Proof.CheckBuild Proof.CheckMono Proof.CheckMonoSound
  Proof.PrintInj.
Import ListNotations.
Open Scope list_scope.

(* ---------- substitution = positional instantiation ---------- *)
Lemma fold_ainsert_fresh : forall {V} (l acc : amap V),
  NoDup (map fst acc ++ map fst l) ->
  fold_left (fun m kv => ainsert m (fst kv) (snd kv)) l acc = acc ++ l.
Proof.
  induction l as [|[k v] r IH]; intros acc Hn; simpl; [rewrite app_nil_r; reflexivity|].
  rewrite ainsert_fresh.
  - rewrite IH; [rewrite <- app_assoc; reflexivity|]. rewrite map_app. simpl. rewrite <- app_assoc. exact Hn.
  - destruct (aget acc k) eqn:E; [|reflexivity]. exfalso. apply aget_In in E.
    simpl in Hn. apply NoDup_remove_2 in Hn. apply Hn. apply in_or_app. left.
    apply in_map_iff. exists (k, v0). auto.
Qed.
Lemma map_fst_combine : forall (ps : list fname) (targs : list fty),
  List.length targs = List.length ps -> map fst (combine ps targs) = ps.
Proof.
  induction ps as [|p r IH]; intros [|a l] H; simpl in *; try discriminate; [reflexivity|].
  rewrite IH by lia. reflexivity.
Qed.
Lemma mk_mappings_combine : forall ps targs, nodup ps = true -> List.length targs = List.length ps ->
  mk_mappings ps targs = combine ps targs.
Proof.
  intros ps targs Hn Hl. unfold mk_mappings. rewrite fold_ainsert_fresh; [reflexivity|].
  simpl. rewrite map_fst_combine by assumption. apply nodup_NoDup. assumption.
Qed.
Lemma aget_combine : forall ps (targs : list fty) n, List.length targs = List.length ps ->
  aget (combine ps targs) n = match param_pos ps n with Some i => nth_error targs i | None => None end.
Proof.
  induction ps as [|p r IH]; intros [|a l] n H; simpl in *; try discriminate; [reflexivity|].
  destruct (String.eqb p n); [reflexivity|]. rewrite IH by lia.
  destruct (param_pos r n); reflexivity.
Qed.
Lemma param_pos_lt : forall ps n i, param_pos ps n = Some i -> i < List.length ps.
Proof.
  induction ps as [|p r IH]; intros n i H; simpl in H; [discriminate|].
  destruct (String.eqb p n); [inversion H; simpl; lia|].
  destruct (param_pos r n) eqn:E; [|discriminate]. inversion H; subst. simpl. specialize (IH _ _ E). lia.
Qed.
Lemma param_pos_mem : forall ps n, mem n ps = match param_pos ps n with Some _ => true | None => false end.
Proof.
  induction ps as [|p r IH]; intros n; simpl; [reflexivity|]. rewrite (String.eqb_sym n p).
  destruct (String.eqb p n); [reflexivity|]. simpl. rewrite (IH n). destruct (param_pos r n); reflexivity.
Qed.
Lemma nth_error_nth_lt : forall {X} (l : list X) i d, i < List.length l -> nth_error l i = Some (nth i l d).
Proof.
  induction l as [|x r IH]; intros i d H; simpl in H; [lia|]. destruct i; simpl; [reflexivity|]. apply IH. lia.
Qed.

Theorem subst_inst : forall ps targs, nodup ps = true -> List.length targs = List.length ps ->
  forall t, subst_ty (mk_mappings ps targs) t = inst ps targs t.
Proof.
  intros ps targs Hn Hl. rewrite mk_mappings_combine by assumption.
  induction t using fty_ind'; [reflexivity|]. simpl.
  rewrite aget_combine by assumption.
  destruct (param_pos ps n) as [i|] eqn:Ep.
  - rewrite (nth_error_nth_lt targs i FI64); [reflexivity|]. rewrite Hl. eapply param_pos_lt; eassumption.
  - f_equal. induction H as [|a r Ha _ IH]; simpl; [reflexivity|]. rewrite Ha, IH. reflexivity.
Qed.
Definition inst_binding (ps : list fname) (targs : list fty) (b : fbinding) : fbinding :=
  mkfb (fbvar b) (fbchi b) (inst ps targs (fbty b)).
Definition inst_ctx (ps : list fname) (targs : list fty) (c : fctx) : fctx := map (inst_binding ps targs) c.
Lemma subst_ctx_inst : forall ps targs, nodup ps = true -> List.length targs = List.length ps ->
  forall c, subst_ctx (mk_mappings ps targs) c = inst_ctx ps targs c.
Proof.
  intros ps targs Hn Hl c. unfold subst_ctx, inst_ctx. apply map_ext. intros b.
  unfold subst_binding, inst_binding. rewrite subst_inst by assumption. reflexivity.
Qed.

(* names and well-formedness under instantiation *)
Lemma tys_names_ok_nth : forall l i, tys_names_ok l = true -> ty_names_ok (nth i l FI64) = true.
Proof.
  induction l as [|a r IH]; intros i H; destruct i; simpl in *; try reflexivity;
    apply andb_true_iff in H; destruct H; auto.
Qed.
Lemma inst_names_ok : forall ps targs, tys_names_ok targs = true ->
  forall t, ty_names_ok t = true -> ty_names_ok (inst ps targs t) = true.
Proof.
  intros ps targs Ht. induction t using fty_ind'; intros Hn; [reflexivity|]. simpl.
  destruct (param_pos ps n); [apply tys_names_ok_nth; assumption|].
  rewrite ty_names_ok_decl in *. apply andb_true_iff in Hn. destruct Hn as [Hn Ha]. rewrite Hn. simpl.
  unfold tys_names_ok in *. rewrite forallb_forall in *. intros x Hx.
  apply in_map_iff in Hx. destruct Hx as [y [<- Hy]]. rewrite Forall_forall in H. auto.
Qed.
Lemma inst_ctx_names_ok : forall ps targs c, tys_names_ok targs = true -> ctx_names_ok c = true ->
  ctx_names_ok (inst_ctx ps targs c) = true.
Proof.
  intros ps targs c Ht Hc. unfold ctx_names_ok, inst_ctx in *. rewrite forallb_forall in *.
  intros b Hb. apply in_map_iff in Hb. destruct Hb as [b0 [<- Hb0]]. simpl. apply inst_names_ok; auto.
Qed.
Lemma forallb_nth : forall {X} (f : X -> bool) l i d, forallb f l = true -> f d = true -> f (nth i l d) = true.
Proof.
  induction l as [|a r IH]; intros i d H Hd; destruct i; simpl in *; try assumption;
    apply andb_true_iff in H; destruct H; auto.
Qed.
Lemma wf_tty_inst : forall ts ps targs, forallb (wf_ty ts) targs = true ->
  forall t, wf_tty ts ps t = true -> wf_ty ts (inst ps targs t) = true.
Proof.
  intros ts ps targs Ht. induction t using fty_ind'; intros Hw; [reflexivity|].
  simpl in Hw. simpl inst. rewrite param_pos_mem in Hw.
  destruct (param_pos ps n) as [i|].
  - apply forallb_nth; [assumption|reflexivity].
  - simpl. destruct (find_type ts n) as [td|]; [|discriminate].
    apply andb_true_iff in Hw. destruct Hw as [Hl Hf]. rewrite map_length, Hl. simpl.
    rewrite forallb_forall in *. intros x Hx. apply in_map_iff in Hx. destruct Hx as [y [<- Hy]].
    rewrite Forall_forall in H. auto.
Qed.

(* ---------- the world: names of the declarations ---------- *)
Record poly_world (ts : list tdecl) (fs : list fdef) : Prop := {
  PW_names : names_ok ts fs = true;
  PW_params : forall td, In td ts -> nodup (td_params td) = true;
  PW_tnames : forall td, In td ts -> name_ok (td_name td) = true;
  PW_xnames : forall td s, In td ts -> In s (td_xtors td) -> name_ok (xs_name s) = true;
  PW_sigs : forall td s, In td ts -> In s (td_xtors td) -> ctx_names_ok (xs_args s) = true /\ oty_names_ok (xs_ret s) = true;
  PW_defs : forall d, In d fs -> ctx_names_ok (fdctx d) = true /\ ty_names_ok (fdret d) = true;
  PW_ret : forall td s, In td ts -> td_pol td = FCodata -> In s (td_xtors td) -> xs_ret s <> None
}.

Lemma tys_check_eq : forall l st,
  (fix go (l : list fty) (st : symtab) : cres symtab :=
     match l with [] => COk st | a :: r => doc st' <- ty_check a st; go r st' end) l st = tys_check l st.
Proof. induction l as [|a r IH]; intros st; simpl; [reflexivity|]. destruct (ty_check a st); simpl; auto. Qed.
Lemma ty_check_decl : forall name targs st,
  ty_check (FDecl name targs) st =
  match aget (st_types st) (name ++ print_targs targs)%string with
  | Some _ => COk st
  | None =>
      match aget (st_type_templates st) name with
      | None => CErr EUndefined
      | Some (pol, params, xtors) =>
          if negb (Nat.eqb (List.length targs) (List.length params)) then CErr EWrongNumberOfTypeArguments
          else doc st1 <- tys_check targs st; create_instance_tail (name ++ print_targs targs)%string targs pol params xtors st1
      end
  end.
Proof.
  intros name targs st. simpl.
  destruct (aget (st_types st) (name ++ print_targs targs)%string); [reflexivity|].
  destruct (aget (st_type_templates st) name) as [[[pol params] xtors]|]; [|reflexivity].
  destruct (negb (Nat.eqb (List.length targs) (List.length params))); [reflexivity|].
  rewrite tys_check_eq. reflexivity.
Qed.

(* ---------- the instance loops ---------- *)
Lemma insert_ctor_instances_spec : forall m sfx xs st st',
  insert_ctor_instances m sfx xs st = COk st' ->
  same_templates st st' /\ st_types st' = st_types st /\ st_dtors st' = st_dtors st
  /\ (forall k v, aget (st_ctors st') k = Some v ->
        aget (st_ctors st) k = Some v
        \/ exists x sg, In x xs /\ k = (x ++ sfx)%string /\ aget (st_ctor_templates st) x = Some sg /\ v = subst_ctx m sg)
  /\ (forall k, ahas (st_ctors st) k = true -> ahas (st_ctors st') k = true)
  /\ (forall x, In x xs -> ahas (st_ctors st') (x ++ sfx)%string = true).
Proof.
  induction xs as [|x r IH]; intros st st' H; simpl in H.
  - inversion H; subst. repeat split; auto using same_templates_refl; try (intros x []).
  - destruct (aget (st_ctor_templates st) x) as [sg|] eqn:Et; [|discriminate].
    apply IH in H. simpl in H. destruct H as [S [Ety [Ed [Hk [Hm Hx]]]]].
    split; [destruct S as [? [? [? ?]]]; repeat split; assumption|].
    split; [assumption|]. split; [assumption|]. split; [|split].
    + intros k v Hg. destruct (Hk k v Hg) as [Ho|[y [sg' [Hy [-> [Hsg ->]]]]]].
      * rewrite aget_ainsert in Ho. destruct (String.eqb (x ++ sfx)%string k) eqn:E; [|left; assumption].
        apply String.eqb_eq in E. subst k. inversion Ho; subst. right. exists x, sg. repeat split; simpl; auto.
      * right. exists y, sg'. repeat split; simpl; auto.
    + intros k Hh. apply Hm. unfold ahas in *. rewrite aget_ainsert. destruct (String.eqb (x ++ sfx)%string k); [reflexivity|assumption].
    + intros y [<-|Hy]; [|auto]. apply Hm. unfold ahas. rewrite aget_ainsert, String.eqb_refl. reflexivity.
Qed.
Lemma insert_dtor_instances_spec : forall m sfx xs st st',
  insert_dtor_instances m sfx xs st = COk st' ->
  same_templates st st' /\ st_types st' = st_types st /\ st_ctors st' = st_ctors st
  /\ (forall k v, aget (st_dtors st') k = Some v ->
        aget (st_dtors st) k = Some v
        \/ exists x sg ret, In x xs /\ k = (x ++ sfx)%string /\ aget (st_dtor_templates st) x = Some (sg, ret)
                            /\ v = (subst_ctx m sg, subst_ty m ret))
  /\ (forall k, ahas (st_dtors st) k = true -> ahas (st_dtors st') k = true)
  /\ (forall x, In x xs -> ahas (st_dtors st') (x ++ sfx)%string = true).
Proof.
  induction xs as [|x r IH]; intros st st' H; simpl in H.
  - inversion H; subst. repeat split; auto using same_templates_refl; try (intros x []).
  - destruct (aget (st_dtor_templates st) x) as [[sg ret]|] eqn:Et; [|discriminate].
    apply IH in H. simpl in H. destruct H as [S [Ety [Ed [Hk [Hm Hx]]]]].
    split; [destruct S as [? [? [? ?]]]; repeat split; assumption|].
    split; [assumption|]. split; [assumption|]. split; [|split].
    + intros k v Hg. destruct (Hk k v Hg) as [Ho|[y [sg' [ret' [Hy [-> [Hsg ->]]]]]]].
      * rewrite aget_ainsert in Ho. destruct (String.eqb (x ++ sfx)%string k) eqn:E; [|left; assumption].
        apply String.eqb_eq in E. subst k. inversion Ho; subst. right. exists x, sg, ret. repeat split; simpl; auto.
      * right. exists y, sg', ret'. repeat split; simpl; auto.
    + intros k Hh. apply Hm. unfold ahas in *. rewrite aget_ainsert. destruct (String.eqb (x ++ sfx)%string k); [reflexivity|assumption].
    + intros y [<-|Hy]; [|auto]. apply Hm. unfold ahas. rewrite aget_ainsert, String.eqb_refl. reflexivity.
Qed.
Lemma insert_ctor_instances_ok : forall m sfx xs st,
  (forall x, In x xs -> exists sg, aget (st_ctor_templates st) x = Some sg) ->
  exists st', insert_ctor_instances m sfx xs st = COk st'.
Proof.
  induction xs as [|x r IH]; intros st H; simpl; [eauto|].
  destruct (H x (or_introl eq_refl)) as [sg ->]. apply IH. intros y Hy. simpl. apply H. right. assumption.
Qed.
Lemma insert_dtor_instances_ok : forall m sfx xs st,
  (forall x, In x xs -> exists sg, aget (st_dtor_templates st) x = Some sg) ->
  exists st', insert_dtor_instances m sfx xs st = COk st'.
Proof.
  induction xs as [|x r IH]; intros st H; simpl; [eauto|].
  destruct (H x (or_introl eq_refl)) as [[sg ret] ->]. apply IH. intros y Hy. simpl. apply H. right. assumption.
Qed.

Lemma NoDup_keys_ainsert : forall {V} (m : amap V) k v, NoDup (map fst m) -> NoDup (map fst (ainsert m k v)).
Proof.
  intros V m k v Hn. destruct (aget m k) eqn:E.
  - assert (Hk : map fst (ainsert m k v) = map fst m).
    { clear Hn. revert E. induction m as [|[k' v'] r IH]; simpl; intros E; [discriminate|].
      destruct (String.eqb k' k) eqn:Ek; simpl.
      - apply String.eqb_eq in Ek. subst. reflexivity.
      - rewrite IH by assumption. reflexivity. }
    rewrite Hk. assumption.
  - rewrite ainsert_fresh by assumption. rewrite map_app. simpl.
    apply NoDup_app_snoc; [assumption|]. apply aget_none_notin. assumption.
Qed.

Section Poly.
  Variable ts : list tdecl.
  Variable fs : list fdef.
  Hypothesis W : poly_world ts fs.

  Lemma pw_names_parts : nodup (map td_name ts) = true /\ nodup (xtor_names FData ts) = true
                         /\ nodup (xtor_names FCodata ts) = true /\ nodup (map fdname fs) = true.
  Proof.
    pose proof (PW_names _ _ W) as H. unfold names_ok in H.
    apply andb_true_iff in H. destruct H as [H H4]. apply andb_true_iff in H. destruct H as [H H3].
    apply andb_true_iff in H. destruct H as [H1 H2]. auto.
  Qed.
  Lemma pw_nodup_xtors : forall pol, nodup (xtor_names pol ts) = true.
  Proof. intros [|]; apply pw_names_parts. Qed.
  Lemma pw_find_type : forall td, In td ts -> find_type ts (td_name td) = Some td.
  Proof. intros td H. apply find_type_unique; [apply pw_names_parts|assumption]. Qed.

  (* an xtor signature of a declared type, found by name *)
  Lemma find_xsig_of_in : forall td s, In td ts -> In s (td_xtors td) -> find_xsig td (xs_name s) = Some s.
  Proof.
    intros td s Htd Hs.
    pose proof (xtor_names_of_type_nodup ts (td_pol td) td (pw_nodup_xtors _) Htd eq_refl) as Hn.
    unfold find_xsig. revert Hn Hs. generalize (td_xtors td). intros l. induction l as [|a r IH]; intros Hn Hs; [destruct Hs|].
    simpl in *. apply andb_true_iff in Hn. destruct Hn as [Hm Hn].
    destruct Hs as [->|Hs]; [rewrite String.eqb_refl; reflexivity|].
    destruct (String.eqb (xs_name a) (xs_name s)) eqn:E; [|auto].
    apply String.eqb_eq in E. exfalso.
    assert (mem (xs_name a) (map xs_name r) = true) by (apply mem_In; rewrite E; apply in_map; assumption).
    rewrite H in Hm. discriminate.
  Qed.
  Lemma pw_find_xtor : forall td s, In td ts -> In s (td_xtors td) -> find_xtor ts (td_pol td) (xs_name s) = Some (td, s).
  Proof.
    intros td s Htd Hs. apply find_xtor_unique; auto using pw_nodup_xtors, find_xsig_of_in.
  Qed.
  (* the xtor belongs to one declared type of its polarity only *)
  Lemma xtor_owner_unique : forall td td' s s', In td ts -> In td' ts -> td_pol td = td_pol td' ->
    In s (td_xtors td) -> In s' (td_xtors td') -> xs_name s = xs_name s' -> td = td' /\ s = s'.
  Proof.
    intros td td' s s' Htd Htd' Hp Hs Hs' Hn.
    pose proof (pw_find_xtor td s Htd Hs) as H1. pose proof (pw_find_xtor td' s' Htd' Hs') as H2.
    rewrite Hp, Hn in H1. rewrite H1 in H2. inversion H2. auto.
  Qed.

  Definition targs_ok (td : tdecl) (targs : list fty) : Prop :=
    List.length targs = List.length (td_params td) /\ forallb (wf_ty ts) targs = true.
  Definition sub_of (td : tdecl) (targs : list fty) : amap fty := mk_mappings (td_params td) targs.

  Definition has_inst_p (st : symtab) (t : fty) : Prop :=
    match t with FI64 => True | FDecl n a => ahas (st_types st) (n ++ print_targs a)%string = true end.
  Lemma has_inst_grows : forall st st' t, grows st st' -> has_inst_p st t -> has_inst_p st' t.
  Proof. intros st st' [|n a] G H; [exact I|]. simpl in *. apply G. exact H. Qed.

  Record pinv (st : symtab) : Prop := {
    pi_types : forall key pol targs xs, aget (st_types st) key = Some (pol, targs, xs) ->
      exists td, In td ts /\ key = (td_name td ++ print_targs targs)%string /\ td_pol td = pol
                 /\ xs = map xs_name (td_xtors td) /\ targs_ok td targs;
    pi_ctors : forall k sg, aget (st_ctors st) k = Some sg ->
      exists td targs s, In td ts /\ td_pol td = FData /\ In s (td_xtors td)
                 /\ k = (xs_name s ++ print_targs targs)%string
                 /\ sg = subst_ctx (sub_of td targs) (xs_args s) /\ targs_ok td targs;
    pi_dtors : forall k sg ret, aget (st_dtors st) k = Some (sg, ret) ->
      exists td targs s r0, In td ts /\ td_pol td = FCodata /\ In s (td_xtors td) /\ xs_ret s = Some r0
                 /\ k = (xs_name s ++ print_targs targs)%string
                 /\ sg = subst_ctx (sub_of td targs) (xs_args s) /\ ret = subst_ty (sub_of td targs) r0
                 /\ targs_ok td targs;
    pi_xtors_of : forall key pol targs xs x, aget (st_types st) key = Some (pol, targs, xs) -> In x xs ->
      match pol with
      | FData => ahas (st_ctors st) (x ++ print_targs targs)%string = true
      | FCodata => ahas (st_dtors st) (x ++ print_targs targs)%string = true
      end;
    (* closure under type arguments: the arguments of an instance are instances *)
    pi_targs : forall key pol targs xs, aget (st_types st) key = Some (pol, targs, xs) -> Forall (has_inst_p st) targs;
    pi_nodup : NoDup (map fst (st_types st))
  }.

  Lemma pinv_start : forall st, st_types st = [] -> st_ctors st = [] -> st_dtors st = [] -> pinv st.
  Proof.
    intros st Ht Hc Hd. constructor; intros; rewrite ?Ht, ?Hc, ?Hd in *; simpl in *; try discriminate. constructor.
  Qed.


  (* well-formed types have identifier-like names *)
  Lemma wf_ty_names_ok : forall t, wf_ty ts t = true -> ty_names_ok t = true.
  Proof.
    induction t using fty_ind'; intros Hw; [reflexivity|]. simpl in Hw.
    destruct (find_type ts n) as [td|] eqn:Ef; [|discriminate].
    apply andb_true_iff in Hw. destruct Hw as [_ Hw].
    rewrite ty_names_ok_decl. pose proof (find_type_name _ _ _ Ef) as <-.
    rewrite (PW_tnames _ _ W td (find_type_in _ _ _ Ef)). simpl.
    unfold tys_names_ok. rewrite forallb_forall in *. intros x Hx. rewrite Forall_forall in H. auto.
  Qed.
  Lemma wf_tys_names_ok : forall l, forallb (wf_ty ts) l = true -> tys_names_ok l = true.
  Proof.
    intros l H. unfold tys_names_ok. rewrite forallb_forall in *. intros x Hx. apply wf_ty_names_ok. auto.
  Qed.

  (* two keys of instances coincide only for the same declared type and arguments *)
  Lemma instance_key_inj : forall td td' targs targs',
    In td ts -> In td' ts -> tys_names_ok targs = true -> tys_names_ok targs' = true ->
    (td_name td ++ print_targs targs = td_name td' ++ print_targs targs')%string -> td = td' /\ targs = targs'.
  Proof.
    intros td td' targs targs' Htd Htd' N N' E.
    destruct (instance_name_inj _ _ _ _ (name_ok_no_delim _ (PW_tnames _ _ W td Htd))
                (name_ok_no_delim _ (PW_tnames _ _ W td' Htd')) N N' E) as [En ->].
    split; [|reflexivity]. pose proof (pw_find_type td Htd) as H1. pose proof (pw_find_type td' Htd') as H2.
    rewrite En in H1. rewrite H1 in H2. inversion H2. reflexivity.
  Qed.

  (* the template entry of a declared type and of its xtors *)
  Lemma template_of_type : forall st td, tables ts fs st -> In td ts ->
    aget (st_type_templates st) (td_name td) = Some (td_pol td, td_params td, map xs_name (td_xtors td)).
  Proof. intros st td T Htd. rewrite (t_tt _ _ _ T), (pw_find_type td Htd). reflexivity. Qed.
  Lemma ctor_template_of : forall st td s, tables ts fs st -> In td ts -> td_pol td = FData -> In s (td_xtors td) ->
    aget (st_ctor_templates st) (xs_name s) = Some (xs_args s).
  Proof.
    intros st td s T Htd Hp Hs. rewrite (t_ct _ _ _ T). rewrite <- Hp, (pw_find_xtor td s Htd Hs). reflexivity.
  Qed.
  Lemma dtor_template_of : forall st td s, tables ts fs st -> In td ts -> td_pol td = FCodata -> In s (td_xtors td) ->
    exists r0, xs_ret s = Some r0 /\ aget (st_dtor_templates st) (xs_name s) = Some (xs_args s, r0).
  Proof.
    intros st td s T Htd Hp Hs. rewrite (t_dt _ _ _ T). rewrite <- Hp, (pw_find_xtor td s Htd Hs). unfold dt_val. simpl.
    destruct (xs_ret s) as [r0|] eqn:Er; [eauto|]. exfalso. eapply (PW_ret _ _ W); eassumption.
  Qed.

  (* ---------- create_instance ---------- *)
  Lemma create_instance_spec : forall st td targs st',
    tables ts fs st -> pinv st -> In td ts -> targs_ok td targs -> Forall (has_inst_p st) targs ->
    create_instance_tail (td_name td ++ print_targs targs)%string targs (td_pol td) (td_params td)
      (map xs_name (td_xtors td)) st = COk st' ->
    pinv st' /\ same_templates st st' /\ grows st st' /\ ahas (st_types st') (td_name td ++ print_targs targs)%string = true.
  Proof.
    intros st td targs st' T I Htd Hok Hta H. unfold create_instance_tail in H.
    apply cbind_ok in H. destruct H as [st1 [H1 H]]. inversion H; subst st'. clear H.
    fold (sub_of td targs) in H1.
    assert (Hgrow : forall n, ahas (ainsert (st_types st1) (td_name td ++ print_targs targs)%string
                      (td_pol td, targs, map xs_name (td_xtors td))) n = true <->
                    n = (td_name td ++ print_targs targs)%string \/ ahas (st_types st1) n = true).
    { intros n. unfold ahas. rewrite aget_ainsert.
      destruct (String.eqb (td_name td ++ print_targs targs)%string n) eqn:E.
      - apply String.eqb_eq in E. subst. simpl. tauto.
      - apply String.eqb_neq in E. split; [auto|intros [->|]; [congruence|assumption]]. }
    destruct (td_pol td) eqn:Ep.
    - destruct (insert_ctor_instances_spec _ _ _ _ _ H1) as [S [Ety [Ed [Hk [Hm Hx]]]]].
      split; [|split; [|split]].
      + constructor; simpl.
        * intros key pol targs0 xs Hg. rewrite aget_ainsert in Hg.
          destruct (String.eqb (td_name td ++ print_targs targs)%string key) eqn:E.
          -- apply String.eqb_eq in E. inversion Hg; subst. exists td. splits; auto.
          -- rewrite Ety in Hg. eapply (pi_types _ I); eassumption.
        * intros k sg Hg. destruct (Hk k sg Hg) as [Ho|[x [sg0 [Hx0 [-> [Hsg ->]]]]]].
          -- eapply (pi_ctors _ I); eassumption.
          -- apply in_map_iff in Hx0. destruct Hx0 as [s [<- Hs]].
             rewrite (ctor_template_of st td s T Htd Ep Hs) in Hsg. inversion Hsg; subst.
             exists td, targs, s. splits; auto.
        * intros k sg ret Hg. rewrite Ed in Hg. eapply (pi_dtors _ I); eassumption.
        * intros key pol targs0 xs x Hg Hin. rewrite aget_ainsert in Hg.
          destruct (String.eqb (td_name td ++ print_targs targs)%string key) eqn:E.
          -- inversion Hg; subst. apply Hx. assumption.
          -- rewrite Ety in Hg. pose proof (pi_xtors_of _ I _ _ _ _ _ Hg Hin) as Hp.
             destruct pol; [apply Hm; assumption|rewrite Ed; assumption].
        * intros key pol targs0 xs Hg. rewrite aget_ainsert in Hg.
          assert (Hgr : grows st (set_types st1 (ainsert (st_types st1) (td_name td ++ print_targs targs)%string
                                   (FData, targs, map xs_name (td_xtors td))))).
          { intros n Hn. simpl. unfold ahas in *. rewrite aget_ainsert.
            destruct (String.eqb (td_name td ++ print_targs targs)%string n); [reflexivity|]. rewrite Ety. exact Hn. }
          destruct (String.eqb (td_name td ++ print_targs targs)%string key) eqn:E.
          -- inversion Hg; subst. eapply Forall_impl; [|exact Hta]. intros a Ha. eapply has_inst_grows; eassumption.
          -- rewrite Ety in Hg. eapply Forall_impl; [|exact (pi_targs _ I _ _ _ _ Hg)].
             intros a Ha. eapply has_inst_grows; eassumption.
        * apply NoDup_keys_ainsert. rewrite Ety. apply (pi_nodup _ I).
      + destruct S as [? [? [? ?]]]. repeat split; assumption.
      + intros n Hn. simpl. apply Hgrow. right. rewrite Ety. assumption.
      + simpl. apply Hgrow. left. reflexivity.
    - destruct (insert_dtor_instances_spec _ _ _ _ _ H1) as [S [Ety [Ed [Hk [Hm Hx]]]]].
      split; [|split; [|split]].
      + constructor; simpl.
        * intros key pol targs0 xs Hg. rewrite aget_ainsert in Hg.
          destruct (String.eqb (td_name td ++ print_targs targs)%string key) eqn:E.
          -- apply String.eqb_eq in E. inversion Hg; subst. exists td. splits; auto.
          -- rewrite Ety in Hg. eapply (pi_types _ I); eassumption.
        * intros k sg Hg. rewrite Ed in Hg. eapply (pi_ctors _ I); eassumption.
        * intros k sg ret Hg. destruct (Hk k _ Hg) as [Ho|[x [sg0 [ret0 [Hx0 [-> [Hsg Hv]]]]]]].
          -- eapply (pi_dtors _ I); eassumption.
          -- inversion Hv; subst. apply in_map_iff in Hx0. destruct Hx0 as [s [<- Hs]].
             destruct (dtor_template_of st td s T Htd Ep Hs) as [r0 [Hr Hsg']]. rewrite Hsg' in Hsg. inversion Hsg; subst.
             exists td, targs, s, ret0. splits; auto.
        * intros key pol targs0 xs x Hg Hin. rewrite aget_ainsert in Hg.
          destruct (String.eqb (td_name td ++ print_targs targs)%string key) eqn:E.
          -- inversion Hg; subst. apply Hx. assumption.
          -- rewrite Ety in Hg. pose proof (pi_xtors_of _ I _ _ _ _ _ Hg Hin) as Hp.
             destruct pol; [rewrite Ed; assumption|apply Hm; assumption].
        * intros key pol targs0 xs Hg. rewrite aget_ainsert in Hg.
          assert (Hgr : grows st (set_types st1 (ainsert (st_types st1) (td_name td ++ print_targs targs)%string
                                   (FCodata, targs, map xs_name (td_xtors td))))).
          { intros n Hn. simpl. unfold ahas in *. rewrite aget_ainsert.
            destruct (String.eqb (td_name td ++ print_targs targs)%string n); [reflexivity|]. rewrite Ety. exact Hn. }
          destruct (String.eqb (td_name td ++ print_targs targs)%string key) eqn:E.
          -- inversion Hg; subst. eapply Forall_impl; [|exact Hta]. intros a Ha. eapply has_inst_grows; eassumption.
          -- rewrite Ety in Hg. eapply Forall_impl; [|exact (pi_targs _ I _ _ _ _ Hg)].
             intros a Ha. eapply has_inst_grows; eassumption.
        * apply NoDup_keys_ainsert. rewrite Ety. apply (pi_nodup _ I).
      + destruct S as [? [? [? ?]]]. repeat split; assumption.
      + intros n Hn. simpl. apply Hgrow. right. rewrite Ety. assumption.
      + simpl. apply Hgrow. left. reflexivity.
  Qed.

  Lemma create_instance_ok : forall st td targs, tables ts fs st -> In td ts ->
    exists st', create_instance_tail (td_name td ++ print_targs targs)%string targs (td_pol td) (td_params td)
                  (map xs_name (td_xtors td)) st = COk st'.
  Proof.
    intros st td targs T Htd. unfold create_instance_tail.
    pose proof (template_xtors_present ts fs (PW_ret _ _ W) st _ _ _ _ T (template_of_type st td T Htd)) as Hx.
    destruct (td_pol td).
    - destruct (insert_ctor_instances_ok (mk_mappings (td_params td) targs) (print_targs targs) _ st Hx) as [st1 ->]. simpl. eauto.
    - destruct (insert_dtor_instances_ok (mk_mappings (td_params td) targs) (print_targs targs) _ st Hx) as [st1 ->]. simpl. eauto.
  Qed.

  (* ---------- Ty::check ---------- *)
  Definition ty_sound_at (t : fty) : Prop :=
    forall st st', ty_names_ok t = true -> tables ts fs st -> pinv st -> ty_check t st = COk st' ->
      wf_ty ts t = true /\ pinv st' /\ same_templates st st' /\ grows st st' /\ has_inst_p st' t.

  Lemma tys_check_sound : forall l, Forall ty_sound_at l ->
    forall st st', tys_names_ok l = true -> tables ts fs st -> pinv st -> tys_check l st = COk st' ->
      forallb (wf_ty ts) l = true /\ pinv st' /\ same_templates st st' /\ grows st st' /\ Forall (has_inst_p st') l.
  Proof.
    intros l HF. induction HF as [|a r Ha _ IH]; intros st st' N T I H; simpl in H.
    - inversion H; subst. simpl. auto 10 using same_templates_refl, grows_refl.
    - simpl in N. apply andb_true_iff in N. destruct N as [Na Nr].
      apply cbind_ok in H. destruct H as [st1 [H1 H]].
      destruct (Ha st st1 Na T I H1) as [Hw [I1 [S1 [G1 Hi1]]]].
      destruct (IH st1 st' Nr (tables_same _ _ _ _ T S1) I1 H) as [Hwr [I2 [S2 [G2 Hi2]]]].
      simpl. rewrite Hw, Hwr. splits; eauto using same_templates_trans, grows_trans.
      constructor; [eapply has_inst_grows; eassumption|assumption].
  Qed.

  Theorem ty_check_sound_all : forall t, ty_sound_at t.
  Proof.
    induction t using fty_ind'; unfold ty_sound_at; intros st st' N T I Hc.
    - simpl in Hc. inversion Hc; subst. simpl. auto using same_templates_refl, grows_refl.
    - rewrite ty_names_ok_decl in N. apply andb_true_iff in N. destruct N as [Nn Na].
      rewrite ty_check_decl in Hc.
      destruct (aget (st_types st) (n ++ print_targs args)%string) as [[[pol targs] xs]|] eqn:Eg.
      + inversion Hc; subst st'.
        destruct (pi_types _ I _ _ _ _ Eg) as [td [Htd [Ek [Hp [Hxs [Hlen Hwf]]]]]].
        destruct (instance_name_inj _ _ _ _ (name_ok_no_delim _ Nn) (name_ok_no_delim _ (PW_tnames _ _ W td Htd))
                    Na (wf_tys_names_ok _ Hwf) Ek) as [-> ->].
        splits; auto using same_templates_refl, grows_refl.
        * simpl. rewrite (pw_find_type td Htd), Hlen, PeanoNat.Nat.eqb_refl. simpl. exact Hwf.
        * simpl. unfold ahas. rewrite Eg. reflexivity.
      + destruct (aget (st_type_templates st) n) as [[[pol params] xtors]|] eqn:Et; [|discriminate].
        destruct (find_type_tt ts fs st n pol params xtors T Et) as [td [Hf [Hp [Hps Hxs]]]].
        pose proof (find_type_in _ _ _ Hf) as Htd. pose proof (find_type_name _ _ _ Hf) as Hn.
        destruct (Nat.eqb (List.length args) (List.length params)) eqn:El; [|discriminate]. simpl in Hc.
        apply PeanoNat.Nat.eqb_eq in El.
        apply cbind_ok in Hc. destruct Hc as [st1 [H1 Hc]].
        destruct (tys_check_sound args H st st1 Na T I H1) as [Hwf [I1 [S1 [G1 Hta]]]].
        subst n pol params xtors.
        destruct (create_instance_spec st1 td args st' (tables_same _ _ _ _ T S1) I1 Htd (conj El Hwf) Hta Hc)
          as [I2 [S2 [G2 Hh]]].
        splits; eauto using same_templates_trans, grows_trans.
        simpl. rewrite Hf, El, PeanoNat.Nat.eqb_refl. simpl. exact Hwf.
  Qed.
  Lemma ty_check_sound : forall t st st', ty_names_ok t = true -> tables ts fs st -> pinv st -> ty_check t st = COk st' ->
    wf_ty ts t = true /\ pinv st' /\ same_templates st st' /\ grows st st' /\ has_inst_p st' t.
  Proof. intros t. apply ty_check_sound_all. Qed.

  Lemma tys_check_complete : forall l, Forall (fun t => forall st, wf_ty ts t = true -> tables ts fs st -> pinv st ->
                                                  exists st', ty_check t st = COk st') l ->
    forall st, forallb (wf_ty ts) l = true -> tables ts fs st -> pinv st -> exists st', tys_check l st = COk st'.
  Proof.
    intros l HF. induction HF as [|a r Ha _ IH]; intros st Hw T I; simpl; [eauto|].
    simpl in Hw. apply andb_true_iff in Hw. destruct Hw as [Hwa Hwr].
    destruct (Ha st Hwa T I) as [st1 H1]. rewrite H1. simpl.
    destruct (ty_check_sound a st st1 (wf_ty_names_ok _ Hwa) T I H1) as [_ [I1 [S1 _]]].
    apply IH; auto. eapply tables_same; eassumption.
  Qed.
  Theorem ty_check_complete : forall t st, wf_ty ts t = true -> tables ts fs st -> pinv st ->
    exists st', ty_check t st = COk st'.
  Proof.
    induction t using fty_ind'; intros st Hw T I; [simpl; eauto|].
    rewrite ty_check_decl. destruct (aget (st_types st) (n ++ print_targs args)%string); [eauto|].
    simpl in Hw. destruct (find_type ts n) as [td|] eqn:Ef; [|discriminate].
    apply andb_true_iff in Hw. destruct Hw as [Hl Hwf].
    pose proof (find_type_in _ _ _ Ef) as Htd. pose proof (find_type_name _ _ _ Ef) as Hn. subst n.
    rewrite (template_of_type st td T Htd), Hl. simpl.
    destruct (tys_check_complete args H st Hwf T I) as [st1 H1]. rewrite H1. simpl.
    destruct (tys_check_sound args (proj2 (Forall_forall _ _) (fun t _ => ty_check_sound_all t)) st st1
                (wf_tys_names_ok _ Hwf) T I H1) as [_ [I1 [S1 _]]].
    apply create_instance_ok; [eapply tables_same; eassumption|assumption].
  Qed.
  Lemma ty_check_ok : forall t st, wf_ty ts t = true -> tables ts fs st -> pinv st ->
    exists st', ty_check t st = COk st' /\ pinv st' /\ same_templates st st' /\ grows st st' /\ has_inst_p st' t.
  Proof.
    intros t st Hw T I. destruct (ty_check_complete t st Hw T I) as [st' H]. exists st'. split; [exact H|].
    destruct (ty_check_sound t st st' (wf_ty_names_ok _ Hw) T I H) as [_ R]. exact R.
  Qed.

  (* ---------- check_equality ---------- *)
  Lemma check_equality_sound : forall a b st st', ty_names_ok a = true -> ty_names_ok b = true ->
    tables ts fs st -> pinv st -> check_equality st a b = COk st' ->
    a = b /\ wf_ty ts a = true /\ pinv st' /\ same_templates st st' /\ grows st st' /\ has_inst_p st' a.
  Proof.
    intros a b st st' Na Nb T I H. unfold check_equality in H.
    apply cbind_ok in H. destruct H as [s1 [H1 H]]. apply cbind_ok in H. destruct H as [s2 [H2 H]].
    destruct (fty_eqb a b) eqn:E; [|discriminate]. inversion H; subst s2.
    destruct (ty_check_sound _ _ _ Na T I H1) as [Hw [I1 [S1 [G1 Hi1]]]].
    destruct (ty_check_sound _ _ _ Nb (tables_same _ _ _ _ T S1) I1 H2) as [Hw2 [I2 [S2 [G2 Hi2]]]].
    apply fty_eqb_eq in E. subst b. splits; eauto using same_templates_trans, grows_trans.
  Qed.
  Lemma check_equality_ok : forall a st, wf_ty ts a = true -> tables ts fs st -> pinv st ->
    exists st', check_equality st a a = COk st' /\ pinv st' /\ same_templates st st' /\ grows st st' /\ has_inst_p st' a.
  Proof.
    intros a st Hw T I. unfold check_equality.
    destruct (ty_check_ok a st Hw T I) as [s1 [H1 [I1 [S1 [G1 Hi1]]]]]. rewrite H1. simpl.
    destruct (ty_check_ok a s1 Hw (tables_same _ _ _ _ T S1) I1) as [s2 [H2 [I2 [S2 [G2 Hi2]]]]]. rewrite H2. simpl.
    rewrite fty_eqb_refl. exists s2. splits; eauto using same_templates_trans, grows_trans.
  Qed.
End Poly.
