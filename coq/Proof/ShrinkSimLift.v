(* Proof/ShrinkSimLift.v (C04, fragment 2) - lifted statements: `lift s` emits a call of a new
   definition whose parameters are the (renamed) free variables of s; the call binds them to the values
   of the free variables, after which the body simulates s. *)
From Coq Require Import List ZArith NArith String Bool Lia.
From SCC Require Import Base.Sexp Lang.SynUtil Lang.CoreSyn Lang.AxSyn Sem.AxSem Sem.FsCheck Model.Shrink
     Proof.ShrinkProof Proof.ShrinkSem Proof.ShrinkRn Proof.ShrinkRel Proof.ShrinkArgs Proof.ShrinkSimBase
     Proof.ShrinkSimA Proof.ShrinkSimB Proof.ShrinkSimData Proof.ShrinkSimC Proof.ShrinkTfv.
From SCC Require Sem.CoreSem.
Import ListNotations.
Open Scope list_scope.

(* first match of a zipped substitution *)
Lemma subst_combine_first : forall ids zs y, List.length ids = List.length zs -> In (cid_id y) ids ->
  exists j, nth_error zs j = Some (subst_ident (combine ids zs) y) /\ nth_error ids j = Some (cid_id y).
Proof.
  induction ids as [|i r IH]; intros [|z zr] y Hlen Hin; try discriminate; [contradiction|].
  cbn [combine subst_ident]. destruct (N.eqb i (cid_id y)) eqn:E.
  - apply N.eqb_eq in E. exists 0. simpl. now rewrite E.
  - destruct Hin as [->|Hin]; [rewrite N.eqb_refl in E; discriminate|].
    destruct (IH zr y ltac:(simpl in Hlen; lia) Hin) as (j & H1 & H2). exists (S j). auto.
Qed.
Lemma lookup_bind_nth : forall xs vs e1 j x v, NoDup (map idn xs) -> bind xs vs = Some e1 ->
  nth_error xs j = Some x -> nth_error vs j = Some v -> lookup e1 (idn x) = Some v.
Proof.
  induction xs as [|x0 r IH]; intros [|v0 vr] e1 j x v Hnd Hb Hx Hv; simpl in Hb; try discriminate; [destruct j; discriminate|].
  destruct (bind r vr) as [e2|] eqn:E; [|discriminate]. inv Hb. cbn [map] in Hnd. inversion Hnd as [|? ? Hni Hnd']; subst.
  destruct j as [|j]; simpl in Hx, Hv.
  - inv Hx. inv Hv. simpl. now rewrite N.eqb_refl.
  - simpl. destruct (N.eqb (idn x0) (idn x)) eqn:E2.
    + apply N.eqb_eq in E2. exfalso. apply Hni. rewrite E2. apply in_map. eapply nth_error_In; eauto.
    + eapply IH; eauto.
Qed.
Lemma lookups_all : forall ae xs, (forall x, In x xs -> exists v, lookup_id ae x = Some v) ->
  exists vs, lookups ae xs = Some vs /\ List.length vs = List.length xs /\
             forall j x v, nth_error xs j = Some x -> nth_error vs j = Some v -> lookup_id ae x = Some v.
Proof.
  induction xs as [|x r IH]; intros H.
  - exists []. split; [reflexivity|]. split; [reflexivity|]. intros [|j]; discriminate.
  - destruct (H x (or_introl eq_refl)) as [v Hv]. destruct (IH (fun y Hy => H y (or_intror Hy))) as (vs & Hl & Hlen & Hn).
    exists (v :: vs). cbn [lookups]. rewrite Hv, Hl. split; [reflexivity|]. split; [simpl; lia|].
    intros [|j] y w Hy Hw; simpl in Hy, Hw; [inv Hy; inv Hw; exact Hv | eauto].
Qed.

Lemma Forall2_len : forall {X Y} (R : X -> Y -> Prop) l1 l2, Forall2 R l1 l2 -> List.length l1 = List.length l2.
Proof. intros X Y R l1 l2 H. induction H; simpl; auto. Qed.
Lemma Forall2_in_l : forall {X Y} (R : X -> Y -> Prop) l1 l2 a, Forall2 R l1 l2 -> In a l1 -> exists b, In b l2 /\ R a b.
Proof.
  intros X Y R l1 l2 a H. induction H as [|x y l1 l2 Hxy _ IH]; intros Hin; [contradiction|].
  destruct Hin as [->|Hin]; [exists y; split; [now left | exact Hxy]|]. destruct (IH Hin) as (b & Hb & Hr). exists b. split; [now right | exact Hr].
Qed.

Section Lift.
Variable p : fsprog.
Variable q : prog.
Notation P := (CoreSem.fs2c_prog p).
Notation data := (fspdata p).
Notation codata := (fspcodata p).
Notation defs := (fspdefs p).
Notation m0 := (fspmax p).
Notation D := (data ++ [cont_int]).
Hypothesis Hqfresh : forall d, In d (pdefs q) -> pfresh (ids (dctx d)) (dbody d) = true.
Hypothesis Hqnames : forall d, In d (pdefs q) -> find_def q (dname d) = Some d.

(* the simulation statement for an arbitrary shrinking function R (shrink_stmt k E, or lift) *)
Definition FLr (n : nat) (R : fsstmt -> sst -> shres (stmt * sst)) (s : fsstmt) : Prop :=
  forall G rho th st t st' A e ae,
    inv p G rho th st ->
    check_stmt data codata defs G s = None -> ub_stmt (cids G) s = true -> ib_stmt m0 s = true ->
    nc_stmt (cvars G) s = true ->
    R (rn_stmt rho s) st = SOk (t, st') ->
    pfresh A t = true -> lifted_in q st' ->
    erel p q n (fun x => occurs x s) (fun x => th (rho x)) A G e ae ->
    forall out r, CoreSem.crun n P (CoreSem.Run (CoreSem.fs2c_stmt s) e) out = r -> good r ->
    exists m, exec_named m q ae (arn th t) out = r.
Lemma FLs_FLr : forall n s, FLs p q n s -> forall k lbl, FLr n (shrink_stmt k (mksenv D codata lbl)) s.
Proof. intros n s H k lbl G rho th st t st' A e ae. apply H. Qed.

Lemma lift_sim : forall j, FLn p q j -> forall k lbl s,
  FLr j (lift (shrink_stmt k (mksenv D codata lbl)) (mksenv D codata lbl)) s.
Proof.
  intros j FL k lbl s G rho th st t st' A e ae Hinv Hck Hub Hib Hnc Hsh Hpf Hlift He out r Hrun Hg.
  destruct (lift_closed _ _ _ _ _ _ Hsh) as (Hsorted & Hndf & Hndp & Hsig & label & body & st3 & Hname & Hlt & _ & -> & Hrec & ->).
  cbn [e_codata] in *.
  set (fvs := typed_free_vars (rn_stmt rho s)) in *. set (params := fresh_params fvs (s_max st)) in *.
  set (dl := mkd label (shrink_context codata params) body) in *.
  rewrite subst_is_rn, rn_comp in Hrec.
  assert (Hdl : In dl (pdefs q)) by (apply Hlift; now left).
  assert (Hlift3 : lifted_in q st3) by (intros d Hd; apply Hlift; now right).
  pose proof (Hqnames dl Hdl) as Hfind. pose proof (Hqfresh dl Hdl) as Hpfb. cbn [dl dname dctx dbody] in Hfind, Hpfb.
  destruct (typed_free_vars_spec p rho th st s G Hinv Hck Hnc Hub Hib) as [Hcompl Hsound]. fold fvs in Hcompl, Hsound.
  assert (Hlenp : List.length params = List.length fvs) by (eapply Forall2_len; eauto).
  (* every free variable is found on the AxCut side *)
  destruct (lookups_all ae (map th (cvars fvs))) as (vals & Hlk & Hlv & Hnth).
  { intros y Hy. apply in_map_iff in Hy as (z & <- & Hz). unfold cvars in Hz. apply in_map_iff in Hz as (b' & <- & Hb').
    destruct (Hsound b' Hb') as (b & Hb & Hocc & ->). cbn [B cbvar].
    unfold erel in He. destruct (Forall2_in_l _ _ _ _ He Hb) as ((y & v) & _ & Hy1 & Hy2).
    destruct (Hy2 Hocc) as (_ & av & Hl & _). exists av. exact Hl. }
  destruct (bind_total (vars (shrink_context codata params)) vals) as [ae' Hbind].
  { rewrite vars_shrink_context. unfold cvars. rewrite map_length, Hlenp, Hlv, map_length. unfold cvars. now rewrite map_length. }
  assert (Hfvs_rng : forall fv, In fv fvs -> In (cid_id (cbvar fv)) (cids G) \/ (m0 < cid_id (cbvar fv))%N).
  { intros fv Hfv. destruct (Hsound fv Hfv) as (b & Hb & _ & ->). cbn [B cbvar]. apply (inv_rng _ _ _ _ _ Hinv). exact Hb. }
  assert (Hpar_rng : forall z, In z (cvars params) -> (m0 < cid_id z)%N).
  { intros z Hz. assert (Hi : In (cid_id z) (cids params)) by (unfold cvars in Hz; apply in_map_iff in Hz as (b & <- & Hb); unfold cids; apply in_map_iff; eauto).
    apply fresh_params_ids in Hi. pose proof (inv_st _ _ _ _ _ Hinv). lia. }
  set (st2 := mksst (snd label) (s_lifted st) (label :: s_used st)) in *.
  set (rho' := fun x => subst_ident (combine (cids fvs) (cvars params)) (rho x)).
  assert (Hinv' : inv p G rho' (fun x => x) st2).
  { constructor.
    - apply (inv_nd _ _ _ _ _ Hinv).
    - apply (inv_le _ _ _ _ _ Hinv).
    - pose proof (inv_st _ _ _ _ _ Hinv). cbn [st2 s_max]. lia.
    - intros x Hx Hxm. unfold rho'. rewrite (inv_rho _ _ _ _ _ Hinv); auto. apply subst_ident_notin. intros Hin. apply map_fst_combine_incl in Hin.
      unfold cids in Hin. apply in_map_iff in Hin as (fv & Efv & Hfv). destruct (Hfvs_rng fv Hfv) as [H|H]; [apply Hx; now rewrite <- Efv | rewrite Efv in H; lia].
    - reflexivity.
    - intros b Hb. unfold rho'. destruct (subst_ident_range (combine (cids fvs) (cvars params)) (rho (cbvar b))) as [E|E].
      + rewrite E. apply (inv_rng _ _ _ _ _ Hinv). exact Hb.
      + apply map_snd_combine_incl in E. right. now apply Hpar_rng.
    - intros x y Hxy. exact Hxy. }
  assert (He' : erel p q j (fun x => occurs x s) (fun x => (fun y => y) (rho' x)) (ids (shrink_context codata params)) G e ae').
  { unfold erel in *. eapply Forall2_impl_in; [exact He|]. intros b ev Hb [H1 H2]. split; [exact H1|]. intros Hocc.
    destruct (H2 Hocc) as (_ & av & Hl & Hv). pose proof (Hcompl b Hb Hocc) as HB.
    assert (Hid : In (cid_id (rho (cbvar b))) (cids fvs)) by (unfold cids; apply in_map_iff; exists (B rho b); split; [reflexivity | exact HB]).
    destruct (subst_combine_first (cids fvs) (cvars params) (rho (cbvar b))) as (jx & Hz & Hi); [unfold cids, cvars; rewrite !map_length; lia | exact Hid|].
    fold (rho' (cbvar b)) in Hz. cbn beta.
    (* the jx-th free variable has the id of rho b; its value is the jx-th value *)
    unfold cids in Hi. rewrite nth_error_map in Hi. destruct (nth_error fvs jx) as [fvj|] eqn:Efv; [|discriminate]. cbn [option_map] in Hi. injection Hi as Hi.
    assert (Hxj : nth_error (map th (cvars fvs)) jx = Some (th (cbvar fvj))) by (unfold cvars; rewrite !nth_error_map, Efv; reflexivity).
    destruct (nth_error vals jx) as [vj|] eqn:Evj.
    2:{ apply nth_error_None in Evj. assert (jx < List.length fvs) by (apply nth_error_Some; congruence).
        rewrite Hlv, map_length in Evj. unfold cvars in Evj. rewrite map_length in Evj. lia. }
    pose proof (Hnth jx _ _ Hxj Evj) as Hlj. unfold lookup_id in Hlj.
    rewrite (inv_P _ _ _ _ _ Hinv (cbvar fvj) (rho (cbvar b)) Hi) in Hlj. rewrite Hl in Hlj. injection Hlj as <-.
    assert (Hpj : nth_error (vars (shrink_context codata params)) jx = Some (rho' (cbvar b))) by (rewrite vars_shrink_context; exact Hz).
    split.
    - rewrite ids_vars. apply in_map. eapply nth_error_In; eauto.
    - exists av. split; [|exact Hv]. eapply lookup_bind_nth; eauto.
      rewrite <- ids_vars, ids_shrink_context. exact Hndp. }
  destruct (FL s k lbl G rho' (fun x => x) st2 body st3 _ e ae' Hinv' Hck Hub Hib Hnc Hrec Hpfb Hlift3 He' _ _ Hrun Hg) as [m Hm].
  rewrite arn_id in Hm.
  assert (Hlk' : lookups ae (vars (arn_ctx th (shrink_context codata fvs))) = Some vals)
    by (rewrite vars_arn_ctx, vars_shrink_context; exact Hlk).
  exists (S m). cbn [arn exec_named]. rewrite Hfind. cbn [dctx dbody].
  rewrite Hlk'. unfold dl. cbn [dctx dbody]. rewrite Hbind. exact Hm.
Qed.
End Lift.
