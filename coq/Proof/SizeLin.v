(* C19, linearization: the size of the linearized program is at most
     2 * size + 3 * statements * (1 + width)
   where size counts every variable list, and width bounds the number of variables in scope.
   Reason: every statement gains at most ONE `Substitute` (plus, for Create, the closure-environment
   annotation), whose length is bounded by the length of the current context (+ the statement's own
   argument list), and along any path the context only grows by the binders passed. *)
From Coq Require Import String List ZArith NArith Bool Lia.
From SCC Require Import Base.Sexp Lang.AxSyn Lang.AxSize Model.Linearize Proof.LinBasics Proof.LinFbs Proof.LinTyping.
Import ListNotations.
Open Scope list_scope.
Open Scope N_scope.
Local Arguments N.add : simpl never.
Local Arguments N.mul : simpl never.
Local Arguments N.of_nat : simpl never.

Lemma len_app : forall {X} (a b : list X), len (a ++ b) = len a + len b.
Proof. intros; unfold len; rewrite app_length; lia. Qed.
Lemma len_map : forall {X Y} (f : X -> Y) l, len (map f l) = len l.
Proof. intros; unfold len; rewrite map_length; auto. Qed.
Lemma len_cons : forall {X} (a : X) l, len (a :: l) = 1 + len l.
Proof. intros; unfold len; simpl length; lia. Qed.
Lemma len_nil : forall {X}, len (@nil X) = 0.
Proof. reflexivity. Qed.
Lemma len_combine : forall {X Y} (a : list X) (b : list Y), len (combine a b) <= len a.
Proof. intros; unfold len; rewrite combine_length; lia. Qed.
Lemma len_fbs : forall c s, len (filter_by_set c s) <= len c.
Proof. intros; unfold len; pose proof (fbs_length_ctx c s); lia. Qed.
Lemma len_firstn : forall {X} n (l : list X), len (firstn n l) <= len l.
Proof. intros; unfold len; rewrite firstn_length; lia. Qed.
Lemma len_rot : forall {X} n (l : list X), len (skipn n l ++ firstn n l) = len l.
Proof. intros. rewrite len_app. unfold len. rewrite <- (firstn_skipn n l) at 3. rewrite app_length. lia. Qed.

Lemma freshen_len : forall c cl m, len (fst (freshen c cl m)) = len c.
Proof.
  induction c as [|b r IH]; intros cl m; simpl; auto.
  destruct (mem (idn (bvar b)) cl).
  - specialize (IH cl (m + 1)). destruct (freshen r cl (m + 1)) as [r' m']; simpl in *. rewrite !len_cons; lia.
  - specialize (IH (idn (bvar b) :: cl) m). destruct (freshen r (idn (bvar b) :: cl) m) as [r' m']; simpl in *.
    rewrite !len_cons; lia.
Qed.

(* ---------- the measures see through clause lists ---------- *)
Lemma ax_size_switch : forall v t cls, ax_size (Switch v t cls) = 1 + ax_size_cls cls.
Proof. intros; simpl; f_equal; induction cls as [|[[x cc] b] r IH]; simpl; auto; rewrite IH; auto. Qed.
Lemma ax_size_create : forall v t e cls next,
  ax_size (Create v t e cls next) = 1 + match e with Some e => len e | None => 0 end + ax_size_cls cls + ax_size next.
Proof. intros; simpl; do 2 f_equal; induction cls as [|[[x cc] b] r IH]; simpl; auto; rewrite IH; auto. Qed.
Lemma ax_nstmts_switch : forall v t cls, ax_nstmts (Switch v t cls) = 1 + ax_nstmts_cls cls.
Proof. intros; simpl; f_equal; induction cls as [|[[x cc] b] r IH]; simpl; auto; rewrite IH; auto. Qed.
Lemma ax_nstmts_create : forall v t e cls next,
  ax_nstmts (Create v t e cls next) = 1 + ax_nstmts_cls cls + ax_nstmts next.
Proof. intros; simpl; do 2 f_equal; induction cls as [|[[x cc] b] r IH]; simpl; auto; rewrite IH; auto. Qed.
Lemma ax_nbind_switch : forall v t cls, ax_nbind (Switch v t cls) = ax_nbind_cls cls.
Proof. intros; simpl; induction cls as [|[[x cc] b] r IH]; simpl; auto; rewrite IH; auto. Qed.
Lemma ax_nbind_create : forall v t e cls next,
  ax_nbind (Create v t e cls next) = 1 + ax_nbind_cls cls + ax_nbind next.
Proof. intros; simpl; do 2 f_equal; induction cls as [|[[x cc] b] r IH]; simpl; auto; rewrite IH; auto. Qed.

Lemma ax_size_subst : forall re n, ax_size (Substitute re n) = 1 + len re + ax_size n.
Proof. reflexivity. Qed.
Lemma ax_size_pos : forall s, 1 <= ax_size s.
Proof. destruct s; simpl; lia. Qed.
Lemma ax_nstmts_pos : forall s, 1 <= ax_nstmts s.
Proof. destruct s; simpl; lia. Qed.

(* ---------- renaming changes none of the measures ---------- *)
Lemma measures_cls_sub : forall su cls,
  Forall (fun c => ax_size (sub_s su (cl_body c)) = ax_size (cl_body c) /\
                   ax_nstmts (sub_s su (cl_body c)) = ax_nstmts (cl_body c) /\
                   ax_nbind (sub_s su (cl_body c)) = ax_nbind (cl_body c)) cls ->
  let cls' := map (fun c => (cl_xtor c, cl_ctx c, sub_s su (cl_body c))) cls in
  ax_size_cls cls' = ax_size_cls cls /\ ax_nstmts_cls cls' = ax_nstmts_cls cls /\ ax_nbind_cls cls' = ax_nbind_cls cls.
Proof.
  induction cls as [|[[x cc] b] r IH]; intros HF; simpl; auto.
  inversion HF as [|? ? [H1 [H2 H3]] HF']; subst. destruct (IH HF') as [I1 [I2 I3]].
  unfold cl_body in *; simpl in *. rewrite H1, H2, H3. simpl in I1, I2, I3. rewrite I1, I2, I3. auto.
Qed.
Lemma measures_sub : forall su s,
  ax_size (sub_s su s) = ax_size s /\ ax_nstmts (sub_s su s) = ax_nstmts s /\ ax_nbind (sub_s su s) = ax_nbind s.
Proof.
  intros su s; induction s using stmt_ind2.
  - destruct IHs as [A [B C]]. simpl. rewrite A, B, C, len_map. auto.
  - simpl. rewrite len_map. auto.
  - destruct IHs as [A [B C]]. simpl. rewrite A, B, C, len_map. auto.
  - rewrite sub_s_switch, !ax_size_switch, !ax_nstmts_switch, !ax_nbind_switch.
    destruct (measures_cls_sub su cls H) as [A [B C]]. rewrite A, B, C. auto.
  - rewrite sub_s_create, !ax_size_create, !ax_nstmts_create, !ax_nbind_create.
    destruct (measures_cls_sub su cls H) as [A [B C]]. destruct IHs as [A' [B' C']].
    rewrite A, B, C, A', B', C'. destruct env; simpl; rewrite ?len_map; auto.
  - simpl. rewrite len_map. auto.
  - destruct IHs as [A [B C]]. simpl. rewrite A, B, C. auto.
  - destruct IHs as [A [B C]]. simpl. rewrite A, B, C. auto.
  - destruct IHs as [A [B C]]. simpl. rewrite A, B, C. auto.
  - destruct IHs1 as [A [B C]]. destruct IHs2 as [A' [B' C']]. simpl. rewrite A, B, C, A', B', C'. auto.
  - simpl; auto.
Qed.

(* ---------- the bound ---------- *)
(* cost of one statement when at most W variables are in scope *)
Definition lin_cost (W : N) : N := 3 * (1 + W).
Definition lin_bound (s : stmt) (W : N) : N := 2 * ax_size s + ax_nstmts s * lin_cost W.

Lemma lin_cost_mono : forall a b, a <= b -> lin_cost a <= lin_cost b.
Proof. unfold lin_cost; intros; lia. Qed.
Lemma mul_cost_mono : forall n a b, a <= b -> n * lin_cost a <= n * lin_cost b.
Proof. intros. apply N.mul_le_mono_l. apply lin_cost_mono; auto. Qed.

Section Clauses.
  Variable L : stmt -> ctx -> N -> stmt * N.
  Hypothesis HL : forall s c m, ax_size (fst (L s c m)) <= 2 * ax_size s + ax_nstmts s * lin_cost (len c + ax_nbind s).
  Variable mk : ctx -> ctx.
  Variable C : N.
  Hypothesis Hmk : forall cc, len (mk cc) <= C + len cc.

  Lemma lin_cls_size : forall cls m,
    ax_size_cls (fst (lin_cls L mk cls m)) <= 2 * ax_size_cls cls + ax_nstmts_cls cls * lin_cost (C + ax_nbind_cls cls).
  Proof.
    induction cls as [|[[x cc] b] r IH]; intros m; simpl.
    - lia.
    - pose proof (HL b (mk cc) m) as Hb. destruct (L b (mk cc) m) as [b' m'] eqn:E. simpl in Hb.
      specialize (IH m'). destruct (lin_cls L mk r m') as [r' m''] eqn:E2. simpl in *.
      pose proof (Hmk cc) as Hc.
      assert (H1 : ax_nstmts b * lin_cost (len (mk cc) + ax_nbind b)
                   <= ax_nstmts b * lin_cost (C + (len cc + ax_nbind b + ax_nbind_cls r))) by (apply mul_cost_mono; lia).
      assert (H2 : ax_nstmts_cls r * lin_cost (C + ax_nbind_cls r)
                   <= ax_nstmts_cls r * lin_cost (C + (len cc + ax_nbind b + ax_nbind_cls r))) by (apply mul_cost_mono; lia).
      rewrite N.mul_add_distr_r. lia.
  Qed.
End Clauses.

Ltac mono W' W n :=
  let H := fresh "HM" in
  assert (H : n * lin_cost W' <= n * lin_cost W) by (apply mul_cost_mono; lia).

Theorem lin_size : forall fuel s c m,
  ax_size (fst (lin fuel s c m)) <= 2 * ax_size s + ax_nstmts s * lin_cost (len c + ax_nbind s).
Proof.
  induction fuel as [|f IH]; intros s c m.
  - simpl. pose proof (ax_size_pos s). lia.
  - destruct s.
    + (* Substitute: returned unchanged *) cbn [lin fst]. lia.
    + (* Call *)
      cbn [lin]. destruct (ctx_eqb c args).
      * simpl. rewrite len_nil. lia.
      * pose proof (freshen_len args [] m). destruct (freshen args [] m) as [fr m1]. simpl in *.
        pose proof (len_combine fr (vars args)). rewrite len_nil. unfold lin_cost. lia.
    + (* Let *)
      cbn [lin].
      set (nc := filter_by_set c (fv s)).
      pose proof (len_fbs c (fv s)) as Hnc. fold nc in Hnc.
      destruct (ctx_eqb c (nc ++ args)).
      * pose proof (IH s (nc ++ [mkb v Prd t]) m) as I. destruct (lin f s (nc ++ [mkb v Prd t]) m) as [n' m1].
        simpl in *. rewrite len_app, len_cons, len_nil in I.
        mono (len nc + (1 + 0) + ax_nbind s) (len c + (1 + ax_nbind s)) (ax_nstmts s).
        rewrite N.mul_add_distr_r. lia.
      * pose proof (freshen_len args (ids nc) m) as Hf. destruct (freshen args (ids nc) m) as [args' m1].
        pose proof (IH s (nc ++ [mkb v Prd t]) m1) as I. destruct (lin f s (nc ++ [mkb v Prd t]) m1) as [n' m2].
        simpl in *. rewrite len_app, len_cons, len_nil in I.
        pose proof (len_combine (nc ++ args') (vars (nc ++ args))) as Hc. rewrite len_app in Hc.
        mono (len nc + (1 + 0) + ax_nbind s) (len c + (1 + ax_nbind s)) (ax_nstmts s).
        rewrite N.mul_add_distr_r. unfold lin_cost at 1. lia.
    + (* Switch *)
      cbn [lin].
      set (nc := filter_by_set c (fv_clauses cls)).
      pose proof (len_fbs c (fv_clauses cls)) as Hnc. fold nc in Hnc.
      pose proof (lin_cls_size (lin f) IH (fun cc => nc ++ cc) (len c)) as HC.
      specialize (HC ltac:(intros cc; cbv beta; rewrite len_app; lia) cls m).
      destruct (lin_cls (lin f) (fun cc => nc ++ cc) cls m) as [cls' m1]. simpl in HC.
      rewrite ax_nbind_switch, ax_nstmts_switch, ax_size_switch.
      destruct (ctx_eqb c (nc ++ [mkb v Prd t])).
      * cbn [fst]. rewrite ax_size_switch. rewrite N.mul_add_distr_r. lia.
      * destruct (mem (idn v) (ids nc)); cbn [fst]; rewrite ax_size_subst, ax_size_switch;
          match goal with |- context [len (combine ?a ?b)] => pose proof (len_combine a b) as Hc end;
          rewrite len_app, len_cons, len_nil in Hc; rewrite N.mul_add_distr_r; unfold lin_cost at 1; lia.
    + (* Create *)
      cbn [lin].
      set (cn := filter_by_set c (fv s)).
      set (k := List.length cn).
      set (cc_ := filter_by_set (skipn k c ++ firstn k c) (fv_clauses cls)).
      pose proof (len_fbs c (fv s)) as Hcn. fold cn in Hcn.
      pose proof (len_fbs (skipn k c ++ firstn k c) (fv_clauses cls)) as Hcc. fold cc_ in Hcc. rewrite len_rot in Hcc.
      pose proof (lin_cls_size (lin f) IH (fun cc => cc ++ cc_) (len c)) as HC.
      specialize (HC ltac:(intros cc; cbv beta; rewrite len_app; lia) cls m).
      destruct (lin_cls (lin f) (fun cc => cc ++ cc_) cls m) as [cls' m1]. simpl in HC.
      rewrite ax_nbind_create, ax_nstmts_create, ax_size_create.
      mono (len c + ax_nbind_cls cls) (len c + (1 + ax_nbind_cls cls + ax_nbind s)) (ax_nstmts_cls cls).
      destruct (ctx_eqb c (cn ++ cc_)).
      * pose proof (IH s (cn ++ [mkb v Cns t]) m1) as I. destruct (lin f s (cn ++ [mkb v Cns t]) m1) as [n' m2].
        cbn [fst] in *. rewrite ax_size_create. rewrite len_app, len_cons, len_nil in I.
        mono (len cn + (1 + 0) + ax_nbind s) (len c + (1 + ax_nbind_cls cls + ax_nbind s)) (ax_nstmts s).
        rewrite !N.mul_add_distr_r. unfold lin_cost at 1. destruct env; lia.
      * pose proof (freshen_len cn (ids cc_) m1) as Hf. destruct (freshen cn (ids cc_) m1) as [cnf m2]. cbn [fst] in Hf.
        set (su := combine (ids cn) (vars cnf)).
        destruct (measures_sub su s) as [S1 [S2 S3]].
        pose proof (IH (sub_s su s) (cnf ++ [mkb v Cns t]) m2) as I.
        destruct (lin f (sub_s su s) (cnf ++ [mkb v Cns t]) m2) as [n' m3].
        cbn [fst] in *. rewrite S1, S2, S3 in I. rewrite len_app, len_cons, len_nil in I.
        rewrite ax_size_subst, ax_size_create.
        match goal with |- context [len (combine ?a ?b)] => pose proof (len_combine a b) as Hc end.
        rewrite len_app in Hc.
        mono (len cnf + (1 + 0) + ax_nbind s) (len c + (1 + ax_nbind_cls cls + ax_nbind s)) (ax_nstmts s).
        rewrite !N.mul_add_distr_r. unfold lin_cost at 1. destruct env; lia.
    + (* Invoke *)
      cbn [lin]. destruct (ctx_eqb c (args ++ [mkb v Cns t])).
      * simpl. rewrite len_nil. lia.
      * pose proof (freshen_len args [idn v] m). destruct (freshen args [idn v] m) as [fr m1]. simpl in *.
        match goal with |- context [len (combine ?a ?b)] => pose proof (len_combine a b) as Hc end.
        rewrite len_app, len_cons, !len_nil in *. unfold lin_cost. lia.
    + (* Literal *)
      cbn [lin].
      set (nc := filter_by_set c (fv s)). pose proof (len_fbs c (fv s)) as Hnc. fold nc in Hnc.
      pose proof (IH s (nc ++ [mkb v Ext I64]) m) as I. destruct (lin f s (nc ++ [mkb v Ext I64]) m) as [n' m1].
      rewrite len_app, len_cons, len_nil in I. cbn [fst] in I.
      mono (len nc + (1 + 0) + ax_nbind s) (len c + (1 + ax_nbind s)) (ax_nstmts s).
      destruct (ctx_eqb c nc); simpl; rewrite N.mul_add_distr_r.
      * lia.
      * pose proof (len_combine nc (vars nc)). unfold self_re. unfold lin_cost at 1. lia.
    + (* Op *)
      cbn [lin].
      set (nc := filter_by_set c (add (idn b) (add (idn a) (fv s)))).
      pose proof (len_fbs c (add (idn b) (add (idn a) (fv s)))) as Hnc. fold nc in Hnc.
      pose proof (IH s (nc ++ [mkb v Ext I64]) m) as I. destruct (lin f s (nc ++ [mkb v Ext I64]) m) as [n' m1].
      rewrite len_app, len_cons, len_nil in I. cbn [fst] in I.
      mono (len nc + (1 + 0) + ax_nbind s) (len c + (1 + ax_nbind s)) (ax_nstmts s).
      destruct (ctx_eqb c nc); simpl; rewrite N.mul_add_distr_r.
      * lia.
      * pose proof (len_combine nc (vars nc)). unfold self_re. unfold lin_cost at 1. lia.
    + (* PrintI64 *)
      cbn [lin].
      set (nc := filter_by_set c (add (idn v) (fv s))).
      pose proof (len_fbs c (add (idn v) (fv s))) as Hnc. fold nc in Hnc.
      pose proof (IH s nc m) as I. destruct (lin f s nc m) as [n' m1]. cbn [fst] in I.
      mono (len nc + ax_nbind s) (len c + ax_nbind s) (ax_nstmts s).
      destruct (ctx_eqb c nc); simpl; rewrite N.mul_add_distr_r.
      * lia.
      * pose proof (len_combine nc (vars nc)). unfold self_re. unfold lin_cost at 1. lia.
    + (* IfC *)
      cbn [lin].
      pose proof (IH s2 c m) as I1. destruct (lin f s2 c m) as [t' m1].
      pose proof (IH s3 c m1) as I2. destruct (lin f s3 c m1) as [e' m2]. cbn [fst] in *.
      simpl.
      mono (len c + ax_nbind s2) (len c + (ax_nbind s2 + ax_nbind s3)) (ax_nstmts s2).
      mono (len c + ax_nbind s3) (len c + (ax_nbind s2 + ax_nbind s3)) (ax_nstmts s3).
      rewrite !N.mul_add_distr_r. lia.
    + (* Exit *) simpl. lia.
Qed.

(* ---------- definitions and programs ---------- *)
Lemma lin_def_size : forall d m,
  ax_size_def (fst (lin_def d m)) <= 2 * ax_size_def d + ax_nstmts (dbody d) * lin_cost (ax_width_def d).
Proof.
  intros d m. unfold lin_def.
  pose proof (lin_size (stmt_size (dbody d)) (dbody d) (dctx d) m) as H.
  destruct (lin (stmt_size (dbody d)) (dbody d) (dctx d) m) as [b m1]. unfold ax_size_def, ax_width_def in *; simpl in *. lia.
Qed.

Lemma lin_defs_size : forall ds m,
  ax_size_defs (fst (lin_defs ds m)) <= 2 * ax_size_defs ds + ax_nstmts_defs ds * lin_cost (ax_width_defs ds).
Proof.
  induction ds as [|d r IH]; intros m; simpl; [lia|].
  pose proof (lin_def_size d m) as Hd. destruct (lin_def d m) as [d' m1]. specialize (IH m1).
  destruct (lin_defs r m1) as [r' m2]. simpl in *.
  mono (ax_width_def d) (N.max (ax_width_def d) (ax_width_defs r)) (ax_nstmts (dbody d)).
  mono (ax_width_defs r) (N.max (ax_width_def d) (ax_width_defs r)) (ax_nstmts_defs r).
  rewrite N.mul_add_distr_r. lia.
Qed.

(* the number of statements is at most the size; the headline form *)
Lemma ax_nstmts_le_size_cls : forall cls,
  Forall (fun c => ax_nstmts (cl_body c) <= ax_size (cl_body c)) cls -> ax_nstmts_cls cls <= ax_size_cls cls.
Proof. induction cls as [|[[x cc] b] r IH]; intros HF; simpl; [lia|]. inversion HF; subst. unfold cl_body in *; simpl in *. specialize (IH H2). lia. Qed.
Lemma ax_nstmts_le_size : forall s, ax_nstmts s <= ax_size s.
Proof.
  induction s using stmt_ind2; try (simpl; lia).
  - rewrite ax_nstmts_switch, ax_size_switch. pose proof (ax_nstmts_le_size_cls cls H). lia.
  - rewrite ax_nstmts_create, ax_size_create. pose proof (ax_nstmts_le_size_cls cls H). lia.
Qed.
Lemma ax_nstmts_defs_le : forall ds, ax_nstmts_defs ds <= ax_size_defs ds.
Proof. induction ds as [|d r IH]; simpl; [lia|]. pose proof (ax_nstmts_le_size (dbody d)). unfold ax_size_def. lia. Qed.

Theorem linearize_size_lemma : forall p,
  ax_size_prog (linearize p) <= 2 * ax_size_prog p + 3 * ax_nstmts_prog p * (1 + ax_width_prog p).
Proof.
  intros p. unfold linearize, ax_size_prog, ax_nstmts_prog, ax_width_prog.
  pose proof (lin_defs_size (pdefs p) (pmax p)) as H. destruct (lin_defs (pdefs p) (pmax p)) as [ds m]. simpl in *.
  unfold lin_cost in H. lia.
Qed.

Corollary linearize_size_poly_lemma : forall p,
  ax_size_prog (linearize p) <= ax_size_prog p * (5 + 3 * ax_width_prog p).
Proof.
  intros p. pose proof (linearize_size_lemma p) as H. pose proof (ax_nstmts_defs_le (pdefs p)) as Hn.
  unfold ax_nstmts_prog, ax_size_prog in *.
  assert (3 * ax_nstmts_defs (pdefs p) * (1 + ax_width_prog p) <= 3 * ax_size_defs (pdefs p) * (1 + ax_width_prog p)).
  { apply N.mul_le_mono_r. lia. }
  lia.
Qed.
