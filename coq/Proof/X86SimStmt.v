(* C06, forward simulation of the x86-64 code generator, part 2: what `code_statement` emits for each
   statement of the integer fragment (inversion lemmas), and the statement-level simulation lemmas for
   Literal, Op (defined and undefined results), IfC (both forms), Exit (the move into rax) and
   Substitute, for EVERY context (any number of variables, in registers and spill slots, any aliasing
   of operands).  They are compositions of the selection lemmas of Proof/X86Sel.v and of the
   parallel-move theorem of Proof/X86ParMoves.v with the state relation of Proof/X86SimRel.v. *)
From Coq Require Import List ZArith NArith String Bool Lia FMapPositive.
From SCC Require Import Base.Sexp Lang.AxSyn Sem.AxSem Model.ParMoves Model.Backend Model.X86 Sem.X86Sem Sem.X86Wf
     Model.Linearize Model.LinCheck Generated.Constants Proof.LinBasics Proof.X86State Proof.X86Sel Proof.X86Exec Proof.X86ParMoves Proof.SubstGraph Proof.X86Subst
     Proof.X86SimRel.
From SCC Require Export Proof.SimFrag.
Import ListNotations.
Open Scope Z_scope.
Open Scope list_scope.
(* names that lived in this file before they moved to Proof/SimFrag.v (kept for qualified uses) *)
Notation lookups_nth := SimFrag.lookups_nth (only parsing).
Notation bind_nth := SimFrag.bind_nth (only parsing).
Notation bind_ids := SimFrag.bind_ids (only parsing).
Notation ctx_int_nth := SimFrag.ctx_int_nth (only parsing).
Notation sig_match_nth := SimFrag.sig_match_nth (only parsing).
Notation bind_length := SimFrag.bind_length (only parsing).
Notation lin_nodup := SimFrag.lin_nodup (only parsing).
Notation bind_total := SimFrag.bind_total (only parsing).

Notation xvt := (variable_temporary x86_backend Snd).
Notation xcs := (code_statement x86_backend).

(* ================= what code_statement emits ================= *)
Ltac cs_start H := cbn [code_statement] in H.
Ltac cs_bind H x E :=
  match type of H with
  | rbind ?r _ = _ => destruct r as [x|] eqn:E; cbn [rbind] in H; [|discriminate]
  end.

Lemma cs_literal types n v next c lc code lc' :
  xcs types (Literal n v next) c lc = Ok (code, lc') ->
  exists tv c2, xvt (c ++ [mkb v Ext I64]) (idn v) = Ok tv /\
    xcs types next (c ++ [mkb v Ext I64]) lc = Ok (c2, lc') /\
    code = x_load_immediate tv n ++ c2.
Proof.
  intros H. cs_start H.
  destruct (xvt (c ++ [mkb v Ext I64]) (idn v)) as [tv|] eqn:TV; cbn [rbind] in H; [|discriminate].
  destruct (xcs types next (c ++ [mkb v Ext I64]) lc) as [[c2 lc2]|] eqn:NX; cbn [rbind] in H; [|discriminate].
  cbn in H. inversion H; subst. eauto.
Qed.

Lemma cs_op types a o b v next c lc code lc' :
  xcs types (Op a o b v next) c lc = Ok (code, lc') ->
  exists tv ta tb c2, xvt (c ++ [mkb v Ext I64]) (idn v) = Ok tv /\
    xvt (c ++ [mkb v Ext I64]) (idn a) = Ok ta /\ xvt (c ++ [mkb v Ext I64]) (idn b) = Ok tb /\
    xcs types next (c ++ [mkb v Ext I64]) lc = Ok (c2, lc') /\
    code = x_arith o tv ta tb ++ c2.
Proof.
  intros H. cs_start H.
  destruct (xvt (c ++ [mkb v Ext I64]) (idn v)) as [tv|] eqn:TV; cbn [rbind] in H; [|discriminate].
  destruct (xvt (c ++ [mkb v Ext I64]) (idn a)) as [ta|] eqn:TA; cbn [rbind] in H; [|discriminate].
  destruct (xvt (c ++ [mkb v Ext I64]) (idn b)) as [tb|] eqn:TB; cbn [rbind] in H; [|discriminate].
  destruct (xcs types next (c ++ [mkb v Ext I64]) lc) as [[c2 lc2]|] eqn:NX; cbn [rbind] in H; [|discriminate].
  cbn in H. inversion H; subst. exists tv, ta, tb, c2. auto.
Qed.

Lemma cs_print types nl v next c lc code lc' :
  xcs types (PrintI64 nl v next) c lc = Ok (code, lc') ->
  exists tv c2, xvt c (idn v) = Ok tv /\ xcs types next c lc = Ok (c2, lc') /\ code = x_print nl tv c ++ c2.
Proof.
  intros H. cs_start H.
  destruct (xvt c (idn v)) as [tv|] eqn:TV; cbn [rbind] in H; [|discriminate].
  destruct (xcs types next c lc) as [[c2 lc2]|] eqn:NX; cbn [rbind] in H; [|discriminate].
  cbn in H. inversion H; subst. eauto.
Qed.

Lemma cs_exit types v c lc code lc' :
  xcs types (Exit v) c lc = Ok (code, lc') ->
  exists tv, xvt c (idn v) = Ok tv /\ code = x_mov (XR RETURN1) tv ++ [JMPL "cleanup"] /\ lc' = lc.
Proof.
  intros H. cs_start H.
  destruct (xvt c (idn v)) as [tv|] eqn:TV; cbn [rbind] in H; [|discriminate].
  cbn in H. inversion H; subst. eauto.
Qed.

Lemma cs_call types l args c lc code lc' :
  xcs types (Call l args) c lc = Ok (code, lc') -> code = [JMPL (show_ident l +++ "_")] /\ lc' = lc.
Proof. intros H. cs_start H. cbn in H. inversion H; subst. auto. Qed.

Definition iflabel (lc : N) : string := "lab" +++ n_to_string (lc + 1)%N.
Lemma cs_ifc types so a b thenc elsec c lc code lc' :
  xcs types (IfC so a b thenc elsec) c lc = Ok (code, lc') ->
  exists ta c1 c2 lc2 c3, xvt c (idn a) = Ok ta /\
    match b with
    | None => c1 = compare_immediate ta 0 ++ [jcc so (iflabel lc)]
    | Some b => exists tb, xvt c (idn b) = Ok tb /\ c1 = compare ta tb ++ [jcc so (iflabel lc)]
    end /\
    xcs types elsec c (lc + 1)%N = Ok (c2, lc2) /\ xcs types thenc c lc2 = Ok (c3, lc') /\
    code = c1 ++ c2 ++ [LAB (iflabel lc)] ++ c3.
Proof.
  intros H. cs_start H. fold (iflabel lc) in H.
  destruct (xvt c (idn a)) as [ta|] eqn:TA; cbn [rbind] in H; [|discriminate].
  destruct b as [b|].
  - destruct (xvt c (idn b)) as [tb|] eqn:TB; cbn [rbind] in H; [|discriminate].
    destruct (xcs types elsec c (lc + 1)%N) as [[c2 lc2]|] eqn:EL; cbn [rbind] in H; [|discriminate].
    destruct (xcs types thenc c lc2) as [[c3 lc3]|] eqn:TH; cbn [rbind] in H; [|discriminate].
    cbn in H. inversion H; subst. exists ta, (compare ta tb ++ [jcc so (iflabel lc)]), c2, lc2, c3.
    repeat split; eauto.
  - cbn [rbind] in H.
    destruct (xcs types elsec c (lc + 1)%N) as [[c2 lc2]|] eqn:EL; cbn [rbind] in H; [|discriminate].
    destruct (xcs types thenc c lc2) as [[c3 lc3]|] eqn:TH; cbn [rbind] in H; [|discriminate].
    cbn in H. inversion H; subst. exists ta, (compare_immediate ta 0 ++ [jcc so (iflabel lc)]), c2, lc2, c3.
    repeat split; eauto.
Qed.

Lemma cs_substitute types re next c lc code lc' :
  xcs types (Substitute re next) c lc = Ok (code, lc') ->
  exists c1 lc1 c2 c3,
    code_weakening_contraction x86_backend (transpose re c) c lc = Ok (c1, lc1) /\
    code_exchange x86_backend (transpose re c) c (map fst re) = Ok c2 /\
    xcs types next (map fst re) lc1 = Ok (c3, lc') /\ code = c1 ++ c2 ++ c3.
Proof.
  intros H. cs_start H.
  destruct (code_weakening_contraction x86_backend (transpose re c) c lc) as [[c1 lc1]|] eqn:WC; cbn [rbind] in H; [|discriminate].
  destruct (code_exchange x86_backend (transpose re c) c (map fst re)) as [c2|] eqn:CE; cbn [rbind] in H; [|discriminate].
  destruct (xcs types next (map fst re) lc1) as [[c3 lc3]|] eqn:NX; cbn [rbind] in H; [|discriminate].
  cbn in H. inversion H; subst. exists c1, lc1, c2, c3. auto.
Qed.

(* ================= the emitted straight-line code is local ================= *)
Definition lok (t : xtemp) : bool := match t with XR r => nz r | XS p => slot_off (stack_offset p) end.
Lemma loc_ok_lok t : loc_ok t -> lok t = true.
Proof.
  destruct t as [r|p]; cbn; intros H.
  - unfold nz. destruct (N.eqb_spec r 0); [contradiction|reflexivity].
  - now apply slot_off_stack_offset.
Qed.

Local Opaque slot_off stack_offset.
Ltac lc_tac :=
  repeat (cbn [local_code forallb local_instr app lok nz N.eqb negb andb
               move_to_register move_from_register add_to_register add_to_spill mul_to_register mul_to_spill
               sub_to_register sub_to_spill div_core compare compare_immediate jcc] in *;
          change STACK with 0%N in *; change TEMP with 1%N in *; change RETURN1 with 4%N in *; change RETURN2 with 5%N in *;
          repeat match goal with H : ?x = true |- context [?x] => rewrite H end);
  try reflexivity.

Lemma local_move_to_register r t : nz r = true -> local_code (move_to_register r t) = true.
Proof. intros; destruct t; lc_tac. Qed.
Lemma local_move_from_register t r : lok t = true -> local_code (move_from_register t r) = true.
Proof. intros; destruct t; lc_tac. Qed.
Lemma local_x_mov t s : lok t = true -> local_code (x_mov t s) = true.
Proof. intros H; destruct t, s; unfold x_mov; lc_tac. Qed.
Lemma local_load_immediate t i : lok t = true -> local_code (x_load_immediate t i) = true.
Proof. intros H; destruct t; unfold x_load_immediate; [|destruct (fits_i32 i)]; lc_tac. Qed.
Lemma local_compare a b : local_code (compare a b) = true.
Proof. destruct a, b; lc_tac. Qed.
Lemma local_compare_immediate a i : local_code (compare_immediate a i) = true.
Proof. destruct a; lc_tac. Qed.
Lemma local_jcc so l : local_instr (jcc so l) = true.
Proof. destruct so; reflexivity. Qed.
Lemma local_op_commutative o t s1 s2 :
  lok t = true -> local_code (op_commutative (to_register o) (to_spill o) t s1 s2) = true.
Proof.
  intros H. unfold op_commutative. destruct t as [tr|tp]; destruct (xtemp_eqb _ s1); try destruct (xtemp_eqb _ s2);
    destruct o, s1, s2; cbn [to_register to_spill]; lc_tac.
Qed.
Lemma local_sub t s1 s2 : lok t = true -> local_code (sub t s1 s2) = true.
Proof.
  intros H. unfold sub. destruct t as [tr|tp]; destruct (xtemp_eqb _ s1); try destruct (xtemp_eqb _ s2);
    destruct s1, s2; lc_tac.
Qed.
Lemma local_div_rem (is_rem : bool) t s1 s2 :
  lok t = true -> local_code (if is_rem then x_rem t s1 s2 else x_div t s1 s2) = true.
Proof.
  intros H. unfold x_rem, x_div. destruct is_rem, t, s1, s2; lc_tac; destruct (N.eqb _ 5); lc_tac.
Qed.
Lemma local_x_arith o t s1 s2 : lok t = true -> local_code (x_arith o t s1 s2) = true.
Proof.
  intros H. destruct o; cbn [x_arith].
  - exact (local_div_rem false t s1 s2 H).
  - exact (local_op_commutative AMul t s1 s2 H).
  - exact (local_div_rem true t s1 s2 H).
  - exact (local_op_commutative AAdd t s1 s2 H).
  - exact (local_sub t s1 s2 H).
Qed.
Local Transparent slot_off stack_offset.

(* ================= statement-level simulation ================= *)
Section Sim.
Variable im : image.
Variable CL : Z -> ident -> list clause -> Prop.
Local Notation rel := (rel CL).

(* the temporary of a fresh last variable *)
Lemma vt_fresh c v t :
  NoDup (ids (c ++ [mkb v Ext I64])) -> xvt (c ++ [mkb v Ext I64]) (idn v) = Ok t -> xtpos Snd (List.length c) = Ok t.
Proof.
  intros ND H. rewrite <- H. symmetry. change (idn v) with (idn (bvar (mkb v Ext I64))).
  apply vt_tpos; auto. apply nth_error_mid.
Qed.

(* ---------- Literal ---------- *)
Theorem sim_literal c e s sp n v tv :
  rel c e s sp -> NoDup (ids (c ++ [mkb v Ext I64])) ->
  xvt (c ++ [mkb v Ext I64]) (idn v) = Ok tv ->
  exists s', exec_straight im (x_load_immediate tv n) s = Some s' /\
             rel (c ++ [mkb v Ext I64]) (e ++ [(v, VInt n)]) s' sp /\ frame_eq s s' sp.
Proof.
  intros R ND TV. apply (vt_fresh c v tv ND) in TV.
  destruct (xtpos_ok _ _ _ TV) as (L & NT & _).
  destruct (x86_load_immediate_ok im s sp tv n (rel_frame R) L NT) as (s' & E & V & P).
  exists s'. split; [exact E|]. split; [eapply rel_push; eauto|].
  eapply exec_straight_local; eauto using rel_frame. apply local_load_immediate, loc_ok_lok, L.
Qed.

(* ---------- Op ---------- *)
Lemma op_temps c e s sp a b v x y tv ta tb :
  rel c e s sp -> NoDup (ids (c ++ [mkb v Ext I64])) ->
  lookup_int e a = Some x -> lookup_int e b = Some y ->
  xvt (c ++ [mkb v Ext I64]) (idn v) = Ok tv ->
  xvt (c ++ [mkb v Ext I64]) (idn a) = Ok ta -> xvt (c ++ [mkb v Ext I64]) (idn b) = Ok tb ->
  xtpos Snd (List.length c) = Ok tv /\ div_pre tv ta tb /\ lget s sp ta = Some x /\ lget s sp tb = Some y.
Proof.
  intros R ND LA LB TV TA TB. apply (vt_fresh c v tv ND) in TV.
  destruct (rel_lookup CL c e s sp a x R LA) as (i & bi & ti & Hi & Ei & Ti & Vi).
  destruct (rel_lookup CL c e s sp b y R LB) as (j & bj & tj & Hj & Ej & Tj & Vj).
  rewrite <- Ei, (vt_of_nth c _ i bi ND Hi), Ti in TA. inversion TA; subst ti.
  rewrite <- Ej, (vt_of_nth c _ j bj ND Hj), Tj in TB. inversion TB; subst tj.
  assert (Li : (i < List.length c)%nat) by (apply nth_error_Some; congruence).
  assert (Lj : (j < List.length c)%nat) by (apply nth_error_Some; congruence).
  destruct (xtpos_ok _ _ _ TV) as (L0 & N0 & _). destruct (xtpos_ok _ _ _ Ti) as (L1 & N1 & _).
  destruct (xtpos_ok _ _ _ Tj) as (L2 & N2 & _).
  split; [exact TV|]. split; [|auto].
  unfold div_pre. repeat split; auto.
  - eapply xtpos_snd_not_rax; eauto.
  - intros E. pose proof (xtpos_snd_rdx _ _ TV E). lia.
  - intros E; subst. destruct (tpos_inj x86_backend x86_backend_ok _ _ _ _ _ TV Ti). lia.
  - intros E; subst. destruct (tpos_inj x86_backend x86_backend_ok _ _ _ _ _ TV Tj). lia.
  - eapply xtpos_snd_not_rax; eauto.
  - eapply xtpos_snd_not_rax; eauto.
Qed.

Theorem sim_op c e s sp a o b v x y z tv ta tb :
  rel c e s sp -> NoDup (ids (c ++ [mkb v Ext I64])) ->
  lookup_int e a = Some x -> lookup_int e b = Some y -> eval_op o x y = OpVal z ->
  xvt (c ++ [mkb v Ext I64]) (idn v) = Ok tv ->
  xvt (c ++ [mkb v Ext I64]) (idn a) = Ok ta -> xvt (c ++ [mkb v Ext I64]) (idn b) = Ok tb ->
  exists s', exec_straight im (x_arith o tv ta tb) s = Some s' /\
             rel (c ++ [mkb v Ext I64]) (e ++ [(v, VInt z)]) s' sp /\ frame_eq s s' sp.
Proof.
  intros R ND LA LB EV TV TA TB.
  destruct (op_temps c e s sp a b v x y tv ta tb R ND LA LB TV TA TB) as (TV' & PRE & VA & VB).
  destruct (x86_arith_ok im o s sp tv ta tb x y z (rel_frame R) PRE VA VB EV) as (s' & E & V & P).
  exists s'. split; [exact E|]. split; [eapply rel_push; eauto|].
  eapply exec_straight_local; eauto using rel_frame. apply local_x_arith, loc_ok_lok, PRE.
Qed.

(* the undefined cases of div and rem: the code runs into the faulting idiv *)
Fixpoint exec_undef (cs : list xcode) (s : xstate) : option (string * xstate) :=
  match cs with
  | [] => None
  | c :: r => match step im c s with
              | Next s' => exec_undef r s'
              | Undefd w s' => Some (w, s')
              | _ => None
              end
  end.
Lemma exec_undef_app a b : forall s s',
  exec_straight im a s = Some s' -> exec_undef (a ++ b) s = exec_undef b s'.
Proof.
  induction a as [|c a IH]; intros s s' E; cbn [app exec_straight exec_undef] in *; [now inversion E|].
  destruct (step im c s) eqn:St; try discriminate. now apply IH.
Qed.
Lemma exec_undef_app_l a b : forall s r, exec_undef a s = Some r -> exec_undef (a ++ b) s = Some r.
Proof.
  induction a as [|c a IH]; intros s r E; cbn [app exec_undef] in *; [discriminate|].
  destruct (step im c s) eqn:St; try discriminate; auto.
Qed.
Lemma exec_undef_finishes pc : forall cs s w s',
  code_at im pc cs -> exec_undef cs s = Some (w, s') -> finishes im pc s (finish (out s') (OUndef w)).
Proof.
  intros cs. revert pc. induction cs as [|c cs IH]; intros pc s w s' CA E; cbn in E; [discriminate|].
  apply code_at_cons in CA as [C0 C1]. destruct (step im c s) as [s1| | | |w1 s1] eqn:St; try discriminate.
  - eapply exec_to_finishes; [eapply exec_next; [exact C0|exact St|apply exec_refl]|]. eapply IH; eauto.
  - inversion E; subst. eapply finishes_undef; eauto.
Qed.

Lemma div_core_undef s sp s2 a b w :
  frame_ok s sp -> loc_ok s2 -> s2 <> XR 4%N ->
  rget s 4%N = Some a -> lget s sp (divisor_loc s2) = Some b ->
  (if Z.eqb b 0 then OpUndef "div0" else if Z.eqb a min_int && Z.eqb b (-1) then OpUndef "overflow" else OpVal 0) = OpUndef w ->
  exists s', exec_undef (div_core s2) s = Some (w, s') /\ out s' = out s.
Proof.
  intros F S2 N4 A B W.
  assert (A' : rget (rset s 5%N (Some (if a <? 0 then -1 else 0))) 4%N = Some a)
    by (rewrite rget_rset_other by congruence; exact A).
  assert (D' : rget (rset s 5%N (Some (if a <? 0 then -1 else 0))) 5%N = Some (if a <? 0 then -1 else 0))
    by apply rget_rset_same.
  assert (RES : (if negb ((if a <? 0 then -1 else 0) =? (if a <? 0 then -1 else 0)) then Fault "idiv-wide-dividend" (rset s 5%N (Some (if a <? 0 then -1 else 0)))
                 else if b =? 0 then Undefd "div0" (rset s 5%N (Some (if a <? 0 then -1 else 0)))
                 else if (a =? min_int) && (b =? -1) then Undefd "overflow" (rset s 5%N (Some (if a <? 0 then -1 else 0)))
                 else Next s) = Undefd w (rset s 5%N (Some (if a <? 0 then -1 else 0)))).
  { rewrite Z.eqb_refl. cbn [negb]. destruct (b =? 0); [inversion W; reflexivity|].
    destruct ((a =? min_int) && (b =? -1)); [inversion W; reflexivity|discriminate]. }
  exists (rset s 5%N (Some (if a <? 0 then -1 else 0))). split; [|reflexivity].
  unfold div_core, divisor_loc in *. rewrite ?R5, ?R1 in *. destruct s2 as [r|p]; cbn [lget loc_ok] in *.
  - destruct (N.eqb_spec r 5%N) as [->|NE]; cbn [lget] in B; cbn [exec_undef step]; unfold need.
    + rewrite A. cbv iota beta. rewrite A', D'. cbv iota beta.
      rewrite rget_rset_other by congruence. rewrite B. cbv iota beta.
      rewrite Z.eqb_refl in *. cbn [negb] in *. destruct (b =? 0); [inversion W; reflexivity|].
      destruct ((a =? min_int) && (b =? -1)); [inversion W; reflexivity|discriminate].
    + rewrite A. cbv iota beta. rewrite A', D'. cbv iota beta.
      rewrite rget_rset_other by congruence. rewrite B. cbv iota beta.
      rewrite Z.eqb_refl in *. cbn [negb] in *. destruct (b =? 0); [inversion W; reflexivity|].
      destruct ((a =? min_int) && (b =? -1)); [inversion W; reflexivity|discriminate].
  - cbn [exec_undef step]; unfold need.
    rewrite A. cbv iota beta. rewrite A', D'. cbv iota beta.
    assert (F1 : frame_ok (rset s 5%N (Some (if a <? 0 then -1 else 0))) sp) by frame.
    rewrite (ea_stack _ sp) by (exact F1 || assumption). unfold withm. rewrite mload_slot by auto.
    rewrite sget_rset, B. cbv iota beta.
    rewrite Z.eqb_refl in *. cbn [negb] in *. destruct (b =? 0); [inversion W; reflexivity|].
    destruct ((a =? min_int) && (b =? -1)); [inversion W; reflexivity|discriminate].
Qed.

Lemma div_rem_undef (is_rem : bool) s sp t s1 s2 a b w :
  frame_ok s sp -> div_pre t s1 s2 ->
  lget s sp s1 = Some a -> lget s sp s2 = Some b ->
  (if Z.eqb b 0 then OpUndef "div0" else if Z.eqb a min_int && Z.eqb b (-1) then OpUndef "overflow" else OpVal 0) = OpUndef w ->
  exists s', exec_undef (if is_rem then x_rem t s1 s2 else x_div t s1 s2) s = Some (w, s') /\ out s' = out s.
Proof.
  intros F PRE A B W. unfold div_pre in *. rewrite ?R4, ?R5, ?R1 in *.
  destruct PRE as (T & S1 & S2 & NT1 & NT4 & NT5 & NTS1 & NTS2 & N11 & N14 & N21 & N24).
  assert (SP : sp_ok sp) by apply F.
  set (st1 := rset s 1%N (rget s 5%N)).
  assert (F1 : frame_ok st1 sp) by (subst st1; frame).
  set (st2 := lset st1 sp t (rget st1 4%N)).
  assert (F2 : frame_ok st2 sp) by (subst st2; apply frame_ok_lset; locs).
  set (st3 := rset st2 4%N (lget st2 sp s1)).
  assert (F3 : frame_ok st3 sp) by (subst st3; frame).
  assert (A3 : rget st3 4%N = Some a).
  { subst st3. rewrite rget_rset_same. subst st2. rewrite (lget_lset_other st1 sp t s1) by locs.
    subst st1. rewrite <- A. apply (lget_lset_other s sp (XR 1%N)); locs. }
  assert (B3 : lget st3 sp (divisor_loc s2) = Some b).
  { unfold divisor_loc. rewrite ?R5, ?R1. destruct s2 as [r|p].
    - destruct (N.eqb_spec r 5%N) as [->|NE].
      + subst st3 st2. cbn [lget]. rewrite rget_rset_other by congruence.
        change (rget (lset st1 sp t (rget st1 4%N)) 1%N) with (lget (lset st1 sp t (rget st1 4%N)) sp (XR 1%N)).
        rewrite lget_lset_other by locs. subst st1. cbn [lget]. rewrite rget_rset_same. exact B.
      + subst st3 st2. cbn [lget]. rewrite rget_rset_other by congruence.
        change (rget (lset st1 sp t (rget st1 4%N)) r) with (lget (lset st1 sp t (rget st1 4%N)) sp (XR r)).
        rewrite lget_lset_other by locs. subst st1. cbn [lget]. rewrite rget_rset_other by congruence. exact B.
    - subst st3 st2. cbn [lget]. rewrite sget_rset.
      change (sget (lset st1 sp t (rget st1 4%N)) sp p) with (lget (lset st1 sp t (rget st1 4%N)) sp (XS p)).
      rewrite lget_lset_other by locs. subst st1. cbn [lget]. rewrite sget_rset. exact B. }
  destruct (div_core_undef st3 sp s2 a b w F3 S2 N24 A3 B3 W) as (s' & E & O).
  assert (O3 : out st3 = out s).
  { subst st3. cbn [out rset]. subst st2. rewrite out_lset. reflexivity. }
  exists s'. split; [|congruence].
  destruct is_rem; unfold x_rem, x_div; rewrite ?R4, ?R5, ?R1; cbn [app exec_undef];
    change (step im (MOV 1%N 5%N) s) with (Next st1); cbv iota beta;
    rewrite (exec_undef_app _ _ st1 st2) by (apply (move_from_register_ok im st1 sp t 4%N F1 T));
    rewrite (exec_undef_app _ _ st2 st3) by (apply (move_to_register_ok im st2 sp 4%N s1 F2 S1));
    apply exec_undef_app_l; exact E.
Qed.

Theorem sim_op_undef c e s sp a o b v x y w tv ta tb :
  rel c e s sp -> NoDup (ids (c ++ [mkb v Ext I64])) ->
  lookup_int e a = Some x -> lookup_int e b = Some y -> eval_op o x y = OpUndef w ->
  xvt (c ++ [mkb v Ext I64]) (idn v) = Ok tv ->
  xvt (c ++ [mkb v Ext I64]) (idn a) = Ok ta -> xvt (c ++ [mkb v Ext I64]) (idn b) = Ok tb ->
  exists s', exec_undef (x_arith o tv ta tb) s = Some (w, s') /\ out s' = out s.
Proof.
  intros R ND LA LB EV TV TA TB.
  destruct (op_temps c e s sp a b v x y tv ta tb R ND LA LB TV TA TB) as (TV' & PRE & VA & VB).
  destruct o; cbn [eval_op x_arith] in *; try discriminate.
  - apply (div_rem_undef false s sp tv ta tb x y w (rel_frame R) PRE VA VB).
    destruct (y =? 0); [exact EV|]. destruct ((x =? min_int) && (y =? -1)); [exact EV|discriminate].
  - apply (div_rem_undef true s sp tv ta tb x y w (rel_frame R) PRE VA VB).
    destruct (y =? 0); [exact EV|]. destruct ((x =? min_int) && (y =? -1)); [exact EV|discriminate].
Qed.
End Sim.

Section Sim2.
Variable im : image.
Variable CL : Z -> ident -> list clause -> Prop.
Local Notation rel := (rel CL).

(* ---------- IfC: the comparison, then the conditional jump ---------- *)
Theorem sim_compare2 c e s sp a b x y ta tb :
  rel c e s sp -> lookup_int e a = Some x -> lookup_int e b = Some y ->
  xvt c (idn a) = Ok ta -> xvt c (idn b) = Ok tb ->
  exists s', exec_straight im (compare ta tb) s = Some s' /\ flags s' = Some (x, y) /\
             rel c e s' sp /\ frame_eq s s' sp.
Proof.
  intros R LA LB TA TB.
  destruct (rel_lookup CL c e s sp a x R LA) as (i & bi & ti & Hi & Ei & Ti & Vi).
  destruct (rel_lookup CL c e s sp b y R LB) as (j & bj & tj & Hj & Ej & Tj & Vj).
  rewrite <- Ei, (vt_of_nth0 c i bi (rel_nodup R) Hi), Ti in TA. inversion TA; subst ti.
  rewrite <- Ej, (vt_of_nth0 c j bj (rel_nodup R) Hj), Tj in TB. inversion TB; subst tj.
  destruct (xtpos_ok _ _ _ Ti) as (L1 & N1 & _). destruct (xtpos_ok _ _ _ Tj) as (L2 & N2 & _).
  destruct (x86_compare_ok im s sp ta tb x y (rel_frame R) L1 L2 N1 N2 Vi Vj) as (s' & E & FL & K & _ & _ & F').
  exists s'. split; [exact E|]. split; [exact FL|]. split.
  - apply (rel_keep CL c e s s' sp R F').
    + apply (K (XR FREE)); [cbn; discriminate|discriminate].
    + intros k b0 n t _ _ Hk. destruct (xtpos_ok _ _ _ Hk) as (A & B & _). now apply K.
  - eapply exec_straight_local; eauto using rel_frame. apply local_compare.
Qed.
Theorem sim_compare1 c e s sp a x ta :
  rel c e s sp -> lookup_int e a = Some x -> xvt c (idn a) = Ok ta ->
  exists s', exec_straight im (compare_immediate ta 0) s = Some s' /\ flags s' = Some (x, 0) /\
             rel c e s' sp /\ frame_eq s s' sp.
Proof.
  intros R LA TA.
  destruct (rel_lookup CL c e s sp a x R LA) as (i & bi & ti & Hi & Ei & Ti & Vi).
  rewrite <- Ei, (vt_of_nth0 c i bi (rel_nodup R) Hi), Ti in TA. inversion TA; subst ti.
  destruct (xtpos_ok _ _ _ Ti) as (L1 & N1 & _).
  exists (set_flags s (Some (x, 0))). split; [apply (x86_compare_zero_ok im s sp ta x (rel_frame R) L1 Vi)|].
  split; [reflexivity|]. split; [|apply frame_eq_set_flags].
  apply (rel_keep CL c e s _ sp R); [apply frame_ok_set_flags, (rel_frame R)|reflexivity|].
  intros k b0 n t _ _ _. apply lget_set_flags.
Qed.

(* the whole conditional inside an image: control reaches the first instruction of the branch the
   AxCut machine takes (the else branch follows the jump, the then branch follows the label) *)
Theorem sim_ifc c e s sp so a b x y types thenc elsec lc code lc' pc :
  rel c e s sp -> lookup_int e a = Some x ->
  match b with Some b => lookup_int e b | None => Some 0 end = Some y ->
  xcs types (IfC so a b thenc elsec) c lc = Ok (code, lc') ->
  code_at im pc code -> labels_at_nh im pc code ->
  exists c1 c2 lc2 c3 s',
    code = c1 ++ c2 ++ [LAB (iflabel lc)] ++ c3 /\
    xcs types elsec c (lc + 1)%N = Ok (c2, lc2) /\ xcs types thenc c lc2 = Ok (c3, lc') /\
    exec_to im pc s (if eval_cmp so x y then padd pc (List.length c1 + List.length c2 + 1)
                     else padd pc (List.length c1)) s' /\
    rel c e s' sp /\ frame_eq s s' sp.
Proof.
  intros R LA LB CS CA LBL.
  destruct (cs_ifc _ _ _ _ _ _ _ _ _ _ CS) as (ta & c1 & c2 & lc2 & c3 & TA & C1 & EL & TH & ->).
  exists c1, c2, lc2, c3.
  assert (PRE : exists pre s1, c1 = pre ++ [jcc so (iflabel lc)] /\ exec_straight im pre s = Some s1 /\
                               flags s1 = Some (x, y) /\ rel c e s1 sp /\ frame_eq s s1 sp).
  { destruct b as [b|].
    - destruct C1 as (tb & TB & ->).
      destruct (sim_compare2 c e s sp a b x y ta tb R LA LB TA TB) as (s1 & E & FL & R1 & FE). eauto 8.
    - inversion LB; subst y. destruct (sim_compare1 c e s sp a x ta R LA TA) as (s1 & E & FL & R1 & FE). eauto 8. }
  destruct PRE as (pre & s1 & -> & E & FL & R1 & FE).
  pose proof CA as CA'. rewrite <- app_assoc in CA'. apply code_at_app in CA' as [CApre CArest].
  pose proof (exec_straight_exec_to im pre pc s s1 CApre E) as X1.
  assert (CJ : PM.find (padd pc (List.length pre)) (code im) = Some (jcc so (iflabel lc))).
  { cbn [app] in CArest. apply code_at_cons in CArest as [C0 _]. exact C0. }
  assert (LL : nth_error ((pre ++ [jcc so (iflabel lc)]) ++ c2 ++ [LAB (iflabel lc)] ++ c3)
                         (List.length (pre ++ [jcc so (iflabel lc)]) + List.length c2) = Some (LAB (iflabel lc))).
  { rewrite nth_error_app2 by lia. rewrite nth_error_app2 by lia.
    replace (_ + _ - _ - _)%nat with O by lia. reflexivity. }
  exists s1. split; [reflexivity|]. split; [exact EL|]. split; [exact TH|]. split; [|split; [exact R1|exact FE]].
  pose proof (x86_jcc_step im so (iflabel lc) s1 x y FL) as ST.
  rewrite app_length. cbn [List.length].
  destruct (eval_cmp so x y).
  - rewrite (goto_label_at im pc _ _ _ s1 LBL LL eq_refl) in ST.
    eapply exec_to_trans; [exact X1|].
    eapply exec_jump; [exact CJ|exact ST|].
    eapply exec_next; [apply (code_at_nth im pc _ _ _ CA LL)|reflexivity|].
    rewrite <- padd_succ. rewrite app_length. cbn [List.length].
    replace (S (List.length pre + 1 + List.length c2)) with (List.length pre + 1 + List.length c2 + 1)%nat by lia.
    apply exec_refl.
  - eapply exec_to_trans; [exact X1|].
    eapply exec_next; [exact CJ|exact ST|]. rewrite <- padd_succ.
    replace (S (List.length pre)) with (List.length pre + 1)%nat by lia. apply exec_refl.
Qed.

(* ---------- Exit: the result reaches rax, then control goes to `cleanup` ---------- *)
Theorem sim_exit_mov c e s sp v z tv :
  rel c e s sp -> lookup_int e v = Some z -> xvt c (idn v) = Ok tv ->
  exists s', exec_straight im (x_mov (XR RETURN1) tv) s = Some s' /\ rget s' RETURN1 = Some z /\
             frame_ok s' sp /\ frame_eq s s' sp.
Proof.
  intros R LV TV.
  destruct (rel_lookup CL c e s sp v z R LV) as (i & bi & ti & Hi & Ei & Ti & Vi).
  rewrite <- Ei, (vt_of_nth0 c i bi (rel_nodup R) Hi), Ti in TV. inversion TV; subst ti.
  destruct (xtpos_ok _ _ _ Ti) as (L1 & N1 & _).
  destruct (x86_mov_ok im s sp (XR RETURN1) tv (rel_frame R)) as (s' & E & V & P); auto; try (cbn; discriminate).
  exists s'. split; [exact E|]. split; [cbn [lget] in V; congruence|].
  eapply exec_straight_local; eauto using rel_frame. apply local_x_mov. reflexivity.
Qed.
End Sim2.

(* ================= Substitute ================= *)
(* the machine side: the new environment, entry by entry *)
(* lookups_nth, bind_nth, bind_ids: Proof/SimFrag.v *)

(* in the integer fragment no reference count is touched *)
Lemma cwc_int tm c : forall lc,
  (forall b tg, In (b, tg) tm -> bchi b = Ext) -> code_weakening_contraction x86_backend tm c lc = Ok ([], lc).
Proof.
  induction tm as [|[b tg] tm IH]; intros lc H; cbn [code_weakening_contraction]; [reflexivity|].
  rewrite (H b tg (or_introl eq_refl)). apply IH. intros b' tg' Hin. apply (H b' tg'). now right.
Qed.
Lemma cwc_ctx_int c re lc : ctx_int c = true -> NoDup (ids c) ->
  code_weakening_contraction x86_backend (transpose re c) c lc = Ok ([], lc).
Proof.
  intros CI ND. apply cwc_int. intros b tg Hin.
  apply (In_transpose re c b tg (NoDup_map_inv _ _ ND)) in Hin as (Hin & _).
  apply In_nth_error in Hin as (i & Hi). apply (ctx_int_nth c i b CI Hi).
Qed.

(* the labels of the reference-count code are branch labels `lab<n>` *)
Definition nh_labels (cs : list xcode) : Prop :=
  Forall (fun c => match c with LAB l => is_hash_label l = false | _ => True end) cs.
Lemma nh_labels_app a b : nh_labels a -> nh_labels b -> nh_labels (a ++ b).
Proof. intros A B. apply Forall_app. split; assumption. Qed.
Lemma labels_at_of_nh im pc cs : nh_labels cs -> labels_at_nh im pc cs -> labels_at im pc cs.
Proof.
  intros NH LA j l Hj. apply LA; auto. unfold nh_labels in NH. rewrite Forall_forall in NH.
  exact (NH _ (nth_error_In _ _ Hj)).
Qed.
Lemma nh_lab n : is_hash_label (lab n) = false. Proof. reflexivity. Qed.
Ltac nh_tac :=
  repeat first [ apply Forall_nil | apply Forall_cons; [first [exact I | apply nh_lab | reflexivity]|]
               | apply nh_labels_app ].
Lemma nh_compare_immediate t i : nh_labels (compare_immediate t i).
Proof. destruct t; cbn; nh_tac. Qed.
Lemma nh_skip_if_zero t body lc : nh_labels body -> nh_labels (fst (skip_if_zero t body lc)).
Proof. intros H. unfold skip_if_zero. cbn [fst]. nh_tac; auto using nh_compare_immediate. Qed.
Lemma nh_if_zero_then_else r o tb eb lc : nh_labels tb -> nh_labels eb -> nh_labels (fst (if_zero_then_else r o tb eb lc)).
Proof. intros H1 H2. unfold if_zero_then_else. cbn [fst]. destruct o; nh_tac; auto. Qed.
Lemma nh_erase t lc : nh_labels (fst (x_erase_block t lc)).
Proof.
  unfold x_erase_block, erase_valid_object. destruct t as [r|p].
  - destruct (if_zero_then_else _ _ _ _ lc) as [c lc1] eqn:E. apply nh_skip_if_zero.
    replace c with (fst (if_zero_then_else r (Some REFERENCE_COUNT_OFFSET) [MOVS FREE r NEXT_ELEMENT_OFFSET; MOV FREE r] [ADDIM r REFERENCE_COUNT_OFFSET (-1)] lc)) by (now rewrite E).
    apply nh_if_zero_then_else; nh_tac.
  - destruct (if_zero_then_else _ _ _ _ lc) as [c lc1] eqn:E.
    destruct (skip_if_zero (XR TEMP) c lc1) as [c2 lc2] eqn:E2. cbn [fst].
    apply nh_labels_app; [nh_tac|]. replace c2 with (fst (skip_if_zero (XR TEMP) c lc1)) by (now rewrite E2).
    apply nh_skip_if_zero.
    replace c with (fst (if_zero_then_else TEMP (Some REFERENCE_COUNT_OFFSET) [MOVS FREE TEMP NEXT_ELEMENT_OFFSET; MOV FREE TEMP] [ADDIM TEMP REFERENCE_COUNT_OFFSET (-1)] lc)) by (now rewrite E).
    apply nh_if_zero_then_else; nh_tac.
Qed.
Lemma nh_share t n lc : nh_labels (fst (x_share_block_n t n lc)).
Proof. unfold x_share_block_n. destruct t; apply nh_skip_if_zero; nh_tac. Qed.
Lemma nh_emit_rc : forall ops lc, nh_labels (fst (emit_rc x86_backend ops lc)).
Proof.
  induction ops as [|o ops IH]; intros lc; cbn [emit_rc]; [constructor|].
  destruct (emit_rc_op x86_backend o lc) as [c1 lc1] eqn:E1. destruct (emit_rc x86_backend ops lc1) as [c2 lc2] eqn:E2.
  cbn [fst]. apply nh_labels_app.
  - replace c1 with (fst (emit_rc_op x86_backend o lc)) by (now rewrite E1).
    destruct o; cbn [emit_rc_op b_erase b_share_n x86_backend x86_backend_with]; [apply nh_erase|apply nh_share].
  - replace c2 with (fst (emit_rc x86_backend ops lc1)) by (now rewrite E2). apply IH.
Qed.

Section Sim3.
Variable im : image.
Variable CL : Z -> ident -> list clause -> Prop.
Local Notation rel := (rel CL).

(* the temporaries of a source position and of a new position it is assigned to are defined and
   joined by an edge of the move graph, because the moves were emitted *)
Lemma subst_edge c re am n i bi j pj :
  NoDup (ids c) -> NoDup (new_ids re) ->
  connections x86_backend (transpose re c) c (map fst re) = Ok am ->
  nth_error c i = Some bi -> allowed n bi -> nth_error re j = Some pj -> idn (snd pj) = idn (bvar bi) ->
  exists ta tb, xtpos n i = Ok ta /\ xtpos n j = Ok tb /\ edge xtemp xeqb am ta tb.
Proof.
  intros NDc NDn CN Hbi AL Hre EQ.
  destruct (all_ok x86_backend x86_backend_ok c re am NDc NDn CN n i bi Hbi AL) as (a & ts & K & _).
  pose proof (connections_edges x86_backend x86_backend_ok c re am NDc NDn CN) as EDG.
  unfold op_kv in K. rewrite (vt_tpos x86_backend n c i bi NDc Hbi) in K.
  destruct (xtpos n i) as [ta|] eqn:TA; cbn [rbind] in K; [|discriminate].
  destruct (rmap _ (targets re bi)) as [ts0|] eqn:RM; cbn [rbind] in K; [|discriminate].
  apply rmap_Forall2 in RM.
  assert (In (idn (bvar (fst pj))) (targets re bi)) as I.
  { unfold targets. apply in_map_iff. exists pj. split; auto. apply filter_In. split.
    - eapply nth_error_In; eauto.
    - apply N.eqb_eq. congruence. }
  destruct (Forall2_In_l _ _ _ _ RM I) as (tb & _ & Vy). cbn beta in Vy.
  rewrite (vt_tpos_new x86_backend n re j pj NDn Hre) in Vy.
  exists ta, tb. split; [reflexivity|]. split; [exact Vy|]. apply EDG. exists i, j, bi, pj, n. repeat split; auto.
Qed.

(* Substitute, any mix of integer and closure variables: the reference-count code (one skipped
   erase / share per closure variable that is dropped / duplicated: the block pointer of a closure without
   captured variables is null) followed by the parallel moves leaves the machine's rearranged environment in
   the temporaries of the new context *)
Theorem sim_substitute c e s sp re vs e' c1 lc lc1 c2 pc :
  rel c e s sp -> NoDup (new_ids re) ->
  (forall q, In q re -> has c (snd q) (bchi (fst q)) (bty (fst q)) = true) ->
  lookups e (map snd re) = Some vs -> bind (map (fun r => bvar (fst r)) re) vs = Some e' ->
  code_weakening_contraction x86_backend (transpose re c) c lc = Ok (c1, lc1) ->
  code_exchange x86_backend (transpose re c) c (map fst re) = Ok c2 ->
  code_at im pc (c1 ++ c2) -> labels_at_nh im pc (c1 ++ c2) ->
  exists s', exec_to im pc s (padd pc (List.length (c1 ++ c2))) s' /\ rel (map fst re) e' s' sp /\ frame_eq s s' sp.
Proof.
  intros R NDn KIND LK BD WC CE CA LA.
  pose proof (rel_nodup R) as NDc. pose proof (rel_frame R) as F. pose proof (rel_length R) as LEN.
  apply code_at_app in CA as [CA1 CA2]. apply labels_at_nh_app in LA as [LA1 _].
  unfold code_exchange in CE.
  destruct (connections x86_backend (transpose re c) c (map fst re)) as [am|] eqn:CN; cbn [rbind] in CE; [|discriminate].
  (* every new variable has a source position of the same kind and type *)
  assert (SRC : forall j pj, nth_error re j = Some pj ->
            exists i bi, nth_error c i = Some bi /\ idn (bvar bi) = idn (snd pj) /\
                         bchi bi = bchi (fst pj) /\ bty bi = bty (fst pj)).
  { intros j pj Hj. specialize (KIND pj (nth_error_In _ _ Hj)). unfold has in KIND.
    destruct (lookup_b c (idn (snd pj))) as [bi|] eqn:LB; [|discriminate].
    apply lookup_b_Some in LB as [Hin Hid]. apply andb_true_iff in KIND as [K1 K2].
    apply chi_eqb_eq in K1. apply ty_eqb_eq in K2. apply In_nth_error in Hin as (i & Hi). eauto 8. }
  (* far fewer new variables than 2^31: each has a temporary *)
  assert (LR : Z.of_nat (List.length re) <= 2147483647).
  { destruct (Nat.le_gt_cases (List.length re) 1000) as [L|L]; [lia|]. exfalso.
    destruct (nth_error re 1000) as [pj|] eqn:Hj; [|apply nth_error_None in Hj; lia].
    destruct (SRC _ _ Hj) as (i & bi & Hi & Ei & _).
    destruct (subst_edge c re am Snd i bi 1000%nat pj NDc NDn CN Hi (or_introl eq_refl) Hj (eq_sym Ei)) as (_ & tb & _ & Tb & _).
    vm_compute in Tb. discriminate. }
  (* phase 1: reference counts, all on null pointers *)
  destruct (weakening_contraction_counts x86_backend c re lc c1 lc1 NDc WC) as (order & PERM & _ & ORD & ops & F2 & EM).
  assert (OBJ : forall i b, In (i, b) order -> is_obj b = true).
  { intros i b Hin. assert (In b (map snd order)) as Hb by (apply in_map_iff; exists (i, b); auto).
    eapply Permutation.Permutation_in in Hb; [|exact PERM]. apply filter_In in Hb. tauto. }
  assert (NULL : forall i b t, In (i, b) order -> xtpos Fst i = Ok t -> lget s sp t = Some 0).
  { intros i b t Hin Ht. pose proof (ORD i b Hin) as Hnth. pose proof (OBJ i b Hin) as Ho.
    assert (Li : (i < List.length e)%nat) by (rewrite LEN; apply nth_error_Some; congruence).
    destruct (nth_error e i) as [[y v]|] eqn:He; [|apply nth_error_None in He; lia].
    destruct (rel_vals R i y v He) as (b' & Hb' & V). assert (b' = b) by congruence. subst b'.
    inversion V; subst.
    - unfold is_obj in Ho. rewrite H in Ho. discriminate.
    - congruence. }
  assert (RCOK : Forall (rc_ok s sp) (List.concat ops)).
  { apply Forall_concat. clear EM PERM. induction F2 as [|[i b] o order' ops' (t & Ht & ->) _ IHF]; constructor.
    - cbn [fst snd] in *.
      destruct (xtpos_var_temp Fst i t Ht) as (VT & NF & _).
      pose proof (NULL i b t (or_introl eq_refl) Ht) as Hp.
      pose proof (count_targets_le re b) as LE.
      destruct (count_targets re b) as [|[|k]]; cbn [rc_op_for].
      + constructor; [|constructor]. unfold rc_ok; cbn [rc_temp].
        split; [exact VT|split; [exact NF|split; [exists 0; auto|exact I]]].
      + constructor.
      + constructor; [|constructor]. unfold rc_ok; cbn [rc_temp].
        split; [exact VT|split; [exact NF|split; [exists 0; auto|]]].
        unfold fits32. apply andb_true_iff. split; apply Z.leb_le; lia.
    - apply IHF; intros; [apply ORD|eapply OBJ|eapply NULL]; try right; eauto. }
  assert (EMc : c1 = fst (emit_rc x86_backend (List.concat ops) lc)) by (now rewrite <- EM).
  destruct (rel_free R) as (f & FR).
  assert (LA1' : labels_at im pc c1) by (apply labels_at_of_nh; [rewrite EMc; apply nh_emit_rc|exact LA1]).
  rewrite EMc in CA1, LA1'.
  destruct (x86_emit_rc_ok im s sp (List.concat ops) pc lc s f RCOK (fun r _ _ => eq_refl) eq_refl CA1 LA1' F FR)
    as (s1 & f1 & X1 & X2 & X3 & X4 & X5 & X6).
  rewrite <- EMc in X1.
  (* null pointers: heap and rbp are unchanged *)
  assert (ID : fold_left (fun hf o => rc_h s sp o hf) (List.concat ops) (heap s, f) = (heap s, f)).
  { clear -RCOK NULL F2 ORD. revert RCOK. generalize (heap s, f) as hf.
    assert (Z0 : Forall (fun o => ptr_of s sp (rc_temp o) = 0) (List.concat ops)).
    { apply Forall_concat. induction F2 as [|[i b] o order' ops' (t & Ht & ->) _ IHF]; constructor.
      - cbn [fst snd] in *. pose proof (NULL i b t (or_introl eq_refl) Ht) as Hp.
        destruct (count_targets re b) as [|[|k]]; cbn [rc_op_for]; repeat constructor; cbn [rc_temp]; unfold ptr_of; now rewrite Hp.
      - apply IHF; intros; [apply ORD|eapply NULL]; try right; eauto. }
    induction Z0 as [|o l Ho _ IH]; intros hf RC; cbn [fold_left]; [reflexivity|].
    inversion RC; subst. rewrite <- IH by assumption. f_equal.
    destruct o; cbn [rc_h rc_temp] in *; rewrite Ho; unfold erase_h, share_h; reflexivity. }
  rewrite ID in X3. inversion X3 as [[HP FQ]]. subst f1.
  assert (F1 : frame_ok s1 sp).
  { destruct F as [A B]. split; [|exact B]. rewrite X4; [exact A|discriminate|discriminate]. }
  assert (AG : forall t, var_temp t -> t <> XR FREE -> lget s1 sp t = lget s sp t).
  { intros t VT NF. apply lget_agree; auto. }
  (* phase 2: the parallel moves *)
  destruct (transpose_connections_indeg1 x86_backend x86_backend_ok c re am NDc NDn CN) as (IDG & NT & SRT & KEYS).
  pose proof (connections_edges x86_backend x86_backend_ok c re am NDc NDn CN) as EDG.
  assert (VTam : forall t, In t (map fst am) \/ In t (all_targets xtemp am) -> var_temp t /\ t <> XR FREE).
  { intros t [Hk|Ht].
    - destruct (KEYS t Hk) as (i & bi & n & _ & _ & Hp). destruct (xtpos_var_temp n i t Hp); tauto.
    - unfold all_targets in Ht. apply in_flat_map in Ht as ([k ts] & Hin & Ht). cbn [snd] in Ht.
      assert (edge xtemp xeqb am k t) as E.
      { exists ts. split; [|exact Ht]. apply lookup_of_In; auto.
        apply (sorted_nodup xtemp_compare (cmp_eq x86_backend x86_backend_ok)). exact SRT. }
      apply EDG in E as (i & j & bi & pj & n & _ & _ & _ & _ & _ & Hb). destruct (xtpos_var_temp n j t Hb); tauto. }
  destruct (x86_parallel_moves_ok im am c2 s1 sp IDG NT (fun t H => proj1 (VTam t H)) CE F1) as (s2 & E2 & P1 & P2 & F2' & SF).
  pose proof (exec_straight_exec_to im c2 _ s1 s2 CA2 E2) as X2'.
  assert (FREE2 : rget s2 FREE = Some f).
  { rewrite <- X2. change (rget s2 FREE) with (lget s2 sp (XR FREE)). change (rget s1 FREE) with (lget s1 sp (XR FREE)).
    apply P2.
    + unfold var_temp; cbn [loc_ok]. change FREE with 3%N. change TEMP with 1%N. repeat split; congruence.
    + intros a E. assert (In (XR FREE) (all_targets xtemp am)) as Hin by (eapply edge_all_targets; eauto).
      destruct (VTam (XR FREE) (or_intror Hin)) as [_ N]. congruence. }
  exists s2. split; [rewrite app_length, padd_add; eapply exec_to_trans; eauto|]. split.
  - destruct R as [F0 Al Ro Fr Ids ND0 Vals]. split; auto.
    + eauto.
    + unfold env_ids. rewrite <- (map_map fst idn), (bind_ids _ _ _ BD). unfold ids. now rewrite !map_map.
    + now rewrite ids_new.
    + intros j x v Hj.
      destruct (bind_nth _ _ _ _ _ _ BD Hj) as (Hx & Hv).
      rewrite nth_error_map in Hx. destruct (nth_error re j) as [pj|] eqn:Hre; [|discriminate]. cbn in Hx. inversion Hx; subst x.
      exists (fst pj). split; [now rewrite nth_error_map, Hre|].
      destruct (lookups_nth e (map snd re) vs j (snd pj) LK) as (v' & Hv' & LV).
      { now rewrite nth_error_map, Hre. }
      assert (v' = v) by congruence. subst v'.
      unfold lookup_id in LV. destruct (lookup_nth e _ _ LV) as (i & y & Hi & Ey).
      destruct (Vals i y v Hi) as (bi & Hbi & V).
      destruct (SRC j pj Hre) as (i' & bi' & Hi' & Ei' & KC & KT).
      assert (i' = i).
      { destruct (env_ctx_nth c e i y v Ids Hi) as (b0 & Hb0 & Eb0).
        eapply (ids_nth_inj c i' i bi' b0); eauto. congruence. }
      subst i'. assert (bi' = bi) by congruence. subst bi'.
      assert (MV : forall n ta, allowed n bi -> xtpos n i = Ok ta -> exists tb, xtpos n j = Ok tb /\ lget s2 sp tb = lget s sp ta).
      { intros n ta AL Ta.
        destruct (subst_edge c re am n i bi j pj NDc NDn CN Hbi AL Hre (eq_sym Ei')) as (ta' & tb & Ta' & Tb & ED).
        assert (ta' = ta) by congruence. subst ta'. exists tb. split; [exact Tb|].
        rewrite (P1 ta tb ED). destruct (xtpos_var_temp n i ta Ta) as (VT & NF & _). now apply AG. }
      inversion V; subst.
      * destruct (MV Snd t (or_introl eq_refl) H1) as (tb & Tb & Lb).
        eapply vrep_int; eauto; congruence.
      * assert (AL : forall n, allowed n bi) by (intros n; right; congruence).
        destruct (MV Fst t1 (AL Fst) H1) as (tb1 & Tb1 & Lb1). destruct (MV Snd t2 (AL Snd) H2) as (tb2 & Tb2 & Lb2).
        eapply vrep_clo; eauto; congruence.
  - destruct SF as (SH & SO & _ & _ & SK). repeat split; try congruence.
    intros k Hk. rewrite (SK k Hk). now rewrite X5.
Qed.
End Sim3.

(* ================= Call: relabelling by a context of the same kinds ================= *)
Lemma vrep_kind CL s sp i b b' v : bchi b' = bchi b -> bty b' = bty b -> vrep CL s sp i b v -> vrep CL s sp i b' v.
Proof.
  intros K T V. destruct V as [b z t A B T0 L|b tn cls a t1 t2 A B T1 T2 L1 L2 C].
  - eapply vrep_int; eauto; congruence.
  - eapply vrep_clo; eauto; congruence.
Qed.
Lemma bind_rel CL c e st sp (c' : ctx) e' :
  rel CL c e st sp -> NoDup (ids c') -> sig_match c c' = true ->
  bind (vars c') (map snd e) = Some e' -> rel CL c' e' st sp.
Proof.
  intros R ND SM BD. pose proof (rel_length R) as LE. destruct R as [F Al Ro Fr Ids ND0 Vals]. split; auto.
  - unfold env_ids. rewrite <- (map_map fst idn), (bind_ids _ _ _ BD). unfold vars, ids. now rewrite map_map.
  - intros i x v Hi. destruct (bind_nth _ _ _ _ _ _ BD Hi) as (_ & Hv).
    rewrite nth_error_map in Hv. destruct (nth_error e i) as [[y w]|] eqn:He; [|discriminate]. cbn in Hv. inversion Hv; subst w.
    destruct (Vals i y v He) as (b & Hb & V). destruct (sig_match_nth c c' i b SM Hb) as (b' & Hb' & K & T).
    exists b'. split; [exact Hb'|]. apply (vrep_kind CL st sp i b b' v); [congruence|congruence|exact V].
Qed.
(* bind_length, lin_nodup, bind_total, sig_match_nth: Proof/SimFrag.v *)
