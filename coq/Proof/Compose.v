(* C01: composition of the stage theorems, and the link between the abstract print trace of the
   machines and the bytes the C runtime writes. *)
From Coq Require Import List ZArith NArith String Ascii Bool Lia.
From SCC Require Import Base.Sexp Lang.AxSyn Lang.FunSyn Lang.CoreSyn Sem.AxSem Sem.CoreSem Sem.FunSem Sem.X86Sem
     Model.Backend Model.Fun2Core Model.Focus Model.FocusCheck Model.Shrink Model.Linearize Model.LinCheck Model.X86 Model.Runtime
     Proof.RuntimeProof Proof.LinSim.
Import ListNotations.
Open Scope Z_scope.

(* ---------- the print trace is what the C runtime writes ---------- *)
Lemma bytes_of_string_app a b : bytes_of_string (a ++ b)%string = bytes_of_string a ++ bytes_of_string b.
Proof. induction a as [|c a IH]; cbn; [reflexivity|]. now rewrite IH. Qed.

Definition runtime_bytes (pz : bool * Z) : list Z :=
  bytes (if fst pz then println_i64 (snd pz) else print_i64 (snd pz)).
Definition in_i64 (v : Z) : Prop := - 2 ^ 63 <= v < 2 ^ 63.

Theorem render_prints_is_runtime_output (ps : prints) :
  Forall (fun pz => in_i64 (snd pz)) ps ->
  bytes_of_string (render_prints ps) = flat_map runtime_bytes ps.
Proof.
  induction 1 as [|[nl v] ps Hv _ IH]; [reflexivity|].
  cbn [render_prints fold_right flat_map]. fold (render_prints ps).
  rewrite !bytes_of_string_app, IH. unfold runtime_bytes; cbn [fst snd] in *.
  destruct nl.
  - rewrite (println_i64_digits v Hv). rewrite <- app_assoc. reflexivity.
  - rewrite (print_i64_digits v Hv). reflexivity.
Qed.

(* ---------- composition ---------- *)
Definition out_ok (o : obs) : Prop := (exists z, snd o = OExit z).

Section Pipeline.
(* the links that are not (fully) proved are hypotheses, visible in the theorem's type *)
Hypothesis fun2core_correct :
  forall (p : fcprog) (c : cprog) (args : list Z) (n : nat) (o : obs),
    annotated_fcprog p = true -> effect_sequenced p = true -> barendregt p = true ->
    compile_prog p = Fun2Core.Ok c -> run_fun n p args = o -> defined o = true ->
    exists m, run_core m c args = o.
Hypothesis focus_preserves :
  forall p q args fuel, pre_check p = true -> focus_wf p = true -> focus_prog p = Backend.Ok q ->
    let o := run_core fuel p args in
    ((exists z, snd o = OExit z) \/ (exists w, snd o = OUndef w)) ->
    exists fuel', run_fs fuel' q args = o.
Hypothesis shrink_correct :
  forall (p : fsprog) (q : prog) (n : nat) (args : list Z) (o : obs),
    shrink_prog p = SOk q -> run_fs n p args = o ->
    ((exists z, snd o = OExit z) \/ (exists w, snd o = OUndef w)) ->
    exists m, run_named m q args = o.
Hypothesis x86_codegen_correct :
  forall (p : prog) (lc : N) (cs : list xcode) (n : nat) (lc' : N) (args : list Z) (fuel : nat) (o : obs),
    x86_compile p lc = Backend.Ok (cs, n, lc') ->
    run_linear fuel p args = o -> defined o = true ->
    exists outer inner, fst (run_x86 outer inner cs args) = o.

Theorem compile_correct_partial :
  forall (p : fcprog) (c : cprog) (f : fsprog) (a : prog) (cs : list xcode) (nargs : nat) (lc lc' : N)
         (args : list Z) (n : nat) (o : obs),
    (* the source program is in the domain of the translation theorems *)
    annotated_fcprog p = true -> effect_sequenced p = true -> barendregt p = true ->
    (* the pipeline, stage by stage (side conditions re-checked by the executable checkers on every run) *)
    compile_prog p = Fun2Core.Ok c -> pre_check c = true -> focus_wf c = true ->
    focus_prog c = Backend.Ok f -> shrink_prog f = SOk a -> prog_ok a = true ->
    x86_compile (linearize a) lc = Backend.Ok (cs, nargs, lc') ->
    (* a defined source run *)
    run_fun n p args = o -> out_ok o ->
    (* the emitted code, on the ISA semantics, makes the same print calls and returns the same value; the
       bytes written by the runtime for those calls are the decimal rendering of the source output *)
    (exists outer inner, fst (run_x86 outer inner cs args) = o) /\
    (Forall (fun pz => in_i64 (snd pz)) (fst o) ->
     bytes_of_string (render_prints (fst o)) = flat_map runtime_bytes (fst o)).
Proof.
  intros p c f a cs nargs lc lc' args n o An Es Ba Hc Hpre Hwf Hf Hs Hok Hx Hrun (z & Hz).
  assert (D : defined o = true) by (unfold defined; now rewrite Hz).
  assert (G : (exists z, snd o = OExit z) \/ (exists w, snd o = OUndef w)) by (left; eauto).
  split; [|apply render_prints_is_runtime_output].
  destruct (fun2core_correct p c args n o An Es Ba Hc Hrun D) as (m1 & R1).
  pose proof (focus_preserves c f args m1 Hpre Hwf Hf) as FP. cbv zeta in FP. rewrite R1 in FP.
  destruct (FP G) as (m2 & R2).
  destruct (shrink_correct f a m2 args o Hs R2 G) as (m3 & R3).
  destruct (linearize_preserves_stable a Hok args m3 o R3 G) as (m4 & R4).
  specialize (R4 0%nat). rewrite Nat.add_0_r in R4.
  exact (x86_codegen_correct (linearize a) lc cs nargs lc' args m4 o Hx R4 D).
Qed.
End Pipeline.
