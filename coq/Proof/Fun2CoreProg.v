(* ======================================================================================
   Proof/Fun2CoreProg  -  program level: what compile_prog puts into the Core program for every
   source definition (the definition itself under its own name, its lifted continuations under
   their generated labels, all names distinct), and the preservation theorem for the fragment.
   ====================================================================================== *)
From Coq Require Import List ZArith NArith String Bool Lia.
From SCC Require Import Base.Sexp Lang.SynUtil Lang.FunSyn Lang.FunTy Lang.CoreSyn.
From SCC Require Import Sem.AxSem Sem.CoreSem Sem.FunSem Model.Fun2Core.
From SCC Require Import Proof.Fun2CoreProof Proof.Fun2CoreSim Proof.Fun2CoreTfv Proof.Fun2CoreInv Proof.Fun2CoreUB
     Proof.Fun2CoreRel Proof.Fun2CoreFLa Proof.Fun2CoreFLb Proof.Fun2CoreFLc Proof.Fun2CoreFLd Proof.Fun2CoreFLe
     Proof.Fun2CoreFLf Proof.Fun2CoreFLg Proof.Fun2CoreFLh.
Import ListNotations.
Open Scope string_scope.
Open Scope list_scope.

(* ---------- used_binders: the accumulator only grows, and contains the binders ---------- *)
Definition ub_terms (l : list fterm) (acc : list string) : list string :=
  fold_left (fun acc y => used_binders y acc) l acc.
Definition ub_cls (l : list fclause) (acc : list string) : list string :=
  fold_left (fun acc c => match c with FClause _ _ names _ body => used_binders body (rev_append names acc) end) l acc.

Lemma used_binders_call : forall f args r acc, used_binders (FCall f args r) acc = ub_terms args acc.
Proof. intros f args r. unfold ub_terms. simpl. induction args as [|y l IH]; intros acc; simpl; [reflexivity | apply IH]. Qed.
Lemma used_binders_ctor : forall f args r acc, used_binders (FCtor f args r) acc = ub_terms args acc.
Proof. intros f args r. unfold ub_terms. simpl. induction args as [|y l IH]; intros acc; simpl; [reflexivity | apply IH]. Qed.
Lemma used_binders_dtor : forall s x ta args r acc, used_binders (FDtor s x ta args r) acc = ub_terms args (used_binders s acc).
Proof.
  intros s x ta args r acc. unfold ub_terms. simpl. generalize (used_binders s acc).
  induction args as [|y l IH]; intros a; simpl; [reflexivity | apply IH].
Qed.
Lemma used_binders_case : forall s ta cls r acc, used_binders (FCase s ta cls r) acc = ub_cls cls (used_binders s acc).
Proof.
  intros s ta cls r acc. unfold ub_cls. simpl. generalize (used_binders s acc).
  induction cls as [|[pl x names ctx body] l IH]; intros a; simpl; [reflexivity | apply IH].
Qed.
Lemma used_binders_new : forall cls r acc, used_binders (FNew cls r) acc = ub_cls cls acc.
Proof.
  intros cls r. unfold ub_cls. simpl.
  induction cls as [|[pl x names ctx body] l IH]; intros a; simpl; [reflexivity | apply IH].
Qed.

Lemma used_binders_mono : forall t acc x, In x acc -> In x (used_binders t acc).
Proof.
  induction t using fterm_ind'; intros acc z Hz; try (simpl; auto; fail).
  - simpl. destruct b as [b'|]; simpl in H; auto.
  - simpl. apply IHt2. apply IHt1. right. exact Hz.
  - rewrite used_binders_call. unfold ub_terms. revert acc Hz. induction H as [|y l Hy Hl IH]; intros acc Hz; simpl; auto.
  - rewrite used_binders_ctor. unfold ub_terms. revert acc Hz. induction H as [|y l Hy Hl IH]; intros acc Hz; simpl; auto.
  - rewrite used_binders_dtor. unfold ub_terms. apply IHt with (acc := acc) in Hz. revert Hz. generalize (used_binders t acc).
    induction H as [|y l Hy Hl IH]; intros a Hz; simpl; auto.
  - rewrite used_binders_case. unfold ub_cls. apply IHt with (acc := acc) in Hz. revert Hz. generalize (used_binders t acc).
    induction H as [|[pl x0 names ctx body] l Hy Hl IH]; intros a Hz; simpl; [exact Hz|].
    apply IH. simpl in Hy. apply Hy. rewrite rev_append_rev. apply in_or_app. right. exact Hz.
  - rewrite used_binders_new. unfold ub_cls. revert acc Hz.
    induction H as [|[pl x0 names ctx body] l Hy Hl IH]; intros a Hz; simpl; [exact Hz|].
    apply IH. simpl in Hy. apply Hy. rewrite rev_append_rev. apply in_or_app. right. exact Hz.
  - simpl. apply IHt. right. exact Hz.
Qed.

Lemma ub_terms_mono : forall l acc x, In x acc -> In x (ub_terms l acc).
Proof. unfold ub_terms. induction l as [|y r IH]; intros acc x Hx; simpl; [exact Hx | apply IH; apply used_binders_mono; exact Hx]. Qed.
Lemma ub_cls_mono : forall l acc x, In x acc -> In x (ub_cls l acc).
Proof.
  unfold ub_cls. induction l as [|[pl x0 names ctx body] r IH]; intros acc x Hx; simpl; [exact Hx|].
  apply IH. apply used_binders_mono. rewrite rev_append_rev. apply in_or_app. right. exact Hx.
Qed.

Section Binders.
  Variable p : fcprog.
  Lemma darg_frag : forall y, darg_ok p y = true -> frag p y = true.
  Proof. intros y H. unfold darg_ok in H. apply andb_prop in H. destruct H as [H _]. apply andb_prop in H. tauto. Qed.

  Lemma bnd_ub_terms : forall args,
    Forall (fun t => forall acc x, frag p t = true -> In x (bnd t) -> In x (used_binders t acc)) args ->
    (forall y, In y args -> bnd y = [] \/ frag p y = true) ->
    forall acc z, In z (flat_map bnd args) -> In z (ub_terms args acc).
  Proof.
    intros args H. induction H as [|y l Hy Hl IH]; intros Hf acc z Hz; simpl in Hz; [contradiction|].
    unfold ub_terms. simpl. fold (ub_terms l (used_binders y acc)).
    apply in_app_or in Hz. destruct Hz as [Hz|Hz].
    - apply ub_terms_mono. destruct (Hf y (or_introl eq_refl)) as [E|Hfy]; [rewrite E in Hz; contradiction|].
      apply Hy; assumption.
    - apply IH; [|exact Hz]. intros y0 Hy0. apply Hf. right. exact Hy0.
  Qed.
  Lemma bnd_ub_cls : forall cls,
    Forall (fun c => forall acc x, frag p (clause_body c) = true -> In x (bnd (clause_body c)) -> In x (used_binders (clause_body c) acc)) cls ->
    forallb (fun c => match c with FClause _ _ names ctx body =>
                          list_eqb String.eqb names (fvars ctx) && ctx_data p ctx && frag p body end) cls = true ->
    forall acc z, In z (flat_map (fun c => match c with FClause _ _ _ ctx body => fvars ctx ++ bnd body end) cls) -> In z (ub_cls cls acc).
  Proof.
    intros cls H. induction H as [|[pl x0 names ctx body] l Hy Hl IH]; intros Hfc acc z Hz; simpl in Hz; [contradiction|].
    simpl in Hfc. apply andb_prop in Hfc. destruct Hfc as [Hfy Hfl].
    apply andb_prop in Hfy. destruct Hfy as [Hfy Hfb]. apply andb_prop in Hfy. destruct Hfy as [Hnames _].
    apply str_list_eqb_eq in Hnames. subst names.
    unfold ub_cls. simpl. fold (ub_cls l (used_binders body (rev_append (fvars ctx) acc))).
    apply in_app_or in Hz. destruct Hz as [Hz|Hz].
    - apply ub_cls_mono. apply in_app_or in Hz. destruct Hz as [Hz|Hz].
      + apply used_binders_mono. rewrite rev_append_rev. apply in_or_app. left. apply in_rev in Hz. exact Hz.
      + simpl in Hy. apply Hy; assumption.
    - apply IH; assumption.
  Qed.

  Lemma bnd_used_binders : forall t acc x, frag p t = true -> In x (bnd t) -> In x (used_binders t acc).
  Proof.
    induction t using fterm_ind'; intros acc z Hf Hz; simpl in Hf; try discriminate; try (simpl in Hz; contradiction).
    - simpl in Hz. apply andb_prop in Hf. destruct Hf as [Hf1 Hf2]. simpl. apply in_app_or in Hz. destruct Hz as [Hz|Hz].
      + apply used_binders_mono. apply IHt1; assumption.
      + apply IHt2; assumption.
    - apply andb_prop in Hf. destruct Hf as [Hf Hf3]. apply andb_prop in Hf. destruct Hf as [Hf Hf2].
      apply andb_prop in Hf. destruct Hf as [Hf1 Hfb]. simpl in Hz. simpl.
      apply in_app_or in Hz. destruct Hz as [Hz|Hz].
      { apply used_binders_mono. apply used_binders_mono. destruct b as [b'|]; [apply used_binders_mono|]; apply IHt1; assumption. }
      apply in_app_or in Hz. destruct Hz as [Hz|Hz].
      { apply used_binders_mono. apply used_binders_mono. destruct b as [b'|]; [|contradiction]. simpl in H. apply H; assumption. }
      apply in_app_or in Hz. destruct Hz as [Hz|Hz].
      { apply used_binders_mono. apply IHt2; assumption. }
      apply IHt3; assumption.
    - apply andb_prop in Hf. destruct Hf as [Hf1 Hf2]. simpl in Hz. simpl. apply in_app_or in Hz. destruct Hz as [Hz|Hz].
      + apply used_binders_mono. apply IHt1; assumption.
      + apply IHt2; assumption.
    - apply andb_prop in Hf. destruct Hf as [Hf1 Hf2].
      simpl in Hz. simpl. destruct Hz as [Hz|Hz].
      + subst z. apply used_binders_mono. apply used_binders_mono. left. reflexivity.
      + apply in_app_or in Hz. destruct Hz as [Hz|Hz].
        * apply used_binders_mono. apply IHt1; assumption.
        * apply IHt2; assumption.
    - (* call *)
      apply andb_prop in Hf. destruct Hf as [_ Hf]. simpl in Hz. rewrite used_binders_call.
      apply bnd_ub_terms; [exact H | | exact Hz].
      intros y Hy. rewrite forallb_forall in Hf. specialize (Hf y Hy).
      destruct y; try (right; apply andb_prop in Hf; tauto). left. reflexivity.
    - (* ctor *)
      simpl in Hz. rewrite used_binders_ctor.
      apply bnd_ub_terms; [exact H | | exact Hz].
      intros y Hy. rewrite forallb_forall in Hf. right. apply darg_frag. apply Hf. exact Hy.
    - (* dtor *)
      apply andb_prop in Hf. destruct Hf as [Hf _]. apply andb_prop in Hf. destruct Hf as [Hfs Hfa].
      simpl in Hz. rewrite used_binders_dtor. apply in_app_or in Hz. destruct Hz as [Hz|Hz].
      + apply ub_terms_mono. apply IHt; assumption.
      + apply bnd_ub_terms; [exact H | | exact Hz].
        intros y Hy. rewrite forallb_forall in Hfa. right. apply darg_frag. apply Hfa. exact Hy.
    - (* case *)
      apply andb_prop in Hf. destruct Hf as [Hf Hfc]. apply andb_prop in Hf. destruct Hf as [Hfs _].
      simpl in Hz. rewrite used_binders_case. apply in_app_or in Hz. destruct Hz as [Hz|Hz].
      + apply ub_cls_mono. apply IHt; assumption.
      + apply bnd_ub_cls; assumption.
    - (* new *)
      simpl in Hz. rewrite used_binders_new. apply bnd_ub_cls; assumption.
    - (* label *)
      apply andb_prop in Hf. destruct Hf as [_ Hf]. simpl in Hz. simpl. destruct Hz as [Hz|Hz].
      + subst z. apply used_binders_mono. left. reflexivity.
      + apply IHt; assumption.
    - simpl in Hz. simpl. apply IHt; assumption.
    - simpl in Hz. simpl. apply IHt; assumption.
    - simpl in Hz. simpl. apply IHt; assumption.
  Qed.
End Binders.

(* ---------- the definitions of the compiled program ---------- *)
Lemma cfind_nodup : forall defs d, NoDup (map cdname defs) -> In d defs ->
  find (fun d' => cident_eqb (cdname d') (cdname d)) defs = Some d.
Proof.
  induction defs as [|d0 r IH]; intros d Hnd Hin; [contradiction|]. simpl.
  simpl in Hnd. inversion Hnd as [|? ? Hnot Hnd']; subst.
  destruct (cident_eqb (cdname d0) (cdname d)) eqn:E.
  - apply cid_eqb_eq in E. destruct Hin as [Hin|Hin]; [subst; reflexivity|].
    exfalso. apply Hnot. rewrite E. apply in_map. exact Hin.
  - destruct Hin as [Hin|Hin]; [subst; rewrite cid_eqb_refl in E; discriminate | apply IH; assumption].
Qed.

(* every source definition is compiled (by compile_main or compile_def) and its group of Core
   definitions is part of the result *)
Lemma compile_defs_groups : forall lg called defs codata ul front back res,
  compile_defs lg called defs codata ul front back = Ok res ->
  (forall d, In d defs -> exists ul1 g ul2,
     (if String.eqb (fdname d) "main" then compile_main_group lg called d codata ul1 else compile_def lg d codata ul1) = Ok (g, ul2) /\
     incl g res) /\
  incl front res /\ incl back res.
Proof.
  intros lg called. induction defs as [|d r IH]; intros codata ul front back res H; simpl in H.
  - injection H as H. subst res. split; [intros d []|]. split.
    + intros x Hx. apply in_or_app. left. exact Hx.
    + intros x Hx. apply in_or_app. right. rewrite rev_append_rev, app_nil_r. apply in_rev in Hx. exact Hx.
  - destruct (String.eqb (fdname d) "main") eqn:E.
    + destruct (compile_main_group lg called d codata ul) as [[g ul']|?] eqn:Em; simpl in H; [|discriminate].
      destruct (IH _ _ _ _ _ H) as [H1 [H2 H3]]. split; [|split].
      * intros d' [Hd|Hd]; [subst d'; rewrite E; exists ul, g, ul'; split; [exact Em|] | apply H1; exact Hd].
        intros x Hx. apply H2. apply in_or_app. left. exact Hx.
      * intros x Hx. apply H2. apply in_or_app. right. exact Hx.
      * exact H3.
    + destruct (compile_def lg d codata ul) as [[g ul']|?] eqn:Em; simpl in H; [|discriminate].
      destruct (IH _ _ _ _ _ H) as [H1 [H2 H3]]. split; [|split].
      * intros d' [Hd|Hd]; [subst d'; rewrite E; exists ul, g, ul'; split; [exact Em|] | apply H1; exact Hd].
        intros x Hx. apply H3. rewrite rev_append_rev. apply in_or_app. left. apply in_rev in Hx. exact Hx.
      * exact H2.
      * intros x Hx. apply H3. rewrite rev_append_rev. apply in_or_app. right. exact Hx.
Qed.

(* the definitions that come first: compile_main of main, or (fix f929eb7, main is called) the entry point
   compiled by compile_main followed by main compiled by compile_def *)
Lemma compile_main_group_inv : forall lg called d codata ul g ul',
  compile_main_group lg called d codata ul = Ok (g, ul') ->
  (called && negb lg = false /\ compile_main lg d codata ul = Ok (g, ul')) \/
  (called && negb lg = true /\
   exists nm e ule m, fresh_name ul "main" = (nm, nm :: ul) /\
     compile_main lg (entry_fdef d nm) codata (nm :: ul) = Ok (e, ule) /\
     compile_def lg d codata ule = Ok (m, ul') /\ g = e ++ m).
Proof.
  intros lg called d codata ul g ul' H. unfold compile_main_group in H.
  destruct (called && negb lg); [right | left; auto]. split; [reflexivity|].
  pose proof (fresh_name_fresh ul "main") as [_ Hsnd].
  destruct (fresh_name ul "main") as [nm ul1] eqn:Efn. simpl in Hsnd. subst ul1.
  destruct (compile_main lg (entry_fdef d nm) codata (nm :: ul)) as [[e ule]|?] eqn:Ee; simpl in H; [|discriminate].
  destruct (compile_def lg d codata ule) as [[m ulm]|?] eqn:Em; simpl in H; [|discriminate].
  injection H as Hg Hul. subst g ul'. exists nm, e, ule, m. auto.
Qed.

(* every definition of the output belongs to a group compiled by compile_main or compile_def (from a source
   definition or from the entry point made of one) *)
Lemma compile_defs_cover : forall lg called defs codata ul front back res,
  compile_defs lg called defs codata ul front back = Ok res ->
  forall x, In x res ->
    In x front \/ In x back \/
    exists d ul1 g ul2,
      (compile_main lg d codata ul1 = Ok (g, ul2) \/ compile_def lg d codata ul1 = Ok (g, ul2)) /\ In x g.
Proof.
  intros lg called. induction defs as [|d r IH]; intros codata ul front back res H x Hx; simpl in H.
  - injection H as H. subst res. apply in_app_or in Hx. destruct Hx as [Hx|Hx]; [left; exact Hx|].
    right. left. rewrite rev_append_rev, app_nil_r in Hx. apply in_rev in Hx. exact Hx.
  - destruct (String.eqb (fdname d) "main") eqn:E.
    + destruct (compile_main_group lg called d codata ul) as [[g ul']|?] eqn:Em; simpl in H; [|discriminate].
      destruct (IH _ _ _ _ _ H x Hx) as [H1|[H1|H1]]; [|right; left; exact H1 | right; right; exact H1].
      apply in_app_or in H1. destruct H1 as [H1|H1]; [|left; exact H1]. right. right.
      destruct (compile_main_group_inv _ _ _ _ _ _ _ Em) as [[_ Hc]|[_ [nm [e [ule [m [_ [He [Hm ->]]]]]]]]].
      * exists d, ul, g, ul'. split; [left; exact Hc | exact H1].
      * apply in_app_or in H1. destruct H1 as [H1|H1].
        -- exists (entry_fdef d nm), (nm :: ul), e, ule. split; [left; exact He | exact H1].
        -- exists d, ule, m, ul'. split; [right; exact Hm | exact H1].
    + destruct (compile_def lg d codata ul) as [[g ul']|?] eqn:Em; simpl in H; [|discriminate].
      destruct (IH _ _ _ _ _ H x Hx) as [H1|[H1|H1]]; [left; exact H1 | | right; right; exact H1].
      rewrite rev_append_rev in H1. apply in_app_or in H1. destruct H1 as [H1|H1]; [|right; left; exact H1].
      right. right. exists d, ul, g, ul'. apply in_rev in H1. split; [right; exact Em | exact H1].
Qed.

Lemma find_def_in : forall p f d, ffind_def p f = Some d -> In d (fcpdefs p) /\ fdname d = f.
Proof.
  intros p f d H. unfold ffind_def in H. apply find_some in H. destruct H as [H1 H2].
  apply String.eqb_eq in H2. auto.
Qed.

Section Prog.
  Variable p : fcprog.
  Variable c : cprog.
  Hypothesis Hcomp : compile_prog p = Ok c.
  Hypothesis Hnd : NoDup (map fdname (fcpdefs p)).
  Hypothesis Hguard : prog_guard p = true.

  Lemma prog_codata : cpcodata c = codata_of p.
  Proof.
    unfold compile_prog, compile_prog_gen in Hcomp.
    destruct (compile_defs false _ (fcpdefs p) _ _ [] []) as [defs|?]; simpl in Hcomp; [|discriminate].
    injection Hcomp as Hc. subst c. reflexivity.
  Qed.

  Lemma prog_defs : exists defs,
    compile_defs false (calls_main_prog p) (fcpdefs p) (codata_of p) (map fdname (fcpdefs p)) [] [] = Ok defs /\ cpdefs c = defs.
  Proof.
    unfold compile_prog, compile_prog_gen in Hcomp. fold (codata_of p) in Hcomp.
    destruct (compile_defs false (calls_main_prog p) (fcpdefs p) (codata_of p) _ [] []) as [defs|?] eqn:E; simpl in Hcomp; [|discriminate].
    injection Hcomp as Hc. subst c. exists defs. auto.
  Qed.

  Lemma prog_find : forall d, In d (cpdefs c) -> cfind_def c (cdname d) = Some d.
  Proof.
    intros d Hd. unfold cfind_def. apply cfind_nodup; [|exact Hd].
    apply (compile_prog_def_names_distinct p c Hcomp Hnd).
  Qed.

  Lemma guard_of : forall d, In d (fcpdefs p) -> def_guard p d = true.
  Proof. intros d Hd. unfold prog_guard in Hguard. rewrite forallb_forall in Hguard. apply Hguard. exact Hd. Qed.

  (* every definition that can be called is compiled by compile_def: all but main, and main too when it is called *)
  Lemma def_group : forall d, In d (fcpdefs p) -> (fdname d <> "main" \/ calls_main_prog p = true) ->
    exists ul1 g ul2, compile_def false d (codata_of p) ul1 = Ok (g, ul2) /\ incl g (cpdefs c).
  Proof.
    intros d Hin Hm. destruct prog_defs as [defs [Hdefs Hcd]].
    destruct (compile_defs_groups _ _ _ _ _ _ _ _ Hdefs) as [Hgroups _].
    destruct (Hgroups d Hin) as [ul1 [g [ul2 [Hc Hincl]]]]. rewrite Hcd.
    destruct (String.eqb (fdname d) "main") eqn:Em.
    - apply String.eqb_eq in Em. destruct Hm as [Hm|Hm]; [contradiction|].
      destruct (compile_main_group_inv _ _ _ _ _ _ _ Hc) as [[Hf _]|[_ [nm [e [ule [m [_ [_ [Hd ->]]]]]]]]].
      + rewrite Hm in Hf. discriminate Hf.
      + exists ule, m, ul2. split; [exact Hd|]. intros x Hx. apply Hincl. apply in_or_app. right. exact Hx.
    - exists ul1, g, ul2. auto.
  Qed.

  Lemma prog_callee : forall f d, ffind_def p f = Some d -> (f <> "main" \/ calls_main_prog p = true) -> callee_ok p c d.
  Proof.
    intros f d Hf Hnm. destruct (find_def_in _ _ _ Hf) as [Hin Hname].
    destruct (def_group d Hin) as [ul1 [g [ul2 [Hc Hincl]]]]; [rewrite Hname; exact Hnm|].
    unfold compile_def in Hc.
    match type of Hc with context [run_def_body ?cd ?dd ?u ?k] =>
      destruct (run_def_body cd dd u k) as [[[a body] st']|?] eqn:Eb end; simpl in Hc; [|discriminate].
    injection Hc as Hg Hul. subst g.
    unfold run_def_body in Eb. destruct (fterm_type (fdbody d)) as [bty|]; [|discriminate].
    apply mbind_inv in Eb. destruct Eb as [a0 [sta [Ha Eb]]].
    apply mbind_inv in Eb. destruct Eb as [body0 [stb [Hwc Eb]]].
    apply mret_inv in Eb. destruct Eb as [E1 E2]. injection E1 as E1 E3. subst a0 body0 stb.
    destruct (fresh_in_vars_inv _ _ _ _ Ha) as [Hfresh [Hused _]]. simpl in Hfresh, Hused.
    pose proof (guard_of d Hin) as Hgd. unfold def_guard in Hgd.
    apply andb_prop in Hgd. destruct Hgd as [Hgd Hkeq]. apply andb_prop in Hgd. destruct Hgd as [Hgd Hkd].
    apply andb_prop in Hgd. destruct Hgd as [Hgd _].
    apply andb_prop in Hgd. destruct Hgd as [Hfr Hws]. apply Bool.eqb_prop in Hkeq.
    exists a, body, sta, st', (compile_ty bty).
    split; [exact Hwc|]. split; [rewrite Hused; left; reflexivity|].
    split; [intros Hb; apply Hfresh; apply (bnd_used_binders p); assumption|].
    split; [intros Hb; apply Hfresh; apply used_binders_mono; exact Hb|].
    split; [intros x Hx; rewrite Hused; right; apply used_binders_mono; exact Hx|].
    split; [intros x Hx; rewrite Hused; right; apply (bnd_used_binders p); assumption|].
    split.
    { intros d' Hd'. apply prog_find. apply Hincl. right. exact Hd'. }
    split.
    { change (new_id (fdname d)) with (cdname (mkcd (new_id (fdname d))
               (compile_ctx (fdctx d) ++ [mkcb (new_id a) CCns (compile_ty (fdret d))]) body)).
      apply prog_find. apply Hincl. left. reflexivity. }
    repeat split; assumption.
  Qed.
End Prog.

(* ---------- the entry point of a program that calls main (fix f929eb7):
   def main<n>(params) { main(params, mu~x. exit x) } ---------- *)
Lemma nodup_str_nd0 : forall l, nodup_str l = true -> NoDup l.
Proof.
  induction l as [|x r IH]; simpl; intros H; constructor.
  - apply andb_prop in H. destruct H as [H _]. apply negb_true_iff in H. apply mem_false_not_In. exact H.
  - apply IH. apply andb_prop in H. tauto.
Qed.
Definition entry_args (ctx : fctx) : list fterm := map (fun b => FVar (fbvar b) (Some (fbty b)) (Some (fbchi b))) ctx.

Lemma entry_args_compile : forall codata cur ctx st l st',
  subst_with (fun y => cmp codata cur false y) (entry_args ctx) st = Ok (l, st') ->
  l = map arg_of_binding (compile_ctx ctx) /\ st' = st.
Proof.
  intros codata cur. induction ctx as [|b r IH]; intros st l st' H.
  - simpl in H. apply mret_inv in H. destruct H; subst. auto.
  - unfold entry_args in H. cbn [map] in H. fold (entry_args r) in H.
    apply subst_with_cons_inv in H. destruct H as [a [st1 [rest [Ha [Hr ->]]]]].
    destruct b as [v chi ty]. cbn [fbvar fbty fbchi] in Ha.
    apply compile_arg_inv in Ha. destruct Ha as [[v0 [ty1 [ty0 [Ey [Ety [-> ->]]]]]]|[Hn [ty0 [c0 [Ety [Ec ->]]]]]].
    + injection Ey as E1 E2 E3. subst v0 ty1 chi. injection Ety as <-.
      destruct (IH _ _ _ Hr) as [-> ->]. split; reflexivity.
    + destruct chi; [|contradiction]. simpl in Ety. injection Ety as <-.
      rewrite cmp_unfold in Ec. apply cmp_var_inv in Ec. destruct Ec as [ty1 [E1 [-> ->]]]. injection E1 as <-.
      destruct (IH _ _ _ Hr) as [-> ->]. split; reflexivity.
Qed.

Lemma lookups_cons_notin : forall x v ce bs, ~ In x (cvars bs) -> lookups ((x, v) :: ce) bs = lookups ce bs.
Proof.
  intros x v ce bs H. unfold lookups. apply map_ext_in. intros bb Hbb. rewrite clookup_cons.
  assert (E : cident_eqb x (cbvar bb) = false).
  { apply cid_eqb_neq. intros Ex. apply H. rewrite Ex. unfold cvars. apply in_map. exact Hbb. }
  rewrite E. reflexivity.
Qed.
Lemma cbind_lookups_nodup : forall bs vs ce, NoDup (cvars bs) -> cbind (cvars bs) vs [] = Some ce -> lookups ce bs = vs.
Proof.
  induction bs as [|bb r IH]; intros vs ce Hnd H; destruct vs as [|v vr]; simpl in H; try discriminate.
  - reflexivity.
  - unfold cvars in *. simpl in *. destruct (cbind (map cbvar r) vr []) as [e0|] eqn:E; [|discriminate].
    injection H as <-. inversion Hnd as [|? ? Hn Hr]; subst. unfold lookups. cbn [map].
    rewrite clookup_cons, cid_eqb_refl. f_equal. fold (lookups ((cbvar bb, v) :: e0) r).
    rewrite lookups_cons_notin; [apply IH; assumption | exact Hn].
Qed.
Lemma chi_kind_list_refl : forall l, list_eqb chi_kind_eqb l l = true.
Proof.
  induction l as [|[c k] r IH]; simpl; [reflexivity|]. rewrite IH, andb_true_r. unfold chi_kind_eqb. simpl.
  rewrite Bool.eqb_reflx, andb_true_r. destruct c; reflexivity.
Qed.

(* ---------- the entry continuation of main: mu~ x. exit x ---------- *)
Lemma exit_cont_fvt : forall x ty bb, ~ In bb (fvt (CMu CCns (new_id x) (CExit (CXVar CPrd (new_id x) ty) ty) ty)).
Proof.
  intros x ty bb H. apply fvt_mu_iff in H. destruct H as [H Hne]. apply fvs_exit in H. apply fvt_var in H.
  apply Hne. subst bb. reflexivity.
Qed.

Lemma forallb_prd_eq : forall ctx,
  forallb (fun b => match fbchi b with FPrd => true | FCns => false end) ctx =
  forallb (fun b => fchi_eqb (fbchi b) FPrd) ctx.
Proof. induction ctx as [|b r IH]; simpl; [reflexivity|]. rewrite IH. destruct (fbchi b); reflexivity. Qed.

(* Semantic preservation of fun2core for the fragment [frag] (everything except codata and calls of
   main), under the scope check [ws] - and, since the repair d5d4151 of the translation, WITHOUT any
   capture guard: shadowing binders are allowed -: every source run that ends in a
   final outcome (normal exit or undefined arithmetic) is reproduced, output and outcome, by the Core
   machine on the translated program.  Any number of definitions, recursion, non-tail conditionals
   and cases (shared continuations), data types, labels and goto. *)
Theorem fun2core_correct_fragment_lemma : forall (p : fcprog) (c : cprog) (args : list Z) (n : nat) (o : obs),
  compile_prog p = Ok c ->
  NoDup (map fdname (fcpdefs p)) ->
  prog_guard p = true ->
  run_fun n p args = o -> final o ->
  exists m, run_core m c args = o.
Proof.
  intros p c args n o Hcomp Hnd Hguard Hrun Hfin.
  pose proof (prog_codata p c Hcomp) as Hcod.
  pose proof (prog_callee p c Hcomp Hnd Hguard) as Hcallee.
  unfold run_fun in Hrun.
  destruct (ffind_def p "main") as [d|] eqn:Ed; [|subst o; contradiction Hfin].
  destruct (find_def_in _ _ _ Ed) as [Hin Hname].
  destruct (prog_defs p c Hcomp) as [defs [Hdefs Hcd]].
  destruct (compile_defs_main_head _ _ _ _ _ _ _ _ _ Hdefs Hnd Hin Hname) as [ul1 [g [ul2 [tl [Hm Hres]]]]].
  simpl in Hres. rewrite Hres in Hcd.
  (* what the guard says about main *)
  pose proof (guard_of p Hguard d Hin) as Hgd. unfold def_guard in Hgd.
  assert (Em : String.eqb (fdname d) "main" = true) by (apply String.eqb_eq; exact Hname).
  rewrite Em in Hgd.
  apply andb_prop in Hgd. destruct Hgd as [Hgd Hkeq]. apply andb_prop in Hgd. destruct Hgd as [Hgd Hkd].
  apply andb_prop in Hgd. destruct Hgd as [Hgd Hdt]. apply andb_prop in Hdt. destruct Hdt as [Hdt Hndp].
  apply andb_prop in Hdt. destruct Hdt as [Hdt Hctxd].
  apply andb_prop in Hgd. destruct Hgd as [Hfr Hws].
  destruct (compile_main_group_inv _ _ _ _ _ _ _ Hm) as [[Hcalled Hm']|[Hcalled [nm [e [ule [mg [Hfn [He [Hmd Eg]]]]]]]]].
  { (* main is not called: main itself is the entry point, its continuation is mu~x. exit x *)
    clear Hm. rename Hm' into Hm. unfold compile_main in Hm.
    match type of Hm with context [run_def_body ?cd ?dd ?u ?k] =>
      destruct (run_def_body cd dd u k) as [[body st']|?] eqn:Eb end; simpl in Hm; [|discriminate].
    injection Hm as Hg Hul. subst g.
    unfold run_def_body in Eb. destruct (fterm_type (fdbody d)) as [bty|] eqn:Ebty; [|discriminate].
    apply mbind_inv in Eb. destruct Eb as [x0 [stx [Hx Hwc]]].
    destruct (fresh_in_vars_inv _ _ _ _ Hx) as [Hfresh [Hused _]]. simpl in Hfresh, Hused.
    assert (Hkmain : tkind p (fdbody d) = false).
    { unfold tkind. rewrite Ebty. simpl. unfold data_ty in Hdt. apply negb_true_iff in Hdt. exact Hdt. }
    unfold run_core. rewrite Hcd. simpl.
    unfold fentry_env in Hrun. unfold centry_env. simpl. rewrite entry_chi.
    destruct (forallb (fun b => match fbchi b with FPrd => true | FCns => false end) (fdctx d)) eqn:Eprd;
      [|exists 0%nat; exact Hrun].
    destruct (fbind (fvars (fdctx d)) (map (fun z => FbP (FvInt z)) args) []) as [e1|] eqn:Ebind;
      [|subst o; contradiction Hfin].
    rewrite forallb_prd_eq in Eprd.
    assert (Hdf : Forall dfield (map (fun z => FbP (FvInt z)) args)).
    { apply Forall_forall. intros b Hb. apply in_map_iff in Hb. destruct Hb as [z [E _]]. subst b. exact I. }
    destruct (kinds_of_fields p c Hcod (fdctx d) _ _ _ Hdf Hctxd Ebind) as [Hk1 Hk2].
    set (cont := CMu CCns (new_id x0) (CExit (CXVar CPrd (new_id x0) (compile_ty bty)) (compile_ty bty)) (compile_ty bty)) in *.
    destruct (erel_binds p c n [] (fdctx d) (Sof (fvs body)) (fun _ => True)
                (map (fun z => FbP (FvInt z)) args) (map (fun z => BP (PInt z)) args) [] [] e1) as [ce1 [Hcb [Hr _]]].
    - clear. induction args as [|z r IH]; simpl; constructor; [reflexivity | exact IH].
    - exact Hk2.
    - exact Hk1.
    - exact Ebind.
    - intros bb Hgl. simpl in Hgl. discriminate.
    - intros x _ _. exact I.
    - rewrite Hcb. rewrite app_nil_r in Hr.
      assert (Hsim : sim p c n (FEval (fdbody d) e1 FkHalt) (SNext (Run body ce1))).
      { apply (proj1 (fl_all p c Hcod Hcallee n (fdbody d)) n (Nat.le_refl n) (compile_ctx (fdctx d)) (fdname d) cont stx body st'
                 e1 ce1 FkHalt Hwc Hfr Hkd Hws).
        - intros d' Hd'. apply (prog_find p c Hcomp Hnd). rewrite Hcd. apply in_or_app. left. right. exact Hd'.
        - intros bb Hb. unfold compile_ctx in Hb. apply in_map_iff in Hb. destruct Hb as [b0 [E Hb0]]. subst bb.
          exists (fbvar b0). split; [reflexivity|]. rewrite Hused. right. apply used_binders_mono. unfold fvars. apply in_map. exact Hb0.
        - intros y Hy. rewrite Hused. right. apply (bnd_used_binders p); assumption.
        - intros y Hy. apply in_cnames_inv in Hy. destruct Hy as [bb [Hb _]]. exfalso. exact (exit_cont_fvt _ _ _ Hb).
        - rewrite Hkmain. unfold cont. simpl. split; [reflexivity|]. split; [reflexivity|]. split.
          + rewrite (is_codata_compile p c Hcod). unfold data_ty in Hdt. apply negb_true_iff in Hdt. exact Hdt.
          + intros Hy. apply in_cnames_inv in Hy. destruct Hy as [bb [Hb _]]. exact (exit_cont_fvt _ _ _ Hb).
        - exact Hr.
        - rewrite Hkmain. split.
          + intros bb Hb _. exfalso. exact (exit_cont_fvt _ _ _ Hb).
          + intros _. unfold cont. simpl. intros j Hj v pv Hd Hv env Ha.
            destruct j as [|j1]; [apply sim_zero|].
            destruct v as [z|tag fields|cls0 e0|t0 e0]; try contradiction;
              [|eapply sim_stuck; reflexivity].
            apply vrel_int in Hv. subst pv.
            apply sim_cstep. simpl. apply sim_cstep. simpl.
            rewrite (Ha (new_id x0)); [|simpl; left; reflexivity].
            rewrite clookup_cons, cid_eqb_refl. apply sim_cstep. simpl.
            assert (Hs : fstep p (FRet FkHalt (FvInt z)) = FHalt (OExit z)) by reflexivity.
            exact (sim_halt p c j1 _ _ Hs). }
      destruct (Hsim [] o Hrun Hfin) as [m Hm]. exists m. exact Hm.
  }
  (* main is called: the entry point calls main with the exit continuation *)
    simpl in Hcalled. rewrite andb_true_r in Hcalled. subst g.
    rewrite Hcalled in Hndp. simpl in Hndp.
    unfold compile_main in He.
    match type of He with context [run_def_body ?cd ?dd ?u ?k] =>
      destruct (run_def_body cd dd u k) as [[body st']|?] eqn:Eb end; simpl in He; [|discriminate].
    injection He as Hg Hul. subst e.
    unfold run_def_body in Eb. cbn [entry_fdef fdbody fterm_type fdctx fdname] in Eb.
    apply mbind_inv in Eb. destruct Eb as [x0 [stx [Hx Hwc]]].
    rewrite wc_unfold in Hwc. apply wc_call_inv in Hwc. destruct Hwc as [args' [ret0 [Hargs [Eret Es]]]].
    injection Eret as <-. subst body. fold (entry_args (fdctx d)) in Hargs.
    destruct (entry_args_compile _ _ _ _ _ _ Hargs) as [-> ->].
    assert (Hdt' : f_is_codata p (fdret d) = false).
    { apply Bool.eqb_prop in Hkeq. rewrite <- Hkeq. unfold tkind. unfold data_ty in Hdt.
      destruct (fterm_type (fdbody d)) as [bty|]; [|reflexivity]. simpl. apply negb_true_iff in Hdt. exact Hdt. }
    set (cont := CMu CCns (new_id x0) (CExit (CXVar CPrd (new_id x0) (compile_ty (fdret d))) (compile_ty (fdret d))) (compile_ty (fdret d))) in *.
    unfold run_core. rewrite Hcd. simpl.
    unfold fentry_env in Hrun. unfold centry_env. simpl. rewrite entry_chi.
    destruct (forallb (fun b => match fbchi b with FPrd => true | FCns => false end) (fdctx d)) eqn:Eprd;
      [|exists 0%nat; exact Hrun].
    destruct (fbind (fvars (fdctx d)) (map (fun z => FbP (FvInt z)) args) []) as [e1|] eqn:Ebind;
      [|subst o; contradiction Hfin].
    assert (Hdf : Forall dfield (map (fun z => FbP (FvInt z)) args)).
    { apply Forall_forall. intros b Hb. apply in_map_iff in Hb. destruct Hb as [z [E _]]. subst b. exact I. }
    destruct (kinds_of_fields p c Hcod (fdctx d) _ _ _ Hdf Hctxd Ebind) as [Hk1 Hk2].
    assert (Hrel : Forall2 (brel p c (S n)) (map (fun z => FbP (FvInt z)) args) (map (fun z => BP (PInt z)) args)).
    { clear. induction args as [|z r IH]; simpl; constructor; [reflexivity | exact IH]. }
    destruct (erel_binds p c n [] (fdctx d) (fun _ => True) (fun _ => True)
                (map (fun z => FbP (FvInt z)) args) (map (fun z => BP (PInt z)) args) [] [] e1) as [ce1 [Hcb _]].
    { eapply brels_mono; [exact Hrel | lia]. }
    { exact Hk2. }
    { exact Hk1. }
    { exact Ebind. }
    { intros bb Hgl. simpl in Hgl. discriminate. }
    { intros x _ _. exact I. }
    rewrite Hcb.
    (* the parameters, looked up by name, are the entry values *)
    assert (Hndc : NoDup (cvars (compile_ctx (fdctx d)))).
    { unfold cvars, compile_ctx. rewrite map_map. change (fun x => cbvar (compile_binding x)) with (fun x => new_id (fbvar x)).
      rewrite <- (map_map fbvar new_id). apply FinFun.Injective_map_NoDup; [intros a b; apply new_id_inj|].
      apply nodup_str_nd0. exact Hndp. }
    pose proof (cbind_lookups_nodup _ _ _ Hndc Hcb) as Hlk.
    assert (Hvs : Forall (fun v => ckind v = CPrd) (map (fun z => BP (PInt z)) args)).
    { apply Forall_forall. intros v Hv. apply in_map_iff in Hv. destruct Hv as [z [<- _]]. reflexivity. }
    assert (Hprd : forall b0, In b0 (fdctx d) -> fbchi b0 = FPrd /\ f_is_codata p (fbty b0) = false).
    { intros b0 Hb0. unfold ctx_data in Hctxd. rewrite forallb_forall in Hctxd. specialize (Hctxd b0 Hb0).
      apply andb_prop in Hctxd. destruct Hctxd as [Hc1 Hc2]. apply negb_true_iff in Hc2.
      split; [destruct (fbchi b0); [reflexivity | discriminate] | exact Hc2]. }
    assert (Hkinds : forall bb, In bb (compile_ctx (fdctx d)) ->
              exists b', clookup ce1 (cbvar bb) = Some b' /\ ckind b' = cbchi bb).
    { intros bb Hbb.
      assert (Hall : forall (bs : list cbinding) vs ce, Forall (fun v => ckind v = CPrd) vs ->
                cbind (cvars bs) vs [] = Some ce ->
                forall bb, In bb bs -> exists b', clookup ce (cbvar bb) = Some b' /\ ckind b' = CPrd).
      { clear. induction bs as [|b0 r IH]; intros vs ce Hv Hcb bb Hbb; [contradiction|].
        destruct vs as [|v vr]; simpl in Hcb; [discriminate|]. unfold cvars in *. simpl in Hcb.
        destruct (cbind (map cbvar r) vr []) as [e0|] eqn:E; [|discriminate]. injection Hcb as <-.
        inversion Hv as [|? ? Hv1 Hv2]; subst. rewrite clookup_cons.
        destruct (cident_eqb (cbvar b0) (cbvar bb)) eqn:Eq; [exists v; auto|].
        destruct Hbb as [Hbb|Hbb]; [subst bb; rewrite cid_eqb_refl in Eq; discriminate|].
        exact (IH vr e0 Hv2 E bb Hbb). }
      destruct (Hall _ _ _ Hvs Hcb bb Hbb) as [b' [E1 E2]]. exists b'. split; [exact E1|]. rewrite E2.
      unfold compile_ctx in Hbb. apply in_map_iff in Hbb. destruct Hbb as [b0 [<- Hb0]]. simpl.
      rewrite (proj1 (Hprd b0 Hb0)). reflexivity. }
    assert (Hsim : sim p c n (FEval (fdbody d) e1 FkHalt)
              (SNext (Run (CCall (new_id "main") (map arg_of_binding (compile_ctx (fdctx d)) ++ [CConsumer cont]) (compile_ty (fdret d))) ce1))).
    { apply (sim_fstep_inv p c n (FArgs (rev_append (map (fun z => FbP (FvInt z)) args) []) [] e1 (AfCall "main") FkHalt)).
      { simpl. rewrite rev_append_nil_twice, Ed, Ebind. reflexivity. }
      apply sim_cstep. simpl. rewrite start_args_eq.
      eapply sim_rreach; [|apply (bind_args_run_tail c (compile_ctx (fdctx d)) ce1 _ [] [CConsumer cont] Hkinds)].
      rewrite Hlk.
      apply (call_finish p c Hcod Hcallee (S n) (fun N' _ t => proj1 (fl_all p c Hcod Hcallee N' t)) (S n) (le_n _)
               "main" (entry_args (fdctx d)) (Some (fdret d)) e1 ce1 FkHalt cont
               (map (fun z => FbP (FvInt z)) args) (map (fun z => BP (PInt z)) args)).
      - right. exact Hcalled.
      - unfold call_kinds. rewrite Ed.
        assert (Emap : map (fun y => (arg_chi y, tkind p y)) (entry_args (fdctx d)) =
                       map (fun b => (fbchi b, f_is_codata p (fbty b))) (fdctx d)).
        { unfold entry_args. rewrite map_map. apply map_ext. intros b. unfold tkind. simpl. destruct (fbchi b); reflexivity. }
        rewrite Emap, chi_kind_list_refl. simpl. apply Bool.eqb_reflx.
      - exact Hrel.
      - unfold entry_args. clear -Hk2 Hdf Hprd.
        revert Hdf Hprd. induction Hk2 as [|v b0 vr br Hv Hr IH]; intros Hdf Hprd; [constructor|].
        inversion Hdf as [|? ? Hd1 Hd2]; subst. cbn [map]. constructor.
        + destruct (Hprd b0 (or_introl eq_refl)) as [Hc1 Hc2]. rewrite Hc1. split; [|destruct v; [reflexivity | contradiction]].
          unfold okb, tkind. simpl. rewrite Hc2. destruct v as [v0|k0]; [exact Hd1 | contradiction].
        + apply IH; [exact Hd2 | intros b1 Hb1; apply Hprd; right; exact Hb1].
      - change (f_is_codata_o p (Some (fdret d))) with (f_is_codata p (fdret d)). rewrite Hdt'. unfold cont. simpl. split; [reflexivity|]. split; [reflexivity|]. split.
        + rewrite (is_codata_compile p c Hcod). exact Hdt'.
        + intros Hy. apply in_cnames_inv in Hy. destruct Hy as [bb [Hb _]]. exact (exit_cont_fvt _ _ _ Hb).
      - change (f_is_codata_o p (Some (fdret d))) with (f_is_codata p (fdret d)). rewrite Hdt'. unfold cont. simpl. intros j Hj v pv Hd Hv env Ha.
        destruct j as [|j1]; [apply sim_zero|].
        destruct v as [z|tag fields|cls0 e0|t0 e0]; try contradiction;
          [|eapply sim_stuck; reflexivity].
        apply vrel_int in Hv. subst pv.
        apply sim_cstep. simpl. apply sim_cstep. simpl.
        rewrite (Ha (new_id x0)); [|simpl; left; reflexivity].
        rewrite clookup_cons, cid_eqb_refl. apply sim_cstep. simpl.
        assert (Hs : fstep p (FRet FkHalt (FvInt z)) = FHalt (OExit z)) by reflexivity.
        exact (sim_halt p c j1 _ _ Hs). }
    destruct (Hsim [] o Hrun Hfin) as [m Hm0]. exists m. rewrite Hname. exact Hm0.
Qed.
