(* ======================================================================================
   Proof/Fun2CoreProg  -  program level: what compile_prog puts into the Core program for every
   source definition (the definition itself under its own name, its lifted continuations under
   their generated labels, all names distinct), and the preservation theorem for the fragment.
   ====================================================================================== *)
From Coq Require Import List ZArith NArith String Bool Lia.
From SCC Require Import Base.Sexp Lang.SynUtil Lang.FunSyn Lang.FunTy Lang.CoreSyn.
From SCC Require Import Sem.AxSem Sem.CoreSem Sem.FunSem Model.Fun2Core.
From SCC Require Import Proof.Fun2CoreProof Proof.Fun2CoreSim Proof.Fun2CoreTfv Proof.Fun2CoreInv Proof.Fun2CoreUB
     Proof.Fun2CoreRel Proof.Fun2CoreFLa Proof.Fun2CoreFLb Proof.Fun2CoreFLc Proof.Fun2CoreFLd Proof.Fun2CoreFLe
     Proof.Fun2CoreFLf Proof.Fun2CoreFLg Proof.Fun2CoreFLh.
Import ListNotations.
Open Scope string_scope.
Open Scope list_scope.

(* ---------- used_binders: the accumulator only grows, and contains the binders ---------- *)
Definition ub_terms (l : list fterm) (acc : list string) : list string :=
  fold_left (fun acc y => used_binders y acc) l acc.
Definition ub_cls (l : list fclause) (acc : list string) : list string :=
  fold_left (fun acc c => match c with FClause _ _ names _ body => used_binders body (rev_append names acc) end) l acc.

Lemma used_binders_call : forall f args r acc, used_binders (FCall f args r) acc = ub_terms args acc.
Proof. intros f args r. unfold ub_terms. simpl. induction args as [|y l IH]; intros acc; simpl; [reflexivity | apply IH]. Qed.
Lemma used_binders_ctor : forall f args r acc, used_binders (FCtor f args r) acc = ub_terms args acc.
Proof. intros f args r. unfold ub_terms. simpl. induction args as [|y l IH]; intros acc; simpl; [reflexivity | apply IH]. Qed.
Lemma used_binders_dtor : forall s x ta args r acc, used_binders (FDtor s x ta args r) acc = ub_terms args (used_binders s acc).
Proof.
  intros s x ta args r acc. unfold ub_terms. simpl. generalize (used_binders s acc).
  induction args as [|y l IH]; intros a; simpl; [reflexivity | apply IH].
Qed.
Lemma used_binders_case : forall s ta cls r acc, used_binders (FCase s ta cls r) acc = ub_cls cls (used_binders s acc).
Proof.
  intros s ta cls r acc. unfold ub_cls. simpl. generalize (used_binders s acc).
  induction cls as [|[pl x names ctx body] l IH]; intros a; simpl; [reflexivity | apply IH].
Qed.
Lemma used_binders_new : forall cls r acc, used_binders (FNew cls r) acc = ub_cls cls acc.
Proof.
  intros cls r. unfold ub_cls. simpl.
  induction cls as [|[pl x names ctx body] l IH]; intros a; simpl; [reflexivity | apply IH].
Qed.

Lemma used_binders_mono : forall t acc x, In x acc -> In x (used_binders t acc).
Proof.
  induction t using fterm_ind'; intros acc z Hz; try (simpl; auto; fail).
  - simpl. destruct b as [b'|]; simpl in H; auto.
  - simpl. apply IHt2. apply IHt1. right. exact Hz.
  - rewrite used_binders_call. unfold ub_terms. revert acc Hz. induction H as [|y l Hy Hl IH]; intros acc Hz; simpl; auto.
  - rewrite used_binders_ctor. unfold ub_terms. revert acc Hz. induction H as [|y l Hy Hl IH]; intros acc Hz; simpl; auto.
  - rewrite used_binders_dtor. unfold ub_terms. apply IHt with (acc := acc) in Hz. revert Hz. generalize (used_binders t acc).
    induction H as [|y l Hy Hl IH]; intros a Hz; simpl; auto.
  - rewrite used_binders_case. unfold ub_cls. apply IHt with (acc := acc) in Hz. revert Hz. generalize (used_binders t acc).
    induction H as [|[pl x0 names ctx body] l Hy Hl IH]; intros a Hz; simpl; [exact Hz|].
    apply IH. simpl in Hy. apply Hy. rewrite rev_append_rev. apply in_or_app. right. exact Hz.
  - rewrite used_binders_new. unfold ub_cls. revert acc Hz.
    induction H as [|[pl x0 names ctx body] l Hy Hl IH]; intros a Hz; simpl; [exact Hz|].
    apply IH. simpl in Hy. apply Hy. rewrite rev_append_rev. apply in_or_app. right. exact Hz.
  - simpl. apply IHt. right. exact Hz.
Qed.

Lemma ub_terms_mono : forall l acc x, In x acc -> In x (ub_terms l acc).
Proof. unfold ub_terms. induction l as [|y r IH]; intros acc x Hx; simpl; [exact Hx | apply IH; apply used_binders_mono; exact Hx]. Qed.
Lemma ub_cls_mono : forall l acc x, In x acc -> In x (ub_cls l acc).
Proof.
  unfold ub_cls. induction l as [|[pl x0 names ctx body] r IH]; intros acc x Hx; simpl; [exact Hx|].
  apply IH. apply used_binders_mono. rewrite rev_append_rev. apply in_or_app. right. exact Hx.
Qed.

Section Binders.
  Variable p : fcprog.
  Lemma bnd_used_binders : forall t acc x, frag p t = true -> In x (bnd t) -> In x (used_binders t acc).
  Proof.
    induction t using fterm_ind'; intros acc z Hf Hz; simpl in Hf; try discriminate; try (simpl in Hz; contradiction).
    - simpl in Hz. apply andb_prop in Hf. destruct Hf as [Hf1 Hf2]. simpl. apply in_app_or in Hz. destruct Hz as [Hz|Hz].
      + apply used_binders_mono. apply IHt1; assumption.
      + apply IHt2; assumption.
    - apply andb_prop in Hf. destruct Hf as [Hf Hf3]. apply andb_prop in Hf. destruct Hf as [Hf Hf2].
      apply andb_prop in Hf. destruct Hf as [Hf1 Hfb]. simpl in Hz. simpl.
      apply in_app_or in Hz. destruct Hz as [Hz|Hz].
      { apply used_binders_mono. apply used_binders_mono. destruct b as [b'|]; [apply used_binders_mono|]; apply IHt1; assumption. }
      apply in_app_or in Hz. destruct Hz as [Hz|Hz].
      { apply used_binders_mono. apply used_binders_mono. destruct b as [b'|]; [|contradiction]. simpl in H. apply H; assumption. }
      apply in_app_or in Hz. destruct Hz as [Hz|Hz].
      { apply used_binders_mono. apply IHt2; assumption. }
      apply IHt3; assumption.
    - apply andb_prop in Hf. destruct Hf as [Hf1 Hf2]. simpl in Hz. simpl. apply in_app_or in Hz. destruct Hz as [Hz|Hz].
      + apply used_binders_mono. apply IHt1; assumption.
      + apply IHt2; assumption.
    - apply andb_prop in Hf. destruct Hf as [Hf Hf2]. apply andb_prop in Hf. destruct Hf as [_ Hf1].
      simpl in Hz. simpl. destruct Hz as [Hz|Hz].
      + subst z. apply used_binders_mono. apply used_binders_mono. left. reflexivity.
      + apply in_app_or in Hz. destruct Hz as [Hz|Hz].
        * apply used_binders_mono. apply IHt1; assumption.
        * apply IHt2; assumption.
    - (* call *)
      apply andb_prop in Hf. destruct Hf as [_ Hf]. simpl in Hz. rewrite used_binders_call.
      revert acc. induction H as [|y l Hy Hl IH]; intros acc; simpl in Hz; [contradiction|].
      simpl in Hf. apply andb_prop in Hf. destruct Hf as [Hfy Hfl].
      unfold ub_terms. simpl. fold (ub_terms l (used_binders y acc)).
      apply in_app_or in Hz. destruct Hz as [Hz|Hz].
      + apply ub_terms_mono. destruct y; try (apply andb_prop in Hfy; destruct Hfy as [Hfy _]; apply Hy; assumption).
        simpl in Hz. contradiction.
      + apply IH; assumption.
    - (* ctor *)
      apply andb_prop in Hf. destruct Hf as [_ Hf]. simpl in Hz. rewrite used_binders_ctor.
      revert acc. induction H as [|y l Hy Hl IH]; intros acc; simpl in Hz; [contradiction|].
      simpl in Hf. apply andb_prop in Hf. destruct Hf as [Hfy Hfl].
      unfold ub_terms. simpl. fold (ub_terms l (used_binders y acc)).
      apply in_app_or in Hz. destruct Hz as [Hz|Hz].
      + apply ub_terms_mono. destruct y; try (apply andb_prop in Hfy; destruct Hfy as [Hfy _]; apply Hy; assumption).
        simpl in Hz. contradiction.
      + apply IH; assumption.
    - (* case *)
      apply andb_prop in Hf. destruct Hf as [Hf Hfc]. apply andb_prop in Hf. destruct Hf as [Hfs _].
      simpl in Hz. rewrite used_binders_case. apply in_app_or in Hz. destruct Hz as [Hz|Hz].
      + apply ub_cls_mono. apply IHt; assumption.
      + generalize (used_binders t acc). induction H as [|[pl x0 names ctx body] l Hy Hl IH]; intros a; simpl in Hz; [contradiction|].
        simpl in Hfc. apply andb_prop in Hfc. destruct Hfc as [Hfy Hfl].
        apply andb_prop in Hfy. destruct Hfy as [Hfy Hfb]. apply andb_prop in Hfy. destruct Hfy as [Hnames _].
        apply str_list_eqb_eq in Hnames. subst names.
        unfold ub_cls. simpl. fold (ub_cls l (used_binders body (rev_append (fvars ctx) a))).
        apply in_app_or in Hz. destruct Hz as [Hz|Hz].
        * apply ub_cls_mono. apply in_app_or in Hz. destruct Hz as [Hz|Hz].
          -- apply used_binders_mono. rewrite rev_append_rev. apply in_or_app. left. apply in_rev in Hz. exact Hz.
          -- simpl in Hy. apply Hy; assumption.
        * apply IH; assumption.
    - (* label *)
      apply andb_prop in Hf. destruct Hf as [_ Hf]. simpl in Hz. simpl. destruct Hz as [Hz|Hz].
      + subst z. apply used_binders_mono. left. reflexivity.
      + apply IHt; assumption.
    - simpl in Hz. simpl. apply IHt; assumption.
    - simpl in Hz. simpl. apply IHt; assumption.
    - simpl in Hz. simpl. apply IHt; assumption.
  Qed.
End Binders.
