(* From the global facts proved about the output (binder ids pairwise distinct, non-zero ids in
   scope) to the path-wise boolean checkers of Model/FocusCheck.v. *)
From Coq Require Import List ZArith NArith String Bool Lia.
From SCC Require Import Base.Sexp Lang.CoreSyn Model.Backend Model.Uniquify Model.Focus Model.FocusCheck
     Proof.CoreInd Proof.SubstProof Proof.CheckLemmas Proof.FocusLemmas.
Import ListNotations.
Open Scope list_scope.
Open Scope N_scope.

(* ---------- binders are below the id bound ---------- *)
Lemma mem_le_flat_map : forall (X : Type) (f : X -> list N) b l,
  (forall x, In x l -> mem_le b (f x)) -> mem_le b (flat_map f l).
Proof.
  intros X f b l H i Hi. apply in_flat_map in Hi. destruct Hi as (x & Hx & Hi). eapply H; eauto.
Qed.

Lemma binders_le_all : forall b,
  (forall t, ids_le_term b t = true -> mem_le b (binder_ids_term t)) /\
  (forall a, ids_le_arg b a = true -> mem_le b (binder_ids_arg a)) /\
  (forall c, ids_le_clause b c = true -> mem_le b (binder_ids_clause c)) /\
  (forall s, ids_le_stmt b s = true -> mem_le b (binder_ids_stmt s)).
Proof.
  intros b. apply core_mutind; simpl; intros; bsplit; try apply mem_le_nil;
    repeat (apply mem_le_app; split); auto.
  - apply mem_le_cons; split; auto. apply N.leb_le; auto.
  - apply mem_le_flat_map. rewrite Forall_forall in H. rewrite forallb_forall in H0. auto.
  - apply mem_le_flat_map. rewrite Forall_forall in H. rewrite forallb_forall in H0. auto.
  - apply forallb_leb; auto.
  - destruct b0; simpl in *; auto. apply mem_le_nil.
  - apply mem_le_flat_map. rewrite Forall_forall in H. rewrite forallb_forall in H0. auto.
Qed.
Definition binders_le_stmt b := proj2 (proj2 (proj2 (binders_le_all b))).

(* ---------- NoDup of a flat_map ---------- *)
Lemma NoDup_flat_map_in : forall (X Y : Type) (f : X -> list Y) l x,
  NoDup (flat_map f l) -> In x l -> NoDup (f x).
Proof.
  induction l as [|y l IH]; simpl; intros x ND Hx; [tauto|].
  apply NoDup_app_iff in ND. destruct ND as (A & B & _). destruct Hx; subst; auto.
Qed.

(* ---------- path_uniq_ctx ---------- *)
Lemma path_uniq_ctx_spec : forall ids seen,
  NoDup ids -> (forall x, In x seen -> In x ids -> False) ->
  exists seen', path_uniq_ctx seen ids = Some seen' /\ (forall x, In x seen' <-> In x seen \/ In x ids).
Proof.
  induction ids as [|i r IH]; intros seen ND D; simpl.
  - exists seen; split; auto. intros; tauto.
  - inversion ND as [|? ? Ni NDr]; subst.
    destruct (memN i seen) eqn:M.
    + apply memN_In in M. exfalso; eapply D; eauto. left; auto.
    + apply memN_false in M.
      destruct (IH (i :: seen)) as (seen' & E & Q); auto.
      { intros x [Hx|Hx] Hr; [subst; auto | eapply D; eauto; right; auto]. }
      exists seen'; split; auto. intros x. rewrite Q. simpl. tauto.
Qed.

(* ---------- focused syntax: distinct binders => distinct along every path ---------- *)
Lemma fs_path_uniq_all :
  (forall t seen, NoDup (fs_binder_ids_term t) -> (forall x, In x seen -> In x (fs_binder_ids_term t) -> False) ->
     path_uniq_term seen t = true) /\
  (forall c seen, NoDup (fs_binder_ids_clause c) -> (forall x, In x seen -> In x (fs_binder_ids_clause c) -> False) ->
     path_uniq_clause seen c = true) /\
  (forall s seen, NoDup (fs_binder_ids_stmt s) -> (forall x, In x seen -> In x (fs_binder_ids_stmt s) -> False) ->
     path_uniq_stmt seen s = true).
Proof.
  apply fs_mutind; simpl; intros; auto.
  - (* Mu *)
    inversion H0 as [|? ? Ni ND]; subst. bsplit.
    + apply negb_true_iff. apply memN_false. intro Hs. eapply H1; eauto.
    + apply H; auto. intros y [Hx|Hx] Hb; [subst; auto | eapply H1; eauto].
  - (* XCase *)
    apply forallb_forall. intros cl Hcl. rewrite Forall_forall in H. apply H; auto.
    + eapply NoDup_flat_map_in; eauto.
    + intros y Hs Hb. eapply H1; eauto. apply in_flat_map. eauto.
  - (* Clause *)
    apply NoDup_app_iff in H0. destruct H0 as (A & B & C).
    destruct (path_uniq_ctx_spec (cids ctx) seen) as (seen' & E & Q); auto.
    { intros y Hs Hc. eapply H1; eauto. apply in_or_app; auto. }
    rewrite E. apply H; auto.
    intros y Hs Hb. apply Q in Hs. destruct Hs as [Hs|Hs]; [eapply H1; eauto; apply in_or_app; auto | eapply C; eauto].
  - (* Cut *)
    apply NoDup_app_iff in H1. destruct H1 as (A & B & C). bsplit.
    + apply H; auto. intros y Hs Hb. eapply H2; eauto. apply in_or_app; auto.
    + apply H0; auto. intros y Hs Hb. eapply H2; eauto. apply in_or_app; auto.
  - (* IfC *)
    apply NoDup_app_iff in H1. destruct H1 as (A & B & C). bsplit.
    + apply H; auto. intros y Hs Hb. eapply H2; eauto. apply in_or_app; auto.
    + apply H0; auto. intros y Hs Hb. eapply H2; eauto. apply in_or_app; auto.
Qed.

Lemma fs_path_uniq_def : forall d, NoDup (fs_binder_ids_def d) -> path_uniq_def d = true.
Proof.
  intros d ND. unfold path_uniq_def, fs_binder_ids_def in *.
  apply NoDup_app_iff in ND. destruct ND as (A & B & C).
  destruct (path_uniq_ctx_spec (cids (fsdctx d)) []) as (seen' & E & Q); auto.
  rewrite E. apply (proj2 (proj2 fs_path_uniq_all)); auto.
  intros y Hs Hb. apply Q in Hs. destruct Hs as [[]|Hs]. eapply C; eauto.
Qed.

(* ---------- full Core: the same ---------- *)
Lemma c_path_uniq_all :
  (forall t seen, NoDup (binder_ids_term t) -> (forall x, In x seen -> In x (binder_ids_term t) -> False) ->
     cpath_uniq_term seen t = true) /\
  (forall a seen, NoDup (binder_ids_arg a) -> (forall x, In x seen -> In x (binder_ids_arg a) -> False) ->
     cpath_uniq_arg seen a = true) /\
  (forall c seen, NoDup (binder_ids_clause c) -> (forall x, In x seen -> In x (binder_ids_clause c) -> False) ->
     cpath_uniq_clause seen c = true) /\
  (forall s seen, NoDup (binder_ids_stmt s) -> (forall x, In x seen -> In x (binder_ids_stmt s) -> False) ->
     cpath_uniq_stmt seen s = true).
Proof.
  apply core_mutind; simpl; intros; auto.
  - (* Op *)
    apply NoDup_app_iff in H1. destruct H1 as (A & B & C). bsplit.
    + apply H; auto. intros y Hs Hb. eapply H2; eauto. apply in_or_app; auto.
    + apply H0; auto. intros y Hs Hb. eapply H2; eauto. apply in_or_app; auto.
  - (* Mu *)
    inversion H0 as [|? ? Ni ND]; subst. bsplit.
    + apply negb_true_iff. apply memN_false. intro Hs. eapply H1; eauto.
    + apply H; auto. intros y [Hx|Hx] Hb; [subst; auto | eapply H1; eauto].
  - (* Xtor *)
    apply forallb_forall. intros cl Hcl. rewrite Forall_forall in H. apply H; auto.
    + eapply NoDup_flat_map_in; eauto.
    + intros y Hs Hb. eapply H1; eauto. apply in_flat_map. eauto.
  - (* XCase *)
    apply forallb_forall. intros cl Hcl. rewrite Forall_forall in H. apply H; auto.
    + eapply NoDup_flat_map_in; eauto.
    + intros y Hs Hb. eapply H1; eauto. apply in_flat_map. eauto.
  - (* Clause *)
    apply NoDup_app_iff in H0. destruct H0 as (A & B & C).
    destruct (path_uniq_ctx_spec (cids ctx) seen) as (seen' & E & Q); auto.
    { intros y Hs Hc. eapply H1; eauto. apply in_or_app; auto. }
    rewrite E. apply H; auto.
    intros y Hs Hb. apply Q in Hs. destruct Hs as [Hs|Hs]; [eapply H1; eauto; apply in_or_app; auto | eapply C; eauto].
  - (* Cut *)
    apply NoDup_app_iff in H1. destruct H1 as (A & B & C). bsplit.
    + apply H; auto. intros y Hs Hb. eapply H2; eauto. apply in_or_app; auto.
    + apply H0; auto. intros y Hs Hb. eapply H2; eauto. apply in_or_app; auto.
  - (* IfC *)
    apply NoDup_app_iff in H3. destruct H3 as (A & B & C).
    apply NoDup_app_iff in B. destruct B as (B1 & B2 & C2).
    apply NoDup_app_iff in B2. destruct B2 as (B3 & B4 & C3).
    bsplit.
    + apply H; auto. intros y Hs Hb. eapply H4; eauto. apply in_or_app; auto.
    + destruct b; simpl in *; auto. apply H0; auto.
      intros y Hs Hb. eapply H4; eauto. apply in_or_app; right. apply in_or_app; auto.
    + apply H1; auto. intros y Hs Hb. eapply H4; eauto.
      apply in_or_app; right. apply in_or_app; right. apply in_or_app; auto.
    + apply H2; auto. intros y Hs Hb. eapply H4; eauto.
      apply in_or_app; right. apply in_or_app; right. apply in_or_app; auto.
  - (* Print *)
    apply NoDup_app_iff in H1. destruct H1 as (A & B & C). bsplit.
    + apply H; auto. intros y Hs Hb. eapply H2; eauto. apply in_or_app; auto.
    + apply H0; auto. intros y Hs Hb. eapply H2; eauto. apply in_or_app; auto.
  - (* Call *)
    apply forallb_forall. intros cl Hcl. rewrite Forall_forall in H. apply H; auto.
    + eapply NoDup_flat_map_in; eauto.
    + intros y Hs Hb. eapply H1; eauto. apply in_flat_map. eauto.
Qed.

Lemma c_path_uniq_def : forall d, NoDup (binder_ids_def d) -> cpath_uniq_def d = true.
Proof.
  intros d ND. unfold cpath_uniq_def, binder_ids_def in *.
  apply NoDup_app_iff in ND. destruct ND as (A & B & C).
  destruct (path_uniq_ctx_spec (cids (cdctx d)) []) as (seen' & E & Q); auto.
  rewrite E. apply (proj2 (proj2 (proj2 c_path_uniq_all))); auto.
  intros y Hs Hb. apply Q in Hs. destruct Hs as [[]|Hs]. eapply C; eauto.
Qed.

(* ---------- scoped => free names are not binders ---------- *)
Lemma occ_sc_ok : forall env bs v, ~ In 0 bs -> occ_sc env v = true -> occ_ok env bs v = true.
Proof.
  unfold occ_sc, occ_ok; intros env bs v Z H. apply orb_true_iff in H. apply orb_true_iff.
  destruct H as [H|H]; auto. right. apply N.eqb_eq in H. rewrite H.
  apply negb_true_iff. apply memN_false. auto.
Qed.

Lemma fs_free_ok_all : forall bs, ~ In 0 bs ->
  (forall t env, fs_scoped_term env t = true -> fs_free_ok_term env bs t = true) /\
  (forall c env, fs_scoped_clause env c = true -> fs_free_ok_clause env bs c = true) /\
  (forall s env, fs_scoped_stmt env s = true -> fs_free_ok_stmt env bs s = true).
Proof.
  intros bs Z. apply fs_mutind; simpl; intros; bsplit; auto using occ_sc_ok.
  - eapply forallb_impl; [|eassumption]. intros; apply occ_sc_ok; auto.
  - eapply forallb_impl; [|eassumption]. rewrite Forall_forall in H. auto.
  - destruct b; auto using occ_sc_ok.
  - eapply forallb_impl; [|eassumption]. intros; apply occ_sc_ok; auto.
Qed.
