(* How the abstract heap of Model/Heap.v represents the (tree) values of the AxCut machine, and the
   extra invariant that makes the preconditions of the trace theorem (Proof/HeapTrace.v `pre`) hold
   for loads:

     rep lk mm v p    the value v is stored at pointer p: an integer has pointer 0; an object /
                      closure with n > 0 fields is a chain of 1 + nlinks n blocks headed by p whose
                      field slots (`obj_fields`), after the zero padding of the head block, are
                      pointers representing the fields; with no field the pointer is 0.  `rep`
                      reads pointer slots only, never headers.
     KI lk s R        (chains are owned) for every block x reachable from the roots with lk x > 0 links
                      still to follow, slot 2 of x is a non-null block with header 0 (its only referrer
                      is that link) and lk one less.  `lk` is a ghost map (block -> number of
                      continuation blocks that follow it in its object).

   Part 1: counting facts (a block with header 0 has exactly one referrer), reachability frames.
   Part 2: `rep`, its frame lemma.
   Part 3: KI is preserved by share / erase / decrement of roots. *)
From Coq Require Import List ZArith Lia Bool Permutation.
From SCC Require Import Model.Heap Proof.HeapMore Proof.HeapTrace.
From SCC Require Sem.AxSem.
Import ListNotations.
Open Scope Z_scope.

Definition lkmap := Z -> nat.

(* ====================================================================================== *)
(* Part 1 *)

Lemma cnt_flat_map_ge (f : Z -> list Z) l x b : In x l -> cnt (f x) b <= cnt (flat_map f l) b.
Proof.
  intros Hx. apply in_split in Hx as (l1 & l2 & ->). rewrite flat_map_app. cbn [flat_map]. rewrite !cnt_app.
  pose proof (cnt_nonneg (flat_map f l1) b). pose proof (cnt_nonneg (flat_map f l2) b). lia.
Qed.
Lemma cnt_flat_map_two (f : Z -> list Z) l x y b :
  In x l -> In y l -> x <> y -> In b (f x) -> In b (f y) -> 2 <= cnt (flat_map f l) b.
Proof.
  intros Hx Hy Hne Bx By. apply in_split in Hx as (l1 & l2 & ->).
  rewrite flat_map_app. cbn [flat_map]. rewrite !cnt_app.
  pose proof (cnt_in_pos _ _ Bx).
  apply in_app_iff in Hy as [Hy|[Hy|Hy]]; [|congruence|].
  - pose proof (cnt_flat_map_in f l1 y b Hy By). pose proof (cnt_nonneg (flat_map f l2) b). lia.
  - pose proof (cnt_flat_map_in f l2 y b Hy By). pose proof (cnt_nonneg (flat_map f l1) b). lia.
Qed.

(* a counted block with header 0 that sits in a slot of x has no other referrer *)
Lemma sole_slot_ref s R hl fl cl c x :
  Inv s R hl fl cl -> In c cl -> hdr (m s c) = 0 -> In x (cl ++ fl) -> In c (ps (m s x)) ->
  ~ In c R /\ (forall y, In y (cl ++ fl) -> In c (ps (m s y)) -> y = x) /\ cnt (ps (m s x)) c = 1.
Proof.
  intros I Hc Hh Hx Hin. pose proof (i_rc _ _ _ _ _ I c Hc) as Hrc. unfold refs in Hrc. rewrite cnt_app, Hh in Hrc.
  pose proof (cnt_nonneg R c). pose proof (cnt_flat_map_ge (fun x => ps (m s x)) _ x c Hx) as G. cbn beta in G.
  pose proof (cnt_in_pos _ _ Hin). split; [|split].
  - intros HR. apply cnt_in_pos in HR. lia.
  - intros y Hy Hiny. destruct (Z.eq_dec y x) as [|Hne]; auto. exfalso.
    pose proof (cnt_flat_map_two (fun x => ps (m s x)) _ x y c Hx Hy ltac:(congruence) Hin Hiny). lia.
  - lia.
Qed.
(* a root with header 0 sits in no slot and is a root once *)
Lemma sole_root_ref s R hl fl cl c :
  Inv s R hl fl cl -> In c R -> c <> 0 -> hdr (m s c) = 0 ->
  cnt R c = 1 /\ forall y, In y (cl ++ fl) -> ~ In c (ps (m s y)).
Proof.
  intros I HR Hc0 Hh. pose proof (root_counted _ _ _ _ _ _ I Hc0 HR) as Hc.
  pose proof (i_rc _ _ _ _ _ I c Hc) as Hrc. unfold refs in Hrc. rewrite cnt_app, Hh in Hrc.
  pose proof (cnt_in_pos _ _ HR). pose proof (cnt_nonneg (flat_map (fun x => ps (m s x)) (cl ++ fl)) c). split; [lia|].
  intros y Hy Hin. pose proof (cnt_flat_map_in (fun x => ps (m s x)) _ y c Hy Hin). lia.
Qed.

(* the free register names the frontier (an all-zero block) or the first deferred block *)
Lemma free_cases s R hl fl cl : Inv s R hl fl cl -> (free s = frontier s /\ fl = []) \/ In (free s) fl.
Proof.
  intros I. destruct (Z.eq_dec (free s) (frontier s)) as [E|E].
  - left. split; auto. pose proof (i_fl _ _ _ _ _ I) as Hc. rewrite E in Hc. now apply chain_stop_nil in Hc.
  - right. destruct (chain_nonstop _ _ _ _ (i_fl _ _ _ _ _ I) E) as (l & -> & _). now left.
Qed.
Lemma free_not_counted s R hl fl cl : Inv s R hl fl cl -> ~ In (free s) cl.
Proof.
  intros I Hin. destruct (free_cases _ _ _ _ _ I) as [[E _]|Hf].
  - pose proof (i_below _ _ _ _ _ I (free s) ltac:(rewrite !in_app_iff; auto)). lia.
  - destruct (proj1 (proj2 (nodup3 hl fl cl (free s) (i_nodup _ _ _ _ _ I))) Hf) as [_ N]. contradiction.
Qed.
Lemma heap_not_counted s R hl fl cl : Inv s R hl fl cl -> ~ In (heap s) cl /\ ~ In (heap s) fl.
Proof.
  intros I. destruct (heap_in_hl _ _ _ _ _ I) as (l & E).
  assert (In (heap s) hl) by (rewrite E; now left).
  destruct (proj2 (proj2 (nodup3 hl fl cl (heap s) (i_nodup _ _ _ _ _ I))) H). tauto.
Qed.
(* a slot of the block the free register names, if that block is not the frontier, is a slot of a
   deferred block *)
Lemma free_slot_cases s R hl fl cl c :
  Inv s R hl fl cl -> In c (ps (m s (free s))) -> In (free s) fl.
Proof.
  intros I Hin. destruct (free_cases _ _ _ _ _ I) as [[E _]|Hf]; auto.
  rewrite E, (i_fresh _ _ _ _ _ I (frontier s)) in Hin by lia. destruct Hin.
Qed.

(* ---------- reachability ---------- *)
Lemma reach_ext_on mm mm' R b :
  (forall x, reach mm R x -> ps (mm' x) = ps (mm x)) -> reach mm R b -> reach mm' R b.
Proof.
  intros H. induction 1 as [b Hb Hb0|x b Hx IH Hb Hb0]; [now apply reach_src|].
  eapply reach_slot; eauto. now rewrite H.
Qed.
Lemma reach_ext mm mm' R b : (forall x, ps (mm' x) = ps (mm x)) -> reach mm R b -> reach mm' R b.
Proof. intros H. apply reach_ext_on. auto. Qed.
Lemma reach_nonzero mm R b : reach mm R b -> b <> 0.
Proof. destruct 1; auto. Qed.
Lemma reach_trans mm R R' b : (forall r, In r R' -> r <> 0 -> reach mm R r) -> reach mm R' b -> reach mm R b.
Proof. intros H. induction 1 as [b Hb Hb0|x b Hx IH Hb Hb0]; [auto|eapply reach_slot; eauto]. Qed.
Lemma reach_root_counted s R hl fl cl b : Inv s R hl fl cl -> reach (m s) R b -> In b cl.
Proof. intros I Hr. eapply reach_counted; eauto. eapply reach_mono; [|exact Hr]. apply incl_appl, incl_refl. Qed.
Lemma reach_perm mm R R' b : Permutation R R' -> reach mm R b -> reach mm R' b.
Proof. intros HP. apply reach_mono. intros x Hx. eapply Permutation_in; eauto. Qed.
Lemma reach_nz mm R b : reach mm (nz R) b <-> reach mm R b.
Proof.
  split; intros H.
  - eapply reach_mono; [|exact H]. intros x Hx. apply in_nz in Hx. tauto.
  - eapply reach_trans; [|exact H]. intros r Hr Hr0. apply reach_src; auto. apply in_nz. auto.
Qed.

(* ---------- the chain invariant ---------- *)
Definition KI (lk : lkmap) (s : st) (R : list Z) : Prop :=
  forall x, reach (m s) R x -> lk x <> O ->
    link_of (m s) x <> 0 /\ hdr (m s (link_of (m s) x)) = 0 /\ S (lk (link_of (m s) x)) = lk x.

Lemma KI_incl lk s R R' : (forall r, In r R' -> r <> 0 -> reach (m s) R r) -> KI lk s R -> KI lk s R'.
Proof. intros H K x Hx. apply K. eapply reach_trans; eauto. Qed.
Lemma KI_perm lk s R R' : Permutation R R' -> KI lk s R -> KI lk s R'.
Proof. intros HP. apply KI_incl. intros r Hr Hr0. apply reach_src; auto. eapply Permutation_in; [symmetry|]; eauto. Qed.

(* the link of a reachable chain block is referenced by that link only *)
Lemma link_sole s R hl fl cl lk x :
  Inv s R hl fl cl -> KI lk s R -> reach (m s) R x -> lk x <> O ->
  let c := link_of (m s) x in
  c <> 0 /\ In c cl /\ hdr (m s c) = 0 /\ ~ In c R /\
  (forall y, In y (cl ++ fl) -> In c (ps (m s y)) -> y = x) /\ cnt (ps (m s x)) c = 1.
Proof.
  intros I K Hx Hl c. destruct (K x Hx Hl) as (Hc0 & Hh & _). fold c in Hc0, Hh.
  pose proof (reach_root_counted _ _ _ _ _ _ I Hx) as Hxc.
  assert (Hxin : In x (cl ++ fl)) by (rewrite in_app_iff; auto).
  assert (Hin : In c (ps (m s x))) by (apply link_in; exact Hc0).
  pose proof (child_counted _ _ _ _ _ x c I Hxin Hin Hc0) as Hc.
  destruct (sole_slot_ref s R hl fl cl c x I Hc Hh Hxin Hin) as (A & B & C). auto 10.
Qed.

(* along the chain of a reachable block: the links are non-null, the continuation blocks have
   header 0 *)
Lemma KI_chain lk s R : KI lk s R -> forall k x, reach (m s) R x -> lk x = k ->
  links_ok k (m s) x /\ (forall b, In b (obj_blocks k (m s) x) -> b <> x -> hdr (m s b) = 0) /\
  (forall b, In b (obj_blocks k (m s) x) -> reach (m s) R b).
Proof.
  intros K. induction k as [|k IH]; intros x Hx Hk.
  - split; [|split].
    + intros b [<-|[]]. eapply reach_nonzero; eauto.
    + intros b [<-|[]] Hne. congruence.
    + intros b [<-|[]]. exact Hx.
  - destruct (K x Hx ltac:(lia)) as (Hc0 & Hh & Hl). set (c := link_of (m s) x) in *.
    assert (Hc : reach (m s) R c) by (eapply reach_slot; eauto; now apply link_in).
    destruct (IH c Hc ltac:(lia)) as (L1 & H1 & R1). cbn [obj_blocks]. fold c. split; [|split].
    + intros b [<-|Hb]; [eapply reach_nonzero; eauto|now apply L1].
    + intros b [<-|Hb] Hne; [congruence|]. destruct (Z.eq_dec b c) as [->|Hbc]; auto.
    + intros b [<-|Hb]; auto.
Qed.
Lemma KI_obj_ok lk s R x : KI lk s R -> reach (m s) R x -> hdr (m s x) = 0 -> obj_ok (lk x) (m s) x.
Proof.
  intros K Hx Hh. destruct (KI_chain lk s R K (lk x) x Hx eq_refl) as (L & H & _).
  intros b Hb. split; [now apply L|]. destruct (Z.eq_dec b x) as [->|Hne]; auto.
Qed.

(* ====================================================================================== *)
(* Part 2: representation of values *)
Import AxSem.

Inductive rep (lk : lkmap) (mm : mem) : value -> Z -> Prop :=
| rep_int z : rep lk mm (VInt z) 0
| rep_obj ty tag fs p : rep_flds lk mm fs p -> rep lk mm (VObj ty tag fs) p
| rep_clo ty cls ce p : rep_flds lk mm (map snd ce) p -> rep lk mm (VClo ty cls ce) p
with rep_flds (lk : lkmap) (mm : mem) : list value -> Z -> Prop :=
| rf_nil : rep_flds lk mm [] 0
| rf_cons fs p j pl :
    fs <> [] -> lk p = nlinks (length fs) -> links_ok (lk p) mm p ->
    obj_fields (lk p) mm p = repeat 0 j ++ pl -> reps lk mm fs pl -> rep_flds lk mm fs p
with reps (lk : lkmap) (mm : mem) : list value -> list Z -> Prop :=
| reps_nil : reps lk mm [] []
| reps_cons v vs p pl : rep lk mm v p -> reps lk mm vs pl -> reps lk mm (v :: vs) (p :: pl).

Scheme rep_ind3 := Induction for rep Sort Prop
  with rep_flds_ind3 := Induction for rep_flds Sort Prop
  with reps_ind3 := Induction for reps Sort Prop.
Combined Scheme rep_mutind from rep_ind3, rep_flds_ind3, reps_ind3.

Lemma reps_length lk mm vs pl : reps lk mm vs pl -> length pl = length vs.
Proof. induction 1; cbn; auto. Qed.
Lemma reps_app lk mm : forall v1 p1 v2 p2, reps lk mm v1 p1 -> reps lk mm v2 p2 -> reps lk mm (v1 ++ v2) (p1 ++ p2).
Proof. induction 1; cbn; auto. intros. constructor; auto. Qed.
Lemma reps_app_inv lk mm : forall v1 v2 pl, reps lk mm (v1 ++ v2) pl ->
  exists p1 p2, pl = p1 ++ p2 /\ reps lk mm v1 p1 /\ reps lk mm v2 p2.
Proof.
  induction v1 as [|v v1 IH]; intros v2 pl H; cbn in *.
  - exists [], pl. split; [reflexivity|split; [constructor|assumption]].
  - inversion H; subst. destruct (IH _ _ H4) as (p1 & p2 & -> & A & B). exists (p :: p1), p2. split; [reflexivity|split; [constructor; auto|auto]].
Qed.

(* the blocks and the fields of an object are reachable from its head *)
Lemma obj_blocks_reach mm : forall k p b, links_ok k mm p -> In b (obj_blocks k mm p) -> reach mm [p] b.
Proof.
  induction k as [|k IH]; intros p b HL Hb; cbn [obj_blocks] in Hb.
  - destruct Hb as [<-|[]]. apply reach_src; [now left|]. apply HL. now left.
  - assert (Hp0 : p <> 0) by (apply HL; now left).
    destruct Hb as [<-|Hb]; [apply reach_src; auto; now left|].
    assert (Hq0 : link_of mm p <> 0) by (apply HL; cbn [obj_blocks]; right; destruct k; now left).
    eapply reach_trans; [|apply (IH (link_of mm p) b); auto].
    + intros r [<-|[]] _. eapply reach_slot; [apply reach_src; [now left|exact Hp0]|now apply link_in|exact Hq0].
    + intros b' Hb'. apply HL. cbn [obj_blocks]. now right.
Qed.
Lemma obj_fields_blocks mm : forall k p c, In c (obj_fields k mm p) -> exists b, In b (obj_blocks k mm p) /\ In c (ps (mm b)).
Proof.
  induction k as [|k IH]; intros p c Hc; cbn [obj_fields obj_blocks] in *.
  - exists p. split; [now left|exact Hc].
  - apply in_app_iff in Hc as [Hc|Hc].
    + exists p. split; [now left|now apply fields_in].
    + destruct (IH _ _ Hc) as (b & Hb & Hin). exists b. split; [now right|exact Hin].
Qed.
Lemma obj_fields_reach mm k p c : links_ok k mm p -> In c (obj_fields k mm p) -> c <> 0 -> reach mm [p] c.
Proof.
  intros HL Hc Hc0. destruct (obj_fields_blocks mm k p c Hc) as (b & Hb & Hin).
  eapply reach_slot; [eapply obj_blocks_reach; eauto|exact Hin|exact Hc0].
Qed.

(* obj_blocks / obj_fields depend on the pointer slots of the blocks of the chain only *)
Lemma obj_blocks_ext_on mm mm' : forall k p,
  (forall b, In b (obj_blocks k mm p) -> ps (mm' b) = ps (mm b)) -> obj_blocks k mm' p = obj_blocks k mm p.
Proof.
  induction k as [|k IH]; intros p H; cbn [obj_blocks]; auto. f_equal.
  assert (E : link_of mm' p = link_of mm p) by (unfold link_of; rewrite H; [reflexivity|now left]).
  rewrite E. apply IH. intros b Hb. apply H. cbn [obj_blocks]. now right.
Qed.
Lemma obj_fields_ext_on mm mm' : forall k p,
  (forall b, In b (obj_blocks k mm p) -> ps (mm' b) = ps (mm b)) -> obj_fields k mm' p = obj_fields k mm p.
Proof.
  induction k as [|k IH]; intros p H; cbn [obj_fields].
  - apply H. now left.
  - assert (E : ps (mm' p) = ps (mm p)) by (apply H; now left).
    unfold fields_of, link_of. rewrite E. f_equal. apply IH. intros b Hb. apply H. cbn [obj_blocks]. unfold link_of. now right.
Qed.
Lemma links_ok_ext_on mm mm' k p :
  (forall b, In b (obj_blocks k mm p) -> ps (mm' b) = ps (mm b)) -> links_ok k mm p -> links_ok k mm' p.
Proof. intros H HL b Hb. rewrite (obj_blocks_ext_on mm mm' k p H) in Hb. now apply HL. Qed.

(* frame: a representation survives any change that leaves the slots and the ghost link counts of the
   blocks reachable from its pointer alone *)
Lemma rep_frame_mut lk lk' mm mm' :
  (forall v p, rep lk mm v p ->
     (forall b, reach mm [p] b -> ps (mm' b) = ps (mm b) /\ lk' b = lk b) -> rep lk' mm' v p) /\
  (forall fs p, rep_flds lk mm fs p ->
     (forall b, reach mm [p] b -> ps (mm' b) = ps (mm b) /\ lk' b = lk b) -> rep_flds lk' mm' fs p) /\
  (forall vs pl, reps lk mm vs pl ->
     (forall b, reach mm pl b -> ps (mm' b) = ps (mm b) /\ lk' b = lk b) -> reps lk' mm' vs pl).
Proof.
  apply rep_mutind.
  - intros z _. constructor.
  - intros ty tag fs p _ IH H. constructor. auto.
  - intros ty cls ce p _ IH H. constructor. auto.
  - intros _. constructor.
  - intros fs p j pl Hne Hlk HL HF _ IH H.
    assert (Hp0 : p <> 0) by (exact (links_ok_head (lk p) mm p HL)).
    assert (Hp : reach mm [p] p) by (apply reach_src; auto; now left).
    assert (Elk : lk' p = lk p) by (apply H; exact Hp).
    assert (Eps : forall b, In b (obj_blocks (lk p) mm p) -> ps (mm' b) = ps (mm b)).
    { intros b Hb. apply H. eapply obj_blocks_reach; eauto. }
    apply (rf_cons lk' mm' fs p j pl).
    + exact Hne.
    + congruence.
    + rewrite Elk. eapply links_ok_ext_on; eauto.
    + rewrite Elk, (obj_fields_ext_on mm mm' (lk p) p Eps). exact HF.
    + apply IH. intros b Hb. apply H. eapply reach_trans; [|exact Hb].
      intros r Hr Hr0. eapply obj_fields_reach; eauto. rewrite HF, in_app_iff. now right.
  - intros _. constructor.
  - intros v vs p pl _ IH1 _ IH2 H. constructor.
    + apply IH1. intros b Hb. apply H. eapply reach_mono; [|exact Hb]. intros x [<-|[]]. now left.
    + apply IH2. intros b Hb. apply H. eapply reach_mono; [|exact Hb]. intros x Hx. now right.
Qed.
Lemma rep_frame lk lk' mm mm' v p :
  rep lk mm v p -> (forall b, reach mm [p] b -> ps (mm' b) = ps (mm b) /\ lk' b = lk b) -> rep lk' mm' v p.
Proof. intros H. now apply (proj1 (rep_frame_mut lk lk' mm mm')). Qed.
Lemma reps_frame lk lk' mm mm' vs pl :
  reps lk mm vs pl -> (forall b, reach mm pl b -> ps (mm' b) = ps (mm b) /\ lk' b = lk b) -> reps lk' mm' vs pl.
Proof. intros H. now apply (proj2 (proj2 (rep_frame_mut lk lk' mm mm'))). Qed.
(* operations that write headers only *)
Lemma rep_ext lk mm mm' v p : (forall b, ps (mm' b) = ps (mm b)) -> rep lk mm v p -> rep lk mm' v p.
Proof. intros H R. eapply rep_frame; eauto. Qed.
Lemma reps_ext lk mm mm' vs pl : (forall b, ps (mm' b) = ps (mm b)) -> reps lk mm vs pl -> reps lk mm' vs pl.
Proof. intros H R. eapply reps_frame; eauto. Qed.

(* ====================================================================================== *)
(* Part 3: KI under header-only operations on roots *)

Lemma share_list_hdr_other l : forall s x, ~ In x l -> hdr (m (share_list l s) x) = hdr (m s x).
Proof.
  unfold share_list. induction l as [|c l IH]; intros s x Hx; cbn [fold_left]; auto.
  rewrite IH by (intro; apply Hx; now right). apply share_hdr_other. intro; apply Hx; now left.
Qed.

Lemma KI_share lk s R hl fl cl p n :
  Inv s R hl fl cl -> KI lk s R -> (p = 0 \/ In p R) ->
  KI lk (share p n s) (if p =? 0 then R else repeat p (Z.to_nat n) ++ R).
Proof.
  intros I K Hp x Hx Hl.
  assert (Hx0 : reach (m s) R x).
  { apply (reach_ext (m (share p n s)) (m s)) in Hx; [|intros; symmetry; apply share_ps].
    eapply reach_trans; [|exact Hx]. intros r Hr Hr0. apply reach_src; auto.
    destruct (p =? 0); auto. apply in_app_iff in Hr as [Hr|Hr]; auto. apply repeat_spec in Hr. subst. destruct Hp; [contradiction|auto]. }
  destruct (link_sole s R hl fl cl lk x I K Hx0 Hl) as (Hc0 & Hc & Hh & HnR & _).
  destruct (K x Hx0 Hl) as (_ & _ & Hlk).
  unfold link_of in *. rewrite share_ps. split; [exact Hc0|split; [|exact Hlk]].
  rewrite share_hdr_other; auto. intros E. destruct Hp as [->|HpR]; [congruence|]. rewrite E in HnR. contradiction.
Qed.

Lemma KI_erase lk s R R0 hl fl cl p :
  Inv s R hl fl cl -> KI lk s R -> p <> 0 -> Permutation R (p :: R0) -> KI lk (erase p s) R0.
Proof.
  intros I K Hp0 HP x Hx Hl.
  assert (HpR : In p R) by (eapply Permutation_in; [symmetry; exact HP|now left]).
  assert (Hx0 : reach (m s) R x).
  { apply (reach_ext (m (erase p s)) (m s)) in Hx; [|intros; symmetry; apply erase_ps].
    eapply reach_mono; [|exact Hx]. intros r Hr. eapply Permutation_in; [symmetry; exact HP|now right]. }
  destruct (link_sole s R hl fl cl lk x I K Hx0 Hl) as (Hc0 & Hc & Hh & HnR & _).
  destruct (K x Hx0 Hl) as (_ & _ & Hlk).
  unfold link_of in *. rewrite erase_ps. split; [exact Hc0|split; [|exact Hlk]].
  rewrite erase_hdr_other; auto. intros E. rewrite E in HnR. contradiction.
Qed.
