(* ======================================================================================
   Proof/Fun2CoreInv  -  the static side of the simulation proof for fun2core:
   - inversion lemmas for the state monad and for the translation combinators;
   - the names of a source term ([nm]: every variable name occurring in it, free or binding;
     [bnd]: its binders), the fragment [frag], the scope check [ws] and the capture guard [nocap];
   - the free-variable bound of the translation ([ub_wc], [ub_cmp]): every free binding of the
     translated statement is either the binding IN SCOPE (exactly: name, chirality and type) of a name
     occurring in the source term, or a free binding of the continuation.
   ====================================================================================== *)
From Coq Require Import List ZArith NArith String Bool Lia.
From SCC Require Import Base.Sexp Lang.SynUtil Lang.FunSyn Lang.FunTy Lang.CoreSyn.
From SCC Require Import Sem.AxSem Sem.FunSem Model.Fun2Core Proof.Fun2CoreProof Proof.Fun2CoreTfv.
From SCC Require Export Model.Fun2CoreGuard.
Import ListNotations.
Open Scope string_scope.
Open Scope list_scope.

(* ---------- equality tests ---------- *)
Lemma cid_eqb_eq : forall a b, cident_eqb a b = true <-> a = b.
Proof.
  intros [a1 a2] [b1 b2]. unfold cident_eqb. simpl. rewrite andb_true_iff, String.eqb_eq, N.eqb_eq.
  split; [intros [H1 H2]; subst; reflexivity | intros H; injection H as H1 H2; auto].
Qed.
Lemma cid_eqb_refl : forall a, cident_eqb a a = true.
Proof. intros a. apply cid_eqb_eq. reflexivity. Qed.
Lemma cid_eqb_neq : forall a b, cident_eqb a b = false <-> a <> b.
Proof. intros a b. rewrite <- cid_eqb_eq. destruct (cident_eqb a b); split; congruence. Qed.
Lemma cid_eqb_new_id : forall a b, cident_eqb (new_id a) (new_id b) = String.eqb a b.
Proof. intros a b. unfold cident_eqb, new_id. simpl. apply andb_true_r. Qed.
Lemma cchi_eqb_eq : forall a b, cchi_eqb a b = true <-> a = b.
Proof. intros [|] [|]; simpl; split; congruence. Qed.
Lemma cty_eqb_eq : forall a b, cty_eqb a b = true <-> a = b.
Proof.
  intros [|x] [|y]; simpl; try (split; congruence).
  rewrite cid_eqb_eq. split; congruence.
Qed.
Lemma cbinding_eqb_eq : forall a b, cbinding_eqb a b = true <-> a = b.
Proof.
  intros [a1 a2 a3] [b1 b2 b3]. unfold cbinding_eqb. simpl.
  rewrite !andb_true_iff, cid_eqb_eq, cchi_eqb_eq, cty_eqb_eq.
  split; [intros [[H1 H2] H3]; subst; reflexivity | intros H; injection H as H1 H2 H3; auto].
Qed.
Lemma str_list_eqb_eq : forall a b : list string, list_eqb String.eqb a b = true -> a = b.
Proof.
  induction a as [|x a IH]; intros [|y b]; simpl; intros H; try discriminate; [reflexivity|].
  apply andb_prop in H. destruct H as [H1 H2]. apply String.eqb_eq in H1. apply IH in H2. subst. reflexivity.
Qed.

(* ---------- the state monad ---------- *)
Lemma mbind_inv : forall X Y (m : M X) (f : X -> M Y) st y st',
  mbind m f st = Ok (y, st') -> exists x st1, m st = Ok (x, st1) /\ f x st1 = Ok (y, st').
Proof.
  intros X Y m f st y st' H. unfold mbind in H. destruct (m st) as [[x st1]|e]; [|discriminate].
  exists x, st1. split; [reflexivity | exact H].
Qed.
Lemma mret_inv : forall X (x y : X) st st', mret x st = Ok (y, st') -> y = x /\ st' = st.
Proof. intros X x y st st' H. unfold mret in H. injection H as H1 H2. auto. Qed.
Lemma mlift_inv : forall X (r : res X) st y st', mlift r st = Ok (y, st') -> r = Ok y /\ st' = st.
Proof. intros X r st y st' H. unfold mlift in H. destruct r; [|discriminate]. injection H as H1 H2. subst. auto. Qed.
Lemma expect_ty_inv : forall o t, expect_ty o = Ok t -> o = Some t.
Proof. intros [t'|] t H; simpl in H; [injection H as H; subst; reflexivity | discriminate]. Qed.

Ltac minv H :=
  let x := fresh "x" in let st := fresh "st" in let H1 := fresh "E" in
  match type of H with
  | mbind _ _ _ = Ok _ => apply mbind_inv in H; destruct H as [x [st [H1 H]]]
  end.

(* fresh names: what a draw does to the state *)
Lemma fresh_in_vars_inv : forall base st x st',
  fresh_in_vars base st = Ok (x, st') ->
  ~ In x (st_used_vars st) /\ st_used_vars st' = x :: st_used_vars st /\
  st_used_labels st' = st_used_labels st /\ st_lifted st' = st_lifted st.
Proof.
  intros base st x st' H. unfold fresh_in_vars in H.
  pose proof (fresh_name_fresh (st_used_vars st) base) as [Hf Hs].
  destruct (fresh_name (st_used_vars st) base) as [nm used'] eqn:E. simpl in *.
  injection H as H1 H2. subst. simpl. auto.
Qed.
Lemma fresh_label_inv : forall base st x st',
  fresh_label base st = Ok (x, st') ->
  st_used_vars st' = st_used_vars st /\ st_lifted st' = st_lifted st.
Proof.
  intros base st x st' H. unfold fresh_label in H.
  destruct (fresh_name (st_used_labels st) base) as [nm used']. injection H as H1 H2. subst. simpl. auto.
Qed.

(* used_vars only grows *)
Lemma grows_vars_incl : forall st st', grows st st' -> incl (st_used_vars st) (st_used_vars st').
Proof. intros st st' [[g [E _]] _] x Hx. rewrite E. apply in_or_app. right. exact Hx. Qed.
Lemma grows_lifted_incl : forall st st', grows st st' -> incl (st_lifted st) (st_lifted st').
Proof. intros st st' [_ [g [l [_ [_ [E _]]]]]] x Hx. rewrite E. apply in_or_app. right. exact Hx. Qed.
Lemma wc_grows : forall codata cur lg t cont st s st', wc codata cur lg t cont st = Ok (s, st') -> grows st st'.
Proof. intros. eapply (proj1 (wc_cmp_grows codata cur lg t)); eauto. Qed.
Lemma cmp_grows : forall codata cur lg t ty st c st', cmp codata cur lg t ty st = Ok (c, st') -> grows st st'.
Proof. intros. eapply (proj2 (wc_cmp_grows codata cur lg t)); eauto. Qed.
Lemma share_grows : forall cur cont st k st', share cur cont st = Ok (k, st') -> grows st st'.
Proof. intros. eapply mgrows_share; eauto. Qed.

(* ---------- share ---------- *)
Definition is_mu (c : cterm) : bool := match c with CMu _ _ _ _ => true | _ => false end.
Lemma share_inv : forall cur cont st k st', share cur cont st = Ok (k, st') ->
  exists var ty body stv name,
    (match cont with
     | CMu _ v s t => var = v /\ ty = t /\ body = s /\ stv = st
     | _ => exists x, fresh_var st = Ok (x, stv) /\ var = new_id x /\ ty = cterm_type cont /\
                      body = CCut (CXVar CPrd (new_id x) ty) ty cont
     end) /\
    st_used_vars st' = st_used_vars stv /\
    st_lifted st' = mkcd (new_id name) (tfv_stmt body []) body :: st_lifted stv /\
    k = CMu CCns var (CCall (new_id name) (map arg_of_binding (tfv_stmt body [])) ty) ty.
Proof.
  intros cur cont st k st' H. unfold share in H. unfold mbind at 1 in H.
  destruct (match cont with CMu _ v s ty => mret (v, ty, s) | _ => _ end st) as [[[[var ty] body] stv]|e] eqn:E1;
    [|discriminate].
  unfold mbind, fresh_label in H.
  destruct (fresh_name (st_used_labels stv) ("share_" ++ cur ++ "_")) as [nm used'] eqn:E2.
  unfold push_lifted, mret in H. injection H as Hk Hst. subst k st'. simpl.
  exists var, ty, body, stv, nm. split; [|auto].
  destruct cont;
    try (unfold mbind in E1; destruct (fresh_var st) as [[xx stx]|?] eqn:Ef; [|discriminate];
         unfold mret in E1; injection E1 as E1 E3 E4 E5; subst; exists xx; auto).
  unfold mret in E1. injection E1 as E1 E3 E4 E5. subst. auto.
Qed.

(* ---------- names of a source term ---------- *)
Lemma bnd_nm : forall t, incl (bnd t) (nm t).
Proof.
  induction t using fterm_ind'; simpl; intros z Hx; try contradiction.
  - apply in_app_or in Hx. apply in_or_app. destruct Hx; [left; apply IHt1 | right; apply IHt2]; assumption.
  - apply in_app_or in Hx. apply in_or_app. destruct Hx as [Hx|Hx]; [left; apply IHt1; exact Hx|right].
    apply in_app_or in Hx. apply in_or_app. destruct Hx as [Hx|Hx].
    { left. destruct b as [b'|]; [apply H; exact Hx | contradiction]. }
    right. apply in_app_or in Hx. apply in_or_app. destruct Hx; [left; apply IHt2 | right; apply IHt3]; assumption.
  - apply in_app_or in Hx. apply in_or_app. destruct Hx; [left; apply IHt1 | right; apply IHt2]; assumption.
  - destruct Hx as [Hx|Hx]; [left; exact Hx | right].
    apply in_app_or in Hx. apply in_or_app. destruct Hx; [left; apply IHt1 | right; apply IHt2]; assumption.
  - apply in_flat_map in Hx. destruct Hx as [a [Ha Hx]]. apply in_flat_map. exists a. split; [exact Ha|].
    rewrite Forall_forall in H. apply (H a Ha). exact Hx.
  - apply in_flat_map in Hx. destruct Hx as [a [Ha Hx]]. apply in_flat_map. exists a. split; [exact Ha|].
    rewrite Forall_forall in H. apply (H a Ha). exact Hx.
  - apply in_app_or in Hx. apply in_or_app. destruct Hx as [Hx|Hx]; [left; apply IHt; exact Hx | right].
    apply in_flat_map in Hx. destruct Hx as [a [Ha Hx]]. apply in_flat_map. exists a. split; [exact Ha|].
    rewrite Forall_forall in H. apply (H a Ha). exact Hx.
  - apply in_app_or in Hx. apply in_or_app. destruct Hx as [Hx|Hx]; [left; apply IHt; exact Hx | right].
    apply in_flat_map in Hx. destruct Hx as [c [Hc Hx]]. apply in_flat_map. exists c. split; [exact Hc|].
    rewrite Forall_forall in H. specialize (H c Hc). destruct c as [pl x0 names ctx body]. simpl in H.
    apply in_app_or in Hx. apply in_or_app. destruct Hx; [left; assumption | right; apply H; assumption].
  - apply in_flat_map in Hx. destruct Hx as [c [Hc Hx]]. apply in_flat_map. exists c. split; [exact Hc|].
    rewrite Forall_forall in H. specialize (H c Hc). destruct c as [pl x0 names ctx body]. simpl in H.
    apply in_app_or in Hx. apply in_or_app. destruct Hx; [left; assumption | right; apply H; assumption].
  - destruct Hx as [Hx|Hx]; [left; exact Hx | right; apply IHt; exact Hx].
  - right. apply IHt. exact Hx.
  - apply IHt. exact Hx.
  - apply IHt. exact Hx.
Qed.

(* ---------- inversion of the translation combinators ---------- *)
Lemma default_compile_inv : forall w ty st c st',
  default_compile w ty st = Ok (c, st') ->
  exists a sta s, fresh_covar st = Ok (a, sta) /\ w (CXVar CCns (new_id a) ty) sta = Ok (s, st') /\
                  c = CMu CPrd (new_id a) s ty.
Proof.
  intros w ty st c st' H. unfold default_compile in H. minv H. minv H. apply mret_inv in H. destruct H; subst.
  eauto 8.
Qed.
Lemma wc_var_inv : forall v ty cont st s st', wc_var v ty cont st = Ok (s, st') ->
  exists ty0, ty = Some ty0 /\ s = CCut (CXVar CPrd (new_id v) (compile_ty ty0)) (compile_ty ty0) cont /\ st' = st.
Proof.
  intros v ty cont st s st' H. unfold wc_var in H. minv H. apply mlift_inv in E. destruct E as [E ->].
  apply expect_ty_inv in E. apply mret_inv in H. destruct H; subst. eauto.
Qed.
Lemma cmp_var_inv : forall v ty st c st', cmp_var v ty st = Ok (c, st') ->
  exists ty0, ty = Some ty0 /\ c = CXVar CPrd (new_id v) (compile_ty ty0) /\ st' = st.
Proof.
  intros v ty st c st' H. unfold cmp_var in H. minv H. apply mlift_inv in E. destruct E as [E ->].
  apply expect_ty_inv in E. apply mret_inv in H. destruct H; subst. eauto.
Qed.
Lemma cmp_op_inv : forall ca o cb st c st', cmp_op ca o cb st = Ok (c, st') ->
  exists a st1 b, ca st = Ok (a, st1) /\ cb st1 = Ok (b, st') /\ c = COp a (op_of o) b.
Proof.
  intros ca o cb st c st' H. unfold cmp_op in H. minv H. minv H. apply mret_inv in H. destruct H; subst. eauto 8.
Qed.
Lemma wc_op_inv : forall ca o cb cont st s st', wc_op ca o cb cont st = Ok (s, st') ->
  exists a st1 b, ca st = Ok (a, st1) /\ cb st1 = Ok (b, st') /\ s = CCut (COp a (op_of o) b) CI64 cont.
Proof.
  intros ca o cb cont st s st' H. unfold wc_op in H. minv H. apply mret_inv in H. destruct H; subst.
  apply cmp_op_inv in E. destruct E as [a [st1 [b [E1 [E2 E3]]]]]. subst. eauto 8.
Qed.
Lemma wc_ifc_inv : forall cur so ca cb wt we cont st r st',
  wc_ifc cur so ca cb wt we cont st = Ok (r, st') ->
  exists cont1 st0 a sta b stb t stt e,
    (if cont_is_small cont then cont1 = cont /\ st0 = st else share cur cont st = Ok (cont1, st0)) /\
    ca st0 = Ok (a, sta) /\
    (match cb with
     | Some cb' => exists b', cb' sta = Ok (b', stb) /\ b = Some b'
     | None => b = None /\ stb = sta
     end) /\
    wt cont1 stb = Ok (t, stt) /\ we cont1 stt = Ok (e, st') /\ r = CIfC (sort_of so) a b t e.
Proof.
  intros cur so ca cb wt we cont st r st' H. unfold wc_ifc in H.
  minv H. minv H. minv H. minv H. minv H. apply mret_inv in H. destruct H; subst.
  exists x, st0, x0, st1, x1, st2, x2, st3, x3. repeat split; auto.
  - destruct (cont_is_small cont); [apply mret_inv in E; destruct E; subst; auto | exact E].
  - destruct cb as [cb'|].
    + minv E1. apply mret_inv in E1. destruct E1; subst. eauto.
    + apply mret_inv in E1. destruct E1; subst. auto.
Qed.
Lemma wc_print_inv : forall nl ca wnext cont st s st', wc_print nl ca wnext cont st = Ok (s, st') ->
  exists a st1 next, ca st = Ok (a, st1) /\ wnext cont st1 = Ok (next, st') /\ s = CPrint nl a next.
Proof.
  intros nl ca wnext cont st s st' H. unfold wc_print in H. minv H. minv H. apply mret_inv in H. destruct H; subst.
  eauto 8.
Qed.
Lemma wc_let_inv : forall codata v vty cbound wbound wbody cont st s st',
  wc_let codata v vty cbound wbound wbody cont st = Ok (s, st') ->
  ty_is_codata codata (compile_ty vty) = false ->
  exists body st1, wbody cont st = Ok (body, st1) /\
                   wbound (CMu CCns (new_id v) body (compile_ty vty)) st1 = Ok (s, st').
Proof.
  intros codata v vty cbound wbound wbody cont st s st' H Hc. unfold wc_let in H. minv H. rewrite Hc in H. eauto.
Qed.
Lemma wc_let_inv_codata : forall codata v vty cbound wbound wbody cont st s st',
  wc_let codata v vty cbound wbound wbody cont st = Ok (s, st') ->
  ty_is_codata codata (compile_ty vty) = true ->
  exists body st1 pb, wbody cont st = Ok (body, st1) /\ cbound (compile_ty vty) st1 = Ok (pb, st') /\
                      s = CCut pb (compile_ty vty) (CMu CCns (new_id v) body (compile_ty vty)).
Proof.
  intros codata v vty cbound wbound wbody cont st s st' H Hc. unfold wc_let in H. minv H. rewrite Hc in H.
  minv H. apply mret_inv in H. destruct H; subst. eauto 8.
Qed.
Lemma cmp_new_inv : forall ccls ty st c st', cmp_new ccls ty st = Ok (c, st') ->
  exists cls ty0, ccls st = Ok (cls, st') /\ ty = Some ty0 /\ c = CXCase CPrd cls (compile_ty ty0).
Proof.
  intros ccls ty st c st' H. unfold cmp_new in H. minv H. minv H.
  apply mlift_inv in E0. destruct E0 as [E0 ->]. apply expect_ty_inv in E0.
  apply mret_inv in H. destruct H; subst. eauto 8.
Qed.
Lemma wc_new_inv : forall ccls ty cont st s st', wc_new ccls ty cont st = Ok (s, st') ->
  exists cls ty0, ccls st = Ok (cls, st') /\ ty = Some ty0 /\
                  s = CCut (CXCase CPrd cls (compile_ty ty0)) (compile_ty ty0) cont.
Proof.
  intros ccls ty cont st s st' H. unfold wc_new in H. minv H.
  apply mlift_inv in E. destruct E as [E ->]. apply expect_ty_inv in E. minv H.
  apply cmp_new_inv in E0. destruct E0 as [cls [ty0 [E1 [E2 E3]]]]. subst.
  apply mret_inv in H. destruct H; subst. injection E2 as E2. subst. eauto 8.
Qed.
Lemma compile_coclause_inv : forall x ctx body_ty wbody st c st',
  compile_coclause x ctx body_ty wbody st = Ok (c, st') ->
  exists ty0 a sta body, body_ty = Some ty0 /\ fresh_covar st = Ok (a, sta) /\
    wbody (CXVar CCns (new_id a) (compile_ty ty0)) sta = Ok (body, st') /\
    c = CClause CPrd (new_id x) (compile_ctx ctx ++ [mkcb (new_id a) CCns (compile_ty ty0)]) body.
Proof.
  intros x ctx body_ty wbody st c st' H. unfold compile_coclause in H. minv H.
  apply mlift_inv in E. destruct E as [E ->]. apply expect_ty_inv in E. minv H. minv H.
  apply mret_inv in H. destruct H; subst. eauto 10.
Qed.
Lemma coclauses_with_cons_inv : forall wcf pl x names ctx body r st l st',
  coclauses_with wcf (FClause pl x names ctx body :: r) st = Ok (l, st') ->
  exists c st1 rest, compile_coclause x ctx (fterm_type body) (wcf body) st = Ok (c, st1) /\
                     coclauses_with wcf r st1 = Ok (rest, st') /\ l = c :: rest.
Proof.
  intros wcf pl x names ctx body r st l st' H. simpl in H. minv H. minv H. apply mret_inv in H. destruct H; subst.
  eauto 8.
Qed.
Lemma wc_dtor_inv : forall wscrut sty x cargs cont st s st', wc_dtor wscrut sty x cargs cont st = Ok (s, st') ->
  exists args st1 sty0, cargs st = Ok (args, st1) /\ sty = Some sty0 /\
    wscrut (CXtor CCns (new_id x) (args ++ [CConsumer cont]) (compile_ty sty0)) st1 = Ok (s, st').
Proof.
  intros wscrut sty x cargs cont st s st' H. unfold wc_dtor in H. minv H. minv H.
  apply mlift_inv in E0. destruct E0 as [E0 ->]. apply expect_ty_inv in E0. eauto 8.
Qed.
Lemma guard_capture_inv : forall binders w ty cont st s st',
  guard_capture false binders w ty cont st = Ok (s, st') ->
  (captures binders cont = false /\ w cont st = Ok (s, st')) \/
  (captures binders cont = true /\
   exists ty0 a sta s0,
     ty = Some ty0 /\ fresh_covar st = Ok (a, sta) /\
     captures binders (CXVar CCns (new_id a) (compile_ty ty0)) = false /\
     w (CXVar CCns (new_id a) (compile_ty ty0)) sta = Ok (s0, st') /\
     s = CCut (CMu CPrd (new_id a) s0 (compile_ty ty0)) (compile_ty ty0) cont).
Proof.
  intros binders w ty cont st s st' H. unfold guard_capture in H.
  destruct (captures binders cont) eqn:Ec; [right | left; auto]. split; [reflexivity|].
  minv H. apply mlift_inv in E. destruct E as [E ->]. apply expect_ty_inv in E. minv H. minv H.
  apply mret_inv in H. destruct H; subst.
  destruct (captures binders (CXVar CCns (new_id x0) (compile_ty x))) eqn:Ec2; [discriminate E1|].
  exists x, x0, st0, x1. repeat split; auto.
Qed.
Lemma guard_capture_legacy : forall binders w ty cont, guard_capture true binders w ty cont = w cont.
Proof. reflexivity. Qed.
Lemma wc_call_inv : forall f cargs ret cont st s st', wc_call f cargs ret cont st = Ok (s, st') ->
  exists args ret0, cargs st = Ok (args, st') /\ ret = Some ret0 /\
                    s = CCall (new_id f) (args ++ [CConsumer cont]) (compile_ty ret0).
Proof.
  intros f cargs ret cont st s st' H. unfold wc_call in H. minv H. minv H.
  apply mlift_inv in E0. destruct E0 as [E0 ->]. apply expect_ty_inv in E0.
  apply mret_inv in H. destruct H; subst. eauto 8.
Qed.
Lemma cmp_ctor_inv : forall x cargs ty st c st', cmp_ctor x cargs ty st = Ok (c, st') ->
  exists args ty0, cargs st = Ok (args, st') /\ ty = Some ty0 /\ c = CXtor CPrd (new_id x) args (compile_ty ty0).
Proof.
  intros x cargs ty st c st' H. unfold cmp_ctor in H. minv H. minv H.
  apply mlift_inv in E0. destruct E0 as [E0 ->]. apply expect_ty_inv in E0.
  apply mret_inv in H. destruct H; subst. eauto 8.
Qed.
Lemma wc_ctor_inv : forall x cargs ty cont st s st', wc_ctor x cargs ty cont st = Ok (s, st') ->
  exists args ty0, cargs st = Ok (args, st') /\ ty = Some ty0 /\
                   s = CCut (CXtor CPrd (new_id x) args (compile_ty ty0)) (compile_ty ty0) cont.
Proof.
  intros x cargs ty cont st s st' H. unfold wc_ctor in H. minv H.
  apply mlift_inv in E. destruct E as [E ->]. apply expect_ty_inv in E. minv H.
  apply cmp_ctor_inv in E0. destruct E0 as [args [ty0 [E1 [E2 E3]]]]. subst.
  apply mret_inv in H. destruct H; subst. injection E2 as E2. subst. eauto 8.
Qed.
Lemma wc_case_inv : forall cur wscrut sty n ccls cont st s st',
  wc_case cur wscrut sty n ccls cont st = Ok (s, st') ->
  exists cont1 st0 cls st1 sty0,
    (if Nat.leb n 1 || cont_is_small cont then cont1 = cont /\ st0 = st else share cur cont st = Ok (cont1, st0)) /\
    ccls cont1 st0 = Ok (cls, st1) /\ sty = Some sty0 /\
    wscrut (CXCase CCns cls (compile_ty sty0)) st1 = Ok (s, st').
Proof.
  intros cur wscrut sty n ccls cont st s st' H. unfold wc_case in H. minv H. minv H. minv H.
  apply mlift_inv in E1. destruct E1 as [E1 ->]. apply expect_ty_inv in E1. subst.
  exists x, st0, x0, st1, x1. repeat split; auto.
  destruct (Nat.leb n 1 || cont_is_small cont); [apply mret_inv in E; destruct E; subst; auto | exact E].
Qed.
Lemma compile_clause_inv : forall x ctx wbody cont st c st', compile_clause x ctx wbody cont st = Ok (c, st') ->
  exists body, wbody cont st = Ok (body, st') /\ c = CClause CCns (new_id x) (compile_ctx ctx) body.
Proof.
  intros x ctx wbody cont st c st' H. unfold compile_clause in H. minv H. apply mret_inv in H. destruct H; subst. eauto.
Qed.
Lemma wc_exit_inv : forall ca ty st s st', wc_exit ca ty st = Ok (s, st') ->
  exists a ty0, ca st = Ok (a, st') /\ ty = Some ty0 /\ s = CExit a (compile_ty ty0).
Proof.
  intros ca ty st s st' H. unfold wc_exit in H. minv H. minv H.
  apply mlift_inv in E0. destruct E0 as [E0 ->]. apply expect_ty_inv in E0.
  apply mret_inv in H. destruct H; subst. eauto 8.
Qed.
Lemma cmp_label_inv : forall l wterm ty st c st', cmp_label l wterm ty st = Ok (c, st') ->
  exists ty0 s, ty = Some ty0 /\ wterm (CXVar CCns (new_id l) (compile_ty ty0)) st = Ok (s, st') /\
                c = CMu CPrd (new_id l) s (compile_ty ty0).
Proof.
  intros l wterm ty st c st' H. unfold cmp_label in H. minv H.
  apply mlift_inv in E. destruct E as [E ->]. apply expect_ty_inv in E. minv H.
  apply mret_inv in H. destruct H; subst. eauto 8.
Qed.
Lemma wc_label_inv : forall l wterm ty cont st s st', wc_label l wterm ty cont st = Ok (s, st') ->
  exists ty0 s0, ty = Some ty0 /\ wterm (CXVar CCns (new_id l) (compile_ty ty0)) st = Ok (s0, st') /\
                 s = CCut (CMu CPrd (new_id l) s0 (compile_ty ty0)) (compile_ty ty0) cont.
Proof.
  intros l wterm ty cont st s st' H. unfold wc_label in H. minv H.
  apply mlift_inv in E. destruct E as [E ->]. apply expect_ty_inv in E. minv H.
  apply cmp_label_inv in E0. destruct E0 as [ty0 [s0 [E1 [E2 E3]]]]. subst. injection E1 as E1. subst.
  apply mret_inv in H. destruct H; subst. eauto 8.
Qed.
Lemma wc_goto_inv : forall l wterm ty tty st s st', wc_goto false l wterm ty tty st = Ok (s, st') ->
  exists ty0, tty = Some ty0 /\ wterm (CXVar CCns (new_id l) (compile_ty ty0)) st = Ok (s, st').
Proof.
  intros l wterm ty tty st s st' H. unfold wc_goto in H. minv H.
  apply mlift_inv in E. destruct E as [E ->]. apply expect_ty_inv in E. eauto.
Qed.
Lemma compile_arg_inv : forall t cmp_t st a st', compile_arg t cmp_t st = Ok (a, st') ->
  (exists v ty ty0, t = FVar v ty (Some FCns) /\ ty = Some ty0 /\
                    a = CConsumer (CXVar CCns (new_id v) (compile_ty ty0)) /\ st' = st) \/
  (match t with FVar _ _ (Some FCns) => False | _ => True end /\
   exists ty0 c, fterm_type t = Some ty0 /\ cmp_t (compile_ty ty0) st = Ok (c, st') /\ a = CProducer c).
Proof.
  intros t cmp_t st a st' H.
  assert (Hgen : (dom ty <- mlift (expect_ty (fterm_type t)); dom p <- cmp_t (compile_ty ty); mret (CProducer p)) st
                 = Ok (a, st') ->
                 exists ty0 c, fterm_type t = Some ty0 /\ cmp_t (compile_ty ty0) st = Ok (c, st') /\ a = CProducer c).
  { intros G. minv G. apply mlift_inv in E. destruct E as [E ->]. apply expect_ty_inv in E. minv G.
    apply mret_inv in G. destruct G; subst. eauto. }
  unfold compile_arg in H. destruct t; try (right; split; [exact I | apply Hgen; exact H]).
  destruct chi as [[|]|]; try (right; split; [exact I | apply Hgen; exact H]).
  left. minv H. apply mlift_inv in E. destruct E as [E ->]. apply expect_ty_inv in E.
  apply mret_inv in H. destruct H; subst. eauto 8.
Qed.
Lemma subst_with_cons_inv : forall cmpf y r st l st', subst_with cmpf (y :: r) st = Ok (l, st') ->
  exists a st1 rest, compile_arg y (cmpf y) st = Ok (a, st1) /\ subst_with cmpf r st1 = Ok (rest, st') /\ l = a :: rest.
Proof.
  intros cmpf y r st l st' H. simpl in H. minv H. minv H. apply mret_inv in H. destruct H; subst. eauto 8.
Qed.
Lemma clauses_with_cons_inv : forall wcf cont pl x names ctx body r st l st',
  clauses_with wcf cont (FClause pl x names ctx body :: r) st = Ok (l, st') ->
  exists c st1 rest, compile_clause x ctx (wcf body) cont st = Ok (c, st1) /\
                     clauses_with wcf cont r st1 = Ok (rest, st') /\ l = c :: rest.
Proof.
  intros wcf cont pl x names ctx body r st l st' H. simpl in H. minv H. minv H. apply mret_inv in H. destruct H; subst.
  eauto 8.
Qed.

(* ---------- scopes: a list of Core bindings, first match by name ---------- *)
Lemma gl_cons : forall b0 G x, gl (b0 :: G) x = if cident_eqb (cbvar b0) x then Some b0 else gl G x.
Proof. reflexivity. Qed.
Lemma gl_name : forall G x b, gl G x = Some b -> cbvar b = x.
Proof. intros G x b H. unfold gl in H. apply find_some in H. destruct H as [_ H]. apply cid_eqb_eq in H. exact H. Qed.
Lemma gl_In : forall G x b, gl G x = Some b -> In b G.
Proof. intros G x b H. unfold gl in H. apply find_some in H. tauto. Qed.
Lemma gl_app : forall A G x b, gl (A ++ G) x = Some b -> In b A \/ gl G x = Some b.
Proof.
  induction A as [|a A IH]; intros G x b H; simpl in *; [right; exact H|].
  destruct (cident_eqb (cbvar a) x).
  - injection H as H. left. left. exact H.
  - destruct (IH _ _ _ H) as [H1|H1]; [left; right; exact H1 | right; exact H1].
Qed.

Lemma var_ok_inv : forall G v ty chi, var_ok G v ty chi = true ->
  exists ty0, ty = Some ty0 /\ gl G (new_id v) = Some (mkcb (new_id v) chi (compile_ty ty0)).
Proof.
  intros G v ty chi H. unfold var_ok in H. destruct ty as [ty0|]; [|discriminate].
  destruct (gl G (new_id v)) as [b|] eqn:E; [|discriminate]. apply cbinding_eqb_eq in H. subst b. eauto.
Qed.

Lemma disj_spec : forall a b, disj a b = true -> forall x, In x a -> In x b -> False.
Proof.
  intros a b H x Ha Hb. unfold disj, inter_nonempty in H. apply negb_true_iff in H.
  assert (existsb (fun x0 => mem x0 b) a = true); [|congruence].
  apply existsb_exists. exists x. split; [exact Ha | apply mem_In; exact Hb].
Qed.

Section Frag.
  Variable p : fcprog.
  Definition codata_of : list ctydecl := map compile_codata (fcpcodata p).
  Lemma ty_is_codata_compile : forall ty, ty_is_codata codata_of (compile_ty ty) = f_is_codata p ty.
  Proof.
    intros ty. destruct ty as [|n targs]; [reflexivity|].
    unfold compile_ty, ty_is_codata, f_is_codata, codata_of.
    induction (fcpcodata p) as [|d r IH]; [reflexivity|].
    cbn [map existsb]. rewrite IH. f_equal. unfold compile_codata. cbn [ctname]. apply cid_eqb_new_id.
  Qed.
End Frag.
