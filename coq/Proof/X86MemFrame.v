(* Groundwork for the refinement of `x_store` / `x_load` (Proof/X86MemStore.v, Proof/X86MemLoad.v):
     - the temporaries of environment positions (`tpos`), as locations;
     - heap words under a write (`hword_hset`), block arithmetic, words that are not block headers;
     - single instructions with an offset, code placement of concatenations;
     - congruence of the abstract operations for the block-wise equality `st_eqB`;
     - the refinement theorems of Proof/X86Mem.v for share (register), erase (register) and
       acquire_block (register and spill slot) once more, with the additional conclusion that no
       word other than a block header changes (`nonblk_same`): the integer slots of a block survive.
   Nothing of Proof/X86Mem.v is changed; the proofs of the `_frame` theorems follow the original ones. *)
From Coq Require Import List ZArith NArith String Bool Lia FMapPositive.
From SCC Require Import Base.Sexp Lang.AxSyn Sem.AxSem Model.Backend Model.X86 Sem.X86Sem Generated.Constants
  Proof.X86State Proof.X86Sel Proof.X86Mem.
From SCC Require Model.Heap.
Import ListNotations.
Open Scope Z_scope.

(* ---------- temporaries of environment positions ---------- *)
Definition tpos (k : N) : xtemp := (if k + 4 <? 16 then XR (k + 4) else XS (k - 11))%N.
Definition MAXPOS : N := 267.

Lemma tfp_tpos k t : temporary_from_position k = Ok t -> t = tpos k /\ (k < MAXPOS)%N.
Proof.
  unfold temporary_from_position, tpos, MAXPOS.
  change RESERVED with 4%N. change REGISTER_NUM with 16%N. change RESERVED_SPILLS with 1%N. change SPILL_NUM with 256%N.
  destruct (N.ltb_spec (k + 4) 16); [intros H0; inversion H0; split; [reflexivity|lia]|].
  destruct (N.ltb_spec (k + 4 - 16 + 1) 256); [|discriminate].
  intros H1. inversion H1. split; [f_equal; lia|lia].
Qed.
Lemma tpos_tfp k : (k < MAXPOS)%N -> temporary_from_position k = Ok (tpos k).
Proof.
  unfold temporary_from_position, tpos, MAXPOS.
  change RESERVED with 4%N. change REGISTER_NUM with 16%N. change RESERVED_SPILLS with 1%N. change SPILL_NUM with 256%N.
  intros Hk. destruct (N.ltb_spec (k + 4) 16); [reflexivity|].
  destruct (N.ltb_spec (k + 4 - 16 + 1) 256); [|lia]. do 2 f_equal. lia.
Qed.
Lemma x_fresh_tpos n c t :
  x_fresh n c = Ok t -> t = tpos (2 * N.of_nat (List.length c) + tnum_n n) /\ (2 * N.of_nat (List.length c) + tnum_n n < MAXPOS)%N.
Proof. apply tfp_tpos. Qed.
Lemma tpos_loc_ok k : (k < MAXPOS)%N -> loc_ok (tpos k).
Proof.
  unfold tpos, MAXPOS. intros Hk. destruct (N.ltb_spec (k + 4) 16); cbn [loc_ok]; [lia|].
  unfold slot_ok. change SPILL_NUM with 256%N. lia.
Qed.
Lemma tpos_inj k k' : tpos k = tpos k' -> k = k'.
Proof.
  unfold tpos. destruct (N.ltb_spec (k + 4) 16), (N.ltb_spec (k' + 4) 16); intros E; inversion E; lia.
Qed.
Lemma tpos_neq k k' : k <> k' -> tpos k <> tpos k'.
Proof. intros H E. apply H. now apply tpos_inj. Qed.
Lemma tpos_reg k r : tpos k = XR r -> r = (k + 4)%N /\ (k < 12)%N.
Proof. unfold tpos. destruct (N.ltb_spec (k + 4) 16); intros E; inversion E. split; [reflexivity|lia]. Qed.
Lemma tpos_slot k q : tpos k = XS q -> q = (k - 11)%N /\ (12 <= k)%N.
Proof. unfold tpos. destruct (N.ltb_spec (k + 4) 16); intros E; inversion E. split; [reflexivity|lia]. Qed.
(* a temporary of a position is none of the reserved locations *)
Lemma tpos_not_reserved k : tpos k <> XR 0%N /\ tpos k <> XR TEMP /\ tpos k <> XR HEAP /\ tpos k <> XR FREE /\ tpos k <> XS SPILL_TEMP.
Proof.
  unfold tpos. change TEMP with 1%N. change HEAP with 2%N. change FREE with 3%N. change SPILL_TEMP with 0%N.
  destruct (N.ltb_spec (k + 4) 16); repeat split; intros E; inversion E; lia.
Qed.
Lemma tpos_not_temp k : tpos k <> XR TEMP. Proof. apply tpos_not_reserved. Qed.

(* ---------- heap words ---------- *)
Lemma key_pos_eq a b : 0 < a -> key a = key b -> a = b.
Proof.
  unfold key. intros Ha E. destruct (Z_le_gt_dec b 0) as [Hb|Hb].
  - rewrite (Z2Pos.to_pos_nonpos (b + 1)) in E by lia.
    apply (f_equal Z.pos) in E. rewrite Z2Pos.id in E by lia. lia.
  - apply (f_equal Z.pos) in E. rewrite !Z2Pos.id in E by lia. lia.
Qed.
Lemma hword_hset s a z b : 0 < a -> hword (hset s a z) b = if b =? a then z else hword s b.
Proof.
  intros Ha. unfold hword, hset; cbn [heap]. destruct (Z.eqb_spec b a) as [->|Hne].
  - now rewrite PM.gss.
  - rewrite PM.gso; auto. intro E. symmetry in E. apply key_pos_eq in E; auto.
Qed.
Lemma hword_sset s sp q v a : hword (sset s sp q v) a = hword s a. Proof. reflexivity. Qed.
Lemma hword_lset s sp t v a : hword (lset s sp t v) a = hword s a. Proof. destruct t; reflexivity. Qed.

Definition nonblk_same (s s' : xstate) : Prop := forall a, ~ is_blk a -> hword s' a = hword s a.
Lemma nonblk_same_refl s : nonblk_same s s. Proof. intros a _. reflexivity. Qed.
Lemma nonblk_same_trans s1 s2 s3 : nonblk_same s1 s2 -> nonblk_same s2 s3 -> nonblk_same s1 s3.
Proof. intros A B a Ha. rewrite B, A; auto. Qed.
Lemma nonblk_same_hset s p z : is_blk p -> nonblk_same s (hset s p z).
Proof.
  intros Hb a Ha. rewrite hword_hset by (pose proof (is_blk_range p Hb); destruct Hb as (k & Hk & -> & _); unfold HEAP_BASE; lia).
  destruct (Z.eqb_spec a p); [subst; contradiction|reflexivity].
Qed.

Lemma is_blk_pos p : is_blk p -> 0 < p.
Proof. intros (k & Hk & -> & _). unfold HEAP_BASE. lia. Qed.
Lemma is_blk_apart p q : is_blk p -> is_blk q -> p <> q -> p + 64 <= q \/ q + 64 <= p.
Proof. intros (k & Hk & -> & _) (j & Hj & -> & _) H. lia. Qed.
Lemma not_blk_off p i : is_blk p -> 0 < i < 64 -> ~ is_blk (p + i).
Proof. intros (k & Hk & -> & _) Hi (j & Hj & E & _). lia. Qed.
Lemma is_blk_word p i : is_blk p -> 0 <= i < 64 -> i mod 8 = 0 -> heap_addr (p + i).
Proof.
  intros (k & Hk & -> & Hhi) Hi Hm. unfold heap_addr, HEAP_BASE, HEAP_SIZE in *.
  pose proof (Z.div_mod i 8 ltac:(lia)) as Hd. rewrite Hm in Hd. repeat split; try lia.
  replace (268435456 + 64 * k + i) with (i + (33554432 + 8 * k) * 8) by lia. rewrite Z.mod_add by lia. exact Hm.
Qed.
Lemma field_offset_val n j : field_offset n j = 16 + 16 * Z.of_N j + 8 * Z.of_N (tnum_n n).
Proof. unfold field_offset, address. change X86C.address1 with 8. lia. Qed.
Lemma field_addr p n j : is_blk p -> (j < 3)%N -> heap_addr (p + field_offset n j).
Proof.
  intros Hb Hj. rewrite field_offset_val. apply is_blk_word; auto.
  - destruct n; cbn [tnum_n]; lia.
  - destruct n; cbn [tnum_n]; [replace (16 + 16 * Z.of_N j + 8 * Z.of_N 0) with (0 + (2 + 2 * Z.of_N j) * 8) by lia
                              |replace (16 + 16 * Z.of_N j + 8 * Z.of_N 1) with (0 + (3 + 2 * Z.of_N j) * 8) by lia];
      rewrite Z.mod_add by lia; reflexivity.
Qed.
Lemma field_not_blk p n j : is_blk p -> (j < 3)%N -> ~ is_blk (p + field_offset n j).
Proof. intros Hb Hj. rewrite field_offset_val. apply not_blk_off; auto. destruct n; cbn [tnum_n]; lia. Qed.

(* ---------- what is left alone ---------- *)
Lemma same_but_temp_refl s : same_but_temp s s. Proof. repeat split; reflexivity. Qed.
Lemma same_but_temp_trans s1 s2 s3 : same_but_temp s1 s2 -> same_but_temp s2 s3 -> same_but_temp s1 s3.
Proof.
  intros (A1 & A2 & A3) (B1 & B2 & B3). split; [|split; congruence]. intros r Hr. rewrite B1, A1; auto.
Qed.
Lemma same_but_temp_lget s s' sp t : same_but_temp s s' -> t <> XR TEMP -> lget s' sp t = lget s sp t.
Proof. intros (A & B & _) Ht. destruct t as [r|q]; cbn [lget]; [apply A; congruence|unfold sget; now rewrite B]. Qed.
Lemma same_but_temp_frame s s' sp : same_but_temp s s' -> frame_ok s sp -> frame_ok s' sp.
Proof. intros (A & _) (B & C). split; [rewrite A by discriminate; exact B|exact C]. Qed.

(* ---------- single instructions, with an offset ---------- *)
Section Steps.
Variable im : image.
Lemma step_MOVS_heap_off s a b i p v :
  rget s b = Some p -> heap_addr (p + i) -> rget s a = Some v -> step im (MOVS a b i) s = Next (hset s (p + i) v).
Proof. intros R H A. cbn [step]. rewrite (ea_heap s b i p) by auto. unfold withm. now rewrite A, mstore_heap. Qed.
Lemma step_MOVIM_heap_off s a i p j :
  rget s a = Some p -> heap_addr (p + i) -> fits32 j = true -> step im (MOVIM a i j) s = Next (hset s (p + i) j).
Proof. intros R H J. cbn [step]. rewrite J, (ea_heap s a i p) by auto. unfold withm. now rewrite mstore_heap. Qed.
End Steps.

(* ---------- placed code: concatenations ---------- *)
Lemma code_at_app2 im pos a b : code_at im pos (a ++ b) -> code_at im pos a /\ code_at im (pnth pos (List.length a)) b.
Proof.
  intros H. split.
  - intros n c Hn. apply H. rewrite nth_error_app1; auto. apply nth_error_Some. congruence.
  - intros n c Hn. rewrite pnth_add. apply H. rewrite nth_error_app2 by lia.
    now replace (List.length a + n - List.length a)%nat with n by lia.
Qed.
Lemma labels_at_app2 im pos a b : labels_at im pos (a ++ b) -> labels_at im pos a /\ labels_at im (pnth pos (List.length a)) b.
Proof.
  intros H. split.
  - intros n c Hn. apply H. rewrite nth_error_app1; auto. apply nth_error_Some. congruence.
  - intros n c Hn. rewrite pnth_add. apply H. rewrite nth_error_app2 by lia.
    now replace (List.length a + n - List.length a)%nat with n by lia.
Qed.
Lemma steps_app_len im pos (a b : list xcode) s s1 s2 :
  steps im pos s (pnth pos (List.length a)) s1 ->
  steps im (pnth pos (List.length a)) s1 (pnth (pnth pos (List.length a)) (List.length b)) s2 ->
  steps im pos s (pnth pos (List.length (a ++ b))) s2.
Proof. intros A B. rewrite app_length, <- pnth_add. eapply steps_trans; eassumption. Qed.

(* ---------- the abstract operations respect the block-wise equality ---------- *)
Lemma share_st_eqB a b p n : st_eqB a b -> (p = 0 \/ is_blk p) -> st_eqB (Heap.share p n a) (Heap.share p n b).
Proof.
  intros (A1 & A2 & A3 & A4) Hp. unfold Heap.share. destruct (Z.eqb_spec p 0); [repeat split; auto|].
  destruct Hp as [|Hb]; [contradiction|]. split; [|split; [|split]]; cbn; auto.
  intros x Hx. unfold Heap.set_hdr, Heap.upd. destruct (x =? p); rewrite ?(A4 p Hb), ?(A4 x Hx); auto.
Qed.
Lemma dec_st_eqB a b p : st_eqB a b -> is_blk p -> st_eqB (Heap.dec p a) (Heap.dec p b).
Proof.
  intros (A1 & A2 & A3 & A4) Hb. unfold Heap.dec. split; [|split; [|split]]; cbn; auto.
  intros x Hx. unfold Heap.set_hdr, Heap.upd. destruct (x =? p); rewrite ?(A4 p Hb), ?(A4 x Hx); auto.
Qed.
Lemma release_st_eqB a b p : st_eqB a b -> is_blk p -> st_eqB (Heap.release p a) (Heap.release p b).
Proof.
  intros (A1 & A2 & A3 & A4) Hb. unfold Heap.release. split; [|split; [|split]]; cbn; auto.
  intros x Hx. unfold Heap.set_hdr, Heap.upd. destruct (x =? p); rewrite ?A1, ?(A4 p Hb), ?(A4 x Hx); auto.
Qed.
Lemma erase_list_st_eqB l : forall a b,
  st_eqB a b -> Forall (fun c => c = 0 \/ is_blk c) l ->
  st_eqB (fold_left (fun s c => Heap.erase c s) l a) (fold_left (fun s c => Heap.erase c s) l b).
Proof.
  induction l as [|c l IH]; intros a b E Hl; cbn [fold_left]; auto.
  inversion Hl; subst. apply IH; auto. now apply erase_st_eqB.
Qed.
Lemma acquire_st_eqB a b :
  st_eqB a b -> is_blk (Heap.heap a) ->
  (Heap.hdr (Heap.m a (Heap.heap a)) = 0 -> is_blk (Heap.free a)) ->
  (Heap.hdr (Heap.m a (Heap.heap a)) = 0 -> Heap.hdr (Heap.m a (Heap.free a)) <> 0 ->
     Forall (fun c => c = 0 \/ is_blk c) (Heap.ps (Heap.m a (Heap.free a)))) ->
  fst (Heap.acquire a) = fst (Heap.acquire b) /\ st_eqB (snd (Heap.acquire a)) (snd (Heap.acquire b)).
Proof.
  intros E Hh Hf Hk. pose proof E as (A1 & A2 & A3 & A4). unfold Heap.acquire.
  rewrite <- A1, <- A2, <- (A4 _ Hh).
  destruct (Z.eqb_spec (Heap.hdr (Heap.m a (Heap.heap a))) 0) as [H0|Hn0]; cbn [negb].
  2:{ cbn [fst snd]. split; [reflexivity|]. split; [|split; [|split]]; cbn; auto.
      intros x Hx. unfold Heap.set_hdr, Heap.upd. destruct (x =? Heap.heap a); rewrite ?(A4 _ Hh), ?(A4 x Hx); auto. }
  specialize (Hf H0). rewrite <- (A4 _ Hf).
  destruct (Z.eqb_spec (Heap.hdr (Heap.m a (Heap.free a))) 0) as [F0|Fn0]; cbn [fst snd].
  - split; [reflexivity|]. split; [|split; [|split]]; cbn; auto.
  - split; [reflexivity|]. apply erase_list_st_eqB; [|now apply Hk].
    split; [|split; [|split]]; cbn; auto.
    intros x Hx. unfold Heap.set_hdr, Heap.upd. destruct (x =? Heap.free a); rewrite ?(A4 _ Hf), ?(A4 x Hx); auto.
Qed.

(* ====================================================================================== *)
Section Refine.
Variable im : image.

Ltac nxt HC k := eapply steps_next; [apply (HC k); reflexivity| |].
Ltac jmp HC k := eapply steps_jump; [apply (HC k); reflexivity| |].
Ltac rg := repeat first [rewrite rget_set_flags | rewrite rget_hset | rewrite rget_sset | rewrite rget_rset_other by (first [congruence|discriminate])].

(* ---------- share_block_n, the pointer in a register; the exact words afterwards ---------- *)
Theorem x86_share_reg_frame pos r n lc s p F :
  let cs := fst (x_share_block_n (XR r) n lc) in
  code_at im pos cs -> labels_at im pos cs ->
  rget s r = Some p -> (p = 0 \/ is_blk p) -> fits32 (Z.of_N n) = true ->
  (p <> 0 -> wrap (hword s p + Z.of_N n) = hword s p + Z.of_N n) ->
  exists s', steps im pos s (pnth pos (List.length cs)) s' /\
     st_eqB (abs_heap F s') (Heap.share p (Z.of_N n) (abs_heap F s)) /\
     (forall r', rget s' r' = rget s r') /\ stack s' = stack s /\ out s' = out s /\
     (forall a, hword s' a = if negb (p =? 0) && (a =? p) then hword s p + Z.of_N n else hword s a).
Proof.
  intros cs HC HL P Hp Hn Hw. unfold cs in *. clear cs.
  cbn [x_share_block_n skip_if_zero compare_immediate fst app List.length] in *.
  destruct (Z.eq_dec p 0) as [->|Hp0].
  + exists (set_flags s (Some (0, 0))). split; [|split; [|split; [|split; [|split]]]].
    * nxt HC 0%nat. { apply step_CMPI0. exact P. }
      jmp HC 1%nat. { rewrite (step_JEL im _ _ 0 0) by reflexivity. cbn [Z.eqb]. unfold goto_label. rewrite (HL 3%nat _ eq_refl). reflexivity. }
      nxt HC 3%nat. { reflexivity. }
      apply steps_refl.
    * unfold Heap.share. cbn [Z.eqb]. repeat split; reflexivity.
    * reflexivity.
    * reflexivity.
    * reflexivity.
    * intros a. reflexivity.
  + destruct Hp as [|Hb]; [contradiction|]. pose proof (blk_heap_addr p Hb) as Ha.
    exists (set_flags (hset (set_flags s (Some (p, 0))) p (wrap (hword s p + Z.of_N n))) None). split; [|split; [|split; [|split; [|split]]]].
    * nxt HC 0%nat. { apply step_CMPI0. exact P. }
      nxt HC 1%nat. { rewrite (step_JEL im _ _ p 0) by reflexivity. destruct (Z.eqb_spec p 0); [contradiction|reflexivity]. }
      nxt HC 2%nat. { change REFERENCE_COUNT_OFFSET with 0. eapply step_ADDIM_heap; [exact P|exact Ha|exact Hn]. }
      nxt HC 3%nat. { reflexivity. }
      apply steps_refl.
    * unfold Heap.share. destruct (Z.eqb_spec p 0); [contradiction|].
      split; [reflexivity|split; [reflexivity|split; [reflexivity|]]].
      intros x Hx. cbn [abs_heap Heap.m]. rewrite Hw by auto.
      change (abs_mem (set_flags (hset (set_flags s (Some (p, 0))) p (hword s p + Z.of_N n)) None) x)
        with (abs_mem (hset s p (hword s p + Z.of_N n)) x).
      now apply abs_mem_hset.
    * reflexivity.
    * reflexivity.
    * reflexivity.
    * intros a. rewrite hword_set_flags, hword_hset by (now apply is_blk_pos). rewrite Hw by auto.
      destruct (Z.eqb_spec p 0); [contradiction|]. cbn [negb andb]. reflexivity.
Qed.

(* ---------- erase_block, the pointer in a register ---------- *)
Theorem x86_erase_reg_frame pos r lc s sp p f F :
  let cs := fst (x_erase_block (XR r) lc) in
  code_at im pos cs -> labels_at im pos cs ->
  frame_ok s sp -> loc_ok (XR r) -> lget s sp (XR r) = Some p -> rget s FREE = Some f ->
  (p = 0 \/ is_blk p) ->
  (p <> 0 -> hword s p <> 0 -> wrap (hword s p + -1) = hword s p - 1) ->
  exists s', steps im pos s (pnth pos (List.length cs)) s' /\
     st_eqB (abs_heap F s') (Heap.erase p (abs_heap F s)) /\
     same_but_temp_free s s' /\ (frame_ok s' sp /\ rget s' FREE = Some (Heap.free (Heap.erase p (abs_heap F s)))) /\
     nonblk_same s s'.
Proof.
  intros cs HC HL FR T P Hf Hp Hw. unfold cs in *. clear cs.
  assert (HeapReg : forall s', same_but_temp_free s s' -> reg_or0 s' HEAP = reg_or0 s HEAP).
  { intros s' (H & _). unfold reg_or0. now rewrite H by discriminate. }
  assert (Ff : reg_or0 s FREE = f) by (unfold reg_or0; now rewrite Hf).
  assert (EF0 : Heap.free (Heap.erase 0 (abs_heap F s)) = f) by exact Ff.
  assert (EFL : p <> 0 -> hword s p = 0 -> Heap.free (Heap.erase p (abs_heap F s)) = p).
  { intros A B. unfold Heap.erase. destruct (Z.eqb_spec p 0); [contradiction|].
    change (Heap.hdr (Heap.m (abs_heap F s) p)) with (hword s p). rewrite B. reflexivity. }
  assert (EFD : p <> 0 -> hword s p <> 0 -> Heap.free (Heap.erase p (abs_heap F s)) = f).
  { intros A B. unfold Heap.erase. destruct (Z.eqb_spec p 0); [contradiction|].
    change (Heap.hdr (Heap.m (abs_heap F s) p)) with (hword s p). destruct (Z.eqb_spec (hword s p) 0); [contradiction|exact Ff]. }
  cbn [x_erase_block erase_valid_object if_zero_then_else skip_if_zero compare_immediate fst snd app List.length] in *; cbn [lget loc_ok] in *.
  - (* register *)
    destruct (Z.eq_dec p 0) as [->|Hp0].
    + exists (set_flags s (Some (0, 0))). split; [|split; [|split; [|split]]].
      * nxt HC 0%nat. { apply step_CMPI0. exact P. }
        jmp HC 1%nat. { rewrite (step_JEL im _ _ 0 0) by reflexivity. cbn [Z.eqb]. unfold goto_label. rewrite (HL 10%nat _ eq_refl). reflexivity. }
        nxt HC 10%nat. { reflexivity. }
        apply steps_refl.
      * unfold Heap.erase. cbn [Z.eqb]. repeat split; reflexivity.
      * repeat split; reflexivity.
      * split; [now apply frame_ok_set_flags|]. rewrite EF0. exact Hf.
      * intros a _; reflexivity.
    + destruct Hp as [|Hb]; [contradiction|]. pose proof (blk_heap_addr p Hb) as Ha.
      set (s1 := set_flags s (Some (p, 0))).
      set (s2 := set_flags s1 (Some (hword s p, 0))).
      destruct (Z.eq_dec (hword s p) 0) as [Hh|Hh].
      * (* last reference: onto the deferred list *)
        set (s3 := hset s2 p f).
        exists (rset s3 FREE (Some p)).
        assert (SB : same_but_temp_free s (rset s3 FREE (Some p))).
        { split; [|split; reflexivity]. intros r' _ Hr. rewrite rget_rset_other by congruence. reflexivity. }
        split; [|split; [|split; [|split]]].
        -- nxt HC 0%nat. { apply step_CMPI0. exact P. }
           nxt HC 1%nat. { rewrite (step_JEL im _ _ p 0) by reflexivity. destruct (Z.eqb_spec p 0); [contradiction|reflexivity]. }
           nxt HC 2%nat. { change REFERENCE_COUNT_OFFSET with 0. eapply step_CMPIM0_heap; [exact P|exact Ha]. }
           jmp HC 3%nat. { rewrite (step_JEL im _ _ (hword s p) 0) by reflexivity. rewrite Hh. cbn [Z.eqb]. unfold goto_label. rewrite (HL 6%nat _ eq_refl). reflexivity. }
           nxt HC 6%nat. { reflexivity. }
           nxt HC 7%nat. { change NEXT_ELEMENT_OFFSET with 0. eapply step_MOVS_heap; [exact P|exact Ha|exact Hf]. }
           nxt HC 8%nat. { cbn [step]. reflexivity. }
           nxt HC 9%nat. { reflexivity. }
           nxt HC 10%nat. { reflexivity. }
           match goal with |- steps _ _ (rset _ FREE ?v) _ _ => change v with (rget s r) end. rewrite P. apply steps_refl.
        -- unfold Heap.erase. destruct (Z.eqb_spec p 0); [contradiction|].
           change (Heap.hdr (Heap.m (abs_heap F s) p)) with (hword s p). rewrite Hh. cbn [Z.eqb].
           split; [apply (HeapReg _ SB)|split; [|split; [reflexivity|]]].
           ++ cbn [abs_heap Heap.free]. unfold reg_or0. now rewrite rget_rset_same.
           ++ intros x Hx. cbn [abs_heap Heap.m Heap.free]. rewrite Ff.
              change (abs_mem (rset s3 FREE (Some p)) x) with (abs_mem (hset s p f) x). now apply abs_mem_hset.
        -- exact SB.
        -- split; [apply frame_ok_rset; [discriminate|]; apply frame_ok_hset, frame_ok_set_flags, frame_ok_set_flags, FR|]. rewrite EFL by auto. apply rget_rset_same.
        -- intros a0 Hnb; exact (nonblk_same_hset s p f Hb a0 Hnb).
      * (* other references remain: decrement *)
        exists (set_flags (hset s2 p (wrap (hword s p + -1))) None).
        assert (SB : same_but_temp_free s (set_flags (hset s2 p (wrap (hword s p + -1))) None)).
        { repeat split; reflexivity. }
        split; [|split; [|split; [|split]]].
        -- nxt HC 0%nat. { apply step_CMPI0. exact P. }
           nxt HC 1%nat. { rewrite (step_JEL im _ _ p 0) by reflexivity. destruct (Z.eqb_spec p 0); [contradiction|reflexivity]. }
           nxt HC 2%nat. { change REFERENCE_COUNT_OFFSET with 0. eapply step_CMPIM0_heap; [exact P|exact Ha]. }
           nxt HC 3%nat. { rewrite (step_JEL im _ _ (hword s p) 0) by reflexivity. destruct (Z.eqb_spec (hword s p) 0); [contradiction|reflexivity]. }
           nxt HC 4%nat. { change REFERENCE_COUNT_OFFSET with 0. eapply step_ADDIM_heap; [exact P|exact Ha|reflexivity]. }
           jmp HC 5%nat. { cbn [step]. unfold goto_label. rewrite (HL 9%nat _ eq_refl). reflexivity. }
           nxt HC 9%nat. { reflexivity. }
           nxt HC 10%nat. { reflexivity. }
           apply steps_refl.
        -- unfold Heap.erase. destruct (Z.eqb_spec p 0); [contradiction|].
           change (Heap.hdr (Heap.m (abs_heap F s) p)) with (hword s p).
           destruct (Z.eqb_spec (hword s p) 0); [contradiction|].
           split; [reflexivity|split; [reflexivity|split; [reflexivity|]]].
           intros x Hx. cbn [abs_heap Heap.m]. change (hword s2 p) with (hword s p). rewrite Hw by auto.
           change (abs_mem (set_flags (hset s2 p (hword s p - 1)) None) x) with (abs_mem (hset s p (hword s p - 1)) x).
           now apply abs_mem_hset.
        -- exact SB.
        -- split; [apply frame_ok_set_flags, frame_ok_hset, frame_ok_set_flags, frame_ok_set_flags, FR|]. rewrite EFD by auto. exact Hf.
        -- intros a0 Hnb; exact (nonblk_same_hset s p _ Hb a0 Hnb).
Qed.

(* ---------- one iteration of erase_fields in acquire_block: load a child, erase it ---------- *)
Lemma x86_erase_field_frame pos off lc s sp h2 f F :
  let cs := MOVL TEMP HEAP off :: fst (x_erase_block (XR TEMP) lc) in
  code_at im pos cs -> labels_at im pos cs ->
  (off = 16 \/ off = 32 \/ off = 48) ->
  frame_ok s sp -> rget s HEAP = Some h2 -> is_blk h2 -> rget s FREE = Some f ->
  let c := hword s (h2 + off) in
  (c = 0 \/ is_blk c) ->
  (c <> 0 -> hword s c <> 0 -> wrap (hword s c + -1) = hword s c - 1) ->
  exists s', steps im pos s (pnth pos 12) s' /\
    st_eqB (abs_heap F s') (Heap.erase c (abs_heap F s)) /\
    same_but_temp_free s s' /\ frame_ok s' sp /\
    rget s' FREE = Some (Heap.free (Heap.erase c (abs_heap F s))) /\ nonblk_same s s'.
Proof.
  intros cs HC HL Hoff FR Hh Hb Hf c Hc Hw.
  assert (Ha : heap_addr (h2 + off)) by (apply is_blk_addr; auto; tauto).
  set (s0 := rset s TEMP (Some c)).
  assert (F0 : frame_ok s0 sp) by (apply frame_ok_rset; [discriminate|exact FR]).
  assert (HC1 : code_at im (pnth pos 1) (fst (x_erase_block (XR TEMP) lc))).
  { intros n x Hn. rewrite pnth_add. apply HC. exact Hn. }
  assert (HL1 : labels_at im (pnth pos 1) (fst (x_erase_block (XR TEMP) lc))).
  { intros n x Hn. rewrite pnth_add. apply HL. exact Hn. }
  destruct (x86_erase_reg_frame (pnth pos 1) TEMP lc s0 sp c f F HC1 HL1 F0 ltac:(cbn; discriminate)
              ltac:(cbn [lget]; apply rget_rset_same) ltac:(unfold s0; rewrite rget_rset_other by discriminate; exact Hf) Hc Hw)
    as (s' & ST & EQ & (SB1 & SB2 & SB3) & (FR' & FREE') & NB).
  assert (E0 : st_eqB (Heap.erase c (abs_heap F s0)) (Heap.erase c (abs_heap F s))).
  { apply erase_st_eqB; auto. apply abs_heap_rset_temp. }
  exists s'. split; [|split; [|split; [|split; [|split]]]].
  - eapply steps_next; [apply (HC 0%nat); reflexivity|eapply step_MOVL_heap; [exact Hh|exact Ha]|].
    fold c. fold s0.
    replace (pnth pos 12) with (pnth (pnth pos 1) (List.length (fst (x_erase_block (XR TEMP) lc)))) by (rewrite pnth_add; reflexivity).
    exact ST.
  - eapply st_eqB_trans; [exact EQ|exact E0].
  - split; [|split; [exact SB2|exact SB3]]. intros r' H1 H2. rewrite SB1 by auto. unfold s0. now rewrite rget_rset_other by congruence.
  - exact FR'.
  - rewrite FREE'. f_equal. destruct E0 as (_ & E & _). exact E.
  - exact NB.
Qed.

(* ---------- acquire_block, the new block in a register: all three cases ---------- *)
Theorem x86_acquire_block_reg_frame pos r lc s sp rv h2 F :
  let cs := fst (acquire_block (XR r) lc) in
  code_at im pos cs -> labels_at im pos cs ->
  frame_ok s sp -> r <> 0%N -> r <> HEAP -> r <> FREE -> r <> TEMP ->
  rget s HEAP = Some rv -> is_blk rv -> rget s FREE = Some h2 ->
  (hword s rv = 0 -> is_blk h2) ->
  (hword s rv = 0 -> hword s h2 <> 0 ->
     (forall off, off = 16 \/ off = 32 \/ off = 48 -> hword s (h2 + off) = 0 \/ is_blk (hword s (h2 + off))) /\
     bounded 3 s (hword s h2)) ->
  exists s', steps im pos s (pnth pos (List.length cs)) s' /\
    st_eqB (abs_heap (Heap.frontier (snd (Heap.acquire (abs_heap F s)))) s') (snd (Heap.acquire (abs_heap F s))) /\
    rget s' r = Some rv /\ fst (Heap.acquire (abs_heap F s)) = rv /\
    (forall r', r' <> r -> r' <> TEMP -> r' <> HEAP -> r' <> FREE -> rget s' r' = rget s r') /\
    stack s' = stack s /\ out s' = out s /\ frame_ok s' sp /\ nonblk_same s s'.
Proof.
  intros cs HC HL FR R0 RH RF RT Hh Hb Hf Hb2 Hch. unfold cs in *. clear cs.
  unfold acquire_block, erase_fields in *. change (nseq 0 FIELDS_PER_BLOCK) with [0;1;2]%N in *.
  cbn [fold_left x_erase_block erase_valid_object if_zero_then_else skip_if_zero compare_immediate fst snd app List.length] in *.
  assert (HA : Heap.heap (abs_heap F s) = rv) by (unfold abs_heap, reg_or0; cbn [Heap.heap]; now rewrite Hh).
  assert (FA : Heap.free (abs_heap F s) = h2) by (unfold abs_heap, reg_or0; cbn [Heap.free]; now rewrite Hf).
  pose proof (blk_heap_addr rv Hb) as Ha.
  set (s1 := rset s r (Some rv)).
  set (s2 := rset s1 HEAP (Some (hword s rv))).
  set (s3 := set_flags s2 (Some (hword s rv, 0))).
  assert (P1 : rget s1 HEAP = Some rv) by (unfold s1; rewrite rget_rset_other by (first [congruence|discriminate]); exact Hh).
  assert (ST3 : forall pc' s', steps im (pnth pos 3) s3 pc' s' -> steps im pos s pc' s').
  { intros pc' s' H.
    nxt HC 0%nat. { cbn [step]. rewrite Hh. reflexivity. }
    nxt HC 1%nat. { change NEXT_ELEMENT_OFFSET with 0. eapply step_MOVL_heap; [exact P1|rewrite Z.add_0_r; exact Ha]. }
    nxt HC 2%nat. { apply step_CMPI0. rewrite Z.add_0_r. apply rget_rset_same. }
    rewrite Z.add_0_r. exact H. }
  unfold Heap.acquire. rewrite HA, FA.
  change (Heap.hdr (Heap.m (abs_heap F s) rv)) with (hword s rv).
  change (Heap.hdr (Heap.m (abs_heap F s) h2)) with (hword s h2).
  destruct (Z.eqb_spec (hword s rv) 0) as [H0|Hn0]; cbn [negb].
  2:{ (* case 1 *)
    exists (hset s3 rv 0). split; [|split; [|split; [|split; [|split; [|split; [|split; [|split]]]]]]].
    - apply ST3.
      nxt HC 3%nat. { rewrite (step_JEL im _ _ (hword s rv) 0) by reflexivity. destruct (Z.eqb_spec (hword s rv) 0); [contradiction|reflexivity]. }
      nxt HC 4%nat. { change REFERENCE_COUNT_OFFSET with 0. eapply step_MOVIM_heap; [|exact Ha|reflexivity].
        unfold s3, s2. rewrite rget_set_flags, rget_rset_other by (first [congruence|discriminate]). apply rget_rset_same. }
      jmp HC 5%nat. { cbn [step]. unfold goto_label. rewrite (HL 53%nat _ eq_refl). reflexivity. }
      nxt HC 53%nat. { reflexivity. }
      apply steps_refl.
    - cbn [snd Heap.frontier]. split; [|split; [|split; [reflexivity|]]].
      + cbn [abs_heap Heap.heap]. unfold reg_or0. rewrite rget_hset. unfold s3, s2. rewrite rget_set_flags, rget_rset_same. reflexivity.
      + cbn [abs_heap Heap.free]. unfold reg_or0. rewrite rget_hset. unfold s3, s2, s1. rewrite rget_set_flags, !rget_rset_other by (first [congruence|discriminate]). now rewrite Hf.
      + intros x Hx. cbn [abs_heap Heap.m]. change (abs_mem (hset s3 rv 0) x) with (abs_mem (hset s rv 0) x). now apply abs_mem_hset.
    - rewrite rget_hset. unfold s3, s2. rewrite rget_set_flags, rget_rset_other by (first [congruence|discriminate]). apply rget_rset_same.
    - reflexivity.
    - intros r' A B C D. rewrite rget_hset. unfold s3, s2, s1. rewrite rget_set_flags, !rget_rset_other by (first [congruence|discriminate]). reflexivity.
    - reflexivity.
    - reflexivity.
    - apply frame_ok_hset, frame_ok_set_flags. unfold s2, s1. apply frame_ok_rset; [discriminate|]. apply frame_ok_rset; auto.
    - intros a0 Hnb; exact (nonblk_same_hset s rv 0 Hb a0 Hnb). }
  pose proof (Hb2 H0) as Hbh2. pose proof (blk_heap_addr h2 Hbh2) as Ha2.
  set (s4 := rset s3 HEAP (Some h2)).
  set (s5 := rset s4 FREE (Some (hword s h2))).
  set (s6 := set_flags s5 (Some (hword s h2, 0))).
  assert (P3F : rget s3 FREE = Some h2).
  { unfold s3, s2, s1. rewrite rget_set_flags, !rget_rset_other by (first [congruence|discriminate]). exact Hf. }
  assert (P4F : rget s4 FREE = Some h2) by (unfold s4; rewrite rget_rset_other by discriminate; exact P3F).
  assert (ST6 : forall pc' s', steps im (pnth pos 10) s6 pc' s' -> steps im pos s pc' s').
  { intros pc' s' H. apply ST3.
    jmp HC 3%nat. { rewrite (step_JEL im _ _ (hword s rv) 0) by reflexivity. rewrite H0. cbn [Z.eqb]. unfold goto_label. rewrite (HL 6%nat _ eq_refl). reflexivity. }
    nxt HC 6%nat. { reflexivity. }
    nxt HC 7%nat. { cbn [step]. rewrite P3F. reflexivity. }
    nxt HC 8%nat. { change NEXT_ELEMENT_OFFSET with 0. eapply step_MOVL_heap; [exact P4F|rewrite Z.add_0_r; exact Ha2]. }
    nxt HC 9%nat. { apply step_CMPI0. rewrite Z.add_0_r. apply rget_rset_same. }
    rewrite Z.add_0_r. exact H. }
  assert (P6r : rget s6 r = Some rv).
  { unfold s6, s5, s4, s3, s2. rg. apply rget_rset_same. }
  assert (P6H : rget s6 HEAP = Some h2).
  { unfold s6, s5. rg. apply rget_rset_same. }
  assert (P6o : forall r', r' <> r -> r' <> TEMP -> r' <> HEAP -> r' <> FREE -> rget s6 r' = rget s r').
  { intros r' A B C D. unfold s6, s5, s4, s3, s2, s1. rg. reflexivity. }
  assert (F6 : frame_ok s6 sp).
  { unfold s6, s5, s4, s3, s2, s1. repeat first [apply frame_ok_set_flags | apply frame_ok_rset; [first [assumption|discriminate]|]]. exact FR. }
  destruct (Z.eqb_spec (hword s h2) 0) as [Hf0|Hfn].
  - (* case 3: bump *)
    set (s7 := rset s6 FREE (Some h2)).
    exists (set_flags (rset s7 FREE (Some (wrap (h2 + 64)))) None).
    assert (W : wrap (h2 + 64) = h2 + 64).
    { apply wrap_id. destruct Hbh2 as (k & Hk & -> & Hhi). unfold min_int, max_int, two63, HEAP_BASE, HEAP_SIZE in *. lia. }
    split; [|split; [|split; [|split; [|split; [|split; [|split; [|split]]]]]]].
    + apply ST6.
      jmp HC 10%nat. { rewrite (step_JEL im _ _ (hword s h2) 0) by reflexivity. rewrite Hf0. cbn [Z.eqb]. unfold goto_label. rewrite (HL 49%nat _ eq_refl). reflexivity. }
      nxt HC 49%nat. { reflexivity. }
      nxt HC 50%nat. { cbn [step]. rewrite P6H. reflexivity. }
      nxt HC 51%nat. { eapply step_ADDI; [apply rget_rset_same|reflexivity]. }
      nxt HC 52%nat. { reflexivity. }
      nxt HC 53%nat. { reflexivity. }
      apply steps_refl.
    + cbn [snd Heap.frontier]. split; [|split; [|split; [reflexivity|intros; reflexivity]]].
      * cbn [abs_heap Heap.heap]. unfold reg_or0. rewrite rget_set_flags, rget_rset_other by discriminate. unfold s7. rewrite rget_rset_other by discriminate. now rewrite P6H.
      * cbn [abs_heap Heap.free]. unfold reg_or0. rewrite rget_set_flags, rget_rset_same. exact W.
    + rewrite rget_set_flags. unfold s7. rewrite !rget_rset_other by (first [congruence|discriminate]). exact P6r.
    + reflexivity.
    + intros r' A B C D. rewrite rget_set_flags. unfold s7. rewrite !rget_rset_other by (first [congruence|discriminate]). now apply P6o.
    + reflexivity.
    + reflexivity.
    + apply frame_ok_set_flags. unfold s7. do 2 (apply frame_ok_rset; [discriminate|]). exact F6.
    + intros a _; reflexivity.
  - (* case 2: recycle the first deferred block, erase its children *)
    destruct (Hch H0 Hfn) as [Hkids [B1 B2]].
    set (f' := hword s h2) in *.
    set (sm := hset s6 h2 0).
    pose proof (is_blk_nonneg h2 Hbh2) as Hh2nn.
    assert (Wm : forall x, 0 <= x -> x <> h2 -> hword sm x = hword s x).
    { intros x A B. unfold sm. rewrite hword_hset_other by auto. reflexivity. }
    assert (PmH : rget sm HEAP = Some h2) by exact P6H.
    assert (PmF : rget sm FREE = Some f') by (unfold sm, s6, s5; rg; apply rget_rset_same).
    assert (Fm : frame_ok sm sp) by (apply frame_ok_hset; exact F6).
    assert (Bm : bounded 3 sm f').
    { split; [|exact B2]. intros x Hx. destruct (Z.eq_dec x h2) as [->|Hne].
      - unfold sm. rewrite hword_hset_same. unfold min_int, max_int, two63. lia.
      - rewrite Wm by (auto using is_blk_nonneg). now apply B1. }
    set (a1 := {| Heap.m := Heap.set_hdr (Heap.m (abs_heap F s)) h2 0; Heap.heap := h2; Heap.free := f'; Heap.frontier := Heap.frontier (abs_heap F s) |}).
    assert (Em : st_eqB (abs_heap F sm) a1).
    { unfold a1. split; [|split; [|split; [reflexivity|]]].
      - cbn [abs_heap Heap.heap]. unfold reg_or0. now rewrite PmH.
      - cbn [abs_heap Heap.free]. unfold reg_or0. now rewrite PmF.
      - intros x Hx. cbn [abs_heap Heap.m]. change (abs_mem sm x) with (abs_mem (hset s h2 0) x). now apply abs_mem_hset. }
    set (c1 := hword s (h2 + 16)). set (c2 := hword s (h2 + 32)). set (c3 := hword s (h2 + 48)).
    assert (K1 : c1 = 0 \/ is_blk c1) by (apply Hkids; auto).
    assert (K2 : c2 = 0 \/ is_blk c2) by (apply Hkids; auto).
    assert (K3 : c3 = 0 \/ is_blk c3) by (apply Hkids; auto).
    assert (Cm : hword sm (h2 + 16) = c1 /\ hword sm (h2 + 32) = c2 /\ hword sm (h2 + 48) = c3).
    { repeat split; apply Wm; lia. }
    destruct Cm as (Cm1 & Cm2 & Cm3).
    (* the slots of the recycled block are not changed by the erasures *)
    assert (Slots : forall s' a, st_eqB (abs_heap F s') (Heap.erase a (abs_heap F sm)) ->
              hword s' (h2 + 16) = c1 /\ hword s' (h2 + 32) = c2 /\ hword s' (h2 + 48) = c3).
    { intros s' a (_ & _ & _ & E). specialize (E h2 Hbh2). apply (f_equal Heap.ps) in E. rewrite erase_ps_abs in E.
      cbn [abs_heap Heap.m abs_mem Heap.ps] in E. inversion E. rewrite Cm1, Cm2, Cm3 in *. auto. }
    (* first child *)
    assert (HC1 : code_at im (pnth pos 12) (MOVL TEMP HEAP 16 :: fst (x_erase_block (XR TEMP) lc))) by (apply (code_at_slice _ _ _ 12 _ HC); reflexivity).
    assert (HL1 : labels_at im (pnth pos 12) (MOVL TEMP HEAP 16 :: fst (x_erase_block (XR TEMP) lc))) by (apply (labels_at_slice _ _ _ 12 _ HL); reflexivity).
    destruct (x86_erase_field_frame (pnth pos 12) 16 lc sm sp h2 f' F HC1 HL1 ltac:(auto) Fm PmH Hbh2 PmF) as (se1 & ST1 & EQ1 & SB1 & FR1 & FREE1 & NB1).
    { rewrite Cm1. exact K1. }
    { rewrite Cm1. intros A B. apply wrap_id. destruct K1 as [|Kb]; [contradiction|]. pose proof (proj1 Bm c1 Kb). lia. }
    rewrite Cm1 in *.
    assert (Efm : Heap.free (abs_heap F sm) = f') by (destruct Em as (_ & E & _); exact E).
    set (am := abs_heap F sm) in *.
    pose proof (bounded_after_erase F 2 sm f' se1 c1 Bm ltac:(lia) Efm K1 EQ1) as Bd1. fold am in Bd1.
    destruct (Slots se1 c1 EQ1) as (_ & S12 & S13).
    assert (P1H : rget se1 HEAP = Some h2) by (destruct SB1 as (A & _); rewrite A by discriminate; exact PmH).
    (* second child *)
    assert (HC2 : code_at im (pnth pos 24) (MOVL TEMP HEAP 32 :: fst (x_erase_block (XR TEMP) (lc + 2 + 1)))) by (apply (code_at_slice _ _ _ 24 _ HC); reflexivity).
    assert (HL2 : labels_at im (pnth pos 24) (MOVL TEMP HEAP 32 :: fst (x_erase_block (XR TEMP) (lc + 2 + 1)))) by (apply (labels_at_slice _ _ _ 24 _ HL); reflexivity).
    destruct (x86_erase_field_frame (pnth pos 24) 32 (lc + 2 + 1) se1 sp h2 _ F HC2 HL2 ltac:(auto) FR1 P1H Hbh2 FREE1) as (se2 & ST2 & EQ2 & SB2 & FR2 & FREE2 & NB2).
    { rewrite S12. exact K2. }
    { rewrite S12. intros A B. apply wrap_id. destruct K2 as [|Kb]; [contradiction|]. pose proof (proj1 Bd1 c2 Kb). lia. }
    rewrite S12 in *.
    assert (EQ2' : st_eqB (abs_heap F se2) (Heap.erase c2 (Heap.erase c1 am))).
    { eapply st_eqB_trans; [exact EQ2|]. apply erase_st_eqB; auto. }
    assert (Ef1 : Heap.free (abs_heap F se1) = Heap.free (Heap.erase c1 am)) by (destruct EQ1 as (_ & E & _); exact E).
    pose proof (bounded_after_erase F 1 se1 _ se2 c2 Bd1 ltac:(lia) Ef1 K2 EQ2) as Bd2.
    assert (S23 : hword se2 (h2 + 48) = c3).
    { destruct EQ2' as (_ & _ & _ & E). specialize (E h2 Hbh2). apply (f_equal Heap.ps) in E. rewrite !erase_ps_abs in E.
      unfold am in E. cbn [abs_heap Heap.m abs_mem Heap.ps] in E. inversion E. rewrite Cm3 in *. auto. }
    assert (P2H : rget se2 HEAP = Some h2) by (destruct SB2 as (A & _); rewrite A by discriminate; exact P1H).
    (* third child *)
    assert (HC3 : code_at im (pnth pos 36) (MOVL TEMP HEAP 48 :: fst (x_erase_block (XR TEMP) (lc + 2 + 1 + 2 + 1)))) by (apply (code_at_slice _ _ _ 36 _ HC); reflexivity).
    assert (HL3 : labels_at im (pnth pos 36) (MOVL TEMP HEAP 48 :: fst (x_erase_block (XR TEMP) (lc + 2 + 1 + 2 + 1)))) by (apply (labels_at_slice _ _ _ 36 _ HL); reflexivity).
    destruct (x86_erase_field_frame (pnth pos 36) 48 (lc + 2 + 1 + 2 + 1) se2 sp h2 _ F HC3 HL3 ltac:(auto) FR2 P2H Hbh2 FREE2) as (se3 & ST3' & EQ3 & SB3 & FR3 & FREE3 & NB3).
    { rewrite S23. exact K3. }
    { rewrite S23. intros A B. apply wrap_id. destruct K3 as [|Kb]; [contradiction|]. pose proof (proj1 Bd2 c3 Kb). lia. }
    rewrite S23 in *.
    assert (EQ3' : st_eqB (abs_heap F se3) (Heap.erase c3 (Heap.erase c2 (Heap.erase c1 a1)))).
    { eapply st_eqB_trans; [exact EQ3|]. apply erase_st_eqB; auto.
      eapply st_eqB_trans; [exact EQ2'|]. apply erase_st_eqB; auto. apply erase_st_eqB; auto. }
    exists se3. split; [|split; [|split; [|split; [|split; [|split; [|split; [|split]]]]]]].
    + apply ST6.
      nxt HC 10%nat. { rewrite (step_JEL im _ _ (hword s h2) 0) by reflexivity. fold f'. destruct (Z.eqb_spec f' 0); [contradiction|reflexivity]. }
      nxt HC 11%nat. { change NEXT_ELEMENT_OFFSET with 0. eapply step_MOVIM_heap; [exact P6H|exact Ha2|reflexivity]. }
      fold sm.
      eapply steps_trans; [exact ST1|]. eapply steps_trans; [exact ST2|]. eapply steps_trans; [exact ST3'|].
      jmp HC 48%nat. { cbn [step]. unfold goto_label. rewrite (HL 52%nat _ eq_refl). reflexivity. }
      nxt HC 52%nat. { reflexivity. }
      nxt HC 53%nat. { reflexivity. }
      apply steps_refl.
    + cbn [snd]. cbn [abs_heap Heap.m abs_mem Heap.ps fold_left]. fold c1 c2 c3. fold f'.
      assert (FE : Heap.frontier (Heap.erase c3 (Heap.erase c2 (Heap.erase c1 a1))) = F).
      { destruct EQ3' as (_ & _ & E & _). rewrite <- E. reflexivity. }
      change {| Heap.m := Heap.set_hdr (abs_mem s) h2 0; Heap.heap := h2; Heap.free := f'; Heap.frontier := F |} with a1.
      rewrite FE. exact EQ3'.
    + destruct SB3 as (A3 & _), SB2 as (A2 & _), SB1 as (A1 & _). rewrite A3, A2, A1 by (first [congruence|discriminate]). exact P6r.
    + reflexivity.
    + intros r' A B C D. destruct SB3 as (A3 & _), SB2 as (A2 & _), SB1 as (A1 & _). rewrite A3, A2, A1 by auto. unfold sm. rewrite rget_hset. now apply P6o.
    + destruct SB3 as (_ & A3 & _), SB2 as (_ & A2 & _), SB1 as (_ & A1 & _). rewrite A3, A2, A1. reflexivity.
    + destruct SB3 as (_ & _ & A3), SB2 as (_ & _ & A2), SB1 as (_ & _ & A1). rewrite A3, A2, A1. reflexivity.
    + exact FR3.
    + eapply nonblk_same_trans; [|exact NB3]. eapply nonblk_same_trans; [|exact NB2]. eapply nonblk_same_trans; [|exact NB1].
      intros a0 Hnb; exact (nonblk_same_hset s h2 0 Hbh2 a0 Hnb).
Qed.

(* ---------- acquire_block, the new block in a spill slot ---------- *)
Theorem x86_acquire_block_spill_frame pos q lc s sp rv h2 F :
  let cs := fst (acquire_block (XS q) lc) in
  code_at im pos cs -> labels_at im pos cs ->
  frame_ok s sp -> slot_ok q ->
  rget s HEAP = Some rv -> is_blk rv -> rget s FREE = Some h2 ->
  (hword s rv = 0 -> is_blk h2) ->
  (hword s rv = 0 -> hword s h2 <> 0 ->
     (forall off, off = 16 \/ off = 32 \/ off = 48 -> hword s (h2 + off) = 0 \/ is_blk (hword s (h2 + off))) /\
     bounded 3 s (hword s h2)) ->
  exists s', steps im pos s (pnth pos (List.length cs)) s' /\
    st_eqB (abs_heap (Heap.frontier (snd (Heap.acquire (abs_heap F s)))) s') (snd (Heap.acquire (abs_heap F s))) /\
    sget s' sp q = Some rv /\ fst (Heap.acquire (abs_heap F s)) = rv /\
    (forall r', r' <> TEMP -> r' <> HEAP -> r' <> FREE -> rget s' r' = rget s r') /\
    (forall q', slot_ok q' -> q' <> q -> sget s' sp q' = sget s sp q') /\ out s' = out s /\ frame_ok s' sp /\ nonblk_same s s'.
Proof.
  intros cs HC HL FR Q Hh Hb Hf Hb2 Hch. unfold cs in *. clear cs.
  unfold acquire_block, erase_fields in *. change (nseq 0 FIELDS_PER_BLOCK) with [0;1;2]%N in *.
  cbn [fold_left x_erase_block erase_valid_object if_zero_then_else skip_if_zero compare_immediate fst snd app List.length] in *.
  assert (HA : Heap.heap (abs_heap F s) = rv) by (unfold abs_heap, reg_or0; cbn [Heap.heap]; now rewrite Hh).
  assert (FA : Heap.free (abs_heap F s) = h2) by (unfold abs_heap, reg_or0; cbn [Heap.free]; now rewrite Hf).
  pose proof (blk_heap_addr rv Hb) as Ha.
  set (s0 := rset s TEMP (Some rv)).
  assert (F0 : frame_ok s0 sp) by (apply frame_ok_rset; [discriminate|exact FR]).
  set (s1 := sset s0 sp q (Some rv)).
  set (s2 := rset s1 HEAP (Some (hword s rv))).
  set (s3 := set_flags s2 (Some (hword s rv, 0))).
  assert (P1 : rget s1 HEAP = Some rv) by (unfold s1, s0; rewrite rget_sset, rget_rset_other by discriminate; exact Hh).
  assert (ST3 : forall pc' s', steps im (pnth pos 4) s3 pc' s' -> steps im pos s pc' s').
  { intros pc' s' H.
    nxt HC 0%nat. { cbn [step]. rewrite Hh. reflexivity. }
    nxt HC 1%nat. { rewrite (step_MOVS_slot im s0 sp F0) by exact Q. unfold s0 at 2. rewrite rget_rset_other by discriminate. rewrite Hh. reflexivity. }
    nxt HC 2%nat. { change NEXT_ELEMENT_OFFSET with 0. eapply step_MOVL_heap; [exact P1|rewrite Z.add_0_r; exact Ha]. }
    nxt HC 3%nat. { apply step_CMPI0. rewrite Z.add_0_r. apply rget_rset_same. }
    rewrite Z.add_0_r. exact H. }
  unfold Heap.acquire. rewrite HA, FA.
  change (Heap.hdr (Heap.m (abs_heap F s) rv)) with (hword s rv).
  change (Heap.hdr (Heap.m (abs_heap F s) h2)) with (hword s h2).
  destruct (Z.eqb_spec (hword s rv) 0) as [H0|Hn0]; cbn [negb].
  2:{ (* case 1 *)
    exists (hset s3 rv 0). split; [|split; [|split; [|split; [|split; [|split; [|split; [|split]]]]]]].
    - apply ST3.
      nxt HC 4%nat. { rewrite (step_JEL im _ _ (hword s rv) 0) by reflexivity. destruct (Z.eqb_spec (hword s rv) 0); [contradiction|reflexivity]. }
      nxt HC 5%nat. { change REFERENCE_COUNT_OFFSET with 0. eapply step_MOVIM_heap; [|exact Ha|reflexivity].
        unfold s3, s2, s1, s0. rg. apply rget_rset_same. }
      jmp HC 6%nat. { cbn [step]. unfold goto_label. rewrite (HL 54%nat _ eq_refl). reflexivity. }
      nxt HC 54%nat. { reflexivity. }
      apply steps_refl.
    - cbn [snd Heap.frontier]. split; [|split; [|split; [reflexivity|]]].
      + cbn [abs_heap Heap.heap]. unfold reg_or0. rewrite rget_hset. unfold s3, s2. rewrite rget_set_flags, rget_rset_same. reflexivity.
      + cbn [abs_heap Heap.free]. unfold reg_or0. unfold s3, s2, s1, s0. rg. now rewrite Hf.
      + intros x Hx. cbn [abs_heap Heap.m]. change (abs_mem (hset s3 rv 0) x) with (abs_mem (hset s rv 0) x). now apply abs_mem_hset.
    - change (sget (hset s3 rv 0) sp q) with (sget s1 sp q). unfold s1. apply sget_sset_same.
    - reflexivity.
    - intros r' A C D. unfold s3, s2, s1, s0. rg. reflexivity.
    - intros q' Q' N. change (sget (hset s3 rv 0) sp q') with (sget s1 sp q'). unfold s1. rewrite sget_sset_other by (auto; apply FR). apply sget_rset.
    - reflexivity.
    - apply frame_ok_hset, frame_ok_set_flags. unfold s2, s1. apply frame_ok_rset; [discriminate|]. apply frame_ok_sset. exact F0.
    - intros a0 Hnb; exact (nonblk_same_hset s rv 0 Hb a0 Hnb). }
  pose proof (Hb2 H0) as Hbh2. pose proof (blk_heap_addr h2 Hbh2) as Ha2.
  set (s4 := rset s3 HEAP (Some h2)).
  set (s5 := rset s4 FREE (Some (hword s h2))).
  set (s6 := set_flags s5 (Some (hword s h2, 0))).
  assert (P3F : rget s3 FREE = Some h2).
  { unfold s3, s2, s1, s0. rg. exact Hf. }
  assert (P4F : rget s4 FREE = Some h2) by (unfold s4; rewrite rget_rset_other by discriminate; exact P3F).
  assert (ST6 : forall pc' s', steps im (pnth pos 11) s6 pc' s' -> steps im pos s pc' s').
  { intros pc' s' H. apply ST3.
    jmp HC 4%nat. { rewrite (step_JEL im _ _ (hword s rv) 0) by reflexivity. rewrite H0. cbn [Z.eqb]. unfold goto_label. rewrite (HL 7%nat _ eq_refl). reflexivity. }
    nxt HC 7%nat. { reflexivity. }
    nxt HC 8%nat. { cbn [step]. rewrite P3F. reflexivity. }
    nxt HC 9%nat. { change NEXT_ELEMENT_OFFSET with 0. eapply step_MOVL_heap; [exact P4F|rewrite Z.add_0_r; exact Ha2]. }
    nxt HC 10%nat. { apply step_CMPI0. rewrite Z.add_0_r. apply rget_rset_same. }
    rewrite Z.add_0_r. exact H. }
  assert (P6q : sget s6 sp q = Some rv).
  { change (sget s6 sp q) with (sget s1 sp q). unfold s1. apply sget_sset_same. }
  assert (P6s : forall q', slot_ok q' -> q' <> q -> sget s6 sp q' = sget s sp q').
  { intros q' Q' N. change (sget s6 sp q') with (sget s1 sp q'). unfold s1. rewrite sget_sset_other by (auto; apply FR). apply sget_rset. }
  assert (P6H : rget s6 HEAP = Some h2).
  { unfold s6, s5. rg. apply rget_rset_same. }
  assert (P6o : forall r', r' <> TEMP -> r' <> HEAP -> r' <> FREE -> rget s6 r' = rget s r').
  { intros r' B C D. unfold s6, s5, s4, s3, s2, s1, s0. rg. reflexivity. }
  assert (F6 : frame_ok s6 sp).
  { unfold s6, s5, s4, s3, s2, s1. apply frame_ok_set_flags. apply frame_ok_rset; [discriminate|]. apply frame_ok_rset; [discriminate|].
    apply frame_ok_set_flags. apply frame_ok_rset; [discriminate|]. apply frame_ok_sset. exact F0. }
  destruct (Z.eqb_spec (hword s h2) 0) as [Hf0|Hfn].
  - (* case 3: bump *)
    set (s7 := rset s6 FREE (Some h2)).
    exists (set_flags (rset s7 FREE (Some (wrap (h2 + 64)))) None).
    assert (W : wrap (h2 + 64) = h2 + 64).
    { apply wrap_id. destruct Hbh2 as (k & Hk & -> & Hhi). unfold min_int, max_int, two63, HEAP_BASE, HEAP_SIZE in *. lia. }
    split; [|split; [|split; [|split; [|split; [|split; [|split; [|split]]]]]]].
    + apply ST6.
      jmp HC 11%nat. { rewrite (step_JEL im _ _ (hword s h2) 0) by reflexivity. rewrite Hf0. cbn [Z.eqb]. unfold goto_label. rewrite (HL 50%nat _ eq_refl). reflexivity. }
      nxt HC 50%nat. { reflexivity. }
      nxt HC 51%nat. { cbn [step]. rewrite P6H. reflexivity. }
      nxt HC 52%nat. { eapply step_ADDI; [apply rget_rset_same|reflexivity]. }
      nxt HC 53%nat. { reflexivity. }
      nxt HC 54%nat. { reflexivity. }
      apply steps_refl.
    + cbn [snd Heap.frontier]. split; [|split; [|split; [reflexivity|intros; reflexivity]]].
      * cbn [abs_heap Heap.heap]. unfold reg_or0. rewrite rget_set_flags, rget_rset_other by discriminate. unfold s7. rewrite rget_rset_other by discriminate. now rewrite P6H.
      * cbn [abs_heap Heap.free]. unfold reg_or0. rewrite rget_set_flags, rget_rset_same. exact W.
    + exact P6q.
    + reflexivity.
    + intros r' B C D. rewrite rget_set_flags. unfold s7. rewrite !rget_rset_other by (first [congruence|discriminate]). now apply P6o.
    + exact P6s.
    + reflexivity.
    + apply frame_ok_set_flags. unfold s7. do 2 (apply frame_ok_rset; [discriminate|]). exact F6.
    + intros a _; reflexivity.
  - (* case 2: recycle the first deferred block, erase its children *)
    destruct (Hch H0 Hfn) as [Hkids [B1 B2]].
    set (f' := hword s h2) in *.
    set (sm := hset s6 h2 0).
    pose proof (is_blk_nonneg h2 Hbh2) as Hh2nn.
    assert (Wm : forall x, 0 <= x -> x <> h2 -> hword sm x = hword s x).
    { intros x A B. unfold sm. rewrite hword_hset_other by auto. reflexivity. }
    assert (PmH : rget sm HEAP = Some h2) by exact P6H.
    assert (PmF : rget sm FREE = Some f') by (unfold sm, s6, s5; rg; apply rget_rset_same).
    assert (Fm : frame_ok sm sp) by (apply frame_ok_hset; exact F6).
    assert (Bm : bounded 3 sm f').
    { split; [|exact B2]. intros x Hx. destruct (Z.eq_dec x h2) as [->|Hne].
      - unfold sm. rewrite hword_hset_same. unfold min_int, max_int, two63. lia.
      - rewrite Wm by (auto using is_blk_nonneg). now apply B1. }
    set (a1 := {| Heap.m := Heap.set_hdr (Heap.m (abs_heap F s)) h2 0; Heap.heap := h2; Heap.free := f'; Heap.frontier := Heap.frontier (abs_heap F s) |}).
    assert (Em : st_eqB (abs_heap F sm) a1).
    { unfold a1. split; [|split; [|split; [reflexivity|]]].
      - cbn [abs_heap Heap.heap]. unfold reg_or0. now rewrite PmH.
      - cbn [abs_heap Heap.free]. unfold reg_or0. now rewrite PmF.
      - intros x Hx. cbn [abs_heap Heap.m]. change (abs_mem sm x) with (abs_mem (hset s h2 0) x). now apply abs_mem_hset. }
    set (c1 := hword s (h2 + 16)). set (c2 := hword s (h2 + 32)). set (c3 := hword s (h2 + 48)).
    assert (K1 : c1 = 0 \/ is_blk c1) by (apply Hkids; auto).
    assert (K2 : c2 = 0 \/ is_blk c2) by (apply Hkids; auto).
    assert (K3 : c3 = 0 \/ is_blk c3) by (apply Hkids; auto).
    assert (Cm : hword sm (h2 + 16) = c1 /\ hword sm (h2 + 32) = c2 /\ hword sm (h2 + 48) = c3).
    { repeat split; apply Wm; lia. }
    destruct Cm as (Cm1 & Cm2 & Cm3).
    (* the slots of the recycled block are not changed by the erasures *)
    assert (Slots : forall s' a, st_eqB (abs_heap F s') (Heap.erase a (abs_heap F sm)) ->
              hword s' (h2 + 16) = c1 /\ hword s' (h2 + 32) = c2 /\ hword s' (h2 + 48) = c3).
    { intros s' a (_ & _ & _ & E). specialize (E h2 Hbh2). apply (f_equal Heap.ps) in E. rewrite erase_ps_abs in E.
      cbn [abs_heap Heap.m abs_mem Heap.ps] in E. inversion E. rewrite Cm1, Cm2, Cm3 in *. auto. }
    (* first child *)
    assert (HC1 : code_at im (pnth pos 13) (MOVL TEMP HEAP 16 :: fst (x_erase_block (XR TEMP) lc))) by (apply (code_at_slice _ _ _ 13 _ HC); reflexivity).
    assert (HL1 : labels_at im (pnth pos 13) (MOVL TEMP HEAP 16 :: fst (x_erase_block (XR TEMP) lc))) by (apply (labels_at_slice _ _ _ 13 _ HL); reflexivity).
    destruct (x86_erase_field_frame (pnth pos 13) 16 lc sm sp h2 f' F HC1 HL1 ltac:(auto) Fm PmH Hbh2 PmF) as (se1 & ST1 & EQ1 & SB1 & FR1 & FREE1 & NB1).
    { rewrite Cm1. exact K1. }
    { rewrite Cm1. intros A B. apply wrap_id. destruct K1 as [|Kb]; [contradiction|]. pose proof (proj1 Bm c1 Kb). lia. }
    rewrite Cm1 in *.
    assert (Efm : Heap.free (abs_heap F sm) = f') by (destruct Em as (_ & E & _); exact E).
    set (am := abs_heap F sm) in *.
    pose proof (bounded_after_erase F 2 sm f' se1 c1 Bm ltac:(lia) Efm K1 EQ1) as Bd1. fold am in Bd1.
    destruct (Slots se1 c1 EQ1) as (_ & S12 & S13).
    assert (P1H : rget se1 HEAP = Some h2) by (destruct SB1 as (A & _); rewrite A by discriminate; exact PmH).
    (* second child *)
    assert (HC2 : code_at im (pnth pos 25) (MOVL TEMP HEAP 32 :: fst (x_erase_block (XR TEMP) (lc + 2 + 1)))) by (apply (code_at_slice _ _ _ 25 _ HC); reflexivity).
    assert (HL2 : labels_at im (pnth pos 25) (MOVL TEMP HEAP 32 :: fst (x_erase_block (XR TEMP) (lc + 2 + 1)))) by (apply (labels_at_slice _ _ _ 25 _ HL); reflexivity).
    destruct (x86_erase_field_frame (pnth pos 25) 32 (lc + 2 + 1) se1 sp h2 _ F HC2 HL2 ltac:(auto) FR1 P1H Hbh2 FREE1) as (se2 & ST2 & EQ2 & SB2 & FR2 & FREE2 & NB2).
    { rewrite S12. exact K2. }
    { rewrite S12. intros A B. apply wrap_id. destruct K2 as [|Kb]; [contradiction|]. pose proof (proj1 Bd1 c2 Kb). lia. }
    rewrite S12 in *.
    assert (EQ2' : st_eqB (abs_heap F se2) (Heap.erase c2 (Heap.erase c1 am))).
    { eapply st_eqB_trans; [exact EQ2|]. apply erase_st_eqB; auto. }
    assert (Ef1 : Heap.free (abs_heap F se1) = Heap.free (Heap.erase c1 am)) by (destruct EQ1 as (_ & E & _); exact E).
    pose proof (bounded_after_erase F 1 se1 _ se2 c2 Bd1 ltac:(lia) Ef1 K2 EQ2) as Bd2.
    assert (S23 : hword se2 (h2 + 48) = c3).
    { destruct EQ2' as (_ & _ & _ & E). specialize (E h2 Hbh2). apply (f_equal Heap.ps) in E. rewrite !erase_ps_abs in E.
      unfold am in E. cbn [abs_heap Heap.m abs_mem Heap.ps] in E. inversion E. rewrite Cm3 in *. auto. }
    assert (P2H : rget se2 HEAP = Some h2) by (destruct SB2 as (A & _); rewrite A by discriminate; exact P1H).
    (* third child *)
    assert (HC3 : code_at im (pnth pos 37) (MOVL TEMP HEAP 48 :: fst (x_erase_block (XR TEMP) (lc + 2 + 1 + 2 + 1)))) by (apply (code_at_slice _ _ _ 37 _ HC); reflexivity).
    assert (HL3 : labels_at im (pnth pos 37) (MOVL TEMP HEAP 48 :: fst (x_erase_block (XR TEMP) (lc + 2 + 1 + 2 + 1)))) by (apply (labels_at_slice _ _ _ 37 _ HL); reflexivity).
    destruct (x86_erase_field_frame (pnth pos 37) 48 (lc + 2 + 1 + 2 + 1) se2 sp h2 _ F HC3 HL3 ltac:(auto) FR2 P2H Hbh2 FREE2) as (se3 & ST3' & EQ3 & SB3 & FR3 & FREE3 & NB3).
    { rewrite S23. exact K3. }
    { rewrite S23. intros A B. apply wrap_id. destruct K3 as [|Kb]; [contradiction|]. pose proof (proj1 Bd2 c3 Kb). lia. }
    rewrite S23 in *.
    assert (EQ3' : st_eqB (abs_heap F se3) (Heap.erase c3 (Heap.erase c2 (Heap.erase c1 a1)))).
    { eapply st_eqB_trans; [exact EQ3|]. apply erase_st_eqB; auto.
      eapply st_eqB_trans; [exact EQ2'|]. apply erase_st_eqB; auto. apply erase_st_eqB; auto. }
    exists se3. split; [|split; [|split; [|split; [|split; [|split; [|split; [|split]]]]]]].
    + apply ST6.
      nxt HC 11%nat. { rewrite (step_JEL im _ _ (hword s h2) 0) by reflexivity. fold f'. destruct (Z.eqb_spec f' 0); [contradiction|reflexivity]. }
      nxt HC 12%nat. { change NEXT_ELEMENT_OFFSET with 0. eapply step_MOVIM_heap; [exact P6H|exact Ha2|reflexivity]. }
      fold sm.
      eapply steps_trans; [exact ST1|]. eapply steps_trans; [exact ST2|]. eapply steps_trans; [exact ST3'|].
      jmp HC 49%nat. { cbn [step]. unfold goto_label. rewrite (HL 53%nat _ eq_refl). reflexivity. }
      nxt HC 53%nat. { reflexivity. }
      nxt HC 54%nat. { reflexivity. }
      apply steps_refl.
    + cbn [snd]. cbn [abs_heap Heap.m abs_mem Heap.ps fold_left]. fold c1 c2 c3. fold f'.
      assert (FE : Heap.frontier (Heap.erase c3 (Heap.erase c2 (Heap.erase c1 a1))) = F).
      { destruct EQ3' as (_ & _ & E & _). rewrite <- E. reflexivity. }
      change {| Heap.m := Heap.set_hdr (abs_mem s) h2 0; Heap.heap := h2; Heap.free := f'; Heap.frontier := F |} with a1.
      rewrite FE. exact EQ3'.
    + destruct SB3 as (_ & A3 & _), SB2 as (_ & A2 & _), SB1 as (_ & A1 & _). unfold sget. rewrite A3, A2, A1. exact P6q.
    + reflexivity.
    + intros r' B C D. destruct SB3 as (A3 & _), SB2 as (A2 & _), SB1 as (A1 & _). rewrite A3, A2, A1 by auto. unfold sm. rewrite rget_hset. now apply P6o.
    + intros q' Q' N. destruct SB3 as (_ & A3 & _), SB2 as (_ & A2 & _), SB1 as (_ & A1 & _). unfold sget. rewrite A3, A2, A1. now apply P6s.
    + destruct SB3 as (_ & _ & A3), SB2 as (_ & _ & A2), SB1 as (_ & _ & A1). rewrite A3, A2, A1. reflexivity.
    + exact FR3.
    + eapply nonblk_same_trans; [|exact NB3]. eapply nonblk_same_trans; [|exact NB2]. eapply nonblk_same_trans; [|exact NB1].
      intros a0 Hnb; exact (nonblk_same_hset s h2 0 Hbh2 a0 Hnb).
Qed.
End Refine.
