(* C06, heap statements: the annotation check.  `Create v : T = (env){...}` names the captured variables; the
   code generator takes them (by number) from the end of its context, the machine binds them under the names
   of the annotation.  `ann_check` asks that the annotation IS the end of the context (names included): then
   the typing context of the machine and the context of the code generator agree inside closure bodies too,
   and with them the order in which a substitution updates reference counts (the BTreeMap of `transpose`
   is ordered by name first).  Every program the linearization pass produces passes the check
   (Proof/X86HAnnLin.v). *)
From Coq Require Import List NArith Bool Lia.
From SCC Require Import Lang.AxSyn Model.Linearize Model.LinCheck Proof.LinBasics.
Import ListNotations.

Fixpoint ann_check (c : ctx) (s : stmt) {struct s} : bool :=
  match s with
  | Substitute re next => ann_check (map fst re) next
  | Call _ _ | Invoke _ _ _ _ | Exit _ => true
  | Let v t _ args next =>
      match split_lastn (List.length args) c with
      | Some (c0, _) => ann_check (c0 ++ [mkb v Prd t]) next
      | None => false
      end
  | Switch _ _ cls =>
      match split_lastn 1 c with
      | Some (c0, _) =>
          (fix go (cls : list (ident * ctx * stmt)) : bool :=
             match cls with
             | [] => true
             | (_, cc, body) :: r => ann_check (c0 ++ cc) body && go r
             end) cls
      | None => false
      end
  | Create v t (Some env) cls next =>
      match split_lastn (List.length env) c with
      | Some (c0, tl) =>
          ctx_eqb tl env
          && (fix go (cls : list (ident * ctx * stmt)) : bool :=
                match cls with
                | [] => true
                | (_, cc, body) :: r => ann_check (cc ++ env) body && go r
                end) cls
          && ann_check (c0 ++ [mkb v Cns t]) next
      | None => false
      end
  | Create _ _ None _ _ => false
  | Literal _ v next | Op _ _ _ v next => ann_check (c ++ [mkb v Ext I64]) next
  | PrintI64 _ _ next => ann_check c next
  | IfC _ _ _ t e => ann_check c t && ann_check c e
  end.

Definition ann_check_prog (p : prog) : bool := forallb (fun d => ann_check (dctx d) (dbody d)) (pdefs p).

Definition ann_clauses_sw (c0 : ctx) (cls : list clause) : bool := forallb (fun cl => ann_check (c0 ++ cl_ctx cl) (cl_body cl)) cls.
Definition ann_clauses_cr (env : ctx) (cls : list clause) : bool := forallb (fun cl => ann_check (cl_ctx cl ++ env) (cl_body cl)) cls.

Lemma ann_check_switch c v t cls :
  ann_check c (Switch v t cls) = match split_lastn 1 c with Some (c0, _) => ann_clauses_sw c0 cls | None => false end.
Proof.
  cbn [ann_check]. destruct (split_lastn 1 c) as [[c0 tl]|]; [|reflexivity].
  unfold ann_clauses_sw. induction cls as [|[[x cc] body] r IH]; [reflexivity|]. cbn [forallb cl_ctx cl_body fst snd]. now rewrite IH.
Qed.
Lemma ann_check_create c v t env cls next :
  ann_check c (Create v t (Some env) cls next) =
  match split_lastn (List.length env) c with
  | Some (c0, tl) => ctx_eqb tl env && ann_clauses_cr env cls && ann_check (c0 ++ [mkb v Cns t]) next
  | None => false
  end.
Proof.
  cbn [ann_check]. destruct (split_lastn (List.length env) c) as [[c0 tl]|]; [|reflexivity]. f_equal. f_equal.
  unfold ann_clauses_cr. induction cls as [|[[x cc] body] r IH]; [reflexivity|]. cbn [forallb cl_ctx cl_body fst snd]. now rewrite IH.
Qed.
